(* C06: DPAPINGBlob.pack = encode (cms_tree ...) ++ trailing ciphertext, and the strict DER reader
   reads the emitted template back as exactly that tree. *)
From V Require Import Prelude.Base Prelude.PyInt Prelude.PySlice Prelude.PyStr gen.K_asn1 gen.C_asn1.
From V Require Import Model.Types Model.KeyId Model.Asn1 Model.Pkcs7 Model.Blob Spec.DerSpec Spec.CmsSpec.
From V Require Import Proofs.Asn1Lib Proofs.Asn1Hdr Proofs.Asn1Tlv Proofs.Asn1Int Proofs.Asn1Oid Proofs.Asn1Str Proofs.Asn1Tree Proofs.DerFacts Proofs.C07.
From V Require Import Proofs.BlobLib Proofs.BlobPkcs7 Proofs.GkdiLib Proofs.GkdiKeyId Proofs.BlobMain.

(* ---- congruences of the serialisation *)
Lemma enc_cons_congr t l l' : encode_list l = encode_list l' -> encode (Cons t l) = encode (Cons t l').
Proof. intros H. rewrite !encode_cons, H. reflexivity. Qed.
Lemma enc_list_head x x' l : encode x = encode x' -> encode_list (x :: l) = encode_list (x' :: l).
Proof. intros H. cbn [encode_list]. rewrite H. reflexivity. Qed.
Lemma enc_list_tail x l l' : encode_list l = encode_list l' -> encode_list (x :: l) = encode_list (x :: l').
Proof. intros H. cbn [encode_list]. rewrite H. reflexivity. Qed.
Lemma enc_raw x bs : encode x = Ok bs -> encode (Raw bs) = encode x.
Proof. intros H. rewrite H. reflexivity. Qed.
Lemma enc_prim_cons t x bs : encode x = Ok bs -> encode (Prim t bs) = encode (Cons t [x]).
Proof. intros H. rewrite encode_cons. cbn [encode encode_list]. rewrite H. cbn [bind]. now rewrite app_nil_r. Qed.

(* ---- the trees the model builds, explicitly *)
Lemma a_oid_der arcs d : oid_wf arcs -> der_oid arcs d -> a_oid arcs = Ok (OID d).
Proof.
  intros Hw Hd. destruct arcs as [|a [|b rest]]; try (destruct Hw; fail). destruct Hw as (Ha & Hb & Hr).
  destruct (encode_oid_der a b rest Ha Hb Hr) as (c & Ec & Hc). pose proof (der_oid_unique _ _ _ Hc Hd). subst c.
  unfold a_oid. rewrite Ec. reflexivity.
Qed.
Lemma raw_if_spec p : raw_if p = match p with Some (x :: r) => [Raw (x :: r)] | _ => [] end.
Proof. destruct p as [[|x r]|]; reflexivity. Qed.
Lemma alg_pack_tree arcs d p : oid_wf arcs -> der_oid arcs d ->
  AlgorithmIdentifier_pack {| alg_oid := arcs; alg_params := p |} = Ok (alg_tree d p).
Proof. intros Hw Hd. unfold AlgorithmIdentifier_pack. cbn [alg_oid alg_params]. rewrite (a_oid_der _ _ Hw Hd). cbn [bind]. rewrite raw_if_spec. reflexivity. Qed.

Lemma const_oids :
  a_oid oid_enveloped_data = Ok (OID der_id_enveloped_data) /\ a_oid oid_data = Ok (OID der_id_data) /\
  a_oid oid_ms_software = Ok (OID der_id_ms_software) /\ a_oid oid_pd_sid = Ok (OID der_id_pd_sid) /\
  a_oid oid_aes256_wrap = Ok (OID der_id_aes256_wrap) /\ a_oid oid_aes256_gcm = Ok (OID der_id_aes256_gcm).
Proof. repeat split; vm_compute; reflexivity. Qed.
Lemma const_ints : a_int 2 None = Ok (INT [2]) /\ a_int 4 None = Ok (INT [4]) /\ a_int k_gcm_icv_len None = Ok (INT [16]).
Proof. repeat split; vm_compute; reflexivity. Qed.

Lemma pd_pack_tree sid sc : utf8_encode sid = Ok sc -> ProtectionDescriptor_tree sid = Ok (pd_tree sc).
Proof.
  intros E. unfold ProtectionDescriptor_tree. destruct const_oids as (_ & _ & _ & H & _). rewrite H. cbn [bind].
  unfold a_utf8. rewrite E. change (utf8_encode c_pd_sid_name) with (Ok (A:=bytes) [83; 73; 68]). cbn [bind]. reflexivity.
Qed.

(* EnvelopedData as the model packs it: the protection descriptor is spliced in as raw octets *)
Definition model_enveloped (kb pd cek d1 : bytes) (p1 : option bytes) (content d2 : bytes) (p2 : option bytes) : asn1 :=
  SEQ [ INT [2];
        SET [ CTX 2 [ INT [4]; SEQ [ OCT kb; SEQ (OID der_id_ms_software :: raw_if (Some pd)) ]; alg_tree d1 p1; OCT cek ] ];
        SEQ (OID der_id_data :: alg_tree d2 p2 :: match content with [] => [] | _ => [Prim (mk_tag 2 0 false) content] end) ].

Lemma ed_pack_tree b kb pd env d1 d2 : oid_wf (b_enc_cek_algorithm b) -> der_oid (b_enc_cek_algorithm b) d1 ->
  oid_wf (b_enc_content_algorithm b) -> der_oid (b_enc_content_algorithm b) d2 ->
  EnvelopedData_pack (blob_enveloped_data b kb pd env) =
  Ok (model_enveloped kb pd (b_enc_cek b) d1 (b_enc_cek_parameters b) (if env then b_enc_content b else []) d2 (b_enc_content_parameters b)).
Proof.
  intros Hw1 Hd1 Hw2 Hd2. destruct const_oids as (_ & Hdata & Hms & _). destruct const_ints as (H2 & H4 & _).
  unfold EnvelopedData_pack, blob_enveloped_data. cbn [ed_version ed_recipient_infos ed_eci map_res].
  change k_blob_ed_version with 2. change k_blob_kri_version with 4. rewrite H2. cbn [bind].
  unfold KEKRecipientInfo_pack. cbn [kri_version kri_kekid kri_alg kri_encrypted_key]. rewrite H4. cbn [bind].
  unfold KEKIdentifier_pack. cbn [kekid_date kekid_other kekid_key_identifier truthy bind].
  unfold OtherKeyAttribute_pack. cbn [oka_id oka_attr]. rewrite Hms. cbn [bind app].
  rewrite (alg_pack_tree _ _ _ Hw1 Hd1). cbn [bind].
  unfold EncryptedContentInfo_pack. cbn [eci_content_type eci_alg eci_content]. rewrite Hdata. cbn [bind].
  rewrite (alg_pack_tree _ _ _ Hw2 Hd2). cbn [bind]. unfold model_enveloped.
  destruct (if env then b_enc_content b else []) as [|x r]; reflexivity.
Qed.

(* replacing the raw protection-descriptor octets by the tree they encode does not change the bytes *)
Lemma model_enveloped_enc kb pd sc cek d1 p1 content d2 p2 : pd <> [] -> encode (pd_tree sc) = Ok pd ->
  encode (model_enveloped kb pd cek d1 p1 content d2 p2) = encode (enveloped_tree kb sc cek d1 p1 content d2 p2).
Proof.
  intros Hne Hpd. unfold model_enveloped, enveloped_tree, SEQ, SET, CTX.
  apply enc_cons_congr, enc_list_tail, enc_list_head, enc_cons_congr, enc_list_head, enc_cons_congr, enc_list_tail, enc_list_head.
  apply enc_cons_congr, enc_list_tail, enc_list_head, enc_cons_congr, enc_list_tail.
  destruct pd as [|x r]; [congruence|]. cbn [raw_if truthy]. apply enc_list_head. now apply enc_raw.
Qed.

Theorem blob_is_cms b env kb sc d1 d2 : wf_blob b = true ->
  KeyIdentifier_pack (b_key_identifier b) = Ok kb -> utf8_encode (b_sid b) = Ok sc ->
  der_oid (b_enc_cek_algorithm b) d1 -> der_oid (b_enc_content_algorithm b) d2 ->
  exists ci, blob_pack b env = Ok (ci ++ trailing b env) /\
    encode (cms_tree kb sc (b_enc_cek b) d1 (b_enc_cek_parameters b) (if env then b_enc_content b else []) d2 (b_enc_content_parameters b)) = Ok ci.
Proof.
  intros Hwf Ekb Esc Hd1 Hd2. destruct (blob_roundtrip b env Hwf) as (ci & Ep & _ & _ & _). exists ci. split; [exact Ep|].
  unfold wf_blob in Hwf. rewrite !andb_true_iff in Hwf. destruct Hwf as [[[[[[[Hkid Hsid] Hcek] Ha1] Hp1] Hcont] Ha2] Hp2].
  destruct (oid_okb_spec _ Ha1) as [Hw1 _]. destruct (oid_okb_spec _ Ha2) as [Hw2 _].
  unfold blob_pack in Ep. rewrite Ekb in Ep. cbn [bind] in Ep.
  unfold ProtectionDescriptor_pack in Ep. rewrite (pd_pack_tree _ _ Esc) in Ep. cbn [bind] in Ep.
  destruct (encode (pd_tree sc)) as [pd|] eqn:Epd; [|discriminate]. cbn [bind] in Ep.
  rewrite (ed_pack_tree b kb pd env d1 d2 Hw1 Hd1 Hw2 Hd2) in Ep. cbn [bind] in Ep.
  assert (Hpdne : pd <> []).
  { intros ->. unfold pd_tree, SEQ in Epd. rewrite encode_cons in Epd. destruct (encode_list _) as [body|]; [|discriminate]. cbn [bind] in Epd.
    unfold pack_tlv, pack_asn1 in Epd. destruct (pack_ident _ _ _) as [i|] eqn:Ei; [|discriminate]. cbn [bind] in Epd.
    destruct (pack_length _) as [l|]; [|discriminate]. cbn [bind] in Epd. apply Ok_inj in Epd.
    vm_compute in Ei. apply Ok_inj in Ei. subst i. discriminate. }
  rewrite (model_enveloped_enc kb pd sc _ d1 _ _ d2 _ Hpdne Epd) in Ep.
  set (ET := enveloped_tree kb sc (b_enc_cek b) d1 (b_enc_cek_parameters b) (if env then b_enc_content b else []) d2 (b_enc_content_parameters b)) in *.
  destruct (encode ET) as [edb|] eqn:Eed; [|discriminate]. cbn [bind] in Ep.
  unfold ContentInfo_pack in Ep. cbn [ci_content_type ci_content] in Ep. destruct const_oids as (Henv & _). rewrite Henv in Ep. cbn [bind] in Ep.
  destruct (encode (a_seq _)) as [cib|] eqn:Eci; [|discriminate]. cbn [bind] in Ep. apply Ok_inj in Ep.
  assert (cib = ci).
  { unfold trailing in Ep. destruct env; [now rewrite !app_nil_r in Ep|now apply app_inv_tail in Ep]. }
  subst cib. etransitivity; [|exact Eci]. unfold cms_tree. fold ET. unfold a_seq, SEQ.
  apply enc_cons_congr, enc_list_tail, enc_list_head. symmetry. unfold a_octets, opt_tag, ctx_tag, CTX.
  change k_ci_content_tagnum with 0. change c_class_context with 2. now apply enc_prim_cons.
Qed.

(* ---- what _encrypt_blob emits *)
Lemma utf8_cp_wfb c a : utf8_cp c = Ok a -> wfb a = true.
Proof.
  unfold utf8_cp. destruct (negb (scalar c)) eqn:Es; [discriminate|]. apply negb_false_iff in Es. unfold scalar, is_surrogate in Es.
  destruct (c <? 128) eqn:E1; [|destruct (c <? 2048) eqn:E2; [|destruct (c <? 65536) eqn:E3]]; intros H; apply Ok_inj in H; subst a;
    repeat (apply wfb_cons; split; [lia|]); reflexivity.
Qed.
Lemma utf8_encode_wfb s : forall b, utf8_encode s = Ok b -> wfb b = true.
Proof.
  induction s as [|c s IH]; cbn [utf8_encode]; intros b H; [apply Ok_inj in H; subst; reflexivity|].
  destruct (utf8_cp c) as [a|] eqn:Ea; [|discriminate]. cbn [bind] in H. destruct (utf8_encode s) as [b'|]; [|discriminate]. cbn [bind] in H.
  apply Ok_inj in H. subst b. rewrite wfb_app, (utf8_cp_wfb _ _ Ea), (IH _ eq_refl). reflexivity.
Qed.

Lemma const_der_oids : der_oid oid_aes256_wrap der_id_aes256_wrap /\ der_oid oid_aes256_gcm der_id_aes256_gcm.
Proof.
  split.
  - destruct (encode_oid_der 2 16 [840; 1; 101; 3; 4; 1; 45] ltac:(lia) ltac:(lia) ltac:(repeat constructor; lia)) as (c & E & H).
    vm_compute in E. apply Ok_inj in E. subst c. exact H.
  - destruct (encode_oid_der 2 16 [840; 1; 101; 3; 4; 1; 46] ltac:(lia) ltac:(lia) ltac:(repeat constructor; lia)) as (c & E & H).
    vm_compute in E. apply Ok_inj in E. subst c. exact H.
Qed.

Definition wf_emit (kid : key_identifier) (sid : pystr) (iv cek content : bytes) : bool :=
  wf_kid kid && wfb (kid_rkid kid) && wfb (kid_key_info kid) && sid_okb sid &&
  wfb iv && (len iv <? 65536) && wfb cek && (len cek <? U32) && wfb content && (len content <? U32).

Theorem emitted_is_template kid sid iv cek content : wf_emit kid sid iv cek content = true ->
  exists b kb sc ci, encrypt_blob_fields kid sid iv cek content = Ok b /\ wf_blob b = true /\
    KeyIdentifier_pack kid = Ok kb /\ utf8_encode sid = Ok sc /\
    b_enc_cek_algorithm b = oid_aes256_wrap /\ b_enc_cek_parameters b = None /\ b_enc_content_algorithm b = oid_aes256_gcm /\
    blob_pack b true = Ok ci /\ encode (emitted_tree kb sc cek iv content) = Ok ci /\
    strict_parse ci = Some [emitted_tree kb sc cek iv content].
Proof.
  unfold wf_emit. rewrite !andb_true_iff. intros [[[[[[[[[Hkid Hwr] Hwk] Hsid] Hwiv] Hliv] Hwcek] Hlcek] Hwc] Hlc].
  destruct (kid_pack_len _ Hkid) as (kb & Ekb & _ & Hlkb).
  pose proof Hsid as Hsid'. unfold sid_okb in Hsid'. destruct (utf8_encode sid) as [sc|] eqn:Esc; [|discriminate].
  (* GCM parameters *)
  destruct const_ints as (_ & _ & H16).
  assert (Egp : exists p, gcm_parameters iv = Ok p /\ encode (gcm_params_tree iv) = Ok p /\ p <> [] /\ len p <= len iv + 512).
  { unfold gcm_parameters. rewrite H16. cbn [bind].
    change (a_seq [a_octets iv None; INT [16]]) with (gcm_params_tree iv).
    destruct (oct_node iv None low_oct ltac:(unfold BIG; lia)) as (eo & Eeo & To & _). pose proof (tlv_len _ _ _ To) as Hlo.
    destruct (int_node 16 ltac:(lia)) as (ei & _ & Eei & Ti & _). pose proof (tlv_len _ _ _ Ti) as Hli. change (len [16]) with 1 in Hli.
    assert (Eb : encode_list [a_octets iv None; INT [16]] = Ok (eo ++ ei ++ [])) by (repeat (apply encode_list_cons; [assumption|]); reflexivity).
    pose proof (len_nonneg iv).
    destruct (node_ok seq_tag (eo ++ ei ++ []) low_seq) as (p & Ep & Tp); [rewrite !len_app, len_nil; unfold BIG; lia|].
    pose proof (tlv_len _ _ _ Tp) as Hlp. rewrite !len_app, len_nil in Hlp.
    exists p. unfold gcm_params_tree, SEQ. rewrite encode_cons. change (OCT iv) with (a_octets iv None). rewrite Eb. cbn [bind].
    split; [exact Ep|]. split; [exact Ep|]. split; [intros ->; cbn in Hlp; lia|lia]. }
  destruct Egp as (p & Egp & Etp & Hpne & Hlp).
  set (b := {| b_key_identifier := kid; b_sid := sid; b_enc_cek := cek; b_enc_cek_algorithm := oid_aes256_wrap; b_enc_cek_parameters := None;
               b_enc_content := content; b_enc_content_algorithm := oid_aes256_gcm; b_enc_content_parameters := Some p |}).
  assert (Hwfb : wf_blob b = true).
  { unfold wf_blob, b. cbn [b_key_identifier b_sid b_enc_cek b_enc_cek_algorithm b_enc_cek_parameters b_enc_content b_enc_content_algorithm b_enc_content_parameters].
    rewrite Hkid, Hsid. cbn [andb obytes_okb].
    assert (H1 : oid_okb oid_aes256_wrap = true) by (vm_compute; reflexivity).
    assert (H2 : oid_okb oid_aes256_gcm = true) by (vm_compute; reflexivity). rewrite H1, H2.
    destruct p as [|x r]; [congruence|]. cbn [length Nat.eqb negb andb]. unfold U32 in *. pose proof (len_nonneg iv).
    destruct (len cek <? 4294967296) eqn:?; [|lia]. destruct (len content <? 4294967296) eqn:?; [|lia].
    destruct (len (x :: r) <? 4294967296) eqn:?; [reflexivity|lia]. }
  destruct const_der_oids as [Hd1 Hd2].
  destruct (blob_is_cms b true kb sc _ _ Hwfb Ekb Esc Hd1 Hd2) as (ci & Ep & Ecms).
  destruct (blob_roundtrip b true Hwfb) as (ci' & Ep' & _ & _ & Hlci). rewrite Ep in Ep'. apply Ok_inj in Ep'. unfold trailing in *. rewrite !app_nil_r in *. subst ci'.
  exists b, kb, sc, ci. unfold encrypt_blob_fields. rewrite Egp. cbn [bind]. fold b.
  split; [reflexivity|]. split; [exact Hwfb|]. split; [exact Ekb|]. split; [reflexivity|]. do 3 (split; [reflexivity|]). split; [exact Ep|].
  (* the template with the parameters as a tree encodes to the same octets *)
  assert (Eem : encode (emitted_tree kb sc cek iv content) = Ok ci).
  { rewrite <- Ecms. unfold emitted_tree, cms_tree, enveloped_tree, alg_tree, b. cbn [b_enc_cek b_enc_cek_parameters b_enc_content b_enc_content_parameters].
    unfold SEQ, SET, CTX. apply enc_cons_congr, enc_list_tail, enc_list_head, enc_cons_congr, enc_list_head, enc_cons_congr, enc_list_tail, enc_list_tail, enc_list_head.
    apply enc_cons_congr, enc_list_tail, enc_list_head, enc_cons_congr, enc_list_tail.
    destruct p as [|x r]; [congruence|]. apply enc_list_head. symmetry. now apply enc_raw. }
  split; [exact Eem|].
  destruct (nested (emitted_tree kb sc cek iv content)) as (bs & Ebs & Hsp).
  - apply (wf_from_encode _ ci); [|exact Eem|apply BIG_lt_P126; exact Hlci].
    pose proof (KeyIdentifier_pack_wfb kid kb Hwr Hwk Ekb) as Hwkb. pose proof (utf8_encode_wfb _ _ Esc) as Hwsc.
    unfold emitted_tree, pd_tree, gcm_params_tree, SEQ, SET, CTX, INT, OCT, OID, UTF8, U, tag_wf. cbn [shape_ok t_class t_num t_cons].
    destruct content as [|x r]; cbn [shape_ok t_class t_num t_cons]; repeat split; cbn [t_class t_num t_cons]; try lia; try assumption; try reflexivity.
  - rewrite Eem in Ebs. apply Ok_inj in Ebs. subst bs. exact Hsp.
Qed.

(* ---- any well-formed blob without algorithm parameters: the strict reader returns the template *)
Lemma der_oid_wfb arcs d : oid_wf arcs -> der_oid arcs d -> wfb d = true.
Proof.
  intros Hw Hd. destruct (oid_leaf arcs Hw) as (c & Ec & _ & Hwc).
  destruct arcs as [|a [|b rest]]; try (destruct Hw; fail). destruct Hw as (Ha & Hb & Hr).
  destruct (encode_oid_der a b rest Ha Hb Hr) as (c' & Ec' & Hc'). rewrite Ec in Ec'. apply Ok_inj in Ec'. subst c'.
  now rewrite <- (der_oid_unique _ _ _ Hc' Hd).
Qed.
Definition wfb_blob (b : blob) : bool :=
  wfb (kid_rkid (b_key_identifier b)) && wfb (kid_key_info (b_key_identifier b)) && wfb (b_enc_cek b) && wfb (b_enc_content b).

Theorem blob_strict_parse b env kb sc d1 d2 : wf_blob b = true -> wfb_blob b = true ->
  b_enc_cek_parameters b = None -> b_enc_content_parameters b = None ->
  KeyIdentifier_pack (b_key_identifier b) = Ok kb -> utf8_encode (b_sid b) = Ok sc ->
  der_oid (b_enc_cek_algorithm b) d1 -> der_oid (b_enc_content_algorithm b) d2 ->
  exists ci, blob_pack b env = Ok (ci ++ trailing b env) /\
    strict_parse ci = Some [cms_tree kb sc (b_enc_cek b) d1 None (if env then b_enc_content b else []) d2 None].
Proof.
  intros Hwf Hwb Hp1 Hp2 Ekb Esc Hd1 Hd2. destruct (blob_is_cms b env kb sc d1 d2 Hwf Ekb Esc Hd1 Hd2) as (ci & Ep & Ecms).
  destruct (blob_roundtrip b env Hwf) as (ci' & Ep' & _ & _ & Hlci). rewrite Ep in Ep'. apply Ok_inj in Ep'.
  assert (ci' = ci) by (unfold trailing in Ep'; destruct env; [now rewrite !app_nil_r in Ep'|now apply app_inv_tail in Ep']). subst ci'.
  exists ci. split; [exact Ep|]. rewrite Hp1, Hp2 in Ecms.
  unfold wfb_blob in Hwb. rewrite !andb_true_iff in Hwb. destruct Hwb as [[[Hwr Hwk] Hwcek] Hwcont].
  unfold wf_blob in Hwf. rewrite !andb_true_iff in Hwf. destruct Hwf as [[[[[[[Hkid _] _] Ha1] _] _] Ha2] _].
  destruct (oid_okb_spec _ Ha1) as [Hw1 _]. destruct (oid_okb_spec _ Ha2) as [Hw2 _].
  pose proof (KeyIdentifier_pack_wfb _ kb Hwr Hwk Ekb) as Hwkb. pose proof (utf8_encode_wfb _ _ Esc) as Hwsc.
  pose proof (der_oid_wfb _ _ Hw1 Hd1) as Hwd1. pose proof (der_oid_wfb _ _ Hw2 Hd2) as Hwd2.
  set (T := cms_tree kb sc (b_enc_cek b) d1 None (if env then b_enc_content b else []) d2 None) in *.
  destruct (nested T) as (bs & Ebs & Hsp).
  - apply (wf_from_encode _ ci); [|exact Ecms|apply BIG_lt_P126; exact Hlci].
    unfold T, cms_tree, enveloped_tree, alg_tree, pd_tree, SEQ, SET, CTX, INT, OCT, OID, UTF8, U, tag_wf. cbn [shape_ok t_class t_num t_cons].
    destruct env; [destruct (b_enc_content b) as [|x r] eqn:Ec|]; cbn [shape_ok t_class t_num t_cons];
      repeat split; cbn [t_class t_num t_cons]; try lia; try assumption; try reflexivity.
  - rewrite Ecms in Ebs. apply Ok_inj in Ebs. subst bs. exact Hsp.
Qed.
