(* Verification trailer (_rpc/_verification.py): round trips of the four command kinds and of the
   command loop, totality and linear tick bound of VerificationTrailer.unpack on arbitrary octets. *)
From V Require Import Prelude.Base Prelude.PyInt Prelude.PySlice Model.Pdu Model.Request Model.RpcLoop Model.Bind Model.Verification.
From V Require Import Proofs.RpcLib Proofs.RpcKernels Proofs.RpcPdu Proofs.RpcBind Proofs.RpcTotal Proofs.RpcTotalLib.

(* ---- the 16-bit command field: 14 bits of command type, 2 bits of flags ---- *)
Lemma land_lt_14 c : 0 <= c < 16384 -> Z.land c 16383 = c.
Proof. intros H. change 16383 with (Z.ones 14). rewrite Z.land_ones by lia. apply Z.mod_small. change (2 ^ 14) with 16384. lia. Qed.

Lemma cmd_field_split c f : 0 <= c < 16384 -> mem f [0; 16384; 32768; 49152] = true ->
  0 <= Z.lor c f < 65536 /\ Z.land (Z.lor c f) 16383 = c /\ Z.land (Z.lor c f) 49152 = f.
Proof.
  intros Hc Hf. pose proof (land_lt_14 c Hc) as Hl.
  assert (Hhi : forall k, Z.land 16383 k = 0 -> Z.land c k = 0).
  { intros k Hk. rewrite <- Hl, <- Z.land_assoc, Hk. apply Z.land_0_r. }
  assert (Hsum : forall k, Z.land 16383 k = 0 -> Z.lor c k = c + k).
  { intros k Hk. specialize (Hhi k Hk). rewrite <- (Z.lxor_lor _ _ Hhi). symmetry. now apply Z.add_nocarry_lxor. }
  assert (Hk : Z.land 16383 f = 0 /\ Z.land f 16383 = 0 /\ Z.land f 49152 = f /\ 0 <= f <= 49152).
  { apply mem_cases in Hf. cbn [In] in Hf. destruct Hf as [<-|[<-|[<-|[<-|[]]]]]; repeat split; try reflexivity; lia. }
  destruct Hk as (K1 & K2 & K3 & K4).
  rewrite !Z.land_lor_distr_l, Hl, K2, K3, (Hhi 49152 eq_refl), (Hsum f K1), Z.lor_0_r, Z.lor_0_l.
  split; [lia|]. split; reflexivity.
Qed.

(* ---- Command.unpack on a generic encoding: the registry dispatch as a function of (type, value) ---- *)
Definition cmd_kind_of_wire (command_type : Z) (value : bytes) : res cmd_kind :=
  if command_type =? c_CMD_BITMASK_1 then Ok (CK_Bitmask (le_val value))
  else if command_type =? c_CMD_PCONTEXT then
    let* interface_id := syntax_id_unpack value in
    let* transfer_syntax := syntax_id_unpack (slice (Some 20) None value) in
    Ok (CK_PContext interface_id transfer_syntax)
  else if command_type =? c_CMD_HEADER2 then
    let* b0 := index value 0 in
    let* packet_type := enum_lookup c_PacketType_values b0 in
    let* dr := data_rep_unpack (slice (Some 4) (Some 8) value) in
    Ok (CK_Header2 packet_type dr (le_val (slice (Some 8) (Some 12) value))
          (le_val (slice (Some 12) (Some 14) value)) (le_val (slice (Some 14) (Some 16) value)))
  else Ok CK_Generic.

Lemma len_command_generic_pack c f v : len (command_generic_pack c f v) = 4 + len v.
Proof. unfold command_generic_pack. cbn [concat]. lens. lia. Qed.

Lemma command_generic_rt c f v rest :
  0 <= c < 16384 -> mem f [0; 16384; 32768; 49152] = true -> in_range 2 (len v) = true ->
  command_unpack (command_generic_pack c f v ++ rest) =
  let* kind := cmd_kind_of_wire c v in Ok {| cmd_kind_of := kind; cmd_command := c; cmd_flags := f; cmd_value := v |}.
Proof.
  intros Hc Hf Hv. destruct (cmd_field_split c f Hc Hf) as (Hr & Ht & Hfl).
  unfold command_unpack, command_generic_pack. rewrite len_concat_app. cbn [app].
  rewrite !slice_None_lo. field_try 0%nat. field_try 1%nat.
  rewrite le_val_le by (rewrite P_2; lia). rewrite (le_val_le' _ _ Hv).
  field_try 2%nat. unfold k_cmd_type_mask, k_cmd_flags_mask. rewrite Ht, Hfl.
  reflexivity.
Qed.

Lemma len_header2_value pt dr call ctx op : len (header2_value pt dr call ctx op) = 16.
Proof. unfold header2_value. cbn [concat]. lens. rewrite len_data_rep_pack. reflexivity. Qed.

(* the typed fields come back from the value pack emits *)
Lemma cmd_kind_of_wire_wf c : wf_command c = true ->
  cmd_kind_of_wire (command_type c) (command_value c) = Ok (cmd_kind_of c) /\ 0 <= command_type c < 16384.
Proof.
  unfold wf_command, cmd_kind_of_wire, command_type, command_value. intros H. wf_split.
  destruct (cmd_kind_of c) as [|bits|i t|pt dr call ctx op] eqn:Ek.
  - wf_split. split; [|lia].
    match goal with Hm : negb (mem _ c_CMD_registry) = true |- _ => unfold mem, c_CMD_registry in Hm; cbn [existsb] in Hm end.
    unfold c_CMD_BITMASK_1, c_CMD_PCONTEXT, c_CMD_HEADER2.
    destruct (cmd_command c =? 1) eqn:E1; [lia|]. destruct (cmd_command c =? 2) eqn:E2; [lia|].
    destruct (cmd_command c =? 3) eqn:E3; [lia|]. reflexivity.
  - split; [|unfold c_CMD_BITMASK_1; lia]. change (c_CMD_BITMASK_1 =? c_CMD_BITMASK_1) with true. cbv iota.
    rewrite le_val_le' by assumption. reflexivity.
  - split; [|unfold c_CMD_PCONTEXT; lia]. wf_split.
    change (c_CMD_PCONTEXT =? c_CMD_BITMASK_1) with false. change (c_CMD_PCONTEXT =? c_CMD_PCONTEXT) with true. cbv iota.
    assert (Hi : wf_syntax_id i = true) by assumption. assert (Ht : wf_syntax_id t = true) by assumption.
    rewrite (syntax_id_rt i _ Hi). cbn [bind]. rewrite (syntax_id_adv i _ Hi).
    rewrite <- (app_nil_r (syntax_id_pack t)). rewrite (syntax_id_rt t _ Ht). reflexivity.
  - split; [|unfold c_CMD_HEADER2; lia]. wf_split.
    change (c_CMD_HEADER2 =? c_CMD_BITMASK_1) with false. change (c_CMD_HEADER2 =? c_CMD_PCONTEXT) with false.
    change (c_CMD_HEADER2 =? c_CMD_HEADER2) with true. cbv iota.
    assert (Hm : mem pt c_PacketType_values = true) by assumption. assert (Hdr : wf_data_rep dr = true) by assumption.
    assert (Hpt : 0 <= pt < 256) by (pose proof (mem_cases _ _ Hm) as Hin; cbn in Hin; lia).
    pose proof (len_data_rep_pack dr) as Hd.
    unfold header2_value. rewrite le1 by lia.
    index1. rewrite (enum_lookup_mem _ _ Hm). cbn [bind].
    fields. rewrite (data_rep_unpack_pack _ Hdr). cbn [bind].
    rewrite !le_val_le' by assumption. reflexivity.
Qed.

(* C12: a well-formed command decodes to itself with the raw value cache filled in *)
Lemma command_rt c rest : wf_command c = true -> command_unpack (command_pack c ++ rest) = Ok (command_norm c).
Proof.
  intros H. destruct (cmd_kind_of_wire_wf c H) as [Hk Hc]. unfold wf_command in H. wf_split.
  unfold command_pack. rewrite command_generic_rt by assumption. rewrite Hk. reflexivity.
Qed.
Lemma command_unpack_pack c : wf_command c = true -> command_unpack (command_pack c) = Ok (command_norm c).
Proof. intros H. rewrite <- (app_nil_r (command_pack c)). now apply command_rt. Qed.
Lemma command_pack_norm c : command_pack (command_norm c) = command_pack c.
Proof. destruct c as [k cm f v]. destruct k; reflexivity. Qed.
Lemma command_norm_idem c : command_norm (command_norm c) = command_norm c.
Proof. destruct c as [k cm f v]. destruct k; reflexivity. Qed.
Lemma wf_command_norm c : wf_command c = true -> wf_command (command_norm c) = true.
Proof. destruct c as [k cm f v]. destruct k; intros H; exact H. Qed.
Lemma command_adv c rest :
  slice (Some (4 + len (cmd_value (command_norm c)))) None (command_pack c ++ rest) = rest.
Proof. cbn [command_norm cmd_value]. unfold command_pack. rewrite <- (len_command_generic_pack (command_type c) (cmd_flags c)). apply slice_app_r. Qed.

(* ---- the command loop ---- *)
Lemma vt_loop_S f view acc ticks : vt_loop (S f) view acc ticks =
  if k_vt_guard (len view) then Raise ValueError else
  let* cmd := command_unpack view in
  let view := slice (Some (4 + len (cmd_value cmd))) None view in
  if negb (k_vt_end_mask (cmd_flags cmd) c_SEC_VT_COMMAND_END =? 0) then Ok (acc ++ [cmd], ticks + 1)
  else vt_loop f view (acc ++ [cmd]) (ticks + 1).
Proof. reflexivity. Qed.

Lemma len_command_pack c : len (command_pack c) = 4 + len (command_value c).
Proof. unfold command_pack. apply len_command_generic_pack. Qed.

Lemma vt_loop_rt : forall cmds fuel rest acc t, wf_commands cmds = true -> (length cmds <= fuel)%nat ->
  vt_loop fuel (concat (map command_pack cmds) ++ rest) acc t = Ok (acc ++ map command_norm cmds, t + len cmds).
Proof.
  induction cmds as [|c r IH]; intros fuel rest acc t Hwf Hf; [discriminate|].
  destruct fuel as [|fuel]; [cbn in Hf; lia|]. rewrite vt_loop_S.
  cbn [map concat]. rewrite <- app_assoc.
  assert (Hg : k_vt_guard (len (command_pack c ++ concat (map command_pack r) ++ rest)) = false).
  { apply vt_guard_spec. rewrite len_app, len_command_pack. pose proof (len_nonneg (command_value c)).
    pose proof (len_nonneg (concat (map command_pack r) ++ rest)). lia. }
  rewrite Hg. unfold k_vt_end_mask.
  destruct r as [|c2 r2].
  - cbn [wf_commands] in Hwf. apply andb_true_iff in Hwf. destruct Hwf as [Hc He].
    rewrite (command_rt c _ Hc). cbn [bind]. cbn [command_norm cmd_flags]. rewrite He.
    cbn [map app len length Z.of_nat]. reflexivity.
  - assert (Hwf' : wf_command c = true /\ (Z.land (cmd_flags c) c_SEC_VT_COMMAND_END =? 0) = true /\ wf_commands (c2 :: r2) = true).
    { change (wf_commands (c :: c2 :: r2)) with (wf_command c && (Z.land (cmd_flags c) c_SEC_VT_COMMAND_END =? 0) && wf_commands (c2 :: r2)) in Hwf.
      apply andb_true_iff in Hwf. destruct Hwf as [Hwf H3]. apply andb_true_iff in Hwf. tauto. }
    destruct Hwf' as (Hc & He & Hr).
    rewrite (command_rt c _ Hc). cbn [bind]. rewrite command_adv. cbn [command_norm cmd_flags]. rewrite He. cbn [negb].
    rewrite (IH fuel rest (acc ++ [command_norm c]) (t + 1) Hr ltac:(cbn [length] in *; lia)).
    rewrite <- app_assoc. cbn [app map]. rewrite (len_cons c). f_equal. f_equal. lia.
Qed.

Lemma len_commands_ge cmds : len cmds <= len (concat (map command_pack cmds)).
Proof. induction cmds as [|c r IH]; [reflexivity|]. cbn [map concat]. rewrite len_app, len_cons, len_command_pack.
  pose proof (len_nonneg (command_value c)). lia. Qed.

Lemma len_vt_signature : len c_VT_signature = 8.
Proof. reflexivity. Qed.

(* C12: VerificationTrailer.unpack (VerificationTrailer.pack vt) for any number of commands, the last one carrying END *)
Theorem verification_trailer_rt cmds fuel : wf_commands cmds = true -> (length (verification_trailer_pack cmds) <= fuel)%nat ->
  verification_trailer_unpack fuel (verification_trailer_pack cmds) = Ok (map command_norm cmds, len cmds).
Proof.
  intros Hwf Hf. unfold verification_trailer_unpack, verification_trailer_pack. pose proof len_vt_signature as Hsig.
  rewrite slice_None_lo. field_try 0%nat. rewrite bytes_eqb_refl. cbn [negb].
  tail_try 1%nat. cbn [concat]. rewrite app_nil_r.
  rewrite <- (app_nil_r (concat _)).
  apply (vt_loop_rt cmds fuel [] [] 0 Hwf).
  pose proof (len_commands_ge cmds). revert Hf. unfold verification_trailer_pack. cbn [concat]. rewrite !app_length. unfold len in *. lia.
Qed.
Lemma verification_trailer_pack_norm cmds : verification_trailer_pack (map command_norm cmds) = verification_trailer_pack cmds.
Proof. unfold verification_trailer_pack. rewrite map_map. rewrite (map_ext _ command_pack command_pack_norm). reflexivity. Qed.

(* ---- arbitrary octets: the loop consumes at least 4 octets per command ---- *)
Lemma noof_cmd_kind_of_wire ct v : noof (cmd_kind_of_wire ct v).
Proof.
  unfold cmd_kind_of_wire. apply noof_if; [exact I|]. apply noof_if.
  { apply noof_bind; [apply noof_syntax_id_unpack|intros ? _]. apply noof_bind; [apply noof_syntax_id_unpack|intros ? _]. exact I. }
  apply noof_if; [|exact I].
  apply noof_bind; [apply noof_index|intros ? _]. apply noof_bind; [apply noof_enum_lookup|intros ? _].
  apply noof_bind; [apply noof_data_rep_unpack|intros ? _]. exact I.
Qed.
Lemma command_unpack_wire view : command_unpack view =
  let cmd_field := le_val (slice None (Some 2) view) in
  let value := slice (Some 4) (Some (4 + le_val (slice (Some 2) (Some 4) view))) view in
  let* kind := cmd_kind_of_wire (k_cmd_type_mask cmd_field) value in
  Ok {| cmd_kind_of := kind; cmd_command := k_cmd_type_mask cmd_field; cmd_flags := k_cmd_flags_mask cmd_field; cmd_value := value |}.
Proof. reflexivity. Qed.
Lemma noof_command_unpack view : noof (command_unpack view).
Proof. rewrite command_unpack_wire. cbv zeta. apply noof_bind; [apply noof_cmd_kind_of_wire|intros ? _]. exact I. Qed.

Lemma vt_loop_total : forall fuel view acc t, len view < 4 * Z.of_nat fuel ->
  noof (vt_loop fuel view acc t) /\
  forall cs t', vt_loop fuel view acc t = Ok (cs, t') -> t < t' /\ 4 * (t' - t) <= len view /\ len cs = len acc + (t' - t).
Proof.
  induction fuel as [|fuel IH]; intros view acc t Hf.
  - pose proof (len_nonneg view). lia.
  - rewrite vt_loop_S. destruct (k_vt_guard (len view)) eqn:Eg; [split; [exact I|discriminate]|].
    apply vt_guard_spec in Eg.
    pose proof (noof_command_unpack view) as Hno. destruct (command_unpack view) as [cmd|e] eqn:Ec; cbn [bind].
    2:{ split; [|discriminate]. destruct e; exact Hno. }
    cbv zeta. destruct (negb _) eqn:Eend.
    + split; [exact I|]. intros cs t' H. apply Ok_inj in H. assert (Hs : cs = acc ++ [cmd] /\ t' = t + 1) by (split; congruence).
      destruct Hs as [-> ->]. rewrite len_app, len_cons, len_nil. lia.
    + pose proof (len_nonneg (cmd_value cmd)).
      assert (Hl : len (slice (Some (4 + len (cmd_value cmd))) None view) <= len view - 4).
      { rewrite len_slice_from by lia. lia. }
      destruct (IH (slice (Some (4 + len (cmd_value cmd))) None view) (acc ++ [cmd]) (t + 1) ltac:(lia)) as [IH1 IH2].
      split; [exact IH1|]. intros cs t' Hok. specialize (IH2 _ _ Hok). rewrite len_app, len_cons, len_nil in IH2. lia.
Qed.

(* C12: on ANY octet string VerificationTrailer.unpack returns (fuel > len / 4 suffices); a successful decode
   made t >= 1 iterations, kept t commands, and 8 + 4 t <= len *)
Theorem verification_trailer_unpack_total bs fuel : len bs < Z.of_nat fuel ->
  verification_trailer_unpack fuel bs <> Raise OutOfFuel /\
  forall cs t, verification_trailer_unpack fuel bs = Ok (cs, t) -> 1 <= t /\ 8 + 4 * t <= len bs /\ len cs = t.
Proof.
  intros Hf. unfold verification_trailer_unpack.
  destruct (negb _) eqn:Es; [split; discriminate|]. apply negb_false_iff, bytes_eqb_eq in Es.
  assert (H8 : 8 <= len bs).
  { pose proof (len_slice_le bs None (Some 8)) as Hl. rewrite Es in Hl. exact Hl. }
  assert (Hl : len (slice (Some 8) None bs) = len bs - 8) by (rewrite len_slice_from; lia).
  destruct (vt_loop_total fuel (slice (Some 8) None bs) [] 0 ltac:(lia)) as [H1 H2].
  split; [now apply noof_spec|]. intros cs t H. specialize (H2 _ _ H). change (len (@nil command)) with 0 in H2. lia.
Qed.

Lemma len_lt_S (bs : bytes) : len bs < Z.of_nat (S (length bs)).
Proof. unfold len. lia. Qed.
