(* Tie theorems (C11), parameter and public-key structures of _gkdi.py: KDFParameters.pack/unpack/hash_algorithm,
   FFCDHParameters.pack/unpack, FFCDHKey.pack/unpack, ECDHKey.pack/unpack/curve_and_hash.  The regenerated syntax
   (gen/F_gkdi.v), run in the world Flow/World_gkdi_codecs.v, computes exactly the model functions of Model/Gkdi.v the C11
   theorems are about, for ALL arguments.  `cls` of KDFParameters.unpack / ECDHKey.unpack is not used by the body (only in
   the error message): any value; the other unpackers read cls.magic: the class token. *)
From V Require Import Prelude.Base Prelude.PyInt Prelude.PySlice Prelude.PyStr Prelude.PyAst Prelude.PyWorld gen.C_gkdi gen.K_gkdi gen.F_gkdi.
From V Require Import Model.Types Model.Crypto Model.KeyId Model.Gkdi Flow.World_gkdi_codecs Proofs.Flow_gkdi_codecs_lib.
Local Open Scope string_scope.
Local Open Scope list_scope.
Local Open Scope Z_scope.

Lemma flow_kdfp_pack fuel name :
  run W fuel k_flow_kdfp_pack [VO (OKdfp name)] = lift_b (KDFParameters_pack name).
Proof.
  unfold KDFParameters_pack, encode_utf16z, lift_b. cbn.
  destruct (utf16le_encode (name ++ [0])) as [bn|e]; cbn; [|reflexivity].
  destruct (to_bytes_le 4 (len bn)) as [fl|e]; cbn; [|reflexivity].
  rewrite app_nil_r. reflexivity.
Qed.

Lemma flow_kdfp_unpack fuel c data :
  run W fuel k_flow_kdfp_unpack [c; VB data] = (let* n := KDFParameters_unpack data in Ok (VO (OKdfp n))).
Proof.
  unfold KDFParameters_unpack. change beqb with zs_eqb. cbn. unfold test. cbn.
  destruct (zs_eqb (slice None (Some 8) data) _); cbn.
  2: reflexivity.
  destruct (zs_eqb (slice (Some 12) (Some 16) data) _); cbn; [|reflexivity].
  destruct (utf16le_decode _); reflexivity.
Qed.

Lemma flow_kdfp_hash_algorithm fuel name :
  run W fuel k_flow_kdfp_hash_algorithm [VO (OKdfp name)] = (let* h := hash_algorithm name in Ok (VO (OHash h))).
Proof.
  unfold hash_algorithm, str_eqb. change beqb with zs_eqb. cbn. unfold test. cbn.
  destruct (zs_eqb name [83; 72; 65; 49]); cbn; [reflexivity|].
  unfold test; cbn.
  destruct (zs_eqb name [83; 72; 65; 50; 53; 54]); cbn; [reflexivity|].
  unfold test; cbn.
  destruct (zs_eqb name [83; 72; 65; 51; 56; 52]); cbn; [reflexivity|].
  unfold test; cbn.
  destruct (zs_eqb name [83; 72; 65; 53; 49; 50]); cbn; reflexivity.
Qed.

Lemma flow_ffk_pack fuel k :
  run W fuel k_flow_ffk_pack [VO (OFfk k)] = lift_b (FFCDHKey_pack k).
Proof.
  unfold FFCDHKey_pack, lift_b. go. tbe.
  dres_all. rewrite app_nil_r. reflexivity.
Qed.

Lemma flow_ffk_unpack fuel data :
  run W fuel k_flow_ffk_unpack [VO (OCls CFfk); VB data] = (let* k := FFCDHKey_unpack data in Ok (VO (OFfk k))).
Proof.
  unfold FFCDHKey_unpack, k_ffcdhkey_short. cbv zeta. change beqb with zs_eqb. go.
  deq; [|reflexivity].
  dlt; reflexivity.
Qed.

Lemma flow_ffp_pack fuel p :
  run W fuel k_flow_ffp_pack [VO (OFfp p)] = lift_b (FFCDHParameters_pack p).
Proof.
  unfold FFCDHParameters_pack, lift_b. go. tbe.
  dres_all. rewrite app_nil_r. reflexivity.
Qed.

Lemma flow_ffp_unpack fuel data :
  run W fuel k_flow_ffp_unpack [VO (OCls CFfp); VB data] = (let* p := FFCDHParameters_unpack data in Ok (VO (OFfp p))).
Proof.
  unfold FFCDHParameters_unpack. cbv zeta. change beqb with zs_eqb. go.
  deq; reflexivity.
Qed.

Lemma flow_eck_pack fuel k :
  run W fuel k_flow_eck_pack [VO (OEck k)] = lift_b (ECDHKey_pack k).
Proof.
  unfold ECDHKey_pack, curve_of_name, str_eqb, lift_b. change beqb with zs_eqb. go.
  dres. dres. unfold dict_lookup. go.
  deq. { lenc. go. dres. rewrite app_nil_r. reflexivity. }
  deq. { lenc. go. dres. rewrite app_nil_r. reflexivity. }
  deq. { lenc. go. dres. rewrite app_nil_r. reflexivity. }
  reflexivity.
Qed.

Lemma flow_eck_unpack fuel c data :
  run W fuel k_flow_eck_unpack [c; VB data] = (let* k := ECDHKey_unpack data in Ok (VO (OEck k))).
Proof.
  unfold ECDHKey_unpack, curve_of_id. cbv zeta. go. unfold dict_lookup. go.
  destruct (le_val (slice None (Some 4) data) =? 827016005); go. { lenc. go. reflexivity. }
  destruct (le_val (slice None (Some 4) data) =? 860570437); go. { lenc. go. reflexivity. }
  destruct (le_val (slice None (Some 4) data) =? 894124869); go. { lenc. go. reflexivity. }
  reflexivity.
Qed.

Lemma flow_eck_curve_and_hash fuel k :
  run W fuel k_flow_eck_curve_and_hash [VO (OEck k)] =
  (let* (c, h) := curve_and_hash k in Ok (VT [VO (OCurve c); VO (OHash h)])).
Proof.
  unfold curve_and_hash, curve_of_name, str_eqb. change beqb with zs_eqb. go. unfold codecs_sub, dict_lookup. go.
  deq; [reflexivity|]. deq; [reflexivity|]. deq; reflexivity.
Qed.
