(* C15: how Handshake.send_pdu classifies a reply (bind_nak, fault, a PDU of another type, alter_context_resp where bind_ack is awaited ..)
   IS the class check of _process_response: Model/Seal.v's process_pdu_as (tied to the regenerated source for every resp_type by
   Proofs/Flow_client_seal.flow_process_response_as) at resp_type = BindAck / AlterContextResponse, encrypt_offsets = None (the bind stage),
   applied to the PDU the reply decodes to. *)
From V Require Import Prelude.Base Prelude.PyInt Prelude.PySlice gen.K_client gen.C_client gen.C_rpc.
From V Require Import Model.Pdu Model.Request Model.Bind Model.RpcDispatch Model.Handshake Model.Seal Proofs.C15.

(* what Handshake.v keeps of a decoded PDU; PDUs that are no bind-stage reply at all (Request, Bind, AlterContext) are "another type",
   like a Response *)
Definition ack_triple (m : bind_ack) : list Z * Z * option bytes :=
  (map cr_result (ba_results m), h_packet_flags (ba_header m),
   match ba_sec_trailer m with Some st => Some (st_auth_value st) | None => None end).
Definition reply_of_pdu (p : pdu) : reply :=
  match p with
  | PBindAck m => let '(rs, fl, tk) := ack_triple m in RBindAck rs fl tk
  | PAlterContextResp m => let '(rs, fl, tk) := ack_triple m in RAlterResp rs fl tk
  | PBindNak _ => RBindNak
  | PFault _ => RFault
  | _ => RResponse
  end.
Definition expect_ptype (e : expect) : Z := match e with EBindAck => c_PT_BIND_ACK | EAlterResp => c_PT_ALTER_CONTEXT_RESP end.
Definition triple_of_pdu (p : pdu) : list Z * Z * option bytes :=
  match p with PBindAck m | PAlterContextResp m => ack_triple m | _ => ([], 0, None) end.

(* the class check alone *)
Lemma send_pdu_class_check sent e s p rest :
  server s = reply_of_pdu p :: rest ->
  fst (send_pdu sent e s) = (let* q := class_check (expect_ptype e) p in Ok (triple_of_pdu q)).
Proof.
  intro Hs. unfold send_pdu. cbn [server snoc_trace]. rewrite Hs.
  destruct p, e; cbn; try reflexivity;
    unfold ack_triple; cbn; reflexivity.
Qed.

(* encrypt_offsets = None: nothing is unsealed and nothing is refused for lack of a trailer *)
Lemma process_pdu_as_bind_stage k (unwrap : unwrap_fn) auth sign hdr resp :
  process_pdu_as k unwrap auth None sign hdr resp
  = (let* (p, _) := pdu_unpack (S (length resp)) resp in class_check k p).
Proof.
  unfold process_pdu_as, unseal, k_unwrap_guard, k_reject_unsealed.
  replace (auth && false && negb (h_auth_len hdr =? 0)) with false by (destruct auth; reflexivity).
  replace (auth && false && negb (negb (h_auth_len hdr =? 0))) with false by (destruct auth; reflexivity).
  cbn [bind]. destruct (pdu_unpack _ resp) as [[p t]|e]; cbn [bind]; [|reflexivity].
  destruct (class_check k p); reflexivity.
Qed.

(* send_pdu on the abstraction of what a reply decodes to = _process_response on that reply, with the expected class *)
Theorem send_pdu_classification (unwrap : unwrap_fn) auth sign hdr resp p t sent e s rest :
  pdu_unpack (S (length resp)) resp = Ok (p, t) -> server s = reply_of_pdu p :: rest ->
  fst (send_pdu sent e s)
  = (let* q := process_pdu_as (expect_ptype e) unwrap auth None sign hdr resp in Ok (triple_of_pdu q)).
Proof.
  intros Hp Hs. rewrite process_pdu_as_bind_stage, Hp. cbn [bind]. exact (send_pdu_class_check sent e s p rest Hs).
Qed.
