(* C15: how Handshake.send_pdu classifies a reply (bind_nak, fault, a PDU of another type, alter_context_resp where bind_ack is awaited ..)
   IS the class check of _process_response: Model/Seal.v's process_pdu_as (tied to the regenerated source for every resp_type by
   Proofs/Flow_client_seal.flow_process_response_as) at resp_type = BindAck / AlterContextResponse, encrypt_offsets = None (the bind stage),
   applied to the PDU the reply decodes to. *)
From V Require Import Prelude.Base Prelude.PyInt Prelude.PySlice gen.K_client gen.C_client gen.C_rpc.
From V Require Import Model.Pdu Model.Request Model.Bind Model.RpcDispatch Model.Handshake Model.Seal Proofs.C15.

(* what Handshake.v keeps of a decoded PDU; PDUs that are no bind-stage reply at all (Request, Bind, AlterContext) are "another type",
   like a Response *)
Definition ack_triple (m : bind_ack) : list Z * Z * option bytes :=
  (map cr_result (ba_results m), h_packet_flags (ba_header m),
   match ba_sec_trailer m with Some st => Some (st_auth_value st) | None => None end).
Definition reply_of_pdu (p : pdu) : reply :=
  match p with
  | PBindAck m => let '(rs, fl, tk) := ack_triple m in RBindAck rs fl tk
  | PAlterContextResp m => let '(rs, fl, tk) := ack_triple m in RAlterResp rs fl tk
  | PBindNak _ => RBindNak
  | PFault _ => RFault
  | _ => RResponse
  end.
Definition expect_ptype (e : expect) : Z := match e with EBindAck => c_PT_BIND_ACK | EAlterResp => c_PT_ALTER_CONTEXT_RESP end.
Definition triple_of_pdu (p : pdu) : list Z * Z * option bytes :=
  match p with PBindAck m | PAlterContextResp m => ack_triple m | _ => ([], 0, None) end.

(* what PDU.unpack returns decodes in Handshake.v's sense: ContextResult.unpack has looked every result code up in the enum *)
Lemma for_range_inv {St} (P : St -> Prop) (body : St -> res (St * Z)) :
  (forall s s' t, body s = Ok (s', t) -> P s -> P s') ->
  forall fuel n s0 t0 s t, P s0 -> for_range fuel n body s0 t0 = Ok (s, t) -> P s.
Proof.
  intros Hb. induction fuel as [|f IH]; intros n s0 t0 s t H0 H; cbn [for_range] in H.
  - destruct (n <=? 0); [apply Ok_inj in H; inversion H; subst; exact H0|discriminate].
  - destruct (n <=? 0); [apply Ok_inj in H; inversion H; subst; exact H0|].
    destruct (body s0) as [[s1 t1]|e] eqn:Eb; [|discriminate]. cbn [bind] in H.
    eapply IH; [|exact H]. eapply Hb; eassumption.
Qed.

Lemma context_result_unpack_code view r : context_result_unpack view = Ok r -> result_code_ok (cr_result r) = true.
Proof.
  unfold context_result_unpack, enum_lookup. destruct (mem _ c_ContextResultCode_values) eqn:Em; [|discriminate]. cbn [bind].
  destruct (uuid_of_bytes_le _); [|discriminate]. cbn [bind]. intro H. apply Ok_inj in H. subst r. cbn [cr_result]. exact Em.
Qed.

Lemma bind_ack_unpack_codes fuel view h st m t :
  bind_ack_unpack fuel view h st = Ok (m, t) -> forallb result_code_ok (map cr_result (ba_results m)) = true.
Proof.
  unfold bind_ack_unpack. destruct (PyStr.utf8_decode _); [|discriminate]. cbn [bind].
  destruct (index _ 0); [|discriminate]. cbn [bind].
  match goal with |- (let* _ := for_range ?f ?n ?b ?s0 ?t0 in _) = _ -> _ => destruct (for_range f n b s0 t0) as [[sx tx]|e] eqn:Ef; [|discriminate] end.
  cbn [bind]. intro H. apply Ok_inj in H. inversion H; subst. cbn [ba_results].
  eapply (for_range_inv (fun st : bytes * list context_result => forallb result_code_ok (map cr_result (snd st)) = true)) in Ef; [exact Ef| |reflexivity].
  intros [v acc] s' t' Hb Hacc. destruct (context_result_unpack v) as [r|e] eqn:Er; [|discriminate]. cbn [bind] in Hb.
  apply Ok_inj in Hb. inversion Hb; subst. cbn [snd] in *. rewrite map_app, forallb_app, Hacc. cbn [map forallb andb].
  rewrite (context_result_unpack_code _ _ Er). reflexivity.
Qed.

Lemma pdu_unpack_decodes fuel data p t : pdu_unpack fuel data = Ok (p, t) -> reply_decodes (reply_of_pdu p) = true.
Proof.
  unfold pdu_unpack. destruct (pdu_split data) as [[[view h] st]|e]; [|discriminate]. cbn [bind].
  destruct (registry_lookup _); [|discriminate]. cbn [bind].
  repeat match goal with |- (if ?c then _ else _) = _ -> _ => destruct c end; intro H;
  match type of H with
  | (let* _ := ?x in _) = _ => destruct x as [r|?] eqn:Ex; cbn [bind] in H; [|discriminate]
  | _ => discriminate
  end; try destruct r as [m tm]; apply Ok_inj in H; inversion H; subst; try reflexivity;
  cbn [reply_of_pdu ack_triple reply_decodes]; eapply bind_ack_unpack_codes; exact Ex.
Qed.

(* the class check alone *)
Lemma send_pdu_class_check sent e s p rest :
  reply_decodes (reply_of_pdu p) = true ->
  server s = reply_of_pdu p :: rest ->
  fst (send_pdu sent e s) = (let* q := class_check (expect_ptype e) p in Ok (triple_of_pdu q)).
Proof.
  intros Hd Hs. unfold send_pdu. cbn [server snoc_trace]. rewrite Hs, Hd. cbn [negb].
  destruct p, e; cbn; try reflexivity;
    unfold ack_triple; cbn; reflexivity.
Qed.

(* encrypt_offsets = None: nothing is unsealed and nothing is refused for lack of a trailer *)
Lemma process_pdu_as_bind_stage k (unwrap : unwrap_fn) auth sign hdr resp :
  process_pdu_as k unwrap auth None sign hdr resp
  = (let* (p, _) := pdu_unpack (S (length resp)) resp in class_check k p).
Proof.
  unfold process_pdu_as, unseal, k_unwrap_guard, k_reject_unsealed.
  replace (auth && false && negb (h_auth_len hdr =? 0)) with false by (destruct auth; reflexivity).
  replace (auth && false && negb (negb (h_auth_len hdr =? 0))) with false by (destruct auth; reflexivity).
  cbn [bind]. destruct (pdu_unpack _ resp) as [[p t]|e]; cbn [bind]; [|reflexivity].
  destruct (class_check k p); reflexivity.
Qed.

(* send_pdu on the abstraction of what a reply decodes to = _process_response on that reply, with the expected class *)
Theorem send_pdu_classification (unwrap : unwrap_fn) auth sign hdr resp p t sent e s rest :
  pdu_unpack (S (length resp)) resp = Ok (p, t) -> server s = reply_of_pdu p :: rest ->
  fst (send_pdu sent e s)
  = (let* q := process_pdu_as (expect_ptype e) unwrap auth None sign hdr resp in Ok (triple_of_pdu q)).
Proof.
  intros Hp Hs. rewrite process_pdu_as_bind_stage, Hp. cbn [bind].
  exact (send_pdu_class_check sent e s p rest (pdu_unpack_decodes _ _ _ _ Hp) Hs).
Qed.
