(* C08: an accepted string differs from the canonical string of its SID only by leading zeros. *)
From V Require Import Prelude.Base Prelude.PyInt gen.K_sd Model.Types Model.SecDesc Proofs.SecDescK Proofs.SecDescStr.

(* drop leading '0' characters while more than one character remains *)
Fixpoint strip0 (p : pystr) : pystr :=
  match p with
  | c :: ((_ :: _) as r) => if c =? 48 then strip0 r else p
  | _ => p
  end.

Lemma pow2_S n : 2 ^ Z.of_nat (S n) = 2 * 2 ^ Z.of_nat n.
Proof. rewrite Nat2Z.inj_succ, Z.pow_succ_r by lia. reflexivity. Qed.

Lemma digits_fuel_indep f : forall f' z, 0 <= z < 2 ^ Z.of_nat (S f) -> z < 2 ^ Z.of_nat (S f') ->
  digits_lsb (S f) z = digits_lsb (S f') z.
Proof.
  induction f as [|f IH]; intros f' z Hz Hz'.
  - change (2 ^ Z.of_nat 1) with 2 in Hz. cbn [digits_lsb]. destruct (z <? 10) eqn:E; [reflexivity|lia].
  - cbn [digits_lsb]. destruct (z <? 10) eqn:E; [reflexivity|]. f_equal.
    destruct f' as [|f'].
    + change (2 ^ Z.of_nat 1) with 2 in Hz'. lia.
    + rewrite pow2_S in Hz, Hz'. pose proof (Z.pow_pos_nonneg 2 (Z.of_nat (S f)) ltac:(lia) ltac:(lia)).
      pose proof (Z.pow_pos_nonneg 2 (Z.of_nat (S f')) ltac:(lia) ltac:(lia)).
      apply IH; lia.
Qed.

Lemma digits_lsb_S f z : digits_lsb (S f) z = (z mod 10) :: (if z <? 10 then [] else digits_lsb f (z / 10)).
Proof. reflexivity. Qed.

Lemma dec_snoc a d : 0 < a -> 0 <= d <= 9 -> dec (10 * a + d) = dec a ++ [48 + d].
Proof.
  intros Ha Hd. unfold dec.
  set (F := Z.to_nat (Z.log2 (10 * a + d))).
  pose proof (fuel_enough (10 * a + d) ltac:(lia)) as HF. fold F in HF.
  assert (HF1 : (1 <= F)%nat).
  { unfold F. assert (3 <= Z.log2 (10 * a + d)) by (apply Z.log2_le_pow2; lia). lia. }
  destruct F as [|F']; [lia|].
  rewrite digits_lsb_S. destruct (10 * a + d <? 10) eqn:E; [lia|].
  replace ((10 * a + d) mod 10) with d by lia. replace ((10 * a + d) / 10) with a by lia.
  rewrite (digits_fuel_indep F' (Z.to_nat (Z.log2 a)) a).
  - cbn [rev]. rewrite map_app. reflexivity.
  - rewrite pow2_S in HF. pose proof (Z.pow_pos_nonneg 2 (Z.of_nat (S F')) ltac:(lia) ltac:(lia)). lia.
  - apply fuel_enough. lia.
Qed.

Lemma dec_val_pos_acc p : forall acc, 0 < acc -> forallb is_digit p = true -> 0 < dec_val acc p.
Proof.
  induction p as [|c p IH]; intros acc Ha H; cbn [dec_val]; [assumption|].
  cbn [forallb] in H. apply andb_true_iff in H as [Hc Hp]. apply IH; [|assumption]. unfold is_digit in Hc. lia.
Qed.
Lemma dec_val_head_pos c p : forallb is_digit (c :: p) = true -> c <> 48 -> 0 < dec_val 0 (c :: p).
Proof.
  intros H N. cbn [forallb] in H. apply andb_true_iff in H as [Hc Hp]. cbn [dec_val].
  apply dec_val_pos_acc; [|assumption]. unfold is_digit in Hc. lia.
Qed.

(* a digit string without leading zero (or "0" itself) is the decimal of its value *)
Definition canonical (q : pystr) : Prop := match q with [] => False | [c] => True | c :: _ => c <> 48 end.

Lemma dec_canonical q : forallb is_digit q = true -> canonical q -> dec (dec_val 0 q) = q.
Proof.
  induction q as [|c q IH] using rev_ind; intros H Hc; [contradiction|].
  rewrite forallb_app in H. apply andb_true_iff in H as [Hq Hc1]. cbn [forallb] in Hc1. unfold is_digit in Hc1.
  rewrite dec_val_app. destruct q as [|c0 q].
  - cbn [dec_val app]. rewrite dec_small by lia. f_equal. lia.
  - assert (N : c0 <> 48) by (destruct q; exact Hc).
    rewrite dec_snoc by (try apply dec_val_head_pos; assumption || lia).
    rewrite IH; [f_equal; f_equal; lia|assumption|destruct q; [exact I|exact N]].
Qed.

Lemma strip0_cons2 c c' p : strip0 (c :: c' :: p) = if c =? 48 then strip0 (c' :: p) else c :: c' :: p.
Proof. reflexivity. Qed.

Lemma strip0_spec p : digit_str p = true ->
  forallb is_digit (strip0 p) = true /\ canonical (strip0 p) /\ dec_val 0 (strip0 p) = dec_val 0 p /\
  exists k, p = repeat 48 k ++ strip0 p.
Proof.
  destruct p as [|c p]; [discriminate|]. cbn [digit_str]. revert c.
  induction p as [|c' p IH]; intros c H.
  - cbn [strip0 canonical]. split; [exact H|]. split; [exact I|]. split; [reflexivity|]. exists 0%nat. reflexivity.
  - rewrite strip0_cons2. destruct (c =? 48) eqn:E.
    + assert (c = 48) by lia. subst c. cbn [forallb] in H. apply andb_true_iff in H as [_ H].
      destruct (IH c' H) as (I1 & I2 & I3 & k & I4).
      split; [exact I1|]. split; [exact I2|]. split; [rewrite I3; reflexivity|].
      exists (S k). cbn [repeat app]. now rewrite <- I4.
    + split; [exact H|]. split; [cbn [canonical]; lia|]. split; [reflexivity|]. exists 0%nat. reflexivity.
Qed.

Lemma dec_of_digit_str p : digit_str p = true -> dec (dec_val 0 p) = strip0 p.
Proof.
  intros H. destruct (strip0_spec p H) as (I1 & I2 & I3 & _). rewrite <- I3. now apply dec_canonical.
Qed.

(* the canonical string of an accepted SID is the accepted string with every numeric part stripped of leading zeros *)
Lemma accepted_up_to_zeros str s : sid_parse str = Ok s ->
  exists (r : Z) (a : pystr) (subs : list pystr),
    str = [83; 45; r; 45] ++ a ++ concat (map (cons 45) subs) /\
    sid_print s = [83; 45; r; 45] ++ strip0 a ++ concat (map (fun p => 45 :: strip0 p) subs).
Proof.
  intros H. destruct (sid_parse_accepts str s H) as (r & a & subs & Hstr & Hr & Ha & Hn & Hd & E1 & E2 & E3 & _).
  exists r, a, subs. split; [assumption|]. unfold sid_print. rewrite E1, E2, E3.
  unfold is_digit in Hr. rewrite dec_small by lia. replace (48 + (r - 48)) with r by lia.
  rewrite (dec_of_digit_str a Ha). cbn [app]. do 4 f_equal.
  rewrite map_map. apply (f_equal (fun x => strip0 a ++ x)). apply (f_equal (@concat Z)). apply map_ext_in. intros p Hp. cbv beta. f_equal. apply dec_of_digit_str.
  rewrite forallb_forall in Hd. auto.
Qed.
