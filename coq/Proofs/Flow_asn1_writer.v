(* Tie theorems: the methods of ASN1Writer (_asn1.py, regenerated in gen/F_asn1.v) run by PyAstMut.run_mut in Flow/World_asn1.v:
   the result AND the writer afterwards (first parameter), against the model's encoders of Model/Asn1.v.
   A writer is Writer data tag parent (Flow/World_asn1.v); `self._data.extend(..)` is written back into self through the
   attribute path (PyAstMut.place_set). *)
From V Require Import Prelude.PyAst.
From V Require Import Prelude.Base Prelude.PyInt Prelude.PySlice Prelude.PyStr Prelude.PyWorld Prelude.PyAstMut gen.K_asn1 gen.C_asn1 gen.F_asn1.
From V Require Import Model.Asn1 Flow.World_asn1.
Local Open Scope string_scope.
Local Open Scope list_scope.
Local Open Scope Z_scope.
Arguments len : simpl never.
Arguments pack_asn1 : simpl never.
Arguments pack_boolean : simpl never.
Arguments pack_integer : simpl never.
Arguments pack_enumerated : simpl never.
Arguments pack_octet_string : simpl never.
Arguments pack_object_identifier : simpl never.
Arguments pack_utf8_string : simpl never.
Arguments pack_generalized_time : simpl never.
Arguments with_tag : simpl never.

Lemma tag_of_vopt t : tag_of (vopt_tag t) = Some t. Proof. destruct t; reflexivity. Qed.
Lemma writer_of_vopt p : writer_of (vopt_writer p) = Some p. Proof. destruct p; reflexivity. Qed.
Lemma with_tag_vopt t k : with_tag (vopt_tag t) k = Some (lift_b (k t)).
Proof. unfold with_tag. rewrite tag_of_vopt. reflexivity. Qed.
Lemma vb_truth (b : bool) : negb ((if b then 1 else 0) =? 0) = b. Proof. destruct b; reflexivity. Qed.

(* __init__ on a fresh object (object.__new__(ASN1Writer)) *)
Lemma flow_writer_init fuel t p :
  run_mut MW fuel k_flow_writer_init [VO ONewWriter; vopt_tag t; vopt_writer p] =
  Ok (VN, [VO (OWriter (Writer [] t p)); vopt_tag t; vopt_writer p]).
Proof. cbn. rewrite tag_of_vopt. cbn. rewrite writer_of_vopt. reflexivity. Qed.

Lemma flow_writer_enter fuel w :
  run_mut MW fuel k_flow_writer_enter [VO (OWriter w)] = Ok (VO (OWriter w), [VO (OWriter w)]).
Proof. reflexivity. Qed.

(* __exit__: nothing for a root writer; a child appends its TLV to (its snapshot of) the parent: writer_exit *)
Lemma flow_writer_exit fuel w a b c :
  run_mut MW fuel k_flow_writer_exit [VO (OWriter w); a; b; c] =
  match wr_parent w with
  | Some p => let* p' := writer_exit w p in
              Ok (VN, [VO (OWriter (Writer (wr_data w) (wr_tag w) (Some p'))); a; b; c])
  | None => Ok (VN, [VO (OWriter w); a; b; c])
  end.
Proof.
  destruct w as [d t p]. unfold writer_exit, pack_tlv. cbn. destruct p as [[pd pt pp]|]; cbn; [|reflexivity].
  destruct t as [t|]; cbn; [|reflexivity]. rewrite vb_truth.
  destruct (pack_asn1 _ _ _ _); reflexivity.
Qed.

Lemma flow_writer_push_sequence fuel w t :
  run_mut MW fuel k_flow_writer_push_sequence [VO (OWriter w); vopt_tag t] =
  Ok (VO (OWriter (writer_push (opt_tag t seq_tag) w)), [VO (OWriter w); VO (OTag (opt_tag t seq_tag))]).
Proof. destruct t; reflexivity. Qed.

Lemma flow_writer_push_set fuel w t :
  run_mut MW fuel k_flow_writer_push_set [VO (OWriter w); vopt_tag t] =
  Ok (VO (OWriter (writer_push (opt_tag t set_tag) w)), [VO (OWriter w); VO (OTag (opt_tag t set_tag))]).
Proof. destruct t; reflexivity. Qed.

Lemma flow_writer_write_raw fuel w b :
  run_mut MW fuel k_flow_writer_write_raw [VO (OWriter w); VB b] = Ok (VN, [VO (OWriter (wr_extend w b)); VB b]).
Proof. destruct w. reflexivity. Qed.

Lemma flow_writer_get_data fuel w :
  run_mut MW fuel k_flow_writer_get_data [VO (OWriter w)] = (let* d := writer_get_data w in Ok (VB d, [VO (OWriter w)])).
Proof. destruct w as [d [t|] [p|]]; reflexivity. Qed.

Ltac wr w := destruct w as [? ? ?]; cbn; rewrite with_tag_vopt; cbn; unfold writer_write;
  match goal with |- context [lift_b ?x] => destruct x end; reflexivity.

Lemma flow_writer_write_boolean fuel w v t :
  run_mut MW fuel k_flow_writer_write_boolean [VO (OWriter w); VI v; vopt_tag t] =
  (let* w' := writer_write (pack_boolean (negb (v =? 0)) t) w in Ok (VN, [VO (OWriter w'); VI v; vopt_tag t])).
Proof. wr w. Qed.
Lemma flow_writer_write_integer fuel w v t :
  run_mut MW fuel k_flow_writer_write_integer [VO (OWriter w); VI v; vopt_tag t] =
  (let* w' := writer_write (pack_integer v t) w in Ok (VN, [VO (OWriter w'); VI v; vopt_tag t])).
Proof. wr w. Qed.
Lemma flow_writer_write_enumerated fuel w v t :
  run_mut MW fuel k_flow_writer_write_enumerated [VO (OWriter w); VI v; vopt_tag t] =
  (let* w' := writer_write (pack_enumerated v t) w in Ok (VN, [VO (OWriter w'); VI v; vopt_tag t])).
Proof. wr w. Qed.
Lemma flow_writer_write_octet_string fuel w b t :
  run_mut MW fuel k_flow_writer_write_octet_string [VO (OWriter w); VB b; vopt_tag t] =
  (let* w' := writer_write (pack_octet_string b t) w in Ok (VN, [VO (OWriter w'); VB b; vopt_tag t])).
Proof. wr w. Qed.
Lemma flow_writer_write_object_identifier fuel w arcs t :
  run_mut MW fuel k_flow_writer_write_object_identifier [VO (OWriter w); VO (OOid arcs); vopt_tag t] =
  (let* w' := writer_write (pack_object_identifier arcs t) w in Ok (VN, [VO (OWriter w'); VO (OOid arcs); vopt_tag t])).
Proof. wr w. Qed.
Lemma flow_writer_write_utf8_string fuel w s t :
  run_mut MW fuel k_flow_writer_write_utf8_string [VO (OWriter w); VS s; vopt_tag t] =
  (let* w' := writer_write (pack_utf8_string s t) w in Ok (VN, [VO (OWriter w'); VS s; vopt_tag t])).
Proof. wr w. Qed.
Lemma flow_writer_write_generalized_time fuel w s t :
  run_mut MW fuel k_flow_writer_write_generalized_time [VO (OWriter w); VS s; vopt_tag t] =
  (let* w' := writer_write (pack_generalized_time s t) w in Ok (VN, [VO (OWriter w'); VS s; vopt_tag t])).
Proof. wr w. Qed.

(* the with-protocol of the world (asn1_exit, used at the call sites `with w.push_sequence() as c:`) agrees with __exit__:
   the owner the child was pushed from gets what __exit__ gives the child's parent *)
Lemma asn1_exit_is_exit child owner :
  asn1_exit (VO (OWriter child)) (Some (VO (OWriter owner))) =
  (let* o' := writer_exit child owner in Ok (Some (VO (OWriter o')))).
Proof. reflexivity. Qed.
