(* C01: protect then unprotect returns the plaintext (offline paths of Model/Client.v, nonce mode and DH
   public-key mode), composed from C06 (blob round trip, both layouts), C07 (GCM parameters), C08 (target SD),
   C09 (interval indices), C02 (chain), C03 (KEK agreement) and the laws of the primitives. *)
From Coq Require Import String.
From V Require Import Prelude.Base Prelude.PyInt Prelude.PySlice Prelude.PyStr.
From V Require Import gen.Kernels gen.K_cache gen.K_gkdi gen.K_asn1 gen.C_asn1 gen.C_gkdi gen.Consts gen.K_e2e.
From V Require Import Model.Types Model.Crypto Model.Sym Model.Chain Model.KeyId Model.Gkdi Model.Kek Model.SecDesc.
From V Require Import Model.Asn1 Model.Pkcs7 Model.Blob Model.CryptoWrap Model.Interval Model.Client.
From V Require Import Spec.GkdiSpec Spec.KekSpec.
From V Require Import Proofs.BlobLib Proofs.BlobPkcs7 Proofs.GkdiLib Proofs.GkdiKeyId Proofs.BlobMain.
From V Require Import Proofs.C02 Proofs.C09 Proofs.C10 Proofs.KekLib Proofs.Kek Proofs.SecDescMain Proofs.C01Lib.

(* the envelope _get_protection_gke_from_cache hands to _encrypt_blob: the cache entry e0 re-positioned at
   (l0, l1, l2) with the L2 key of that position and no L1 key *)
Definition prot_env (e0 : envelope) (rkid : bytes) (l0 l1 l2 : Z) (l2_key : bytes) : envelope :=
  {| gke_version := gke_version e0; gke_flags := gke_flags e0; gke_l0 := l0; gke_l1 := l1; gke_l2 := l2;
     gke_rkid := rkid; gke_kdf_alg := gke_kdf_alg e0; gke_kdf_params := gke_kdf_params e0;
     gke_secret_alg := gke_secret_alg e0; gke_secret_params := gke_secret_params e0;
     gke_priv_len := gke_priv_len e0; gke_pub_len := gke_pub_len e0;
     gke_domain := gke_domain e0; gke_forest := gke_forest e0; gke_l1_key := []; gke_l2_key := l2_key |}.

(* the key identifier and the blob value _encrypt_blob emits *)
Definition emitted_kid (flags l0 l1 l2 : Z) (rkid key_info : bytes) (domain forest : pystr) : key_identifier :=
  {| kid_version := 1; kid_flags := flags; kid_l0 := l0; kid_l1 := l1; kid_l2 := l2; kid_rkid := rkid;
     kid_key_info := key_info; kid_domain := domain; kid_forest := forest |}.
Definition emitted_blob (kid : key_identifier) (sid : pystr) (enc_cek enc_content params : bytes) : blob :=
  {| b_key_identifier := kid; b_sid := sid; b_enc_cek := enc_cek; b_enc_cek_algorithm := oid_aes256_wrap;
     b_enc_cek_parameters := None; b_enc_content := enc_content; b_enc_content_algorithm := oid_aes256_gcm;
     b_enc_content_parameters := Some params |}.

Section C01.
Context (c : Crypto).

(* the seed key and the KEK as MS-GKDI prescribes them (Spec/GkdiSpec.v chain from Key(SD,RK,L0,31,-1),
   Spec/KekSpec.v nonce-mode KEK); no reference to the code path *)
Definition derived_seed (h : hash) (rk : root_key) (rkid sd : bytes) (l0 l1 l2 : Z) : res bytes :=
  K2 (kdfK c h rkid l0) (root_top c h rk rkid sd l0) l1 l2.
Definition derived_kek (h : hash) (rk : root_key) (rkid sd : bytes) (l0 l1 l2 : Z) (nonce : bytes) : res bytes :=
  let* seed := derived_seed h rk rkid sd l0 l1 l2 in Ok (kek_nonce c h seed nonce).

(* a KDF never returns the empty string for a 64-byte request (new_kek tests `self.l2_key or ...`) *)
Definition kdf_nonempty : Prop := forall h key label ctx, kdf c h key label ctx 64 <> [].

Section Fixed.
Context (h : hash) (rk : root_key) (rkid sd : bytes) (l0 l1 l2 : Z).
Hypothesis Hhash : rk_hash rk = Ok h.
Hypothesis Halg : rk_kdf_alg rk = STR_KDF_ALG.
Hypothesis Hl0 : 0 <= l0 <= 2147483647.
Hypothesis Hl1 : 0 <= l1 <= 31.
Hypothesis Hl2 : 0 <= l2 <= 31.
Hypothesis Hne : kdf_nonempty.
Notation env_ok := (env_ok c h rk rkid sd l0).
Notation cache_ok := (cache_ok c h rk rkid sd l0).

Lemma derived_seed_ok : exists seed, derived_seed h rk rkid sd l0 l1 l2 = Ok seed /\ seed <> [].
Proof.
  unfold derived_seed, root_top.
  destruct (compute_l1_key_ok c h rkid l0 ltac:(unfold i32; lia) sd (rk_key rk)) as (top & Et). rewrite Et.
  destruct (K2_ok c h rkid l0 ltac:(unfold i32; lia) top l1 l2 Hl1 Hl2) as (key & ctx & E). rewrite E.
  eexists. split; [reflexivity|apply Hne].
Qed.

(* every conforming covering envelope yields the seed key of the position *)
Lemma l2_key_of_env e0 : env_ok e0 -> covers (env_of e0) l1 l2 ->
  compute_l2_key c h l1 l2 e0 = derived_seed h rk rkid sd l0 l1 l2.
Proof.
  intros [_ E0 Er _ _ Hc _ _ _] Hcov.
  pose proof (model_chain c h (root_top c h rk rkid sd l0) e0 l1 l2) as M. rewrite E0, Er in M.
  exact (M Hc Hl1 Hl2 Hcov).
Qed.

Lemma prot_env_hash e0 k : env_ok e0 -> envelope_hash (prot_env e0 rkid l0 l1 l2 k) = Ok h.
Proof. intros H. rewrite <- (env_ok_hash c h rk rkid sd l0 Hhash e0 H). reflexivity. Qed.

(* C03 (agree_nonce) instantiated: the encrypting side holds prot_env e0, the decrypting side any conforming
   covering envelope e' of the same root key / descriptor / L0 *)
Lemma kek_agreement e0 e' seed rnd : env_ok e0 -> env_ok e' -> covers (env_of e') l1 l2 ->
  derived_seed h rk rkid sd l0 l1 l2 = Ok seed -> seed <> [] ->
  let kid := emitted_kid (gke_flags e0) l0 l1 l2 rkid rnd (gke_domain e0) (gke_forest e0) in
  new_kek_rnd c (prot_env e0 rkid l0 l1 l2 seed) rnd = Ok (kek_nonce c h seed rnd, kid) /\
  get_kek c e' kid = Ok (kek_nonce c h seed rnd).
Proof.
  intros H0 H' Hcov Hs Hn kid.
  pose proof (agree_nonce c h (root_top c h rk rkid sd l0) (prot_env e0 rkid l0 l1 l2 seed) e' (fun _ => rnd) seed
                (prot_env_hash e0 seed H0) (env_ok_hash c h rk rkid sd l0 Hhash e' H')) as A.
  destruct H0 as [Hp0 _ _ _ _ _ _ _ _]. destruct H' as [Hp' El' Er' _ _ Hc' _ _ _].
  specialize (A Hp0 Hp' El' Er' Hl1 Hl2 Hc' Hcov Hs (or_introl (conj eq_refl Hn))).
  destruct A as (kid' & En & Ek & Eg). cbv beta in *.
  pose proof (new_kek_kid _ _ _ _ _ En) as Ekid. rewrite Ek in Ekid. cbn [prot_env gke_flags gke_l0 gke_l1 gke_l2 gke_rkid gke_domain gke_forest] in Ekid.
  fold (emitted_kid (gke_flags e0) l0 l1 l2 rkid rnd (gke_domain e0) (gke_forest e0)) in Ekid. fold kid in Ekid. subst kid'.
  split; [exact En|exact Eg].
Qed.

(* _get_protection_gke_from_cache on a cache in which the root key is loaded *)
Lemma protection_gke_ok cache time_ns : cache_ok cache -> interval_of_time_ns time_ns = (l0, l1, l2) ->
  exists e0 cache1 seed,
    protection_gke_from_cache c cache (Some rkid) sd time_ns = Ok (Some (prot_env e0 rkid l0 l1 l2 seed), cache1) /\
    env_ok e0 /\ covers (env_of e0) l1 l2 /\ cc_find_seed (cc_seeds cache1) (rkid, sd, l0) = Some e0 /\ cache_ok cache1 /\
    derived_seed h rk rkid sd l0 l1 l2 = Ok seed /\ seed <> [].
Proof.
  intros Hc Hi. destruct (get_key_ok c h rk rkid sd l0 Hhash Halg Hl0 cache l1 l2 Hc Hl1 Hl2) as (e0 & cache1 & Eg & H0 & Hcov & Ef & Hc1).
  destruct derived_seed_ok as (seed & Es & Hn). exists e0, cache1, seed.
  split; [|auto 8]. unfold protection_gke_from_cache. rewrite Hi. cbv beta iota. rewrite Eg. cbn [bind].
  pose proof (l2_key_of_env e0 H0 Hcov) as El2. destruct H0 as [_ _ _ _ Ep _ _ _ _]. rewrite Ep.
  unfold rk_hash in Hhash. destruct (KDFParameters_unpack (rk_kdf_params rk)) as [hn|]; [|discriminate]. cbn [bind] in *.
  rewrite Hhash. cbn [bind]. rewrite El2, Es. cbn [bind]. rewrite <- Ep. reflexivity.
Qed.
End Fixed.

(* a failing L0 range check in KeyCache._get_key makes protect fail *)
Lemma get_key_guard cache sd rkid l0 l1 l2 : ~ (0 <= l0 <= 2147483647) -> cc_get_key c cache sd rkid l0 l1 l2 = Raise ValueError.
Proof. intros H. unfold cc_get_key, k_cache_l0_guard. destruct (negb ((0 <=? l0) && (l0 <=? 2147483647))) eqn:G; [reflexivity|lia]. Qed.

(* _encrypt_blob on such an envelope, as an equation *)
Lemma encrypt_blob_eq h rk rkid sd l0 l1 l2 e0 seed r1 r2 r3 data sid p :
  rk_hash rk = Ok h -> 0 <= l1 <= 31 -> 0 <= l2 <= 31 ->
  env_ok c h rk rkid sd l0 e0 -> covers (env_of e0) l1 l2 -> derived_seed h rk rkid sd l0 l1 l2 = Ok seed -> seed <> [] ->
  gcm_parameters r2 = Ok p -> gcm_iv_of_parameters (Some p) = Ok r2 ->
  encrypt_blob c r1 r2 r3 data (prot_env e0 rkid l0 l1 l2 seed) sid =
  let* ct := gcm_enc c r1 r2 data in
  let* w := kw_wrap c (kek_nonce c h seed r3) r1 in
  blob_pack (emitted_blob (emitted_kid (gke_flags e0) l0 l1 l2 rkid r3 (gke_domain e0) (gke_forest e0)) sid w ct p) true.
Proof.
  intros Hh H1 H2 H0 Hcov Hs Hn Ep Eiv. unfold encrypt_blob.
  assert (Ew : oid_eqb oid_aes256_wrap oid_aes256_wrap = true) by apply oid_eqb_refl.
  assert (Eg : oid_eqb oid_aes256_gcm oid_aes256_gcm = true) by apply oid_eqb_refl.
  unfold cek_generate. rewrite Ew. cbn [bind]. rewrite Ep. cbn [bind].
  unfold content_encrypt. rewrite Eg, Eiv. cbn [bind].
  destruct (gcm_enc c r1 r2 data) as [ct|]; [|reflexivity]. cbn [bind].
  destruct (kek_agreement h rk rkid sd l0 l1 l2 Hh H1 H2 e0 e0 seed r3 H0 H0 Hcov Hs Hn) as [En _]. rewrite En. cbn [bind].
  unfold cek_encrypt. rewrite Ew. destruct (kw_wrap c (kek_nonce c h seed r3) r1) as [w|]; [|reflexivity]. cbn [bind].
  unfold encrypt_blob_fields. rewrite Ep. reflexivity.
Qed.

(* the emitted blob value is in the domain of the C06 round trip *)
Lemma emitted_wf flags l0 l1 l2 rkid r3 d f sid w ct p : names_ok flags d f = true ->
  0 <= l0 <= 2147483647 -> 0 <= l1 <= 31 -> 0 <= l2 <= 31 -> len rkid = 16 -> len r3 < U32 -> sid_okb sid = true ->
  len w < U32 -> len ct < U32 -> p <> [] -> len p < U32 ->
  wf_blob (emitted_blob (emitted_kid flags l0 l1 l2 rkid r3 d f) sid w ct p) = true.
Proof.
  intros Hn H0 H1 H2 Hr H3 Hs Hw Hc Hp Hlp. unfold names_ok in Hn. rewrite !andb_true_iff in Hn. destruct Hn as [[[[N1 N2] N3] N4] N5].
  unfold wf_blob, emitted_blob, emitted_kid, wf_kid.
  cbn [b_key_identifier b_sid b_enc_cek b_enc_cek_algorithm b_enc_cek_parameters b_enc_content b_enc_content_algorithm b_enc_content_parameters
       kid_version kid_flags kid_l0 kid_l1 kid_l2 kid_rkid kid_key_info kid_domain kid_forest].
  rewrite N1, N2, N3, N4, N5, Hs.
  assert (O1 : oid_okb oid_aes256_wrap = true) by (vm_compute; reflexivity).
  assert (O2 : oid_okb oid_aes256_gcm = true) by (vm_compute; reflexivity). rewrite O1, O2.
  pose proof (len_nonneg r3). unfold U32 in *.
  assert (E1 : u32b 1 = true) by reflexivity. assert (E2 : u32b l0 = true) by (unfold u32b; lia).
  assert (E3 : u32b l1 = true) by (unfold u32b; lia). assert (E4 : u32b l2 = true) by (unfold u32b; lia).
  assert (E5 : (len rkid =? 16) = true) by lia. assert (E6 : u32b (len r3) = true) by (unfold u32b; lia).
  assert (E7 : (len w <? 4294967296) = true) by lia. assert (E8 : (len ct <? 4294967296) = true) by lia.
  rewrite E1, E2, E3, E4, E5, E6, E7, E8. cbn [andb obytes_okb].
  destruct p as [|x r]; [congruence|]. cbn [length Nat.eqb negb andb]. unfold U32. lia.
Qed.

Section Main.
Context (h : hash) (rk : root_key) (rkid : bytes) (s : sid) (sid : pystr) (time_ns l0 l1 l2 : Z).
Hypothesis Hhash : rk_hash rk = Ok h.
Hypothesis Halg : rk_kdf_alg rk = STR_KDF_ALG.
Hypothesis Hrk : len rkid = 16.
Hypothesis Hsid : sid_parse sid = Ok s.
Hypothesis Hsok : sid_okb sid = true.
Hypothesis Hns : 0 <= time_ns.
Hypothesis Hint : interval_of_time_ns time_ns = (l0, l1, l2).
Hypothesis Hne : kdf_nonempty.
Notation sd := (target_sd s).
Notation cache_ok := (cache_ok c h rk rkid sd l0).

Lemma target_sd_ok : get_target_sd sid = Ok sd.
Proof. rewrite get_target_sd_spec, Hsid. reflexivity. Qed.

(* protect as an equation: the two primitive calls, then the C06 writer on the emitted blob value *)
Lemma protect_eq cache r1 r2 r3 data : l0 <= 2147483647 -> cache_ok cache -> len r2 = 12 ->
  exists e0 cache1 seed p,
    env_ok c h rk rkid sd l0 e0 /\ cc_find_seed (cc_seeds cache1) (rkid, sd, l0) = Some e0 /\ cache_ok cache1 /\
    derived_seed h rk rkid sd l0 l1 l2 = Ok seed /\
    gcm_parameters r2 = Ok p /\ p <> [] /\ len p <= len r2 + 512 /\ gcm_iv_of_parameters (Some p) = Ok r2 /\
    protect_offline c cache r1 r2 r3 data sid (Some rkid) time_ns =
      ((let* ct := gcm_enc c r1 r2 data in
        let* w := kw_wrap c (kek_nonce c h seed r3) r1 in
        blob_pack (emitted_blob (emitted_kid (gke_flags e0) l0 l1 l2 rkid r3 (gke_domain e0) (gke_forest e0)) sid w ct p) true), cache1).
Proof.
  intros Hb Hc Hr2. destruct (interval_ranges _ _ _ _ Hns Hint) as (H0 & H1 & H2).
  destruct (protection_gke_ok h rk rkid sd l0 l1 l2 Hhash Halg (conj H0 Hb) H1 H2 Hne cache time_ns Hc Hint)
    as (e0 & cache1 & seed & Eg & He0 & Hcov & Ef & Hc1 & Es & Hn).
  destruct (gcm_params_roundtrip r2 ltac:(lia)) as (p & Ep & Hpn & Hlp & Eiv).
  exists e0, cache1, seed, p. repeat (split; [assumption|]).
  unfold protect_offline. rewrite target_sd_ok, Eg.
  assert (Epk : gke_is_public_key (prot_env e0 rkid l0 l1 l2 seed) = false) by (destruct He0 as [Hp _ _ _ _ _ _ _ _]; exact Hp).
  rewrite Epk.
  rewrite (store_key_noop rkid sd l0 cache1 (prot_env e0 rkid l0 l1 l2 seed) e0 eq_refl eq_refl Ef Hcov).
  rewrite (encrypt_blob_eq h rk rkid sd l0 l1 l2 e0 seed r1 r2 r3 data sid p Hhash H1 H2 He0 Hcov Es Hn Ep Eiv). reflexivity.
Qed.

(* a blob is produced only when the L0 range check of the cache passes *)
Lemma protect_l0 cache r1 r2 r3 data blob cache1 :
  protect_offline c cache r1 r2 r3 data sid (Some rkid) time_ns = (Ok blob, cache1) -> l0 <= 2147483647.
Proof.
  intros Hp. destruct (Z_le_gt_dec l0 2147483647) as [|Hgt]; [assumption|exfalso].
  unfold protect_offline in Hp. rewrite target_sd_ok in Hp. unfold protection_gke_from_cache in Hp. rewrite Hint in Hp. cbv beta iota in Hp.
  rewrite get_key_guard in Hp by lia. cbn [bind] in Hp. discriminate Hp.
Qed.

(* decryption of the emitted blob value with any cache in which the root key is loaded *)
Lemma unprotect_emitted (L : CryptoLaws c) X bs e0 seed r1 r2 r3 data w ct p :
  l0 <= 2147483647 -> cache_ok X -> env_ok c h rk rkid sd l0 e0 -> derived_seed h rk rkid sd l0 l1 l2 = Ok seed -> seed <> [] ->
  kw_wrap c (kek_nonce c h seed r3) r1 = Ok w -> gcm_enc c r1 r2 data = Ok ct -> gcm_iv_of_parameters (Some p) = Ok r2 ->
  blob_unpack bs = Ok (emitted_blob (emitted_kid (gke_flags e0) l0 l1 l2 rkid r3 (gke_domain e0) (gke_forest e0)) sid w ct p) ->
  fst (unprotect_offline c X bs) = Ok data.
Proof.
  intros Hb Hc He0 Es Hn Ew Ect Eiv Eu. destruct (interval_ranges _ _ _ _ Hns Hint) as (H0 & H1 & H2).
  destruct (get_key_ok c h rk rkid sd l0 Hhash Halg (conj H0 Hb) X l1 l2 Hc H1 H2) as (e' & X' & Eg & He' & Hcov & _ & _).
  destruct (kek_agreement h rk rkid sd l0 l1 l2 Hhash H1 H2 e0 e' seed r3 He0 He' Hcov Es Hn) as [_ Ek].
  unfold unprotect_offline. rewrite Eu.
  cbn [emitted_blob emitted_kid b_sid b_key_identifier kid_rkid kid_l0 kid_l1 kid_l2]. rewrite target_sd_ok, Eg.
  cbn [fst].
  unfold decrypt_blob.
  cbn [emitted_blob b_key_identifier b_enc_cek_algorithm b_enc_cek_parameters b_enc_cek b_enc_content_algorithm b_enc_content_parameters b_enc_content].
  fold (emitted_kid (gke_flags e0) l0 l1 l2 rkid r3 (gke_domain e0) (gke_forest e0)). rewrite Ek. cbn [bind].
  unfold cek_decrypt. rewrite oid_eqb_refl. rewrite (kw_roundtrip c L _ _ _ Ew). cbn [bind].
  unfold content_decrypt. rewrite oid_eqb_refl, Eiv. cbn [bind]. apply (gcm_roundtrip c L _ _ _ _ Ect).
Qed.

(* ---- C01, nonce mode ---- *)
Theorem roundtrip_offline (L : CryptoLaws c) cache r1 r2 r3 data blob cache1 :
  cache_ok cache -> len r2 = 12 -> len r3 = 32 ->
  (forall kek w, derived_kek h rk rkid sd l0 l1 l2 r3 = Ok kek -> kw_wrap c kek r1 = Ok w -> len w < U32) -> (forall ct, gcm_enc c r1 r2 data = Ok ct -> len ct < U32) ->
  protect_offline c cache r1 r2 r3 data sid (Some rkid) time_ns = (Ok blob, cache1) ->
  cache_ok cache1 /\
  (exists blob2, (let* b := blob_unpack blob in blob_pack b false) = Ok blob2) /\
  forall X, cache_ok X ->
    fst (unprotect_offline c X blob) = Ok data /\
    forall blob2, (let* b := blob_unpack blob in blob_pack b false) = Ok blob2 -> fst (unprotect_offline c X blob2) = Ok data.
Proof.
  intros Hc Hr2 Hr3 Sw Sct Hp. pose proof (protect_l0 _ _ _ _ _ _ _ Hp) as Hb.
  destruct (interval_ranges _ _ _ _ Hns Hint) as (H0 & H1 & H2).
  destruct (protect_eq cache r1 r2 r3 data Hb Hc Hr2) as (e0 & c1 & seed & p & He0 & Ef & Hc1 & Es & Ep & Hpn & Hlp & Eiv & Eq).
  rewrite Eq in Hp. clear Eq.
  destruct (gcm_enc c r1 r2 data) as [ct|] eqn:Ect; [|discriminate Hp]. cbn [bind] in Hp.
  destruct (kw_wrap c (kek_nonce c h seed r3) r1) as [w|] eqn:Ew; [|discriminate Hp]. cbn [bind] in Hp.
  set (b := emitted_blob (emitted_kid (gke_flags e0) l0 l1 l2 rkid r3 (gke_domain e0) (gke_forest e0)) sid w ct p) in *.
  assert (Hwf : wf_blob b = true).
  { destruct He0 as [_ _ _ _ _ _ Hn0 _ _]. assert (len w < U32) by (apply (Sw _ _ ltac:(unfold derived_kek; rewrite Es; reflexivity) Ew)). pose proof (Sct _ eq_refl). apply emitted_wf; auto; try lia; unfold U32; lia. }
  destruct (blob_roundtrip b true Hwf) as (ci & Ep1 & Eu1 & _ & _). unfold trailing in Ep1, Eu1. rewrite app_nil_r in Ep1, Eu1.
  destruct (blob_roundtrip b false Hwf) as (ci2 & Ep2 & Eu2 & _ & _).
  assert (blob = ci /\ cache1 = c1) as [-> ->].
  { rewrite Ep1 in Hp. split; congruence. }
  destruct (derived_seed_ok h rk rkid sd l0 l1 l2 (conj H0 Hb) H1 H2 Hne) as (seed' & Es' & Hn). rewrite Es in Es'. apply Ok_inj in Es'. subst seed'.
  split; [exact Hc1|]. split; [exists (ci2 ++ trailing b false); rewrite Eu1; exact Ep2|].
  intros X HX. split.
  - apply (unprotect_emitted L X ci e0 seed r1 r2 r3 data w ct p); assumption.
  - intros blob2 E2. rewrite Eu1 in E2. cbn [bind] in E2. rewrite Ep2 in E2. apply Ok_inj in E2. subst blob2.
    apply (unprotect_emitted L X _ e0 seed r1 r2 r3 data w ct p); assumption.
Qed.

(* what a successful protect call emitted (used by C19 and C04): the blob is the C06 encoding of this value *)
Lemma protect_inv cache r1 r2 r3 data blob cache1 :
  cache_ok cache -> len r2 = 12 -> len r3 = 32 ->
  (forall kek w, derived_kek h rk rkid sd l0 l1 l2 r3 = Ok kek -> kw_wrap c kek r1 = Ok w -> len w < U32) -> (forall ct, gcm_enc c r1 r2 data = Ok ct -> len ct < U32) ->
  protect_offline c cache r1 r2 r3 data sid (Some rkid) time_ns = (Ok blob, cache1) ->
  exists e0 seed w ct p,
    l0 <= 2147483647 /\ cache_ok cache1 /\ env_ok c h rk rkid sd l0 e0 /\ cc_find_seed (cc_seeds cache1) (rkid, sd, l0) = Some e0 /\
    derived_seed h rk rkid sd l0 l1 l2 = Ok seed /\ seed <> [] /\
    kw_wrap c (kek_nonce c h seed r3) r1 = Ok w /\ gcm_enc c r1 r2 data = Ok ct /\
    gcm_parameters r2 = Ok p /\ gcm_iv_of_parameters (Some p) = Ok r2 /\
    let b := emitted_blob (emitted_kid (gke_flags e0) l0 l1 l2 rkid r3 (gke_domain e0) (gke_forest e0)) sid w ct p in
    wf_blob b = true /\ blob_pack b true = Ok blob /\ blob_unpack blob = Ok b.
Proof.
  intros Hc Hr2 Hr3 Sw Sct Hp. pose proof (protect_l0 _ _ _ _ _ _ _ Hp) as Hb.
  destruct (interval_ranges _ _ _ _ Hns Hint) as (H0 & H1 & H2).
  destruct (protect_eq cache r1 r2 r3 data Hb Hc Hr2) as (e0 & c1 & seed & p & He0 & Ef & Hc1 & Es & Ep & Hpn & Hlp & Eiv & Eq).
  rewrite Eq in Hp. clear Eq.
  destruct (gcm_enc c r1 r2 data) as [ct|] eqn:Ect; [|discriminate Hp]. cbn [bind] in Hp.
  destruct (kw_wrap c (kek_nonce c h seed r3) r1) as [w|] eqn:Ew; [|discriminate Hp]. cbn [bind] in Hp.
  exists e0, seed, w, ct, p. cbv zeta.
  set (b := emitted_blob (emitted_kid (gke_flags e0) l0 l1 l2 rkid r3 (gke_domain e0) (gke_forest e0)) sid w ct p) in *.
  assert (Hwf : wf_blob b = true).
  { destruct He0 as [_ _ _ _ _ _ Hn0 _ _]. assert (len w < U32) by (apply (Sw _ _ ltac:(unfold derived_kek; rewrite Es; reflexivity) Ew)). pose proof (Sct _ eq_refl). apply emitted_wf; auto; try lia; unfold U32; lia. }
  destruct (blob_roundtrip b true Hwf) as (ci & Ep1 & Eu1 & _ & _). unfold trailing in Ep1, Eu1. rewrite app_nil_r in Ep1, Eu1.
  assert (blob = ci /\ cache1 = c1) as [-> ->] by (rewrite Ep1 in Hp; split; congruence).
  destruct (derived_seed_ok h rk rkid sd l0 l1 l2 (conj H0 Hb) H1 H2 Hne) as (seed' & Es' & Hn). rewrite Es in Es'. apply Ok_inj in Es'. subst seed'.
  auto 15.
Qed.

(* protect succeeds when the two primitive calls do (and the clock is before the year 2.5 * 10^9) *)
Theorem protect_succeeds cache r1 r2 r3 data :
  cache_ok cache -> len r2 = 12 -> len r3 = 32 -> time_ns < 79164825555398400000000000 ->
  (forall kek, derived_kek h rk rkid sd l0 l1 l2 r3 = Ok kek -> exists w, kw_wrap c kek r1 = Ok w /\ len w < U32) ->
  (exists ct, gcm_enc c r1 r2 data = Ok ct /\ len ct < U32) ->
  exists blob cache1, protect_offline c cache r1 r2 r3 data sid (Some rkid) time_ns = (Ok blob, cache1).
Proof.
  intros Hc Hr2 Hr3 Ht Sw (ct & Ect & Hlct). pose proof (interval_l0_bound _ _ _ _ Hns Ht Hint) as Hb.
  destruct (interval_ranges _ _ _ _ Hns Hint) as (H0 & H1 & H2).
  destruct (protect_eq cache r1 r2 r3 data Hb Hc Hr2) as (e0 & c1 & seed & p & He0 & Ef & Hc1 & Es & Ep & Hpn & Hlp & Eiv & Eq).
  destruct (Sw (kek_nonce c h seed r3)) as (w & Ew & Hlw); [unfold derived_kek; rewrite Es; reflexivity|].
  rewrite Eq, Ect. cbn [bind]. rewrite Ew. cbn [bind].
  set (b := emitted_blob (emitted_kid (gke_flags e0) l0 l1 l2 rkid r3 (gke_domain e0) (gke_forest e0)) sid w ct p) in *.
  assert (Hwf : wf_blob b = true).
  { destruct He0 as [_ _ _ _ _ _ Hn _ _]. apply emitted_wf; auto; try lia; unfold U32; lia. }
  destruct (blob_roundtrip b true Hwf) as (ci & Ep1 & _). rewrite Ep1. eauto.
Qed.
End Main.

Lemma cache_ok_fresh h rk rkid sd l0 cache : cc_find_root (cc_roots cache) rkid = Some rk ->
  cc_find_seed (cc_seeds cache) (rkid, sd, l0) = None -> cache_ok c h rk rkid sd l0 cache.
Proof. intros Hr Hs. split; [exact Hr|]. rewrite Hs. discriminate. Qed.

(* ---- any mode: what is needed of the key pair (kek, kid) new_kek produced for the envelope ep ---- *)
Section AnyMode.
Context (h : hash) (rk : root_key) (rkid : bytes) (s : sid) (sid : pystr) (l0 l1 l2 : Z).
Hypothesis Hhash : rk_hash rk = Ok h.
Hypothesis Halg : rk_kdf_alg rk = STR_KDF_ALG.
Hypothesis Hrk : len rkid = 16.
Hypothesis Hsid : sid_parse sid = Ok s.
Hypothesis Hsok : sid_okb sid = true.
Hypothesis Hl0 : 0 <= l0 <= 2147483647.
Hypothesis Hl1 : 0 <= l1 <= 31.
Hypothesis Hl2 : 0 <= l2 <= 31.
Notation sd := (target_sd s).
Notation cache_ok := (cache_ok c h rk rkid sd l0).

Lemma unprotect_general (L : CryptoLaws c) X bs kid kek r1 r2 data w ct p :
  cache_ok X -> kid_rkid kid = rkid -> kid_l0 kid = l0 -> kid_l1 kid = l1 -> kid_l2 kid = l2 ->
  (forall e', env_ok c h rk rkid sd l0 e' -> covers (env_of e') l1 l2 -> get_kek c e' kid = Ok kek) ->
  kw_wrap c kek r1 = Ok w -> gcm_enc c r1 r2 data = Ok ct -> gcm_iv_of_parameters (Some p) = Ok r2 ->
  blob_unpack bs = Ok (emitted_blob kid sid w ct p) -> fst (unprotect_offline c X bs) = Ok data.
Proof.
  intros Hc Kr K0 K1 K2 Hk Ew Ect Eiv Eu.
  destruct (get_key_ok c h rk rkid sd l0 Hhash Halg Hl0 X l1 l2 Hc Hl1 Hl2) as (e' & X' & Eg & He' & Hcov & _ & _).
  unfold unprotect_offline. rewrite Eu. cbn [emitted_blob b_sid b_key_identifier].
  rewrite (target_sd_ok s sid Hsid), Kr, K0, K1, K2, Eg. cbn [fst].
  unfold decrypt_blob.
  cbn [emitted_blob b_key_identifier b_enc_cek_algorithm b_enc_cek_parameters b_enc_cek b_enc_content_algorithm b_enc_content_parameters b_enc_content].
  rewrite (Hk e' He' Hcov). cbn [bind].
  unfold cek_decrypt. rewrite oid_eqb_refl. rewrite (kw_roundtrip c L _ _ _ Ew). cbn [bind].
  unfold content_decrypt. rewrite oid_eqb_refl, Eiv. cbn [bind]. apply (gcm_roundtrip c L _ _ _ _ Ect).
Qed.

(* ep: the envelope handed to _encrypt_blob (for the public-key modes: the one a domain controller delivered) *)
Lemma roundtrip_any_mode (L : CryptoLaws c) ep kek kid r1 r2 r3 data blob :
  gke_l0 ep = l0 -> gke_l1 ep = l1 -> gke_l2 ep = l2 -> gke_rkid ep = rkid ->
  names_ok (gke_flags ep) (gke_domain ep) (gke_forest ep) = true ->
  new_kek_rnd c ep r3 = Ok (kek, kid) -> len (kid_key_info kid) < U32 ->
  (forall e', env_ok c h rk rkid sd l0 e' -> covers (env_of e') l1 l2 -> get_kek c e' kid = Ok kek) ->
  len r2 = 12 -> (forall w, kw_wrap c kek r1 = Ok w -> len w < U32) -> (forall ct, gcm_enc c r1 r2 data = Ok ct -> len ct < U32) ->
  encrypt_blob c r1 r2 r3 data ep sid = Ok blob ->
  (exists blob2, (let* b := blob_unpack blob in blob_pack b false) = Ok blob2) /\
  forall X, cache_ok X ->
    fst (unprotect_offline c X blob) = Ok data /\
    forall blob2, (let* b := blob_unpack blob in blob_pack b false) = Ok blob2 -> fst (unprotect_offline c X blob2) = Ok data.
Proof.
  intros E0 E1 E2 Er Hn En Hki Hk Hr2 Sw Sct He.
  destruct (gcm_params_roundtrip r2 ltac:(lia)) as (p & Ep & Hpn & Hlp & Eiv).
  pose proof (new_kek_kid _ _ _ _ _ En) as Ekid. rewrite E0, E1, E2, Er in Ekid.
  fold (emitted_kid (gke_flags ep) l0 l1 l2 rkid (kid_key_info kid) (gke_domain ep) (gke_forest ep)) in Ekid.
  unfold encrypt_blob in He.
  assert (Eow : oid_eqb oid_aes256_wrap oid_aes256_wrap = true) by apply oid_eqb_refl.
  assert (Eog : oid_eqb oid_aes256_gcm oid_aes256_gcm = true) by apply oid_eqb_refl.
  unfold cek_generate in He. rewrite Eow in He. cbn [bind] in He. rewrite Ep in He. cbn [bind] in He.
  unfold content_encrypt in He. rewrite Eog, Eiv in He. cbn [bind] in He.
  destruct (gcm_enc c r1 r2 data) as [ct|] eqn:Ect; [|discriminate He]. cbn [bind] in He.
  rewrite En in He. cbn [bind] in He. unfold cek_encrypt in He. rewrite Eow in He.
  destruct (kw_wrap c kek r1) as [w|] eqn:Ew; [|discriminate He]. cbn [bind] in He.
  unfold encrypt_blob_fields in He. rewrite Ep in He. cbn [bind] in He.
  fold (emitted_blob kid sid w ct p) in He. set (b := emitted_blob kid sid w ct p) in *.
  assert (Hwf : wf_blob b = true).
  { unfold b. rewrite Ekid. pose proof (Sw _ eq_refl). pose proof (Sct _ eq_refl). apply emitted_wf; auto; try lia; unfold U32; lia. }
  destruct (blob_roundtrip b true Hwf) as (ci & Ep1 & Eu1 & _ & _). unfold trailing in Ep1, Eu1. rewrite app_nil_r in Ep1, Eu1.
  destruct (blob_roundtrip b false Hwf) as (ci2 & Ep2 & Eu2 & _ & _).
  assert (blob = ci) by congruence. subst blob.
  assert (Kr : kid_rkid kid = rkid /\ kid_l0 kid = l0 /\ kid_l1 kid = l1 /\ kid_l2 kid = l2) by (rewrite Ekid; auto).
  destruct Kr as (Kr & K0 & K1 & K2).
  split; [exists (ci2 ++ trailing b false); rewrite Eu1; exact Ep2|].
  intros X HX. split.
  - apply (unprotect_general L X ci kid kek r1 r2 data w ct p); assumption.
  - intros blob2 Eb. rewrite Eu1 in Eb. cbn [bind] in Eb. rewrite Ep2 in Eb. apply Ok_inj in Eb. subst blob2.
    apply (unprotect_general L X _ kid kek r1 r2 data w ct p); assumption.
Qed.

Lemma fields_hash e : gke_kdf_alg e = STR_KDF_ALG -> gke_kdf_params e = rk_kdf_params rk -> envelope_hash e = Ok h.
Proof. intros Ea Ep. unfold envelope_hash. rewrite Ea, Ep. unfold Model.Gkdi.str_eqb. rewrite beqb_refl. cbn [negb]. exact Hhash. Qed.

(* ---- DH public-key mode: a public-key envelope of the root key's group key at (l0, l1, l2), carrying g^y mod p for
   the group private key y the chain prescribes (what a conforming DC delivers, MS-GKDI 3.1.4.1.2) ---- *)
Record dh_env_ok (ep : envelope) (seed : bytes) (kl p g : Z) : Prop := {
  dp_pub : gke_is_public_key ep = true;
  dp_l0 : gke_l0 ep = l0; dp_l1 : gke_l1 ep = l1; dp_l2 : gke_l2 ep = l2; dp_rkid : gke_rkid ep = rkid;
  dp_alg : gke_kdf_alg ep = STR_KDF_ALG; dp_params : gke_kdf_params ep = rk_kdf_params rk;
  dp_salg : gke_secret_alg ep = STR_DH; dp_rsalg : rk_secret_alg rk = STR_DH;
  dp_priv : gke_priv_len ep = rk_priv_len rk; dp_privb : u32b (gke_priv_len ep) = true;
  dp_p : 0 < p; dp_kl : u32b kl = true; dp_fp : GkdiStructs.fitsb kl p = true; dp_fg : GkdiStructs.fitsb kl g = true;
  dp_ywf : wfb (kdf c h seed KDS_SERVICE (lit16z "DH") (bytes_of_bits (gke_priv_len ep))) = true;
  dp_key : gke_l2_key ep = concat (GkdiStructs.ffk_field_list
             {| ffk_key_length := kl; ffk_field_order := p; ffk_generator := g;
                ffk_public_key := dh_public p g (OS2IP (kdf c h seed KDS_SERVICE (lit16z "DH") (bytes_of_bits (gke_priv_len ep)))) |});
  dp_names : names_ok (gke_flags ep) (gke_domain ep) (gke_forest ep) = true;
  (* since the repair of D16 the receiver checks the peer's DH key against the group's parameters and range: the envelope
     carries the root key's secret agreement parameters, these are the group (kl, p, g), and the group public value
     g^y mod p is a valid group element (not 0, 1, p - 1) *)
  dp_sparams : gke_secret_params ep = rk_sparams rk;
  dp_group : dh_group_params (rk_sparams rk) kl p g;
  dp_pubvalid : dh_pub_valid p (dh_public p g (OS2IP (kdf c h seed KDS_SERVICE (lit16z "DH") (bytes_of_bits (gke_priv_len ep))))) }.

Theorem roundtrip_pubkey_dh (L : CryptoLaws c) ep seed kl p g r1 r2 r3 data blob :
  derived_seed h rk rkid sd l0 l1 l2 = Ok seed -> dh_env_ok ep seed kl p g ->
  wfb r3 = true -> dh_pub_valid p (dh_public p g (OS2IP r3)) ->      (* the ephemeral public value is a valid group element *)
  8 + 3 * kl < U32 -> len r2 = 12 ->
  (forall kek kid w, new_kek_rnd c ep r3 = Ok (kek, kid) -> kw_wrap c kek r1 = Ok w -> len w < U32) ->
  (forall ct, gcm_enc c r1 r2 data = Ok ct -> len ct < U32) ->
  encrypt_blob c r1 r2 r3 data ep sid = Ok blob ->
  (exists blob2, (let* b := blob_unpack blob in blob_pack b false) = Ok blob2) /\
  forall X, cache_ok X ->
    fst (unprotect_offline c X blob) = Ok data /\
    forall blob2, (let* b := blob_unpack blob in blob_pack b false) = Ok blob2 -> fst (unprotect_offline c X blob2) = Ok data.
Proof.
  intros Es D Hw3 Vx Hkl Hr2 Sw Sct He.
  destruct D as [Dpub D0 D1 D2 Dr Da Dp Dsa Drsa Dpr Dprb Dpp Dkl Dfp Dfg Dy Dkey Dn Dsp Dgrp Vy].
  set (top := root_top c h rk rkid sd l0).
  (* the encrypting side, from agree_dh with itself against any conforming covering envelope *)
  assert (A : forall e', env_ok c h rk rkid sd l0 e' -> covers (env_of e') l1 l2 ->
            exists kid, new_kek c (fun _ => r3) ep =
              Ok (kek_dh c h p kl (dh_public p g (OS2IP (kdf c h seed KDS_SERVICE (lit16z "DH") (bytes_of_bits (gke_priv_len ep))))) (OS2IP r3), kid) /\
              kid_key_info kid = concat (GkdiStructs.ffk_field_list {| ffk_key_length := kl; ffk_field_order := p; ffk_generator := g;
                                           ffk_public_key := dh_public p g (OS2IP r3) |}) /\
              get_kek c e' kid = Ok (kek_dh c h p kl (dh_public p g (OS2IP (kdf c h seed KDS_SERVICE (lit16z "DH") (bytes_of_bits (gke_priv_len ep))))) (OS2IP r3))).
  { intros e' He' Hcov. pose proof (env_ok_hash c h rk rkid sd l0 Hhash e' He') as Hh'.
    destruct He' as [Hp' El' Er' _ _ Hc' _ Esa' Epr' Esp'].
    pose proof (agree_dh c h top e' ep (fun _ => r3) seed kl p g Hh' (fields_hash ep Da Dp) Hp' Dpub) as A.
    rewrite D0, D1, D2, Dr in A. unfold KDFof in A. rewrite D0, Dr in A.
    specialize (A El' Er' ltac:(congruence) Dsa ltac:(congruence) Dprb Hl1 Hl2 Hc' Hcov Es Dpp Dkl Dfp Dfg).
    rewrite Esp', Dsp in A. specialize (A Dgrp Dgrp). cbv zeta in A.
    destruct (A Dy Hw3 Vy Vx Dkey) as (kid & En & Ek & Eg & Eq). exists kid. rewrite Eq in Eg. auto. }
  (* some conforming covering envelope exists: the one the root key yields *)
  destruct (get_key_ok c h rk rkid sd l0 Hhash Halg Hl0 (cc_load cc_empty rkid rk) l1 l2) as (er & _ & _ & Her & Hcovr & _ & _); auto.
  { apply cache_ok_fresh; [cbn [cc_load cc_roots cc_find_root]; rewrite beqb_refl; reflexivity|reflexivity]. }
  destruct (A er Her Hcovr) as (kid & En & Ek & _).
  apply (roundtrip_any_mode L ep _ kid r1 r2 r3 data blob D0 D1 D2 Dr Dn En); auto.
  - rewrite Ek. set (k' := {| ffk_key_length := kl; ffk_field_order := p; ffk_generator := g; ffk_public_key := dh_public p g (OS2IP r3) |}).
    assert (W : GkdiStructs.wf_ffk k' = true).
    { unfold GkdiStructs.wf_ffk, k'. cbn [ffk_key_length ffk_field_order ffk_generator ffk_public_key]. rewrite Dkl, Dfp, Dfg. cbn [andb].
      unfold dh_public, GkdiStructs.fitsb in *. pose proof (Z.mod_pos_bound (g ^ OS2IP r3) p Dpp). lia. }
    rewrite (GkdiStructs.FFCDHKey_pack_length k' _ W (GkdiStructs.FFCDHKey_pack_ok k' W)). exact Hkl.
  - intros e' He' Hcov. destruct (A e' He' Hcov) as (kid' & En' & _ & Eg'). unfold new_kek_rnd in En. rewrite En in En'. apply Ok_inj in En'.
    assert (kid' = kid) by congruence. subst kid'. exact Eg'.
  - intros w. apply (Sw _ _ w En).
Qed.

(* ---- ECDH public-key mode: the envelope carries y*G in the ECDH key structure of the curve ---- *)
Lemma encrypt_blob_new_kek key r1 r2 r3 data blob : encrypt_blob c r1 r2 r3 data key sid = Ok blob ->
  exists kek kid, new_kek_rnd c key r3 = Ok (kek, kid).
Proof.
  unfold encrypt_blob. destruct (cek_generate oid_aes256_wrap r1 r2) as [[cek iv]|]; [|discriminate]. cbn [bind].
  destruct (gcm_parameters iv) as [p|]; [|discriminate]. cbn [bind].
  destruct (content_encrypt c oid_aes256_gcm (Some p) cek data) as [ct|]; [|discriminate]. cbn [bind].
  destruct (new_kek_rnd c key r3) as [[kek kid]|]; [|discriminate]. eauto.
Qed.

Record ecdh_env_ok (ep : envelope) (seed : bytes) (alg : pystr) (algz : bytes) (cv : curve) (kl Ax Ay : Z) : Prop := {
  ep_pub : gke_is_public_key ep = true;
  ep_l0 : gke_l0 ep = l0; ep_l1 : gke_l1 ep = l1; ep_l2 : gke_l2 ep = l2; ep_rkid : gke_rkid ep = rkid;
  ep_alg : gke_kdf_alg ep = STR_KDF_ALG; ep_params : gke_kdf_params ep = rk_kdf_params rk;
  ep_salg : gke_secret_alg ep = alg; ep_rsalg : rk_secret_alg rk = alg;
  ep_notdh : Model.Gkdi.str_eqb alg STR_DH = false; ep_ecdh : startswith alg STR_ECDH_P = true; ep_algz : encode_utf16z alg = Ok algz;
  ep_priv : gke_priv_len ep = rk_priv_len rk; ep_privb : u32b (gke_priv_len ep) = true;
  ep_point : ec_pub c cv (OS2IP (kdf c h seed KDS_SERVICE algz (bytes_of_bits (gke_priv_len ep)))) = Ok (Ax, Ay);
  ep_wf : GkdiStructs.wf_eck {| eck_curve_name := curve_name cv; eck_key_length := kl; eck_x := Ax; eck_y := Ay |} = true;
  ep_key : gke_l2_key ep = concat (GkdiStructs.eck_field_list cv {| eck_curve_name := curve_name cv; eck_key_length := kl; eck_x := Ax; eck_y := Ay |});
  ep_names : names_ok (gke_flags ep) (gke_domain ep) (gke_forest ep) = true }.

Theorem roundtrip_pubkey_ecdh (L : CryptoLaws c) ep seed alg algz cv kl Ax Ay r1 r2 r3 data blob :
  derived_seed h rk rkid sd l0 l1 l2 = Ok seed -> ecdh_env_ok ep seed alg algz cv kl Ax Ay -> len r2 = 12 ->
  (forall kek kid, new_kek_rnd c ep r3 = Ok (kek, kid) -> len (kid_key_info kid) < U32) ->
  (forall kek kid w, new_kek_rnd c ep r3 = Ok (kek, kid) -> kw_wrap c kek r1 = Ok w -> len w < U32) ->
  (forall ct, gcm_enc c r1 r2 data = Ok ct -> len ct < U32) ->
  encrypt_blob c r1 r2 r3 data ep sid = Ok blob ->
  (exists blob2, (let* b := blob_unpack blob in blob_pack b false) = Ok blob2) /\
  forall X, cache_ok X ->
    fst (unprotect_offline c X blob) = Ok data /\
    forall blob2, (let* b := blob_unpack blob in blob_pack b false) = Ok blob2 -> fst (unprotect_offline c X blob2) = Ok data.
Proof.
  intros Es D Hr2 Ski Sw Sct He.
  destruct D as [Dpub D0 D1 D2 Dr Da Dp Dsa Drsa Dnd Dec Dz Dpr Dprb Dpt Dwf Dkey Dn].
  destruct (encrypt_blob_new_kek ep r1 r2 r3 data blob He) as (kek & kid & En).
  apply (roundtrip_any_mode L ep kek kid r1 r2 r3 data blob D0 D1 D2 Dr Dn En); auto.
  - apply (Ski _ _ En).
  - intros e' He' Hcov. pose proof (env_ok_hash c h rk rkid sd l0 Hhash e' He') as Hh'.
    destruct He' as [Hp' El' Er' _ _ Hc' _ Esa' Epr' _].
    pose proof (agree_ecdh c L h (root_top c h rk rkid sd l0) e' ep (fun _ => r3) seed alg algz cv kl Ax Ay kek kid Hh' (fields_hash ep Da Dp) Hp' Dpub) as A.
    rewrite D0, D1, D2, Dr in A. unfold KDFof in A. rewrite D0, Dr in A.
    specialize (A El' Er' ltac:(congruence) Dsa Dnd Dec Dz ltac:(congruence) Dprb Hl1 Hl2 Hc' Hcov Es). cbv zeta in A.
    destruct (A Dpt Dwf Dkey En) as (Zs & Bx & By & _ & _ & _ & _ & Eg). exact Eg.
  - intros w. apply (Sw _ _ w En).
Qed.
End AnyMode.

End C01.

(* ---- the hypotheses are satisfiable: instances under the guarded symbolic crypto ---- *)
Definition ex_rk : root_key :=
  {| rk_key := repeat 7 64; rk_version := 1; rk_kdf_alg := STR_KDF_ALG; rk_kdf_params := KekExamples.ex_kdf_params;
     rk_secret_alg := STR_DH; rk_secret_params := Some (KekExamples.ex_sp 2);   (* the DH group of the public-key instance below *)
     rk_priv_len := 512; rk_pub_len := 2048 |}.
Definition ex_rkid : bytes := repeat 5 16.
Definition ex_cache : ccache := cc_load cc_empty ex_rkid ex_rk.
Definition ex_sid : pystr := ascii_str "S-1-5-21-1-2-3-500".
(* 15 sub-authorities with the extreme values 0 and 2^32 - 1 *)
Definition ex_sid15 : pystr := ascii_str "S-1-5-0-4294967295-2-3-4-5-6-7-8-9-10-11-12-13-4294967295".
Definition parsed (str : pystr) : sid := match sid_parse str with Ok s => s | Raise _ => {| sid_rev := 0; sid_auth := 0; sid_subs := [] |} end.
Definition ex_time : Z := 1700000000000000000.
(* one 100 ns tick before the boundary between L0 = 361 and L0 = 362 *)
Definition ex_time_l0 : Z := 1700294399999999900.
Definition ex_r1 : bytes := repeat 1 32.
Definition ex_r2 : bytes := repeat 2 12.
Definition ex_r3 : bytes := repeat 3 32.

Lemma symg_kdf_nonempty : kdf_nonempty symg.
Proof. intros h key label ctx. cbn [kdf symg]. unfold sym_kdf, symterm. discriminate. Qed.

Lemma ex_intervals : interval_of_time_ns ex_time = (361, 31, 23) /\ interval_of_time_ns ex_time_l0 = (361, 31, 31) /\
  interval_of_time_ns (ex_time_l0 + 100) = (362, 0, 0).
Proof. repeat split; vm_compute; reflexivity. Qed.

Ltac ex_wrap_size := intros kek w Ek Ew; vm_compute in Ek; apply Ok_inj in Ek; subst kek; vm_compute in Ew; apply Ok_inj in Ew; subst w; vm_compute; reflexivity.
Ltac ex_gcm_size := intros ct Ect; vm_compute in Ect; apply Ok_inj in Ect; subst ct; vm_compute; reflexivity.
Ltac ex_wrap_ok := intros kek Ek; vm_compute in Ek; apply Ok_inj in Ek; subst kek; eexists; split; [vm_compute; reflexivity|vm_compute; reflexivity].
Ltac ex_gcm_ok := eexists; split; [apply symg_gcm_enc_ok; vm_compute; reflexivity|rewrite len_symterm; cbn [fold_right]; unfold U32; vm_compute; reflexivity].

(* one instance: every hypothesis of protect_succeeds / roundtrip_offline holds, hence so do the conclusions *)
Lemma example_roundtrip sid time l0 l1 l2 data :
  sid_parse sid = Ok (parsed sid) -> sid_okb sid = true -> 0 <= time < 79164825555398400000000000 ->
  interval_of_time_ns time = (l0, l1, l2) ->
  (forall kek, derived_kek symg SHA512 ex_rk ex_rkid (target_sd (parsed sid)) l0 l1 l2 ex_r3 = Ok kek ->
     exists w, kw_wrap symg kek ex_r1 = Ok w /\ len w < U32) ->
  (exists ct, gcm_enc symg ex_r1 ex_r2 data = Ok ct /\ len ct < U32) ->
  exists blob cache1,
    protect_offline symg ex_cache ex_r1 ex_r2 ex_r3 data sid (Some ex_rkid) time = (Ok blob, cache1) /\
    fst (unprotect_offline symg cache1 blob) = Ok data /\ fst (unprotect_offline symg ex_cache blob) = Ok data /\
    exists blob2, (let* b := blob_unpack blob in blob_pack b false) = Ok blob2 /\
      fst (unprotect_offline symg cache1 blob2) = Ok data /\ fst (unprotect_offline symg ex_cache blob2) = Ok data.
Proof.
  intros Hs Hso Ht Hi Sw Sct.
  assert (Hh : rk_hash ex_rk = Ok SHA512) by (vm_compute; reflexivity).
  assert (Hc : cache_ok symg SHA512 ex_rk ex_rkid (target_sd (parsed sid)) l0 ex_cache) by (apply cache_ok_fresh; reflexivity).
  destruct (protect_succeeds symg SHA512 ex_rk ex_rkid (parsed sid) sid time l0 l1 l2 Hh eq_refl eq_refl Hs Hso (proj1 Ht) Hi symg_kdf_nonempty
              ex_cache ex_r1 ex_r2 ex_r3 data Hc eq_refl eq_refl (proj2 Ht) Sw Sct) as (blob & cache1 & Ep).
  exists blob, cache1. split; [exact Ep|].
  assert (Sw' : forall kek w, derived_kek symg SHA512 ex_rk ex_rkid (target_sd (parsed sid)) l0 l1 l2 ex_r3 = Ok kek -> kw_wrap symg kek ex_r1 = Ok w -> len w < U32).
  { intros kek w Ek Ew. destruct (Sw kek Ek) as (w' & Ew' & Hl). rewrite Ew in Ew'. apply Ok_inj in Ew'. now subst w'. }
  assert (Sct' : forall ct, gcm_enc symg ex_r1 ex_r2 data = Ok ct -> len ct < U32).
  { intros ct Ect. destruct Sct as (ct' & Ect' & Hl). rewrite Ect in Ect'. apply Ok_inj in Ect'. now subst ct'. }
  destruct (roundtrip_offline symg SHA512 ex_rk ex_rkid (parsed sid) sid time l0 l1 l2 Hh eq_refl eq_refl Hs Hso (proj1 Ht) Hi symg_kdf_nonempty
              symg_laws ex_cache ex_r1 ex_r2 ex_r3 data blob cache1 Hc eq_refl eq_refl Sw' Sct' Ep) as (Hc1 & (blob2 & E2) & HX).
  destruct (HX cache1 Hc1) as [U1 U1']. destruct (HX ex_cache Hc) as [U2 U2'].
  split; [exact U1|]. split; [exact U2|]. exists blob2. split; [exact E2|]. split; [apply U1', E2|apply U2', E2].
Qed.

Definition example_statement (sid : pystr) (time : Z) (data : bytes) : Prop :=
  exists blob cache1,
    protect_offline symg ex_cache ex_r1 ex_r2 ex_r3 data sid (Some ex_rkid) time = (Ok blob, cache1) /\
    fst (unprotect_offline symg cache1 blob) = Ok data /\ fst (unprotect_offline symg ex_cache blob) = Ok data /\
    exists blob2, (let* b := blob_unpack blob in blob_pack b false) = Ok blob2 /\
      fst (unprotect_offline symg cache1 blob2) = Ok data /\ fst (unprotect_offline symg ex_cache blob2) = Ok data.

(* empty plaintext *)
Example example_empty : example_statement ex_sid ex_time [].
Proof.
  apply (example_roundtrip ex_sid ex_time 361 31 23 []); [vm_compute; reflexivity|vm_compute; reflexivity|unfold ex_time; lia|vm_compute; reflexivity|ex_wrap_ok|ex_gcm_ok].
Qed.
(* 70 000 bytes, 15 sub-authorities, one tick before an L0 boundary *)
Example example_large : example_statement ex_sid15 ex_time_l0 (repeat 9 70000).
Proof.
  apply (example_roundtrip ex_sid15 ex_time_l0 361 31 31 (repeat 9 70000)); [vm_compute; reflexivity|vm_compute; reflexivity|unfold ex_time_l0; lia|vm_compute; reflexivity|ex_wrap_ok|ex_gcm_ok].
Qed.
(* first tick of the next L0 interval *)
Example example_next_l0 : example_statement ex_sid (ex_time_l0 + 100) [0; 255].
Proof.
  apply (example_roundtrip ex_sid (ex_time_l0 + 100) 362 0 0 [0; 255]); [vm_compute; reflexivity|vm_compute; reflexivity|unfold ex_time_l0; lia|vm_compute; reflexivity|ex_wrap_ok|ex_gcm_ok].
Qed.

(* A cache that "merely has the same root key loaded" is not enough: an entry of the triple that does not conform to
   the chain of the root key (here: a covering envelope with an arbitrary L1 key) makes _get_key answer from it, and
   unprotect fails.  Hence the hypothesis cache_ok on the decrypting cache. *)
Definition bad_entry (l0 : Z) : envelope :=
  {| gke_version := 1; gke_flags := 2; gke_l0 := l0; gke_l1 := 31; gke_l2 := 31; gke_rkid := ex_rkid;
     gke_kdf_alg := STR_KDF_ALG; gke_kdf_params := KekExamples.ex_kdf_params; gke_secret_alg := STR_DH; gke_secret_params := [];
     gke_priv_len := 512; gke_pub_len := 2048; gke_domain := []; gke_forest := []; gke_l1_key := repeat 66 64; gke_l2_key := [] |}.
Example nonconforming_cache_entry :
  let cache2 := cc_set_seed ex_cache (ex_rkid, target_sd (parsed ex_sid), 361) (bad_entry 361) in
  cc_find_root (cc_roots cache2) ex_rkid = Some ex_rk /\
  match protect_offline symg ex_cache ex_r1 ex_r2 ex_r3 [1; 2; 3] ex_sid (Some ex_rkid) ex_time with
  | (Ok blob, cache1) => fst (unprotect_offline symg cache1 blob) = Ok [1; 2; 3] /\ fst (unprotect_offline symg cache2 blob) = Raise InvalidUnwrap
  | _ => False
  end.
Proof. split; vm_compute; auto. Qed.


(* ---- public-key mode instances: the DH group of KekExamples (p = 65521, g = 17, 2-byte fields) and the toy curve of Model/Sym.v ---- *)
Ltac vm_lhs_in H := match type of H with ?l = _ => let v := eval vm_compute in l in let Ev := fresh in assert (Ev : l = v) by (vm_cast_no_check (@eq_refl _ v)); rewrite Ev in H; clear Ev end.
Definition ex_sd : bytes := target_sd (parsed ex_sid).
Definition ex_pk_seed : bytes := match derived_seed symg SHA512 ex_rk ex_rkid ex_sd 361 31 23 with Ok x => x | Raise _ => [] end.
Definition ex_pk_ybytes : bytes := kdf symg SHA512 ex_pk_seed KDS_SERVICE (lit16z "DH") (bytes_of_bits 512).
Definition ex_ep_dh : envelope :=
  {| gke_version := 1; gke_flags := 1; gke_l0 := 361; gke_l1 := 31; gke_l2 := 23; gke_rkid := ex_rkid;
     gke_kdf_alg := STR_KDF_ALG; gke_kdf_params := KekExamples.ex_kdf_params; gke_secret_alg := STR_DH; gke_secret_params := KekExamples.ex_sp 2;
     gke_priv_len := 512; gke_pub_len := 16; gke_domain := [100]; gke_forest := [102; 46; 103]; gke_l1_key := [];
     gke_l2_key := concat (GkdiStructs.ffk_field_list {| ffk_key_length := 2; ffk_field_order := 65521; ffk_generator := 17;
                                                         ffk_public_key := modpow 17 (OS2IP ex_pk_ybytes) 65521 |}) |}.
Lemma ex_dh_env_ok : dh_env_ok symg SHA512 ex_rk ex_rkid 361 31 23 ex_ep_dh ex_pk_seed 2 65521 17.
Proof.
  assert (Wy : wfb ex_pk_ybytes = true) by (vm_compute; reflexivity).
  constructor.
  - reflexivity. - reflexivity. - reflexivity. - reflexivity. - reflexivity. - reflexivity. - reflexivity. - reflexivity. - reflexivity.
  - reflexivity. - reflexivity. - lia. - reflexivity. - reflexivity. - reflexivity.
  - exact Wy.
  - cbn [ex_ep_dh gke_l2_key gke_priv_len]. fold ex_pk_ybytes. unfold dh_public.
    rewrite <- modpow_spec; [reflexivity|lia|]. rewrite OS2IP_be_val. apply be_val_range, Wy.
  - reflexivity.
  - reflexivity.
  - vm_compute. reflexivity.
  - cbn [ex_ep_dh gke_priv_len]. fold ex_pk_ybytes. apply dh_pub_validb_spec. unfold dh_public.
    rewrite <- modpow_spec; [vm_compute; reflexivity|lia|]. rewrite OS2IP_be_val. apply be_val_range, Wy.
Qed.
(* the ephemeral public value of the instance is a valid group element too *)
Lemma ex_r3_pub_valid : dh_pub_valid 65521 (dh_public 65521 17 (OS2IP ex_r3)).
Proof.
  apply dh_pub_validb_spec. unfold dh_public.
  rewrite <- modpow_spec; [vm_compute; reflexivity|lia|]. rewrite OS2IP_be_val. apply be_val_range. vm_compute. reflexivity.
Qed.
Example example_pubkey_dh : exists blob,
  encrypt_blob symg ex_r1 ex_r2 ex_r3 [1; 2; 3] ex_ep_dh ex_sid = Ok blob /\
  fst (unprotect_offline symg ex_cache blob) = Ok [1; 2; 3] /\
  exists blob2, (let* b := blob_unpack blob in blob_pack b false) = Ok blob2 /\ fst (unprotect_offline symg ex_cache blob2) = Ok [1; 2; 3].
Proof.
  assert (R0 : 0 <= 361 <= 2147483647) by lia. assert (R1 : 0 <= 31 <= 31) by lia. assert (R2 : 0 <= 23 <= 31) by lia.
  assert (R3 : 8 + 3 * 2 < U32) by (unfold U32; lia).
  assert (Hc : cache_ok symg SHA512 ex_rk ex_rkid ex_sd 361 ex_cache) by (apply cache_ok_fresh; reflexivity).
  assert (Sw : forall kek kid w, new_kek_rnd symg ex_ep_dh ex_r3 = Ok (kek, kid) -> kw_wrap symg kek ex_r1 = Ok w -> len w < U32).
  { intros kek kid w En Ew. vm_lhs_in En. apply Ok_inj in En. apply (f_equal fst) in En. cbn [fst] in En. subst kek.
    vm_lhs_in Ew. apply Ok_inj in Ew. subst w. vm_compute. reflexivity. }
  assert (Sct : forall ct, gcm_enc symg ex_r1 ex_r2 [1; 2; 3] = Ok ct -> len ct < U32) by ex_gcm_size.
  assert (H1 : rk_hash ex_rk = Ok SHA512) by (vm_compute; reflexivity).
  assert (H2 : sid_parse ex_sid = Ok (parsed ex_sid)) by (vm_compute; reflexivity).
  assert (H3 : sid_okb ex_sid = true) by (vm_compute; reflexivity).
  assert (H4 : derived_seed symg SHA512 ex_rk ex_rkid (target_sd (parsed ex_sid)) 361 31 23 = Ok ex_pk_seed) by (vm_compute; reflexivity).
  assert (H5 : wfb ex_r3 = true) by (vm_compute; reflexivity).
  assert (E : exists blob, encrypt_blob symg ex_r1 ex_r2 ex_r3 [1; 2; 3] ex_ep_dh ex_sid = Ok blob) by (eexists; vm_compute; reflexivity).
  destruct E as (blob & E). exists blob. split; [exact E|].
  destruct (roundtrip_pubkey_dh symg SHA512 ex_rk ex_rkid (parsed ex_sid) ex_sid 361 31 23 H1 eq_refl eq_refl H2 H3 R0 R1 R2
              symg_laws ex_ep_dh ex_pk_seed 2 65521 17 ex_r1 ex_r2 ex_r3 [1; 2; 3] blob H4 ex_dh_env_ok H5 ex_r3_pub_valid R3 eq_refl Sw Sct E) as [(blob2 & E2) HX].
  destruct (HX ex_cache Hc) as [U1 U2]. split; [exact U1|]. exists blob2. split; [exact E2|apply U2, E2].
Qed.

Definition ex_rkE : root_key :=
  {| rk_key := repeat 7 64; rk_version := 1; rk_kdf_alg := STR_KDF_ALG; rk_kdf_params := KekExamples.ex_kdf_params;
     rk_secret_alg := KekExamples.ex_algE; rk_secret_params := None; rk_priv_len := 256; rk_pub_len := 256 |}.
Definition ex_cacheE : ccache := cc_load cc_empty ex_rkid ex_rkE.
Definition ex_pk_seedE : bytes := match derived_seed symg SHA512 ex_rkE ex_rkid ex_sd 361 31 23 with Ok x => x | Raise _ => [] end.
Definition ex_yE : Z := OS2IP (kdf symg SHA512 ex_pk_seedE KDS_SERVICE KekExamples.ex_algzE (bytes_of_bits 256)).
Definition ex_AE : Z * Z := match ec_pub symg P256 ex_yE with Ok A => A | Raise _ => (0, 0) end.
Definition ex_kAE : ecdh_key := {| eck_curve_name := curve_name P256; eck_key_length := 8; eck_x := fst ex_AE; eck_y := snd ex_AE |}.
Definition ex_ep_ecdh : envelope :=
  {| gke_version := 1; gke_flags := 1; gke_l0 := 361; gke_l1 := 31; gke_l2 := 23; gke_rkid := ex_rkid;
     gke_kdf_alg := STR_KDF_ALG; gke_kdf_params := KekExamples.ex_kdf_params; gke_secret_alg := KekExamples.ex_algE; gke_secret_params := [];
     gke_priv_len := 256; gke_pub_len := 256; gke_domain := [100]; gke_forest := []; gke_l1_key := [];
     gke_l2_key := concat (GkdiStructs.eck_field_list P256 ex_kAE) |}.
Lemma ex_ecdh_env_ok : ecdh_env_ok symg SHA512 ex_rkE ex_rkid 361 31 23 ex_ep_ecdh ex_pk_seedE KekExamples.ex_algE KekExamples.ex_algzE P256 8 (fst ex_AE) (snd ex_AE).
Proof.
  constructor.
  - reflexivity. - reflexivity. - reflexivity. - reflexivity. - reflexivity. - reflexivity. - reflexivity. - reflexivity. - reflexivity.
  - reflexivity. - reflexivity. - reflexivity. - reflexivity. - reflexivity.
  - vm_compute. reflexivity.
  - vm_compute. reflexivity.
  - reflexivity.
  - reflexivity.
Qed.
Example example_pubkey_ecdh : exists blob,
  encrypt_blob symg ex_r1 ex_r2 ex_r3 [1; 2; 3] ex_ep_ecdh ex_sid = Ok blob /\
  fst (unprotect_offline symg ex_cacheE blob) = Ok [1; 2; 3] /\
  exists blob2, (let* b := blob_unpack blob in blob_pack b false) = Ok blob2 /\ fst (unprotect_offline symg ex_cacheE blob2) = Ok [1; 2; 3].
Proof.
  assert (R0 : 0 <= 361 <= 2147483647) by lia. assert (R1 : 0 <= 31 <= 31) by lia. assert (R2 : 0 <= 23 <= 31) by lia.
  assert (Hc : cache_ok symg SHA512 ex_rkE ex_rkid ex_sd 361 ex_cacheE) by (apply cache_ok_fresh; reflexivity).
  assert (Ski : forall kek kid, new_kek_rnd symg ex_ep_ecdh ex_r3 = Ok (kek, kid) -> len (kid_key_info kid) < U32).
  { intros kek kid En. vm_lhs_in En. apply Ok_inj in En. apply (f_equal snd) in En. cbn [snd] in En. subst kid. vm_compute. reflexivity. }
  assert (Sw : forall kek kid w, new_kek_rnd symg ex_ep_ecdh ex_r3 = Ok (kek, kid) -> kw_wrap symg kek ex_r1 = Ok w -> len w < U32).
  { intros kek kid w En Ew. vm_lhs_in En. apply Ok_inj in En. apply (f_equal fst) in En. cbn [fst] in En. subst kek.
    vm_lhs_in Ew. apply Ok_inj in Ew. subst w. vm_compute. reflexivity. }
  assert (Sct : forall ct, gcm_enc symg ex_r1 ex_r2 [1; 2; 3] = Ok ct -> len ct < U32) by ex_gcm_size.
  assert (H1 : rk_hash ex_rkE = Ok SHA512) by (vm_compute; reflexivity).
  assert (H2 : sid_parse ex_sid = Ok (parsed ex_sid)) by (vm_compute; reflexivity).
  assert (H3 : sid_okb ex_sid = true) by (vm_compute; reflexivity).
  assert (H4 : derived_seed symg SHA512 ex_rkE ex_rkid (target_sd (parsed ex_sid)) 361 31 23 = Ok ex_pk_seedE) by (vm_compute; reflexivity).
  assert (E : exists blob, encrypt_blob symg ex_r1 ex_r2 ex_r3 [1; 2; 3] ex_ep_ecdh ex_sid = Ok blob) by (eexists; vm_compute; reflexivity).
  destruct E as (blob & E). exists blob. split; [exact E|].
  destruct (roundtrip_pubkey_ecdh symg SHA512 ex_rkE ex_rkid (parsed ex_sid) ex_sid 361 31 23 H1 eq_refl eq_refl H2 H3 R0 R1 R2
              symg_laws ex_ep_ecdh ex_pk_seedE _ _ P256 8 _ _ ex_r1 ex_r2 ex_r3 [1; 2; 3] blob H4 ex_ecdh_env_ok eq_refl Ski Sw Sct E) as [(blob2 & E2) HX].
  destruct (HX ex_cacheE Hc) as [U1 U2]. split; [exact U1|]. exists blob2. split; [exact E2|apply U2, E2].
Qed.

(* the data flow of _encrypt_blob the model encrypt_blob mirrors (regenerated from the source on every run) *)
Lemma blob_flow : k_encrypt_blob_flow = true.
Proof. reflexivity. Qed.
