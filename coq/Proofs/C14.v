From V Require Import Prelude.Base Prelude.PyInt Prelude.PySlice Model.Recv.

Lemma recv_spec n t : 0 < n -> stream t <> [] ->
  exists k, (1 <= k)%nat /\ Z.of_nat k <= n /\ (k <= length (stream t))%nat /\
    recv n t = (firstn k (stream t), {| stream := skipn k (stream t); sched := tl (sched t) |}).
Proof.
  intros Hn Hs. unfold recv. destruct (stream t) as [|x s] eqn:E; [congruence|].
  set (chunk := match sched t with [] => n | c :: _ => Z.max 1 c end).
  assert (1 <= chunk) by (unfold chunk; destruct (sched t); lia).
  set (k := Z.to_nat (Z.min n chunk)).
  assert (1 <= k)%nat by (unfold k; lia).
  assert (Z.of_nat k <= n) by (unfold k; lia).
  clearbody k.
  assert (1 <= length (x :: s))%nat by (cbn [length]; lia).
  exists (Nat.min k (length (x :: s))). split; [lia|]. split; [lia|]. split; [lia|].
  destruct (Nat.le_ge_cases k (length (x :: s))) as [Hle|Hge].
  - rewrite Nat.min_l by assumption. reflexivity.
  - rewrite Nat.min_r by assumption.
    rewrite (firstn_all2 (n:=k)), (skipn_all2 (n:=k)) by assumption.
    rewrite firstn_all, skipn_all. reflexivity.
Qed.

Lemma match_nonempty {A B} (d : list A) (a b : B) : d <> [] -> match d with [] => a | _ :: _ => b end = b.
Proof. destruct d; [congruence|reflexivity]. Qed.

Lemma firstn_add {A} (l : list A) a b : firstn (a + b) l = firstn a l ++ firstn b (skipn a l).
Proof. revert l; induction a as [|a IH]; intros l; [reflexivity|]. destruct l; cbn; [now rewrite firstn_nil|]. now rewrite IH. Qed.
Lemma skipn_add {A} (l : list A) a b : skipn (a + b) l = skipn b (skipn a l).
Proof. revert l; induction a as [|a IH]; intros l; [reflexivity|]. destruct l; cbn; [now rewrite skipn_nil|]. apply IH. Qed.

(* enough bytes in the stream: any segmentation delivers exactly the next `need` bytes *)
Lemma recv_exactly_enough : forall fuel need acc t reads,
  0 <= need <= len (stream t) -> (Z.to_nat need <= fuel)%nat ->
  exists k sch, recv_exactly fuel need acc t reads =
    (Ok (acc ++ firstn (Z.to_nat need) (stream t),
         {| stream := skipn (Z.to_nat need) (stream t); sched := sch |}), (reads + k)%nat)
    /\ (k <= Z.to_nat need)%nat.
Proof.
  induction fuel as [|fuel IH]; intros need acc t reads Hn Hf.
  - assert (need = 0) by lia. subst. cbn. exists 0%nat, (sched t). rewrite app_nil_r, Nat.add_0_r.
    destruct t; cbn. split; [reflexivity|lia].
  - cbn [recv_exactly]. destruct (need <=? 0) eqn:E0.
    + assert (need = 0) by lia. subst. cbn. exists 0%nat, (sched t). rewrite app_nil_r, Nat.add_0_r.
      destruct t; cbn. split; [reflexivity|lia].
    + assert (stream t <> []) as Hne by (intros Hs; rewrite Hs in Hn; cbn in Hn; lia).
      destruct (recv_spec need t ltac:(lia) Hne) as (k & Hk1 & Hk2 & Hk3 & ->).
      assert (length (firstn k (stream t)) = k) as Hlen by (rewrite firstn_length; lia).
      assert (len (firstn k (stream t)) = Z.of_nat k) as Hl by (unfold len; now rewrite Hlen).
      rewrite match_nonempty by (intro Hc; rewrite Hc in Hlen; cbn in Hlen; lia).
      rewrite Hl.
      destruct (IH (need - Z.of_nat k) (acc ++ firstn k (stream t))
                   {| stream := skipn k (stream t); sched := tl (sched t) |} (S reads)) as (k' & sch & Heq & Hk').
      * cbn [stream]. unfold len in *. rewrite skipn_length. lia.
      * lia.
      * exists (S k'), sch. rewrite Heq. cbn [stream]. split; [|lia].
        replace (Z.to_nat need) with (k + Z.to_nat (need - Z.of_nat k))%nat by lia.
        rewrite firstn_add, skipn_add, <- app_assoc. f_equal. lia.
Qed.

(* the stream ends before `need` bytes arrived: EOFError after at most (bytes available + 1) reads *)
Lemma recv_exactly_eof : forall fuel need acc t reads,
  len (stream t) < need -> (length (stream t) < fuel)%nat ->
  exists k, recv_exactly fuel need acc t reads = (Raise EOFError, (reads + k)%nat)
    /\ (1 <= k <= length (stream t) + 1)%nat.
Proof.
  induction fuel as [|fuel IH]; intros need acc t reads Hn Hf; [lia|].
  cbn [recv_exactly]. pose proof (len_nonneg (stream t)). destruct (need <=? 0) eqn:E0; [lia|].
  destruct (stream t) as [|x s] eqn:Es.
  - unfold recv. rewrite Es. exists 1%nat. split; [f_equal; lia|cbn; lia].
  - assert (stream t <> []) as Hne by congruence.
    destruct (recv_spec need t ltac:(lia) Hne) as (k & Hk1 & Hk2 & Hk3 & ->). rewrite Es in *.
    assert (length (firstn k (x :: s)) = k) as Hlen by (rewrite firstn_length; lia).
    assert (len (firstn k (x :: s)) = Z.of_nat k) as Hl by (unfold len; now rewrite Hlen).
    rewrite match_nonempty by (intro Hc; rewrite Hc in Hlen; cbn in Hlen; lia).
    rewrite Hl.
    destruct (IH (need - Z.of_nat k) (acc ++ firstn k (x :: s))
                 {| stream := skipn k (x :: s); sched := tl (sched t) |} (S reads)) as (k' & Heq & Hk').
    + cbn [stream]. unfold len in *. rewrite skipn_length. lia.
    + cbn [stream]. rewrite skipn_length. lia.
    + exists (S k'). rewrite Heq. cbn [stream] in Hk'. rewrite skipn_length in Hk'. split; [f_equal; lia|lia].
Qed.

(* a reply whose header is acceptable and whose frag_len field equals its size *)
Definition wf_reply (reply : bytes) : Prop :=
  16 <= len reply /\ header_frag_len (firstn 16 reply) = Ok (len reply).

Lemma firstn_app_exact {A} (a b : list A) n : n = length a -> firstn n (a ++ b) = a.
Proof. intros ->. rewrite firstn_app, firstn_all, Nat.sub_diag. cbn. apply app_nil_r. Qed.
Lemma skipn_app_exact {A} (a b : list A) n : n = length a -> skipn n (a ++ b) = b.
Proof. intros ->. rewrite skipn_app, skipn_all, Nat.sub_diag. reflexivity. Qed.

Lemma sync_any_split reply rest sch : wf_reply reply ->
  exists sch' reads, sync_recv_pdu {| stream := reply ++ rest; sched := sch |} =
    (Ok (reply, {| stream := rest; sched := sch' |}), reads) /\ (reads <= length reply)%nat.
Proof.
  intros [Hlen Hhdr]. unfold sync_recv_pdu.
  assert (Hsplit : reply = firstn 16 reply ++ skipn 16 reply) by (symmetry; apply firstn_skipn).
  assert (Hl16 : length (firstn 16 reply) = 16%nat) by (rewrite firstn_length; unfold len in Hlen; lia).
  assert (Hlb : length (skipn 16 reply) = (length reply - 16)%nat) by apply skipn_length.
  assert (Hh : firstn (Z.to_nat 16) (reply ++ rest) = firstn 16 reply).
  { rewrite Hsplit at 1. rewrite <- app_assoc. apply firstn_app_exact. rewrite Hl16. reflexivity. }
  assert (Hs : skipn (Z.to_nat 16) (reply ++ rest) = skipn 16 reply ++ rest).
  { rewrite Hsplit at 1. rewrite <- app_assoc. apply skipn_app_exact. rewrite Hl16. reflexivity. }
  assert (Hb : firstn (Z.to_nat (len reply - 16)) (skipn 16 reply ++ rest) = skipn 16 reply).
  { apply firstn_app_exact. rewrite Hlb. unfold len. lia. }
  assert (Hr : skipn (Z.to_nat (len reply - 16)) (skipn 16 reply ++ rest) = rest).
  { apply skipn_app_exact. rewrite Hlb. unfold len. lia. }
  destruct (recv_exactly_enough (RECV_FUEL {| stream := reply ++ rest; sched := sch |}) 16 []
              {| stream := reply ++ rest; sched := sch |} 0) as (k1 & sch1 & -> & Hk1).
  { cbn [stream]. rewrite len_app. pose proof (len_nonneg rest). lia. }
  { unfold RECV_FUEL; cbn [stream]. rewrite app_length. unfold len in Hlen. lia. }
  cbn [app stream]. rewrite Hh, Hs, Hhdr. destruct (len reply <? 16) eqn:E; [lia|].
  destruct (recv_exactly_enough (RECV_FUEL {| stream := skipn 16 reply ++ rest; sched := sch1 |}) (len reply - 16) []
              {| stream := skipn 16 reply ++ rest; sched := sch1 |} (0 + k1)) as (k2 & sch2 & -> & Hk2).
  { cbn [stream]. rewrite len_app. unfold len in *. rewrite Hlb. lia. }
  { unfold RECV_FUEL; cbn [stream]. rewrite app_length, Hlb. unfold len in *. lia. }
  cbn [app stream]. rewrite Hb, Hr, <- Hsplit. exists sch2, (0 + k1 + k2)%nat. split; [reflexivity|unfold len in *; lia].
Qed.

Lemma sync_eof reply k sch : wf_reply reply -> (k < length reply)%nat ->
  exists reads, sync_recv_pdu {| stream := firstn k reply; sched := sch |} = (Raise EOFError, reads)
    /\ (reads <= k + 1)%nat.
Proof.
  intros [Hlen Hhdr] Hk. unfold sync_recv_pdu.
  set (t := {| stream := firstn k reply; sched := sch |}).
  assert (Hlk : length (firstn k reply) = k) by (rewrite firstn_length; lia).
  destruct (Nat.lt_ge_cases k 16) as [Hlt|Hge].
  - destruct (recv_exactly_eof (RECV_FUEL t) 16 [] t 0) as (k1 & -> & Hk1).
    { unfold t, len; cbn [stream]. rewrite Hlk. lia. }
    { unfold RECV_FUEL. lia. }
    exists (0 + k1)%nat. split; [reflexivity|]. unfold t in Hk1; cbn [stream] in Hk1. rewrite Hlk in Hk1. lia.
  - destruct (recv_exactly_enough (RECV_FUEL t) 16 [] t 0) as (k1 & sch1 & -> & Hk1).
    { unfold t, len; cbn [stream]. rewrite Hlk. lia. }
    { unfold RECV_FUEL, t; cbn [stream]. rewrite Hlk. lia. }
    cbn [app]. unfold t at 1. cbn [stream].
    replace (firstn (Z.to_nat 16) (firstn k reply)) with (firstn 16 reply).
    2:{ rewrite firstn_firstn. f_equal. lia. }
    rewrite Hhdr. destruct (len reply <? 16) eqn:E; [lia|].
    set (t1 := {| stream := skipn (Z.to_nat 16) (stream t); sched := sch1 |}).
    assert (Hl1 : length (stream t1) = (k - 16)%nat).
    { unfold t1, t; cbn [stream]. rewrite skipn_length, Hlk. lia. }
    destruct (recv_exactly_eof (RECV_FUEL t1) (len reply - 16) [] t1 (0 + k1)) as (k2 & -> & Hk2).
    { unfold len. rewrite Hl1. lia. }
    { unfold RECV_FUEL. lia. }
    exists (0 + k1 + k2)%nat. split; [reflexivity|]. rewrite Hl1 in Hk2. lia.
Qed.

(* async flavour (readexactly law): same bytes, or IncompleteReadError when the stream is short *)
Lemma async_whole reply rest : wf_reply reply -> async_recv_pdu (reply ++ rest) = Ok (reply, rest).
Proof.
  intros [Hlen Hhdr]. unfold async_recv_pdu, readexactly.
  pose proof (len_nonneg rest). rewrite len_app. cbn [Z.ltb Z.compare].
  destruct (len reply + len rest <? 16) eqn:E1; [lia|]. cbn [bind].
  assert (Hsplit : reply = firstn 16 reply ++ skipn 16 reply) by (symmetry; apply firstn_skipn).
  assert (Hl16 : length (firstn 16 reply) = 16%nat) by (rewrite firstn_length; unfold len in Hlen; lia).
  assert (Hlb : length (skipn 16 reply) = (length reply - 16)%nat) by apply skipn_length.
  replace (firstn (Z.to_nat 16) (reply ++ rest)) with (firstn 16 reply).
  2:{ rewrite Hsplit at 2. rewrite <- app_assoc. symmetry. apply firstn_app_exact. rewrite Hl16. reflexivity. }
  rewrite Hhdr. cbn [bind].
  replace (skipn (Z.to_nat 16) (reply ++ rest)) with (skipn 16 reply ++ rest).
  2:{ rewrite Hsplit at 2. rewrite <- app_assoc. symmetry. apply skipn_app_exact. rewrite Hl16. reflexivity. }
  destruct (len reply - 16 <? 0) eqn:E2; [lia|].
  rewrite len_app. unfold len in *. rewrite Hlb.
  rewrite firstn_app_exact, skipn_app_exact by (rewrite Hlb; lia).
  match goal with |- context [if ?c then Raise IncompleteRead else _] => destruct c eqn:E3 end; [lia|].
  cbn [bind]. now rewrite <- Hsplit.
Qed.

Lemma async_eof reply k : wf_reply reply -> (k < length reply)%nat ->
  async_recv_pdu (firstn k reply) = Raise IncompleteRead.
Proof.
  intros [Hlen Hhdr] Hk. unfold async_recv_pdu, readexactly.
  assert (Hlk : length (firstn k reply) = k) by (rewrite firstn_length; lia).
  cbn [Z.ltb Z.compare]. unfold len at 1. rewrite Hlk.
  destruct (Z.of_nat k <? 16) eqn:E1; [reflexivity|]. cbn [bind].
  replace (firstn (Z.to_nat 16) (firstn k reply)) with (firstn 16 reply) by (rewrite firstn_firstn; f_equal; lia).
  rewrite Hhdr. cbn [bind]. destruct (len reply - 16 <? 0) eqn:E2; [lia|].
  match goal with |- context [if ?c then Raise IncompleteRead else _] => destruct c eqn:E3 end; [reflexivity|].
  exfalso. unfold len in *. rewrite skipn_length, Hlk in E3. lia.
Qed.

Lemma same_pdu reply rest sch : wf_reply reply ->
  exists sch' reads, fst (sync_recv_pdu {| stream := reply ++ rest; sched := sch |}) = Ok (reply, {| stream := rest; sched := sch' |})
    /\ async_recv_pdu (reply ++ rest) = Ok (reply, rest) /\ (reads <= length reply)%nat.
Proof.
  intros H. destruct (sync_any_split reply rest sch H) as (sch' & reads & E & Hr).
  exists sch', reads. rewrite E. auto using async_whole.
Qed.
