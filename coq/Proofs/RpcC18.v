(* C18: the client on replies produced by the independent NDR64 reference marshaller (Spec/Ndr64Epm.v). *)
From V Require Import Prelude.Base Prelude.PyInt Prelude.PySlice Spec.Ndr64Epm.
From V Require Import Model.Pdu Model.Request Model.RpcLoop Model.Bind Model.Epm.
From V Require Import Proofs.RpcLib Proofs.RpcKernels Proofs.RpcPdu Proofs.RpcBind Proofs.RpcEpm.

(* ---- reference floors as the decoder sees them ---- *)
Definition spec_kind (p : Z) (l r : bytes) : floor_kind :=
  match floor_kind_of p l r with Ok k => k | Raise _ => FK_Generic end.
Definition floor_of_spec (f : spec_floor) : floor :=
  let '(p, l, r) := f in {| fl_kind := spec_kind p l r; fl_protocol := p; fl_lhs := l; fl_rhs := r |}.
(* well-formed: the lengths fit their 2-octet counts, the identifier is an octet, and a UUID floor
   (identifier 0x0d) carries at least the 16 UUID octets *)
Definition wf_spec_floor (f : spec_floor) : bool :=
  let '(p, l, r) := f in
  in_range 1 p && in_range 2 (len l + 1) && in_range 2 (len r) && (if p =? c_FLOOR_UUID then 16 <=? len l else true).

Lemma spec_floor_bytes_generic p l r : in_range 1 p = true -> spec_floor_bytes (p, l, r) = floor_generic_pack p l r.
Proof. intros H. apply in_range_spec in H. rewrite P_1 in H. unfold spec_floor_bytes, floor_generic_pack. cbn [concat].
  rewrite le1 by lia. rewrite app_nil_r, (Z.add_comm 1). reflexivity. Qed.

Lemma floor_kind_of_spec p l r : (if p =? c_FLOOR_UUID then 16 <=? len l else true) = true ->
  floor_kind_of p l r = Ok (spec_kind p l r).
Proof.
  intros H. unfold spec_kind. unfold floor_kind_of.
  destruct (p =? c_FLOOR_TCP); [reflexivity|]. destruct (p =? c_FLOOR_IP); [reflexivity|]. destruct (p =? c_FLOOR_RPC_CO); [reflexivity|].
  destruct (p =? c_FLOOR_UUID); [|reflexivity].
  unfold uuid_of_bytes_le. rewrite len_slice by (pose proof (len_nonneg l); lia). change (16 - 0 =? 16) with true. reflexivity.
Qed.

Lemma spec_floor_rt f rest : wf_spec_floor f = true -> floor_unpack (spec_floor_bytes f ++ rest) = Ok (floor_of_spec f).
Proof.
  destruct f as [[p l] r]. unfold wf_spec_floor. intros H.
  apply andb_true_iff in H. destruct H as [H Hu]. apply andb_true_iff in H. destruct H as [H Hr]. apply andb_true_iff in H. destruct H as [Hp Hl].
  rewrite spec_floor_bytes_generic by assumption. rewrite floor_generic_rt by assumption.
  rewrite (floor_kind_of_spec _ _ _ Hu). reflexivity.
Qed.
Lemma spec_floor_adv f rest : wf_spec_floor f = true ->
  slice (Some (len (fl_lhs (floor_of_spec f)) + len (fl_rhs (floor_of_spec f)) + 5)) None (spec_floor_bytes f ++ rest) = rest.
Proof.
  destruct f as [[p l] r]. unfold wf_spec_floor. intros H.
  apply andb_true_iff in H. destruct H as [H Hu]. apply andb_true_iff in H. destruct H as [H Hr]. apply andb_true_iff in H. destruct H as [Hp Hl].
  rewrite spec_floor_bytes_generic by assumption. cbn [floor_of_spec fl_lhs fl_rhs].
  rewrite <- (len_floor_generic_pack p). apply slice_app_r.
Qed.

Lemma spec_tower_bytes_eq t : spec_tower_bytes t = twr_bytes spec_floor spec_floor_bytes t.
Proof. reflexivity. Qed.

(* ---- the marshaller's running buffer ---- *)
Lemma align_to_aligned k buf : 0 < k -> len buf mod k = 0 -> align_to k buf = buf.
Proof. intros Hk H. unfold align_to. rewrite Z.mod_opp_l_z by lia. cbn [Z.to_nat repeat]. apply app_nil_r. Qed.

(* pointees relative to the offset they start at *)
Fixpoint area_pre (l : Z) (ts : list bytes) : bytes :=
  match ts with
  | [] => []
  | t :: r => repeat 0 (Z.to_nat ((- l) mod 8)) ++ le 8 (len t) ++ le 4 (len t) ++ t ++ area_pre (l + (- l) mod 8 + 12 + len t) r
  end.

Lemma put_pointees_area : forall ts buf, put_pointees buf ts = buf ++ area_pre (len buf) ts.
Proof.
  induction ts as [|t r IH]; intros buf; cbn [put_pointees area_pre]; [now rewrite app_nil_r|].
  rewrite IH. unfold put_twr, put_u32, put_u64.
  assert (Ha : len (align_to 8 buf ++ le 8 (len t)) mod 4 = 0).
  { unfold align_to. rewrite !len_app, len_repeat, len_le. pose proof (len_nonneg buf). lia. }
  rewrite (align_to_aligned 4 _ ltac:(lia) Ha). unfold align_to. rewrite <- !app_assoc. do 5 f_equal.
  rewrite !len_app, len_repeat, !len_le. f_equal. pose proof (len_nonneg buf). pose proof (len_nonneg t). lia.
Qed.

Lemma put_referents_len : forall n buf id, len buf mod 8 = 0 ->
  exists refs, put_referents buf id n = buf ++ refs /\ len refs = 8 * Z.of_nat n.
Proof.
  induction n as [|n IH]; intros buf id Hb; cbn [put_referents].
  - exists []. split; [now rewrite app_nil_r|reflexivity].
  - unfold put_u64. rewrite (align_to_aligned 8 _ ltac:(lia) Hb).
    destruct (IH (buf ++ le 8 id) (id + 1)) as (refs & He & Hl).
    { rewrite len_app, len_le. pose proof (len_nonneg buf). lia. }
    exists (le 8 id ++ refs). split; [rewrite He, <- app_assoc; reflexivity|]. rewrite len_app, len_le. lia.
Qed.

Lemma area_pre_shift l ts : ts <> [] -> area_pre l ts = repeat 0 (Z.to_nat ((- l) mod 8)) ++ area_pre (l + (- l) mod 8) ts.
Proof.
  destruct ts as [|t r]; [congruence|]. intros _. cbn [area_pre].
  replace ((- (l + (- l) mod 8)) mod 8) with 0 by lia. cbn [Z.to_nat repeat app].
  replace (l + (- l) mod 8 + 0 + 12 + len t) with (l + (- l) mod 8 + 12 + len t) by lia. reflexivity.
Qed.

Lemma area_at : forall ts l tail, l mod 8 = 0 ->
  towers_at spec_floor spec_floor_bytes ts (area_pre l (map spec_tower_bytes ts) ++ tail).
Proof.
  induction ts as [|t r IH]; intros l tail Hl; [exact I|].
  cbn [map area_pre towers_at]. change (twr_bytes spec_floor spec_floor_bytes t) with (spec_tower_bytes t). set (L := len (spec_tower_bytes t)).
  replace ((- l) mod 8) with 0 by lia. cbn [Z.to_nat repeat app].
  exists (area_pre (l + 0 + 12 + L) (map spec_tower_bytes r) ++ tail). split; [rewrite <- !app_assoc; reflexivity|].
  destruct r as [|t2 r2]; [exact I|].
  rewrite area_pre_shift by discriminate. rewrite <- app_assoc.
  rewrite slice_app_r_len by (rewrite len_repeat; unfold k_eptres_unpack_pad; lia).
  apply IH. lia.
Qed.

(* ---- what the client extracts ---- *)
Lemma floor_tcp_port_spec p l r : floor_tcp_port (floor_of_spec (p, l, r)) = if p =? tcp_protocol_id then Some (be_val r) else None.
Proof.
  unfold floor_tcp_port, floor_of_spec, spec_kind, floor_kind_of. cbn [fl_kind].
  change tcp_protocol_id with c_FLOOR_TCP.
  destruct (p =? c_FLOOR_TCP); [reflexivity|]. destruct (p =? c_FLOOR_IP); [reflexivity|]. destruct (p =? c_FLOOR_RPC_CO); [reflexivity|].
  destruct (p =? c_FLOOR_UUID); [|reflexivity]. destruct (uuid_of_bytes_le _); reflexivity.
Qed.
Lemma first_tcp_port_tower_spec t : first_tcp_port_tower (map floor_of_spec t) = spec_tcp_port_tower t.
Proof.
  induction t as [|[[p l] r] t IH]; [reflexivity|]. cbn [map first_tcp_port_tower spec_tcp_port_tower].
  rewrite floor_tcp_port_spec. destruct (p =? tcp_protocol_id); [reflexivity|exact IH].
Qed.
Lemma first_tcp_port_spec ts : first_tcp_port (map (map floor_of_spec) ts) = spec_tcp_port ts.
Proof.
  induction ts as [|t ts IH]; [reflexivity|]. cbn [map first_tcp_port spec_tcp_port].
  rewrite first_tcp_port_tower_spec. destruct (spec_tcp_port_tower t); [reflexivity|exact IH].
Qed.

Definition wf_spec_tower := ok_tower spec_floor spec_floor_bytes wf_spec_floor.
Definition wf_reply (h : option (Z * bytes)) (mt : Z) (towers : list (list spec_floor)) (status : Z) : bool :=
  wf_entry_handle h && in_range 8 mt && forallb wf_spec_tower towers && in_range 4 (len towers) && in_range 4 status.

Lemma len_spec_floor_ge f : 1 <= len (spec_floor_bytes f).
Proof. destruct f as [[p l] r]. unfold spec_floor_bytes. rewrite !len_app, !len_le, len_cons, len_nil. pose proof (len_nonneg l). pose proof (len_nonneg r). lia. Qed.
Lemma len_spec_tower_ge t : len t <= len (spec_tower_bytes t).
Proof. unfold spec_tower_bytes. rewrite len_app, len_le. induction t as [|f t IH]; [cbn; lia|].
  cbn [map concat]. rewrite len_app, len_cons. pose proof (len_spec_floor_ge f). lia. Qed.
Lemma area_pre_ge tw : forall ts l, In tw ts -> len tw <= len (area_pre l (map spec_tower_bytes ts)).
Proof.
  induction ts as [|t r IH]; intros l []; cbn [map area_pre]; rewrite !len_app.
  - subst t. pose proof (len_spec_tower_ge tw). pose proof (len_nonneg (area_pre (l + - l mod 8 + 12 + len (spec_tower_bytes tw)) (map spec_tower_bytes r))).
    rewrite len_repeat, !len_le. lia.
  - specialize (IH (l + - l mod 8 + 12 + len (spec_tower_bytes t)) H). rewrite len_repeat, !len_le. pose proof (len_nonneg (spec_tower_bytes t)). lia.
Qed.

Lemma reply_layout h mt towers status : wf_entry_handle h = true ->
  exists refs area, len refs = 8 * len towers /\
    ndr64_eptmap_reply h mt towers status
    = entry_handle_pack h ++ le 4 (len towers) ++ le 8 mt ++ le 8 0 ++ le 8 (len towers) ++ refs ++ area ++ le 4 status /\
    towers_at spec_floor spec_floor_bytes towers (area ++ le 4 status) /\
    (forall tw, In tw towers -> len tw <= len area).
Proof.
  intros Hh. pose proof (len_entry_handle_pack h Hh) as H20.
  unfold ndr64_eptmap_reply. change (context_handle h) with (entry_handle_pack h).
  set (b0 := entry_handle_pack h) in *.
  assert (E1 : put_u32 b0 (len towers) = b0 ++ le 4 (len towers)).
  { unfold put_u32. rewrite align_to_aligned by (rewrite ?H20; reflexivity || lia). reflexivity. }
  rewrite E1.
  assert (E2 : put_u64 (b0 ++ le 4 (len towers)) mt = b0 ++ le 4 (len towers) ++ le 8 mt).
  { unfold put_u64. rewrite align_to_aligned by (rewrite ?len_app, ?len_le, ?H20; reflexivity || lia). now rewrite <- app_assoc. }
  rewrite E2.
  assert (E3 : put_u64 (b0 ++ le 4 (len towers) ++ le 8 mt) 0 = b0 ++ le 4 (len towers) ++ le 8 mt ++ le 8 0).
  { unfold put_u64. rewrite align_to_aligned by (rewrite ?len_app, ?len_le, ?H20; reflexivity || lia). now rewrite <- !app_assoc. }
  rewrite E3.
  assert (E4 : put_u64 (b0 ++ le 4 (len towers) ++ le 8 mt ++ le 8 0) (len towers) = b0 ++ le 4 (len towers) ++ le 8 mt ++ le 8 0 ++ le 8 (len towers)).
  { unfold put_u64. rewrite align_to_aligned by (rewrite ?len_app, ?len_le, ?H20; reflexivity || lia). now rewrite <- !app_assoc. }
  rewrite E4.
  set (b4 := b0 ++ le 4 (len towers) ++ le 8 mt ++ le 8 0 ++ le 8 (len towers)).
  assert (H48 : len b4 = 48) by (unfold b4; rewrite !len_app, !len_le, H20; reflexivity).
  destruct (put_referents_len (length towers) b4 3 ltac:(rewrite H48; reflexivity)) as (refs & Er & Hr).
  rewrite Er, put_pointees_area. unfold put_u32.
  set (area0 := area_pre (len (b4 ++ refs)) (map spec_tower_bytes towers)).
  set (tailpad := repeat 0 (Z.to_nat ((- len ((b4 ++ refs) ++ area0)) mod 4))).
  exists refs, (area0 ++ tailpad). split; [exact Hr|]. split; [|split].
  - unfold align_to. fold tailpad. unfold b4. rewrite <- !app_assoc. reflexivity.
  - rewrite <- app_assoc. apply area_at. rewrite len_app, H48, Hr. unfold len. lia.
  - intros tw Htw. rewrite len_app. pose proof (area_pre_ge tw towers (len (b4 ++ refs)) Htw). pose proof (len_nonneg tailpad). fold area0 in H. lia.
Qed.

Theorem c18_reply h mt towers status fuel : wf_reply h mt towers status = true ->
  (length (ndr64_eptmap_reply h mt towers status) <= fuel)%nat ->
  ept_map_result_unpack fuel (ndr64_eptmap_reply h mt towers status)
    = Ok ({| er_entry_handle := h; er_towers := map (map floor_of_spec) towers; er_status := status |}, tower_ticks towers)
  /\ process_ept_map_result fuel (ndr64_eptmap_reply h mt towers status)
    = if status =? 0 then match spec_tcp_port towers with Some p => Ok (p, tower_ticks towers) | None => Raise ValueError end
      else Raise ValueError.
Proof.
  unfold wf_reply. intros H Hf.
  apply andb_true_iff in H. destruct H as [H Hst]. apply andb_true_iff in H. destruct H as [H Hn]. apply andb_true_iff in H. destruct H as [H Hts].
  apply andb_true_iff in H. destruct H as [Hh Hmt].
  destruct (reply_layout h mt towers status Hh) as (refs & area & Hr & Hrep & Hat & Hge).
  assert (Hu : ept_map_result_unpack fuel (ndr64_eptmap_reply h mt towers status)
    = Ok ({| er_entry_handle := h; er_towers := map (map floor_of_spec) towers; er_status := status |}, tower_ticks towers)).
  { rewrite Hrep in *.
    assert (Hlen : len refs + len area <= Z.of_nat fuel) by (revert Hf; rewrite !app_length; unfold len; lia).
    pose proof (len_nonneg towers). pose proof (len_nonneg area).
    apply (eptres_unpack_layout spec_floor spec_floor_bytes floor_of_spec wf_spec_floor spec_floor_rt spec_floor_adv); try assumption;
      try (rewrite len_le; reflexivity).
    - unfold len in *. lia.
    - intros tw Htw. specialize (Hge tw Htw). unfold len in *. lia. }
  split; [exact Hu|].
  unfold process_ept_map_result. rewrite Hu. cbn [bind er_status er_towers]. rewrite ept_status_bad_spec, first_tcp_port_spec.
  destruct (status =? 0); reflexivity.
Qed.
