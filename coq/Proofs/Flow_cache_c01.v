(* C01 for the SOURCE functions: the regenerated bodies of ncrypt_protect_secret / ncrypt_unprotect_secret and of their ASYNC twins
   (gen/F_cache.v), run offline in the concrete world Flow/World_cache.v (no DC reachable: both network callees raise), round-trip.
   Composition of the flow ties (Proofs/Flow_cache_public.v: the bodies compute Client.protect_offline / unprotect_offline, value and
   cache afterwards) with roundtrip_offline (Proofs/C01.v), under exactly its hypotheses. *)
From V Require Import Prelude.Base Prelude.PyInt Prelude.PyAst Prelude.PyAstMut Prelude.PyWorld gen.F_cache.
From V Require Import Model.Types Model.Crypto Model.Chain Model.KeyId Model.Gkdi Model.Kek Model.SecDesc Model.Blob Model.Interval Model.Client.
From V Require Import Proofs.BlobPkcs7 Proofs.BlobMain Proofs.C01Lib Proofs.C01 Flow.World_cache Proofs.Flow_cache_public.
Local Open Scope Z_scope.

Lemma lift2_ok (rc : res bytes * ccache) b cc : lift2 rc = Ok (VB b, VO (OCache cc)) -> rc = (Ok b, cc).
Proof. destruct rc as [[x|e] cc']; unfold lift2; cbn [fst snd bind]; intros H; [|discriminate]. injection H as -> ->. reflexivity. Qed.

Section RoundTrip.
Context (c : Crypto) (h : hash) (rk : root_key) (rkid : bytes) (s : sid) (sid : pystr) (time_ns l0 l1 l2 : Z).
Hypothesis (Hh : rk_hash rk = Ok h) (Ha : rk_kdf_alg rk = STR_KDF_ALG) (Hl : len rkid = 16).
Hypothesis (Hs : sid_parse sid = Ok s) (Hso : sid_okb sid = true) (Ht : 0 <= time_ns) (Hi : interval_of_time_ns time_ns = (l0, l1, l2)).
Hypothesis (Hk : kdf_nonempty c) (Hc : CryptoLaws c).

(* k_p / k_u: the protect and the unprotect function (sync or async) *)
Lemma flow_roundtrip_gen (k_p k_u : pfun) :
  (forall r1 r2 r3 ns fuel data sid0 rkid0 server dom u p a co,
     value_and_param 8 (run_mut (MW c r1 r2 r3 ns no_dns no_dc) fuel k_p [VB data; VS sid0; vbytes_opt rkid0; vstr_opt server; dom; u; p; a; vcache_opt co])
     = lift2 (protect_offline c (cache_or_new co) r1 r2 r3 data sid0 rkid0 ns)) ->
  (forall r1 r2 r3 ns fuel data server u p a co,
     value_and_param 5 (run_mut (MW c r1 r2 r3 ns no_dns no_dc) fuel k_u [VB data; vstr_opt server; u; p; a; vcache_opt co])
     = lift2 (unprotect_offline c (cache_or_new co) data)) ->
  forall (cache : ccache) (r1 r2 r3 data blob : bytes) (cache1 : ccache) fuel server dom u p a,
  cache_ok c h rk rkid (target_sd s) l0 cache -> len r2 = 12 -> len r3 = 32 ->
  (forall kek w, derived_kek c h rk rkid (target_sd s) l0 l1 l2 r3 = Ok kek -> kw_wrap c kek r1 = Ok w -> len w < U32) ->
  (forall ct, gcm_enc c r1 r2 data = Ok ct -> len ct < U32) ->
  value_and_param 8 (run_mut (MW c r1 r2 r3 time_ns no_dns no_dc) fuel k_p
                       [VB data; VS sid; VB rkid; vstr_opt server; dom; u; p; a; VO (OCache cache)])
  = Ok (VB blob, VO (OCache cache1)) ->
  cache_ok c h rk rkid (target_sd s) l0 cache1 /\
  forall X, cache_ok c h rk rkid (target_sd s) l0 X ->
    forall q1 q2 q3 ns' fuel' server' u' p' a',
    value_and_param 5 (run_mut (MW c q1 q2 q3 ns' no_dns no_dc) fuel' k_u [VB blob; vstr_opt server'; u'; p'; a'; VO (OCache X)])
    = Ok (VB data, VO (OCache (snd (unprotect_offline c X blob)))).
Proof.
  intros HP HU cache r1 r2 r3 data blob cache1 fuel server dom u p a Hco H2 H3 Hw Hg Hrun.
  pose proof (HP r1 r2 r3 time_ns fuel data sid (Some rkid) server dom u p a (Some cache)) as E. cbn [vbytes_opt vcache_opt cache_or_new] in E. rewrite E in Hrun. clear E.
  apply lift2_ok in Hrun.
  destruct (roundtrip_offline c h rk rkid s sid time_ns l0 l1 l2 Hh Ha Hl Hs Hso Ht Hi Hk Hc cache r1 r2 r3 data blob cache1 Hco H2 H3 Hw Hg Hrun)
    as (Hco1 & _ & HX).
  split; [exact Hco1|]. intros X HXo q1 q2 q3 ns' fuel' server' u' p' a'.
  pose proof (HU q1 q2 q3 ns' fuel' blob server' u' p' a' (Some X)) as E. cbn [vcache_opt cache_or_new] in E. rewrite E. clear E.
  destruct (HX X HXo) as [Hd _]. unfold lift2. rewrite Hd. reflexivity.
Qed.
End RoundTrip.

(* the sync pair and the ASYNC pair *)
Definition flow_roundtrip_sync c h rk rkid s sid time_ns l0 l1 l2 Hh Ha Hl Hs Hso Ht Hi Hk Hc :=
  flow_roundtrip_gen c h rk rkid s sid time_ns l0 l1 l2 Hh Ha Hl Hs Hso Ht Hi Hk Hc k_flow_ncrypt_protect_secret k_flow_ncrypt_unprotect_secret
    (flow_protect_offline c) (flow_unprotect_offline c).
Definition flow_roundtrip_async c h rk rkid s sid time_ns l0 l1 l2 Hh Ha Hl Hs Hso Ht Hi Hk Hc :=
  flow_roundtrip_gen c h rk rkid s sid time_ns l0 l1 l2 Hh Ha Hl Hs Hso Ht Hi Hk Hc k_flow_async_ncrypt_protect_secret k_flow_async_ncrypt_unprotect_secret
    (flow_async_protect_offline c) (flow_async_unprotect_offline c).
