(* C11: GetKey.pack / unpack round trip, GetKey.pack = NDR64 reference encoding of the request,
   unpack_response on the NDR64 reference reply, HRESULT check, auth-pad stripping. *)
From V Require Import Prelude.Base Prelude.PyInt Prelude.PySlice Prelude.PyStr.
From V Require Import gen.C_gkdi gen.K_gkdi Model.Types Model.KeyId Model.Gkdi Spec.GkdiLayout Proofs.GkdiLib.

(* ---- kernel obligations: the padding expression of GetKey.unpack ---- *)
Lemma k_getkey_unpack_pad_spec n : 0 <= k_getkey_unpack_pad n < 8 /\ (n + k_getkey_unpack_pad n) mod 8 = 0.
Proof. unfold k_getkey_unpack_pad. lia. Qed.
Lemma k_getkey_resp_fail_spec h : k_getkey_resp_fail h = negb (h =? 0).
Proof. reflexivity. Qed.

(* ---- little-endian helpers ---- *)
Lemma le_app a : forall b z, le (a + b) z = le a z ++ le b (z / P a).
Proof.
  induction a as [|a IH]; intros b z.
  - cbn [Nat.add le app]. rewrite P_0, Z.div_1_r. reflexivity.
  - cbn [Nat.add le app]. rewrite IH. do 2 f_equal. rewrite P_S. pose proof (P_pos a).
    rewrite Z.div_div by lia. reflexivity.
Qed.
Lemma le_mod w : forall z, le w (z mod P w) = le w z.
Proof.
  induction w as [|w IH]; intros z; [reflexivity|].
  cbn [le]. rewrite P_S. pose proof (P_pos w). rewrite Z.rem_mul_r by lia.
  set (k := (z / 256) mod P w).
  replace ((z mod 256 + 256 * k) mod 256) with (z mod 256) by lia.
  replace ((z mod 256 + 256 * k) / 256) with k by lia.
  unfold k. rewrite IH. reflexivity.
Qed.
Lemma le8_small n : 0 <= n < P 4 -> le 8 n = le 4 n ++ [0; 0; 0; 0].
Proof. intros H. change 8%nat with (4 + 4)%nat. rewrite le_app. rewrite Z.div_small by lia. reflexivity. Qed.

Lemma len_zeros k : 0 <= k -> len (zeros k) = k.
Proof. intros H. unfold zeros, len. rewrite repeat_length. lia. Qed.
Lemma zeros_0 : zeros 0 = []. Proof. reflexivity. Qed.

Lemma u32le_le z : u32b z = true -> u32le z = Some (le 4 z).
Proof.
  unfold u32b, u32le. intros H. rewrite H. cbn [le]. rewrite !Z.div_div by lia. reflexivity.
Qed.
Lemma u64le_le z : 0 <= z < P 8 -> u64le z = Some (le 8 z).
Proof.
  rewrite P_8. intros H. unfold u64le.
  destruct ((0 <=? z) && (z <? 18446744073709551616)) eqn:E; [|lia].
  rewrite !u32le_le by (unfold u32b; lia).
  change 8%nat with (4 + 4)%nat. rewrite le_app, P_4.
  rewrite <- P_4 at 1. rewrite le_mod. reflexivity.
Qed.
Lemma i32le_le z : i32b z = true -> i32le z = Some (le 4 (z mod P 4)).
Proof.
  unfold i32b, i32le. intros H. rewrite H. rewrite P_4.
  assert (Hm : z mod 4294967296 = if z <? 0 then z + 4294967296 else z) by (destruct (z <? 0) eqn:E; lia).
  rewrite Hm. apply u32le_le. unfold u32b. destruct (z <? 0) eqn:E; lia.
Qed.
Lemma align_of n buf k : k = (- len buf) mod n -> align n buf = buf ++ zeros k.
Proof. intros ->. reflexivity. Qed.

Ltac offs := cbv zeta; cbn [off nth length]; rewrite ?len_le, ?len_zeros by lia; change (len [0; 0; 0; 0]) with 4;
  cbn [Z.of_nat Pos.of_succ_nat Pos.succ]; lia.
(* ---- request ---- *)
Definition wf_getkey (g : getkey) : bool :=
  u32b (len (gk_target_sd g)) &&
  match gk_root_key_id g with Some rk => len rk =? 16 | None => true end &&
  i32b (gk_l0 g) && i32b (gk_l1 g) && i32b (gk_l2 g).

Definition getkey_field_list (g : getkey) : list bytes :=
  let n := len (gk_target_sd g) in
  [ le 4 n; [0; 0; 0; 0]; le 8 n; gk_target_sd g; zeros ((- n) mod 8);
    match gk_root_key_id g with Some rk => c_GETKEY_REFERENT ++ rk | None => c_GETKEY_NULLPTR end;
    le 4 (gk_l0 g mod P 4); le 4 (gk_l1 g mod P 4); le 4 (gk_l2 g mod P 4) ].

Lemma i32b_P z : i32b z = true -> - P 4 <= 2 * z < P 4.
Proof. unfold i32b. rewrite P_4. lia. Qed.

Lemma GetKey_pack_ok g : wf_getkey g = true -> GetKey_pack g = Ok (concat (getkey_field_list g)).
Proof.
  unfold wf_getkey. rewrite !andb_true_iff. intros [[[[Hn Hrk] H0] H1] H2].
  unfold GetKey_pack, GetKey_fields.
  pose proof (u32b_P4 _ Hn) as Hn4.
  rewrite to_bytes_le_ok by (rewrite P_8; rewrite P_4 in Hn4; lia). cbn [bind].
  rewrite !to_bytes_le_signed_ok by (apply i32b_P; assumption). cbn [bind].
  unfold getkey_field_list. cbv zeta. cbn [concat]. rewrite (le8_small _ Hn4) at 1.
  rewrite <- !app_assoc. reflexivity.
Qed.

Lemma GetKey_unpack_fields g : wf_getkey g = true -> GetKey_unpack (concat (getkey_field_list g)) = Ok g.
Proof.
  unfold wf_getkey. rewrite !andb_true_iff. intros [[[[Hn Hrk] H0] H1] H2].
  unfold GetKey_unpack. cbv zeta. rewrite (slice_none_lo (Some 4) (concat _)).
  remember (len (gk_target_sd g)) as n eqn:En.
  assert (Hpad : 0 <= (- n) mod 8 < 8) by lia.
  set (fs := getkey_field_list g).
  rewrite (slice_field fs 0 0 4) by (unfold fs, getkey_field_list; offs).
  assert (Hf0 : le_val (@nth (list Z) 0 fs []) = n) by (unfold fs, getkey_field_list; cbv zeta; cbn [nth]; rewrite <- En; apply le4_val, Hn).
  rewrite !Hf0.
  rewrite (slice_field fs 3 16 (16 + n)) by (unfold fs, getkey_field_list; offs).
  unfold k_getkey_unpack_pad.
  rewrite (slice_tail fs 5 (16 + n + (- n) mod 8))
    by (unfold fs, getkey_field_list; offs).
  unfold fs, getkey_field_list. cbv zeta. cbn [nth skipn concat]. rewrite app_nil_r.
  assert (Hints : forall (pre : bytes) rk,
    (let view := le 4 (gk_l0 g mod P 4) ++ le 4 (gk_l1 g mod P 4) ++ le 4 (gk_l2 g mod P 4) in
     Ok {| gk_target_sd := gk_target_sd g; gk_root_key_id := rk;
           gk_l0 := le_val_signed (slice None (Some 4) view);
           gk_l1 := le_val_signed (slice (Some 4) (Some 8) view);
           gk_l2 := le_val_signed (slice (Some 8) (Some 12) view) |}) =
     Ok {| gk_target_sd := gk_target_sd g; gk_root_key_id := rk; gk_l0 := gk_l0 g; gk_l1 := gk_l1 g; gk_l2 := gk_l2 g |}).
  { intros _ rk. cbv zeta.
    set (ls := [le 4 (gk_l0 g mod P 4); le 4 (gk_l1 g mod P 4); le 4 (gk_l2 g mod P 4)]).
    replace (le 4 (gk_l0 g mod P 4) ++ le 4 (gk_l1 g mod P 4) ++ le 4 (gk_l2 g mod P 4)) with (concat ls)
      by (unfold ls; cbn [concat]; rewrite app_nil_r; reflexivity).
    rewrite (slice_none_lo (Some 4)).
    rewrite (slice_field ls 0 0 4) by (unfold ls; offs).
    rewrite (slice_field ls 1 4 8) by (unfold ls; offs).
    rewrite (slice_field ls 2 8 12) by (unfold ls; offs).
    unfold ls. cbn [nth]. rewrite !le_val_signed_le by (try apply i32b_P; auto; lia). reflexivity. }
  cbv zeta in Hints.
  destruct (gk_root_key_id g) as [rk|] eqn:Erk.
  - assert (Hrk16 : len rk = 16) by lia.
    rewrite <- (app_assoc c_GETKEY_REFERENT).
    rewrite (slice_head c_GETKEY_REFERENT) by reflexivity.
    change (beqb c_GETKEY_REFERENT c_GETKEY_NULLPTR) with false. cbv iota.
    rewrite (slice_mid c_GETKEY_REFERENT rk) by (rewrite ?Hrk16; reflexivity).
    unfold uuid_of_bytes_le. rewrite Hrk16. cbn [Z.eqb Pos.eqb bind].
    rewrite (app_assoc c_GETKEY_REFERENT rk).
    rewrite (slice_suffix (c_GETKEY_REFERENT ++ rk)) by (rewrite len_app, Hrk16; reflexivity).
    rewrite (Hints [] (Some rk)). rewrite <- Erk. destruct g; reflexivity.
  - rewrite (slice_head c_GETKEY_NULLPTR) by reflexivity.
    rewrite beqb_refl. cbv iota. cbn [bind].
    rewrite (slice_suffix c_GETKEY_NULLPTR) by reflexivity.
    rewrite (Hints [] None). rewrite <- Erk. destruct g; reflexivity.
Qed.

Theorem GetKey_roundtrip g : wf_getkey g = true ->
  exists b, GetKey_pack g = Ok b /\ GetKey_unpack b = Ok g.
Proof. intros H. eexists. split; [apply GetKey_pack_ok, H|apply GetKey_unpack_fields, H]. Qed.

(* GetKey.pack is the NDR64 encoding of the arguments: every SD length, null / non-null pointer *)
Theorem GetKey_pack_ndr64 g : wf_getkey g = true ->
  ndr64_getkey_request (gk_target_sd g) (gk_root_key_id g) (gk_l0 g) (gk_l1 g) (gk_l2 g) = Some (concat (getkey_field_list g)).
Proof.
  intros Hwf. pose proof Hwf as Hwf'. unfold wf_getkey in Hwf. rewrite !andb_true_iff in Hwf.
  destruct Hwf as [[[[Hn Hrk] H0] H1] H2].
  pose proof (u32b_P4 _ Hn) as Hn4. set (n := len (gk_target_sd g)) in *.
  assert (Hn8 : 0 <= n < P 8) by (rewrite P_8; rewrite P_4 in Hn4; lia).
  assert (Hpad : 0 <= (- n) mod 8 < 8) by lia.
  unfold ndr64_getkey_request. fold n.
  rewrite (u32le_le _ Hn). cbn [put obind app].
  rewrite (align_of 8 (le 4 n) 4) by (rewrite len_le; reflexivity).
  rewrite (u64le_le _ Hn8). cbn [put obind].
  set (b1 := (le 4 n ++ zeros 4) ++ le 8 n).
  assert (L1 : len b1 = 16) by (unfold b1; rewrite !len_app, !len_le, len_zeros by lia; reflexivity).
  rewrite (align_of 8 (b1 ++ gk_target_sd g) ((- n) mod 8)) by (rewrite len_app, L1; fold n; lia).
  set (b2 := (b1 ++ gk_target_sd g) ++ zeros ((- n) mod 8)).
  assert (L2 : len b2 mod 8 = 0) by (unfold b2; rewrite !len_app, L1, len_zeros by lia; fold n; lia).
  assert (Hfin : forall b3, len b3 mod 4 = 0 ->
    obind (put (align 4 b3) (i32le (gk_l0 g))) (fun b => obind (put (align 4 b) (i32le (gk_l1 g))) (fun b => put (align 4 b) (i32le (gk_l2 g))))
    = Some (b3 ++ le 4 (gk_l0 g mod P 4) ++ le 4 (gk_l1 g mod P 4) ++ le 4 (gk_l2 g mod P 4))).
  { intros b3 L3. rewrite !i32le_le by assumption.
    rewrite (align_of 4 b3 0) by lia. rewrite zeros_0, app_nil_r. cbn [put obind].
    rewrite (align_of 4 (b3 ++ _) 0) by (rewrite len_app, len_le; lia). rewrite zeros_0, app_nil_r. cbn [put obind].
    rewrite (align_of 4 ((b3 ++ _) ++ _) 0) by (rewrite !len_app, !len_le; lia). rewrite zeros_0, app_nil_r.
    rewrite <- !app_assoc. reflexivity. }
  unfold getkey_field_list. cbv zeta. fold n.
  destruct (gk_root_key_id g) as [rk|].
  - assert (Hrk16 : len rk = 16) by lia.
    rewrite (u64le_le NDR64_FIRST_REFERENT) by (rewrite P_8; unfold NDR64_FIRST_REFERENT; lia). cbn [put obind].
    rewrite (align_of 4 (b2 ++ _) 0) by (rewrite len_app, len_le; lia). rewrite zeros_0, app_nil_r.
    unfold guid16. rewrite Hrk16. cbn [Z.eqb Pos.eqb put].
    cbn [obind]. rewrite Hfin by (rewrite !len_app, len_le, Hrk16; lia).
    f_equal. unfold b2, b1. cbn [concat]. rewrite <- !app_assoc. rewrite app_nil_r.
    change (le 8 NDR64_FIRST_REFERENT) with c_GETKEY_REFERENT. reflexivity.
  - rewrite (u64le_le 0) by (rewrite P_8; lia). cbn [put obind].
    rewrite Hfin by (rewrite len_app, len_le; lia).
    f_equal. unfold b2, b1. cbn [concat]. rewrite <- !app_assoc. rewrite app_nil_r.
    change (le 8 0) with c_GETKEY_NULLPTR. reflexivity.
Qed.

Theorem GetKey_pack_eq_ndr64 g : wf_getkey g = true ->
  exists b, GetKey_pack g = Ok b /\
            ndr64_getkey_request (gk_target_sd g) (gk_root_key_id g) (gk_l0 g) (gk_l1 g) (gk_l2 g) = Some b.
Proof. intros H. eexists. split; [apply GetKey_pack_ok, H|apply GetKey_pack_ndr64, H]. Qed.

(* ---- reply ---- *)
Lemma slice_last {A} (a t : list A) k : k = len t -> 0 < k -> slice (Some (- k)) None (a ++ t) = t.
Proof.
  intros -> Hk. pose proof (len_nonneg a). pose proof (len_nonneg t).
  destruct t as [|x t]; [cbn in Hk; lia|].
  unfold slice, norm. rewrite len_app. rewrite len_cons in *.
  destruct (- (1 + len t) <? 0) eqn:E; [|lia].
  rewrite Z.max_r by lia. replace (len a + (1 + len t) + - (1 + len t)) with (len a) by lia.
  unfold len. rewrite Nat2Z.id, skipn_app, skipn_all, Nat.sub_diag. cbn [app skipn].
  apply firstn_all2. cbn [length]. lia.
Qed.
Lemma slice_but_last {A} (a t : list A) k : k = len t -> 0 < k -> slice None (Some (- k)) (a ++ t) = a.
Proof.
  intros -> Hk. pose proof (len_nonneg a).
  unfold slice, norm. rewrite len_app.
  destruct (- len t <? 0) eqn:E; [|lia].
  rewrite Z.max_r by lia. cbn [Z.to_nat skipn]. rewrite Z.sub_0_r.
  replace (len a + len t + - len t) with (len a) by lia. unfold len. rewrite Nat2Z.id.
  rewrite firstn_app, firstn_all, Nat.sub_diag. cbn. apply app_nil_r.
Qed.

Definition reply_body (out : bytes) : list bytes :=
  [ le 4 (len out); zeros 4; le 8 NDR64_FIRST_REFERENT; le 8 (len out); out; zeros ((- len out) mod 4) ].

Lemma ndr64_getkey_reply_ok out h : u32b (len out) = true -> u32b h = true ->
  ndr64_getkey_reply out h = Some (concat (reply_body out) ++ le 4 h).
Proof.
  intros Hn Hh. pose proof (u32b_P4 _ Hn) as Hn4. set (n := len out) in *.
  assert (Hn8 : 0 <= n < P 8) by (rewrite P_8; rewrite P_4 in Hn4; lia).
  unfold ndr64_getkey_reply. fold n. rewrite (u32le_le _ Hn). cbn [put obind app].
  rewrite (align_of 8 (le 4 n) 4) by (rewrite len_le; reflexivity).
  rewrite (u64le_le NDR64_FIRST_REFERENT) by (rewrite P_8; unfold NDR64_FIRST_REFERENT; lia). cbn [put obind].
  rewrite (align_of 8 (_ ++ le 8 NDR64_FIRST_REFERENT) 0) by (rewrite !len_app, !len_le, len_zeros by lia; reflexivity).
  rewrite zeros_0, app_nil_r. rewrite (u64le_le _ Hn8). cbn [put obind].
  rewrite (align_of 4 (_ ++ out) ((- n) mod 4)) by (rewrite !len_app, !len_le, len_zeros by lia; fold n; lia).
  rewrite (u32le_le _ Hh). cbn [put]. f_equal. unfold reply_body. fold n. cbn [concat].
  rewrite <- !app_assoc. reflexivity.
Qed.

Lemma unpack_response_body out h : u32b (len out) = true -> u32b h = true ->
  GetKey_unpack_response (concat (reply_body out) ++ le 4 h) =
  if h =? 0 then GroupKeyEnvelope_unpack out else Raise ValueError.
Proof.
  intros Hn Hh. unfold GetKey_unpack_response. cbv zeta.
  rewrite (slice_last _ (le 4 h) 4) by (rewrite ?len_le; reflexivity || lia).
  rewrite (slice_but_last _ (le 4 h) 4) by (rewrite ?len_le; reflexivity || lia).
  rewrite (le4_val _ Hh). unfold k_getkey_resp_fail.
  destruct (h =? 0) eqn:E; cbn [negb]; [|reflexivity].
  set (fs := reply_body out).
  assert (Hpad : 0 <= (- len out) mod 4 < 4) by lia.
  rewrite (slice_none_lo (Some 4)).
  rewrite (slice_field fs 0 0 4) by (unfold fs, reply_body; offs).
  unfold fs at 1, reply_body at 1. cbn [nth]. rewrite (le4_val _ Hn).
  rewrite (slice_tail fs 2 8) by (unfold fs, reply_body; offs).
  unfold fs, reply_body. cbn [skipn].
  match goal with |- context [concat ?l] => set (gs := l) end.
  rewrite (slice_field gs 2 16 (16 + len out)) by (unfold gs; offs).
  reflexivity.
Qed.

(* the response decoder extracts the envelope from the NDR64 reply, for every envelope length *)
Theorem unpack_response_ndr64 out b : u32b (len out) = true -> ndr64_getkey_reply out 0 = Some b ->
  GetKey_unpack_response b = GroupKeyEnvelope_unpack out.
Proof.
  intros Hn Hb. rewrite (ndr64_getkey_reply_ok out 0 Hn eq_refl) in Hb.
  assert (b = concat (reply_body out) ++ le 4 0) as -> by congruence.
  rewrite (unpack_response_body out 0 Hn eq_refl). reflexivity.
Qed.
Theorem ndr64_getkey_reply_total out h : u32b (len out) = true -> u32b h = true -> exists b, ndr64_getkey_reply out h = Some b.
Proof. intros. eexists. now apply ndr64_getkey_reply_ok. Qed.
Theorem unpack_response_failure out h b : u32b (len out) = true -> u32b h = true -> h <> 0 ->
  ndr64_getkey_reply out h = Some b -> GetKey_unpack_response b = Raise ValueError.
Proof.
  intros Hn Hh Hne Hb. rewrite (ndr64_getkey_reply_ok out h Hn Hh) in Hb.
  assert (b = concat (reply_body out) ++ le 4 h) as -> by congruence.
  rewrite (unpack_response_body out h Hn Hh). destruct (h =? 0) eqn:E; [lia|reflexivity].
Qed.
(* on arbitrary bytes: a non-zero trailing HRESULT is always a ValueError *)
Theorem unpack_response_hresult data : le_val (slice (Some (-4)) None data) <> 0 ->
  GetKey_unpack_response data = Raise ValueError.
Proof.
  intros H. unfold GetKey_unpack_response. cbv zeta. unfold k_getkey_resp_fail.
  destruct (le_val _ =? 0) eqn:E; [lia|reflexivity].
Qed.
Theorem unpack_response_reply_fail h b : u32b h = true -> h <> 0 ->
  ndr64_getkey_reply_fail h = Some b -> GetKey_unpack_response b = Raise ValueError.
Proof.
  intros Hh Hne. unfold ndr64_getkey_reply_fail. rewrite (u32le_le 0 eq_refl). cbn [put obind app].
  rewrite (u64le_le 0) by (rewrite P_8; lia). cbn [put obind]. rewrite (u32le_le _ Hh).
  set (pre := align 4 _). cbn [put]. intros Hb. assert (b = pre ++ le 4 h) as -> by congruence.
  apply unpack_response_hresult. rewrite (slice_last _ (le 4 h) 4) by (rewrite ?len_le; reflexivity || lia).
  rewrite (le4_val _ Hh). assumption.
Qed.

(* ---- auth padding is stripped before decoding ---- *)
Theorem strip_pad stub pad : process_get_key_result (stub ++ pad) (Some (len pad)) = GetKey_unpack_response stub.
Proof.
  unfold process_get_key_result, k_strip_len0, k_strip_test, k_strip_sub. cbv zeta. cbn [andb].
  pose proof (len_nonneg pad).
  destruct (len pad =? 0) eqn:E; cbn [negb].
  - assert (pad = []) as -> by (destruct pad; [reflexivity|rewrite len_cons in E; pose proof (len_nonneg pad); lia]).
    rewrite app_nil_r. rewrite slice_none_lo, slice_all by lia. reflexivity.
  - rewrite len_app. replace (len stub + len pad - len pad) with (len stub) by lia.
    rewrite slice_none_l. reflexivity.
Qed.
Theorem no_trailer_no_strip stub : process_get_key_result stub None = GetKey_unpack_response stub.
Proof.
  unfold process_get_key_result, k_strip_len0, k_strip_test. cbv zeta. cbn [andb].
  rewrite slice_none_lo, slice_all by lia. reflexivity.
Qed.

Example wf_getkey_example :
  wf_getkey {| gk_target_sd := [1; 2; 3; 4; 5]; gk_root_key_id := Some (repeat 0 16); gk_l0 := -1; gk_l1 := 2147483647; gk_l2 := -2147483648 |} = true.
Proof. reflexivity. Qed.
