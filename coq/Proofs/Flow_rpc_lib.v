(* Shared tactics and small lemmas for the rpc tie files (Proofs/Flow_rpc_<group>.v).  Generic facts about the
   interpreter Prelude/PyAst.v (the `for` / `while` / comprehension loops as stand-alone functions) and the
   builtins of Prelude/PyWorld.v (to_bytes, join, bytes * int).  No model-specific content. *)
From V Require Import Prelude.Base Prelude.PyInt Prelude.PySlice Prelude.PyAst Prelude.PyWorld.
From V Require Import Model.Pdu Model.Request Model.RpcLoop Model.Bind Model.Verification Model.Epm Flow.World_rpc.
Local Open Scope string_scope.
Local Open Scope list_scope.
Local Open Scope Z_scope.

(* keep arithmetic, slicing and the int <-> bytes conversions folded under cbn *)
Global Arguments len : simpl never.
Global Arguments le : simpl never.
Global Arguments be : simpl never.
Global Arguments le_val : simpl never.
Global Arguments be_val : simpl never.
Global Arguments slice : simpl never.
Global Arguments index : simpl never.
Global Arguments P : simpl never.
Global Arguments enum_lookup : simpl never.
Global Arguments in_range : simpl never.
Global Arguments to_bytes_le : simpl never.
Global Arguments to_bytes_be : simpl never.
Global Arguments Z.shiftl : simpl never.
Global Arguments Z.shiftr : simpl never.
Global Arguments Z.land : simpl nomatch.
Global Arguments Z.lor : simpl nomatch.
Global Arguments Z.add : simpl nomatch.
Global Arguments Z.sub : simpl nomatch.
Global Arguments Z.mul : simpl nomatch.
Global Arguments Z.opp : simpl nomatch.
Global Arguments Z.modulo : simpl nomatch.
Global Arguments Z.div : simpl nomatch.
Global Arguments Z.leb : simpl nomatch.
Global Arguments Z.ltb : simpl nomatch.
Global Arguments Z.eqb : simpl nomatch.
Global Arguments Z.gtb : simpl nomatch.
Global Arguments Z.geb : simpl nomatch.
Global Arguments Z.to_nat : simpl nomatch.

(* callees stay folded: each tie unfolds only the model function it is about *)
Global Arguments data_rep_pack : simpl never.
Global Arguments data_rep_unpack : simpl never.
Global Arguments pdu_header_pack : simpl never.
Global Arguments pdu_header_unpack : simpl never.
Global Arguments sec_trailer_pack : simpl never.
Global Arguments sec_trailer_unpack : simpl never.
Global Arguments fault_pack : simpl never.
Global Arguments request_pack : simpl never.
Global Arguments response_pack : simpl never.
Global Arguments uuid_of_bytes_le : simpl never.
Global Arguments syntax_id_pack : simpl never.
Global Arguments syntax_id_unpack : simpl never.
Global Arguments context_element_pack : simpl never.
Global Arguments context_element_unpack : simpl never.
Global Arguments context_result_pack : simpl never.
Global Arguments context_result_unpack : simpl never.
Global Arguments bind_pack : simpl never.
Global Arguments bind_unpack : simpl never.
Global Arguments bind_ack_pack : simpl never.
Global Arguments bind_ack_unpack : simpl never.
Global Arguments bind_nak_pack : simpl never.
Global Arguments command_pack : simpl never.
Global Arguments command_unpack : simpl never.
Global Arguments verification_trailer_pack : simpl never.
Global Arguments floor_pack : simpl never.
Global Arguments floor_unpack : simpl never.
Global Arguments ept_map_pack : simpl never.
Global Arguments ept_map_result_pack : simpl never.
Global Arguments for_range : simpl never.
Global Arguments data_rep_ranges : simpl never.
Global Arguments pdu_header_ranges : simpl never.
Global Arguments sec_trailer_ranges : simpl never.
Global Arguments syntax_id_ranges : simpl never.
Global Arguments context_element_ranges : simpl never.
Global Arguments context_result_ranges : simpl never.
Global Arguments command_generic_ranges : simpl never.
Global Arguments command_ranges : simpl never.
Global Arguments floor_generic_ranges : simpl never.
Global Arguments floor_ranges : simpl never.
Global Arguments tower_ranges : simpl never.
Global Arguments k_datarep_first_octet : simpl never.
Global Arguments k_pdu_has_trailer : simpl never.
Global Arguments k_req_obj_mask : simpl never.
Global Arguments k_bindack_pack_pad : simpl never.
Global Arguments k_bindack_unpack_pad : simpl never.
Global Arguments k_bindnak_pad : simpl never.
Global Arguments k_cmd_type_mask : simpl never.
Global Arguments k_cmd_flags_mask : simpl never.
Global Arguments k_vt_guard : simpl never.
Global Arguments k_vt_end_mask : simpl never.
Global Arguments k_floor_offset : simpl never.
Global Arguments k_eptmap_pack_pad : simpl never.
Global Arguments k_eptmap_unpack_pad : simpl never.
Global Arguments k_eptres_pack_pad : simpl never.
Global Arguments k_eptres_unpack_pad : simpl never.
Global Arguments k_referent_skip : simpl never.
Global Arguments k_eptres_count_guard : simpl never.

Lemma to_bytes_le_eq w z : to_bytes_le w z = if in_range w z then Ok (le w z) else Raise OverflowError.
Proof. reflexivity. Qed.
Lemma to_bytes_be_eq w z : to_bytes_be w z = if in_range w z then Ok (be w z) else Raise OverflowError.
Proof. reflexivity. Qed.

(* x.to_bytes(..) raises OverflowError outside the field width: pack ties are stated with the exact range condition *)
Definition chk (b : bool) (x : bytes) : res (pv obj) := if b then Ok (VB x) else Raise OverflowError.

Lemma len_map {A B} (f : A -> B) l : len (map f l) = len l.
Proof. unfold len. rewrite map_length. reflexivity. Qed.

Lemma index_1 {A} (x y : A) l : index (x :: y :: l) 1 = Ok y.
Proof.
  unfold index. rewrite !len_cons. pose proof (len_nonneg l).
  replace (1 <? 0) with false by reflexivity.
  replace ((0 <=? 1) && (1 <? 1 + (1 + len l))) with true by lia. reflexivity.
Qed.


(* ---- the loops of Prelude/PyAst.v as stand-alone functions ---------------------------------------- *)
Section Mirror.
Context {V : Type} (W : world V).

Definition truthW (env : @penv V) (c : pexp) : res (bool * V * penv) :=
  let* (v, env1) := eval W env c in let* t := w_truthy W v in Ok (t, v, env1).

Definition comp_each (elt : pexp) (xs : list string) (conds : list pexp) :=
  fix each (vs : list V) (envc : @penv V) : res (list V) :=
    match vs with
    | [] => Ok []
    | v :: r =>
      let* envb := bind_targets W xs v envc in
      let* (keep, envd) := (fix allc (cs : list pexp) (en : penv) : res (bool * penv) :=
         match cs with
         | [] => Ok (true, en)
         | c :: cr => let* (t, _, en1) := truthW en c in if t then allc cr en1 else Ok (false, en1)
         end) conds envb in
      if keep then let* (x, enve) := eval W envd elt in let* rest := each r enve in Ok (x :: rest)
      else each r envd
    end.

Lemma eval_comp env elt xs it conds :
  eval W env (PComp elt xs it conds) =
  let* (iv, env1) := eval W env it in
  let* items := w_iter W iv in
  let* out := comp_each elt xs conds items env1 in Ok (w_list W out, env1).
Proof. reflexivity. Qed.

Definition for_each (fuel : nat) (xs : list string) (body : list pstmt) :=
  fix each (vs : list V) (env : @penv V) : res (@outcome V) :=
    match vs with
    | [] => Ok (Next env)
    | v :: r => let* envb := bind_targets W xs v env in
                let* o := exec_block W fuel body envb in
                match o with
                | Next env' | Cont env' => each r env'
                | Brk env' => Ok (Next env')
                | Ret w => Ok (Ret w)
                end
    end.

Definition while_loop (fuel : nat) (c : pexp) (body : list pstmt) :=
  fix loop (n : nat) (env : @penv V) : res (@outcome V) :=
    match n with
    | O => Raise OutOfFuel
    | S n' => let* (t, env1) := test W env c in
              if t then let* o := exec_block W fuel body env1 in
                        match o with
                        | Next env' | Cont env' => loop n' env'
                        | Brk env' => Ok (Next env')
                        | Ret v => Ok (Ret v)
                        end
              else Ok (Next env1)
    end.

Lemma exec_blk fuel : forall ss env,
  (fix blk (ss : list pstmt) (env : @penv V) : res (@outcome V) :=
     match ss with
     | [] => Ok (Next env)
     | s' :: r => let* o := exec W fuel env s' in
                  match o with Next env' => blk r env' | other => Ok other end
     end) ss env = exec_block W fuel ss env.
Proof.
  induction ss as [|s r IH]; intros env; [reflexivity|].
  cbn [exec_block]. destruct (exec W fuel env s) as [o|e]; [|reflexivity].
  cbn [bind]. destruct o; try reflexivity. apply IH.
Qed.

Lemma exec_for fuel env xs it body :
  exec W fuel env (SFor xs it body) =
  let* (iv, env1) := eval W env it in
  let* items := w_iter W iv in
  for_each fuel xs body items env1.
Proof.
  cbn [exec]. destruct (eval W env it) as [[iv env1]|e]; [|reflexivity].
  cbn [bind]. destruct (w_iter W iv) as [items|e]; [|reflexivity].
  cbn [bind]. revert env1. induction items as [|v r IH]; intros env1; [reflexivity|].
  cbn [for_each]. destruct (bind_targets W xs v env1) as [envb|e]; [|reflexivity].
  cbn [bind]. rewrite exec_blk. destruct (exec_block W fuel body envb) as [o|e]; [|reflexivity].
  cbn [bind]. destruct o; try reflexivity; apply IH.
Qed.

Lemma exec_while fuel env c body :
  exec W fuel env (SWhile c body) = while_loop fuel c body fuel env.
Proof.
  cbn [exec]. generalize fuel at 2 4 as n. intros n. revert env.
  induction n as [|n IH]; intros env; [reflexivity|].
  cbn [while_loop]. destruct (test W env c) as [[t env1]|e]; [|reflexivity].
  cbn [bind]. destruct t; [|reflexivity].
  rewrite exec_blk. destruct (exec_block W fuel body env1) as [o|e]; [|reflexivity].
  cbn [bind]. destruct o; try reflexivity; apply IH.
Qed.

Lemma comp_each_cons elt xs conds v r envc :
  comp_each elt xs conds (v :: r) envc =
  let* envb := bind_targets W xs v envc in
  let* (keep, envd) := (fix allc (cs : list pexp) (en : penv) : res (bool * penv) :=
     match cs with
     | [] => Ok (true, en)
     | c :: cr => let* (t, _, en1) := truthW en c in if t then allc cr en1 else Ok (false, en1)
     end) conds envb in
  if keep then let* (x, enve) := eval W envd elt in let* rest := comp_each elt xs conds r enve in Ok (x :: rest)
  else comp_each elt xs conds r envd.
Proof. reflexivity. Qed.
Lemma for_each_nil fuel xs body env : for_each fuel xs body [] env = Ok (Next env).
Proof. reflexivity. Qed.
Lemma for_each_cons fuel xs body v r env :
  for_each fuel xs body (v :: r) env =
  let* envb := bind_targets W xs v env in
  let* o := exec_block W fuel body envb in
  match o with
  | Next env' | Cont env' => for_each fuel xs body r env'
  | Brk env' => Ok (Next env')
  | Ret w => Ok (Ret w)
  end.
Proof. reflexivity. Qed.
Lemma while_loop_S fuel c body n env :
  while_loop fuel c body (S n) env =
  let* (t, env1) := test W env c in
  if t then let* o := exec_block W fuel body env1 in
            match o with
            | Next env' | Cont env' => while_loop fuel c body n env'
            | Brk env' => Ok (Next env')
            | Ret v => Ok (Ret v)
            end
  else Ok (Next env1).
Proof. reflexivity. Qed.
End Mirror.
Global Arguments comp_each : simpl never.
Global Arguments for_each : simpl never.
Global Arguments while_loop : simpl never.

Lemma join_bytes_nil (l : list bytes) : @join_bytes obj [] (map VB l) = Ok (concat l).
Proof.
  induction l as [|b r IH]; [reflexivity|].
  cbn [map join_bytes]. destruct r as [|b' r'].
  - cbn. rewrite app_nil_r. reflexivity.
  - cbn [map] in *. rewrite IH. reflexivity.
Qed.

Lemma repeat_list_0 n : repeat_list n [0] = repeat 0 n.
Proof. induction n as [|n IH]; [reflexivity|]. cbn. rewrite IH. reflexivity. Qed.

Lemma len_2 {A} (x y : A) : len [x; y] = 2.
Proof. reflexivity. Qed.

Lemma zs_eqb_bytes_eqb a : forall b, zs_eqb a b = bytes_eqb a b.
Proof. induction a as [|x a IH]; intros [|y b]; cbn; rewrite ?IH; reflexivity. Qed.

(* ---- the tie tactic: cbn, then case analysis on the innermost stuck bind / if ------------------------ *)
Ltac known t := match goal with H : t = _ |- _ => rewrite H end.
Ltac dbind :=
  match goal with
  | |- context [bind ?t _] =>
    lazymatch t with
    | context [bind _ _] => fail
    | context [match _ with _ => _ end] => fail
    | context [if _ then _ else _] => fail
    | eval _ _ _ => fail
    | exec _ _ _ _ => fail
    | comp_each _ _ _ _ _ _ => fail
    | for_each _ _ _ _ _ _ => fail
    | while_loop _ _ _ _ _ _ => fail
    | to_bytes_le _ _ => fail
    | to_bytes_be _ _ => fail
    | ovf _ _ => fail
    | _ => idtac
    end; first [known t | destruct t eqn:?]
  end.
Ltac dif :=
  match goal with
  | |- context [if ?t then _ else _] =>
    lazymatch t with
    | context [if _ then _ else _] => fail
    | context [match _ with _ => _ end] => fail
    | context [andb _ _] => fail
    | _ => idtac
    end; first [known t | destruct t eqn:?]
  end.
Ltac dand :=
  match goal with
  | |- context [if ?c then _ else _] =>
    match c with
    | context [andb ?a _] =>
      lazymatch a with
      | context [andb _ _] => fail
      | context [if _ then _ else _] => fail
      | context [match _ with _ => _ end] => fail
      | true => fail
      | false => fail
      | _ => idtac
      end; first [known a | destruct a eqn:?]
    end
  end.
Ltac nats := change (Pos.to_nat 1) with 1%nat in *; change (Pos.to_nat 2) with 2%nat in *;
             change (Pos.to_nat 4) with 4%nat in *; change (Pos.to_nat 8) with 8%nat in *;
             change (Pos.to_nat 16) with 16%nat in *; change (Pos.to_nat 20) with 20%nat in *.
Ltac lk := repeat match goal with H : lookup ?x ?e = _ |- context [lookup ?x ?e] => rewrite H; cbn end.
Ltac dpairs := repeat match goal with p : (_ * _)%type |- _ => destruct p end.
Ltac norm1 :=
  first
  [ match goal with |- context [lift_fst _ _] => unfold lift_fst end
  | match goal with |- context [ovf _ _] => unfold ovf end
  | match goal with |- context [test _ _ _] => unfold test end
  | progress lk
  | match goal with |- context [len (map _ _)] => rewrite !len_map end
  | match goal with |- context [len nil] => rewrite !len_nil end
  | match goal with |- context [index (_ :: _) 0] => rewrite !index_0 end
  | match goal with |- context [index (_ :: _ :: _) 1] => rewrite !index_1 end
  | match goal with |- context [join_bytes nil (map VB _)] => rewrite !join_bytes_nil end
  | match goal with |- context [repeat_list _ (0 :: nil)] => rewrite !repeat_list_0 end
  | match goal with |- context [zs_eqb _ _] => rewrite !zs_eqb_bytes_eqb end
  | match goal with |- context [len (_ :: _ :: nil)] => rewrite !len_2 end ].
Ltac nats' := match goal with |- context [Pos.to_nat _] => nats | _ => idtac end.
Ltac tie1 :=
  try match goal with |- _ <> OutOfFuel -> _ => intro end;
  dpairs; cbn; repeat (norm1; cbn); nats';
  rewrite ?to_bytes_le_eq, ?to_bytes_be_eq, ?app_nil_r, <- ?app_assoc; try reflexivity.
Ltac tie := repeat (tie1; first [dbind | dif | dand]); tie1.

(* ---- `for x in range(n)` against Model/RpcLoop.for_range ---------------------------------------- *)
Lemma zrange_S n lo : @zrange obj (S n) lo = VI lo :: zrange n (lo + 1).
Proof. reflexivity. Qed.

Lemma for_range_eq {St : Type} fuel n (body : St -> res (St * Z)) s ticks :
  for_range fuel n body s ticks =
  if n <=? 0 then Ok (s, ticks) else
  match fuel with
  | O => Raise OutOfFuel
  | S f => let* (s', t) := body s in for_range f (n - 1) body s' (ticks + 1 + t)
  end.
Proof. destruct fuel; reflexivity. Qed.

Lemma for_range_tie {St : Type} (W : world (pv obj)) fuel x body (mbody : St -> res (St * Z)) (R : St -> penv -> Prop) :
  (forall s env v, R s env ->
     match mbody s with
     | Ok (s', _) => exists env', exec_block W fuel body (update x v env) = Ok (Next env') /\ R s' env'
     | Raise e => e <> OutOfFuel -> exec_block W fuel body (update x v env) = Raise e
     end) ->
  forall mfuel n s env ticks lo, R s env ->
    for_range mfuel n mbody s ticks <> Raise OutOfFuel ->
    match for_range mfuel n mbody s ticks with
    | Ok (s', _) => exists env', for_each W fuel [x] body (zrange (Z.to_nat n) lo) env = Ok (Next env') /\ R s' env'
    | Raise e => for_each W fuel [x] body (zrange (Z.to_nat n) lo) env = Raise e
    end.
Proof.
  intros Hbody mfuel. induction mfuel as [|f IH]; intros n s env ticks lo HR Hne.
  - rewrite for_range_eq in *. destruct (n <=? 0) eqn:En.
    + replace (Z.to_nat n) with 0%nat by lia. exists env. split; [reflexivity|assumption].
    + congruence.
  - rewrite for_range_eq in *. destruct (n <=? 0) eqn:En.
    + replace (Z.to_nat n) with 0%nat by lia. exists env. split; [reflexivity|assumption].
    + replace (Z.to_nat n) with (S (Z.to_nat (n - 1))) by lia. rewrite zrange_S.
      rewrite for_each_cons. cbn [bind_targets bind]. specialize (Hbody s env (VI lo) HR).
      destruct (mbody s) as [[s' t]|e].
      * destruct Hbody as [env' [He HR']]. rewrite He. cbn [bind].
        apply IH; assumption.
      * cbn [bind] in Hne. rewrite Hbody by congruence. reflexivity.
Qed.

(* ---- b"".join([x.pack() for x in xs]) ------------------------------------------------------------ *)

Lemma comp_pack mf {A : Type} (inj : A -> obj) (rg : A -> bool) (packf : A -> bytes) x :
  (forall a, rpc_pack (inj a) = Some (ovf (rg a) (packf a))) ->
  forall l env, comp_each (W mf) (PMeth "pack" (PName x) []) [x] [] (map (fun a => VO (inj a)) l) env
                = if forallb rg l then Ok (map (fun a => VB (packf a)) l) else Raise OverflowError.
Proof.
  intros Hp. induction l as [|a r IH]; intros env; [reflexivity|].
  cbn [map forallb]. rewrite comp_each_cons. cbn [bind_targets bind]. cbn [eval]. cbn [lookup update]. rewrite String.eqb_refl.
  cbn. rewrite Hp. unfold ovf. destruct (rg a); cbn; [|reflexivity]. rewrite String.eqb_refl. rewrite IH.
  destruct (forallb rg r); reflexivity.
Qed.

Lemma eval_join_comp_pack mf {A : Type} (inj : A -> obj) (rg : A -> bool) (packf : A -> bytes) x it env (l : list A) :
  (forall a, rpc_pack (inj a) = Some (ovf (rg a) (packf a))) ->
  eval (W mf) env it = Ok (VL (map (fun a => VO (inj a)) l), env) ->
  eval (W mf) env (PMeth "join" (PBytes []) [PComp (PMeth "pack" (PName x) []) [x] it []])
  = if forallb rg l then Ok (VB (concat (map packf l)), env) else Raise OverflowError.
Proof.
  intros Hp Hit.
  change (eval (W mf) env (PMeth "join" (PBytes []) [PComp (PMeth "pack" (PName x) []) [x] it []]))
    with (let* (vs, env2) := (let* (v, env1) := eval (W mf) env (PComp (PMeth "pack" (PName x) []) [x] it []) in Ok ([v], env1)) in
          let* (r, rv') := w_meth (W mf) "join" (VB []) vs in Ok (r, env2)).
  rewrite eval_comp, Hit. cbn [bind]. cbn [w_iter W std_world v_iter]. cbn [bind].
  rewrite (comp_pack mf inj rg packf x Hp). destruct (forallb rg l); [|reflexivity]. cbn [bind w_list W std_world].
  cbn. rewrite <- map_map, join_bytes_nil. reflexivity.
Qed.

(* hide every  b"".join(<comprehension of x.pack()>)  behind a variable before cbn, and evaluate it by eval_join_comp_pack *)
Ltac hide_comps :=
  repeat match goal with
  | |- context [PMeth "join" (PBytes []) [?c]] =>
    lazymatch c with PComp _ _ _ _ => let jc := fresh "jc" in remember (PMeth "join" (PBytes []) [c]) as jc end
  end.
Ltac comp_step inj rg packf :=
  match goal with
  | H : ?jc = PMeth "join" _ _ |- context [eval _ _ ?jc] =>
    rewrite H; erewrite (eval_join_comp_pack _ inj rg packf) by (first [intro; reflexivity | cbn; reflexivity])
  end.

(* after `rewrite exec_for; cbn`: instantiate for_range_tie with the invariant R for the loop in the goal; leaves HL *)
Ltac loop_setup R :=
  match goal with
  | |- context [for_each ?W ?fuel [?x] ?body (zrange (Z.to_nat ?n) 0) ?env] =>
    match goal with
    | |- context [for_range ?mf n ?mbody ?s0 0] =>
      let HL := fresh "HL" in
      pose proof (for_range_tie W fuel x body mbody R) as HL;
      specialize (fun Hb => HL Hb mf n s0 env 0 0)
    end
  end.
