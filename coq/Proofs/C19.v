(* C19: every encryption uses fresh CEK, nonce and key-identifier randomness.
   (1) in_blob: in the blob of a successful protect call the GCM nonce is the second draw, the key-identifier
       nonce the third, the CEK the first (used unmodified as AES-GCM key and as the wrapped value), and the
       draws occur nowhere else (every other field is a field of the cache entry, the clock or the arguments;
       the cache after the call does not depend on the draws).
   (2) protect_many: a history of protect / unprotect calls over a stream rnd : nat -> bytes with a cursor; the
       k-th protect call uses rnd (cur + 3k), rnd (cur + 3k + 1), rnd (cur + 3k + 2): windows pairwise disjoint and
       strictly increasing; if distinct draws are distinct strings then CEKs, nonces and key-identifier nonces of
       any two calls are pairwise distinct, no (key, nonce) pair repeats, and under IdealLaws the ciphertexts of two
       calls differ even for equal plaintexts.
   That the implementation makes exactly these three draws in this order is checked by the harness. *)
From Coq Require Import String.
From V Require Import Prelude.Base Prelude.PyInt Prelude.PySlice Prelude.PyStr.
From V Require Import Model.Types Model.Crypto Model.Sym Model.Chain Model.KeyId Model.Gkdi Model.Kek Model.SecDesc.
From V Require Import Model.Asn1 Model.Pkcs7 Model.Blob Model.CryptoWrap Model.Interval Model.Client.
From V Require Import Spec.GkdiSpec Spec.KekSpec.
From V Require Import gen.K_e2e.
From V Require Import Proofs.BlobPkcs7 Proofs.BlobMain Proofs.C01Lib Proofs.C01.
From V Require Proofs.C02 Proofs.GkdiLib Proofs.GkdiStructs Proofs.Kek.

Section InBlob.
Context (c : Crypto).

Theorem in_blob h rk rkid s sid time_ns l0 l1 l2 cache r1 r2 r3 data blob cache1 :
  rk_hash rk = Ok h -> rk_kdf_alg rk = STR_KDF_ALG -> len rkid = 16 ->
  sid_parse sid = Ok s -> sid_okb sid = true -> 0 <= time_ns -> interval_of_time_ns time_ns = (l0, l1, l2) ->
  kdf_nonempty c -> cache_ok c h rk rkid (target_sd s) l0 cache -> len r2 = 12 -> len r3 = 32 ->
  (forall kek w, derived_kek c h rk rkid (target_sd s) l0 l1 l2 r3 = Ok kek -> kw_wrap c kek r1 = Ok w -> len w < U32) -> (forall ct, gcm_enc c r1 r2 data = Ok ct -> len ct < U32) ->
  protect_offline c cache r1 r2 r3 data sid (Some rkid) time_ns = (Ok blob, cache1) ->
  exists b e0 kek p,
    blob_unpack blob = Ok b /\
    (* the GCM nonce is the second draw *)
    gcm_parameters r2 = Ok p /\ b_enc_content_parameters b = Some p /\ gcm_iv_of_parameters (b_enc_content_parameters b) = Ok r2 /\
    (* the key-identifier nonce is the third draw (nonce mode: flag bit 0 clear) *)
    kid_key_info (b_key_identifier b) = r3 /\ kid_is_public_key (b_key_identifier b) = false /\
    (* the CEK is the first draw: AES-GCM key of the content, and the value wrapped under the derived KEK *)
    derived_kek c h rk rkid (target_sd s) l0 l1 l2 r3 = Ok kek /\
    Ok (b_enc_content b) = gcm_enc c r1 r2 data /\ Ok (b_enc_cek b) = kw_wrap c kek r1 /\
    (* nothing else of the draws is used: every other field comes from the cache entry, the clock, the arguments *)
    cc_find_seed (cc_seeds cache1) (rkid, target_sd s, l0) = Some e0 /\
    b = emitted_blob (emitted_kid (gke_flags e0) l0 l1 l2 rkid r3 (gke_domain e0) (gke_forest e0)) sid (b_enc_cek b) (b_enc_content b) p.
Proof.
  intros Hh Ha Hr Hs Hso Hns Hi Hne Hc Hr2 Hr3 Sw Sct Hp.
  destruct (protect_inv c h rk rkid s sid time_ns l0 l1 l2 Hh Ha Hr Hs Hso Hns Hi Hne cache r1 r2 r3 data blob cache1 Hc Hr2 Hr3 Sw Sct Hp)
    as (e0 & seed & w & ct & p & Hb & Hc1 & He0 & Ef & Es & Hn & Ew & Ect & Ep & Eiv & Hwf & Epk & Eu).
  eexists. exists e0, (kek_nonce c h seed r3), p. split; [exact Eu|].
  cbn [emitted_blob emitted_kid b_enc_content_parameters b_key_identifier kid_key_info b_enc_content b_enc_cek].
  split; [exact Ep|]. split; [reflexivity|]. split; [exact Eiv|]. split; [reflexivity|].
  split; [destruct He0 as [Hpk _ _ _ _ _ _ _ _]; exact Hpk|].
  split; [unfold derived_kek; rewrite Es; reflexivity|]. rewrite Ect, Ew. auto.
Qed.

(* the cache after a protect call does not depend on the draws or on the plaintext *)
Theorem cache_independent_of_draws cache r1 r2 r3 data r1' r2' r3' data' sid rkid time_ns :
  snd (protect_offline c cache r1 r2 r3 data sid rkid time_ns) = snd (protect_offline c cache r1' r2' r3' data' sid rkid time_ns).
Proof.
  unfold protect_offline. destruct (get_target_sd sid) as [sd|]; [|reflexivity].
  destruct (protection_gke_from_cache c cache rkid sd time_ns) as [[[rk|] c1]|]; reflexivity.
Qed.
End InBlob.

(* ---- histories ---- *)
Record call := { a_data : bytes; a_sid : pystr; a_rkid : option bytes; a_time : Z }.
Inductive op := Protect (a : call) | Unprotect (blob : bytes).

(* one entry per protect call: the cursor it started at and its result *)
Fixpoint protect_many (c : Crypto) (rnd : nat -> bytes) (cur : nat) (cache : ccache) (ops : list op)
  : list (nat * res bytes) * ccache * nat :=
  match ops with
  | [] => ([], cache, cur)
  | Protect a :: rest =>
    let '(r, cache1) := protect_offline c cache (rnd cur) (rnd (cur + 1)%nat) (rnd (cur + 2)%nat) (a_data a) (a_sid a) (a_rkid a) (a_time a) in
    let '(tr, cache2, cur2) := protect_many c rnd (cur + 3)%nat cache1 rest in ((cur, r) :: tr, cache2, cur2)
  | Unprotect blob :: rest =>
    let '(_, cache1) := unprotect_offline c cache blob in protect_many c rnd cur cache1 rest
  end.

Definition window (cur : nat) : list nat := [cur; (cur + 1)%nat; (cur + 2)%nat].
Definition trace (c : Crypto) rnd cur cache ops : list (nat * res bytes) := fst (fst (protect_many c rnd cur cache ops)).

(* the k-th protect call of a history started at cursor cur + 3k *)
Lemma trace_cursors c rnd : forall ops cur cache k e,
  nth_error (trace c rnd cur cache ops) k = Some e -> fst e = (cur + 3 * k)%nat.
Proof.
  unfold trace. induction ops as [|o ops IH]; intros cur cache k e H.
  - destruct k; discriminate H.
  - destruct o as [a|blob]; cbn [protect_many] in H.
    + destruct (protect_offline c cache (rnd cur) (rnd (cur + 1)%nat) (rnd (cur + 2)%nat) (a_data a) (a_sid a) (a_rkid a) (a_time a)) as [r cache1].
      destruct (protect_many c rnd (cur + 3)%nat cache1 ops) as [[tr cache2] cur2] eqn:E. cbn [fst] in H.
      destruct k as [|k]; cbn [nth_error] in H.
      * injection H as <-. cbn [fst]. lia.
      * specialize (IH (cur + 3)%nat cache1 k e). rewrite E in IH. cbn [fst] in IH. rewrite (IH H). lia.
    + destruct (unprotect_offline c cache blob) as [r cache1]. apply (IH cur cache1 k e H).
Qed.

(* each entry is the result of protect_offline on the three draws of its window, in this order *)
Lemma trace_entries c rnd : forall ops cur cache k e,
  nth_error (trace c rnd cur cache ops) k = Some e ->
  exists cache_k a, In (Protect a) ops /\
    snd e = fst (protect_offline c cache_k (rnd (fst e)) (rnd (fst e + 1)%nat) (rnd (fst e + 2)%nat) (a_data a) (a_sid a) (a_rkid a) (a_time a)).
Proof.
  unfold trace. induction ops as [|o ops IH]; intros cur cache k e H.
  - destruct k; discriminate H.
  - destruct o as [a|blob]; cbn [protect_many] in H.
    + destruct (protect_offline c cache (rnd cur) (rnd (cur + 1)%nat) (rnd (cur + 2)%nat) (a_data a) (a_sid a) (a_rkid a) (a_time a)) as [r cache1] eqn:Ep.
      destruct (protect_many c rnd (cur + 3)%nat cache1 ops) as [[tr cache2] cur2] eqn:E. cbn [fst] in H.
      destruct k as [|k]; cbn [nth_error] in H.
      * injection H as <-. exists cache, a. split; [left; reflexivity|]. cbn [fst snd]. rewrite Ep. reflexivity.
      * specialize (IH (cur + 3)%nat cache1 k e). rewrite E in IH. cbn [fst] in IH. destruct (IH H) as (ck & a' & Hin & He).
        exists ck, a'. split; [right; exact Hin|exact He].
    + destruct (unprotect_offline c cache blob) as [r cache1]. destruct (IH cur cache1 k e H) as (ck & a' & Hin & He).
      exists ck, a'. split; [right; exact Hin|exact He].
Qed.

(* windows of different calls are disjoint, and increase with the call number *)
Theorem windows_disjoint c rnd ops cur cache i j ei ej : i <> j ->
  nth_error (trace c rnd cur cache ops) i = Some ei -> nth_error (trace c rnd cur cache ops) j = Some ej ->
  (forall x y, In x (window (fst ei)) -> In y (window (fst ej)) -> x <> y) /\ (i < j -> fst ei + 3 <= fst ej)%nat.
Proof.
  intros Hij Hi Hj. rewrite (trace_cursors _ _ _ _ _ _ _ Hi), (trace_cursors _ _ _ _ _ _ _ Hj). split; [|lia].
  unfold window. cbn [In]. intros x y Hx Hy. lia.
Qed.

(* the RNG hypothesis: distinct draws are distinct strings *)
Definition rnd_distinct (rnd : nat -> bytes) : Prop := forall i j, i <> j -> rnd i <> rnd j.

(* CEKs, GCM nonces and key-identifier nonces of any two calls are pairwise distinct (indeed all six draws are),
   so no (key, nonce) pair repeats *)
Theorem fresh_sequence c rnd ops cur cache i j ei ej : rnd_distinct rnd -> i <> j ->
  nth_error (trace c rnd cur cache ops) i = Some ei -> nth_error (trace c rnd cur cache ops) j = Some ej ->
  let cek k := rnd k in let nonce k := rnd (k + 1)%nat in let kid_nonce k := rnd (k + 2)%nat in
  cek (fst ei) <> cek (fst ej) /\ nonce (fst ei) <> nonce (fst ej) /\ kid_nonce (fst ei) <> kid_nonce (fst ej) /\
  (cek (fst ei), nonce (fst ei)) <> (cek (fst ej), nonce (fst ej)) /\
  (forall x y, In x (window (fst ei)) -> In y (window (fst ej)) -> rnd x <> rnd y).
Proof.
  intros Hd Hij Hi Hj. destruct (windows_disjoint c rnd ops cur cache i j ei ej Hij Hi Hj) as [Hw _]. cbv zeta.
  assert (H0 : fst ei <> fst ej) by (apply Hw; left; reflexivity).
  split; [apply Hd; exact H0|]. split; [apply Hd; lia|]. split; [apply Hd; lia|].
  split; [intros E; apply (Hd _ _ H0); congruence|]. intros x y Hx Hy. apply Hd. now apply Hw.
Qed.

(* equal plaintexts give different ciphertexts: under the injectivity of ideal AES-GCM two encryptions under
   different keys (or nonces) never coincide, whatever the plaintexts *)
Theorem distinct_ciphertexts c (I : IdealLaws c) k n p ct k' n' p' ct' :
  gcm_enc c k n p = Ok ct -> gcm_enc c k' n' p' = Ok ct' -> (k, n) <> (k', n') -> ct <> ct'.
Proof.
  intros E1 E2 Hne <-. destruct (gcm_inj c I _ _ _ _ _ _ _ E1 E2) as (-> & -> & _). now apply Hne.
Qed.
Theorem distinct_wrapped_ceks c (I : IdealLaws c) k x w k' x' w' :
  kw_wrap c k x = Ok w -> kw_wrap c k' x' = Ok w' -> x <> x' -> w <> w'.
Proof. intros E1 E2 Hne <-. destruct (kw_inj c I _ _ _ _ _ E1 E2) as (_ & ->). now apply Hne. Qed.

(* the same with the RNG hypothesis restricted to the draws the history makes (a stream of 32-byte strings cannot be
   injective on all of nat): the final cursor is cur + 3 * (number of protect calls) *)
Lemma final_cursor c rnd : forall ops cur cache,
  snd (protect_many c rnd cur cache ops) = (cur + 3 * length (trace c rnd cur cache ops))%nat.
Proof.
  unfold trace. induction ops as [|o ops IH]; intros cur cache; [cbn; lia|].
  destruct o as [a|blob]; cbn [protect_many].
  - destruct (protect_offline c cache (rnd cur) (rnd (cur + 1)%nat) (rnd (cur + 2)%nat) (a_data a) (a_sid a) (a_rkid a) (a_time a)) as [r cache1].
    specialize (IH (cur + 3)%nat cache1). destruct (protect_many c rnd (cur + 3)%nat cache1 ops) as [[tr cache2] cur2]. cbn [fst snd length] in *. lia.
  - destruct (unprotect_offline c cache blob) as [r cache1]. apply IH.
Qed.
Definition rnd_distinct_below (rnd : nat -> bytes) (n : nat) : Prop := forall i j, (i < n)%nat -> (j < n)%nat -> i <> j -> rnd i <> rnd j.

Theorem fresh_sequence_bounded c rnd ops cur cache i j ei ej :
  rnd_distinct_below rnd (snd (protect_many c rnd cur cache ops)) -> i <> j ->
  nth_error (trace c rnd cur cache ops) i = Some ei -> nth_error (trace c rnd cur cache ops) j = Some ej ->
  let cek k := rnd k in let nonce k := rnd (k + 1)%nat in let kid_nonce k := rnd (k + 2)%nat in
  cek (fst ei) <> cek (fst ej) /\ nonce (fst ei) <> nonce (fst ej) /\ kid_nonce (fst ei) <> kid_nonce (fst ej) /\
  (cek (fst ei), nonce (fst ei)) <> (cek (fst ej), nonce (fst ej)) /\
  (forall x y, In x (window (fst ei)) -> In y (window (fst ej)) -> rnd x <> rnd y).
Proof.
  intros Hd Hij Hi Hj. rewrite final_cursor in Hd.
  pose proof (trace_cursors _ _ _ _ _ _ _ Hi) as Ci. pose proof (trace_cursors _ _ _ _ _ _ _ Hj) as Cj.
  assert (Li : (i < length (trace c rnd cur cache ops))%nat) by (apply nth_error_Some; congruence).
  assert (Lj : (j < length (trace c rnd cur cache ops))%nat) by (apply nth_error_Some; congruence).
  cbv zeta. rewrite Ci, Cj.
  split; [apply Hd; lia|]. split; [apply Hd; lia|]. split; [apply Hd; lia|].
  split; [intros E; assert (E' : rnd (cur + 3 * i)%nat = rnd (cur + 3 * j)%nat) by congruence; revert E'; apply Hd; lia|].
  unfold window. cbn [In]. intros x y Hx Hy. apply Hd; lia.
Qed.

(* ---- instances ---- *)
(* a stream satisfying the unrestricted hypothesis (as lists of integers) whose first 256 draws are byte strings
   of the lengths the library requests *)
Definition ex_rnd (i : nat) : bytes := repeat (Z.of_nat i) (if Nat.eqb (i mod 3) 1 then 12 else 32).
Lemma ex_rnd_distinct : rnd_distinct ex_rnd.
Proof.
  intros i j Hij E. apply Hij. unfold ex_rnd in E.
  assert (H : forall n m (x y : Z), (0 < n)%nat -> (0 < m)%nat -> repeat x n = repeat y m -> x = y)
    by (intros [|n] [|m] x y Hn Hm Hr; try lia; cbn in Hr; congruence).
  apply Nat2Z.inj. refine (H _ _ _ _ _ _ E); [destruct (Nat.eqb (i mod 3) 1); lia|destruct (Nat.eqb (j mod 3) 1); lia].
Qed.

Definition ex_call (data : bytes) : call := {| a_data := data; a_sid := ex_sid; a_rkid := Some ex_rkid; a_time := ex_time |}.
(* three protect calls, two of them with identical arguments, an unprotect call in between *)
Definition ex_ops : list op := [Protect (ex_call [1; 2; 3]); Unprotect [48; 0]; Protect (ex_call [1; 2; 3]); Protect (ex_call [])].
Definition ex_trace := trace symg ex_rnd 0 ex_cache ex_ops.

(* the emitted blobs are pairwise different, each decrypts, and the nonce / key_info / content read back from the
   blobs are the draws of the window of the call *)
Definition blob_draws (r : res bytes) : option (res bytes * bytes) :=
  match r with
  | Ok blob => match blob_unpack blob with
               | Ok b => Some (gcm_iv_of_parameters (b_enc_content_parameters b), kid_key_info (b_key_identifier b))
               | Raise _ => None
               end
  | Raise _ => None
  end.
Example ex_trace_draws :
  map fst ex_trace = [0%nat; 3%nat; 6%nat] /\
  map (fun e => blob_draws (snd e)) ex_trace =
    [Some (Ok (ex_rnd 1), ex_rnd 2); Some (Ok (ex_rnd 4), ex_rnd 5); Some (Ok (ex_rnd 7), ex_rnd 8)].
Proof. split; vm_compute; reflexivity. Qed.

Example ex_in_blob : exists blob cache1 b e0 kek p,
  protect_offline symg ex_cache ex_r1 ex_r2 ex_r3 [1; 2; 3] ex_sid (Some ex_rkid) ex_time = (Ok blob, cache1) /\
  blob_unpack blob = Ok b /\ gcm_parameters ex_r2 = Ok p /\ b_enc_content_parameters b = Some p /\
  gcm_iv_of_parameters (b_enc_content_parameters b) = Ok ex_r2 /\ kid_key_info (b_key_identifier b) = ex_r3 /\
  derived_kek symg SHA512 ex_rk ex_rkid (target_sd (parsed ex_sid)) 361 31 23 ex_r3 = Ok kek /\
  Ok (b_enc_content b) = gcm_enc symg ex_r1 ex_r2 [1; 2; 3] /\ Ok (b_enc_cek b) = kw_wrap symg kek ex_r1 /\
  cc_find_seed (cc_seeds cache1) (ex_rkid, target_sd (parsed ex_sid), 361) = Some e0.
Proof.
  destruct (protect_offline symg ex_cache ex_r1 ex_r2 ex_r3 [1; 2; 3] ex_sid (Some ex_rkid) ex_time) as [[blob|] cache1] eqn:Ep;
    [|vm_compute in Ep; discriminate Ep].
  assert (Hc : cache_ok symg SHA512 ex_rk ex_rkid (target_sd (parsed ex_sid)) 361 ex_cache) by (apply cache_ok_fresh; reflexivity).
  destruct (in_blob symg SHA512 ex_rk ex_rkid (parsed ex_sid) ex_sid ex_time 361 31 23 ex_cache ex_r1 ex_r2 ex_r3 [1; 2; 3] blob cache1
              ltac:(vm_compute; reflexivity) eq_refl eq_refl ltac:(vm_compute; reflexivity) ltac:(vm_compute; reflexivity) ltac:(unfold ex_time; lia)
              ltac:(vm_compute; reflexivity) symg_kdf_nonempty Hc eq_refl eq_refl ltac:(ex_wrap_size) ltac:(ex_gcm_size) Ep)
    as (b & e0 & kek & p & H).
  exists blob, cache1, b, e0, kek, p. split; [reflexivity|]. tauto.
Qed.

Lemma trace_windows c rnd ops cur cache k e : nth_error (trace c rnd cur cache ops) k = Some e ->
  fst e = (cur + 3 * k)%nat /\
  exists cache_k a, In (Protect a) ops /\
    snd e = fst (protect_offline c cache_k (rnd (fst e)) (rnd (fst e + 1)%nat) (rnd (fst e + 2)%nat) (a_data a) (a_sid a) (a_rkid a) (a_time a)).
Proof. intros H. split; [exact (trace_cursors c rnd ops cur cache k e H)|exact (trace_entries c rnd ops cur cache k e H)]. Qed.

(* public-key mode (DH): the key identifier carries the public key of exactly the third draw (C03 agree_dh) *)
Lemma pubkey_key_info : forall c h top es ep rnd seed kl p g,
  envelope_hash es = Ok h -> envelope_hash ep = Ok h -> gke_is_public_key es = false -> gke_is_public_key ep = true ->
  gke_l0 es = gke_l0 ep -> gke_rkid es = gke_rkid ep -> gke_secret_alg es = STR_DH -> gke_secret_alg ep = STR_DH ->
  gke_priv_len es = gke_priv_len ep -> GkdiLib.u32b (gke_priv_len ep) = true -> 0 <= gke_l1 ep <= 31 -> 0 <= gke_l2 ep <= 31 ->
  conforming (Kek.KDFof c h ep) top (C02.env_of es) -> covers (C02.env_of es) (gke_l1 ep) (gke_l2 ep) ->
  K2 (Kek.KDFof c h ep) top (gke_l1 ep) (gke_l2 ep) = Ok seed ->
  0 < p -> GkdiLib.u32b kl = true -> GkdiStructs.fitsb kl p = true -> GkdiStructs.fitsb kl g = true ->
  let nbytes := bytes_of_bits (gke_priv_len ep) in
  let y := OS2IP (kdf c h seed KDS_SERVICE (lit16z "DH") nbytes) in let x := OS2IP (rnd nbytes) in
  wfb (kdf c h seed KDS_SERVICE (lit16z "DH") nbytes) = true -> wfb (rnd nbytes) = true ->
  (* since the repair of D16 new_kek checks the group key blob against the envelope's DH parameters and refuses a degenerate
     group public value *)
  Kek.dh_group_params (gke_secret_params ep) kl p g -> dh_pub_valid p (dh_public p g y) ->
  gke_l2_key ep = concat (GkdiStructs.ffk_field_list {| ffk_key_length := kl; ffk_field_order := p; ffk_generator := g; ffk_public_key := dh_public p g y |}) ->
  exists kek kid, new_kek c rnd ep = Ok (kek, kid) /\
    kid_key_info kid = concat (GkdiStructs.ffk_field_list {| ffk_key_length := kl; ffk_field_order := p; ffk_generator := g; ffk_public_key := dh_public p g x |}).
Proof.
  intros c h top es ep rnd seed kl p g H1 H2 H3 H4 H5 H6 H7 H8 H9 H10 H11 H12 H13 H14 H15 H16 H17 H18 H19 nbytes y x H20 H21 Gp Vy H22.
  destruct (Kek.new_kek_dh c h ep rnd seed kl p g H2 H4 H8 H10 H16 H17 H18 H19 Gp H21 Vy H22) as (kid & E & K).
  eauto.
Qed.

(* the call sites of the draws and the flow of their results, regenerated from _crypto.cek_generate and
   _client._encrypt_blob on every run: AESGCM.generate_key(256) then os.urandom(12), returned unmodified; the CEK
   flows only into content_encrypt and cek_encrypt, the nonce only into the GCM parameters, (kek, key_identifier) = key.new_kek() *)
Lemma draw_sites : k_cek_generate_draws = (256, 12) /\ k_encrypt_blob_flow = true.
Proof. split; reflexivity. Qed.

(* ---- the two halves together: in a history of well-formed nonce-mode protect calls for one root key (interleaved
   with arbitrary unprotect calls, the cache reused throughout) the blobs of any two successful protect calls carry
   different GCM nonces, different key-identifier nonces, different wrapped CEKs and different ciphertexts ---- *)
Section History.
Context (c : Crypto) (h : hash) (rk : root_key) (rkid : bytes).
Hypothesis Hhash : rk_hash rk = Ok h.
Hypothesis Halg : rk_kdf_alg rk = STR_KDF_ALG.
Hypothesis Hrk : len rkid = 16.
Hypothesis Hne : kdf_nonempty c.

Definition call_ok (r1 r2 r3 : bytes) (a : call) : Prop :=
  a_rkid a = Some rkid /\ sid_okb (a_sid a) = true /\ 0 <= a_time a /\ len r2 = 12 /\ len r3 = 32 /\
  exists s, sid_parse (a_sid a) = Ok s /\
    forall l0 l1 l2, interval_of_time_ns (a_time a) = (l0, l1, l2) ->
      (forall kek w, derived_kek c h rk rkid (target_sd s) l0 l1 l2 r3 = Ok kek -> kw_wrap c kek r1 = Ok w -> len w < U32) /\
      (forall ct, gcm_enc c r1 r2 (a_data a) = Ok ct -> len ct < U32).

Lemma trace_entries_inv rnd : forall ops cur cache k e, cache_inv c h rk rkid cache ->
  nth_error (trace c rnd cur cache ops) k = Some e ->
  exists cache_k a, cache_inv c h rk rkid cache_k /\ In (Protect a) ops /\
    snd e = fst (protect_offline c cache_k (rnd (fst e)) (rnd (fst e + 1)%nat) (rnd (fst e + 2)%nat) (a_data a) (a_sid a) (a_rkid a) (a_time a)).
Proof.
  unfold trace. induction ops as [|o ops IH]; intros cur cache k e Hinv H.
  - destruct k; discriminate H.
  - destruct o as [a|blob]; cbn [protect_many] in H.
    + pose proof (protect_keeps_inv c h rk rkid Hhash Halg cache (rnd cur) (rnd (cur + 1)%nat) (rnd (cur + 2)%nat) (a_data a) (a_sid a) (a_rkid a) (a_time a) Hinv) as Hinv1.
      destruct (protect_offline c cache (rnd cur) (rnd (cur + 1)%nat) (rnd (cur + 2)%nat) (a_data a) (a_sid a) (a_rkid a) (a_time a)) as [r cache1] eqn:Ep.
      cbn [snd] in Hinv1.
      destruct (protect_many c rnd (cur + 3)%nat cache1 ops) as [[tr cache2] cur2] eqn:E. cbn [fst] in H.
      destruct k as [|k]; cbn [nth_error] in H.
      * injection H as <-. exists cache, a. split; [exact Hinv|]. split; [left; reflexivity|]. cbn [fst snd]. rewrite Ep. reflexivity.
      * specialize (IH (cur + 3)%nat cache1 k e Hinv1). rewrite E in IH. cbn [fst] in IH. destruct (IH H) as (ck & a' & Hk & Hin & He).
        exists ck, a'. split; [exact Hk|]. split; [right; exact Hin|exact He].
    + pose proof (unprotect_keeps_inv c h rk rkid Hhash Halg cache blob Hinv) as Hinv1.
      destruct (unprotect_offline c cache blob) as [r cache1]. cbn [snd] in Hinv1.
      destruct (IH cur cache1 k e Hinv1 H) as (ck & a' & Hk & Hin & He).
      exists ck, a'. split; [exact Hk|]. split; [right; exact Hin|exact He].
Qed.

(* what the blob of one successful entry carries *)
Lemma entry_in_blob rnd ops cur cache k cu B : cache_inv c h rk rkid cache ->
  (forall a k, In (Protect a) ops -> (k < length (trace c rnd cur cache ops))%nat ->
     call_ok (rnd (cur + 3 * k)%nat) (rnd (cur + 3 * k + 1)%nat) (rnd (cur + 3 * k + 2)%nat) a) ->
  nth_error (trace c rnd cur cache ops) k = Some (cu, Ok B) ->
  exists b kek data, blob_unpack B = Ok b /\ gcm_iv_of_parameters (b_enc_content_parameters b) = Ok (rnd (cu + 1)%nat) /\
    kid_key_info (b_key_identifier b) = rnd (cu + 2)%nat /\
    Ok (b_enc_content b) = gcm_enc c (rnd cu) (rnd (cu + 1)%nat) data /\ Ok (b_enc_cek b) = kw_wrap c kek (rnd cu).
Proof.
  intros Hinv Hok Hn. destruct (trace_entries_inv rnd ops cur cache k _ Hinv Hn) as (ck & a & Hk & Hin & He). cbn [fst snd] in He.
  pose proof (trace_cursors _ _ _ _ _ _ _ Hn) as Hcu. cbn [fst] in Hcu.
  assert (Lk : (k < length (trace c rnd cur cache ops))%nat) by (apply nth_error_Some; congruence).
  pose proof (Hok a k Hin Lk) as Hok'. rewrite <- Hcu in Hok'.
  destruct Hok' as (Er & Hso & Ht & Hr2 & Hr3 & s & Hs & Hsz). rewrite Er in He.
  destruct (interval_of_time_ns (a_time a)) as [[l0 l1] l2] eqn:Ei. destruct (Hsz l0 l1 l2 eq_refl) as [Sw Sct].
  destruct (protect_offline c ck (rnd cu) (rnd (cu + 1)%nat) (rnd (cu + 2)%nat) (a_data a) (a_sid a) (Some rkid) (a_time a)) as [r c1] eqn:Ep.
  cbn [fst] in He. subst r.
  destruct (in_blob c h rk rkid s (a_sid a) (a_time a) l0 l1 l2 ck _ _ _ (a_data a) B c1 Hhash Halg Hrk Hs Hso Ht Ei Hne
              (cache_inv_ok c h rk rkid ck (target_sd s) l0 Hk) Hr2 Hr3 Sw Sct Ep) as (b & e0 & kek & p & Eu & _ & _ & Eiv & Eki & _ & _ & Ect & Ew & _).
  exists b, kek, (a_data a). auto.
Qed.

Theorem fresh_blobs (I : IdealLaws c) rnd ops cur cache i j ci cj Bi Bj :
  cache_inv c h rk rkid cache ->
  (forall a k, In (Protect a) ops -> (k < length (trace c rnd cur cache ops))%nat ->
     call_ok (rnd (cur + 3 * k)%nat) (rnd (cur + 3 * k + 1)%nat) (rnd (cur + 3 * k + 2)%nat) a) ->
  rnd_distinct_below rnd (snd (protect_many c rnd cur cache ops)) -> i <> j ->
  nth_error (trace c rnd cur cache ops) i = Some (ci, Ok Bi) -> nth_error (trace c rnd cur cache ops) j = Some (cj, Ok Bj) ->
  exists bi bj ni nj, blob_unpack Bi = Ok bi /\ blob_unpack Bj = Ok bj /\
    gcm_iv_of_parameters (b_enc_content_parameters bi) = Ok ni /\ gcm_iv_of_parameters (b_enc_content_parameters bj) = Ok nj /\ ni <> nj /\
    kid_key_info (b_key_identifier bi) <> kid_key_info (b_key_identifier bj) /\
    b_enc_cek bi <> b_enc_cek bj /\ b_enc_content bi <> b_enc_content bj /\ Bi <> Bj.
Proof.
  intros Hinv Hok Hd Hij Hi Hj.
  destruct (entry_in_blob rnd ops cur cache i ci Bi Hinv Hok Hi) as (bi & keki & di & Eui & Eni & Eki & Ecti & Ewi).
  destruct (entry_in_blob rnd ops cur cache j cj Bj Hinv Hok Hj) as (bj & kekj & dj & Euj & Enj & Ekj & Ectj & Ewj).
  destruct (fresh_sequence_bounded c rnd ops cur cache i j _ _ Hd Hij Hi Hj) as (F1 & F2 & F3 & F4 & _). cbv zeta in *. cbn [fst] in *.
  assert (Hct : b_enc_content bi <> b_enc_content bj) by (apply (distinct_ciphertexts c I _ _ _ _ _ _ _ _ (eq_sym Ecti) (eq_sym Ectj) F4)).
  exists bi, bj, (rnd (ci + 1)%nat), (rnd (cj + 1)%nat). repeat (split; [assumption|]).
  split; [rewrite Eki, Ekj; exact F3|].
  split; [apply (distinct_wrapped_ceks c I _ _ _ _ _ _ (eq_sym Ewi) (eq_sym Ewj) F1)|].
  split; [exact Hct|]. intros ->. rewrite Eui in Euj. apply Ok_inj in Euj. subst bj. now apply Hct.
Qed.
End History.

(* instance: the history ex_ops over ex_rnd from the cache ex_cache meets every hypothesis of fresh_blobs *)
Lemma ex_cache_inv : cache_inv symg SHA512 ex_rk ex_rkid ex_cache.
Proof. split; [reflexivity|]. split; [intros k sd l0 e H|intros sd l0 e H]; discriminate H. Qed.
Lemma ex_calls_ok : forall a k, In (Protect a) ex_ops -> (k < length (trace symg ex_rnd 0 ex_cache ex_ops))%nat ->
  call_ok symg SHA512 ex_rk ex_rkid (ex_rnd (0 + 3 * k)%nat) (ex_rnd (0 + 3 * k + 1)%nat) (ex_rnd (0 + 3 * k + 2)%nat) a.
Proof.
  intros a k Hin Lk. assert (L3 : length (trace symg ex_rnd 0 ex_cache ex_ops) = 3%nat) by (vm_compute; reflexivity). rewrite L3 in Lk.
  assert (Ha : a = ex_call [1; 2; 3] \/ a = ex_call []).
  { cbn [In ex_ops] in Hin. destruct Hin as [H|[H|[H|[H|[]]]]]; try discriminate H; injection H as <-; auto. }
  assert (Hk : k = 0%nat \/ k = 1%nat \/ k = 2%nat) by lia.
  assert (Hi : forall l0 l1 l2, interval_of_time_ns ex_time = (l0, l1, l2) -> l0 = 361 /\ l1 = 31 /\ l2 = 23).
  { intros l0 l1 l2 Ei. assert (E : (l0, l1, l2) = (361, 31, 23)) by (rewrite <- Ei; vm_compute; reflexivity). injection E as -> -> ->. auto. }
  destruct Ha as [-> | ->]; destruct Hk as [-> | [-> | ->]];
    (split; [reflexivity|]; split; [vm_compute; reflexivity|]; split; [cbn [ex_call a_time]; unfold ex_time; lia|];
     split; [vm_compute; reflexivity|]; split; [vm_compute; reflexivity|];
     exists (parsed ex_sid); split; [vm_compute; reflexivity|];
     intros l0 l1 l2 Ei; destruct (Hi l0 l1 l2 Ei) as (-> & -> & ->); split; [ex_wrap_size|ex_gcm_size]).
Qed.
Example ex_fresh_blobs : forall i j ci cj Bi Bj, i <> j ->
  nth_error ex_trace i = Some (ci, Ok Bi) -> nth_error ex_trace j = Some (cj, Ok Bj) ->
  exists bi bj ni nj, blob_unpack Bi = Ok bi /\ blob_unpack Bj = Ok bj /\
    gcm_iv_of_parameters (b_enc_content_parameters bi) = Ok ni /\ gcm_iv_of_parameters (b_enc_content_parameters bj) = Ok nj /\ ni <> nj /\
    kid_key_info (b_key_identifier bi) <> kid_key_info (b_key_identifier bj) /\
    b_enc_cek bi <> b_enc_cek bj /\ b_enc_content bi <> b_enc_content bj /\ Bi <> Bj.
Proof.
  intros i j ci cj Bi Bj Hij Hi Hj.
  apply (fresh_blobs symg SHA512 ex_rk ex_rkid ltac:(vm_compute; reflexivity) eq_refl eq_refl symg_kdf_nonempty symg_ideal
           ex_rnd ex_ops 0%nat ex_cache i j ci cj Bi Bj ex_cache_inv ex_calls_ok); auto.
  intros x y _ _. apply ex_rnd_distinct.
Qed.

Lemma cache_inv_kept c h rk rkid : rk_hash rk = Ok h -> rk_kdf_alg rk = STR_KDF_ALG ->
  forall cache, cache_inv c h rk rkid cache ->
  (forall r1 r2 r3 data sid rid time_ns, cache_inv c h rk rkid (snd (protect_offline c cache r1 r2 r3 data sid rid time_ns))) /\
  (forall bs, cache_inv c h rk rkid (snd (unprotect_offline c cache bs))).
Proof.
  intros Hh Ha cache Hinv. split; [intros; now apply protect_keeps_inv|intros; now apply unprotect_keeps_inv].
Qed.
