(* Tie theorems, module-level readers of _asn1.py (gen/F_asn1.v) run in Flow/World_asn1.v = the model Model/Asn1.v.
   `hint` (None or a str) only feeds the message text, which the model does not carry. *)
From V Require Import Prelude.PyAst.
From V Require Import Prelude.Base Prelude.PyInt Prelude.PySlice Prelude.PyStr Prelude.PyWorld gen.K_asn1 gen.C_asn1 gen.F_asn1.
From V Require Import Model.Asn1 Flow.World_asn1 Proofs.Flow_asn1_lib.
Local Open Scope string_scope.
Local Open Scope list_scope.
Local Open Scope Z_scope.
Arguments len : simpl never.
Arguments slice : simpl never.
Arguments read_asn1_header : simpl never.
Arguments validate_tag : simpl never.
Arguments tag_eqb : simpl never.
Arguments utf8_decode : simpl never.
Arguments read_int_content : simpl never.
Arguments m_read_integer : simpl never.
Arguments with_opts : simpl never.

Lemma flow_validate_tag fuel data exp ty h hint :
  run W fuel k_flow_validate_tag [VB data; vopt_tag exp; VO (OTag ty); vopt_header h; vopt_str hint] =
  (let* r := validate_tag data exp ty h in Ok (inj_raw r)).
Proof.
  start W k_flow_validate_tag. unfold validate_tag, k_vt_short.
  destruct h as [[ht htl hl]|]; py.
  - destruct hint as [s|]; py. destruct (len s =? 0); py. all: destruct exp as [e|]; py.
    all: destruct (tag_eqb _ _); py; [|reflexivity]; destruct (_ <? _); py; reflexivity.
  - destruct (read_asn1_header data) as [[ht htl hl]|e]; py; [|reflexivity].
    destruct hint as [s|]; py. destruct (len s =? 0); py. all: destruct exp as [e|]; py.
    all: destruct (tag_eqb _ _); py; [|reflexivity]; destruct (_ <? _); py; reflexivity.
Qed.

Lemma tag_of_vopt t : tag_of (vopt_tag t) = Some t. Proof. destruct t; reflexivity. Qed.
Lemma header_of_vopt h : header_of (vopt_header h) = Some h. Proof. destruct h as [[? ? ?]|]; reflexivity. Qed.
Lemma hint_of_vopt s : hint_of (vopt_str s) = Some tt. Proof. destruct s; reflexivity. Qed.
Lemma with_opts_some {A} tv hv hn t h (k : option tag -> option header -> res A) inj :
  tag_of tv = Some t -> header_of hv = Some h -> hint_of hn = Some tt ->
  with_opts tv hv hn k inj = Some (let* r := k t h in Ok (inj r)).
Proof. intros Ht Hh Hn. unfold with_opts. rewrite Ht, Hh, Hn. reflexivity. Qed.
Ltac opts :=
  erewrite with_opts_some by (first [apply tag_of_vopt | apply header_of_vopt | apply hint_of_vopt | reflexivity]);
  cbn [or_else].

Lemma flow_read_asn1_octet_string fuel data t h hint :
  run W fuel k_flow_read_asn1_octet_string [VB data; vopt_tag t; vopt_header h; vopt_str hint] =
  (let* r := validate_tag data t (universal_tag c_tag_octet_string false) h in Ok (inj_raw r)).
Proof. start W k_flow_read_asn1_octet_string. py. opts. destruct (validate_tag _ _ _ _); reflexivity. Qed.

Lemma flow_read_asn1_sequence fuel data t h hint :
  run W fuel k_flow_read_asn1_sequence [VB data; vopt_tag t; vopt_header h; vopt_str hint] =
  (let* r := validate_tag data t (universal_tag c_tag_sequence true) h in Ok (inj_raw r)).
Proof. start W k_flow_read_asn1_sequence. py. opts. destruct (validate_tag _ _ _ _); reflexivity. Qed.

Lemma flow_read_asn1_set fuel data t h hint :
  run W fuel k_flow_read_asn1_set [VB data; vopt_tag t; vopt_header h; vopt_str hint] =
  (let* r := validate_tag data t (universal_tag c_tag_set true) h in Ok (inj_raw r)).
Proof. start W k_flow_read_asn1_set. py. opts. destruct (validate_tag _ _ _ _); reflexivity. Qed.

(* raw.replace(b"\x00", b"") != b""  is  "some octet is not 0" *)
Lemma nonzero_filter raw :
  negb (zs_eqb (filter (fun y => negb (y =? 0)) raw) []) = existsb (fun x => negb (x =? 0)) raw.
Proof. induction raw as [|x r IH]; [reflexivity|]. cbn [filter existsb]. destruct (x =? 0); cbn; [exact IH|reflexivity]. Qed.

Lemma flow_read_asn1_boolean fuel data t h hint :
  run W fuel k_flow_read_asn1_boolean [VB data; vopt_tag t; vopt_header h; vopt_str hint] =
  (let* r := m_read_boolean data t h in Ok (inj_bool r)).
Proof.
  start W k_flow_read_asn1_boolean. unfold m_read_boolean. py. opts.
  destruct (validate_tag _ _ _ _) as [[raw consumed]|e]; py; [|reflexivity].
  rewrite nonzero_filter. reflexivity.
Qed.

Lemma flow_read_asn1_utf8_string fuel data t h hint :
  run W fuel k_flow_read_asn1_utf8_string [VB data; vopt_tag t; vopt_header h; vopt_str hint] =
  (let* r := m_read_str c_tag_utf8 data t h in Ok (inj_str r)).
Proof.
  start W k_flow_read_asn1_utf8_string. unfold m_read_str. py. opts.
  destruct (validate_tag _ _ _ _) as [[raw consumed]|e]; py; [|reflexivity].
  destruct (utf8_decode raw); reflexivity.
Qed.

Lemma flow_read_asn1_generalized_time fuel data t h hint :
  run W fuel k_flow_read_asn1_generalized_time [VB data; vopt_tag t; vopt_header h; vopt_str hint] =
  (let* r := m_read_str c_tag_gentime data t h in Ok (inj_str r)).
Proof.
  start W k_flow_read_asn1_generalized_time. unfold m_read_str. py. opts.
  destruct (validate_tag _ _ _ _) as [[raw consumed]|e]; py; [|reflexivity].
  destruct (utf8_decode raw); reflexivity.
Qed.

Lemma flow_read_asn1_enumerated fuel data t h hint :
  run W fuel k_flow_read_asn1_enumerated [VB data; vopt_tag t; vopt_header h; vopt_str hint] =
  (let* r := m_read_enumerated data t h in Ok (inj_int r)).
Proof.
  start W k_flow_read_asn1_enumerated. unfold m_read_enumerated.
  destruct t as [t|]; py.
  - opts. destruct (m_read_integer _ _ _); reflexivity.
  - destruct h as [[ht htl hl]|]; py; opts; destruct (m_read_integer _ _ _); reflexivity.
Qed.
