(* Tie theorems, group "kek" (props C03): the regenerated syntax of _gkdi.compute_kek, compute_kek_from_public_key,
   compute_public_key and GroupKeyEnvelope.is_public_key / get_kek / new_kek (gen/F_gkdi.v), run in the world
   Flow/World_gkdi_keys.v, computes exactly the model functions of Model/Kek.v the C03 theorems are about.
   `u` is os.urandom (the explicit RNG argument of the model's new_kek). No loop here: any fuel. *)
From V Require Import Prelude.Base Prelude.PyInt Prelude.PyStr Prelude.TrueDiv Prelude.PyAst Prelude.PyWorld gen.F_gkdi gen.Consts gen.K_gkdi.
From V Require Import Model.Types Model.Crypto Model.Chain Model.KeyId Model.Gkdi Model.Kek Flow.World_gkdi_keys.
Local Open Scope string_scope.
Local Open Scope list_scope.
Local Open Scope Z_scope.

Local Arguments len : simpl never.
Local Arguments to_bytes_be : simpl never.
Local Arguments FFCDHKey_unpack : simpl never.
Local Arguments FFCDHParameters_unpack : simpl never.
Local Arguments FFCDHKey_pack : simpl never.
Local Arguments ECDHKey_unpack : simpl never.
Local Arguments ECDHKey_pack : simpl never.
Local Arguments KDFParameters_unpack : simpl never.
Local Arguments hash_algorithm : simpl never.
Local Arguments curve_and_hash : simpl never.
Local Arguments py_pow3 : simpl never.
Local Arguments be_val : simpl never.
Local Arguments utf16le_encode : simpl never.
Local Arguments startswith : simpl never.
Local Arguments py_truediv_ceil : simpl never.
Local Arguments compute_l2_key : simpl never.

Definition liftb (r : res bytes) : res (pv obj) := let* b := r in Ok (VB b).

Lemma zs_eqb_beqb a b : zs_eqb a b = beqb a b.
Proof. reflexivity. Qed.

Lemma flow_gke_is_public_key c u fuel e :
  run (W c u) fuel k_flow_gke_is_public_key [VO (OEnv e)] = Ok (vb (gke_is_public_key e)).
Proof. reflexivity. Qed.


Lemma enc_kek_context : utf16le_encode [75; 68; 83; 32; 112; 117; 98; 108; 105; 99; 32; 107; 101; 121; 0] = Ok KEK_CONTEXT.
Proof. vm_compute. reflexivity. Qed.
Lemma enc_alg_id : utf16le_encode [83; 72; 65; 53; 49; 50; 0] = Ok KEK_ALGORITHM_ID.
Proof. vm_compute. reflexivity. Qed.
Lemma str_dh : STR_DH = [68; 72]. Proof. reflexivity. Qed.
Lemma str_ecdh_p : STR_ECDH_P = [69; 67; 68; 72; 95; 80]. Proof. reflexivity. Qed.
Lemma str_kdf_alg : STR_KDF_ALG = [83; 80; 56; 48; 48; 95; 49; 48; 56; 95; 67; 84; 82; 95; 72; 77; 65; 67]. Proof. reflexivity. Qed.
Local Opaque KEK_CONTEXT KEK_ALGORITHM_ID.

Lemma curve_eqb_refl cv : curve_eqb cv cv = true.
Proof. destruct cv; reflexivity. Qed.

Lemma index2_0 {A} (a b : A) : PySlice.index [a; b] 0 = Ok a.
Proof. reflexivity. Qed.

Ltac sct := repeat (progress (cbn; try unfold test)).
Ltac dh_tail k S :=
  let dp := fresh "dp" in let x := fresh "x" in let s := fresh "s" in let ss := fresh "ss" in
  (destruct (FFCDHParameters_unpack S) as [dp|x]; sct; [|reflexivity]);
  unfold dh_params_mismatch, k_dh_pub_bad;
  (destruct (ffk_key_length k =? ffp_key_length dp); sct; [|reflexivity]);
  (destruct (ffk_field_order k =? ffp_field_order dp); sct; [|reflexivity]);
  (destruct (ffk_generator k =? ffp_generator dp); sct; [|reflexivity]);
  (destruct (1 <? ffk_public_key k); sct; [|reflexivity]);
  (destruct (ffk_public_key k <? ffk_field_order k - 1); sct; [|reflexivity]);
  (destruct (py_pow3 _ _ _) as [s|x]; sct; [|reflexivity]);
  unfold to_bytes_be_z, to_bytes_generic; (destruct (ffk_key_length k <? 0); sct; [reflexivity|]);
  (destruct (to_bytes_be _ s) as [ss|x]; sct; [|reflexivity]);
  rewrite enc_kek_context; sct; rewrite enc_alg_id; sct; reflexivity.

Lemma flow_compute_kek c u fuel h alg sp priv pub :
  run (W c u) fuel k_flow_compute_kek [VO (OHash h); VS alg; VB sp; VB priv; VB pub] = liftb (compute_kek c h alg sp priv pub).
Proof.
  unfold compute_kek, liftb, str_eqb. rewrite str_dh, str_ecdh_p. cbn.
  change (zs_eqb alg [68; 72]) with (beqb alg [68; 72]).
  destruct (beqb alg [68; 72]) eqn:Edh; cbn.
  - destruct (FFCDHKey_unpack pub) as [k|x]; cbn; [|reflexivity].
    (* secret_parameters or b"" is the argument itself *)
    destruct sp as [|b0 sp'].
    + change (len (@nil Z)) with 0. cbn. dh_tail k (@nil Z).
    + rewrite len_cons. replace (1 + len sp' =? 0) with false by (pose proof (len_nonneg sp'); lia). cbn.
      dh_tail k (b0 :: sp').
  - destruct (startswith alg _) eqn:Eec; cbn; [|reflexivity].
    destruct (ECDHKey_unpack pub) as [k|x]; cbn; [|reflexivity].
    destruct (curve_and_hash k) as [[cv sh]|x]; cbn; [|reflexivity].
    rewrite curve_eqb_refl.
    destruct (ec_dh c cv _ _) as [z|x]; cbn; [|reflexivity].
    rewrite enc_kek_context. cbn. rewrite enc_alg_id. cbn. reflexivity.
Qed.

Lemma flow_compute_kek_from_public_key c u fuel h seed alg sp pub n :
  run (W c u) fuel k_flow_compute_kek_from_public_key [VO (OHash h); VB seed; VS alg; VB sp; VB pub; VI n]
  = liftb (compute_kek_from_public_key c h seed alg sp pub n).
Proof.
  unfold compute_kek_from_public_key, encode_utf16z, liftb. cbn.
  destruct (utf16le_encode (alg ++ [0])) as [b|x]; cbn; [|reflexivity].
  destruct (compute_kek c h alg sp _ pub); reflexivity.
Qed.

Lemma flow_compute_public_key c u fuel alg sp priv peer :
  run (W c u) fuel k_flow_compute_public_key [VS alg; VB sp; VB priv; VB peer] = liftb (compute_public_key c alg sp priv peer).
Proof.
  unfold compute_public_key, liftb, str_eqb. rewrite str_dh, str_ecdh_p. cbn.
  change (zs_eqb alg [68; 72]) with (beqb alg [68; 72]).
  destruct (beqb alg [68; 72]) eqn:Edh; cbn.
  - destruct (FFCDHKey_unpack peer) as [k|x]; cbn; [|reflexivity].
    destruct (py_pow3 _ _ _) as [s|x]; cbn; [|reflexivity].
    destruct (FFCDHKey_pack _); reflexivity.
  - destruct (startswith alg _) eqn:Eec; cbn; [|reflexivity].
    destruct (ECDHKey_unpack peer) as [k|x]; cbn; [|reflexivity].
    destruct (curve_and_hash k) as [[cv sh]|x]; cbn; [|reflexivity].
    rewrite index2_0. cbn.
    destruct (ec_pub c cv _) as [[x y]|x]; cbn; [|reflexivity].
    destruct (ECDHKey_pack _); reflexivity.
Qed.

Lemma flow_gke_get_kek c u fuel e kid :
  run (W c u) fuel k_flow_gke_get_kek [VO (OEnv e); VO (OKid kid)] = liftb (get_kek c e kid).
Proof.
  unfold get_kek, envelope_hash, liftb, str_eqb, k_getkek_l0_mismatch, k_ceil_priv_get, k_kek_len_nonce_get.
  rewrite str_kdf_alg. cbn.
  destruct (gke_is_public_key e); cbn; [reflexivity|].
  destruct (gke_l0 e =? kid_l0 kid); cbn; [|reflexivity].
  change (zs_eqb (gke_kdf_alg e) ?x) with (beqb (gke_kdf_alg e) x).
  destruct (beqb (gke_kdf_alg e) _); cbn; [|reflexivity].
  destruct (KDFParameters_unpack _) as [n|x]; cbn; [|reflexivity].
  destruct (hash_algorithm n) as [h|x]; cbn; [|reflexivity].
  destruct (compute_l2_key c h _ _ e) as [k2|x]; cbn; [|reflexivity].
  destruct (kid_is_public_key kid); cbn.
  - destruct (compute_kek_from_public_key _ _ _ _ _ _ _); reflexivity.
  - reflexivity.
Qed.

Definition lift_kek (r : res (bytes * key_identifier)) : res (pv obj) :=
  let* (kek, kid) := r in Ok (VT [VB kek; VO (OKid kid)]).

Lemma flow_gke_new_kek c u fuel e :
  run (W c u) fuel k_flow_gke_new_kek [VO (OEnv e)] = lift_kek (new_kek c u e).
Proof.
  unfold new_kek, envelope_hash, lift_kek, str_eqb, k_ceil_priv_new, k_nonce_len, k_kek_len_nonce_new.
  rewrite str_kdf_alg. cbn.
  change (zs_eqb (gke_kdf_alg e) ?x) with (beqb (gke_kdf_alg e) x).
  destruct (beqb (gke_kdf_alg e) _); cbn; [|reflexivity].
  destruct (KDFParameters_unpack _) as [n|x]; cbn; [|reflexivity].
  destruct (hash_algorithm n) as [h|x]; cbn; [|reflexivity].
  destruct (gke_is_public_key e); cbn.
  - destruct (compute_kek c h _ _ _ _) as [kek|x]; cbn; [|reflexivity].
    destruct (compute_public_key c _ _ _ _) as [ki|x]; cbn; reflexivity.
  - destruct (gke_l2_key e) as [|b0 l2k] eqn:El2; cbn.
    + destruct (compute_l2_key c h _ _ e) as [k2|x]; cbn; reflexivity.
    + rewrite len_cons. replace (1 + len l2k =? 0) with false by (pose proof (len_nonneg l2k); lia). cbn. reflexivity.
Qed.
