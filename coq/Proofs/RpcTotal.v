(* Termination (fuel = length + 1 suffices) and linear tick / memory bounds on arbitrary byte strings. *)
From V Require Import Prelude.Base Prelude.PyInt Prelude.PySlice Model.Pdu Model.Request Model.RpcLoop Model.Bind Model.Epm.
From V Require Import Proofs.RpcLib Proofs.RpcKernels.

Lemma len_slice_from {A} (v : list A) k : 0 <= k -> len (slice (Some k) None v) = Z.max 0 (len v - k).
Proof.
  intros Hk. unfold slice, norm. destruct (k <? 0) eqn:?; try lia. pose proof (len_nonneg v).
  unfold len in *. rewrite firstn_length, skipn_length. lia.
Qed.
Lemma len_slice_le {A} (v : list A) lo hi : len (slice lo hi v) <= len v.
Proof. unfold slice, len. rewrite firstn_length, skipn_length. lia. Qed.

Lemma raise_inj {A B} e e' : @Raise A e = Raise e' -> @Raise B e = Raise e'.
Proof. intros H. injection H as ->. reflexivity. Qed.

(* ---- generic facts about for_range ---- *)
Section Loop.
Context {St : Type} (body : St -> res (St * Z)).
Hypothesis body_no_oof : forall s, body s <> Raise OutOfFuel.

(* a count that fits the fuel *)
Lemma for_range_count_ok : forall fuel n s t, n <= Z.of_nat fuel -> for_range fuel n body s t <> Raise OutOfFuel.
Proof.
  induction fuel as [|fuel IH]; intros n s t Hn; cbn [for_range].
  - destruct (n <=? 0) eqn:E; [discriminate|lia].
  - destruct (n <=? 0) eqn:E; [discriminate|]. destruct (body s) as [[s' t']|e] eqn:Eb; cbn [bind].
    + apply IH. lia.
    + intros H. apply (body_no_oof s). rewrite Eb. exact H.
Qed.

(* a body that strictly decreases a measure *)
Variable mu : St -> Z.
Hypothesis mu_nonneg : forall s, 0 <= mu s.
Lemma for_range_measure_ok : (forall s s' t, body s = Ok (s', t) -> mu s' < mu s) ->
  forall fuel n s t, mu s < Z.of_nat fuel -> for_range fuel n body s t <> Raise OutOfFuel.
Proof.
  intros Hd. induction fuel as [|fuel IH]; intros n s t Hm; cbn [for_range].
  - pose proof (mu_nonneg s). lia.
  - destruct (n <=? 0) eqn:E; [discriminate|]. destruct (body s) as [[s' t']|e] eqn:Eb; cbn [bind].
    + apply IH. specialize (Hd _ _ _ Eb). lia.
    + intros H. apply (body_no_oof s). rewrite Eb. exact H.
Qed.

(* ticks: one per iteration plus the body's own, paid for by the decrease of a potential *)
Lemma for_range_ticks : (forall s s' t, body s = Ok (s', t) -> 0 <= t <= mu s - mu s') ->
  forall fuel n s t s' t', for_range fuel n body s t = Ok (s', t') ->
  t <= t' /\ t' - t <= Z.max 0 n + (mu s - mu s') /\ mu s' <= mu s.
Proof.
  intros Hb. induction fuel as [|fuel IH]; intros n s t s' t' H; cbn [for_range] in H.
  - destruct (n <=? 0) eqn:E; [|discriminate]. apply Ok_inj in H. injection H as <- <-. lia.
  - destruct (n <=? 0) eqn:E. { apply Ok_inj in H. injection H as <- <-. lia. }
    destruct (body s) as [[s1 t1]|e] eqn:Eb; cbn [bind] in H; [|discriminate].
    specialize (Hb _ _ _ Eb). specialize (IH _ _ _ _ _ H). lia.
Qed.
(* strict decrease and tick-free body: iterations are bounded by the decrease alone *)
Lemma for_range_ticks_strict : (forall s s' t, body s = Ok (s', t) -> t = 0 /\ mu s' < mu s) ->
  forall fuel n s t s' t', for_range fuel n body s t = Ok (s', t') -> t <= t' /\ t' - t <= mu s - mu s'.
Proof.
  intros Hb. induction fuel as [|fuel IH]; intros n s t s' t' H; cbn [for_range] in H.
  - destruct (n <=? 0) eqn:E; [|discriminate]. apply Ok_inj in H. injection H as <- <-. lia.
  - destruct (n <=? 0) eqn:E. { apply Ok_inj in H. injection H as <- <-. lia. }
    destruct (body s) as [[s1 t1]|e] eqn:Eb; cbn [bind] in H; [|discriminate].
    specialize (Hb _ _ _ Eb). specialize (IH _ _ _ _ _ H). lia.
Qed.
End Loop.

(* number of collected items = number of iterations <= max 0 n *)
Lemma for_range_acc_len {V A} (step : V * list A -> res ((V * list A) * Z)) :
  (forall v acc s' t, step (v, acc) = Ok (s', t) -> len (snd s') = len acc + 1) ->
  forall fuel n v acc t s' t', for_range fuel n step (v, acc) t = Ok (s', t') -> len (snd s') <= len acc + Z.max 0 n.
Proof.
  intros Hs. induction fuel as [|fuel IH]; intros n v acc t s' t' H; cbn [for_range] in H.
  - destruct (n <=? 0) eqn:E; [|discriminate]. apply Ok_inj in H. injection H as <- <-. cbn [snd]. lia.
  - destruct (n <=? 0) eqn:E. { apply Ok_inj in H. injection H as <- <-. cbn [snd]. lia. }
    destruct (step (v, acc)) as [[[v1 acc1] t1]|e] eqn:Eb; cbn [bind] in H; [|discriminate].
    specialize (Hs _ _ _ _ Eb). cbn [snd] in Hs. specialize (IH _ _ _ _ _ _ H). lia.
Qed.

(* ---- floors ---- *)
Lemma index_ok_len {A} (v : list A) i x : index v i = Ok x -> 0 <= i -> i < len v.
Proof. unfold index. intros H Hi. destruct (i <? 0) eqn:?; try lia. destruct ((0 <=? i) && (i <? len v)) eqn:E; [lia|discriminate]. Qed.

Lemma floor_unpack_no_oof v : floor_unpack v <> Raise OutOfFuel.
Proof.
  unfold floor_unpack. destruct (index v 2) as [p|e] eqn:Ei; cbn [bind].
  - destruct (p =? c_FLOOR_TCP); [discriminate|]. destruct (p =? c_FLOOR_IP); [discriminate|].
    destruct (p =? c_FLOOR_RPC_CO); [discriminate|]. destruct (p =? c_FLOOR_UUID); [|discriminate].
    unfold uuid_of_bytes_le. destruct (_ =? 16); discriminate.
  - unfold index in Ei. destruct (_ && _); [destruct (nth_error _ _)|]; congruence.
Qed.

Definition floor_body : bytes * list floor -> res ((bytes * list floor) * Z) :=
  fun '(view, acc) => let* f := floor_unpack view in
    Ok ((slice (Some (len (fl_lhs f) + len (fl_rhs f) + 5)) None view, acc ++ [f]), 0).

Lemma floor_body_step v acc s' t : floor_body (v, acc) = Ok (s', t) ->
  t = 0 /\ len (fst s') < len v /\ len (snd s') = len acc + 1.
Proof.
  unfold floor_body. destruct (floor_unpack v) as [f|e] eqn:Ef; cbn [bind]; [|discriminate].
  intros H. apply Ok_inj in H. injection H as <- <-. cbn [fst snd]. split; [reflexivity|].
  assert (Hv : 2 < len v).
  { unfold floor_unpack in Ef. destruct (index v 2) as [p|] eqn:Ei; [|discriminate]. apply index_ok_len in Ei; lia. }
  pose proof (len_nonneg (fl_lhs f)). pose proof (len_nonneg (fl_rhs f)).
  rewrite len_slice_from by lia. lens. change (len (@nil floor)) with 0 in *. change (len (@nil (list floor))) with 0 in *. lia.
Qed.
Lemma floor_body_no_oof s : floor_body s <> Raise OutOfFuel.
Proof. destruct s as [v acc]. unfold floor_body. destruct (floor_unpack v) eqn:E; cbn [bind]; [discriminate|].
  intros H. apply (floor_unpack_no_oof v). rewrite E. exact (raise_inj _ _ H). Qed.

Lemma floor_body_strict s s' t : floor_body s = Ok (s', t) -> t = 0 /\ len (fst s') < len (fst s).
Proof. destruct s as [v acc]. intros H. apply floor_body_step in H. cbn [fst]. tauto. Qed.

Lemma floors_unpack_total fuel n view : len view < Z.of_nat fuel ->
  floors_unpack fuel n view <> Raise OutOfFuel /\
  forall s t, floors_unpack fuel n view = Ok (s, t) -> 0 <= t <= len view - len (fst s) /\ len (fst s) <= len view.
Proof.
  intros Hf. unfold floors_unpack. fold floor_body. split.
  - apply (for_range_measure_ok floor_body floor_body_no_oof (fun s => len (fst s)) (fun s => len_nonneg _)); [|exact Hf].
    intros [v acc] s' t H. apply floor_body_step in H. cbn [fst]. lia.
  - intros s t H.
    pose proof (for_range_ticks_strict floor_body floor_body_no_oof (fun s => len (fst s)) (fun s => len_nonneg _)
                  floor_body_strict fuel n (view, []) 0 s t H) as Hb.
    cbn [fst] in Hb. lia.
Qed.

(* ---- EptMapResult.unpack and _process_ept_map_result on arbitrary bytes ---- *)
Definition tower_body0 (fuel0 : nat) : bytes * list (list floor) -> res ((bytes * list (list floor)) * Z) :=
  fun '(view, towers) =>
    let tower_length := le_val (slice None (Some 8) view) in
    let padding := k_eptres_unpack_pad tower_length in
    let floor_len := le_val (slice (Some 12) (Some 14) view) in
    let view := slice (Some 14) None view in
    let* (fs, t) := floors_unpack fuel0 floor_len view in
    Ok ((slice (Some padding) None (fst fs), towers ++ [snd fs]), t).

Lemma tower_body0_step fuel0 v acc : len v < Z.of_nat fuel0 ->
  tower_body0 fuel0 (v, acc) <> Raise OutOfFuel /\
  forall s' t, tower_body0 fuel0 (v, acc) = Ok (s', t) -> 0 <= t <= len v - len (fst s') /\ len (snd s') = len acc + 1.
Proof.
  intros Hf. unfold tower_body0.
  set (n := le_val (slice (Some 12) (Some 14) v)). set (v1 := slice (Some 14) None v).
  assert (H1 : len v1 <= len v) by apply len_slice_le.
  destruct (floors_unpack_total fuel0 n v1 ltac:(lia)) as [Hno Hb].
  destruct (floors_unpack fuel0 n v1) as [[fs t0]|e] eqn:Ef; cbn [bind].
  - split; [discriminate|]. intros s' t H. apply Ok_inj in H. injection H as <- <-. cbn [fst snd].
    specialize (Hb _ _ eq_refl). pose proof (len_slice_le (fst fs) (Some (k_eptres_unpack_pad (le_val (slice None (Some 8) v)))) None).
    lens. change (len (@nil floor)) with 0 in *. change (len (@nil (list floor))) with 0 in *. lia.
  - split; [|discriminate]. intros H. apply Hno. exact (raise_inj _ _ H).
Qed.

Lemma towers_loop_total fuel : forall f n s t, len (fst s) < Z.of_nat fuel -> n <= Z.of_nat f ->
  for_range f n (tower_body0 fuel) s t <> Raise OutOfFuel /\
  forall s' t', for_range f n (tower_body0 fuel) s t = Ok (s', t') ->
    t <= t' /\ t' - t <= Z.max 0 n + (len (fst s) - len (fst s')) /\ len (snd s') <= len (snd s) + Z.max 0 n.
Proof.
  induction f as [|f IH]; intros n s t Hs Hn; cbn [for_range].
  - destruct (n <=? 0) eqn:E; [|exfalso; lia]. split; [discriminate|]. intros s' t' H. assert (Hst : s' = s /\ t' = t) by (split; congruence). destruct Hst as [-> ->]. unfold bytes in *. lia.
  - destruct (n <=? 0) eqn:E. { split; [discriminate|]. intros s' t' H. assert (Hst : s' = s /\ t' = t) by (split; congruence). destruct Hst as [-> ->]. unfold bytes in *. lia. }
    destruct s as [v acc]. cbn [fst snd] in *.
    destruct (tower_body0_step fuel v acc Hs) as [Hno Hb]. destruct (tower_body0 fuel (v, acc)) as [[s1 t1]|e] eqn:Eb; cbn [bind].
    + specialize (Hb _ _ eq_refl). unfold bytes in *. destruct (IH (n - 1) s1 (t + 1 + t1) ltac:(lia) ltac:(lia)) as [IH1 IH2].
      split; [exact IH1|]. intros s' t' H. specialize (IH2 _ _ H). unfold bytes in *. lia.
    + split; [|discriminate]. intros H. apply Hno. exact H.
Qed.

Theorem ept_map_result_unpack_total bs fuel : len bs < Z.of_nat fuel ->
  ept_map_result_unpack fuel bs <> Raise OutOfFuel /\
  forall m t, ept_map_result_unpack fuel bs = Ok (m, t) -> 0 <= t <= len bs /\ 8 * len (er_towers m) <= len bs.
Proof.
  intros Hf. unfold ept_map_result_unpack. fold (tower_body0 fuel).
  destruct (entry_handle_unpack bs) as [h|e] eqn:Eh; cbn [bind].
  2:{ split; [|discriminate]. unfold entry_handle_unpack, uuid_of_bytes_le in Eh.
      destruct (bytes_eqb _ _); [discriminate|]. destruct (_ =? 16); cbn [bind] in Eh; congruence. }
  set (c := le_val (slice (Some 40) (Some 48) bs)). rewrite referent_skip_spec.
  destruct (k_eptres_count_guard (8 * c) (len bs)) eqn:Eg; [split; [discriminate|discriminate]|].
  apply count_guard_spec in Eg.
  set (v0 := slice (Some (48 + 8 * c)) None bs).
  assert (Hv0 : len v0 <= len bs) by apply len_slice_le.
  (* every state reached has a view no longer than bs: run the loop with the potential len view *)
  match goal with |- context [for_range fuel c ?b (v0, []) 0] => change b with (tower_body0 fuel) end.
  pose proof (towers_loop_total fuel) as Hgen.
  destruct (Hgen fuel c (v0, []) 0 ltac:(cbn [fst]; lia) ltac:(pose proof (len_nonneg bs); lia)) as [Hno Hb].
  match goal with |- context [bind ?X _] => change X with (for_range fuel c (tower_body0 fuel) (v0, []) 0) end.
  destruct (for_range fuel c (tower_body0 fuel) (v0, []) 0) as [[s t]|e] eqn:El; cbn [bind]; cbv beta iota.
  - split; [discriminate|]. intros m t' H. cbv beta iota in H. apply Ok_inj in H.
    assert (Hm : er_towers m = snd s /\ t' = t) by (inversion H; split; reflexivity). destruct Hm as [Hm ->]. rewrite Hm.
    specialize (Hb _ _ eq_refl). cbn [fst snd] in Hb. pose proof (len_nonneg (fst s)). pose proof (len_nonneg (snd s)).
    change (len (@nil (list floor))) with 0 in Hb. unfold bytes in *.
    destruct (Z.le_gt_cases c 0) as [Hc|Hc].
    + rewrite Z.max_l in Hb by lia. lia.
    + assert (Hl : len v0 = Z.max 0 (len bs - (48 + 8 * c))) by (unfold v0; apply len_slice_from; lia).
      rewrite Z.max_r in Hb by lia. lia.
  - split; [|discriminate]. intros H. apply Hno. exact (raise_inj _ _ H).
Qed.

Theorem process_ept_map_result_total bs fuel : len bs < Z.of_nat fuel ->
  process_ept_map_result fuel bs <> Raise OutOfFuel /\
  forall port t, process_ept_map_result fuel bs = Ok (port, t) -> 0 <= t <= len bs.
Proof.
  intros Hf. destruct (ept_map_result_unpack_total bs fuel Hf) as [Hno Hb]. unfold process_ept_map_result.
  destruct (ept_map_result_unpack fuel bs) as [[m t]|e] eqn:E; cbn [bind].
  - specialize (Hb _ _ eq_refl). destruct (k_ept_status_bad (er_status m)); [split; discriminate|].
    destruct (first_tcp_port (er_towers m)); [|split; discriminate].
    split; [discriminate|]. intros port t' H. apply Ok_inj in H. assert (t' = t) by congruence. subst. tauto.
  - split; [|discriminate]. intros H. apply Hno. exact (raise_inj _ _ H).
Qed.
