(* C17: the NUMBER of operations in the regenerated conversation functions (the checking world of Flow/World_online.v constrains each
   operation's arguments, this constrains how many there are): exactly two connections, two binds, two requests, one GetKey stub, one
   result extraction each, and no loop or comprehension anywhere - so every call site runs at most once per call. *)
From V Require Import Prelude.PyAst Prelude.PySyntax gen.F_online.
From V Require Import Prelude.Base.
Local Open Scope string_scope.

Definition conversation_sites (create : string) (f : pfun) : list nat :=
  [count_calls create f; count_calls "bind" f; count_calls "request" f; count_calls "GetKey" f;
   count_calls "_process_bind_result" f; count_calls "_process_ept_map_result" f; count_calls "_process_get_key_result" f].

Lemma sync_get_key_sites :
  conversation_sites "create_rpc_connection" k_flow_sync_get_key = [2; 2; 2; 1; 2; 1; 1]%nat /\ loop_free k_flow_sync_get_key = true.
Proof. split; vm_compute; reflexivity. Qed.

Lemma async_get_key_sites :
  conversation_sites "async_create_rpc_connection" k_flow_async_get_key = [2; 2; 2; 1; 2; 1; 1]%nat /\ loop_free k_flow_async_get_key = true.
Proof. split; vm_compute; reflexivity. Qed.
