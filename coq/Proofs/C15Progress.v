(* C15: the handshake makes progress (continues exactly while the provider is incomplete and tokens keep coming), and the composition
   bind() ; _process_bind_result.  Lemmas behind C15_progress, C15_leg_count, C15_request_context. *)
From V Require Import Prelude.Base Prelude.PySlice gen.K_client gen.C_client Model.Handshake Proofs.C15.

(* a leg ends the handshake when the context is complete after it, or (for every leg but the first, whose token goes into the Bind
   whatever it is) when it yields an empty token *)
Definition is_nil {A} (l : list A) : bool := match l with [] => true | _ => false end.
Definition stops_here (later : bool) (lg : leg) : bool := leg_complete lg || (later && is_nil (leg_token lg)).
Fixpoint stop_index (later : bool) (legs : list leg) : option nat :=
  match legs with
  | [] => None
  | lg :: r => if stops_here later lg then Some 0%nat else option_map S (stop_index true r)
  end.

Lemma Run_count fctx legs c tk s r s' : Run fctx legs c tk s r s' -> r = Ok tt ->
  if c then steps s' = steps s
  else exists k, stop_index true legs = Some k /\ length (steps s') = (length (steps s) + S k)%nat.
Proof.
  induction 1 as [legs tk s|tk s|l ls tk s Ht|l ls tk s Ht Es|l ls tk s rp rest Ht Es Ex|l ls tk s rs fl tk' rest e Ht Es Hd Ea
                 |l ls tk s rs fl tk' rest acc r s' Ht Es Hd Ea HR IH]; intro Hr; try discriminate.
  - reflexivity.
  - exists 0%nat. cbn [stop_index]. unfold stops_here. rewrite Ht. cbn [is_nil andb]. rewrite orb_true_r.
    split; [reflexivity|]. rewrite snoc_step_steps, app_length. cbn [length]. lia.
  - specialize (IH Hr).
    assert (Hs1 : steps (acked fl (pop_server (step_sent fctx l tk s))) = steps s ++ [Some (or_empty tk)]).
    { rewrite acked_steps, pop_steps, step_sent_steps. reflexivity. }
    cbn [stop_index]. unfold stops_here. destruct (leg_token l) as [|x t] eqn:El; [contradiction|]. cbn [is_nil andb]. rewrite orb_false_r.
    destruct (leg_complete l).
    + exists 0%nat. split; [reflexivity|]. rewrite IH, Hs1, app_length. cbn [length]. lia.
    + destruct IH as (k & Hk & Hl). exists (S k). rewrite Hk. split; [reflexivity|].
      rewrite Hl, Hs1, app_length. cbn [length]. lia.
Qed.

(* C15_leg_count: a successful authenticated bind steps the provider exactly up to and including the first leg that ends the handshake *)
Theorem leg_count l ls srv ctxs rs s : bind_run true (l :: ls) srv ctxs = (Ok rs, s) ->
  stop_index false (l :: ls) = Some (length (steps s) - 1)%nat /\ (1 <= length (steps s))%nat.
Proof.
  intros H. apply bind_run_BindRun in H.
  inversion H as [Es|rp rest Es Ex|rs' fl tk rest e Es Hd Ea|rs' fl tk rest acc ru s0 Es Hd Ea HR Hru Hs]; subst; try discriminate.
  destruct ru as [[]|e]; [|discriminate].
  apply Run_count in HR; [|reflexivity]. rewrite bind_st_loop_steps in HR.
  cbn [stop_index]. unfold stops_here. cbn [andb]. rewrite orb_false_r.
  destruct (leg_complete l).
  - rewrite HR. cbn. auto.
  - destruct HR as (k & Hk & Hl). rewrite Hk, Hl. cbn [length option_map]. split; [f_equal; lia|lia].
Qed.

Lemma stop_index_sound later : forall legs k, stop_index later legs = Some k ->
  exists lg, nth_error legs k = Some lg /\ (leg_complete lg = true \/ ((later = true \/ (1 <= k)%nat) /\ leg_token lg = [])).
Proof.
  intros legs. revert later. induction legs as [|lg r IH]; intros later k H; [discriminate|].
  cbn [stop_index] in H. destruct (stops_here later lg) eqn:Es.
  - inversion H; subst. exists lg. split; [reflexivity|]. unfold stops_here in Es.
    destruct (leg_complete lg); [auto|]. cbn [orb] in Es. destruct later; [|discriminate]. cbn [andb] in Es.
    destruct (leg_token lg); [auto|discriminate].
  - destruct (stop_index true r) as [k'|] eqn:Ek; [|discriminate]. inversion H; subst.
    destruct (IH true k' Ek) as (lg' & Hn & Hc). exists lg'. split; [exact Hn|].
    destruct Hc as [Hc|[_ Hc]]; [auto|]. right. split; [right; lia|exact Hc].
Qed.

(* C15_progress: a bind that returns has driven the context to completion, or the provider stopped producing tokens: the LAST leg
   stepped is complete, or it is a later leg with an empty token *)
Theorem progress l ls srv ctxs rs s : bind_run true (l :: ls) srv ctxs = (Ok rs, s) ->
  exists lg, nth_error (l :: ls) (length (steps s) - 1) = Some lg /\
    (leg_complete lg = true \/ ((2 <= length (steps s))%nat /\ leg_token lg = [])).
Proof.
  intros H. destruct (leg_count _ _ _ _ _ _ H) as [Hc Hn].
  destruct (stop_index_sound _ _ _ Hc) as (lg & Hl & Hor). exists lg. split; [exact Hl|].
  destruct Hor as [Hor|[[Hf|Hk] Ht]]; [auto|discriminate|]. right. split; [lia|exact Ht].
Qed.

(* bind() then _process_bind_result (the order of _sync_get_key / _async_get_key: C17_flow_sync_get_key): the request that follows is
   issued on a context that THIS server's bind_ack accepted *)
Theorem bind_then_result auth legs srv ids desired rs s :
  bind_run auth legs srv ids = (Ok rs, s) -> process_bind_result ids rs desired = Ok tt ->
  exists fl tk rest i, srv = RBindAck rs fl tk :: rest /\ (i < length rs)%nat /\ nth i rs 1 = c_ACCEPTANCE /\
    index ids (Z.of_nat i) = Ok desired.
Proof.
  intros Hb Hp. destruct (bind_result_sound _ _ _ Hp) as (i & Hi & Hn & Hx).
  assert (Hs : exists fl tk rest, srv = RBindAck rs fl tk :: rest).
  { destruct auth.
    - destruct legs as [|l ls]; [unfold bind_run in Hb; cbn in Hb; discriminate|].
      exact (result_is_bind_ack _ _ _ _ _ _ Hb rs eq_refl).
    - destruct (anonymous _ _ _ _ _ Hb) as (_ & _ & _ & Hm).
      destruct srv as [|[rs' fl tk|? ? ?| | |] rest]; destruct Hm as [Hm _]; try discriminate.
      destruct (forallb result_code_ok rs'); [|discriminate]. apply Ok_inj in Hm. subst rs'. eauto. }
  destruct Hs as (fl & tk & rest & Hs). exists fl, tk, rest, i. auto.
Qed.
