(* The hypotheses of the concrete C10 corollaries (Proofs/C10Refine.v) are satisfiable: an instance under the guarded symbolic
   crypto symg.  A root key is loaded (the true one), the DC of this instance only ever hands out public envelopes (so its
   conformance obligations are vacuous; it answers explicit requests for the position asked), and a blob really protected at
   (L0, L1, L2) = (361, 31, 23) is unprotected: served from the loaded root key, for every network oracle. *)
From V Require Import Prelude.Base Prelude.PyAst Prelude.PyWorld Flow.World_cache Proofs.Flow_cache_public.
From V Require Import Model.Types Model.Crypto Model.Chain Model.KeyId Model.Gkdi Model.Kek Model.SecDesc Model.Blob Model.Client Model.Cache.
From V Require Import Spec.GkdiSpec Proofs.C01Lib Proofs.C10 Proofs.C10Refine.
Local Open Scope Z_scope.

Definition rx_rk : root_key :=
  {| rk_key := repeat 7 64; rk_version := 1; rk_kdf_alg := STR_KDF_ALG;
     rk_kdf_params := [0; 0; 0; 0; 1; 0; 0; 0; 14; 0; 0; 0; 0; 0; 0; 0; 83; 0; 72; 0; 65; 0; 53; 0; 49; 0; 50; 0; 0; 0];   (* "SHA512" *)
     rk_secret_alg := STR_DH; rk_secret_params := None; rk_priv_len := 512; rk_pub_len := 2048 |}.
Definition rx_rkid : bytes := repeat 5 16.
Definition rx_sid : pystr := ascii_str "S-1-5-21-1-2-3-500".
Definition rx_data : bytes := [100; 97; 116; 97].
Definition rx_B : bytes :=
  match protect_offline symg (cc_load cc_empty rx_rkid rx_rk) (repeat 1 32) (repeat 2 12) (repeat 3 32) rx_data rx_sid (Some rx_rkid)
          1700000000000000000 with (Ok B, _) => B | _ => [] end.
Definition rx_sd : bytes := match get_target_sd rx_sid with Ok x => x | Raise _ => [] end.
Definition rx_kid0 : key_identifier :=
  {| kid_version := 0; kid_flags := 0; kid_l0 := 0; kid_l1 := 0; kid_l2 := 0; kid_rkid := []; kid_key_info := []; kid_domain := []; kid_forest := [] |}.
Definition rx_b : blob :=
  match blob_unpack rx_B with
  | Ok b => b
  | Raise _ => {| b_key_identifier := rx_kid0; b_sid := []; b_enc_cek := []; b_enc_cek_algorithm := []; b_enc_cek_parameters := None;
                  b_enc_content := []; b_enc_content_algorithm := []; b_enc_content_parameters := None |}
  end.
(* a DC that only hands out public envelopes, for the position asked *)
Definition rx_dc (sd : bytes) (rko : option bytes) (l0 l1 l2 : Z) : envelope :=
  {| gke_version := 1; gke_flags := 1; gke_l0 := l0; gke_l1 := l1; gke_l2 := l2;
     gke_rkid := match rko with Some r => r | None => [] end;
     gke_kdf_alg := STR_KDF_ALG; gke_kdf_params := []; gke_secret_alg := STR_DH; gke_secret_params := [];
     gke_priv_len := 512; gke_pub_len := 2048; gke_domain := []; gke_forest := []; gke_l1_key := []; gke_l2_key := [] |}.
Definition rx_truth (_ : bytes) : root_key := rx_rk.
Definition rx_evs : list cevent := [CELoad rx_rkid rx_rk].

Lemma rx_asks : asks rx_B rx_b rx_sd /\ kid_rkid (b_key_identifier rx_b) = rx_rkid /\
  kid_l0 (b_key_identifier rx_b) = 361 /\ kid_l1 (b_key_identifier rx_b) = 31 /\ kid_l2 (b_key_identifier rx_b) = 23.
Proof.
  assert (E0 : kid_l0 (b_key_identifier rx_b) = 361) by (vm_compute; reflexivity).
  split; [|repeat split; vm_compute; reflexivity].
  split; [vm_compute; reflexivity|]. split; [vm_compute; reflexivity|]. unfold l0_ok. rewrite E0. lia.
Qed.
Lemma rx_good : Forall cev_ok rx_evs /\ Forall (cev_true rx_truth) rx_evs.
Proof.
  split; repeat constructor. exists (ascii_str "SHA512"), SHA512. split; vm_compute; reflexivity.
Qed.
Lemma rx_dc_explicit : cdc_explicit rx_dc.
Proof. intros sd rk l0 l1 l2 _ _ _. cbn. auto. Qed.
Lemma rx_dc_conforming : dc_conforming_ok (akdf symg SHA512) (al1seed symg) (adc_of rx_dc) (atruth rx_truth).
Proof.
  intros sd rko l0 l1 l2 e Hp. exfalso. subst e. unfold adc_of in Hp.
  destruct (coded sd && match rko with Some rk => coded rk | None => true end); cbn in Hp; discriminate.
Qed.
Lemma rx_served : c_served (crun symg rx_dc rx_evs) rx_rkid rx_sd 361 31 31.
Proof. right. exists rx_rk. vm_compute. reflexivity. Qed.

(* the conclusions, for this instance *)
Lemma rx_no_rpc : forall dns getkey server u p a,
  unprotect_online symg dns getkey (crun symg rx_dc rx_evs) rx_B server u p a = unprotect_offline symg (crun symg rx_dc rx_evs) rx_B.
Proof.
  destruct rx_asks as (HA & E1 & E2 & E3 & E4). destruct rx_good as (G1 & G2).
  destruct (concrete_no_repeat_rpc symg SHA512 rx_dc rx_truth rx_dc_conforming rx_evs [] rx_rkid rx_sd 361 31 31 31 23) as (_ & H).
  - rewrite app_nil_r. exact G1.
  - rewrite app_nil_r. exact G2.
  - exact rx_served.
  - right. lia.
  - rewrite app_nil_r in H. intros dns getkey server u p a. exact (H rx_B rx_b HA E1 E2 E3 E4 dns getkey server u p a).
Qed.
Lemma rx_plaintext : fst (unprotect_offline symg (crun symg rx_dc rx_evs) rx_B) = Ok rx_data.
Proof. vm_compute. reflexivity. Qed.

(* the envelope the call works with (built from the loaded root key), and C10_concrete_transparent for it *)
Definition rx_env : envelope :=
  match unprotect_envelope symg dns_of (getkey_of rx_dc) (crun symg rx_dc rx_evs) rx_B None VN VN VN with
  | Ok e => e
  | Raise _ => rx_dc [] None 0 0 0
  end.
Lemma rx_env_hash : envelope_hash rx_env = Ok SHA512.
Proof. vm_compute. reflexivity. Qed.
Lemma rx_transparent :
  fst (unprotect_online symg dns_of (getkey_of rx_dc) (crun symg rx_dc rx_evs) rx_B None VN VN VN) = decrypt_blob symg rx_b rx_env /\
  gke_l0 rx_env = 361 /\
  compute_l2_key symg SHA512 31 23 rx_env
  = key_at (akdf symg SHA512) (al1seed symg) (atruth rx_truth) (code rx_rkid) (code rx_sd) 361 31 23.
Proof.
  destruct rx_asks as (HA & E1 & E2 & E3 & E4). destruct rx_good as (G1 & G2).
  pose proof (concrete_transparent symg SHA512 rx_dc rx_truth rx_dc_conforming (adc_explicit rx_dc rx_dc_explicit)
                rx_evs rx_B rx_b rx_sd None VN VN VN rx_env G1 G2 HA) as T.
  cbv zeta in T. rewrite E1, E2, E3, E4 in T.
  destruct T as (T1 & T2 & T3 & _); try lia; try exact rx_env_hash; try (vm_compute; reflexivity). auto.
Qed.

(* why C10_concrete_transparent asks envelope_hash rk = Ok h: instantiate the abstract kdf with SHA256 on this instance, whose
   envelope names SHA512.  Every OTHER hypothesis still holds (the DC is the same public-only one, conformance is vacuous), but the
   chain key of the SHA256 instantiation is not the L2 key the call derives *)
Lemma rx_dc_conforming_256 : dc_conforming_ok (akdf symg SHA256) (al1seed symg) (adc_of rx_dc) (atruth rx_truth).
Proof.
  intros sd rko l0 l1 l2 e Hp. exfalso. subst e. unfold adc_of in Hp.
  destruct (coded sd && match rko with Some rk => coded rk | None => true end); cbn in Hp; discriminate.
Qed.
Lemma rx_wrong_hash :
  envelope_hash rx_env <> Ok SHA256 /\
  compute_l2_key symg SHA512 31 23 rx_env
  <> key_at (akdf symg SHA256) (al1seed symg) (atruth rx_truth) (code rx_rkid) (code rx_sd) 361 31 23.
Proof. split; vm_compute; discriminate. Qed.

(* ---- a DC that hands out PRIVATE material: the (31, 31) seed envelope of the true root key for the requested (SD, root key id,
   L0) (L0 361 for "the current key"); public when the KDF context cannot be built (an L0 outside the signed 32-bit range).  Its
   conformance is NOT vacuous.  No root key is loaded: the first unprotect asks the DC, the cache keeps the seed envelope, and
   C10_concrete_no_repeat_rpc fires on RPC-obtained material. ---- *)
Definition sx_dc (sd : bytes) (rko : option bytes) (l0 l1 l2 : Z) : envelope :=
  let rkid := match rko with Some r => r | None => rx_rkid end in
  let p0 := if l0 =? -1 then 361 else l0 in
  match compute_l1_key symg SHA512 sd rkid p0 (rk_key rx_rk) with
  | Ok k1 =>
    match kdfK symg SHA512 rkid p0 (Ok k1) 31 31 with
    | Ok k2 =>
      {| gke_version := 1; gke_flags := 2; gke_l0 := p0; gke_l1 := 31; gke_l2 := 31; gke_rkid := rkid;
         gke_kdf_alg := STR_KDF_ALG; gke_kdf_params := rk_kdf_params rx_rk; gke_secret_alg := STR_DH; gke_secret_params := [];
         gke_priv_len := 512; gke_pub_len := 2048; gke_domain := []; gke_forest := []; gke_l1_key := k1; gke_l2_key := k2 |}
    | Raise _ => rx_dc sd rko l0 l1 l2
    end
  | Raise _ => rx_dc sd rko l0 l1 l2
  end.
Definition sx_evs : list cevent := [CEUnprotect rx_B None VN VN VN].

Lemma rx_rk_hash : KDFParameters_unpack (rk_kdf_params rx_rk) = Ok (ascii_str "SHA512") /\ hash_algorithm (ascii_str "SHA512") = Ok SHA512.
Proof. split; vm_compute; reflexivity. Qed.

Lemma sx_dc_conforming : dc_conforming_ok (akdf symg SHA512) (al1seed symg) (adc_of sx_dc) (atruth rx_truth).
Proof.
  intros sd rko l0 l1 l2 e Hp. subst e. unfold adc_of in *.
  destruct (coded sd && match rko with Some rk => coded rk | None => true end) eqn:EC; [|cbn in Hp; discriminate].
  assert (Esd : code (dec sd) = sd) by (unfold coded in EC; lia).
  assert (Erk : code (match option_map dec rko with Some r => r | None => rx_rkid end)
                = match rko with Some rk => rk | None => code rx_rkid end)
    by (destruct rko as [rk|]; cbn [option_map]; [unfold coded in EC; lia|reflexivity]).
  unfold sx_dc in *.
  set (rkid := match option_map dec rko with Some r => r | None => rx_rkid end) in *.
  set (p0 := if l0 =? -1 then 361 else l0) in *.
  destruct (compute_l1_key symg SHA512 (dec sd) rkid p0 (rk_key rx_rk)) as [k1|] eqn:E1; [|cbn in Hp; discriminate].
  destruct (kdfK symg SHA512 rkid p0 (Ok k1) 31 31) as [k2|] eqn:E2; [|cbn in Hp; discriminate].
  cbn [abs_env c_rk c_l0 c_l1 c_l2 c_k1 c_k2 gke_rkid gke_l0 gke_l1 gke_l2 gke_l1_key gke_l2_key cenv_env e_l1 e_l2 e_l1key e_l2key].
  assert (TOP : top (al1seed symg) (atruth rx_truth) (code rkid) sd p0 = Ok k1).
  { unfold top, al1seed, atruth, rx_truth. destruct rx_rk_hash as [-> Hh]. cbn [bind]. rewrite Hh. cbn [bind]. rewrite dec_code. exact E1. }
  split; [easy|]. split; [easy|]. split.
  - unfold GkdiSpec.conforming. cbn [cenv_env abs_env c_l1 c_l2 c_k1 c_k2 gke_l1 gke_l2 gke_l1_key gke_l2_key e_l1 e_l2 e_l1key e_l2key]. split; [easy|]. split; [easy|]. split; [|intros X; exfalso; apply X; reflexivity].
    intros _. rewrite TOP. reflexivity.
  - rewrite TOP. change (GkdiSpec.K2 (akdf symg SHA512 (code rkid) p0) (Ok k1) 31 31) with (akdf symg SHA512 (code rkid) p0 (Ok k1) 31 31).
    unfold akdf. rewrite dec_code. symmetry. exact E2.
Qed.

Lemma sx_ok : Forall cev_ok sx_evs /\ Forall (cev_true rx_truth) sx_evs.
Proof. split; repeat constructor. exists rx_b, rx_sd. exact (proj1 rx_asks). Qed.

(* the cache after the first call holds the DC's seed envelope for (rx_rkid, rx_sd, 361) *)
Definition sx_entry : envelope :=
  match cc_find_seed (cc_seeds (crun symg sx_dc sx_evs)) (rx_rkid, rx_sd, 361) with Some e => e | None => rx_dc [] None 0 0 0 end.
Lemma sx_served : c_served (crun symg sx_dc sx_evs) rx_rkid rx_sd 361 31 31 /\ cc_roots (crun symg sx_dc sx_evs) = [].
Proof.
  split; [|vm_compute; reflexivity]. left. exists sx_entry. split; [vm_compute; reflexivity|]. right. split; vm_compute; [reflexivity|discriminate].
Qed.
(* ... so the next unprotect of the blob (position (31, 23) <= (31, 31)) is the offline function, for every network oracle, and returns the plaintext *)
Lemma sx_no_rpc : forall dns getkey server u p a,
  unprotect_online symg dns getkey (crun symg sx_dc sx_evs) rx_B server u p a = unprotect_offline symg (crun symg sx_dc sx_evs) rx_B.
Proof.
  destruct rx_asks as (HA & E1 & E2 & E3 & E4). destruct sx_ok as (G1 & G2).
  destruct (concrete_no_repeat_rpc symg SHA512 sx_dc rx_truth sx_dc_conforming sx_evs [] rx_rkid rx_sd 361 31 31 31 23) as (_ & H).
  - rewrite app_nil_r. exact G1.
  - rewrite app_nil_r. exact G2.
  - exact (proj1 sx_served).
  - right. lia.
  - rewrite app_nil_r in H. intros dns getkey server u p a. exact (H rx_B rx_b HA E1 E2 E3 E4 dns getkey server u p a).
Qed.
Lemma sx_plaintext : fst (unprotect_offline symg (crun symg sx_dc sx_evs) rx_B) = Ok rx_data.
Proof. vm_compute. reflexivity. Qed.
