(* C16: the stub handed to the caller IS the plaintext the security context returned for the sealed region, for the shape of the real
   call: the header decoded from the reply itself, the client's stub offset 24, a context whose unwrap keeps the body length. *)
From V Require Import Prelude.Base Prelude.PyInt Prelude.PySlice gen.K_client gen.C_client gen.C_rpc gen.K_rpc.
From V Require Import Model.Pdu Model.Request Model.RpcDispatch Model.Seal Proofs.C16.
Local Open Scope Z_scope.

Lemma index_app_l {A} (a b : list A) i : 0 <= i < len a -> index (a ++ b) i = index a i.
Proof.
  intro H. unfold index. rewrite len_app. pose proof (len_nonneg b).
  destruct (Z.ltb_spec i 0); [lia|].
  replace ((0 <=? i) && (i <? len a + len b)) with true by lia. replace ((0 <=? i) && (i <? len a)) with true by lia.
  rewrite nth_error_app1; [reflexivity|]. unfold len in H. lia.
Qed.

Lemma slice_app_within {A} (a b : list A) x y : 0 <= x <= y -> y <= len a ->
  slice (Some x) (Some y) (a ++ b) = slice (Some x) (Some y) a.
Proof.
  intros H1 H2. unfold slice, norm. rewrite len_app. pose proof (len_nonneg b).
  destruct (Z.ltb_spec x 0); [lia|]. destruct (Z.ltb_spec y 0); [lia|].
  rewrite !Z.min_l by lia. rewrite skipn_app, firstn_app.
  replace (Z.to_nat (y - x) - length (skipn (Z.to_nat x) a))%nat with 0%nat
    by (rewrite skipn_length; unfold len in *; lia).
  cbn [firstn]. now rewrite app_nil_r.
Qed.

Lemma slice_whole_tail {A} (a b : list A) : slice (Some (len a)) (Some (len (a ++ b))) (a ++ b) = b.
Proof.
  replace (a ++ b) with (a ++ b ++ []) at 2 by now rewrite app_nil_r.
  apply slice_mid; [reflexivity|]. rewrite len_app. reflexivity.
Qed.

Lemma slice_neg_tail {A} (m t : list A) : 0 < len t -> slice None (Some (- len t)) (m ++ t) = m.
Proof.
  intro H. unfold slice, norm. rewrite len_app. pose proof (len_nonneg m).
  destruct (Z.ltb_spec (- len t) 0); [|lia].
  replace (Z.max 0 (len m + len t + - len t) - 0) with (len m) by lia.
  cbn [skipn Z.to_nat]. unfold len. rewrite Nat2Z.id, firstn_app, Nat.sub_diag, firstn_all. cbn [firstn]. now rewrite app_nil_r.
Qed.

(* the header decoder reads only the first 16 octets *)
Lemma pdu_header_unpack_prefix (h16 x y : bytes) : len h16 = 16 -> pdu_header_unpack (h16 ++ x) = pdu_header_unpack (h16 ++ y).
Proof.
  intro H. unfold pdu_header_unpack.
  rewrite !(index_app_l h16 x), !(index_app_l h16 y) by lia.
  rewrite !(slice_app_within h16 x), !(slice_app_within h16 y) by lia. reflexivity.
Qed.

Lemma skipn_skipn' {A} (a b : nat) (l : list A) : skipn a (skipn b l) = skipn (a + b) l.
Proof.
  revert l. induction b as [|b IH]; intro l; [now rewrite Nat.add_0_r|].
  destruct l; [now rewrite !skipn_nil|]. rewrite Nat.add_succ_r. cbn [skipn]. apply IH.
Qed.

Lemma header_fields_nonneg resp hdr : wfb resp = true -> pdu_header_unpack resp = Ok hdr -> 0 <= h_auth_len hdr.
Proof.
  intros Hw H. unfold pdu_header_unpack in H.
  repeat match type of H with (let* _ := ?x in _) = _ => destruct x; cbn [bind] in H; [|discriminate] end.
  apply Ok_inj in H. subst hdr. cbn [h_auth_len].
  apply le_val_range. apply wfb_slice. exact Hw.
Qed.

Section Stub.
Variable unwrap : unwrap_fn.

Theorem stub_is_unsealed_plaintext o1 sign hdr resp r :
  (forall h b t sg s d, unwrap h b t sg s = Ok d -> len d = len b) ->
  wfb resp = true ->
  pdu_header_unpack resp = Ok hdr ->
  h_frag_len hdr = len resp ->
  24 <= h_frag_len hdr - (h_auth_len hdr + 8) ->
  process_response unwrap true (Some (24, o1)) sign hdr resp = Ok r ->
  let a := unwrap_slices hdr 24 sign resp in
  exists dec, unwrap (ua_header a) (ua_body a) (ua_trailer a) (ua_signature a) sign = Ok dec /\ rs_stub_data r = dec.
Proof.
  intros Hlen Hw Hh Hfl Hoff Hp. cbv zeta.
  pose proof (header_fields_nonneg _ _ Hw Hh) as Hal.
  destruct (sealed_only unwrap 24 o1 sign hdr resp r Hp) as (Hne & dec & Hu & body & h & st & Hs & Ht & Hr).
  cbv zeta in Hu. exists dec. split; [exact Hu|].
  set (n := len resp) in *. set (al := h_auth_len hdr) in *. set (off := h_frag_len hdr - (al + 8)) in *.
  assert (Hoffn : off = n - (al + 8)) by (unfold off; lia).
  (* resp = H16 ++ H8 ++ B ++ T *)
  set (H16 := firstn 16 resp). set (H8 := firstn 8 (skipn 16 resp)).
  set (B := firstn (Z.to_nat (off - 24)) (skipn 24 resp)). set (T := skipn (Z.to_nat off) resp).
  assert (Hl16 : len H16 = 16) by (unfold H16, len in *; rewrite firstn_length; lia).
  assert (Hl8 : len H8 = 8) by (unfold H8, len in *; rewrite firstn_length, skipn_length; lia).
  assert (HlB : len B = off - 24) by (unfold B, len in *; rewrite firstn_length, skipn_length; lia).
  assert (HlT : len T = al + 8) by (unfold T, len in *; rewrite skipn_length; lia).
  assert (Hresp : resp = H16 ++ H8 ++ B ++ T).
  { unfold H16, H8, B, T.
    rewrite <- (firstn_skipn 16 resp) at 1. f_equal.
    rewrite <- (firstn_skipn 8 (skipn 16 resp)) at 1. f_equal.
    rewrite skipn_skipn'. change (8 + 16)%nat with 24%nat.
    rewrite <- (firstn_skipn (Z.to_nat (off - 24)) (skipn 24 resp)) at 1. f_equal.
    rewrite skipn_skipn'. f_equal. lia. }
  (* what unwrap got as body, hence the length of dec *)
  assert (Hbody : ua_body (unwrap_slices hdr 24 sign resp) = B).
  { unfold unwrap_slices. cbn [ua_body]. unfold k_sec_trailer_offset. fold al. fold off.
    rewrite Hresp at 1. rewrite (app_assoc H16 H8). apply slice_mid; [rewrite len_app; lia|rewrite len_app; lia]. }
  pose proof (Hlen _ _ _ _ _ _ Hu) as Hld. rewrite Hbody, HlB in Hld.
  (* the reply after the write-back *)
  assert (Hnew : assign_slice resp 24 off dec = H16 ++ H8 ++ dec ++ T).
  { unfold assign_slice. fold n. unfold norm.
    destruct (Z.ltb_spec 24 0); [lia|]. destruct (Z.ltb_spec off 0); [lia|].
    rewrite !Z.min_l by lia. rewrite Z.max_r by lia.
    rewrite (app_assoc H16 H8). f_equal.
    rewrite Hresp. rewrite (app_assoc H16 H8). rewrite firstn_app.
    replace (Z.to_nat 24 - length (H16 ++ H8))%nat with 0%nat by (rewrite app_length; unfold len in *; lia).
    cbn [firstn]. rewrite app_nil_r. apply firstn_all2. rewrite app_length. unfold len in *. lia. }
  replace (h_frag_len hdr - (h_auth_len hdr + 8)) with off in Hs by reflexivity. rewrite Hnew in Hs.
  unfold pdu_split in Hs.
  rewrite (pdu_header_unpack_prefix H16 _ (H8 ++ B ++ T) Hl16), <- Hresp, Hh in Hs. cbn [bind] in Hs.
  assert (Hln : h_frag_len hdr = len (H16 ++ H8 ++ dec ++ T)) by (rewrite !len_app; lia).
  rewrite Hln in Hs.
  assert (Hv : slice (Some 16) (Some (len (H16 ++ H8 ++ dec ++ T))) (H16 ++ H8 ++ dec ++ T) = H8 ++ dec ++ T)
    by (rewrite <- Hl16 at 1; apply slice_whole_tail).
  rewrite Hv in Hs.
  unfold k_pdu_has_trailer in Hs. fold al in Hs.
  replace (negb (al =? 0)) with true in Hs by lia.
  destruct (sec_trailer_unpack _) as [st'|e]; [|discriminate]. cbn [bind] in Hs.
  apply Ok_inj in Hs. inversion Hs; subst body h st. clear Hs.
  rewrite <- HlT in Hr. rewrite (app_assoc H8 dec T), slice_neg_tail in Hr by lia.
  unfold response_unpack in Hr. destruct (index _ 6); [|discriminate]. cbn [bind] in Hr.
  apply Ok_inj in Hr. subst r. cbn [rs_stub_data]. rewrite <- Hl8. apply slice_app_r.
Qed.

End Stub.

(* ---- an IDEAL security context: unwrap succeeds only on what the peer's context sealed ------------------------------------------
   sealed_by h d t s b sg : "for this sequence number the peer's wrap, given plaintext d (and header h / trailer t, which it covers when
   s = sign_header is set), produced the sealed body b and the signature sg". *)
Definition sealed_rel := bytes -> bytes -> bytes -> bool -> bytes -> bytes -> Prop.
Definition ideal_unwrap (sealed_by : sealed_rel) (unwrap : unwrap_fn) : Prop :=
  forall h b t sg s d, unwrap h b t sg s = Ok d -> sealed_by h d t s b sg.

(* whatever the peer's context did not produce -- an altered sealed body or signature, or (through sealed_by's dependence on h and t
   under signing) an altered header or trailer -- is rejected *)
Theorem altered_rejected_ideal (sealed_by : sealed_rel) (unwrap : unwrap_fn) o0 o1 sign hdr resp :
  ideal_unwrap sealed_by unwrap ->
  (let a := unwrap_slices hdr o0 sign resp in
   forall d, ~ sealed_by (ua_header a) d (ua_trailer a) sign (ua_body a) (ua_signature a)) ->
  exists e, process_response unwrap true (Some (o0, o1)) sign hdr resp = Raise e.
Proof.
  intros Hi Hn. destruct (process_response unwrap true (Some (o0, o1)) sign hdr resp) as [r|e] eqn:E; [|eauto].
  exfalso. destruct (sealed_only unwrap o0 o1 sign hdr resp r E) as (_ & dec & Hu & _). cbv zeta in Hu, Hn.
  exact (Hn dec (Hi _ _ _ _ _ _ Hu)).
Qed.

(* the toy context of the correspondence checks (Model/Toy.v) keeps the body length and is ideal for its own wrap *)
From V Require Import Model.Toy.
Lemma toy_enc_len b : len (toy_enc b) = len b.
Proof. unfold toy_enc, len. now rewrite map_length. Qed.
Lemma toy_enc_invol b : toy_enc (toy_enc b) = b.
Proof.
  unfold toy_enc. rewrite map_map. rewrite <- (map_id b) at 2. apply map_ext. intro x.
  rewrite Z.lxor_assoc, Z.lxor_nilpotent, Z.lxor_0_r. reflexivity.
Qed.
Lemma beq_eq a : forall b, beq a b = true -> a = b.
Proof.
  induction a as [|x a IH]; intros [|y b] H; cbn in H; try discriminate; [reflexivity|].
  apply andb_true_iff in H as [H1 H2]. apply Z.eqb_eq in H1. subst. f_equal. auto.
Qed.
Lemma toy_unwrap_keeps_length seq h b t sg s d : toy_unwrap seq h b t sg s = Ok d -> len d = len b.
Proof. unfold toy_unwrap. destruct (_ && _); [|discriminate]. intro H. apply Ok_inj in H. subst. apply toy_enc_len. Qed.
Lemma toy_unwrap_ideal seq :
  ideal_unwrap (fun h d t s b sg => toy_wrap seq (len sg) h d t s = (b, sg)) (toy_unwrap seq).
Proof.
  intros h b t sg s d H. unfold toy_unwrap in H. destruct (beq sg _ && _) eqn:E; [|discriminate].
  apply Ok_inj in H. subst d. apply andb_true_iff in E as [E _]. apply beq_eq in E.
  unfold toy_wrap. rewrite toy_enc_invol. f_equal. symmetry. exact E.
Qed.
