(* Tie theorems (encrypt side: cek_encrypt, content_encrypt, cek_generate, _encrypt_blob): the regenerated syntax (gen/F_e2e.v),
   run in the world Flow/World_e2e.v, computes exactly the hand-written model functions the C01/C19 theorems are about.
   cek_generate and _encrypt_blob run in the world WR, in which the three random draws (AESGCM.generate_key(256), os.urandom(12),
   the os.urandom inside key.new_kek()) return the explicit arguments rnd_cek rnd_iv rnd_kek of the model functions. *)
From V Require Import Prelude.Base Prelude.PyAst Prelude.PyWorld gen.F_e2e gen.K_asn1.
From V Require Import Model.Types Model.Crypto Model.Kek Model.Asn1 Model.Pkcs7 Model.Blob Model.CryptoWrap Model.Client Flow.World_e2e.
Local Open Scope string_scope.
Local Open Scope list_scope.
Local Open Scope Z_scope.

Local Arguments len : simpl never.

Definition lift (r : res bytes) : res (pv obj) := let* b := r in Ok (VB b).

Lemma flow_cek_encrypt c fuel a p kek v :
  run (W c) fuel k_flow_cek_encrypt [VO (OOid a); vopt_bytes p; VB kek; VB v] = lift (cek_encrypt c a p kek v).
Proof.
  unfold cek_encrypt, lift. cbn. destruct (oid_eqb a _); cbn; [|reflexivity].
  destruct (kw_wrap c kek v); reflexivity.
Qed.

Lemma flow_content_encrypt c fuel a p cek v :
  run (W c) fuel k_flow_content_encrypt [VO (OOid a); vopt_bytes p; VB cek; VB v] = lift (content_encrypt c a p cek v).
Proof.
  unfold content_encrypt, gcm_iv_of_parameters, lift, truthy. cbn.
  destruct (oid_eqb a _); cbn; [|reflexivity].
  destruct p as [p|]; cbn; [|reflexivity].
  destruct p as [|x p]; cbn; [reflexivity|].
  rewrite len_cons. replace (1 + len p =? 0) with false by (pose proof (len_nonneg p); lia). cbn.
  destruct (read_sequence (x :: p) None None) as [[content rest]|e]; cbn; [|reflexivity].
  destruct (read_octet_string content None None) as [[iv rest']|e]; cbn; [|reflexivity].
  destruct (gcm_enc c cek iv v); reflexivity.
Qed.

(* ---- cek_generate, _encrypt_blob (world WR) *)
Definition lift_pair (r : res (bytes * bytes)) : res (pv obj) := let* (a, b) := r in Ok (VT [VB a; VB b]).

Lemma flow_cek_generate c rnd_cek rnd_iv rnd_kek time_ns fuel a :
  run (WR c rnd_cek rnd_iv rnd_kek time_ns) fuel k_flow_cek_generate [VO (OOid a)] = lift_pair (cek_generate a rnd_cek rnd_iv).
Proof.
  unfold cek_generate, lift_pair. cbn. destruct (oid_eqb a _); cbn; reflexivity.
Qed.

Lemma oid_eqb_refl a : oid_eqb a a = true.
Proof. induction a as [|x a IH]; cbn [oid_eqb]; [reflexivity|]. rewrite Z.eqb_refl, IH. reflexivity. Qed.

Lemma int16 : pack_int_content 16 = Ok [16].
Proof. vm_compute. reflexivity. Qed.

(* the GCM parameters as the writer calls build them: two TLVs appended to the child's buffer, wrapped at __exit__ *)
Lemma gcm_parameters_writer iv :
  gcm_parameters iv =
  (let* x := pack_octet_string iv None in let* y := pack_integer 16 None in pack_tlv seq_tag (([] ++ x) ++ y)).
Proof.
  unfold gcm_parameters, a_int, pack_integer, pack_octet_string, a_seq, a_octets. change k_gcm_icv_len with 16. rewrite int16.
  cbn [bind encode]. destruct (pack_tlv _ iv) as [x|e]; cbn [bind]; [|reflexivity].
  destruct (pack_tlv _ [16]) as [y|e]; cbn [bind]; [|reflexivity].
  rewrite app_nil_r. reflexivity.
Qed.

Local Opaque oid_aes256_wrap oid_aes256_gcm pack_tlv pack_octet_string pack_integer blob_pack content_encrypt cek_encrypt new_kek_rnd seq_tag.

(* blob : bytes, key : GroupKeyEnvelope, protection_descriptor : SIDDescriptor(sid) *)
Lemma flow_encrypt_blob c rnd_cek rnd_iv rnd_kek time_ns fuel data key sid :
  run (WR c rnd_cek rnd_iv rnd_kek time_ns) fuel k_flow_encrypt_blob [VB data; VO (OEnv key); VO (OSid sid)]
  = lift (encrypt_blob c rnd_cek rnd_iv rnd_kek data key sid).
Proof.
  unfold encrypt_blob, encrypt_blob_fields, lift.
  unfold cek_generate. rewrite oid_eqb_refl. cbn [bind]. rewrite !(gcm_parameters_writer rnd_iv).
  cbn. unfold cek_generate. rewrite oid_eqb_refl. cbn.
  destruct (pack_octet_string rnd_iv None) as [x|e]; cbn; [|reflexivity].
  destruct (pack_integer 16 None) as [y|e]; cbn; [|reflexivity].
  destruct (pack_tlv seq_tag _) as [p|e]; cbn; [|reflexivity].
  destruct (content_encrypt c _ _ rnd_cek data) as [ec|e]; cbn; [|reflexivity].
  destruct (new_kek_rnd c key rnd_kek) as [[kek kid]|e]; cbn; [|reflexivity].
  destruct (cek_encrypt c _ _ kek rnd_cek) as [ek|e]; cbn; [|reflexivity].
  destruct (blob_pack _ true); reflexivity.
Qed.
