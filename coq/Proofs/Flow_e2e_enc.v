(* Tie theorems (encrypt side: cek_encrypt, content_encrypt): the regenerated syntax (gen/F_e2e.v), run in the
   world Flow/World_e2e.v, computes exactly the hand-written model functions the C01/C04 theorems are about. *)
From V Require Import Prelude.Base Prelude.PyAst Prelude.PyWorld gen.F_e2e.
From V Require Import Model.Types Model.Crypto Model.Kek Model.Asn1 Model.Pkcs7 Model.Blob Model.CryptoWrap Model.Client Flow.World_e2e.
Local Open Scope string_scope.
Local Open Scope list_scope.
Local Open Scope Z_scope.

Arguments len : simpl never.

Definition lift (r : res bytes) : res (pv obj) := let* b := r in Ok (VB b).

Lemma flow_cek_encrypt c fuel a p kek v :
  run (W c) fuel k_flow_cek_encrypt [VO (OOid a); vopt_bytes p; VB kek; VB v] = lift (cek_encrypt c a p kek v).
Proof.
  unfold cek_encrypt, lift. cbn. destruct (oid_eqb a _); cbn; [|reflexivity].
  destruct (kw_wrap c kek v); reflexivity.
Qed.

Lemma flow_content_encrypt c fuel a p cek v :
  run (W c) fuel k_flow_content_encrypt [VO (OOid a); vopt_bytes p; VB cek; VB v] = lift (content_encrypt c a p cek v).
Proof.
  unfold content_encrypt, gcm_iv_of_parameters, lift, truthy. cbn.
  destruct (oid_eqb a _); cbn; [|reflexivity].
  destruct p as [p|]; cbn; [|reflexivity].
  destruct p as [|x p]; cbn; [reflexivity|].
  rewrite len_cons. replace (1 + len p =? 0) with false by (pose proof (len_nonneg p); lia). cbn.
  destruct (read_sequence (x :: p) None None) as [[content rest]|e]; cbn; [|reflexivity].
  destruct (read_octet_string content None None) as [[iv rest']|e]; cbn; [|reflexivity].
  destruct (gcm_enc c cek iv v); reflexivity.
Qed.
