(* C08: what the regenerated kernels of gen/K_sd.v and the byte vectors of gen/C_sd.v mean. *)
From V Require Import Prelude.Base Prelude.PyInt gen.K_sd gen.C_sd Model.Types Model.SecDesc.

Lemma auth_range_test a : k_sid_auth_bad a = negb (a <? 2 ^ 48).
Proof. unfold k_sid_auth_bad. lia. Qed.
Lemma sub_range_test x : k_sid_sub_bad x = negb (x <? 2 ^ 32).
Proof. unfold k_sid_sub_bad. lia. Qed.

Lemma kernel_constants :
  k_sid_split_sep = [45] /\ k_sid_first_sub = 3 /\
  k_sid_auth_width = 8 /\ k_sid_auth_order = [98; 105; 103] /\
  k_sid_sub_width = 4 /\ k_sid_sub_order = [108; 105; 116; 116; 108; 101] /\
  k_ace_mask_width = 4 /\ k_ace_mask_order = [108; 105; 116; 116; 108; 101] /\
  k_sd_header_len = 20 /\ k_sd_control0 = 32768 /\ k_sd_sacl_off0 = 0 /\ k_sd_dacl_off0 = 0 /\
  k_sd_control_sacl k_sd_control0 = 32768 + 16 /\ k_sd_control_dacl k_sd_control0 = 32768 + 4 /\
  k_sd_control_dacl (k_sd_control_sacl k_sd_control0) = 32768 + 16 + 4 /\
  (forall o n, k_sd_off_sacl o n = o + n) /\ (forall o n, k_sd_off_dacl o n = o + n) /\ (forall o n, k_sd_off_owner o n = o + n) /\
  k_tsd_owner = [83; 45; 49; 45; 53; 45; 49; 56] /\ k_tsd_group = [83; 45; 49; 45; 53; 45; 49; 56] /\
  k_tsd_everyone = [83; 45; 49; 45; 49; 45; 48] /\ k_tsd_mask_target = 3 /\ k_tsd_mask_everyone = 2.
Proof.
  repeat match goal with |- _ /\ _ => split end; reflexivity.
Qed.
