(* C11 (shared with C06): KeyIdentifier.unpack (KeyIdentifier.pack k) = k for every well-formed k. *)
From V Require Import Prelude.Base Prelude.PyInt Prelude.PySlice Prelude.PyStr.
From V Require Import gen.C_gkdi Model.Types Model.KeyId Proofs.GkdiLib.

Definition wf_kid (k : key_identifier) : bool :=
  u32b (kid_version k) && u32b (kid_flags k) && u32b (kid_l0 k) && u32b (kid_l1 k) && u32b (kid_l2 k) &&
  (len (kid_rkid k) =? 16) && u32b (len (kid_key_info k)) &&
  wfstr (kid_domain k) && wfstr (kid_forest k) &&
  u32b (utf16_len (kid_domain k) + 2) && u32b (utf16_len (kid_forest k) + 2).

Definition kid_field_list (k : key_identifier) (bd bf : bytes) : list bytes :=
  [ le 4 (kid_version k); c_KEYID_MAGIC; le 4 (kid_flags k); le 4 (kid_l0 k); le 4 (kid_l1 k); le 4 (kid_l2 k);
    kid_rkid k; le 4 (len (kid_key_info k)); le 4 (len bd + 2); le 4 (len bf + 2);
    kid_key_info k; bd ++ [0; 0]; bf ++ [0; 0] ].

Lemma KeyIdentifier_fields_ok k : wf_kid k = true -> exists bd bf,
  utf16le_encode (kid_domain k) = Ok bd /\ utf16le_encode (kid_forest k) = Ok bf /\
  u32b (len bd + 2) = true /\ u32b (len bf + 2) = true /\
  KeyIdentifier_fields k = Ok (kid_field_list k bd bf).
Proof.
  unfold wf_kid. rewrite !andb_true_iff. intros [[[[[[[[[[Hv Hf] H0] H1] H2] Hr] Hk] Hd] Hfo] Hdl] Hfl].
  destruct (encode_utf16z_ok _ Hd) as (bd & Ebd & Ezd & Ld).
  destruct (encode_utf16z_ok _ Hfo) as (bf & Ebf & Ezf & Lf).
  exists bd, bf. rewrite Ld, Lf. repeat (split; [assumption|]).
  unfold KeyIdentifier_fields. rewrite Ezd, Ezf. cbn [bind].
  rewrite !to_bytes_le_ok by (rewrite ?len_utf16z, ?Ld, ?Lf; apply u32b_P4; assumption).
  cbn [bind]. unfold kid_field_list. rewrite !len_utf16z. reflexivity.
Qed.

Lemma len_KEYID_MAGIC : len c_KEYID_MAGIC = 4. Proof. reflexivity. Qed.

Ltac off_side := cbn [off nth length]; rewrite ?len_le, ?len_KEYID_MAGIC; cbn [Z.of_nat Pos.of_succ_nat Pos.succ]; lia.

Theorem KeyIdentifier_roundtrip k : wf_kid k = true ->
  exists b, KeyIdentifier_pack k = Ok b /\ KeyIdentifier_unpack b = Ok k.
Proof.
  intros Hwf. destruct (KeyIdentifier_fields_ok k Hwf) as (bd & bf & Ebd & Ebf & Hdl & Hfl & Hfs).
  unfold wf_kid in Hwf. rewrite !andb_true_iff in Hwf.
  destruct Hwf as [[[[[[[[[[Hv Hf] H0] H1] H2] Hr] Hk] Hd] Hfo] _] _].
  assert (Hr16 : len (kid_rkid k) = 16) by lia.
  exists (concat (kid_field_list k bd bf)). split.
  - unfold KeyIdentifier_pack. rewrite Hfs. reflexivity.
  - unfold KeyIdentifier_unpack. cbv zeta. rewrite (slice_none_lo (Some 4)).
    set (fs := kid_field_list k bd bf).
    rewrite (slice_field fs 0 0 4) by (unfold fs, kid_field_list; off_side).
    rewrite (slice_field fs 1 4 8) by (unfold fs, kid_field_list; off_side).
    rewrite (slice_field fs 2 8 12) by (unfold fs, kid_field_list; off_side).
    rewrite (slice_field fs 3 12 16) by (unfold fs, kid_field_list; off_side).
    rewrite (slice_field fs 4 16 20) by (unfold fs, kid_field_list; off_side).
    rewrite (slice_field fs 5 20 24) by (unfold fs, kid_field_list; off_side).
    rewrite (slice_field fs 6 24 40) by (unfold fs, kid_field_list; off_side).
    rewrite (slice_field fs 7 40 44) by (unfold fs, kid_field_list; off_side).
    rewrite (slice_field fs 8 44 48) by (unfold fs, kid_field_list; off_side).
    rewrite (slice_field fs 9 48 52) by (unfold fs, kid_field_list; off_side).
    rewrite (slice_tail fs 10 52) by (unfold fs, kid_field_list; off_side).
    unfold fs, kid_field_list. cbn [nth skipn concat].
    rewrite beqb_refl. cbn [negb]. unfold uuid_of_bytes_le. rewrite Hr16. cbn [Z.eqb Pos.eqb bind].
    rewrite !le4_val by assumption. rewrite app_nil_r.
    rewrite (slice_none_l (kid_key_info k)).
    rewrite (slice_app_r (kid_key_info k)).
    rewrite (slice_drop_nul bd) by reflexivity. rewrite (utf16le_decode_encode _ _ Ebd). cbn [bind].
    rewrite (slice_suffix (bd ++ [0; 0])) by (rewrite len_utf16z; reflexivity).
    replace (bf ++ [0; 0]) with ((bf ++ [0; 0]) ++ []) by apply app_nil_r.
    rewrite (slice_drop_nul bf) by reflexivity. rewrite (utf16le_decode_encode _ _ Ebf). cbn [bind].
    destruct k; reflexivity.
Qed.

(* the packed bytes are bytes *)
Lemma KeyIdentifier_pack_wfb k b : wfb (kid_rkid k) = true -> wfb (kid_key_info k) = true ->
  KeyIdentifier_pack k = Ok b -> wfb b = true.
Proof.
  intros Wr Wk. unfold KeyIdentifier_pack, KeyIdentifier_fields.
  destruct (encode_utf16z (kid_domain k)) as [bd|] eqn:Ed; [|discriminate]. cbn [bind].
  destruct (encode_utf16z (kid_forest k)) as [bf|] eqn:Ef; [|discriminate]. cbn [bind].
  repeat match goal with |- context [to_bytes_le 4 ?v] =>
    let E := fresh "E" in destruct (to_bytes_le 4 v) eqn:E; [apply to_bytes_le_inv in E as [_ ->]|discriminate]; cbn [bind] end.
  intros H. apply Ok_inj in H. subst b. apply wfb_concat. cbn [forallb].
  rewrite !wfb_le, Wr, Wk. rewrite (utf16le_encode_wfb _ _ Ed), (utf16le_encode_wfb _ _ Ef). reflexivity.
Qed.

Example wf_kid_example :
  wf_kid {| kid_version := 1; kid_flags := 4294967295; kid_l0 := 361; kid_l1 := 0; kid_l2 := 31;
            kid_rkid := repeat 7 16; kid_key_info := [1; 2; 3]; kid_domain := [100; 128512]; kid_forest := [] |} = true.
Proof. reflexivity. Qed.
