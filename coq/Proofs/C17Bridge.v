(* The two forms of "ncrypt_(un)protect_secret with the cache-miss branch filled in" are the same function:
   Flow_cache_public.unprotect_online / protect_online (which C10's flow ties identify with the regenerated source; the network oracle
   takes the interpreter's argument list of _sync_get_key) and C17Compose.unprotect_via_dc / protect_via_dc (which C17_online_unprotect /
   C17_online_protect are about; the oracle takes the model's values).  The oracle of the second is the first's applied to
   (server or the DC found for the domain, target_sd, root key id, L0, L1, L2, username, password, auth_protocol). *)
From V Require Import Prelude.Base Prelude.PyAst Prelude.PyWorld.
From V Require Import Model.Types Model.Crypto Model.KeyId Model.Gkdi Model.Kek Model.SecDesc Model.Blob Model.CryptoWrap Model.Client.
From V Require Import Flow.World_cache Proofs.Flow_cache_public Proofs.C17Compose.
Local Open Scope list_scope.
Local Open Scope Z_scope.

Section Bridge.
Context (c : Crypto) (dns : list (pv obj) -> res pystr) (oracle : list (pv obj) -> res envelope).

(* _sync_get_key(server, target_sd, kid.root_key_identifier, kid.l0, kid.l1, kid.l2, username=u, password=p, auth_protocol=a) *)
Definition unprotect_getkey (server : option pystr) (u p a : pv obj) (target_sd : bytes) (kid : key_identifier) : res envelope :=
  let* srv := server_of dns server (VS (kid_domain kid)) in
  oracle [srv; VB target_sd; VB (kid_rkid kid); VI (kid_l0 kid); VI (kid_l1 kid); VI (kid_l2 kid); u; p; a].
(* _sync_get_key(server, sd, root_key_identifier, -1, -1, -1, username=u, password=p, auth_protocol=a) *)
Definition protect_getkey (server : option pystr) (dom u p a : pv obj) (sd : bytes) (rkid : option bytes) : res envelope :=
  let* srv := server_of dns server dom in
  oracle [srv; VB sd; vbytes_opt rkid; VI (-1); VI (-1); VI (-1); u; p; a].

Lemma unprotect_online_via_dc cache data server u p a :
  unprotect_online c dns oracle cache data server u p a = unprotect_via_dc c (unprotect_getkey server u p a) cache data.
Proof.
  unfold unprotect_online, unprotect_via_dc, envelope_for, unprotect_getkey.
  destruct (blob_unpack data) as [b|e]; [|reflexivity].
  destruct (get_target_sd (b_sid b)) as [sd|e]; [|reflexivity]. cbv zeta.
  destruct (cc_get_key _ _ _ _ _ _ _) as [[[rk|] cache1]|e]; reflexivity.
Qed.

Lemma protect_online_via_dc r1 r2 r3 ns cache data sid rkid server dom u p a :
  protect_online c r1 r2 r3 ns dns oracle cache data sid rkid server dom u p a
  = protect_via_dc c (protect_getkey server dom u p a) cache r1 r2 r3 data sid rkid ns.
Proof.
  unfold protect_online, protect_via_dc, envelope_for, protect_getkey.
  destruct (get_target_sd sid) as [sd|e]; [|reflexivity].
  destruct (protection_gke_from_cache _ _ _ _ _) as [[[rk|] cache1]|e]; reflexivity.
Qed.

End Bridge.
