(* C03 lemmas: Python's three-argument pow (square and multiply) is b^e mod m; DH commutes;
   math.ceil(n / 8) in exactly-rounded binary64 arithmetic is (n + 7) div 8 for every 32-bit n. *)
From Coq Require Import Zpow_facts.
From V Require Import Prelude.Base Prelude.TrueDiv Model.Sym.

(* ---- modpow ---- *)
Lemma powmod_pos_spec b e m : 0 < m -> powmod_pos b e m = b ^ Zpos e mod m.
Proof.
  intros Hm. induction e as [e IH|e IH|]; cbn [powmod_pos].
  - rewrite IH. rewrite Pos2Z.inj_xI.
    replace (2 * Z.pos e + 1) with (Z.pos e + Z.pos e + 1) by lia.
    rewrite !Z.pow_add_r, Z.pow_1_r by lia.
    rewrite <- (Z.mul_mod (b ^ Z.pos e) (b ^ Z.pos e)) by lia. rewrite Z.mul_mod_idemp_l by lia. reflexivity.
  - rewrite IH. rewrite Pos2Z.inj_xO.
    replace (2 * Z.pos e) with (Z.pos e + Z.pos e) by lia.
    rewrite Z.pow_add_r by lia. rewrite <- Z.mul_mod by lia. reflexivity.
  - rewrite Z.pow_1_r. reflexivity.
Qed.
Theorem modpow_spec b e m : 0 < m -> 0 <= e -> modpow b e m = b ^ e mod m.
Proof.
  intros Hm He. destruct e as [|e|e]; cbn [modpow]; [reflexivity|apply powmod_pos_spec, Hm|lia].
Qed.
Lemma modpow_range b e m : 0 < m -> 0 <= e -> 0 <= modpow b e m < m.
Proof. intros Hm He. rewrite modpow_spec by assumption. apply Z.mod_pos_bound, Hm. Qed.

(* (g^x mod p)^y = (g^y mod p)^x  (mod p) *)
Theorem modpow_comm g x y p : 0 < p -> 0 <= x -> 0 <= y ->
  modpow (modpow g x p) y p = modpow (modpow g y p) x p.
Proof.
  intros Hp Hx Hy. rewrite !modpow_spec by assumption.
  rewrite <- !Zpower_mod by lia. rewrite <- !Z.pow_mul_r by assumption. f_equal. f_equal. lia.
Qed.

(* ---- math.ceil(n / 8) ---- *)
Lemma log2_of a k : 0 < k -> 2 ^ (k - 1) <= a < 2 ^ k -> Z.log2 a = k - 1.
Proof. intros Hk H. apply Z.log2_unique; [lia|]. replace (Z.succ (k - 1)) with k by lia. exact H. Qed.

Lemma ceil8_case k a : 1 <= k <= 40 -> 2 ^ (k - 1) <= a < 2 ^ k -> py_truediv_ceil a 8 = (a + 7) / 8.
Proof.
  intros Hk Ha.
  assert (Hapos : 0 < a) by (pose proof (Z.pow_pos_nonneg 2 (k - 1)); lia).
  unfold py_truediv_ceil. destruct (a =? 0) eqn:E0; [lia|].
  unfold py_truediv_me, bitlen. rewrite E0. change (8 =? 0) with false. cbv iota.
  rewrite (log2_of a k) by lia. change (Z.log2 8) with 3.
  replace (k - 1 + 1 - (3 + 1)) with (k - 4) by lia.
  set (s := 55 - (k - 4)).
  assert (Hs : s >= 0) by (unfold s; lia). destruct (s >=? 0) eqn:Es; [|lia].
  rewrite Z.shiftl_mul_pow2 by lia.
  assert (Hp : 2 ^ s = 8 * 2 ^ (s - 3)) by (replace s with (3 + (s - 3)) at 1 by lia; rewrite Z.pow_add_r by (unfold s; lia); reflexivity).
  assert (HQ : a * 2 ^ s / 8 = a * 2 ^ (s - 3)) by (rewrite Hp; replace (a * (8 * 2 ^ (s - 3))) with (a * 2 ^ (s - 3) * 8) by lia; apply Z.div_mul; lia).
  assert (HR : (a * 2 ^ s) mod 8 = 0) by (rewrite Hp; replace (a * (8 * 2 ^ (s - 3))) with (a * 2 ^ (s - 3) * 8) by lia; apply Z.mod_mul; lia).
  rewrite HQ, HR.
  set (Q := a * 2 ^ (s - 3)).
  assert (HQb : 2 ^ 55 <= Q < 2 ^ 56).
  { unfold Q. replace 55 with ((k - 1) + (s - 3)) by (unfold s; lia). replace 56 with (k + (s - 3)) by (unfold s; lia).
    rewrite !Z.pow_add_r by (unfold s; lia). pose proof (Z.pow_pos_nonneg 2 (s - 3)). nia. }
  assert (HQ0 : (Q =? 0) = false) by lia. rewrite HQ0.
  rewrite (log2_of Q 56) by lia.
  change (56 - 1 + 1 - 53) with 3.
  assert (HQ8 : Q mod 2 ^ 3 = 0).
  { unfold Q. replace (s - 3) with (3 + (s - 6)) by lia. rewrite Z.pow_add_r by (unfold s; lia).
    replace (a * (2 ^ 3 * 2 ^ (s - 6))) with (a * 2 ^ (s - 6) * 2 ^ 3) by lia. apply Z.mod_mul. lia. }
  rewrite HQ8. change (2 ^ (3 - 1)) with 4. change (0 >? 4) with false. change (0 =? 4) with false. cbn [orb andb].
  destruct (3 - s >=? 0) eqn:E3; [unfold s in *; lia|].
  rewrite !Z.shiftr_div_pow2 by lia.
  replace (- (3 - s)) with (s - 3) by lia.
  assert (Hm : Q / 2 ^ 3 = a * 2 ^ (s - 6)).
  { unfold Q. replace (s - 3) with (3 + (s - 6)) by lia. rewrite Z.pow_add_r by (unfold s; lia).
    replace (a * (2 ^ 3 * 2 ^ (s - 6))) with (a * 2 ^ (s - 6) * 2 ^ 3) by lia. apply Z.div_mul. lia. }
  rewrite Hm.
  assert (Hp2 : 2 ^ (s - 3) = 2 ^ (s - 6) * 8) by (replace (s - 3) with ((s - 6) + 3) by lia; rewrite Z.pow_add_r by (unfold s; lia); reflexivity).
  pose proof (Z.pow_pos_nonneg 2 (s - 6) ltac:(lia) ltac:(unfold s; lia)) as Hpp.
  rewrite Hp2. set (T := 2 ^ (s - 6)) in *.
  rewrite (Z.mul_comm a T), Z.mul_mod_distr_l, Z.div_mul_cancel_l by lia.
  destruct (T * (a mod 8) =? 0) eqn:Ez; [assert (a mod 8 = 0) by nia|assert (a mod 8 <> 0) by nia]; lia.
Qed.

Theorem py_ceil_div8 a : 0 <= a < 2 ^ 40 -> py_truediv_ceil a 8 = (a + 7) / 8.
Proof.
  intros Ha. destruct (Z.eq_dec a 0) as [->|Hne]; [reflexivity|].
  assert (Hpos : 0 < a) by lia.
  pose proof (Z.log2_spec a Hpos) as Hl. pose proof (Z.log2_nonneg a) as Hn.
  assert (Hlt : Z.log2 a < 40) by (apply Z.log2_lt_pow2; lia).
  apply (ceil8_case (Z.log2 a + 1)); [lia|].
  replace (Z.log2 a + 1 - 1) with (Z.log2 a) by lia. replace (Z.log2 a + 1) with (Z.succ (Z.log2 a)) by lia. exact Hl.
Qed.
