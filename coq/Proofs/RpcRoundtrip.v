(* C12 round trips at the level the property observes: PDU.unpack (M.pack m). *)
From V Require Import Prelude.Base Prelude.PyInt Prelude.PySlice Prelude.PyStr.
From V Require Import Model.Pdu Model.Request Model.RpcLoop Model.Bind Model.RpcDispatch.
From V Require Import Proofs.RpcLib Proofs.RpcKernels Proofs.RpcPdu Proofs.RpcBind.

Section Dispatch.
Variables (fuel : nat) (data view : bytes) (h : pdu_header) (st : option sec_trailer).
Hypothesis Hs : pdu_split data = Ok (view, h, st).
Lemma dispatch_request : h_packet_type h = c_PT_REQUEST -> pdu_unpack fuel data = let* m := request_unpack view h st in Ok (PRequest m, 0).
Proof. intros Hp. unfold pdu_unpack. rewrite Hs. cbn [bind]. rewrite Hp. reflexivity. Qed.
Lemma dispatch_response : h_packet_type h = c_PT_RESPONSE -> pdu_unpack fuel data = let* m := response_unpack view h st in Ok (PResponse m, 0).
Proof. intros Hp. unfold pdu_unpack. rewrite Hs. cbn [bind]. rewrite Hp. reflexivity. Qed.
Lemma dispatch_fault : h_packet_type h = c_PT_FAULT -> pdu_unpack fuel data = let* m := fault_unpack view h st in Ok (PFault m, 0).
Proof. intros Hp. unfold pdu_unpack. rewrite Hs. cbn [bind]. rewrite Hp. reflexivity. Qed.
Lemma dispatch_bind : h_packet_type h = c_PT_BIND -> pdu_unpack fuel data = let* (m, t) := bind_unpack fuel view h st in Ok (PBind m, t).
Proof. intros Hp. unfold pdu_unpack. rewrite Hs. cbn [bind]. rewrite Hp. reflexivity. Qed.
Lemma dispatch_alter_context : h_packet_type h = c_PT_ALTER_CONTEXT -> pdu_unpack fuel data = let* (m, t) := bind_unpack fuel view h st in Ok (PAlterContext m, t).
Proof. intros Hp. unfold pdu_unpack. rewrite Hs. cbn [bind]. rewrite Hp. reflexivity. Qed.
Lemma dispatch_bind_ack : h_packet_type h = c_PT_BIND_ACK -> pdu_unpack fuel data = let* (m, t) := bind_ack_unpack fuel view h st in Ok (PBindAck m, t).
Proof. intros Hp. unfold pdu_unpack. rewrite Hs. cbn [bind]. rewrite Hp. reflexivity. Qed.
Lemma dispatch_alter_context_resp : h_packet_type h = c_PT_ALTER_CONTEXT_RESP -> pdu_unpack fuel data = let* (m, t) := bind_ack_unpack fuel view h st in Ok (PAlterContextResp m, t).
Proof. intros Hp. unfold pdu_unpack. rewrite Hs. cbn [bind]. rewrite Hp. reflexivity. Qed.
Lemma dispatch_bind_nak : h_packet_type h = c_PT_BIND_NAK -> pdu_unpack fuel data = let* (m, t) := bind_nak_unpack fuel view h st in Ok (PBindNak m, t).
Proof. intros Hp. unfold pdu_unpack. rewrite Hs. cbn [bind]. rewrite Hp. reflexivity. Qed.
End Dispatch.

Ltac start_rt disp :=
  wf_split;
  match goal with
  | Hh : wf_pdu_header _ = true, Hl : wf_lengths _ _ _ = true, Hp : (h_packet_type _ =? _) = true |- _ =>
    apply Z.eqb_eq in Hp; rewrite (disp _ _ _ _ (pdu_split_pack _ _ _ Hh Hl) Hp)
  end.

Theorem rt_fault m fuel : wf_fault m = true -> pdu_unpack fuel (fault_pack m) = Ok (PFault m, 0).
Proof.
  unfold wf_fault, fault_pack. intros H. start_rt (dispatch_fault fuel).
  rewrite fault_body_rt by assumption. reflexivity.
Qed.
Theorem rt_response m fuel : wf_response m = true -> pdu_unpack fuel (response_pack m) = Ok (PResponse m, 0).
Proof.
  unfold wf_response, response_pack. intros H. start_rt (dispatch_response fuel).
  rewrite response_body_rt by assumption. reflexivity.
Qed.
Theorem rt_request m fuel : wf_request m = true -> pdu_unpack fuel (request_pack m) = Ok (PRequest m, 0).
Proof.
  unfold wf_request, request_pack. intros H. start_rt (dispatch_request fuel).
  rewrite request_body_rt by assumption. reflexivity.
Qed.

Lemma concat_map_len2 (vs : list (Z * Z)) :
  length (concat (map (fun v : Z * Z => le 1 (fst v) ++ le 1 (snd v)) vs)) = (2 * length vs)%nat.
Proof. induction vs as [|v vs IH]; [reflexivity|]. cbn [map concat]. rewrite !app_length, !le_length, IH. cbn [length]. lia. Qed.

Lemma len_results rs : forallb wf_context_result rs = true -> len (concat (map context_result_pack rs)) = 24 * len rs.
Proof. induction rs as [|s ts IH]; intros H; [reflexivity|]. cbn [forallb] in H. apply andb_true_iff in H. destruct H as [H1 H2].
  cbn [map concat]. rewrite len_app, len_cons, (len_context_result_pack _ H1), (IH H2). lia. Qed.

Lemma rt_bind_ack_as pt (mk : bind_ack -> pdu) m packed bsa fuel :
  (forall view h st, h_packet_type h = pt -> pdu_split packed = Ok (view, h, st) ->
     pdu_unpack fuel packed = let* (m, t) := bind_ack_unpack fuel view h st in Ok (mk m, t)) ->
  sec_addr_bytes (ba_sec_addr m) = Ok bsa -> bind_ack_pack m = Ok packed ->
  wf_bind_ack_as pt m packed bsa = true -> (length packed <= fuel)%nat ->
  pdu_unpack fuel packed = Ok (mk m, len (ba_results m)).
Proof.
  intros Hd Hsa Hp Hwf Hf. unfold bind_ack_pack in Hp. rewrite Hsa in Hp. cbn [bind] in Hp. apply Ok_inj in Hp. subst packed.
  unfold wf_bind_ack_as in Hwf. wf_split.
  match goal with
  | Hh : wf_pdu_header _ = true, Hl : wf_lengths _ _ _ = true, Hp : (h_packet_type _ =? _) = true |- _ =>
    apply Z.eqb_eq in Hp; rewrite (Hd _ _ _ Hp (pdu_split_pack _ _ _ Hh Hl))
  end.
  rewrite bind_ack_body_rt; try assumption; [reflexivity|].
  match goal with Hr : forallb wf_context_result _ = true |- _ => pose proof (len_results _ Hr) as Hlr end.
  revert Hf. unfold bind_ack_body_of. cbn [concat]. rewrite !app_length. unfold len in Hlr. lia.
Qed.

Theorem rt_bind_ack m packed bsa fuel :
  sec_addr_bytes (ba_sec_addr m) = Ok bsa -> bind_ack_pack m = Ok packed ->
  wf_bind_ack_as c_PT_BIND_ACK m packed bsa = true -> (length packed <= fuel)%nat ->
  pdu_unpack fuel packed = Ok (PBindAck m, len (ba_results m)).
Proof. apply rt_bind_ack_as. intros view h st Hp Hs. exact (dispatch_bind_ack fuel _ _ _ _ Hs Hp). Qed.
Theorem rt_alter_context_resp m packed bsa fuel :
  sec_addr_bytes (ba_sec_addr m) = Ok bsa -> bind_ack_pack m = Ok packed ->
  wf_bind_ack_as c_PT_ALTER_CONTEXT_RESP m packed bsa = true -> (length packed <= fuel)%nat ->
  pdu_unpack fuel packed = Ok (PAlterContextResp m, len (ba_results m)).
Proof. apply rt_bind_ack_as. intros view h st Hp Hs. exact (dispatch_alter_context_resp fuel _ _ _ _ Hs Hp). Qed.

Theorem rt_bind_nak m fuel : wf_bind_nak m = true -> (length (bind_nak_pack m) <= fuel)%nat ->
  pdu_unpack fuel (bind_nak_pack m) = Ok (PBindNak m, len (bn_versions m)).
Proof.
  unfold wf_bind_nak, bind_nak_pack. intros H Hf. wf_split.
  assert (Hst : bn_sec_trailer m = None) by (destruct (bn_sec_trailer m); [discriminate|reflexivity]).
  match goal with
  | Hh : wf_pdu_header _ = true, Hl : wf_lengths _ _ _ = true, Hp : (h_packet_type _ =? _) = true |- _ =>
    apply Z.eqb_eq in Hp;
    pose proof (pdu_split_pack (bn_header m) (bind_nak_body m) None Hh) as Hs; cbn [opt_sec_trailer_pack] in Hs; rewrite app_nil_r in Hs;
    rewrite (dispatch_bind_nak fuel _ _ _ _ (Hs Hl) Hp)
  end.
  rewrite bind_nak_body_rt; try assumption; [reflexivity|].
  revert Hf. unfold bind_nak_body. cbv zeta. cbn [concat]. rewrite !app_length, concat_map_len2. lia.
Qed.

Lemma len_contexts_ge cs : forallb wf_context_element cs = true ->
  len cs <= len (concat (map context_element_pack cs)) /\
  forall c, In c cs -> len (ce_transfer_syntaxes c) <= len (concat (map context_element_pack cs)).
Proof.
  induction cs as [|c cs IH]; intros H; [split; [reflexivity|intros ? []]|].
  cbn [forallb] in H. apply andb_true_iff in H. destruct H as [H1 H2]. destruct (IH H2) as [IH1 IH2].
  cbn [map concat]. rewrite len_app, len_cons, (len_context_element_pack _ H1).
  pose proof (len_nonneg (ce_transfer_syntaxes c)). pose proof (len_nonneg (concat (map context_element_pack cs))).
  split; [lia|]. intros x [<-|Hx]; [lia|]. specialize (IH2 x Hx). lia.
Qed.

Lemma rt_bind_as pt (mk : bind_msg -> pdu) m fuel :
  (forall view h st, h_packet_type h = pt -> pdu_split (bind_pack m) = Ok (view, h, st) ->
     pdu_unpack fuel (bind_pack m) = let* (m, t) := bind_unpack fuel view h st in Ok (mk m, t)) ->
  wf_bind_as pt m = true -> (length (bind_pack m) <= fuel)%nat ->
  pdu_unpack fuel (bind_pack m) = Ok (mk m, ce_ticks (b_contexts m)).
Proof.
  intros Hd Hwf Hf. unfold wf_bind_as in Hwf. wf_split.
  match goal with
  | Hh : wf_pdu_header _ = true, Hl : wf_lengths _ _ _ = true, Hp : (h_packet_type _ =? _) = true |- _ =>
    apply Z.eqb_eq in Hp; rewrite (Hd _ _ _ Hp (pdu_split_pack _ _ _ Hh Hl))
  end.
  match goal with Hr : forallb wf_context_element _ = true |- _ => destruct (len_contexts_ge _ Hr) as [Hg1 Hg2] end.
  assert (Hlen : len (concat (map context_element_pack (b_contexts m))) <= Z.of_nat fuel).
  { revert Hf. unfold bind_pack, bind_body. cbn [concat]. rewrite !app_length. unfold len. lia. }
  rewrite bind_body_rt; try assumption; [reflexivity| |].
  - unfold len in *. lia.
  - intros c Hc. specialize (Hg2 c Hc). unfold len in *. lia.
Qed.
Theorem rt_bind m fuel : wf_bind m = true -> (length (bind_pack m) <= fuel)%nat ->
  pdu_unpack fuel (bind_pack m) = Ok (PBind m, ce_ticks (b_contexts m)).
Proof. apply rt_bind_as. intros view h st Hp Hs. exact (dispatch_bind fuel _ _ _ _ Hs Hp). Qed.
Theorem rt_alter_context m fuel : wf_alter_context m = true -> (length (bind_pack m) <= fuel)%nat ->
  pdu_unpack fuel (bind_pack m) = Ok (PAlterContext m, ce_ticks (b_contexts m)).
Proof. apply rt_bind_as. intros view h st Hp Hs. exact (dispatch_alter_context fuel _ _ _ _ Hs Hp). Qed.
