(* C06: ProtectionDescriptor and DPAPINGBlob: unpack (pack b) = b for both layouts, re-encoding
   identity, and pack = encode of the independent CMS template. *)
From V Require Import Prelude.Base Prelude.PyInt Prelude.PySlice Prelude.PyStr gen.K_asn1 gen.C_asn1 gen.C_gkdi.
From V Require Import Model.Types Model.KeyId Model.Asn1 Model.Pkcs7 Model.Blob Spec.DerSpec.
From V Require Import Proofs.Asn1Lib Proofs.Asn1Hdr Proofs.Asn1Tlv Proofs.Asn1Int Proofs.Asn1Oid Proofs.Asn1Str Proofs.Asn1Tree Proofs.C07.
From V Require Import Proofs.BlobLib Proofs.BlobPkcs7 Proofs.GkdiLib Proofs.GkdiKeyId.

Definition utf8_tag : tag := universal_tag c_tag_utf8 false.
Lemma low_utf8 : low_tag utf8_tag. Proof. apply low_universal; [reflexivity|unfold c_tag_utf8; lia]. Qed.

Lemma utf8_node s c : utf8_encode s = Ok c -> len c < U32 ->
  exists enc, a_utf8 s = Ok (Prim utf8_tag c) /\ encode (Prim utf8_tag c) = Ok enc /\ tlv_enc utf8_tag c enc /\
    forall rest, read_utf8_string (enc ++ rest) None None = Ok (s, rest).
Proof.
  intros Ec Hl. destruct (node_ok utf8_tag c low_utf8 ltac:(unfold U32, BIG in *; lia)) as (enc & E & T).
  exists enc. unfold a_utf8. rewrite Ec. cbn [bind encode]. repeat split; auto.
  intros rest. apply (tlv_read_utf8 utf8_tag c); auto. now apply utf8_decode_encode.
Qed.

Lemma oid_pd_sid_wf : oid_wf oid_pd_sid /\ oid_small oid_pd_sid.
Proof. split; [const_oid_wf|const_oid_small]. Qed.
Lemma oid_ms_wf : oid_wf oid_ms_software /\ oid_small oid_ms_software.
Proof. split; [const_oid_wf|const_oid_small]. Qed.

(* one more SEQUENCE around an encoded body *)
Lemma wrap_seq x ex : encode x = Ok ex -> len ex < BIG / 2 ->
  exists enc, encode (a_seq [x]) = Ok enc /\ tlv_enc seq_tag (ex ++ []) enc /\
    forall rest, read_sequence (enc ++ rest) None None = Ok (ex ++ [], rest).
Proof.
  intros Ex Hl. assert (Hq : BIG / 2 = 2305843009213693952) by reflexivity.
  assert (Eb : encode_list [x] = Ok (ex ++ [])) by (apply encode_list_cons; [exact Ex|reflexivity]).
  destruct (node_ok seq_tag (ex ++ []) low_seq) as (enc & E & T); [rewrite app_nil_r; unfold BIG in *; lia|].
  exists enc. split; [rewrite (encode_seq _ _ Eb); exact E|]. split; [exact T|].
  intros rest. rewrite read_sequence_eq. now apply (tlv_read_raw seq_tag).
Qed.

Theorem pd_roundtrip sid c : utf8_encode sid = Ok c -> len c < U32 ->
  exists enc, ProtectionDescriptor_pack sid = Ok enc /\ enc <> [] /\ len enc <= len c + 4096 /\
    forall rest, ProtectionDescriptor_unpack (enc ++ rest) = Ok sid.
Proof.
  intros Ec Hl. destruct oid_pd_sid_wf as [Hw Hs].
  destruct (oid_node _ Hw Hs) as (co & eo & Eo & Eeo & To & Hlc & Ro). pose proof (tlv_len _ _ _ To) as Hlo.
  assert (Hco : len co <= 16).
  { unfold a_oid in Eo. destruct (encode_oid oid_pd_sid) as [x|] eqn:Ex; [|discriminate]. cbn [bind] in Eo.
    assert (x = co) by congruence. subst x. vm_compute in Ex. apply Ok_inj in Ex. subst co. cbn. lia. }
  assert (En : utf8_encode c_pd_sid_name = Ok [83; 73; 68]) by reflexivity.
  destruct (utf8_node c_pd_sid_name [83; 73; 68] En ltac:(unfold U32; cbn; lia)) as (en & An & Een & Tn & Rn).
  destruct (utf8_node sid c Ec Hl) as (ev & Av & Eev & Tv & Rv).
  pose proof (tlv_len _ _ _ Tn) as Hln. change (len [83; 73; 68]) with 3 in Hln. pose proof (tlv_len _ _ _ Tv) as Hlv. pose proof (len_nonneg c).
  set (b3 := en ++ ev ++ []).
  assert (Eb3 : encode_list [Prim utf8_tag [83; 73; 68]; Prim utf8_tag c] = Ok b3).
  { repeat (apply encode_list_cons; [assumption|]). reflexivity. }
  assert (Hlb3 : len b3 = len en + len ev) by (unfold b3; rewrite !len_app, len_nil; lia).
  destruct (node_ok seq_tag b3 low_seq) as (e3 & E3 & T3); [unfold U32, BIG in *; lia|].
  pose proof (tlv_len _ _ _ T3) as Hl3.
  assert (Ee3 : encode (a_seq [Prim utf8_tag [83; 73; 68]; Prim utf8_tag c]) = Ok e3) by (rewrite (encode_seq _ _ Eb3); exact E3).
  assert (Hq : BIG / 2 = 2305843009213693952) by reflexivity.
  destruct (wrap_seq _ e3 Ee3 ltac:(unfold U32 in *; lia)) as (e2 & Ee2 & T2 & R2). pose proof (tlv_len _ _ _ T2) as Hl2. rewrite app_nil_r in Hl2.
  destruct (wrap_seq _ e2 Ee2 ltac:(unfold U32 in *; lia)) as (e1 & Ee1 & T1 & R1). pose proof (tlv_len _ _ _ T1) as Hl1. rewrite app_nil_r in Hl1.
  set (body := eo ++ e1 ++ []).
  assert (Ebody : encode_list [Prim oid_tag co; a_seq [a_seq [a_seq [Prim utf8_tag [83; 73; 68]; Prim utf8_tag c]]]] = Ok body).
  { repeat (apply encode_list_cons; [assumption|]). reflexivity. }
  assert (Hlb : len body = len eo + len e1) by (unfold body; rewrite !len_app, len_nil; lia).
  destruct (node_ok seq_tag body low_seq) as (enc & E & T); [unfold U32, BIG in *; lia|].
  pose proof (tlv_len _ _ _ T) as Hle.
  exists enc. unfold ProtectionDescriptor_pack, ProtectionDescriptor_tree. rewrite Eo. cbn [bind]. rewrite An. cbn [bind]. rewrite Av. cbn [bind].
  split; [rewrite (encode_seq _ _ Ebody); exact E|].
  split; [intros C; rewrite C in Hle; cbn in Hle; pose proof (len_nonneg body); lia|]. split; [unfold U32 in *; lia|].
  intros rest. unfold ProtectionDescriptor_unpack. rewrite read_sequence_eq.
  rewrite (tlv_read_raw seq_tag body enc rest None seq_tag None T I eq_refl). cbn [bind].
  unfold body. rewrite Ro. cbn [bind]. rewrite R1. cbn [bind]. rewrite R2. cbn [bind].
  rewrite (tlv_read_raw seq_tag b3 e3 [] None seq_tag None T3 I eq_refl). cbn [bind].
  unfold b3. rewrite Rn. cbn [bind]. rewrite Rv. cbn [bind].
  rewrite oid_eqb_refl. reflexivity.
Qed.

(* ---- well-formed blob values (boolean) *)
Definition oid_okb (arcs : list Z) : bool :=
  match arcs with
  | a :: b :: rest =>
    (0 <=? a) && (a <=? 2) && (0 <=? b) && (b <=? 39) && forallb (fun x => 0 <=? x) rest &&
    match encode_oid arcs with Ok c => len c <? U32 | Raise _ => false end
  | _ => false
  end.
Definition obytes_okb (p : option bytes) : bool :=
  match p with None => true | Some b => negb (Nat.eqb (length b) 0) && (len b <? U32) end.
Definition sid_okb (s : pystr) : bool := match utf8_encode s with Ok c => len c <? U32 | Raise _ => false end.
Definition wf_blob (b : blob) : bool :=
  wf_kid (b_key_identifier b) && sid_okb (b_sid b) && (len (b_enc_cek b) <? U32) &&
  oid_okb (b_enc_cek_algorithm b) && obytes_okb (b_enc_cek_parameters b) &&
  (len (b_enc_content b) <? U32) && oid_okb (b_enc_content_algorithm b) && obytes_okb (b_enc_content_parameters b).

Lemma oid_okb_spec arcs : oid_okb arcs = true -> oid_wf arcs /\ oid_small arcs.
Proof.
  destruct arcs as [|a [|b rest]]; try discriminate. unfold oid_okb. rewrite !andb_true_iff.
  intros [[[[[H1 H2] H3] H4] H5] H6]. split.
  - cbn [oid_wf]. split; [lia|]. split; [lia|]. rewrite forallb_forall in H5. apply Forall_forall. intros x Hx. specialize (H5 x Hx). lia.
  - intros c Hc. rewrite Hc in H6. lia.
Qed.
Lemma obytes_okb_spec p : obytes_okb p = true -> obytes_ok p.
Proof.
  destruct p as [b|]; [|constructor]. cbn [obytes_okb obytes_ok]. rewrite andb_true_iff. intros [H1 H2].
  split; [intros ->; discriminate|unfold U32 in *; lia].
Qed.

Lemma kid_pack_len k : wf_kid k = true -> exists kb, KeyIdentifier_pack k = Ok kb /\ KeyIdentifier_unpack kb = Ok k /\ len kb < U32 * 16.
Proof.
  intros Hwf. destruct (KeyIdentifier_roundtrip k Hwf) as (kb & Ep & Eu). exists kb. split; [exact Ep|]. split; [exact Eu|].
  destruct (KeyIdentifier_fields_ok k Hwf) as (bd & bf & _ & _ & Hdl & Hfl & Hfs).
  unfold KeyIdentifier_pack in Ep. rewrite Hfs in Ep. cbn [bind] in Ep. apply Ok_inj in Ep. subst kb.
  unfold wf_kid in Hwf. rewrite !andb_true_iff in Hwf. destruct Hwf as [[[[[[[[[[_ _] _] _] _] Hr] Hk] _] _] _] _].
  unfold kid_field_list. cbn [concat]. rewrite !len_app, !len_le, len_KEYID_MAGIC. change (len (@nil Z)) with 0. unfold u32b, U32 in *.
  change (len [0; 0]) with 2. lia.
Qed.

Definition trailing (b : blob) (in_envelope : bool) : bytes := if in_envelope then [] else b_enc_content b.

Theorem blob_roundtrip b env : wf_blob b = true ->
  exists ci, blob_pack b env = Ok (ci ++ trailing b env) /\ blob_unpack (ci ++ trailing b env) = Ok b /\
    (exists h, forall rest, peek_header (ci ++ rest) = Ok h /\ h_tlen h + h_len h = len ci) /\ len ci < BIG.
Proof.
  unfold wf_blob. rewrite !andb_true_iff. intros [[[[[[[Hkid Hsid] Hcek] Ha1] Hp1] Hcont] Ha2] Hp2].
  destruct (kid_pack_len _ Hkid) as (kb & Ekb & Ukb & Hlkb).
  unfold sid_okb in Hsid. destruct (utf8_encode (b_sid b)) as [sc|] eqn:Esc; [|discriminate].
  destruct (pd_roundtrip (b_sid b) sc Esc ltac:(lia)) as (pd & Epd & Hpdne & Hlpd & Upd).
  destruct (oid_okb_spec _ Ha1) as [Hw1 Hs1]. destruct (oid_okb_spec _ Ha2) as [Hw2 Hs2].
  pose proof (obytes_okb_spec _ Hp1) as Ho1. pose proof (obytes_okb_spec _ Hp2) as Ho2.
  destruct oid_ms_wf as [Hmw Hms]. destruct oid_data_wf as [Hdw Hds]. destruct oid_enveloped_wf as [Hew Hes].
  set (content := if env then b_enc_content b else []).
  assert (Hlcontent : len content < U32) by (unfold content; destruct env; [lia|unfold U32; cbn; lia]).
  set (oka := {| oka_id := oid_ms_software; oka_attr := Some pd |}).
  assert (Hoka : obytes_ok (oka_attr oka)) by (cbn; split; [exact Hpdne|unfold U32 in *; pose proof (len_nonneg sc); lia]).
  set (alg1 := {| alg_oid := b_enc_cek_algorithm b; alg_params := b_enc_cek_parameters b |}).
  set (alg2 := {| alg_oid := b_enc_content_algorithm b; alg_params := b_enc_content_parameters b |}).
  destruct (ed_roundtrip 4 kb oka alg1 (b_enc_cek b) oid_data alg2 content ltac:(lia) Hlkb Hmw Hms Hoka (conj Hw1 (conj Hs1 Ho1)) ltac:(lia)
              Hdw Hds (conj Hw2 (conj Hs2 Ho2)) Hlcontent) as (ted & eed & Eed & Eeed & Hled & Ued).
  assert (Hb1 : 0 <= obytes_len (alg_params alg1) < U32 * 2) by (unfold alg1; cbn; destruct (b_enc_cek_parameters b); cbn in *; [pose proof (len_nonneg b0); lia|unfold U32; lia]).
  assert (Hb2 : 0 <= obytes_len (alg_params alg2) < U32 * 2) by (unfold alg2; cbn; destruct (b_enc_content_parameters b); cbn in *; [pose proof (len_nonneg b0); lia|unfold U32; lia]).
  assert (Hq : BIG / 4 = 1152921504606846976) by reflexivity.
  pose proof (len_nonneg kb). pose proof (len_nonneg (b_enc_cek b)). pose proof (len_nonneg content). pose proof (len_nonneg sc).
  cbn [oka_attr oka obytes_len] in Hled.
  destruct (ci_roundtrip oid_enveloped_data eed Hew Hes ltac:(unfold U32 in *; lia)) as (tci & eci & h & Eci & Eeci & Hlci & Hpeek & Htot & Uci).
  subst oka alg1 alg2 content.
  exists eci. split; [|split; [|split]].
  - unfold blob_pack. rewrite Ekb. cbn [bind]. rewrite Epd. cbn [bind].
    unfold blob_enveloped_data. change k_blob_ed_version with 2. change k_blob_kri_version with 4.
    match type of Eed with ?L = _ => match goal with |- context C [EnvelopedData_pack ?x] => let G := context C [L] in change G end end.
    rewrite Eed. cbn [bind]. rewrite Eeed. cbn [bind]. rewrite Eci. cbn [bind]. rewrite Eeci. cbn [bind].
    unfold trailing. destruct env; reflexivity.
  - unfold blob_unpack. rewrite Hpeek. cbn [bind]. rewrite Htot.
    rewrite slice_none_l, slice_app_r. rewrite Uci. cbn [bind ci_content_type ci_content].
    rewrite oid_eqb_refl. cbn [negb]. rewrite <- (app_nil_r eed). rewrite Ued. cbn [bind ed_recipient_infos ed_version kri_version].
    change (negb (2 =? 2) || negb (4 =? 4)) with false. cbv iota.
    cbn [kri_kekid kekid_key_identifier kekid_other]. rewrite Ukb. cbn [bind oka_id oka_attr].
    rewrite oid_eqb_refl. cbn [negb]. rewrite <- (app_nil_r pd). rewrite Upd. cbn [bind].
    cbn [ed_eci eci_content eci_alg kri_alg kri_encrypted_key alg_oid alg_params].
    destruct b as [k sid cek a1 p1 cont a2 p2].
    cbn [b_key_identifier b_sid b_enc_cek b_enc_cek_algorithm b_enc_cek_parameters b_enc_content b_enc_content_algorithm b_enc_content_parameters trailing].
    do 2 f_equal. destruct env; [destruct cont; reflexivity|reflexivity].
  - exists h. intros rest. split; [apply Hpeek|exact Htot].
  - cbn [alg_params] in *. unfold U32, BIG in *. lia.
Qed.

Theorem blob_reencode b env : wf_blob b = true ->
  exists bs b', blob_pack b env = Ok bs /\ blob_unpack bs = Ok b' /\ blob_pack b' env = Ok bs.
Proof.
  intros Hwf. destruct (blob_roundtrip b env Hwf) as (ci & Ep & Eu & _ & _).
  exists (ci ++ trailing b env), b. auto.
Qed.
