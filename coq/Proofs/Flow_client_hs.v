(* Tie theorems, bind / authentication handshake (C15): the regenerated syntax of _client._process_bind_result,
   RpcClient._create_bind, _create_alter_context, _process_bind_ack and AsyncRpcClient.bind (gen/F_client.v), run in the world
   Flow/World_client_hs.v, computes the functions of Model/Handshake.v the C15 theorems are about; SyncRpcClient.bind is the
   same program up to `await self._wrap_sync(..)` (flow_bind_twin).
   Effects on the receiver (self._sign_header, the PDUs sent, the arguments of step) are stated with Proofs/FlowClientLib.run_self:
   the result and the final value of "self" when the function ends in its last `return`.
   SyncRpcClient.bind is tied semantically as well (flow_sync_bind): `self._auth.step(..)` is a method call on an attribute of the local `self`;
   Prelude/PyAst.v writes the receiver back along the attribute path (place_set), the world gives x_setattr "_auth" its meaning. *)
From V Require Import Prelude.Base Prelude.PySlice Prelude.PyAst Prelude.PyWorld gen.F_client gen.K_client gen.C_client gen.C_rpc.
From V Require Import Model.Handshake Flow.World_client_hs Proofs.FlowClientLib.
Local Open Scope string_scope.
Local Open Scope list_scope.
Local Open Scope Z_scope.

Arguments len : simpl never.
Arguments k_bind_result_accepted : simpl never.
Arguments k_ack_accepted : simpl never.
Arguments k_ack_clears_sign : simpl never.
Arguments k_alter_flags : simpl never.
Arguments k_bind_loop_guard : simpl never.
Arguments k_bind_break : simpl never.
Arguments PySlice.index : simpl never.


Definition pbr_for_body : list pstmt :=
  match nth 1 (pf_body k_flow_process_bind_result) SPass with SFor _ _ b => b | _ => [] end.

Lemma pbr_loop fuel requested : forall results idx acc env,
  lookup "accepted_ids" env = Some (VL (map VI acc)) ->
  lookup "requested_contexts" env = Some (VL (map ctxv requested)) ->
  lookup "ContextResultCode.ACCEPTANCE" env = None ->
  match accepted_ids results requested idx with
  | Ok ids => exists env', for_each WH fuel ["idx"; "c"] pbr_for_body (enum_from idx (map resv results)) env = Ok (Next env')
       /\ lookup "accepted_ids" env' = Some (VL (map VI (acc ++ ids)))
       /\ lookup "desired_context" env' = lookup "desired_context" env
  | Raise e => for_each WH fuel ["idx"; "c"] pbr_for_body (enum_from idx (map resv results)) env = Raise e
  end.
Proof.
  induction results as [|r rs IH]; intros idx acc env Hacc Hreq Hg.
  - cbn. exists env. rewrite app_nil_r. auto.
  - cbn [accepted_ids map enum_from for_each].
    unfold pbr_for_body. cbn [nth pf_body k_flow_process_bind_result].
    unfold k_bind_result_accepted. destruct (r =? c_ACCEPTANCE) eqn:Ea.
    + cbn. unfold test. cbn. rewrite Hg. cbn. rewrite Ea. cbn. rewrite Hreq. cbn.
      rewrite index_map. destruct (PySlice.index requested idx) as [c|e]; cbn; [|reflexivity].
      rewrite Hacc. cbn. rewrite ?Hacc. cbn.
      specialize (IH (idx + 1) (acc ++ [c])
        (update "accepted_ids" (VL (map VI acc ++ [VI c])) (update "ctx" (ctxv c) (update "c" (resv r) (update "idx" (VI idx) env))))).
      cbn in IH. rewrite map_app in IH. specialize (IH eq_refl Hreq Hg).
      destruct (accepted_ids rs requested (idx + 1)) as [ids|e]; cbn.
      * destruct IH as [env' [H1 [H2 H3]]]. exists env'. split; [exact H1|]. split; [|exact H3].
        rewrite H2. rewrite <- app_assoc. reflexivity.
      * exact IH.
    + cbn. unfold test. cbn. rewrite Hg. cbn. rewrite Ea. cbn.
      specialize (IH (idx + 1) acc (update "c" (resv r) (update "idx" (VI idx) env))).
      cbn in IH. specialize (IH Hacc Hreq Hg). exact IH.
Qed.

Lemma member_VI (x : Z) l : member hs_ext (VI x) (map VI l) = Ok (existsb (Z.eqb x) l).
Proof.
  induction l as [|y l IH]; [reflexivity|]. cbn. destruct (x =? y); cbn; [reflexivity|exact IH].
Qed.

Lemma flow_process_bind_result fuel requested a results flags tok desired :
  run WH fuel k_flow_process_bind_result [VL (map ctxv requested); VO (OAck a results flags tok); VI desired]
  = (let* _ := process_bind_result requested results desired in Ok VN).
Proof.
  unfold run. cbn [bind_params pf_params pf_body k_flow_process_bind_result].
  rewrite exec_block_cons. cbn [exec eval bind bind_targets update WH std_world w_list].
  rewrite exec_block_cons, exec_for. cbn.
  pose proof (pbr_loop fuel requested results 0 []
    [("accepted_ids", VL []); ("requested_contexts", VL (map ctxv requested)); ("bind_ack", VO (OAck a results flags tok)); ("desired_context", VI desired)]
    eq_refl eq_refl eq_refl) as H.
  unfold process_bind_result.
  change ((fix go (i : Z) (xs : list (pv obj)) : list (pv obj) :=
     match xs with [] => [] | x :: r => VT [VI i; x] :: go (i + 1) r end) 0 (map resv results)) with (enum_from 0 (map resv results)).
  change (match nth 1 (pf_body k_flow_process_bind_result) SPass with SFor _ _ b => b | _ => [] end) with pbr_for_body in H.
  unfold pbr_for_body in H. cbn [nth pf_body k_flow_process_bind_result] in H. unfold update.
  destruct (accepted_ids results requested 0) as [ids|e]; cbn [bind].
  - destruct H as [env' [H1 [H2 H3]]]. rewrite H1. cbn [bind].
    cbn in H3. unfold test. cbn. rewrite H3. cbn. rewrite H2. cbn.
    rewrite member_VI. cbn. destruct (existsb (Z.eqb desired) ids); cbn; reflexivity.
  - rewrite H. reflexivity.
Qed.

Lemma ids_of_ctxv ids : ids_of (map ctxv ids) = Some ids.
Proof. induction ids as [|i r IH]; [reflexivity|]. cbn. now rewrite IH. Qed.


(* _create_bind(self, contexts, sec_trailer): the PDU and the client afterwards (self._sign_header) *)
Lemma flow_create_bind fuel c ids tok :
  run_self WH fuel k_flow_create_bind [VO (OSelf c); VL (map ctxv ids); trailerv tok]
  = Ok (VO (OSent (fst (create_bind_hs ids tok (cn_st c)))), Some (VO (OSelf (with_st c (snd (create_bind_hs ids tok (cn_st c))))))).
Proof.
  unfold run_self. destruct tok as [t|]; cbn; rewrite ids_of_ctxv; cbn.
  - reflexivity.
  - destruct c as [a l cp s]; destruct s; reflexivity.
Qed.

Lemma flow_create_alter_context fuel c ids t :
  run_self WH fuel k_flow_create_alter_context [VO (OSelf c); VL (map ctxv ids); VO (OTrailer t)]
  = Ok (VO (OSent (create_alter_hs ids t (cn_st c))), Some (VO (OSelf c))).
Proof.
  unfold run_self, create_alter_hs, k_alter_flags. cbn.
  destruct (sign (cn_st c)); cbn; rewrite ids_of_ctxv; reflexivity.
Qed.

Ltac frame_tac Hx :=
  cbn [existsb] in Hx;
  repeat (apply orb_false_iff in Hx; let H := fresh "Hn" in destruct Hx as [H Hx]);
  cbn [lookup update];
  repeat match goal with H : String.eqb _ _ = false |- _ => rewrite H; clear H end.

Definition pba_for_body : list pstmt :=
  match nth 1 (pf_body k_flow_process_bind_ack) SPass with SFor _ _ b => b | _ => [] end.
Definition pba_assigned := ["idx"; "c"; "context_res"; "alter_contexts"].

Lemma pba_loop fuel a rs fl tk : forall cs idx acc env,
  lookup "alter_contexts" env = Some (VL (map ctxv acc)) ->
  lookup "ack" env = Some (VO (OAck a rs fl tk)) ->
  lookup "ContextResultCode.ACCEPTANCE" env = None ->
  match accepted_contexts cs rs idx with
  | Ok acc' => exists env', for_each WH fuel ["idx"; "c"] pba_for_body (enum_from idx (map ctxv cs)) env = Ok (Next env')
       /\ lookup "alter_contexts" env' = Some (VL (map ctxv (acc ++ acc')))
       /\ (forall x, existsb (String.eqb x) pba_assigned = false -> lookup x env' = lookup x env)
  | Raise e => for_each WH fuel ["idx"; "c"] pba_for_body (enum_from idx (map ctxv cs)) env = Raise e
  end.
Proof.
  induction cs as [|c cs IH]; intros idx acc env Hacc Hack Hg.
  - cbn. exists env. rewrite app_nil_r. auto.
  - cbn [accepted_contexts map enum_from for_each].
    unfold pba_for_body. cbn [nth pf_body k_flow_process_bind_ack].
    cbn. rewrite Hack. cbn. rewrite index_map.
    destruct (PySlice.index rs idx) as [r|e]; cbn; [|reflexivity].
    unfold test. cbn. rewrite Hg. cbn. unfold k_ack_accepted.
    destruct (r =? c_ACCEPTANCE) eqn:Ea; cbn.
    + rewrite Hacc. cbn. rewrite ?Hacc. cbn.
      specialize (IH (idx + 1) (acc ++ [c])
        (update "alter_contexts" (VL (map ctxv acc ++ [ctxv c])) (update "context_res" (resv r) (update "c" (ctxv c) (update "idx" (VI idx) env))))).
      cbn in IH. rewrite map_app in IH. specialize (IH eq_refl Hack Hg).
      destruct (accepted_contexts cs rs (idx + 1)) as [acc'|e]; cbn.
      * destruct IH as [env' [H1 [H2 H3]]]. exists env'. split; [exact H1|]. split.
        -- rewrite H2, <- app_assoc. reflexivity.
        -- intros x Hx. rewrite (H3 x Hx). unfold pba_assigned in Hx. frame_tac Hx. reflexivity.
      * exact IH.
    + specialize (IH (idx + 1) acc (update "context_res" (resv r) (update "c" (ctxv c) (update "idx" (VI idx) env)))).
      cbn in IH. specialize (IH Hacc Hack Hg).
      destruct (accepted_contexts cs rs (idx + 1)) as [acc'|e]; cbn.
      * destruct IH as [env' [H1 [H2 H3]]]. exists env'. split; [exact H1|]. split; [exact H2|].
        intros x Hx. rewrite (H3 x Hx). unfold pba_assigned in Hx. frame_tac Hx. reflexivity.
      * exact IH.
Qed.

(* _process_bind_ack(self, ack, contexts): (accepted contexts, auth_value) and the client afterwards (self._sign_header) *)
Lemma flow_process_bind_ack fuel c a rs fl tk ids :
  run_self WH fuel k_flow_process_bind_ack [VO (OSelf c); VO (OAck a rs fl tk); VL (map ctxv ids)]
  = match process_bind_ack rs fl tk ids (cn_st c) with
    | (Ok (acc, tk'), s') => Ok (VT [VL (map ctxv acc); tokv tk'], Some (VO (OSelf (with_st c s'))))
    | (Raise e, _) => Raise e
    end.
Proof.
  unfold run_self. cbn [bind_params pf_params pf_body k_flow_process_bind_ack split_last_return rev app].
  rewrite exec_block_cons. cbn [exec eval bind bind_targets update WH std_world w_list].
  rewrite exec_block_cons, exec_for. cbn [eval lookup String.eqb Ascii.eqb Bool.eqb bind].
  cbn.
  pose proof (pba_loop fuel a rs fl tk ids 0 []
    [("alter_contexts", VL []); ("self", VO (OSelf c)); ("ack", VO (OAck a rs fl tk)); ("contexts", VL (map ctxv ids))]
    eq_refl eq_refl eq_refl) as H.
  unfold pba_for_body in H. cbn [nth pf_body k_flow_process_bind_ack] in H. unfold update.
  unfold process_bind_ack.
  change ((fix go (i : Z) (xs : list (pv obj)) : list (pv obj) :=
     match xs with [] => [] | x :: r => VT [VI i; x] :: go (i + 1) r end) 0 (map ctxv ids)) with (enum_from 0 (map ctxv ids)).
  destruct (accepted_contexts ids rs 0) as [acc|e]; cbn [bind].
  - destruct H as [env' [H1 [H2 H3]]]. rewrite H1. cbn [bind app] in *.
    pose proof (H3 "ack" eq_refl) as Hack. pose proof (H3 "self" eq_refl) as Hself.
    pose proof (H3 "PacketFlags.PFC_SUPPORT_HEADER_SIGN" eq_refl) as Hg.
    cbn in Hack, Hself, Hg.
    unfold test. cbn. rewrite Hack. cbn. rewrite Hg. cbn.
    unfold k_ack_clears_sign. rewrite truthy_vb.
    destruct (negb (negb (Z.land fl c_PFC_SUPPORT_HEADER_SIGN =? 0))) eqn:Ef; cbn.
    + destruct tk as [t|]; repeat (first [rewrite Hack | rewrite Hself | rewrite Hg | rewrite H2]; cbn); reflexivity.
    + destruct tk as [t|]; repeat (first [rewrite Hack | rewrite Hself | rewrite Hg | rewrite H2]; cbn);
        destruct c as [ca cl cc cs]; destruct cs; reflexivity.
  - rewrite H. reflexivity.
Qed.

Arguments send_pdu : simpl never.
Arguments process_bind_ack : simpl never.
Arguments alter_loop : simpl never.
Arguments snoc_step : simpl never.
Arguments set_sign : simpl never.

Definition ab_while : pstmt := nth 6 (pf_body k_flow_async_bind) SPass.
Definition ab_cond : pexp := match ab_while with SWhile c _ => c | _ => PNone end.
Definition ab_body : list pstmt := match ab_while with SWhile _ b => b | _ => [] end.
Definition ab_assigned := ["sec_trailer"; "self"; "alter_context"; "alter_resp"; "_"; "in_token"].

Lemma alter_loop_eq ls complete in_token final_ctx s :
  alter_loop ls complete in_token final_ctx s =
  if k_bind_loop_guard complete then
    match ls with
    | [] => (Raise KeyError, s)
    | l :: ls =>
      let s1 := snoc_step s (Some (or_empty in_token)) in
      if k_bind_break (leg_token l) then (Ok tt, s1)
      else
        let p := SAlter (k_alter_flags (sign s1) c_PFC_SUPPORT_HEADER_SIGN c_PFC_NONE) (leg_token l) final_ctx in
        match send_pdu p EAlterResp s1 with
        | (Raise e, s2) => (Raise e, s2)
        | (Ok (rs, fl, tk), s2) =>
          match process_bind_ack rs fl tk final_ctx s2 with
          | (Raise e, s3) => (Raise e, s3)
          | (Ok (_, tk'), s3) => alter_loop ls (leg_complete l) tk' final_ctx s3
          end
        end
    end
  else (Ok tt, s).
Proof. destruct ls; reflexivity. Qed.

Lemma break_eq (t : bytes) : negb (negb (len t =? 0)) = k_bind_break t.
Proof. unfold k_bind_break, len. destruct t; reflexivity. Qed.


Lemma alter_while fuel : forall n (ls : list leg) complete in_token final s env,
  (List.length ls < n)%nat ->
  lookup "self" env = Some (VO (OSelf {| cn_auth := true; cn_legs := ls; cn_complete := complete; cn_st := s |})) ->
  lookup "in_token" env = Some (tokv in_token) ->
  lookup "final_contexts" env = Some (VL (map ctxv final)) ->
  lookup "AlterContextResponse" env = None ->
  match alter_loop ls complete in_token final s with
  | (Ok _, s') => exists env' c', while_loop WH fuel ab_cond ab_body n env = Ok (Next env')
       /\ lookup "self" env' = Some (VO (OSelf c')) /\ cn_st c' = s'
       /\ (forall x, existsb (String.eqb x) ab_assigned = false -> lookup x env' = lookup x env)
  | (Raise e, _) => while_loop WH fuel ab_cond ab_body n env = Raise e
  end.
Proof.
  induction n as [|n IH]; intros ls complete in_token final s env Hn Hself Htok Hfin Hg; [lia|].
  rewrite alter_loop_eq. cbn [while_loop].
  unfold ab_cond, ab_body, ab_while. cbn [nth pf_body k_flow_async_bind].
  unfold test. cbn. rewrite Hself. cbn. rewrite truthy_vb. unfold k_bind_loop_guard.
  destruct complete; cbn.
  - exists env, {| cn_auth := true; cn_legs := ls; cn_complete := true; cn_st := s |}. auto.
  - assert (Harg : forall (envx : @penv (pv obj)),
        (let* pat1 := (let* t := v_truthy hs_ext (tokv in_token) in Ok (t, tokv in_token, envx)) in
         match pat1 with (true, x, env2) => Ok (x, env2) | (false, _, env2) => Ok (VB [], env2) end)
        = Ok (VB (or_empty in_token), envx)).
    { intro envx. destruct in_token as [[|x r]|]; cbn; rewrite ?len_cons_nz, ?len_nil_z; reflexivity. }
    repeat (rewrite Hself; cbn). rewrite Htok. cbn [bind]. rewrite Harg. cbn. unfold step_hs. cbn [cn_legs].
    destruct ls as [|l ls']; [reflexivity|]. cbn. repeat (rewrite Hself; cbn).
    rewrite break_eq. destruct (k_bind_break (leg_token l)) eqn:Eb; cbn.
    + eexists. eexists. split; [reflexivity|]. split; [cbn; reflexivity|]. split; [reflexivity|].
      intros x Hx. unfold ab_assigned in Hx. frame_tac Hx. reflexivity.
    + rewrite Hfin. cbn. rewrite ids_of_ctxv. cbn. rewrite Hg. cbn.
      unfold create_alter_hs. cbn [cn_st].
      destruct (send_pdu _ EAlterResp _) as [[[[rs fl] tk]|e] s2] eqn:Es; cbn; [|reflexivity].
      rewrite Hfin. cbn. rewrite ids_of_ctxv. cbn.
      destruct (process_bind_ack rs fl tk final s2) as [[[acc tk']|e] s3] eqn:Ep; cbn; [|reflexivity].
      match goal with |- context [while_loop WH fuel ?c ?b n ?e] =>
        specialize (IH ls' (leg_complete l) tk' final s3 e) end.
      cbn in IH. cbn in Hn. specialize (IH ltac:(lia) eq_refl eq_refl Hfin Hg).
      destruct (alter_loop ls' (leg_complete l) tk' final s3) as [[u|e] s'].
      * destruct IH as [env' [c' [H1 [H2 [H3 H4]]]]]. exists env', c'.
        unfold ab_cond, ab_body, ab_while in H1. cbn [nth pf_body k_flow_async_bind] in H1.
        split; [exact H1|]. split; [exact H2|]. split; [exact H3|].
        intros x Hx. rewrite (H4 x Hx). unfold ab_assigned in Hx. frame_tac Hx. reflexivity.
      * unfold ab_cond, ab_body, ab_while in IH. cbn [nth pf_body k_flow_async_bind] in IH. exact IH.
Qed.

Arguments init_st : simpl never.
Arguments bind_run : simpl never.

Definition conn0 (auth : bool) (legs : list leg) (srv : list reply) : conn :=
  {| cn_auth := auth; cn_legs := legs; cn_complete := false; cn_st := init_st srv |}.

Lemma bind_run_eq auth legs srv ctxs :
  bind_run auth legs srv ctxs =
  let s0 := init_st srv in
  if negb auth then
    match send_pdu (SBind c_PFC_NONE None ctxs) EBindAck s0 with
    | (Raise e, s1) => (Raise e, s1)
    | (Ok (rs, _, _), s1) => (Ok rs, s1)
    end
  else
    match legs with
    | [] => (Raise KeyError, s0)
    | l :: ls =>
      let s1 := snoc_step s0 None in
      let s2 := set_sign s1 true in
      let p := SBind (Z.lor c_PFC_NONE c_PFC_SUPPORT_HEADER_SIGN) (Some (leg_token l)) ctxs in
      match send_pdu p EBindAck s2 with
      | (Raise e, s3) => (Raise e, s3)
      | (Ok (rs, fl, tk), s3) =>
        match process_bind_ack rs fl tk ctxs s3 with
        | (Raise e, s4) => (Raise e, s4)
        | (Ok (final_ctx, tk'), s4) =>
          match alter_loop ls (leg_complete l) tk' final_ctx s4 with
          | (Raise e, s5) => (Raise e, s5)
          | (Ok _, s5) => (Ok rs, s5)
          end
        end
      end
    end.
Proof. reflexivity. Qed.

(* AsyncRpcClient.bind(self, contexts): the whole handshake, for every provider script and every server script.
   fuel: one `while` iteration per leg after the first. *)
Lemma flow_async_bind fuel auth (legs : list leg) srv ids :
  (List.length legs <= fuel)%nat ->
  match bind_run auth legs srv ids with
  | (Ok rs, s) => exists fl tk o,
      run_self WH fuel k_flow_async_bind [VO (OSelf (conn0 auth legs srv)); VL (map ctxv ids)] = Ok (VO (OAck false rs fl tk), o)
      /\ (auth = true -> exists c', o = Some (VO (OSelf c')) /\ cn_st c' = s)
  | (Raise e, _) => run_self WH fuel k_flow_async_bind [VO (OSelf (conn0 auth legs srv)); VL (map ctxv ids)] = Raise e
  end.
Proof.
  intro Hf. rewrite bind_run_eq. cbv zeta.
  unfold run_self. cbn [bind_params pf_params pf_body k_flow_async_bind split_last_return rev app].
  match goal with |- context [exec_block WH fuel ?pre ?env] => change pre with (firstn 6 pre ++ skipn 6 pre) end.
  rewrite exec_block_app. cbn [firstn skipn].
  match goal with |- context [exec_block WH fuel ?rest _] =>
    match rest with [SWhile _ _] => remember rest as wh eqn:Ewh end end.
  destruct auth; cbn [negb].
  - (* authenticated *)
    destruct legs as [|l ls].
    + cbn. reflexivity.
    + cbn. rewrite ids_of_ctxv. cbn.
      destruct (send_pdu _ EBindAck _) as [[[[rs fl] tk]|e] s3] eqn:Es; cbn; [|reflexivity].
      rewrite ids_of_ctxv. cbn.
      destruct (process_bind_ack rs fl tk ids s3) as [[[fin tk']|e] s4] eqn:Ep; cbn; [|reflexivity].
      subst wh. rewrite exec_block_cons, exec_while.
      match goal with |- context [while_loop WH fuel ?c ?b fuel ?e] =>
        pose proof (alter_while fuel fuel ls (leg_complete l) tk' fin s4 e) as H end.
      cbn in Hf. cbn in H. specialize (H ltac:(lia) eq_refl eq_refl eq_refl eq_refl).
      unfold ab_cond, ab_body, ab_while in H. cbn [nth pf_body k_flow_async_bind] in H.
      destruct (alter_loop ls (leg_complete l) tk' fin s4) as [[u|e] s5].
      * destruct H as [env' [c' [H1 [H2 [H3 H4]]]]]. rewrite H1. cbn [bind].
        pose proof (H4 "bind_ack" eq_refl) as Hb. cbn in Hb.
        cbn. rewrite Hb. cbn. rewrite H2.
        exists fl, tk. eexists. split; [reflexivity|]. intros _. exists c'. auto.
      * rewrite H. reflexivity.
  - (* anonymous *)
    cbn. rewrite ids_of_ctxv. cbn. unfold create_bind_hs. cbn.
    destruct (send_pdu _ EBindAck _) as [[[[rs fl] tk]|e] s1] eqn:Es; cbn; [|reflexivity].
    exists fl, tk. eexists. split; [reflexivity|]. discriminate.
Qed.

Definition ack_results (v : pv obj) : list Z := match v with VO (OAck _ rs _ _) => rs | _ => [] end.

(* ... and through `run`: bind returns the bind_ack whose result vector the model returns *)
Lemma flow_async_bind_run fuel auth (legs : list leg) srv ids :
  (List.length legs <= fuel)%nat ->
  (let* v := run WH fuel k_flow_async_bind [VO (OSelf (conn0 auth legs srv)); VL (map ctxv ids)] in Ok (ack_results v))
  = fst (bind_run auth legs srv ids).
Proof.
  intro Hf. rewrite (run_of_run_self WH fuel k_flow_async_bind _ _ _ eq_refl).
  pose proof (flow_async_bind fuel auth legs srv ids Hf) as H.
  destruct (bind_run auth legs srv ids) as [[rs|e] s].
  - destruct H as [fl [tk [o [H _]]]]. rewrite H. reflexivity.
  - rewrite H. reflexivity.
Qed.

(* ---- SyncRpcClient.bind: the same program up to `await self._wrap_sync(f, args..)` for `f(args..)` -------------------------
   unwrap_sync rewrites every  self._wrap_sync(a.m, args..)  into  a.m(args..)  and nothing else. *)
Fixpoint unwrap_sync (e : pexp) : pexp :=
  match e with
  | PAttr e' a => PAttr (unwrap_sync e') a
  | PCall f args => PCall f (map unwrap_sync args)
  | PMeth m recv args =>
    match String.eqb m "_wrap_sync", recv, args with
    | true, PName "self", PAttr a f :: rest => PMeth f (unwrap_sync a) (map unwrap_sync rest)
    | _, _, _ => PMeth m (unwrap_sync recv) (map unwrap_sync args)
    end
  | PCmp op a b => PCmp op (unwrap_sync a) (unwrap_sync b)
  | PNot e' => PNot (unwrap_sync e')
  | PAnd a b => PAnd (unwrap_sync a) (unwrap_sync b)
  | POr a b => POr (unwrap_sync a) (unwrap_sync b)
  | PBin op a b => PBin op (unwrap_sync a) (unwrap_sync b)
  | PNeg e' => PNeg (unwrap_sync e')
  | PTuple l => PTuple (map unwrap_sync l)
  | PList l => PList (map unwrap_sync l)
  | PIfExp c a b => PIfExp (unwrap_sync c) (unwrap_sync a) (unwrap_sync b)
  | PSub e' i => PSub (unwrap_sync e') (unwrap_sync i)
  | PSlice e' lo hi => PSlice (unwrap_sync e') (unwrap_sync lo) (unwrap_sync hi)
  | PComp elt xs it conds => PComp (unwrap_sync elt) xs (unwrap_sync it) (map unwrap_sync conds)
  | other => other
  end.
Fixpoint unwrap_sync_stmt (s : pstmt) : pstmt :=
  match s with
  | SAssign xs e => SAssign xs (unwrap_sync e)
  | SSetAttr x a e => SSetAttr x a (unwrap_sync e)
  | SReturn e => SReturn (unwrap_sync e)
  | SIf c a b => SIf (unwrap_sync c) (map unwrap_sync_stmt a) (map unwrap_sync_stmt b)
  | SExpr e => SExpr (unwrap_sync e)
  | SWhile c body => SWhile (unwrap_sync c) (map unwrap_sync_stmt body)
  | SFor xs it body => SFor xs (unwrap_sync it) (map unwrap_sync_stmt body)
  | SWith ctx x body => SWith (unwrap_sync ctx) x (map unwrap_sync_stmt body)
  | other => other
  end.

Lemma flow_bind_twin :
  pf_params k_flow_sync_bind = pf_params k_flow_async_bind /\
  pf_body k_flow_sync_bind = map unwrap_sync_stmt (pf_body k_flow_async_bind).
Proof. split; reflexivity. Qed.

(* the anonymous bind returns from inside `if not self._auth:`, so run_self does not see the client afterwards (flow_async_bind gives the
   state only when auth = true).  Here: the statements up to and including `bind_ack = await self._send_pdu(bind, BindAck)` -- after which
   the function returns bind_ack at once -- leave the client in the model's final state *)
Lemma flow_async_bind_anonymous_state fuel (legs : list leg) srv ids :
  match bind_run false legs srv ids with
  | (Ok rs, s) => exists env' c' fl tk,
      exec_block WH fuel (firstn 4 (pf_body k_flow_async_bind)) [("self", VO (OSelf (conn0 false legs srv))); ("contexts", VL (map ctxv ids))]
        = Ok (Next env')
      /\ lookup "self" env' = Some (VO (OSelf c')) /\ cn_st c' = s /\ lookup "bind_ack" env' = Some (VO (OAck false rs fl tk))
  | (Raise e, _) =>
      exec_block WH fuel (firstn 4 (pf_body k_flow_async_bind)) [("self", VO (OSelf (conn0 false legs srv))); ("contexts", VL (map ctxv ids))]
        = Raise e
  end.
Proof.
  rewrite bind_run_eq. cbv zeta. cbn [negb firstn pf_body k_flow_async_bind].
  cbn. rewrite ids_of_ctxv. cbn. unfold create_bind_hs. cbn.
  destruct (send_pdu _ EBindAck _) as [[[[rs fl] tk]|e] s1] eqn:Es; cbn; [|reflexivity].
  eexists. eexists. exists fl, tk. split; [reflexivity|]. cbn. auto.
Qed.

(* ==== SyncRpcClient.bind, semantically: self._auth.step(..) is a method call on an attribute of the local `self`; the interpreter writes the
   provider back into self (PyAst.place_set through x_setattr "_auth"), so the provider's progress is visible to the loop test ==== *)
Definition sb_while : pstmt := nth 6 (pf_body k_flow_sync_bind) SPass.
Definition sb_cond : pexp := match sb_while with SWhile c _ => c | _ => PNone end.
Definition sb_body : list pstmt := match sb_while with SWhile _ b => b | _ => [] end.
Definition sb_assigned := ["sec_trailer"; "self"; "alter_context"; "alter_resp"; "_"; "in_token"].

Lemma alter_while_sync fuel : forall n (ls : list leg) complete in_token final s env,
  (List.length ls < n)%nat ->
  lookup "self" env = Some (VO (OSelf {| cn_auth := true; cn_legs := ls; cn_complete := complete; cn_st := s |})) ->
  lookup "in_token" env = Some (tokv in_token) ->
  lookup "final_contexts" env = Some (VL (map ctxv final)) ->
  lookup "AlterContextResponse" env = None ->
  match alter_loop ls complete in_token final s with
  | (Ok _, s') => exists env' c', while_loop WH fuel sb_cond sb_body n env = Ok (Next env')
       /\ lookup "self" env' = Some (VO (OSelf c')) /\ cn_st c' = s'
       /\ (forall x, existsb (String.eqb x) sb_assigned = false -> lookup x env' = lookup x env)
  | (Raise e, _) => while_loop WH fuel sb_cond sb_body n env = Raise e
  end.
Proof.
  induction n as [|n IH]; intros ls complete in_token final s env Hn Hself Htok Hfin Hg; [lia|].
  rewrite alter_loop_eq. cbn [while_loop].
  unfold sb_cond, sb_body, sb_while. cbn [nth pf_body k_flow_sync_bind].
  unfold test. cbn. rewrite Hself. cbn. rewrite truthy_vb. unfold k_bind_loop_guard.
  destruct complete; cbn.
  - exists env, {| cn_auth := true; cn_legs := ls; cn_complete := true; cn_st := s |}. auto.
  - assert (Harg : forall (envx : @penv (pv obj)),
        (let* pat1 := (let* t := v_truthy hs_ext (tokv in_token) in Ok (t, tokv in_token, envx)) in
         match pat1 with (true, x, env2) => Ok (x, env2) | (false, _, env2) => Ok (VB [], env2) end)
        = Ok (VB (or_empty in_token), envx)).
    { intro envx. destruct in_token as [[|x r]|]; cbn; rewrite ?len_cons_nz, ?len_nil_z; reflexivity. }
    repeat (rewrite Hself; cbn). rewrite Htok. cbn [bind]. rewrite Harg. cbn. unfold step_hs. cbn [cn_legs].
    destruct ls as [|l ls']; [reflexivity|]. cbn. repeat (rewrite Hself; cbn).
    rewrite break_eq. destruct (k_bind_break (leg_token l)) eqn:Eb; cbn.
    + eexists. eexists. split; [reflexivity|]. split; [cbn; reflexivity|]. split; [reflexivity|].
      intros x Hx. unfold sb_assigned in Hx. frame_tac Hx. reflexivity.
    + rewrite Hfin. cbn. rewrite ids_of_ctxv. cbn. rewrite Hg. cbn.
      unfold create_alter_hs. cbn [cn_st].
      destruct (send_pdu _ EAlterResp _) as [[[[rs fl] tk]|e] s2] eqn:Es; cbn; [|reflexivity].
      rewrite Hfin. cbn. rewrite ids_of_ctxv. cbn.
      destruct (process_bind_ack rs fl tk final s2) as [[[acc tk']|e] s3] eqn:Ep; cbn; [|reflexivity].
      match goal with |- context [while_loop WH fuel ?c ?b n ?e] =>
        specialize (IH ls' (leg_complete l) tk' final s3 e) end.
      cbn in IH. cbn in Hn. specialize (IH ltac:(lia) eq_refl eq_refl Hfin Hg).
      destruct (alter_loop ls' (leg_complete l) tk' final s3) as [[u|e] s'].
      * destruct IH as [env' [c' [H1 [H2 [H3 H4]]]]]. exists env', c'.
        unfold sb_cond, sb_body, sb_while in H1. cbn [nth pf_body k_flow_sync_bind] in H1.
        split; [exact H1|]. split; [exact H2|]. split; [exact H3|].
        intros x Hx. rewrite (H4 x Hx). unfold sb_assigned in Hx. frame_tac Hx. reflexivity.
      * unfold sb_cond, sb_body, sb_while in IH. cbn [nth pf_body k_flow_sync_bind] in IH. exact IH.
Qed.

(* SyncRpcClient.bind(self, contexts): the whole handshake, for every provider script and every server script.
   fuel: one `while` iteration per leg after the first. *)
Lemma flow_sync_bind fuel auth (legs : list leg) srv ids :
  (List.length legs <= fuel)%nat ->
  match bind_run auth legs srv ids with
  | (Ok rs, s) => exists fl tk o,
      run_self WH fuel k_flow_sync_bind [VO (OSelf (conn0 auth legs srv)); VL (map ctxv ids)] = Ok (VO (OAck false rs fl tk), o)
      /\ (auth = true -> exists c', o = Some (VO (OSelf c')) /\ cn_st c' = s)
  | (Raise e, _) => run_self WH fuel k_flow_sync_bind [VO (OSelf (conn0 auth legs srv)); VL (map ctxv ids)] = Raise e
  end.
Proof.
  intro Hf. rewrite bind_run_eq. cbv zeta.
  unfold run_self. cbn [bind_params pf_params pf_body k_flow_sync_bind split_last_return rev app].
  match goal with |- context [exec_block WH fuel ?pre ?env] => change pre with (firstn 6 pre ++ skipn 6 pre) end.
  rewrite exec_block_app. cbn [firstn skipn].
  match goal with |- context [exec_block WH fuel ?rest _] =>
    match rest with [SWhile _ _] => remember rest as wh eqn:Ewh end end.
  destruct auth; cbn [negb].
  - (* authenticated *)
    destruct legs as [|l ls].
    + cbn. reflexivity.
    + cbn. rewrite ids_of_ctxv. cbn.
      destruct (send_pdu _ EBindAck _) as [[[[rs fl] tk]|e] s3] eqn:Es; cbn; [|reflexivity].
      rewrite ids_of_ctxv. cbn.
      destruct (process_bind_ack rs fl tk ids s3) as [[[fin tk']|e] s4] eqn:Ep; cbn; [|reflexivity].
      subst wh. rewrite exec_block_cons, exec_while.
      match goal with |- context [while_loop WH fuel ?c ?b fuel ?e] =>
        pose proof (alter_while_sync fuel fuel ls (leg_complete l) tk' fin s4 e) as H end.
      cbn in Hf. cbn in H. specialize (H ltac:(lia) eq_refl eq_refl eq_refl eq_refl).
      unfold sb_cond, sb_body, sb_while in H. cbn [nth pf_body k_flow_sync_bind] in H.
      destruct (alter_loop ls (leg_complete l) tk' fin s4) as [[u|e] s5].
      * destruct H as [env' [c' [H1 [H2 [H3 H4]]]]]. rewrite H1. cbn [bind].
        pose proof (H4 "bind_ack" eq_refl) as Hb. cbn in Hb.
        cbn. rewrite Hb. cbn. rewrite H2.
        exists fl, tk. eexists. split; [reflexivity|]. intros _. exists c'. auto.
      * rewrite H. reflexivity.
  - (* anonymous *)
    cbn. rewrite ids_of_ctxv. cbn. unfold create_bind_hs. cbn.
    destruct (send_pdu _ EBindAck _) as [[[[rs fl] tk]|e] s1] eqn:Es; cbn; [|reflexivity].
    exists fl, tk. eexists. split; [reflexivity|]. discriminate.
Qed.


(* ... and through `run`: bind returns the bind_ack whose result vector the model returns *)
Lemma flow_sync_bind_run fuel auth (legs : list leg) srv ids :
  (List.length legs <= fuel)%nat ->
  (let* v := run WH fuel k_flow_sync_bind [VO (OSelf (conn0 auth legs srv)); VL (map ctxv ids)] in Ok (ack_results v))
  = fst (bind_run auth legs srv ids).
Proof.
  intro Hf. rewrite (run_of_run_self WH fuel k_flow_sync_bind _ _ _ eq_refl).
  pose proof (flow_sync_bind fuel auth legs srv ids Hf) as H.
  destruct (bind_run auth legs srv ids) as [[rs|e] s].
  - destruct H as [fl [tk [o [H _]]]]. rewrite H. reflexivity.
  - rewrite H. reflexivity.
Qed.


(* the anonymous bind returns from inside `if not self._auth:`, so run_self does not see the client afterwards (flow_sync_bind gives the
   state only when auth = true).  Here: the statements up to and including `bind_ack = self._send_pdu(bind, BindAck)` -- after which
   the function returns bind_ack at once -- leave the client in the model's final state *)
Lemma flow_sync_bind_anonymous_state fuel (legs : list leg) srv ids :
  match bind_run false legs srv ids with
  | (Ok rs, s) => exists env' c' fl tk,
      exec_block WH fuel (firstn 4 (pf_body k_flow_sync_bind)) [("self", VO (OSelf (conn0 false legs srv))); ("contexts", VL (map ctxv ids))]
        = Ok (Next env')
      /\ lookup "self" env' = Some (VO (OSelf c')) /\ cn_st c' = s /\ lookup "bind_ack" env' = Some (VO (OAck false rs fl tk))
  | (Raise e, _) =>
      exec_block WH fuel (firstn 4 (pf_body k_flow_sync_bind)) [("self", VO (OSelf (conn0 false legs srv))); ("contexts", VL (map ctxv ids))]
        = Raise e
  end.
Proof.
  rewrite bind_run_eq. cbv zeta. cbn [negb firstn pf_body k_flow_sync_bind].
  cbn. rewrite ids_of_ctxv. cbn. unfold create_bind_hs. cbn.
  destruct (send_pdu _ EBindAck _) as [[[[rs fl] tk]|e] s1] eqn:Es; cbn; [|reflexivity].
  eexists. eexists. exists fl, tk. split; [reflexivity|]. cbn. auto.
Qed.

