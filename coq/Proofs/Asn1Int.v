(* C07: INTEGER. For every z : Z the writer's content octets are the minimal two's-complement DER
   encoding (Spec/DerSpec.v der_int); the reader computes the two's-complement value of any non-empty
   content; DER INTEGER encodings are unique. *)
From V Require Import Prelude.Base Prelude.PyInt Prelude.PySlice gen.K_asn1 gen.C_asn1 Model.Asn1 Spec.DerSpec.
From V Require Import Proofs.Asn1Lib Proofs.Asn1Hdr Proofs.Asn1Tlv.

Lemma rev_neq_nil {A} (l : list A) : l <> [] -> rev l <> [].
Proof. intros H C. apply (f_equal (@rev A)) in C. rewrite rev_involutive in C. cbn in C. congruence. Qed.

Lemma top_digit l : wfb l = true -> l <> [] ->
  exists init t, l = init ++ [t] /\ 0 <= t < 256 /\ wfb init = true /\ le_val l = le_val init + P (length init) * t /\
    0 <= le_val init < P (length init) /\ last l 0 = t /\ length l = S (length init).
Proof.
  intros Hw Hne. destruct (exists_last Hne) as (init & t & ->). exists init, t.
  rewrite wfb_app in Hw. apply andb_prop in Hw. destruct Hw as [Hi Ht]. apply wfb_cons in Ht.
  split; [reflexivity|]. split; [tauto|]. split; [exact Hi|]. split; [rewrite le_val_app; cbn [le_val]; lia|].
  split; [apply le_val_range; exact Hi|]. split; [apply last_app_single|]. rewrite app_length. cbn [length]. lia.
Qed.

(* ---- writer, magnitude loops *)
Lemma int_mag_pos fuel : forall v, 0 <= v < 2 ^ Z.of_nat fuel ->
  exists l, int_mag fuel false k_int_limit_pos v = Ok l /\ wfb l = true /\ le_val l = v /\ l <> [] /\ 0 <= last l 0 <= 127 /\
    ((2 <= length l)%nat -> 128 * P (length l - 2) <= v).
Proof.
  unfold k_int_limit_pos.
  assert (Hbase : forall v, 0 <= v <= 127 -> k_int_top v false = v).
  { intros v Hv. unfold k_int_top. rewrite land_255. apply Z.mod_small. lia. }
  induction fuel as [|f IH]; intros v Hv.
  - cbn in Hv. assert (v = 0) by lia. subst. cbn [int_mag]. unfold k_int_more. cbn [Z.gtb Z.compare].
    rewrite Hbase by lia. exists [0]. cbn. repeat split; try discriminate; try lia.
  - cbn [int_mag]. unfold k_int_more. destruct (v >? 127) eqn:E.
    + unfold k_int_digit, k_int_shift. rewrite land_255, shiftr_8.
      rewrite Nat2Z.inj_succ, Z.pow_succ_r in Hv by lia.
      destruct (IH (v / 256)) as (l & E1 & Hw & Hval & Hne & Hlast & Hmin); [lia|].
      rewrite E1. cbn [bind]. exists (v mod 256 :: l).
      split; [reflexivity|]. split; [apply wfb_cons; split; [lia|exact Hw]|].
      split; [cbn [le_val]; rewrite Hval; lia|]. split; [discriminate|].
      split; [destruct l; [congruence|exact Hlast]|].
      intros _. cbn [length]. destruct l as [|a [|b l]]; [congruence| |].
      * change (S (length [a]) - 2)%nat with 0%nat. rewrite P_0. lia.
      * specialize (Hmin ltac:(cbn [length]; lia)). cbn [length] in *.
        replace (S (S (S (length l))) - 2)%nat with (S (length l)) by lia.
        replace (S (S (length l)) - 2)%nat with (length l) in Hmin by lia. rewrite P_S. lia.
    + rewrite Hbase by lia. exists [v]. split; [reflexivity|]. split; [apply wfb_single; lia|].
      cbn. repeat split; try discriminate; lia.
Qed.

Lemma int_mag_neg fuel : forall m, 0 <= m < 2 ^ Z.of_nat fuel ->
  exists l, int_mag fuel true k_int_limit_neg m = Ok l /\ wfb l = true /\ le_val l = P (length l) - 1 - m /\ l <> [] /\
    m <= 128 * P (length l - 1) + (P (length l - 1) - 1) /\ ((2 <= length l)%nat -> 128 * P (length l - 2) < m).
Proof.
  unfold k_int_limit_neg.
  assert (Hbase : forall v, 0 <= v <= 128 -> k_int_top v true = 255 - v).
  { intros v Hv. unfold k_int_top. rewrite land_255. apply Z.mod_small. lia. }
  assert (Hone : forall m, 0 <= m <= 128 -> exists l, Ok [255 - m] = Ok l /\ wfb l = true /\ le_val l = P (length l) - 1 - m /\ l <> [] /\
    m <= 128 * P (length l - 1) + (P (length l - 1) - 1) /\ ((2 <= length l)%nat -> 128 * P (length l - 2) < m)).
  { intros m Hm. exists [255 - m]. split; [reflexivity|]. split; [apply wfb_single; lia|].
    cbn [length le_val]. change (1 - 1)%nat with 0%nat. rewrite P_1, P_0. repeat split; try discriminate; lia. }
  induction fuel as [|f IH]; intros m Hm.
  - cbn in Hm. assert (m = 0) by lia. subst. cbn [int_mag]. unfold k_int_more. cbn [Z.gtb Z.compare].
    rewrite Hbase by lia. apply Hone. lia.
  - cbn [int_mag]. unfold k_int_more. destruct (m >? 128) eqn:E.
    + unfold k_int_digit, k_int_shift, k_int_compl. rewrite land_255, shiftr_8.
      rewrite Nat2Z.inj_succ, Z.pow_succ_r in Hm by lia.
      destruct (IH (m / 256)) as (l & E1 & Hw & Hval & Hne & Hup & Hlow); [lia|].
      rewrite E1. cbn [bind]. exists (255 - m mod 256 :: l).
      split; [reflexivity|]. split; [apply wfb_cons; split; [lia|exact Hw]|].
      destruct l as [|a l]; [congruence|]. cbn [length] in *.
      replace (S (length l) - 1)%nat with (length l) in Hup by lia.
      replace (S (S (length l)) - 1)%nat with (S (length l)) by lia.
      split; [cbn [le_val] in *; rewrite !P_S in *; lia|]. split; [discriminate|].
      split; [rewrite P_S; pose proof (P_pos (length l)); lia|].
      intros _. replace (S (S (length l)) - 2)%nat with (length l) by lia.
      destruct l as [|b l].
      * cbn [length]. rewrite P_0. lia.
      * specialize (Hlow ltac:(cbn [length]; lia)). cbn [length] in *.
        replace (S (S (length l)) - 2)%nat with (length l) in Hlow by lia. rewrite P_S. lia.
    + rewrite Hbase by lia. apply Hone. lia.
Qed.

Lemma int_incr_spec l : wfb l = true -> le_val l < P (length l) - 1 ->
  wfb (int_incr l) = true /\ le_val (int_incr l) = le_val l + 1 /\ length (int_incr l) = length l.
Proof.
  induction l as [|d r IH]; cbn [int_incr le_val length]; intros Hw Hlt.
  - rewrite P_0 in Hlt. lia.
  - apply wfb_cons in Hw. destruct Hw as [Hd Hr]. unfold k_int_carry. destruct (d <? 255) eqn:E.
    + split; [apply wfb_cons; split; [lia|exact Hr]|]. split; [cbn [le_val]; lia|reflexivity].
    + rewrite P_S in Hlt. pose proof (le_val_range r Hr). destruct IH as (Hw' & Hv' & Hl'); [exact Hr|lia|].
      split; [apply wfb_cons; split; [lia|exact Hw']|]. split; [cbn [le_val]; lia|cbn [length]; lia].
Qed.

(* ---- two's complement value of a most-significant-first list, via its reverse *)
Lemma tc_val_rev l : l <> [] -> tc_val (rev l) = if last l 0 <? 128 then le_val l else le_val l - P (length l).
Proof.
  intros Hne. unfold tc_val. destruct (rev l) as [|b0 r] eqn:E.
  - apply (f_equal (@rev Z)) in E. rewrite rev_involutive in E. cbn in E. congruence.
  - assert (Hb : b0 = last l 0) by (rewrite <- hd_rev, E; reflexivity).
    rewrite <- E. unfold be_val. rewrite rev_involutive, rev_length, Hb. reflexivity.
Qed.

(* value-minimal => first nine bits not all equal *)
Lemma value_minimal bs : wfb bs = true ->
  ((2 <= length bs)%nat -> 128 * P (length bs - 2) <= tc_val bs \/ tc_val bs < - 128 * P (length bs - 2)) -> int_minimal bs.
Proof.
  intros Hw H. destruct bs as [|b0 [|b1 r]]; cbn [int_minimal]; auto.
  specialize (H ltac:(cbn [length]; lia)). cbn [length] in H. replace (S (S (length r)) - 2)%nat with (length r) in H by lia.
  apply wfb_cons in Hw. destruct Hw as [H0 Hw]. apply wfb_cons in Hw. destruct Hw as [H1 Hw].
  pose proof (be_val_range r Hw) as Hr. unfold tc_val in H. rewrite !be_val_cons in H. cbn [length] in H. rewrite !P_S in H.
  pose proof (P_pos (length r)) as Hp. set (p := P (length r)) in *.
  split; intros [Ha Hb]; subst b0.
  - change (0 <? 128) with true in H. cbv iota in H. assert (b1 * p <= 127 * p) by (apply Z.mul_le_mono_nonneg_r; lia). assert (0 <= b1 * p <= 255 * p) by (split; [apply Z.mul_nonneg_nonneg; lia | apply Z.mul_le_mono_nonneg_r; lia]). lia.
  - change (255 <? 128) with false in H. cbv iota in H. assert (128 * p <= b1 * p) by (apply Z.mul_le_mono_nonneg_r; lia). assert (0 <= b1 * p <= 255 * p) by (split; [apply Z.mul_nonneg_nonneg; lia | apply Z.mul_le_mono_nonneg_r; lia]). lia.
Qed.

Theorem pack_int_content_der : forall z, exists bs, pack_int_content z = Ok bs /\ der_int z bs.
Proof.
  intros z. unfold pack_int_content, k_int_is_neg. destruct (z <? 0) eqn:Ez.
  - (* negative *)
    destruct (int_mag_neg (bits_fuel (- z)) (- z)) as (l & E1 & Hw & Hval & Hne & Hup & Hlow); [split; [lia|apply bits_fuel_ok; lia]|].
    rewrite E1. cbn [bind andb].
    destruct (int_incr_spec l Hw ltac:(lia)) as (Hw1 & Hv1 & Hl1). set (l1 := int_incr l) in *.
    assert (Hne1 : l1 <> []) by (intros C; rewrite C in Hl1; destruct l; [congruence|discriminate]).
    destruct (top_digit l1 Hw1 Hne1) as (init & t & El & Ht & Hwi & Hvt & Hri & Hlast & Hlen).
    assert (Hn : length l = S (length init)) by lia.
    rewrite Hn in *. replace (S (length init) - 1)%nat with (length init) in * by lia.
    rewrite P_S in *. pose proof (P_pos (length init)) as Hp. set (p := P (length init)) in *.
    assert (Ht127 : 127 <= t) by nia.
    rewrite Hlast. destruct (t =? 127) eqn:E127.
    + assert (t = 127) by lia. subst t. exists (rev (l1 ++ [255])). split; [reflexivity|].
      assert (Hw2 : wfb (l1 ++ [255]) = true) by (rewrite wfb_app, Hw1; reflexivity).
      assert (Hlen2 : length (l1 ++ [255]) = S (S (length init))) by (rewrite app_length; cbn [length]; lia).
      assert (Htc : tc_val (rev (l1 ++ [255])) = z).
      { rewrite tc_val_rev by (destruct l1; discriminate). rewrite last_app_single. change (255 <? 128) with false. cbv iota.
        rewrite le_val_app, Hlen2, Hl1. cbn [le_val]. rewrite !P_S. fold p. lia. }
      split; [now rewrite wfb_rev|]. split; [apply rev_neq_nil; destruct l1; discriminate|]. split; [exact Htc|].
      apply value_minimal; [now rewrite wfb_rev|]. rewrite rev_length, Hlen2, Htc. intros _.
      replace (S (S (length init)) - 2)%nat with (length init) by lia. fold p. right. nia.
    + exists (rev l1). split; [reflexivity|].
      assert (Htc : tc_val (rev l1) = z).
      { rewrite tc_val_rev by exact Hne1. rewrite Hlast. destruct (t <? 128) eqn:E; [lia|]. rewrite Hl1, P_S. fold p. lia. }
      split; [now rewrite wfb_rev|]. split; [apply rev_neq_nil; assumption|].
      split; [exact Htc|].
      apply value_minimal; [now rewrite wfb_rev|]. rewrite rev_length, Htc, Hl1. intros H2. right.
      specialize (Hlow H2). lia.
  - (* non-negative *)
    destruct (int_mag_pos (bits_fuel z) z) as (l & E1 & Hw & Hval & Hne & Hlast & Hmin); [split; [lia|apply bits_fuel_ok; lia]|].
    rewrite E1. cbn [bind andb]. exists (rev l). split; [reflexivity|].
    assert (Htc : tc_val (rev l) = z).
    { rewrite tc_val_rev by exact Hne. destruct (last l 0 <? 128) eqn:E; [exact Hval|lia]. }
    split; [now rewrite wfb_rev|]. split; [apply rev_neq_nil; assumption|].
    split; [exact Htc|].
    apply value_minimal; [now rewrite wfb_rev|]. rewrite rev_length, Htc. intros H2. left. exact (Hmin H2).
Qed.

(* ---- reader *)
Lemma fold_int l : forall acc, wfb l = true -> fold_left k_int_fold l acc = acc * P (length l) + be_val l.
Proof.
  induction l as [|x l IH]; intros acc Hw; cbn [fold_left length].
  - rewrite P_0, be_val_nil. lia.
  - apply wfb_cons in Hw. destruct Hw as [Hx Hw]. rewrite IH by exact Hw. rewrite k_int_fold_spec by lia.
    rewrite be_val_cons, P_S. lia.
Qed.
Lemma int_carry_spec l : wfb l = true -> le_val l < P (length l) - 1 ->
  wfb (int_carry l) = true /\ le_val (int_carry l) = le_val l + 1 /\ length (int_carry l) = length l.
Proof.
  induction l as [|d r IH]; cbn [int_carry le_val length]; intros Hw Hlt.
  - rewrite P_0 in Hlt. lia.
  - apply wfb_cons in Hw. destruct Hw as [Hd Hr]. destruct (d =? 255) eqn:E.
    + rewrite P_S in Hlt. pose proof (le_val_range r Hr). destruct IH as (Hw' & Hv' & Hl'); [exact Hr|lia|].
      split; [apply wfb_cons; split; [lia|exact Hw']|]. split; [cbn [le_val]; lia|cbn [length]; lia].
    + split; [apply wfb_cons; split; [lia|exact Hr]|]. split; [cbn [le_val]; lia|reflexivity].
Qed.
Lemma le_val_compl l : wfb l = true -> le_val (map (fun x => 255 - x) l) = P (length l) - 1 - le_val l.
Proof.
  induction l as [|x l IH]; intros Hw; cbn [map le_val length]; [rewrite P_0; lia|].
  apply wfb_cons in Hw. rewrite IH by tauto. rewrite P_S. lia.
Qed.

Theorem read_int_content_tc raw : wfb raw = true -> raw <> [] -> read_int_content raw = Ok (tc_val raw).
Proof.
  intros Hw Hne. destruct raw as [|b0 r] eqn:Eraw; [congruence|]. rewrite <- Eraw in *.
  assert (Hb0 : 0 <= b0 < 256) by (rewrite Eraw in Hw; apply wfb_cons in Hw; tauto).
  assert (Htc : tc_val raw = if b0 <? 128 then be_val raw else be_val raw - P (length raw)) by (rewrite Eraw; reflexivity).
  rewrite Htc. unfold read_int_content. rewrite Eraw at 1. rewrite cont_bit_spec by lia.
  destruct (b0 <? 128) eqn:E; cbn [negb].
  - rewrite fold_int by exact Hw. f_equal; ring.
  - set (c := rev (map (fun x => 255 - x) raw)).
    assert (Hwc : wfb c = true) by (unfold c; rewrite wfb_rev; apply wfb_map_compl; exact Hw).
    assert (Hlc : length c = length raw) by (unfold c; rewrite rev_length, map_length; reflexivity).
    assert (Hvc : le_val c = P (length raw) - 1 - be_val raw).
    { unfold c. rewrite <- map_rev, le_val_compl by (now rewrite wfb_rev). rewrite rev_length. reflexivity. }
    assert (Hbig : 128 * P (length r) <= be_val raw).
    { rewrite Eraw, be_val_cons. rewrite Eraw in Hw. apply wfb_cons in Hw. pose proof (be_val_range r (proj2 Hw)). pose proof (P_pos (length r)). nia. }
    pose proof (P_pos (length r)).
    destruct (int_carry_spec c Hwc) as (Hw2 & Hv2 & Hl2); [rewrite Hlc, Hvc; lia|].
    rewrite fold_int by (now rewrite wfb_rev). unfold be_val at 1. rewrite rev_involutive, Hv2, Hvc. unfold k_int_negate. f_equal. lia.
Qed.

(* ---- DER INTEGER encodings are unique (minimal = unique) *)
Lemma tc_range bs : wfb bs = true -> bs <> [] -> - 128 * P (length bs - 1) <= tc_val bs < 128 * P (length bs - 1).
Proof.
  intros Hw Hne. destruct bs as [|b0 r]; [congruence|]. apply wfb_cons in Hw. destruct Hw as [H0 Hw].
  pose proof (be_val_range r Hw). unfold tc_val. rewrite be_val_cons. cbn [length]. replace (S (length r) - 1)%nat with (length r) by lia.
  rewrite P_S. pose proof (P_pos (length r)). destruct (b0 <? 128) eqn:E; nia.
Qed.
Lemma int_minimal_value bs : wfb bs = true -> int_minimal bs -> (2 <= length bs)%nat ->
  128 * P (length bs - 2) <= tc_val bs \/ tc_val bs < - 128 * P (length bs - 2).
Proof.
  intros Hw Hm Hl. destruct bs as [|b0 [|b1 r]]; cbn [length] in Hl; try lia. cbn [int_minimal] in Hm. destruct Hm as [Ha Hb].
  apply wfb_cons in Hw. destruct Hw as [H0 Hw]. apply wfb_cons in Hw. destruct Hw as [H1 Hw].
  pose proof (be_val_range r Hw) as Hr. unfold tc_val. rewrite !be_val_cons. cbn [length].
  replace (S (S (length r)) - 2)%nat with (length r) by lia. rewrite !P_S.
  pose proof (P_pos (length r)) as Hp. set (p := P (length r)) in *.
  destruct (b0 <? 128) eqn:E.
  - left. destruct (Z.eq_dec b0 0) as [->|Hn0]; [assert (128 <= b1) by lia; nia|nia].
  - right. destruct (Z.eq_dec b0 255) as [->|Hn]; [assert (b1 < 128) by lia; nia|nia].
Qed.
Theorem der_int_unique z b1 b2 : der_int z b1 -> der_int z b2 -> b1 = b2.
Proof.
  assert (Hlen : forall a b, der_int z a -> der_int z b -> (length a < length b)%nat -> False).
  { intros a b (Hwa & Hna & Hva & Hma) (Hwb & Hnb & Hvb & Hmb) Hlt.
    pose proof (tc_range a Hwa Hna) as Hra. rewrite Hva in Hra.
    assert (Hla : (1 <= length a)%nat) by (destruct a; [congruence|cbn; lia]).
    pose proof (int_minimal_value b Hwb Hmb ltac:(lia)) as Hv. rewrite Hvb in Hv.
    pose proof (P_mono (length a - 1) (length b - 2) ltac:(lia)). lia. }
  intros Ha Hb.
  assert (Hl : length b1 = length b2).
  { destruct (lt_eq_lt_dec (length b1) (length b2)) as [[H|H]|H]; [exfalso; eapply (Hlen b1 b2); eauto|exact H|exfalso; eapply (Hlen b2 b1); eauto]. }
  destruct Ha as (Hw1 & Hn1 & Hv1 & _), Hb as (Hw2 & Hn2 & Hv2 & _).
  assert (Hbe : be_val b1 = be_val b2).
  { pose proof (be_val_range b1 Hw1). pose proof (be_val_range b2 Hw2). rewrite Hl in *.
    destruct b1 as [|x1 r1]; [congruence|]. destruct b2 as [|x2 r2]; [congruence|].
    apply wfb_cons in Hw1. apply wfb_cons in Hw2. destruct Hw1 as [Hx1 Hr1], Hw2 as [Hx2 Hr2].
    pose proof (be_val_range r1 Hr1). pose proof (be_val_range r2 Hr2). cbn [length] in Hl. assert (Hl' : length r1 = length r2) by lia.
    unfold tc_val in Hv1, Hv2. rewrite !be_val_cons in *. cbn [length] in *. rewrite Hl' in *. rewrite P_S in *.
    pose proof (P_pos (length r2)). destruct (x1 <? 128) eqn:E1; destruct (x2 <? 128) eqn:E2; nia. }
  rewrite <- (be_be_val b1 Hw1), <- (be_be_val b2 Hw2), Hl, Hbe. reflexivity.
Qed.

(* ---- full TLV round trip through ASN1Writer.write_integer / ASN1Reader.read_integer *)
Lemma universal_readable n k : universal_ok n = true -> tag_readable (universal_tag n k).
Proof. intros H _. exact H. Qed.
Lemma universal_wf n k : universal_ok n = true -> tag_wf (universal_tag n k).
Proof.
  intros H. unfold universal_ok in H. apply existsb_exists in H. destruct H as (x & Hin & Hx).
  assert (x = n) by lia. subst x. split; [cbn [t_class universal_tag]; unfold c_class_universal; lia|]. cbn [t_num universal_tag].
  revert Hin. unfold c_universal_numbers. cbn [In]. intuition lia.
Qed.

Theorem read_integer_pack z c rest : pack_int_content z = Ok c -> len c < P 126 ->
  exists bs, pack_integer z None = Ok bs /\ read_integer (bs ++ rest) None None = Ok (z, rest).
Proof.
  intros Ec Hc. destruct (pack_int_content_der z) as (c' & Ec' & Hder). rewrite Ec in Ec'. apply Ok_inj in Ec'. subst c'.
  set (t := universal_tag c_tag_integer false).
  destruct (pack_tlv_der t c (universal_wf c_tag_integer false eq_refl) Hc) as (ib & lb & E & Hi & Hl).
  exists (ib ++ lb ++ c). unfold pack_integer. rewrite Ec. cbn [bind opt_tag]. split; [exact E|].
  unfold read_integer. rewrite <- !app_assoc.
  destruct (validate_tag_der t ib lb c rest None t Hi Hl (universal_readable c_tag_integer false eq_refl) eq_refl) as [H1 H2].
  fold t. rewrite H1. cbn [bind]. destruct Hder as (Hw & Hne & Hv & _).
  rewrite read_int_content_tc by assumption. cbn [bind]. rewrite H2, Hv. reflexivity.
Qed.
