(* C08, string side: split / join, the grammar of the regex, decimal numbers, sid_parse. *)
From V Require Import Prelude.Base Prelude.PyInt Prelude.PySlice gen.K_sd Model.Types Model.SecDesc Proofs.SecDescK.

(* ---- split / join ------------------------------------------------------------------------------------ *)
Definition join (sep : Z) (l : list pystr) : pystr :=
  match l with [] => [] | p :: r => p ++ concat (map (cons sep) r) end.

Lemma split_on_cons sep s : exists p ps, split_on sep s = p :: ps.
Proof.
  induction s as [|c s IH]; cbn [split_on]; [eauto|].
  destruct (c =? sep); [eauto|]. destruct IH as (p & ps & ->). eauto.
Qed.

Lemma join_split sep s : join sep (split_on sep s) = s.
Proof.
  induction s as [|c s IH]; [reflexivity|]. cbn [split_on].
  destruct (c =? sep) eqn:E.
  - assert (c = sep) by lia. subst c. destruct (split_on_cons sep s) as (p & ps & Hs). rewrite Hs in *.
    cbn [join map concat app] in *. now rewrite IH.
  - destruct (split_on_cons sep s) as (p & ps & Hs). rewrite Hs in *. cbn [join app] in *. now rewrite IH.
Qed.

Definition no_sep (sep : Z) (p : pystr) : bool := forallb (fun c => negb (c =? sep)) p.

Lemma split_no_sep sep p : no_sep sep p = true -> split_on sep p = [p].
Proof.
  induction p as [|c p IH]; intros H; [reflexivity|]. cbn [no_sep forallb] in H. apply andb_true_iff in H as [Hc Hp].
  cbn [split_on]. destruct (c =? sep); [discriminate|]. now rewrite (IH Hp).
Qed.
Lemma split_app_sep sep p rest : no_sep sep p = true -> split_on sep (p ++ sep :: rest) = p :: split_on sep rest.
Proof.
  induction p as [|c p IH]; intros H.
  - cbn [app split_on]. now rewrite Z.eqb_refl.
  - cbn [no_sep forallb] in H. apply andb_true_iff in H as [Hc Hp]. cbn [app split_on].
    destruct (c =? sep); [discriminate|]. now rewrite (IH Hp).
Qed.
Lemma split_join sep p ps : forallb (no_sep sep) (p :: ps) = true -> split_on sep (join sep (p :: ps)) = p :: ps.
Proof.
  revert p; induction ps as [|q ps IH]; intros p H; cbn [forallb] in H; apply andb_true_iff in H as [Hp Hr].
  - cbn [join map concat]. rewrite app_nil_r. now apply split_no_sep.
  - cbn [join map concat app]. rewrite split_app_sep by assumption. f_equal. apply (IH q Hr).
Qed.

(* ---- the grammar of ^S-([0-9])-([0-9]+)(?:-[0-9]+){1,15}\Z ------------------------------------------------ *)
Definition in_grammar (str : pystr) : Prop :=
  exists (r : Z) (a : pystr) (subs : list pystr),
    is_digit r = true /\ digit_str a = true /\
    (1 <= length subs <= 15)%nat /\ forallb digit_str subs = true /\
    str = [83; 45; r; 45] ++ a ++ concat (map (cons 45) subs).

Lemma digit_no_dash p : forallb is_digit p = true -> no_sep 45 p = true.
Proof.
  unfold no_sep. rewrite !forallb_forall. intros H c Hc. specialize (H c Hc). unfold is_digit in H. lia.
Qed.
Lemma digit_str_no_dash p : digit_str p = true -> no_sep 45 p = true.
Proof. destruct p; [discriminate|]. apply digit_no_dash. Qed.
Lemma digit_strs_no_dash l : forallb digit_str l = true -> forallb (no_sep 45) l = true.
Proof.
  rewrite !forallb_forall. intros H p Hp. apply digit_str_no_dash. auto.
Qed.

(* what the recogniser sees of a string of the grammar, and conversely *)
Lemma grammar_split (r : Z) (a : pystr) (subs : list pystr) : is_digit r = true -> digit_str a = true -> forallb digit_str subs = true ->
  split_on 45 ([83; 45; r; 45] ++ a ++ concat (map (cons 45) subs)) = [83] :: [r] :: a :: subs.
Proof.
  intros Hr Ha Hs.
  change ([83; 45; r; 45] ++ a ++ concat (map (cons 45) subs)) with (join 45 ([83] :: [r] :: a :: subs)).
  apply split_join. cbn [forallb]. rewrite (digit_str_no_dash a Ha), (digit_strs_no_dash subs Hs).
  cbn [no_sep forallb]. unfold is_digit in Hr. lia.
Qed.

Lemma sid_match_parts str : sid_match str = true ->
  exists (r : Z) (a : pystr) (subs : list pystr), split_on 45 str = [83] :: [r] :: a :: subs /\
    is_digit r = true /\ digit_str a = true /\ (1 <= length subs <= 15)%nat /\ forallb digit_str subs = true.
Proof.
  unfold sid_match. destruct (split_on 45 str) as [|p0 [|p1 [|p2 subs]]]; try discriminate.
  intros H. rewrite !andb_true_iff in H. destruct H as (((((H0 & H1) & H2) & H3) & H4) & H5).
  destruct p0 as [|c0 [|? ?]]; try discriminate.
  assert (c0 = 83) by lia. subst c0.
  destruct p1 as [|r [|? ?]]; try discriminate.
  exists r, p2, subs. unfold len in *. cbn beta iota in H1.
  split; [reflexivity|]. split; [exact H1|]. split; [exact H2|]. apply Z.leb_le in H3, H4. unfold pystr in *. split; [lia|exact H5].
Qed.

Lemma sid_match_iff str : sid_match str = true <-> in_grammar str.
Proof.
  split.
  - intros H. destruct (sid_match_parts str H) as (r & a & subs & Hs & Hr & Ha & Hn & Hd).
    exists r, a, subs. repeat split; auto; try lia.
    rewrite <- (join_split 45 str), Hs. reflexivity.
  - intros (r & a & subs & Hr & Ha & Hn & Hd & ->). unfold sid_match.
    rewrite (grammar_split r a subs Hr Ha Hd). rewrite Hr, Ha, Hd. unfold len. cbn [andb Z.eqb Pos.eqb].
    destruct (1 <=? Z.of_nat (length subs)) eqn:E1; [|lia]. destruct (Z.of_nat (length subs) <=? 15) eqn:E2; [|lia].
    reflexivity.
Qed.

(* ---- decimal numbers ---------------------------------------------------------------------------------- *)
Lemma dec_val_app acc s c : dec_val acc (s ++ [c]) = 10 * dec_val acc s + (c - 48).
Proof. revert acc; induction s as [|d s IH]; intros acc; cbn [app dec_val]; [reflexivity|apply IH]. Qed.

Fixpoint val_lsb (l : list Z) : Z := match l with [] => 0 | d :: r => d + 10 * val_lsb r end.

Lemma val_lsb_digits fuel : forall z, 0 <= z < 2 ^ Z.of_nat fuel -> val_lsb (digits_lsb fuel z) = z.
Proof.
  induction fuel as [|f IH]; intros z Hz.
  - cbn in Hz. assert (z = 0) by lia. subst. reflexivity.
  - rewrite Nat2Z.inj_succ, Z.pow_succ_r in Hz by lia. cbn [digits_lsb val_lsb].
    destruct (z <? 10) eqn:E.
    + cbn [val_lsb]. lia.
    + rewrite IH; [lia|]. lia.
Qed.
Lemma digits_lsb_range fuel : forall z, 0 <= z -> Forall (fun d => 0 <= d <= 9) (digits_lsb fuel z).
Proof.
  induction fuel as [|f IH]; intros z Hz; cbn [digits_lsb]; [constructor|].
  constructor; [lia|]. destruct (z <? 10); [constructor|]. apply IH. lia.
Qed.
Lemma digits_lsb_nonempty fuel z : digits_lsb (S fuel) z <> [].
Proof. cbn [digits_lsb]. discriminate. Qed.

Lemma dec_val_rev l : dec_val 0 (map (fun d => 48 + d) (rev l)) = val_lsb l.
Proof.
  induction l as [|d l IH]; [reflexivity|]. cbn [rev]. rewrite map_app. cbn [map].
  rewrite dec_val_app, IH. cbn [val_lsb]. lia.
Qed.

Lemma fuel_enough z : 0 <= z -> z < 2 ^ Z.of_nat (S (Z.to_nat (Z.log2 z))).
Proof.
  intros Hz. rewrite Nat2Z.inj_succ, Z2Nat.id by apply Z.log2_nonneg.
  destruct (Z.eq_dec z 0) as [->|N]; [reflexivity|]. apply Z.log2_spec. lia.
Qed.

Lemma dec_val_dec z : 0 <= z -> dec_val 0 (dec z) = z.
Proof.
  intros Hz. unfold dec. rewrite dec_val_rev. apply val_lsb_digits. split; [assumption|now apply fuel_enough].
Qed.
Lemma dec_digits z : 0 <= z -> digit_str (dec z) = true.
Proof.
  intros Hz. unfold dec. set (l := digits_lsb _ z).
  assert (Hne : l <> []) by apply digits_lsb_nonempty.
  assert (Hr : Forall (fun d => 0 <= d <= 9) l) by (apply digits_lsb_range; assumption).
  assert (Hall : forallb is_digit (map (fun d => 48 + d) (rev l)) = true).
  { apply forallb_forall. intros c Hc. apply in_map_iff in Hc as (d & <- & Hd). apply in_rev in Hd.
    rewrite Forall_forall in Hr. specialize (Hr d Hd). unfold is_digit. lia. }
  destruct (map (fun d => 48 + d) (rev l)) eqn:E; [|exact Hall].
  apply map_eq_nil in E. apply (f_equal (@rev Z)) in E. rewrite rev_involutive in E. contradiction.
Qed.
Lemma dec_small z : 0 <= z <= 9 -> dec z = [48 + z].
Proof.
  intros Hz. unfold dec. cbn [digits_lsb]. destruct (z <? 10) eqn:E; [|lia]. cbn [rev app map].
  f_equal. lia.
Qed.

Lemma py_int_digits p : digit_str p = true -> py_int p = if short_str p then Ok (dec_val 0 p) else Raise ValueError.
Proof. intros H. unfold py_int. now rewrite H. Qed.
Lemma py_int_short p : digit_str p = true -> short_str p = true -> py_int p = Ok (dec_val 0 p).
Proof. intros H L. now rewrite py_int_digits, L. Qed.
Lemma short_1 (c : Z) : short_str [c] = true.
Proof. reflexivity. Qed.

(* the canonical decimal string of z has at most 1 + log2 z digits *)
Lemma digits_lsb_length fuel : forall z, (length (digits_lsb fuel z) <= fuel)%nat.
Proof.
  induction fuel as [|f IH]; intros z; cbn [digits_lsb length]; [lia|].
  destruct (z <? 10); cbn [length]; [lia|]. specialize (IH (z / 10)). lia.
Qed.
Lemma dec_short z : 0 <= z < 2 ^ 48 -> short_str (dec z) = true.
Proof.
  intros Hz. unfold short_str, int_max_str_digits, dec, len. rewrite map_length, rev_length.
  pose proof (digits_lsb_length (S (Z.to_nat (Z.log2 z))) z) as H.
  assert (Z.log2 z < 48).
  { destruct (Z.eq_dec z 0) as [->|N]; [reflexivity|]. apply Z.log2_lt_pow2; lia. }
  pose proof (Z.log2_nonneg z). lia.
Qed.

Lemma dec_val_nonneg p : forall acc, 0 <= acc -> forallb is_digit p = true -> 0 <= dec_val acc p.
Proof.
  induction p as [|c p IH]; intros acc Ha H; cbn [dec_val]; [assumption|].
  cbn [forallb] in H. apply andb_true_iff in H as [Hc Hp]. apply IH; [|assumption]. unfold is_digit in Hc. lia.
Qed.
Lemma dec_val_digit_str_nonneg p : digit_str p = true -> 0 <= dec_val 0 p.
Proof. destruct p; [discriminate|]. intros H. apply dec_val_nonneg; [lia|exact H]. Qed.

(* ---- sid_parse on a string cut into its parts ------------------------------------------------------------ *)
Lemma index_1 {A} (a b : A) l : index (a :: b :: l) 1 = Ok b.
Proof. apply (index_app_r [a] b l). Qed.
Lemma index_2 {A} (a b c : A) l : index (a :: b :: c :: l) 2 = Ok c.
Proof. apply (index_app_r [a; b] c l). Qed.
Lemma slice_3 {A} (a b c : A) l : slice (Some 3) None (a :: b :: c :: l) = l.
Proof. apply (slice_app_r [a; b; c] l). Qed.

Definition sub_ok (x : Z) : bool := (0 <=? x) && (x <? 2 ^ 32).

(* a sub-authority part int() accepts and the range test lets through *)
Definition sub_part_ok (p : pystr) : bool := short_str p && (dec_val 0 p <? 2 ^ 32).
Lemma sub_parts_ok l : forallb sub_part_ok l = forallb short_str l && forallb (fun p => dec_val 0 p <? 2 ^ 32) l.
Proof.
  induction l as [|p l IH]; [reflexivity|]. cbn [forallb]. rewrite IH. unfold sub_part_ok.
  destruct (short_str p), (dec_val 0 p <? 2 ^ 32), (forallb short_str l); reflexivity.
Qed.

Lemma parse_subs_spec (subs : list pystr) : forallb digit_str subs = true ->
  parse_subs subs = if forallb sub_part_ok subs then Ok (map (dec_val 0) subs) else Raise ValueError.
Proof.
  induction subs as [|p subs IH]; intros H; [reflexivity|].
  cbn [forallb] in H. apply andb_true_iff in H as [Hp Hs]. cbn [parse_subs forallb map].
  rewrite (py_int_digits p Hp). unfold sub_part_ok at 1.
  destruct (short_str p); cbn [bind andb]; [|reflexivity]. rewrite sub_range_test.
  destruct (dec_val 0 p <? 2 ^ 32); cbn [negb andb]; [|reflexivity].
  rewrite (IH Hs). destruct (forallb sub_part_ok subs); reflexivity.
Qed.

Lemma sid_parse_parts (str : pystr) (r : Z) (a : pystr) (subs : list pystr) :
  split_on 45 str = [83] :: [r] :: a :: subs ->
  is_digit r = true -> digit_str a = true -> (1 <= length subs <= 15)%nat -> forallb digit_str subs = true ->
  sid_parse str =
    if short_str a && (dec_val 0 a <? 2 ^ 48) && forallb sub_part_ok subs
    then Ok {| sid_rev := r - 48; sid_auth := dec_val 0 a; sid_subs := map (dec_val 0) subs |}
    else Raise ValueError.
Proof.
  intros Hs Hr Ha Hn Hd. unfold sid_parse.
  assert (Hm : sid_match str = true).
  { unfold sid_match. rewrite Hs, Hr, Ha, Hd. unfold len. cbn [andb Z.eqb Pos.eqb].
    destruct (1 <=? Z.of_nat (length subs)) eqn:E1; [|lia]. destruct (Z.of_nat (length subs) <=? 15) eqn:E2; [|lia]. reflexivity. }
  rewrite Hm. cbn [negb].
  change (split_on (sep_char k_sid_split_sep) str) with (split_on 45 str). rewrite Hs.
  rewrite index_1, index_2. cbn [bind].
  assert (Hr1 : digit_str [r] = true) by (cbn [digit_str forallb]; now rewrite Hr).
  rewrite (py_int_short [r] Hr1 (short_1 r)), (py_int_digits a Ha). cbn [bind].
  destruct (short_str a); cbn [bind andb]; [|reflexivity].
  rewrite auth_range_test. change k_sid_first_sub with 3. rewrite slice_3.
  destruct (dec_val 0 a <? 2 ^ 48); cbn [negb andb]; [|reflexivity].
  rewrite (parse_subs_spec subs Hd). destruct (forallb sub_part_ok subs); cbn [bind]; [|reflexivity].
  cbn [dec_val]. do 2 f_equal.
Qed.

(* every exception of sid_parse is ValueError *)
Lemma sid_parse_raises str e : sid_parse str = Raise e -> e = ValueError.
Proof.
  destruct (sid_match str) eqn:Hm.
  - destruct (sid_match_parts str Hm) as (r & a & subs & Hs & Hr & Ha & Hn & Hd).
    rewrite (sid_parse_parts str r a subs Hs Hr Ha Hn Hd).
    destruct (_ && _); congruence.
  - unfold sid_parse. rewrite Hm. cbn [negb]. congruence.
Qed.

(* what an accepted string looks like *)
Lemma sid_parse_accepts str s : sid_parse str = Ok s ->
  exists (r : Z) (a : pystr) (subs : list pystr),
    str = [83; 45; r; 45] ++ a ++ concat (map (cons 45) subs) /\
    is_digit r = true /\ digit_str a = true /\ (1 <= length subs <= 15)%nat /\ forallb digit_str subs = true /\
    sid_rev s = r - 48 /\ sid_auth s = dec_val 0 a /\ sid_subs s = map (dec_val 0) subs /\
    dec_val 0 a < 2 ^ 48 /\ forallb (fun p => dec_val 0 p <? 2 ^ 32) subs = true /\
    short_str a = true /\ forallb short_str subs = true.
Proof.
  intros H. destruct (sid_match str) eqn:Hm.
  - destruct (sid_match_parts str Hm) as (r & a & subs & Hs & Hr & Ha & Hn & Hd).
    rewrite (sid_parse_parts str r a subs Hs Hr Ha Hn Hd), sub_parts_ok in H.
    destruct (short_str a) eqn:E0; [|discriminate].
    destruct (dec_val 0 a <? 2 ^ 48) eqn:E1; [|discriminate].
    destruct (forallb short_str subs) eqn:E3; [|discriminate].
    destruct (forallb (fun p => dec_val 0 p <? 2 ^ 32) subs) eqn:E2; [|discriminate].
    cbn [andb] in H. apply Ok_inj in H. subst s. exists r, a, subs. cbn [sid_rev sid_auth sid_subs].
    repeat split; auto; try lia. rewrite <- (join_split 45 str), Hs. reflexivity.
  - unfold sid_parse in H. rewrite Hm in H. discriminate.
Qed.

Lemma sid_parse_wf str s : sid_parse str = Ok s -> wf_sid s = true.
Proof.
  intros H. destruct (sid_parse_accepts str s H) as (r & a & subs & _ & Hr & Ha & Hn & Hd & E1 & E2 & E3 & Hlt & Hsub & _).
  unfold wf_sid. rewrite E1, E2, E3. unfold len. rewrite map_length.
  pose proof (dec_val_digit_str_nonneg a Ha) as Ha0.
  assert (forallb (fun x => (0 <=? x) && (x <? 2 ^ 32)) (map (dec_val 0) subs) = true) as ->.
  { rewrite forallb_forall in *. intros x Hx. apply in_map_iff in Hx as (p & <- & Hp).
    specialize (Hsub p Hp). pose proof (dec_val_digit_str_nonneg p (Hd p Hp)). lia. }
  unfold is_digit in Hr. lia.
Qed.

(* completeness: every string of the grammar whose numbers are in range and whose numeric parts have at most 4300 digits
   (CPython's int() limit, leading zeros counted) is accepted (leading zeros included) *)
Lemma sid_parse_complete (r : Z) (a : pystr) (subs : list pystr) :
  is_digit r = true -> digit_str a = true -> (1 <= length subs <= 15)%nat -> forallb digit_str subs = true ->
  dec_val 0 a < 2 ^ 48 -> forallb (fun p => dec_val 0 p <? 2 ^ 32) subs = true ->
  short_str a = true -> forallb short_str subs = true ->
  sid_parse ([83; 45; r; 45] ++ a ++ concat (map (cons 45) subs)) =
    Ok {| sid_rev := r - 48; sid_auth := dec_val 0 a; sid_subs := map (dec_val 0) subs |}.
Proof.
  intros Hr Ha Hn Hd Hlt Hsub La Ls.
  rewrite (sid_parse_parts _ r a subs (grammar_split r a subs Hr Ha Hd) Hr Ha Hn Hd).
  rewrite sub_parts_ok, Hsub, La, Ls. destruct (dec_val 0 a <? 2 ^ 48) eqn:E; [reflexivity|lia].
Qed.

(* and a string of the grammar with a numeric part of more than 4300 digits is refused, whatever its value *)
Lemma sid_parse_too_long (r : Z) (a : pystr) (subs : list pystr) :
  is_digit r = true -> digit_str a = true -> (1 <= length subs <= 15)%nat -> forallb digit_str subs = true ->
  short_str a && forallb short_str subs = false ->
  sid_parse ([83; 45; r; 45] ++ a ++ concat (map (cons 45) subs)) = Raise ValueError.
Proof.
  intros Hr Ha Hn Hd L.
  rewrite (sid_parse_parts _ r a subs (grammar_split r a subs Hr Ha Hd) Hr Ha Hn Hd), sub_parts_ok.
  destruct (short_str a); cbn [andb] in *; [|reflexivity]. rewrite L.
  destruct (dec_val 0 a <? 2 ^ 48); reflexivity.
Qed.

(* ---- print then parse ------------------------------------------------------------------------------------ *)
Lemma wf_sid_facts s : wf_sid s = true ->
  0 <= sid_rev s <= 9 /\ 0 <= sid_auth s < 2 ^ 48 /\ (1 <= length (sid_subs s) <= 15)%nat /\
  forallb (fun x => (0 <=? x) && (x <? 2 ^ 32)) (sid_subs s) = true.
Proof.
  unfold wf_sid, len. rewrite !andb_true_iff. intros H. repeat split; try tauto; lia.
Qed.

Lemma parse_print s : wf_sid s = true -> sid_parse (sid_print s) = Ok s.
Proof.
  intros H. destruct (wf_sid_facts s H) as (Hr & Ha & Hn & Hs). destruct s as [rev auth subs]. cbn [sid_rev sid_auth sid_subs] in *.
  unfold sid_print. cbn [sid_rev sid_auth sid_subs]. rewrite (dec_small rev Hr).
  assert (Hmap : concat (map (fun x => 45 :: dec x) subs) = concat (map (cons 45) (map dec subs))) by (now rewrite map_map).
  rewrite Hmap.
  change ([83; 45] ++ [48 + rev] ++ [45] ++ dec auth ++ concat (map (cons 45) (map dec subs)))
    with ([83; 45; 48 + rev; 45] ++ dec auth ++ concat (map (cons 45) (map dec subs))).
  assert (Hall : forall x, In x subs -> 0 <= x < 2 ^ 32).
  { rewrite forallb_forall in Hs. intros x Hx. specialize (Hs x Hx). lia. }
  rewrite sid_parse_complete.
  - f_equal. f_equal; [lia|apply dec_val_dec; lia|].
    rewrite map_map. rewrite <- (map_id subs) at 2. apply map_ext_in. intros x Hx. apply dec_val_dec. specialize (Hall x Hx). lia.
  - unfold is_digit. lia.
  - apply dec_digits. lia.
  - now rewrite map_length.
  - apply forallb_forall. intros p Hp. apply in_map_iff in Hp as (x & <- & Hx). apply dec_digits. specialize (Hall x Hx). lia.
  - rewrite dec_val_dec; lia.
  - apply forallb_forall. intros p Hp. apply in_map_iff in Hp as (x & <- & Hx). specialize (Hall x Hx).
    rewrite dec_val_dec; lia.
  - apply dec_short. lia.
  - apply forallb_forall. intros p Hp. apply in_map_iff in Hp as (x & <- & Hx). specialize (Hall x Hx).
    apply dec_short. change (2 ^ 48) with 281474976710656. change (2 ^ 32) with 4294967296 in Hall. lia.
Qed.
