(* Tie theorems, abstract model (Model/Cache.v, the state machine of the C10 theorems): the regenerated bodies of the four
   public functions (gen/F_cache.v), run in the world Flow/World_cache.v (section Abstract: `cache._get_key` := Cache.get_key,
   `cache._store_key` := Cache.store_key, `_get_protection_gke_from_cache` := Cache.protection_gke, `_sync_get_key` /
   `_async_get_key` := the DC oracle `dc`, `_decrypt_blob` / `_encrypt_blob` := the key material the call ends up using),
   compute Cache.unprotect / Cache.protect: the key used (o_key) and the cache afterwards, for every cache, request and DC.
   The glue the model writes down (look up; on a miss ask the DC for exactly (sd, rk, l0, l1, l2) resp. (sd, rko, -1, -1, -1);
   store unless public; use) is therefore the glue of the source.  o_rpcs is not a value of the program: it is 0 on the
   branch that does not evaluate the oracle and 1 on the one that does (see the proof: the hit branch never mentions dc). *)
From V Require Import Prelude.Base Prelude.PyAst Prelude.PyAstMut Prelude.PyWorld gen.Kernels gen.K_cache gen.F_cache.
From V Require Import Model.Cache Flow.World_cache.
Local Open Scope string_scope.
Local Open Scope list_scope.
Local Open Scope Z_scope.

Arguments len : simpl never.
Arguments get_key : simpl never.
Arguments store_key : simpl never.
Arguments derive : simpl never.
Arguments protection_gke : simpl never.

Section Ties.
Context {K RK : Type}.
Context (kdf : Z -> Z -> K -> Z -> Z -> K) (l1seed : RK -> Z -> Z -> Z -> K) (nokey : K).
Context (dc : Z -> option Z -> Z -> Z -> Z -> cenv (K := K)).
Context (now0 now1 now2 : Z).
Notation V := (pv (aobj (K := K) (RK := RK))).
Notation AWc := (AW (RK := RK) kdf l1seed nokey dc now0 now1 now2).
Notation AMWc := (AMW (RK := RK) kdf l1seed nokey dc now0 now1 now2).

Definition vacache_opt (o : option (cache (K := K) (RK := RK))) : V := match o with Some ca => VO (ACache ca) | None => VN end.
Definition acache_or_new (o : option (cache (K := K) (RK := RK))) := match o with Some ca => ca | None => empty_cache end.
Definition vz_opt (o : option Z) : V := match o with Some z => VI z | None => VN end.
Definition vs_opt (o : option (list Z)) : V := match o with Some s => VS s | None => VN end.

(* what the model returns for a call, as (value, cache afterwards) of the program.  When o_key is an error both sides of a tie
   collapse to that error: the cache after a FAILING call is tied separately, in Proofs/Flow_cache_absprefix.v *)
Definition alift (oc : Cache.outcome (K := K) * cache (K := K) (RK := RK)) : res (V * V) :=
  let* k := o_key (fst oc) in Ok (VO (AKey k), VO (ACache (snd oc))).
Definition avalue_and_param (i : nat) (r : res (V * list V)) : res (V * V) :=
  let* (v, ps) := r in Ok (v, nth i ps VN).

Lemma truthy_vs_cons (x : Z) (r : list Z) : negb (len (x :: r) =? 0) = true.
Proof. rewrite len_cons. pose proof (len_nonneg r). lia. Qed.
Lemma z_opt_of_vz_opt o : z_opt_of (vz_opt o) = Some o.
Proof. destruct o; reflexivity. Qed.

Ltac server_cases server :=
  destruct server as [[|?x ?s]|]; cbn; try rewrite truthy_vs_cons; try change (len (@nil Z)) with 0; cbn.

Ltac fin_unprotect :=
  idtac; match goal with |- context [c_pub ?e] => let E := fresh "E" in destruct (c_pub e) eqn:E; cbn; rewrite ?E; cbn; [reflexivity|] end;
  match goal with |- context [c_l0 ?e =? ?l0] => destruct (c_l0 e =? l0); cbn; [|reflexivity] end;
  match goal with |- context [derive kdf ?e ?a ?b] => destruct (derive kdf e a b); reflexivity end.

Ltac unprotect_abs co server :=
  unfold alift, avalue_and_param, unprotect, unprotect_finish, acache_or_new; cbn;
  destruct co as [?ca|]; cbn;
  (match goal with |- context [get_key l1seed nokey ?ca0 ?sd ?rk ?x ?y ?z] =>
     destruct (get_key l1seed nokey ca0 sd rk x y z) as [[?e|] ?c1] end; cbn;
   [ fin_unprotect | server_cases server; fin_unprotect ]).

Lemma flow_unprotect_abs fuel sd rk l0 l1 l2 server u p a co :
  avalue_and_param 5 (run_mut AMWc fuel k_flow_ncrypt_unprotect_secret [VO (AData sd rk l0 l1 l2); vs_opt server; u; p; a; vacache_opt co])
  = alift (unprotect kdf l1seed nokey dc (acache_or_new co) sd rk l0 l1 l2).
Proof. unprotect_abs co server. Qed.

Lemma flow_async_unprotect_abs fuel sd rk l0 l1 l2 server u p a co :
  avalue_and_param 5 (run_mut AMWc fuel k_flow_async_ncrypt_unprotect_secret [VO (AData sd rk l0 l1 l2); vs_opt server; u; p; a; vacache_opt co])
  = alift (unprotect kdf l1seed nokey dc (acache_or_new co) sd rk l0 l1 l2).
Proof. unprotect_abs co server. Qed.

Ltac fin_protect :=
  idtac; match goal with |- context [c_pub ?e] => let E := fresh "E" in destruct (c_pub e) eqn:E; cbn; rewrite ?E; cbn; reflexivity end.

Ltac protect_abs co rko server :=
  unfold alift, avalue_and_param, protect, protect_finish, acache_or_new; cbn;
  destruct co as [?ca|]; destruct rko as [?r|]; cbn;
  (match goal with |- context [protection_gke kdf l1seed nokey ?ca0 ?sd ?rko ?x ?y ?z] =>
     destruct (protection_gke kdf l1seed nokey ca0 sd rko x y z) as [[[?e|?x]|] ?c1] end; cbn;
   [ fin_protect | reflexivity | server_cases server; fin_protect ]).

Lemma flow_protect_abs fuel d sd rko server dom u p a co :
  avalue_and_param 8 (run_mut AMWc fuel k_flow_ncrypt_protect_secret [d; VI sd; vz_opt rko; vs_opt server; dom; u; p; a; vacache_opt co])
  = alift (protect kdf l1seed nokey dc (acache_or_new co) sd rko now0 now1 now2).
Proof. protect_abs co rko server. Qed.

Lemma flow_async_protect_abs fuel d sd rko server dom u p a co :
  avalue_and_param 8 (run_mut AMWc fuel k_flow_async_ncrypt_protect_secret [d; VI sd; vz_opt rko; vs_opt server; dom; u; p; a; vacache_opt co])
  = alift (protect kdf l1seed nokey dc (acache_or_new co) sd rko now0 now1 now2).
Proof. protect_abs co rko server. Qed.
End Ties.
