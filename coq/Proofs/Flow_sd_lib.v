(* Generic facts about the interpreter of Prelude/PyAst.v used by the sd ties: the loop of `SFor` as a named fixpoint over
   exec_block (the interpreter's own loop and block runner are anonymous local fixpoints of `exec`). Nothing about a particular
   function here. *)
From V Require Import Prelude.Base Prelude.PyAst.
Local Open Scope string_scope.
Local Open Scope list_scope.

Section ForLoop.
Context {V : Type} (Wd : world V).

(* the loop of SFor, with the block run by exec_block *)
Definition for_each (fuel : nat) (xs : list string) (body : list pstmt) : list V -> penv -> res outcome :=
  fix each (vs : list V) (env : penv) : res outcome :=
    match vs with
    | [] => Ok (Next env)
    | v :: r => let* envb := bind_targets Wd xs v env in
                let* o := exec_block Wd fuel body envb in
                match o with
                | Next env' | Cont env' => each r env'
                | Brk env' => Ok (Next env')
                | Ret w => Ok (Ret w)
                end
    end.

Lemma blk_exec_block fuel ss : forall env,
  (fix blk (ss : list pstmt) (env : penv) : res outcome :=
     match ss with
     | [] => Ok (Next env)
     | s' :: r => let* o := exec Wd fuel env s' in
                  match o with Next env' => blk r env' | other => Ok other end
     end) ss env = exec_block Wd fuel ss env.
Proof.
  induction ss as [|s ss IH]; intros env; [reflexivity|].
  cbn [exec_block]. destruct (exec Wd fuel env s) as [o|e]; cbn [bind]; [|reflexivity].
  destruct o; try reflexivity. apply IH.
Qed.

Lemma exec_for fuel env xs it body :
  exec Wd fuel env (SFor xs it body) =
  let* (iv, env1) := eval Wd env it in
  let* items := w_iter Wd iv in
  for_each fuel xs body items env1.
Proof.
  cbn [exec]. destruct (eval Wd env it) as [[iv env1]|e]; cbn [bind]; [|reflexivity].
  destruct (w_iter Wd iv) as [items|e]; cbn [bind]; [|reflexivity].
  revert env1. induction items as [|v r IH]; intros env1; [reflexivity|].
  cbn [for_each]. destruct (bind_targets Wd xs v env1) as [envb|e]; cbn [bind]; [|reflexivity].
  rewrite blk_exec_block. destruct (exec_block Wd fuel body envb) as [o|e]; cbn [bind]; [|reflexivity].
  destruct o; try reflexivity; apply IH.
Qed.

Lemma exec_block_cons fuel s r env :
  exec_block Wd fuel (s :: r) env =
  let* o := exec Wd fuel env s in match o with Next env' => exec_block Wd fuel r env' | other => Ok other end.
Proof. reflexivity. Qed.
End ForLoop.
