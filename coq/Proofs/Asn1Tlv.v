(* C07: whole TLVs. _pack_asn1 emits DER identifier ++ DER length ++ content; _validate_tag and the
   ASN1Reader.read_* functions return exactly the content and exactly the bytes after the value. *)
From V Require Import Prelude.Base Prelude.PyInt Prelude.PySlice gen.K_asn1 gen.C_asn1 Model.Asn1 Spec.DerSpec Proofs.Asn1Lib Proofs.Asn1Hdr.

Theorem pack_tlv_der t c : tag_wf t -> len c < P 126 ->
  exists ib lb, pack_tlv t c = Ok (ib ++ lb ++ c) /\ der_ident t ib /\ der_len (len c) lb.
Proof.
  intros Ht Hc. unfold pack_tlv, pack_asn1.
  destruct (pack_ident_der t Ht) as (ib & E1 & Hi). rewrite E1. cbn [bind].
  destruct (pack_length_der (len c)) as (lb & E2 & Hl); [split; [apply len_nonneg|exact Hc]|]. rewrite E2. cbn [bind].
  exists ib, lb. auto.
Qed.

Lemma tag_eqb_refl t : tag_eqb t t = true.
Proof. unfold tag_eqb. rewrite !Z.eqb_refl, eqb_reflx. reflexivity. Qed.
Lemma tag_eqb_eq a b : tag_eqb a b = true -> a = b.
Proof.
  unfold tag_eqb. intros H. apply andb_prop in H. destruct H as [H H3]. apply andb_prop in H. destruct H as [H1 H2].
  destruct a, b; cbn in *. apply eqb_prop in H3. f_equal; [lia|lia|exact H3].
Qed.

Definition expected_of (exp : option tag) (ty : tag) : tag := match exp with Some e => e | None => ty end.

(* a DER value followed by anything: content and consumed length; the new view is what follows *)
Theorem validate_tag_der t ib lb c rest exp ty : der_ident t ib -> der_len (len c) lb -> tag_readable t ->
  expected_of exp ty = t ->
  validate_tag (ib ++ lb ++ c ++ rest) exp ty None = Ok (c, len (ib ++ lb ++ c)) /\
  advance (ib ++ lb ++ c ++ rest) (len (ib ++ lb ++ c)) = rest.
Proof.
  intros Hi Hl Hr He. split.
  - unfold validate_tag. rewrite (read_header_der t ib (len c) lb (c ++ rest) Hi Hl Hr). cbn [bind h_tag h_tlen h_len].
    replace (match exp with Some e => e | None => ty end) with t by (symmetry; exact He).
    rewrite tag_eqb_refl. cbn [negb].
    replace (ib ++ lb ++ c ++ rest) with ((ib ++ lb) ++ (c ++ rest)) by (now rewrite <- app_assoc).
    rewrite <- len_app, slice_app_r. unfold k_vt_short. rewrite len_app.
    pose proof (len_nonneg rest). destruct (len c + len rest <? len c) eqn:E; [lia|].
    rewrite slice_none_l. rewrite !len_app. do 2 f_equal. lia.
  - unfold advance. replace (ib ++ lb ++ c ++ rest) with ((ib ++ lb ++ c) ++ rest) by (now rewrite <- !app_assoc).
    apply slice_app_r.
Qed.

Theorem read_raw_der ty t ib lb c rest exp : der_ident t ib -> der_len (len c) lb -> tag_readable t ->
  expected_of exp ty = t -> read_raw ty (ib ++ lb ++ c ++ rest) exp None = Ok (c, rest).
Proof.
  intros Hi Hl Hr He. unfold read_raw. destruct (validate_tag_der t ib lb c rest exp ty Hi Hl Hr He) as [H1 H2].
  rewrite H1. cbn [bind]. rewrite H2. reflexivity.
Qed.

(* writer then reader, for any tag the reader admits, any content shorter than 256^126, any suffix *)
Theorem read_raw_pack ty t c rest exp : tag_wf t -> tag_readable t -> len c < P 126 -> expected_of exp ty = t ->
  exists bs, pack_tlv t c = Ok bs /\ read_raw ty (bs ++ rest) exp None = Ok (c, rest) /\
    exists ib lb, bs = ib ++ lb ++ c /\ der_ident t ib /\ der_len (len c) lb /\
      peek_header (bs ++ rest) = Ok (mk_header t (len ib + len lb) (len c)).
Proof.
  intros Ht Hr Hc He. destruct (pack_tlv_der t c Ht Hc) as (ib & lb & E & Hi & Hl).
  exists (ib ++ lb ++ c). split; [exact E|]. rewrite <- !app_assoc. split; [now apply (read_raw_der ty t)|].
  exists ib, lb. repeat split; auto. unfold peek_header. now apply (read_header_der t).
Qed.
