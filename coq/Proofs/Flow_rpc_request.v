(* Tie theorems for _rpc/_request.py (Request, Response) against Model/Request.v; conventions as in Proofs/Flow_rpc_pdu.v. *)
From V Require Import Prelude.Base Prelude.PyInt Prelude.PySlice Prelude.PyStr Prelude.PyAst Prelude.PyWorld gen.F_rpc.
From V Require Import Model.Pdu Model.Request Model.RpcLoop Model.Bind Model.Verification Model.Epm Flow.World_rpc Proofs.Flow_rpc_lib Proofs.Flow_rpc_wf.
Local Open Scope string_scope.
Local Open Scope list_scope.
Local Open Scope Z_scope.

Lemma flow_response_unpack mf fuel data h st :
  run (W mf) fuel k_flow_response_unpack [VO (OCls CResponse); VB data; VO (OHeader h); vst st] =
  (let* m := response_unpack data h st in Ok (VO (OResponse m))).
Proof. unfold response_unpack. destruct st; tie. Qed.

Lemma flow_response_pack mf fuel m :
  run (W mf) fuel k_flow_response_pack [VO (OResponse m)] = chk (response_ranges m) (response_pack m).
Proof. unfold response_pack, response_body, opt_sec_trailer_pack, response_ranges, chk. destruct m as [h [st|] ? ? ? ?]; tie. Qed.

Lemma flow_request_unpack mf fuel data h st :
  run (W mf) fuel k_flow_request_unpack [VO (OCls CRequest); VB data; VO (OHeader h); vst st] =
  (let* m := request_unpack data h st in Ok (VO (ORequest m))).
Proof. unfold request_unpack, k_req_obj_mask. destruct st; tie. Qed.

Lemma flow_request_pack mf fuel m :
  run (W mf) fuel k_flow_request_pack [VO (ORequest m)] = chk (request_ranges m) (request_pack m).
Proof. unfold request_pack, request_body, opt_sec_trailer_pack, request_ranges, chk. destruct m as [h [st|] ? ? ? [u|] ?]; tie. Qed.

Lemma flow_request_pack_wf mf fuel m : wf_request m = true ->
  run (W mf) fuel k_flow_request_pack [VO (ORequest m)] = Ok (VB (request_pack m)).
Proof. intros H. rewrite flow_request_pack, (wf_request_ranges m H). reflexivity. Qed.

Lemma flow_response_pack_wf mf fuel m : wf_response m = true ->
  run (W mf) fuel k_flow_response_pack [VO (OResponse m)] = Ok (VB (response_pack m)).
Proof. intros H. rewrite flow_response_pack, (wf_response_ranges m H). reflexivity. Qed.
