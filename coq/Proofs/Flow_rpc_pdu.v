(* Tie theorems for _rpc/_pdu.py (DataRep, PDUHeader, SecTrailer, Fault): the regenerated syntax (gen/F_rpc.v), run in the
   world Flow/World_rpc.v, computes exactly the model functions of Model/Pdu.v the C12 theorems are about.
   pack: x.to_bytes(w, "little") raises OverflowError outside [0, 256^w); the model writes `le w x` and states everything
   under wf_* (which implies the ranges), so the ties carry the exact range condition: chk (<X>_ranges x) (<X>_pack x), the
   ranges of Flow/World_rpc.v, which include those of every nested x.field.pack() (the world gives a nested pack exactly
   this checked meaning).  wf_<X> x = true implies <X>_ranges x = true (wf_*_ranges below), so on well-formed messages
   the run is Ok of the model's pack (lemmas flow_X_pack_wf).  `cls` is the class itself. *)
From V Require Import Prelude.Base Prelude.PyInt Prelude.PySlice Prelude.PyStr Prelude.PyAst Prelude.PyWorld gen.F_rpc.
From V Require Import Model.Pdu Model.Request Model.RpcLoop Model.Bind Model.Verification Model.Epm Flow.World_rpc Proofs.Flow_rpc_lib Proofs.Flow_rpc_wf.
Local Open Scope string_scope.
Local Open Scope list_scope.
Local Open Scope Z_scope.

Lemma flow_datarep_pack mf fuel d :
  run (W mf) fuel k_flow_datarep_pack [VO (ODataRep d)] = chk (data_rep_ranges d) (data_rep_pack d).
Proof. unfold data_rep_pack, data_rep_ranges, chk, k_datarep_first_octet. tie. Qed.

Lemma flow_datarep_unpack mf fuel data :
  run (W mf) fuel k_flow_datarep_unpack [VO (OCls CDataRep); VB data] = (let* d := data_rep_unpack data in Ok (VO (ODataRep d))).
Proof. unfold data_rep_unpack. tie. Qed.

Lemma flow_pduheader_pack mf fuel h :
  run (W mf) fuel k_flow_pduheader_pack [VO (OHeader h)] = chk (pdu_header_ranges h) (pdu_header_pack h).
Proof. unfold pdu_header_pack, pdu_header_ranges, chk. destruct h. tie. Qed.

Lemma flow_pduheader_unpack mf fuel data :
  run (W mf) fuel k_flow_pduheader_unpack [VO (OCls CPDUHeader); VB data] = (let* h := pdu_header_unpack data in Ok (VO (OHeader h))).
Proof. unfold pdu_header_unpack. tie. Qed.

Lemma flow_sectrailer_pack mf fuel s :
  run (W mf) fuel k_flow_sectrailer_pack [VO (OSecTrailer s)] = chk (sec_trailer_ranges s) (sec_trailer_pack s).
Proof. unfold sec_trailer_pack, sec_trailer_ranges, chk. tie. Qed.

Lemma flow_sectrailer_unpack mf fuel data :
  run (W mf) fuel k_flow_sectrailer_unpack [VO (OCls CSecTrailer); VB data] = (let* s := sec_trailer_unpack data in Ok (VO (OSecTrailer s))).
Proof. unfold sec_trailer_unpack. tie. Qed.

Lemma flow_fault_unpack mf fuel data h st :
  run (W mf) fuel k_flow_fault_unpack [VO (OCls CFault); VB data; VO (OHeader h); vst st] = (let* m := fault_unpack data h st in Ok (VO (OFault m))).
Proof. unfold fault_unpack. destruct st; tie. Qed.

Lemma flow_fault_pack mf fuel m :
  run (W mf) fuel k_flow_fault_pack [VO (OFault m)] = chk (fault_ranges m) (fault_pack m).
Proof. unfold fault_pack, fault_body, opt_sec_trailer_pack, fault_ranges, chk. destruct m as [h [st|] ? ? ? ? ? ?]; tie. Qed.

Lemma flow_fault_pack_wf mf fuel m : wf_fault m = true ->
  run (W mf) fuel k_flow_fault_pack [VO (OFault m)] = Ok (VB (fault_pack m)).
Proof. intros H. rewrite flow_fault_pack, (wf_fault_ranges m H). reflexivity. Qed.
