(* Tie theorems for _rpc/_pdu.py (DataRep, PDUHeader, SecTrailer, Fault): the regenerated syntax (gen/F_rpc.v), run in the
   world Flow/World_rpc.v, computes exactly the model functions of Model/Pdu.v the C12 theorems are about.
   pack: x.to_bytes(w, "little") raises OverflowError outside [0, 256^w); the model writes `le w x` and states everything
   under wf_* (which implies the ranges), so the ties carry the exact range condition: chk (<X>_ranges x) (<X>_pack x), the
   ranges of Flow/World_rpc.v, which include those of every nested x.field.pack() (the world gives a nested pack exactly
   this checked meaning).  wf_<X> x = true implies <X>_ranges x = true (wf_*_ranges below), so on well-formed messages
   the run is Ok of the model's pack (lemmas flow_X_pack_wf).  `cls` is the class itself. *)
From V Require Import Prelude.Base Prelude.PyInt Prelude.PySlice Prelude.PyAst Prelude.PyWorld gen.F_rpc.
From V Require Import Model.Pdu Model.Request Model.RpcLoop Model.Bind Model.Verification Model.Epm Flow.World_rpc Proofs.Flow_rpc_lib.
From V Require Import Proofs.RpcLib Proofs.RpcPdu.
Local Open Scope string_scope.
Local Open Scope list_scope.
Local Open Scope Z_scope.

Lemma flow_datarep_pack mf fuel d :
  run (W mf) fuel k_flow_datarep_pack [VO (ODataRep d)] = chk (data_rep_ranges d) (data_rep_pack d).
Proof. unfold data_rep_pack, data_rep_ranges, chk, k_datarep_first_octet. tie. Qed.

Lemma flow_datarep_unpack mf fuel data :
  run (W mf) fuel k_flow_datarep_unpack [VO (OCls CDataRep); VB data] = (let* d := data_rep_unpack data in Ok (VO (ODataRep d))).
Proof. unfold data_rep_unpack. tie. Qed.

Lemma flow_pduheader_pack mf fuel h :
  run (W mf) fuel k_flow_pduheader_pack [VO (OHeader h)] = chk (pdu_header_ranges h) (pdu_header_pack h).
Proof. unfold pdu_header_pack, pdu_header_ranges, chk. destruct h. tie. Qed.

Lemma flow_pduheader_unpack mf fuel data :
  run (W mf) fuel k_flow_pduheader_unpack [VO (OCls CPDUHeader); VB data] = (let* h := pdu_header_unpack data in Ok (VO (OHeader h))).
Proof. unfold pdu_header_unpack. tie. Qed.

Lemma flow_sectrailer_pack mf fuel s :
  run (W mf) fuel k_flow_sectrailer_pack [VO (OSecTrailer s)] = chk (sec_trailer_ranges s) (sec_trailer_pack s).
Proof. unfold sec_trailer_pack, sec_trailer_ranges, chk. tie. Qed.

Lemma flow_sectrailer_unpack mf fuel data :
  run (W mf) fuel k_flow_sectrailer_unpack [VO (OCls CSecTrailer); VB data] = (let* s := sec_trailer_unpack data in Ok (VO (OSecTrailer s))).
Proof. unfold sec_trailer_unpack. tie. Qed.

Lemma flow_fault_unpack mf fuel data h st :
  run (W mf) fuel k_flow_fault_unpack [VO (OCls CFault); VB data; VO (OHeader h); vst st] = (let* m := fault_unpack data h st in Ok (VO (OFault m))).
Proof. unfold fault_unpack. destruct st; tie. Qed.

Lemma flow_fault_pack mf fuel m :
  run (W mf) fuel k_flow_fault_pack [VO (OFault m)] = chk (fault_ranges m) (fault_pack m).
Proof. unfold fault_pack, fault_body, opt_sec_trailer_pack, fault_ranges, chk. destruct m as [h [st|] ? ? ? ? ? ?]; tie. Qed.

(* ---- well-formed values are in range: on them the checked pack is the model's pack ------------------------------ *)
Lemma mem_in_range w x l : forallb (in_range w) l = true -> mem x l = true -> in_range w x = true.
Proof. intros Hl Hm. apply mem_cases in Hm. rewrite forallb_forall in Hl. exact (Hl x Hm). Qed.

Lemma wf_data_rep_ranges d : wf_data_rep d = true -> data_rep_ranges d = true.
Proof.
  unfold wf_data_rep, data_rep_ranges, k_datarep_first_octet. intros H.
  apply andb_prop in H. destruct H as [H H3]. apply andb_prop in H. destruct H as [H1 H2].
  rewrite (mem_in_range 1 _ c_FloatingPointRep_values eq_refl H3), andb_true_r.
  apply mem_cases in H1. apply mem_cases in H2. cbn [In c_IntegerRep_values c_CharacterRep_values] in H1, H2.
  destruct H1 as [<-|[<-|[]]]; destruct H2 as [<-|[<-|[]]]; reflexivity.
Qed.

Lemma wf_pdu_header_ranges h : wf_pdu_header h = true -> pdu_header_ranges h = true.
Proof.
  unfold wf_pdu_header, pdu_header_ranges. intros H.
  repeat match type of H with (_ && _) = true => let H' := fresh "H" in apply andb_prop in H; destruct H as [H H'] end.
  rewrite H, (mem_in_range 1 _ c_PacketType_values eq_refl H5), (wf_data_rep_ranges _ H3). repeat (rewrite ?H0, ?H1, ?H2, ?H4, ?H6; cbn [andb]). reflexivity.
Qed.

Lemma wf_sec_trailer_ranges s : wf_sec_trailer s = true -> sec_trailer_ranges s = true.
Proof.
  unfold wf_sec_trailer, sec_trailer_ranges. intros H.
  repeat match type of H with (_ && _) = true => let H' := fresh "H" in apply andb_prop in H; destruct H as [H H'] end.
  rewrite (mem_in_range 1 _ c_SecurityProvider_values eq_refl H), (mem_in_range 1 _ c_AuthenticationLevel_values eq_refl H3), H2, H1. reflexivity.
Qed.

Lemma wf_lengths_ranges h total st : wf_lengths h total st = true -> opt_sec_trailer_ranges st = true.
Proof.
  unfold wf_lengths. intros H. apply andb_prop in H. destruct H as [_ H]. destruct st as [t|]; [|reflexivity].
  apply andb_prop in H. destruct H as [_ H]. exact (wf_sec_trailer_ranges t H).
Qed.

Ltac split_wf H :=
  repeat match type of H with (_ && _) = true => let H' := fresh "H" in apply andb_prop in H; destruct H as [H H'] end.
Ltac use_true := repeat match goal with H : ?b = true |- context [?b] => rewrite H end; cbn [andb]; try reflexivity.
Ltac wf_msg :=
  try match goal with H : wf_pdu_header _ = true |- _ => pose proof (wf_pdu_header_ranges _ H) end;
  try match goal with H : wf_lengths _ _ _ = true |- _ => pose proof (wf_lengths_ranges _ _ _ H) end;
  use_true.

Lemma wf_fault_ranges m : wf_fault m = true -> fault_ranges m = true.
Proof.
  unfold wf_fault, fault_ranges. intros H.
  split_wf H. wf_msg.
Qed.

Lemma flow_fault_pack_wf mf fuel m : wf_fault m = true ->
  run (W mf) fuel k_flow_fault_pack [VO (OFault m)] = Ok (VB (fault_pack m)).
Proof. intros H. rewrite flow_fault_pack, (wf_fault_ranges m H). reflexivity. Qed.
