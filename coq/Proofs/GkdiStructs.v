(* C11: round trips of KDFParameters, FFCDHParameters, FFCDHKey, ECDHKey (fixed-width big-endian
   integers keep their leading zero bytes for every key length). *)
From V Require Import Prelude.Base Prelude.PyInt Prelude.PySlice Prelude.PyStr.
From Coq Require Import String.
From V Require Import gen.C_gkdi gen.K_gkdi Model.Types Model.Crypto Model.KeyId Model.Gkdi Proofs.GkdiLib.


Definition fitsb (kl v : Z) : bool := (0 <=? v) && (v <? 256 ^ kl).
Lemma P_pow w : P w = 256 ^ Z.of_nat w.
Proof. induction w as [|w IH]; [apply P_0|]. rewrite P_S, IH, Nat2Z.inj_succ, Z.pow_succ_r by lia. reflexivity. Qed.
Lemma fitsb_P kl v : 0 <= kl -> fitsb kl v = true -> 0 <= v < P (Z.to_nat kl).
Proof. unfold fitsb. intros Hk H. rewrite P_pow, Z2Nat.id by lia. lia. Qed.
Lemma to_bytes_be_z_ok kl v : 0 <= kl -> fitsb kl v = true -> to_bytes_be_z kl v = Ok (be (Z.to_nat kl) v).
Proof.
  intros Hk H. unfold to_bytes_be_z. destruct (kl <? 0) eqn:E; [lia|].
  apply to_bytes_be_ok, fitsb_P; assumption.
Qed.
Lemma len_be_z kl v : 0 <= kl -> len (be (Z.to_nat kl) v) = kl.
Proof. intros. rewrite len_be. lia. Qed.

Ltac offs := cbv zeta; cbn [off nth length]; rewrite ?len_le, ?len_be_z by lia;
  change (len c_FFCDH_PARAMS_MAGIC) with 4; change (len c_FFCDH_KEY_MAGIC) with 4;
  cbn [Z.of_nat Pos.of_succ_nat Pos.succ]; lia.

(* ------------------------------------------------------------------ KDFParameters *)
Definition wf_kdfp (name : pystr) : bool := wfstr name && u32b (utf16_len name + 2).

Theorem KDFParameters_roundtrip name : wf_kdfp name = true ->
  exists b, KDFParameters_pack name = Ok b /\ KDFParameters_unpack b = Ok name.
Proof.
  unfold wf_kdfp. rewrite andb_true_iff. intros [Hw Hl].
  destruct (encode_utf16z_ok _ Hw) as (bn & En & Ez & Ln). rewrite <- Ln in Hl.
  exists (concat [c_KDF_PARAMS_MAGIC0; le 4 (len bn + 2); c_KDF_PARAMS_MAGIC1; bn ++ [0; 0]]). split.
  - unfold KDFParameters_pack. rewrite Ez. cbn [bind]. rewrite len_utf16z.
    rewrite to_bytes_le_ok by (apply u32b_P4, Hl). reflexivity.
  - unfold KDFParameters_unpack. cbv zeta. rewrite (slice_none_lo (Some 8)).
    match goal with |- context [concat ?l] => set (fs := l) end.
    rewrite (slice_field fs 0 0 8) by (unfold fs; cbn [off nth length]; rewrite ?len_le; cbn; lia).
    rewrite (slice_field fs 2 12 16) by (unfold fs; cbn [off nth length]; rewrite ?len_le; cbn; lia).
    rewrite (slice_field fs 1 8 12) by (unfold fs; cbn [off nth length]; rewrite ?len_le; cbn; lia).
    unfold fs. cbn [nth]. rewrite !beqb_refl. cbn [negb orb]. rewrite (le4_val _ Hl).
    cbn [concat]. rewrite app_nil_r.
    replace (c_KDF_PARAMS_MAGIC0 ++ le 4 (len bn + 2) ++ c_KDF_PARAMS_MAGIC1 ++ bn ++ [0; 0])
      with ((c_KDF_PARAMS_MAGIC0 ++ le 4 (len bn + 2) ++ c_KDF_PARAMS_MAGIC1) ++ bn ++ [0; 0])
      by (rewrite <- !app_assoc; reflexivity).
    rewrite (slice_mid _ bn [0; 0]) by (rewrite ?len_app, ?len_le; change (len c_KDF_PARAMS_MAGIC0) with 8; change (len c_KDF_PARAMS_MAGIC1) with 4; lia).
    apply utf16le_decode_encode, En.
Qed.

(* ------------------------------------------------------------------ FFCDHParameters *)
Definition wf_ffp (p : ffcdh_params) : bool :=
  (0 <=? ffp_key_length p) && u32b (12 + ffp_key_length p + ffp_key_length p) &&
  fitsb (ffp_key_length p) (ffp_field_order p) && fitsb (ffp_key_length p) (ffp_generator p).

Definition ffp_field_list (p : ffcdh_params) : list bytes :=
  let n := Z.to_nat (ffp_key_length p) in
  [ le 4 (12 + ffp_key_length p + ffp_key_length p); c_FFCDH_PARAMS_MAGIC; le 4 (ffp_key_length p);
    be n (ffp_field_order p); be n (ffp_generator p) ].

Lemma FFCDHParameters_pack_ok p : wf_ffp p = true -> FFCDHParameters_pack p = Ok (concat (ffp_field_list p)).
Proof.
  unfold wf_ffp. rewrite !andb_true_iff. intros [[[Hk Hl] Hfo] Hg].
  assert (Hk0 : 0 <= ffp_key_length p) by lia.
  unfold FFCDHParameters_pack. rewrite !to_bytes_be_z_ok by assumption. cbn [bind].
  rewrite !len_be_z by assumption.
  rewrite !to_bytes_le_ok by (apply u32b_P4; unfold u32b in *; lia). reflexivity.
Qed.

Theorem FFCDHParameters_roundtrip p : wf_ffp p = true ->
  exists b, FFCDHParameters_pack p = Ok b /\ FFCDHParameters_unpack b = Ok p.
Proof.
  intros Hwf. exists (concat (ffp_field_list p)). split; [apply FFCDHParameters_pack_ok, Hwf|].
  unfold wf_ffp in Hwf. rewrite !andb_true_iff in Hwf. destruct Hwf as [[[Hk Hl] Hfo] Hg].
  assert (Hk0 : 0 <= ffp_key_length p) by lia.
  assert (Hku : u32b (ffp_key_length p) = true) by (unfold u32b in *; lia).
  unfold FFCDHParameters_unpack. cbv zeta.
  set (fs := ffp_field_list p).
  rewrite (slice_field fs 1 4 8) by (unfold fs, ffp_field_list; offs).
  rewrite (slice_field fs 2 8 12) by (unfold fs, ffp_field_list; offs).
  assert (Hf2 : le_val (@nth (list Z) 2 fs []) = ffp_key_length p)
    by (unfold fs, ffp_field_list; cbv zeta; cbn [nth]; apply le4_val, Hku).
  rewrite !Hf2.
  rewrite (slice_field fs 3 12 (12 + ffp_key_length p)) by (unfold fs, ffp_field_list; offs).
  rewrite (slice_field fs 4 (12 + ffp_key_length p) (12 + ffp_key_length p + ffp_key_length p)) by (unfold fs, ffp_field_list; offs).
  unfold fs, ffp_field_list. cbv zeta. cbn [nth]. rewrite beqb_refl. cbn [negb].
  rewrite !be_val_be by (apply fitsb_P; assumption). destruct p; reflexivity.
Qed.

(* ------------------------------------------------------------------ FFCDHKey *)
Definition wf_ffk (k : ffcdh_key) : bool :=
  u32b (ffk_key_length k) && fitsb (ffk_key_length k) (ffk_field_order k) &&
  fitsb (ffk_key_length k) (ffk_generator k) && fitsb (ffk_key_length k) (ffk_public_key k).

Definition ffk_field_list (k : ffcdh_key) : list bytes :=
  let n := Z.to_nat (ffk_key_length k) in
  [ c_FFCDH_KEY_MAGIC; le 4 (ffk_key_length k); be n (ffk_field_order k); be n (ffk_generator k); be n (ffk_public_key k) ].

Lemma FFCDHKey_pack_ok k : wf_ffk k = true -> FFCDHKey_pack k = Ok (concat (ffk_field_list k)).
Proof.
  unfold wf_ffk. rewrite !andb_true_iff. intros [[[Hk Hfo] Hg] Hp].
  assert (Hk0 : 0 <= ffk_key_length k) by (unfold u32b in Hk; lia).
  unfold FFCDHKey_pack. rewrite !to_bytes_be_z_ok by assumption. cbn [bind].
  rewrite to_bytes_le_ok by (apply u32b_P4, Hk). reflexivity.
Qed.

Lemma len_ffk_field_list k : wf_ffk k = true -> len (concat (ffk_field_list k)) = 8 + 3 * ffk_key_length k.
Proof.
  intros Hwf. unfold wf_ffk, u32b in Hwf. rewrite !andb_true_iff in Hwf.
  unfold ffk_field_list. cbv zeta. cbn [concat]. rewrite !len_app, !len_be_z, len_le by lia.
  change (len c_FFCDH_KEY_MAGIC) with 4. change (len (@nil Z)) with 0. lia.
Qed.

Lemma FFCDHKey_unpack_fields k : wf_ffk k = true -> FFCDHKey_unpack (concat (ffk_field_list k)) = Ok k.
Proof.
  intros Hwf0. pose proof (len_ffk_field_list k Hwf0) as Hlenall. revert Hwf0.
  unfold wf_ffk. rewrite !andb_true_iff. intros [[[Hk Hfo] Hg] Hp].
  assert (Hk0 : 0 <= ffk_key_length k) by (unfold u32b in Hk; lia).
  unfold FFCDHKey_unpack. cbv zeta. rewrite (slice_none_lo (Some 4) (concat _)).
  set (fs := ffk_field_list k).
  rewrite (slice_field fs 0 0 4) by (unfold fs, ffk_field_list; offs).
  rewrite (slice_field fs 1 4 8) by (unfold fs, ffk_field_list; offs).
  assert (Hf1 : le_val (@nth (list Z) 1 fs []) = ffk_key_length k)
    by (unfold fs, ffk_field_list; cbv zeta; cbn [nth]; apply le4_val, Hk).
  rewrite !Hf1.
  (* the data is exactly 8 + 3 * key_length octets long: the truncation guard does not fire *)
  fold fs in Hlenall. rewrite Hlenall. unfold k_ffcdhkey_short.
  destruct (8 + 3 * ffk_key_length k <? 8 + ffk_key_length k * 3) eqn:Eshort; [lia|].
  rewrite (slice_field fs 2 8 (8 + ffk_key_length k)) by (unfold fs, ffk_field_list; offs).
  rewrite (slice_tail fs 3 (8 + ffk_key_length k)) by (unfold fs, ffk_field_list; offs).
  unfold fs, ffk_field_list. cbv zeta. cbn [nth skipn concat]. rewrite beqb_refl. cbn [negb]. rewrite app_nil_r.
  rewrite (slice_head _ _ (ffk_key_length k)) by (rewrite len_be_z by lia; reflexivity).
  rewrite (slice_suffix (be _ (ffk_generator k))) by (rewrite len_be_z by lia; reflexivity).
  rewrite slice_none_lo, slice_all by (rewrite len_be_z by lia; lia).
  rewrite !be_val_be by (apply fitsb_P; assumption). destruct k; reflexivity.
Qed.

Theorem FFCDHKey_roundtrip k : wf_ffk k = true ->
  exists b, FFCDHKey_pack k = Ok b /\ FFCDHKey_unpack b = Ok k.
Proof. intros H. eexists. split; [apply FFCDHKey_pack_ok, H|apply FFCDHKey_unpack_fields, H]. Qed.

(* fixed width: every integer field occupies exactly key_length bytes, whatever its magnitude *)
Lemma FFCDHKey_pack_length k b : wf_ffk k = true -> FFCDHKey_pack k = Ok b -> len b = 8 + 3 * ffk_key_length k.
Proof.
  intros Hwf. rewrite (FFCDHKey_pack_ok k Hwf). intros H. apply Ok_inj in H. subst b.
  unfold wf_ffk, u32b in Hwf. rewrite !andb_true_iff in Hwf.
  unfold ffk_field_list. cbv zeta. cbn [concat]. rewrite !len_app, !len_be_z, len_le by lia.
  change (len c_FFCDH_KEY_MAGIC) with 4. change (len (@nil Z)) with 0. lia.
Qed.

(* ------------------------------------------------------------------ ECDHKey *)
Definition wf_eck (k : ecdh_key) : bool :=
  match curve_of_name (eck_curve_name k) with Some _ => true | None => false end &&
  u32b (eck_key_length k) && fitsb (eck_key_length k) (eck_x k) && fitsb (eck_key_length k) (eck_y k).

Lemma curve_of_name_inv n c : curve_of_name n = Some c -> curve_name c = n.
Proof.
  unfold curve_of_name, str_eqb.
  destruct (beqb n (ascii_str "P256"%string)) eqn:E1; [apply beqb_eq in E1; intros H; injection H as <-; now subst|].
  destruct (beqb n (ascii_str "P384"%string)) eqn:E2; [apply beqb_eq in E2; intros H; injection H as <-; now subst|].
  destruct (beqb n (ascii_str "P521"%string)) eqn:E3; [apply beqb_eq in E3; intros H; injection H as <-; now subst|].
  discriminate.
Qed.
Lemma curve_of_id_magic c : curve_of_id (le_val (curve_magic c)) = Some c.
Proof. destruct c; reflexivity. Qed.
Lemma len_curve_magic c : len (curve_magic c) = 4.
Proof. destruct c; reflexivity. Qed.

Definition eck_field_list (c : curve) (k : ecdh_key) : list bytes :=
  let n := Z.to_nat (eck_key_length k) in
  [ curve_magic c; le 4 (eck_key_length k); be n (eck_x k); be n (eck_y k) ].

Lemma ECDHKey_pack_ok k c : curve_of_name (eck_curve_name k) = Some c -> wf_eck k = true ->
  ECDHKey_pack k = Ok (concat (eck_field_list c k)).
Proof.
  intros Ec. unfold wf_eck. rewrite Ec, !andb_true_iff. intros [[[_ Hk] Hx] Hy].
  assert (Hk0 : 0 <= eck_key_length k) by (unfold u32b in Hk; lia).
  unfold ECDHKey_pack. rewrite !to_bytes_be_z_ok by assumption. cbn [bind]. rewrite Ec.
  rewrite to_bytes_le_ok by (apply u32b_P4, Hk). reflexivity.
Qed.

Theorem ECDHKey_roundtrip k : wf_eck k = true ->
  exists b, ECDHKey_pack k = Ok b /\ ECDHKey_unpack b = Ok k.
Proof.
  intros Hwf. destruct (curve_of_name (eck_curve_name k)) as [c|] eqn:Ec; [|unfold wf_eck in Hwf; rewrite Ec in Hwf; discriminate].
  exists (concat (eck_field_list c k)). split; [apply ECDHKey_pack_ok; assumption|].
  unfold wf_eck in Hwf. rewrite Ec, !andb_true_iff in Hwf. destruct Hwf as [[[_ Hk] Hx] Hy].
  assert (Hk0 : 0 <= eck_key_length k) by (unfold u32b in Hk; lia).
  pose proof (len_curve_magic c) as Lm.
  unfold ECDHKey_unpack. cbv zeta. rewrite (slice_none_lo (Some 4) (concat _)).
  set (fs := eck_field_list c k).
  rewrite (slice_field fs 0 0 4) by (unfold fs, eck_field_list; cbv zeta; cbn [off nth length]; rewrite ?Lm; lia).
  assert (Hf0 : @nth (list Z) 0 fs [] = curve_magic c) by reflexivity. rewrite Hf0, curve_of_id_magic.
  rewrite (slice_field fs 1 4 8) by (unfold fs, eck_field_list; cbv zeta; cbn [off nth length]; rewrite ?Lm, ?len_le; cbn; lia).
  assert (Hf1 : le_val (@nth (list Z) 1 fs []) = eck_key_length k)
    by (unfold fs, eck_field_list; cbv zeta; cbn [nth]; apply le4_val, Hk).
  rewrite !Hf1.
  rewrite (slice_field fs 2 8 (8 + eck_key_length k))
    by (unfold fs, eck_field_list; cbv zeta; cbn [off nth length]; rewrite ?Lm, ?len_le, ?len_be_z by lia; cbn [Z.of_nat Pos.of_succ_nat Pos.succ]; lia).
  rewrite (slice_tail fs 3 (8 + eck_key_length k))
    by (unfold fs, eck_field_list; cbv zeta; cbn [off nth length]; rewrite ?Lm, ?len_le, ?len_be_z by lia; cbn [Z.of_nat Pos.of_succ_nat Pos.succ]; lia).
  unfold fs, eck_field_list. cbv zeta. cbn [nth skipn concat]. rewrite app_nil_r.
  rewrite slice_none_lo, slice_all by (rewrite len_be_z by lia; lia).
  rewrite !be_val_be by (apply fitsb_P; assumption).
  rewrite (curve_of_name_inv _ _ Ec). destruct k; reflexivity.
Qed.

(* non-vacuity: values with leading zero bytes at every position *)
Example wf_ffk_example : wf_ffk {| ffk_key_length := 2; ffk_field_order := 65521; ffk_generator := 3; ffk_public_key := 255 |} = true.
Proof. reflexivity. Qed.
Example ffk_leading_zero_example :
  FFCDHKey_pack {| ffk_key_length := 2; ffk_field_order := 65521; ffk_generator := 3; ffk_public_key := 255 |}
  = Ok [68; 72; 80; 66; 2; 0; 0; 0; 255; 241; 0; 3; 0; 255].
Proof. reflexivity. Qed.
Example wf_ffp_example : wf_ffp {| ffp_key_length := 3; ffp_field_order := 65521; ffp_generator := 0 |} = true.
Proof. reflexivity. Qed.
Example wf_eck_example : wf_eck {| eck_curve_name := ascii_str "P384"%string; eck_key_length := 48; eck_x := 1; eck_y := 2 ^ 383 |} = true.
Proof. vm_compute. reflexivity. Qed.
Example wf_kdfp_example : wf_kdfp (ascii_str "SHA512"%string) = true /\ wf_kdfp [] = true /\ wf_kdfp [128512] = true.
Proof. repeat split. Qed.
