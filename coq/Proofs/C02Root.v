(* C02, the top of the chain: the model's KDF context, L0 seed and L1(31) key (Model/Chain.v, tied to the source by
   Proofs/Flow_gkdi_keys_chain.v) are the ones Spec/GkdiRootSpec.v writes down from MS-GKDI 3.1.4.1.2, and composed with
   the chain theorem the key at (l1, l2) is the specification's iterated KDF from the ROOT KEY BYTES. *)
From V Require Import Prelude.Base Prelude.PyInt Prelude.Loops gen.Kernels gen.Consts Spec.GkdiSpec Spec.GkdiRootSpec.
From V Require Import Model.Crypto Model.Types Model.Chain Proofs.C02.

(* an index without an encoding is Python's OverflowError of int.to_bytes *)
Definition res_of (o : option bytes) : res bytes := match o with Some b => Ok b | None => Raise OverflowError end.

Lemma le4_digits u : le 4 u = [u mod 256; (u / 256) mod 256; (u / 65536) mod 256; (u / 16777216) mod 256].
Proof.
  cbn [le]. rewrite !Z.div_div by lia. reflexivity.
Qed.

Lemma i32le_spec z : to_bytes_le_signed 4 z = res_of (i32le z).
Proof.
  unfold to_bytes_le_signed, i32le. rewrite P_4.
  destruct ((-2147483648 <=? z) && (z <=? 2147483647)) eqn:E.
  - match goal with |- context [if ?b then Ok _ else _] => replace b with true by lia end.
    cbn [res_of]. f_equal. rewrite le4_digits.
    assert (Hm : z mod 4294967296 = if z <? 0 then z + 4294967296 else z).
    { destruct (z <? 0) eqn:Ez.
      - symmetry. apply (Z.mod_unique_pos z 4294967296 (-1)); lia.
      - apply Z.mod_small; lia. }
    rewrite Hm. reflexivity.
  - match goal with |- context [if ?b then Ok _ else _] => replace b with false by lia end. reflexivity.
Qed.

Lemma label_spec : kds_label = c_KDS_SERVICE_LABEL.
Proof. reflexivity. Qed.

(* for ALL arguments: the specified bytes, or OverflowError exactly when an index has no signed 32-bit encoding *)
Lemma kdf_context_layout rkid l0 l1 l2 : compute_kdf_context rkid l0 l1 l2 = res_of (kdf_context rkid l0 l1 l2).
Proof.
  unfold compute_kdf_context, kdf_context. rewrite !i32le_spec.
  destruct (i32le l0); [|reflexivity]. destruct (i32le l1); [|reflexivity]. destruct (i32le l2); reflexivity.
Qed.

Definition i32 (z : Z) : Prop := -2147483648 <= z <= 2147483647.
Lemma i32le_some z : i32 z -> exists a b c d, i32le z = Some [a; b; c; d] /\ wfb [a; b; c; d] = true.
Proof.
  unfold i32, i32le. intros Hz. replace ((-2147483648 <=? z) && (z <=? 2147483647)) with true by lia.
  do 4 eexists. split; [reflexivity|]. cbn [wfb]. lia.
Qed.
Lemma i32le_none z : ~ i32 z -> i32le z = None.
Proof. unfold i32, i32le. intros Hz. replace ((-2147483648 <=? z) && (z <=? 2147483647)) with false by lia. reflexivity. Qed.

Lemma kdf_context_in_range rkid l0 l1 l2 : i32 l0 -> i32 l1 -> i32 l2 ->
  exists a b c, i32le l0 = Some a /\ i32le l1 = Some b /\ i32le l2 = Some c /\
    compute_kdf_context rkid l0 l1 l2 = Ok (rkid ++ a ++ b ++ c) /\ len (rkid ++ a ++ b ++ c) = len rkid + 12.
Proof.
  intros H0 H1 H2. rewrite kdf_context_layout. unfold kdf_context.
  destruct (i32le_some l0 H0) as (a0 & a1 & a2 & a3 & E0 & _).
  destruct (i32le_some l1 H1) as (b0 & b1 & b2 & b3 & E1 & _).
  destruct (i32le_some l2 H2) as (c0 & c1 & c2 & c3 & E2 & _).
  rewrite E0, E1, E2. do 3 eexists. repeat (split; [reflexivity|]).
  rewrite !len_app. unfold len. cbn [length]. lia.
Qed.
Lemma kdf_context_out_of_range rkid l0 l1 l2 : ~ (i32 l0 /\ i32 l1 /\ i32 l2) ->
  compute_kdf_context rkid l0 l1 l2 = Raise OverflowError.
Proof.
  intros Hn. rewrite kdf_context_layout. unfold kdf_context.
  destruct (i32le l0) eqn:E0; [|reflexivity]. destruct (i32le l1) eqn:E1; [|reflexivity].
  destruct (i32le l2) eqn:E2; [|reflexivity]. exfalso. apply Hn.
  unfold i32le in E0, E1, E2. unfold i32.
  destruct ((-2147483648 <=? l0) && (l0 <=? 2147483647)) eqn:A0; [|discriminate].
  destruct ((-2147483648 <=? l1) && (l1 <=? 2147483647)) eqn:A1; [|discriminate].
  destruct ((-2147483648 <=? l2) && (l2 <=? 2147483647)) eqn:A2; [|discriminate]. lia.
Qed.
Lemma i32le_examples : i32le (-1) = Some [255; 255; 255; 255] /\ i32le 31 = Some [31; 0; 0; 0] /\
  i32le 361 = Some [105; 1; 0; 0] /\ i32le (-2147483648) = Some [0; 0; 0; 128] /\ i32le 2147483648 = None.
Proof. repeat split; reflexivity. Qed.

Section Root.
Context (c : Crypto) (h : hash) (root_key target_sd rkid : bytes) (l0 : Z).
Notation sL0 := (L0_seed (kdf c) h root_key rkid l0).
Notation sL1_31 := (L1_31 (kdf c) h root_key target_sd rkid l0).
Notation sL1 := (L1 (kdf c) h root_key target_sd rkid l0).
Notation sL2 := (L2 (kdf c) h root_key target_sd rkid l0).
Notation kd := (kdfK c h rkid l0).

(* compute_l1_key = the specification's L1 key at index 31 from the root key bytes, for ALL arguments *)
Lemma root_l1 : compute_l1_key c h target_sd rkid l0 root_key = res_of sL1_31.
Proof.
  unfold compute_l1_key, L1_31, L0_seed, derive. rewrite !kdf_context_layout, label_spec.
  unfold kdf_context. destruct (i32le l0); [|reflexivity]. reflexivity.
Qed.

Lemma kdfK_spec k a b : kd (res_of k) a b = res_of (derive (kdf c) h k (kdf_context rkid l0 a b)).
Proof.
  unfold kdfK, derive. rewrite kdf_context_layout, label_spec.
  destruct k as [k|]; [|reflexivity]. destruct (kdf_context rkid l0 a b); reflexivity.
Qed.

(* the abstract chain of Spec/GkdiSpec.v over kdfK, started at top := compute_l1_key ..., is the byte-level hierarchy *)
Lemma K1n_spec d : K1n kd (compute_l1_key c h target_sd rkid l0 root_key) d = res_of (L1_down (kdf c) h root_key target_sd rkid l0 d).
Proof.
  induction d as [|d IH]; [exact root_l1|]. cbn [K1n L1_down]. rewrite IH. apply kdfK_spec.
Qed.
Lemma K1_spec i : K1 kd (compute_l1_key c h target_sd rkid l0 root_key) i = res_of (sL1 i).
Proof. apply K1n_spec. Qed.
Lemma K2n_spec i d : K2n kd (compute_l1_key c h target_sd rkid l0 root_key) i d = res_of (L2_down (kdf c) h root_key target_sd rkid l0 i d).
Proof.
  induction d as [|d IH]; cbn [K2n L2_down].
  - rewrite K1_spec. apply kdfK_spec.
  - rewrite IH. apply kdfK_spec.
Qed.
Lemma K2_spec i j : K2 kd (compute_l1_key c h target_sd rkid l0 root_key) i j = res_of (sL2 i j).
Proof. apply K2n_spec. Qed.

(* in range nothing fails: every key of the hierarchy exists *)
Lemma L2_defined i j : i32 l0 -> 0 <= i <= 31 -> 0 <= j <= 31 -> exists k, sL2 i j = Some k.
Proof.
  intros H0 Hi Hj.
  assert (Hc : forall a b, i32 a -> i32 b -> exists x, kdf_context rkid l0 a b = Some x).
  { intros a b Ha Hb. unfold kdf_context.
    destruct (i32le_some l0 H0) as (? & ? & ? & ? & -> & _). destruct (i32le_some a Ha) as (? & ? & ? & ? & -> & _).
    destruct (i32le_some b Hb) as (? & ? & ? & ? & -> & _). eexists; reflexivity. }
  assert (H1 : forall d, (d <= 31)%nat -> exists k, L1_down (kdf c) h root_key target_sd rkid l0 d = Some k).
  { induction d as [|d IH]; intros Hd.
    - unfold L1_down, L1_31, L0_seed, derive.
      destruct (Hc (-1) (-1)) as [x ->]; [unfold i32; lia|unfold i32; lia|].
      destruct (Hc 31 (-1)) as [y ->]; [unfold i32; lia|unfold i32; lia|]. eexists; reflexivity.
    - cbn [L1_down]. destruct IH as [k ->]; [lia|].
      destruct (Hc (31 - Z.of_nat (S d)) (-1)) as [x ->]; [unfold i32; lia|unfold i32; lia|]. eexists; reflexivity. }
  assert (H2 : forall d, (d <= 31)%nat -> exists k, L2_down (kdf c) h root_key target_sd rkid l0 i d = Some k).
  { induction d as [|d IH]; intros Hd; cbn [L2_down].
    - unfold L1. destruct (H1 (Z.to_nat (31 - i))) as [k ->]; [lia|].
      destruct (Hc i 31) as [x ->]; [unfold i32; lia|unfold i32; lia|]. eexists; reflexivity.
    - destruct IH as [k ->]; [lia|].
      destruct (Hc i (31 - Z.of_nat (S d))) as [x ->]; [unfold i32; lia|unfold i32; lia|]. eexists; reflexivity. }
  apply H2. lia.
Qed.
End Root.

(* ---- composition with the chain theorem: from ANY conforming envelope (relative to the L1(31) key the library derives
   from the root key) covering the request, compute_l2_key returns the specification's key from the root key bytes ---- *)
Theorem root_chain (c : Crypto) (h : hash) (root_key target_sd : bytes) (e : envelope) l1 l2 :
  conforming (kdfK c h (gke_rkid e) (gke_l0 e)) (compute_l1_key c h target_sd (gke_rkid e) (gke_l0 e) root_key) (env_of e) ->
  0 <= l1 <= 31 -> 0 <= l2 <= 31 -> covers (env_of e) l1 l2 ->
  compute_l2_key c h l1 l2 e = res_of (L2 (kdf c) h root_key target_sd (gke_rkid e) (gke_l0 e) l1 l2).
Proof.
  intros Hc H1 H2 Hcov. rewrite (model_chain c h _ e l1 l2 Hc H1 H2 Hcov). apply K2_spec.
Qed.

(* the envelope the library itself builds from a root key: position (31, 31), L1 key = compute_l1_key(...), any L2 field *)
Theorem root_envelope_chain (c : Crypto) (h : hash) (root_key target_sd : bytes) (e : envelope) l1 l2 :
  gke_l1 e = 31 -> gke_l2 e = 31 ->
  compute_l1_key c h target_sd (gke_rkid e) (gke_l0 e) root_key = Ok (gke_l1_key e) ->
  0 <= l1 <= 31 -> 0 <= l2 <= 31 ->
  compute_l2_key c h l1 l2 e = res_of (L2 (kdf c) h root_key target_sd (gke_rkid e) (gke_l0 e) l1 l2).
Proof.
  intros E1 E2 Ek H1 H2. apply root_chain; auto.
  - unfold conforming, env_of; cbn [e_l1 e_l2 e_l1key e_l2key]. rewrite E1, E2, Ek.
    split; [lia|]. split; [lia|]. split; [reflexivity|]. intros Hn; exfalso; apply Hn; reflexivity.
  - unfold covers, env_of; cbn [e_l1 e_l2]. lia.
Qed.
