From V Require Import Prelude.Base Prelude.PyInt Prelude.PySlice gen.K_client gen.C_client gen.C_rpc.
From V Require Import Model.Pdu Model.Request Model.RpcDispatch Model.Seal.

Lemma guards_meaning :
  (forall a o n, k_unwrap_guard a o n = true <-> a = true /\ o = true /\ n <> 0) /\
  (forall f a, k_sec_trailer_offset f a = f - (a + 8)) /\ k_unwrap_trailer_len = 8.
Proof.
  unfold k_unwrap_guard, k_sec_trailer_offset, k_unwrap_trailer_len.
  split; [intros [] [] n; cbn; lia|]. split; reflexivity.
Qed.

(* a reply that carries no security trailer is refused when the call was sealed *)
Lemma reject_meaning : forall a o n, k_reject_unsealed a o n = true <-> a = true /\ o = true /\ n = 0.
Proof. unfold k_reject_unsealed. intros [] [] n; cbn; lia. Qed.

(* PDU.unpack yields a Response only from a RESPONSE PDU, decoded by Response.unpack *)
Lemma pdu_unpack_response fuel data r t :
  pdu_unpack fuel data = Ok (PResponse r, t) ->
  exists body h st, pdu_split data = Ok (body, h, st) /\ h_packet_type h = c_PT_RESPONSE /\ response_unpack body h st = Ok r.
Proof.
  unfold pdu_unpack. destruct (pdu_split data) as [[[body h] st]|e] eqn:Es; [|discriminate]. cbn [bind].
  unfold registry_lookup. destruct (mem (h_packet_type h) c_PDU_registry); cbn [bind]; [|discriminate].
  destruct (h_packet_type h =? c_PT_REQUEST) eqn:E0.
  { destruct (request_unpack body h st); cbn [bind]; discriminate. }
  destruct (h_packet_type h =? c_PT_RESPONSE) eqn:E1.
  { destruct (response_unpack body h st) as [m|e] eqn:Er; cbn [bind]; [|discriminate].
    intro H. apply Ok_inj in H. inversion H; subst. exists body, h, st. repeat split; auto. apply Z.eqb_eq. exact E1. }
  repeat match goal with
  | |- (if ?c then _ else _) = _ -> _ => destruct c
  end; intro H;
  repeat match type of H with
  | (let* _ := ?x in _) = _ => let r := fresh "r" in destruct x as [r|?]; cbn [bind] in H; [try destruct r|discriminate]
  end; discriminate.
Qed.

Section Sealed.
Variable unwrap : unwrap_fn.

Lemma sealed_only o0 o1 sign hdr resp r :
  process_response unwrap true (Some (o0, o1)) sign hdr resp = Ok r ->
  h_auth_len hdr <> 0 /\
  let a := unwrap_slices hdr o0 sign resp in
  exists dec, unwrap (ua_header a) (ua_body a) (ua_trailer a) (ua_signature a) sign = Ok dec /\
    exists body h st,
      pdu_split (assign_slice resp o0 (h_frag_len hdr - (h_auth_len hdr + 8)) dec) = Ok (body, h, st) /\
      h_packet_type h = c_PT_RESPONSE /\ response_unpack body h st = Ok r.
Proof.
  unfold process_response, unseal. destruct guards_meaning as (Hg & Hoff & Htl). intros H.
  destruct (k_unwrap_guard true true (h_auth_len hdr)) eqn:Eg.
  - apply Hg in Eg as (_ & _ & Hn). split; [exact Hn|]. cbv zeta.
    cbn [ua_header ua_body ua_trailer ua_signature ua_sign unwrap_slices] in *.
    destruct (unwrap _ _ _ _ sign) as [dec|e] eqn:Eu; [|discriminate]. cbn [bind] in H.
    exists dec. split; [reflexivity|]. rewrite Hoff in H.
    destruct (pdu_unpack _ _) as [[p t]|e] eqn:Ep; [|discriminate]. cbn [bind] in H.
    destruct p; try discriminate.
    destruct (k_reject_unsealed true true (h_auth_len hdr)); [discriminate|]. apply Ok_inj in H. subst m.
    exact (pdu_unpack_response _ _ _ _ Ep).
  - (* no unwrap happened: the reply is refused *)
    exfalso. cbn [bind] in H.
    destruct (pdu_unpack _ _) as [[p t]|e] eqn:Ep; [|discriminate]. cbn [bind] in H.
    destruct p; try discriminate.
    assert (Hn : h_auth_len hdr = 0).
    { destruct (Z.eq_dec (h_auth_len hdr) 0) as [|Hne]; [assumption|].
      assert (k_unwrap_guard true true (h_auth_len hdr) = true) by (apply Hg; auto). congruence. }
    assert (Hr : k_reject_unsealed true true (h_auth_len hdr) = true) by (apply reject_meaning; auto).
    rewrite Hr in H. discriminate.
Qed.

Lemma no_trailer_rejected o0 o1 sign hdr resp :
  h_auth_len hdr = 0 -> exists e, process_response unwrap true (Some (o0, o1)) sign hdr resp = Raise e.
Proof.
  intros Hn. destruct (process_response unwrap true (Some (o0, o1)) sign hdr resp) as [r|e] eqn:E; [|eauto].
  apply sealed_only in E. tauto.
Qed.

Lemma unwrap_failure_rejected o0 o1 sign hdr resp e :
  h_auth_len hdr <> 0 ->
  (let a := unwrap_slices hdr o0 sign resp in
   unwrap (ua_header a) (ua_body a) (ua_trailer a) (ua_signature a) sign = Raise e) ->
  process_response unwrap true (Some (o0, o1)) sign hdr resp = Raise e.
Proof.
  cbv zeta. intros Hn Hu. unfold process_response, unseal. destruct guards_meaning as (Hg & _ & _).
  assert (Eg : k_unwrap_guard true true (h_auth_len hdr) = true) by (apply Hg; auto). rewrite Eg.
  cbn [ua_header ua_body ua_trailer ua_signature ua_sign unwrap_slices] in *. rewrite Hu. reflexivity.
Qed.

(* what is handed to the security context: the first o0 octets as header, the octets up to the
   security trailer as body, the 8-octet trailer header, everything after it as signature *)
Lemma unwrap_regions hdr o0 sign resp :
  let a := unwrap_slices hdr o0 sign resp in
  let off := h_frag_len hdr - (h_auth_len hdr + 8) in
  ua_header a = slice None (Some o0) resp /\ ua_body a = slice (Some o0) (Some off) resp /\
  ua_trailer a = slice (Some off) (Some (off + 8)) resp /\ ua_signature a = slice (Some (off + 8)) None resp /\ ua_sign a = sign.
Proof.
  cbv zeta. destruct guards_meaning as (_ & Hoff & Htl). unfold unwrap_slices. rewrite Hoff, Htl.
  cbn [ua_header ua_body ua_trailer ua_signature ua_sign]. auto.
Qed.
End Sealed.
