(* gkdi decoders on ARBITRARY bytes: the only exception class is ValueError (deliberate), never an
   internal error and never OutOfFuel (the UTF-16 decoder terminates within len(data) steps).
   Used by C05/C12-style statements of other areas; part of the C11 cone. *)
From V Require Import Prelude.Base Prelude.PyInt Prelude.PySlice Prelude.PyStr.
From V Require Import gen.C_gkdi gen.K_gkdi Model.Types Model.Crypto Model.KeyId Model.Gkdi Proofs.GkdiLib.

Definition only_value_error {A} (r : res A) : Prop := (exists a, r = Ok a) \/ r = Raise ValueError.

Lemma utf16le_decode_fuel_safe fuel : forall b, (length b <= fuel)%nat -> only_value_error (utf16le_decode_fuel fuel b).
Proof.
  induction fuel as [fuel IH] using lt_wf_ind. intros b Hb.
  destruct fuel as [|fuel]; [destruct b; [left; eexists; reflexivity|cbn in Hb; lia]|].
  cbn [utf16le_decode_fuel]. destruct b as [|lo [|hi r]]; [left; eexists; reflexivity|right; reflexivity|].
  cbn [length] in Hb.
  destruct ((lo + 256 * hi <? 55296) || (57343 <? lo + 256 * hi)).
  - destruct (IH fuel ltac:(lia) r ltac:(lia)) as [[s Hs]|Hs]; rewrite Hs; cbn [bind]; [left; eexists; reflexivity|right; reflexivity].
  - destruct (56320 <=? lo + 256 * hi); [right; reflexivity|].
    destruct r as [|lo2 [|hi2 r2]]; [right; reflexivity|right; reflexivity|].
    destruct ((56320 <=? lo2 + 256 * hi2) && (lo2 + 256 * hi2 <=? 57343)); [|right; reflexivity].
    cbn [length] in Hb.
    destruct (IH fuel ltac:(lia) r2 ltac:(lia)) as [[s Hs]|Hs]; rewrite Hs; cbn [bind]; [left; eexists; reflexivity|right; reflexivity].
Qed.
Lemma utf16le_decode_safe b : only_value_error (utf16le_decode b).
Proof. apply utf16le_decode_fuel_safe. lia. Qed.

Ltac safe_bind := match goal with
  | |- only_value_error (bind (utf16le_decode ?b) _) =>
      let s := fresh "s" in let H := fresh "H" in
      destruct (utf16le_decode_safe b) as [[s H]|H]; rewrite H; cbn [bind]; [|right; reflexivity]
  | |- only_value_error (bind (uuid_of_bytes_le ?b) _) =>
      unfold uuid_of_bytes_le at 1; destruct (len b =? 16); cbn [bind]; [|right; reflexivity]
  | |- only_value_error (if ?c then Raise ValueError else _) => destruct c; [right; reflexivity|]
  | |- only_value_error (Ok _) => left; eexists; reflexivity
  end.

Theorem KeyIdentifier_unpack_safe data : only_value_error (KeyIdentifier_unpack data).
Proof. unfold KeyIdentifier_unpack. cbv zeta. repeat safe_bind. Qed.
Theorem GroupKeyEnvelope_unpack_safe data : only_value_error (GroupKeyEnvelope_unpack data).
Proof. unfold GroupKeyEnvelope_unpack. cbv zeta. repeat safe_bind. Qed.
Theorem GetKey_unpack_response_safe data : only_value_error (GetKey_unpack_response data).
Proof. unfold GetKey_unpack_response. cbv zeta. safe_bind. apply GroupKeyEnvelope_unpack_safe. Qed.
Theorem process_get_key_result_safe stub tr : only_value_error (process_get_key_result stub tr).
Proof. unfold process_get_key_result. cbv zeta. apply GetKey_unpack_response_safe. Qed.
Theorem KDFParameters_unpack_safe data : only_value_error (KDFParameters_unpack data).
Proof. unfold KDFParameters_unpack. cbv zeta. safe_bind. apply utf16le_decode_safe. Qed.
Theorem FFCDHParameters_unpack_safe data : only_value_error (FFCDHParameters_unpack data).
Proof. unfold FFCDHParameters_unpack. cbv zeta. repeat safe_bind. Qed.
Theorem FFCDHKey_unpack_safe data : only_value_error (FFCDHKey_unpack data).
Proof. unfold FFCDHKey_unpack. cbv zeta. repeat safe_bind. Qed.
Theorem ECDHKey_unpack_safe data : only_value_error (ECDHKey_unpack data).
Proof. unfold ECDHKey_unpack. cbv zeta. destruct (curve_of_id _); [left; eexists; reflexivity|right; reflexivity]. Qed.
Theorem GetKey_unpack_safe data : only_value_error (GetKey_unpack data).
Proof.
  unfold GetKey_unpack. cbv zeta.
  match goal with |- context [if ?c then _ else _] => destruct c end; cbn [bind].
  - left; eexists; reflexivity.
  - unfold uuid_of_bytes_le. match goal with |- context [len ?b =? 16] => destruct (len b =? 16) end; cbn [bind];
      [left; eexists; reflexivity|right; reflexivity].
Qed.
