(* Tie theorems, request framing (C13): the regenerated syntax of RpcClient._create_pdu_header, _create_request,
   AuthenticationProvider.wrap and _client._process_get_key_result (gen/F_client.v), run in the world Flow/World_client.v,
   computes the functions of Model/Framing.v the C13 theorems are about. *)
From V Require Import Prelude.Base Prelude.PyInt Prelude.PySlice Prelude.PyAst Prelude.PyWorld gen.F_client gen.K_client gen.C_client gen.C_rpc.
From V Require Import Model.Pdu Model.Request Model.Bind Model.Verification Model.RpcDispatch.
From V Require Import Model.Handshake Model.Framing Model.Seal Model.Recv Model.Conversation Model.Types Model.Gkdi.
From V Require Import Flow.World_client Proofs.FlowClientLib.
Local Open Scope string_scope.
Local Open Scope list_scope.
Local Open Scope Z_scope.

Arguments len : simpl never.
Arguments Z.modulo : simpl never.
Arguments Z.lor : simpl never.
Arguments k_vt_pad : simpl never.
Arguments k_auth_pad : simpl never.
Arguments k_enc_off : simpl never.
Arguments k_alloc_hint : simpl never.
Arguments k_strip_test : simpl never.
Arguments k_strip_len : simpl never.
Arguments verification_trailer_pack : simpl never.
Arguments GetKey_unpack_response : simpl never.
Arguments slice : simpl never.

Section Frame.
Context (wrap : wrap_fn) (unwrap : unwrap_fn) (sch : list Z).
Notation W := (WC wrap unwrap sch).

Lemma lor_first_last fl : Z.lor (Z.lor fl c_PFC_FIRST_FRAG) c_PFC_LAST_FRAG = Z.lor fl c_PFC_FIRST_LAST.
Proof. rewrite <- Z.lor_assoc. reflexivity. Qed.

(* _create_pdu_header(self, packet_type, auth_len, call_id, *, flags) *)
Lemma flow_create_pdu_header fuel c pt al cid fl :
  run W fuel k_flow_create_pdu_header [VO (OSelf c); VI pt; VI al; VI cid; VI fl]
  = Ok (VO (OHdr (create_pdu_header pt al cid fl))).
Proof.
  unfold create_pdu_header. cbn. rewrite lor_first_last. reflexivity.
Qed.


Lemma zeros_repeat n : repeat_list (Z.to_nat n) [0] = Framing.zeros n.
Proof. unfold Framing.zeros. apply repeat_list_single. Qed.

(* _create_request(self, context_id, opnum, stub_data, *, verification_trailer): the Request and the encrypt offsets *)
Lemma flow_create_request fuel c cid op stub vt :
  run W fuel k_flow_create_request [VO (OSelf c); VI cid; VI op; VB stub; vtv vt]
  = Ok (VT [VO (OReq (fst (create_request (cl_auth c) cid op stub (option_map verification_trailer_pack vt))));
            offv (snd (create_request (cl_auth c) cid op stub (option_map verification_trailer_pack vt)))]).
Proof.
  unfold create_request, k_vt_pad, k_auth_pad, k_alloc_hint, k_enc_off.
  destruct vt as [cmds|]; destruct (cl_auth c) as [pv|] eqn:Ea; cbn; rewrite Ea; cbn; rewrite ?zeros_repeat; cbn;
    rewrite ?Ea; cbn; rewrite ?zeros_repeat; reflexivity.
Qed.


(* AuthenticationProvider.wrap(self, header, body, trailer, sign_header): header, sealed body, trailer, signature joined.
   spnego's wrap_iov is the model's wrap_fn: (header, body, trailer, sign) -> (sealed body, signature); the header and the
   trailer are signed (sign_only) exactly when sign_header is set, and never encrypted *)
Lemma flow_auth_wrap fuel ap h b t (sign : bool) :
  run W fuel k_flow_auth_wrap [VO (OAuthP ap); VB h; VB b; VB t; vb sign]
  = Ok (VB (h ++ fst (wrap h b t sign) ++ t ++ snd (wrap h b t sign))).
Proof.
  assert (I1 : forall (a0 a1 a2 a3 : pv obj), PySlice.index [a0; a1; a2; a3] 1 = Ok a1) by reflexivity.
  assert (I3 : forall (a0 a1 a2 a3 : pv obj), PySlice.index [a0; a1; a2; a3] 3 = Ok a3) by reflexivity.
  cbn. rewrite truthy_vb. destruct sign; cbn; destruct (wrap h b t _) as [[|s0 sealed] [|g0 sg]]; cbn;
    repeat (first [rewrite I1 | rewrite I3 | rewrite len_cons_nz | rewrite len_nil_z]; cbn); reflexivity.
Qed.

(* _client._process_get_key_result(response): GetKey.unpack_response of the stub without the declared auth padding *)
Lemma flow_strip_get_key_result fuel rsp :
  run W fuel k_flow_strip_get_key_result [VO (OResp rsp)]
  = (let* e := GetKey_unpack_response
                 (strip_auth_pad (rs_stub_data rsp) (option_map st_pad_length (rs_sec_trailer rsp))) in
     Ok (VO (OEnvl e))).
Proof.
  unfold strip_auth_pad, k_strip_test, k_strip_len.
  destruct (rs_sec_trailer rsp) as [st|] eqn:Es; cbn; unfold test; cbn; repeat (rewrite Es; cbn).
  - destruct (st_pad_length st =? 0) eqn:Ep; cbn; repeat (rewrite Es; cbn);
      destruct (GetKey_unpack_response _); reflexivity.
  - destruct (GetKey_unpack_response _); reflexivity.
Qed.

End Frame.
