(* Tie theorems, the GetKey conversation (C17; _process_ept_map_result is in Proofs/Flow_online_ept.v): the regenerated syntax of _client._process_get_key_result,
   _sync_get_key and _async_get_key (gen/F_online.v), run in the world Flow/World_online.v, computes the functions of
   Model/Conversation.v (and Epm.process_ept_map_result, Gkdi.process_get_key_result) the C17 theorems are about.  Both flavours are
   tied to the SAME model function get_key_conversation (at Sync resp. Async): the missing half of C17_sync_async_partial. *)
From V Require Import Prelude.Base Prelude.PyInt Prelude.PySlice Prelude.PyAst Prelude.PyWorld.
From V Require Import gen.F_online gen.K_client gen.C_client gen.C_rpc gen.K_rpc gen.C_gkdi gen.K_gkdi gen.K_online gen.C_online.
From V Require Import Model.Pdu Model.Request Model.Bind Model.Verification Model.Epm.
From V Require Import Model.Handshake Model.Framing Model.Seal Model.Recv.
From V Require Import Model.Types Model.Gkdi Model.Conversation.
From V Require Import Flow.World_online Proofs.FlowClientLib Proofs.Flow_online_ept Proofs.C17Consts Proofs.C17 Proofs.C17Examples.
Local Open Scope string_scope.
Local Open Scope list_scope.
Local Open Scope Z_scope.

Arguments len : simpl never.
Arguments slice : simpl never.
Arguments ept_map_result_unpack : simpl never.
Arguments GetKey_unpack_response : simpl never.
Arguments GetKey_pack : simpl never.
Arguments ept_map_pack : simpl never.
Arguments verification_trailer_pack : simpl never.
Arguments bind_run : simpl never.
Arguments process_bind_result : simpl never.
Arguments process_ept_map_result : simpl never.
Arguments process_get_key_result : simpl never.
Arguments rpc_request : simpl never.
Arguments k_ept_status_bad : simpl never.
Arguments k_strip_test : simpl never.

Section Conv.
Context (wrap : wrap_fn) (unwrap : unwrap_fn) (prov : provider) (legs : list leg) (dc : dc_script) (efuel : nat).
Context (server : list Z) (username password : option (list Z)) (auth_protocol : list Z).
Notation WT := (WO wrap unwrap prov legs dc efuel server username password auth_protocol).
Section AnyTranscript.
Context (tr : transcript).
Notation W := (WT tr).

(* _process_get_key_result(response) *)
Lemma flow_process_get_key_result fuel rsp :
  run W fuel k_flow_process_get_key_result [VO (OResp rsp)]
  = (let* e := process_get_key_result (rs_stub_data rsp)
                 (match rs_sec_trailer rsp with Some st => Some (st_pad_length st) | None => None end) in
     Ok (VO (OEnvl e))).
Proof.
  unfold process_get_key_result, K_gkdi.k_strip_test, k_strip_len0, k_strip_sub.
  destruct (rs_sec_trailer rsp) as [st|] eqn:Es; cbn; unfold test; cbn; repeat (rewrite Es; cbn).
  - destruct (st_pad_length st =? 0) eqn:Ep; cbn; repeat (rewrite Es; cbn);
      destruct (GetKey_unpack_response _); reflexivity.
  - destruct (GetKey_unpack_response _); reflexivity.
Qed.


End AnyTranscript.

Lemma ces_of_cev cs : ces_of (map cev cs) = Some cs.
Proof. induction cs as [|c r IH]; [reflexivity|]. cbn. now rewrite IH. Qed.

Lemma optb_of_optbv rk : optb_of (optbv rk) = Some rk.
Proof. destruct rk; reflexivity. Qed.

Lemma bytes_eqb_refl a : bytes_eqb a a = true.
Proof. induction a as [|x a IH]; [reflexivity|]. cbn. now rewrite Z.eqb_refl, IH. Qed.
Lemma optstr_is_refl o : optstr_is (optsv o) o = true.
Proof. destruct o; cbn; [apply bytes_eqb_refl|reflexivity]. Qed.
Lemma sent_eqb_refl s : sent_eqb s s = true.
Proof.
  destruct s as [w [a|]]; unfold sent_eqb, wa_eqb; cbn; rewrite ?bytes_eqb_refl, ?eqb_reflx; reflexivity.
Qed.

(* rpc_request puts nothing on the wire only when it fails as a whole *)
Lemma rpc_request_raise f auth sg ctx op stub vt stream sch e r :
  rpc_request f wrap unwrap auth sg ctx op stub vt stream sch = (Raise e, r) -> r = Raise e.
Proof. unfold rpc_request. destruct (send_request _ _ _ _ _ _ _); intro H; inversion H; reflexivity. Qed.

(* ---- what the model's transcript holds at the three points the world checks ---- *)
Definition epm_req_ctx (f : flavour) : Z := match f with Sync => k_onl_sync_epm_ctx c_onl_epm_ctx_id | Async => k_onl_async_epm_ctx c_onl_epm_ctx_id end.

Lemma isd_phase_keeps f g t :
  tr_ept_request (snd (isd_key_phase f wrap unwrap prov legs dc g t)) = tr_ept_request t /\
  tr_port (snd (isd_key_phase f wrap unwrap prov legs dc g t)) = tr_port t.
Proof.
  unfold isd_key_phase.
  destruct (bind_run true legs (ds_isd_srv dc) (context_ids isd_key_contexts)) as [[rs|e] s]; cbn; [|auto].
  destruct (process_bind_result _ rs _); cbn; [|auto].
  destruct (isd_request f wrap unwrap prov (sign s) g (ds_getkey_stream dc) (ds_sched dc)) as [sr [rsp|e]]; cbn; auto.
Qed.

Lemma transcript_ept f sd rk l0 l1 l2 rs s u :
  bind_run false [] (ds_epm_srv dc) (context_ids epm_contexts) = (Ok rs, s) ->
  process_bind_result (context_ids epm_contexts) rs c_onl_epm_ctx_id = Ok u ->
  tr_ept_request (snd (get_key_conversation f wrap unwrap prov legs dc sd rk l0 l1 l2))
  = ok_opt (fst (rpc_request f wrap unwrap None (sign s) (epm_req_ctx f) c_onl_ept_map_opnum c_onl_ept_map_stub None
                   (ds_ept_stream dc) (ds_sched dc))).
Proof.
  intros Hb Hp. unfold get_key_conversation, epm_req_ctx. rewrite Hb, Hp.
  destruct (rpc_request f wrap unwrap None (sign s) _ c_onl_ept_map_opnum c_onl_ept_map_stub None (ds_ept_stream dc) (ds_sched dc))
    as [sr [rsp|e]]; cbn; [|reflexivity].
  destruct (process_ept_map_result _ _) as [[port tk]|e]; cbn; [|reflexivity].
  rewrite (proj1 (isd_phase_keeps _ _ _)). reflexivity.
Qed.

Lemma transcript_port f sd rk l0 l1 l2 rs s u sr rsp port tk :
  bind_run false [] (ds_epm_srv dc) (context_ids epm_contexts) = (Ok rs, s) ->
  process_bind_result (context_ids epm_contexts) rs c_onl_epm_ctx_id = Ok u ->
  rpc_request f wrap unwrap None (sign s) (epm_req_ctx f) c_onl_ept_map_opnum c_onl_ept_map_stub None (ds_ept_stream dc) (ds_sched dc)
    = (sr, Ok rsp) ->
  process_ept_map_result (S (List.length (rs_stub_data rsp))) (rs_stub_data rsp) = Ok (port, tk) ->
  tr_port (snd (get_key_conversation f wrap unwrap prov legs dc sd rk l0 l1 l2)) = Some port.
Proof.
  intros Hb Hp Hr Hm. unfold get_key_conversation. rewrite Hb, Hp. fold (epm_req_ctx f). rewrite Hr. cbn. rewrite Hm.
  rewrite (proj2 (isd_phase_keeps _ _ _)). reflexivity.
Qed.

Lemma transcript_getkey f sd rk l0 l1 l2 rs s u sr rsp port tk rs2 s2 u2 stub :
  bind_run false [] (ds_epm_srv dc) (context_ids epm_contexts) = (Ok rs, s) ->
  process_bind_result (context_ids epm_contexts) rs c_onl_epm_ctx_id = Ok u ->
  rpc_request f wrap unwrap None (sign s) (epm_req_ctx f) c_onl_ept_map_opnum c_onl_ept_map_stub None (ds_ept_stream dc) (ds_sched dc)
    = (sr, Ok rsp) ->
  process_ept_map_result (S (List.length (rs_stub_data rsp))) (rs_stub_data rsp) = Ok (port, tk) ->
  bind_run true legs (ds_isd_srv dc) (context_ids isd_key_contexts) = (Ok rs2, s2) ->
  process_bind_result (context_ids isd_key_contexts) rs2 c_onl_isd_ctx_id = Ok u2 ->
  GetKey_pack (getkey_of f sd rk l0 l1 l2) = Ok stub ->
  tr_getkey_request (snd (get_key_conversation f wrap unwrap prov legs dc sd rk l0 l1 l2))
  = ok_opt (fst (rpc_request f wrap unwrap (Some prov) (sign s2) c_onl_isd_ctx_id c_onl_getkey_opnum stub (Some c_onl_vt)
                   (ds_getkey_stream dc) (ds_sched dc))).
Proof.
  intros Hb Hp Hr Hm Hb2 Hp2 Hg. unfold get_key_conversation. rewrite Hb, Hp. fold (epm_req_ctx f). rewrite Hr. cbn. rewrite Hm.
  unfold isd_key_phase. rewrite Hb2, Hp2. unfold isd_request. rewrite Hg.
  destruct (rpc_request f wrap unwrap (Some prov) (sign s2) c_onl_isd_ctx_id c_onl_getkey_opnum stub (Some c_onl_vt) (ds_getkey_stream dc) (ds_sched dc))
    as [sr2 [rsp2|e]]; reflexivity.
Qed.


(* _sync_get_key IS get_key_conversation at Sync, in the checking world built from the model's own transcript: the server and the
   credentials reach create_rpc_connection unchanged, the second connection goes to the port the model records (tr_port), each bind offers
   the model's contexts, and the two requests put on the wire (and hand to the security context) exactly the model's REQUEST PDUs
   (tr_ept_request, tr_getkey_request).  Precondition: auth_protocol is a non-empty string. *)
Lemma flow_sync_get_key fuel sd rk l0 l1 l2 :
  auth_protocol <> [] ->
  run (WT (snd (get_key_conversation Sync wrap unwrap prov legs dc sd rk l0 l1 l2))) fuel k_flow_sync_get_key
    [VS server; VB sd; optbv rk; VI l0; VI l1; VI l2; optsv username; optsv password; VS auth_protocol]
  = (let* e := fst (get_key_conversation Sync wrap unwrap prov legs dc sd rk l0 l1 l2) in Ok (VO (OEnvl e))).
Proof.
  intro Hp. destruct auth_protocol as [|p0 proto] eqn:Eproto; [congruence|]. clear Hp.
  assert (I1 : forall (a : pv obj), PySlice.index [a] 0 = Ok a) by reflexivity.
  assert (I2 : forall (a b : pv obj), PySlice.index [a; b] 0 = Ok a) by reflexivity.
  pose proof (transcript_ept Sync sd rk l0 l1 l2) as Tept.
  pose proof (transcript_port Sync sd rk l0 l1 l2) as Tport.
  pose proof (transcript_getkey Sync sd rk l0 l1 l2) as Tgk.
  remember (snd (get_key_conversation Sync wrap unwrap prov legs dc sd rk l0 l1 l2)) as tr eqn:Etr. clear Etr.
  unfold epm_req_ctx, k_onl_sync_epm_ctx, getkey_of, k_onl_getkey_arg0, k_onl_getkey_arg1, k_onl_getkey_arg2, k_onl_getkey_arg3, k_onl_getkey_arg4 in Tept, Tport, Tgk.
  change c_onl_epm_ctx_id with 0 in Tept, Tport, Tgk. change c_onl_isd_ctx_id with 0 in Tgk.
  cbn [context_ids epm_contexts isd_key_contexts map ce_context_id] in Tept, Tport, Tgk.
  unfold get_key_conversation, isd_key_phase, isd_request, getkey_of, k_onl_sync_epm_ctx, k_onl_getkey_arg0, k_onl_getkey_arg1, k_onl_getkey_arg2, k_onl_getkey_arg3, k_onl_getkey_arg4.
  unfold run. cbn [bind_params pf_params pf_body k_flow_sync_get_key].
  change c_onl_epm_ctx_id with 0. change c_onl_isd_ctx_id with 0.
  cbn. unfold open_epm. rewrite bytes_eqb_refl. cbn. rewrite I1. cbn. unfold conn_bind. cbn.
  destruct (bind_run false [] (ds_epm_srv dc) [0]) as [[rs|e] s] eqn:Eb; cbn; [|reflexivity].
  destruct (process_bind_result [0] rs 0) as [u0|e] eqn:Ep; cbn; [|reflexivity].
  specialize (Tept rs s u0 eq_refl Ep). specialize (Tport rs s u0). specialize (Tgk rs s u0).
  rewrite (proj1 ept_map_packed). unfold conn_request. cbn.
  destruct (rpc_request Sync wrap unwrap None (sign s) 0 c_onl_ept_map_opnum c_onl_ept_map_stub None (ds_ept_stream dc) (ds_sched dc))
    as [[sent|e1] resp] eqn:Er; cbn in Tept |- *.
  2:{ rewrite (rpc_request_raise _ _ _ _ _ _ _ _ _ _ _ Er). reflexivity. }
  rewrite Tept, sent_eqb_refl. destruct resp as [rsp|e]; cbn; [|reflexivity].
  destruct (process_ept_map_result (S (Datatypes.length (rs_stub_data rsp))) (rs_stub_data rsp)) as [[port tk]|e] eqn:Em; cbn; [|reflexivity].
  assert (Hport : tr_port tr = Some port) by (eapply Tport; first [reflexivity | eassumption]). clear Tport.
  unfold open_isd. rewrite Hport, !bytes_eqb_refl, !optstr_is_refl. cbn. repeat (rewrite Z.eqb_refl; cbn).


  rewrite I2. cbn. unfold conn_bind. cbn.
  destruct (bind_run true legs (ds_isd_srv dc) [0; 1]) as [[rs2|e] s2] eqn:Eb2; cbn; [|reflexivity].
  destruct (process_bind_result [0; 1] rs2 0) as [u1|e] eqn:Ep2; cbn; [|reflexivity].
  destruct rk as [rkb|]; cbn in Tgk |- *;
  (destruct (GetKey_pack {| gk_target_sd := sd; gk_root_key_id := _; gk_l0 := l0; gk_l1 := l1; gk_l2 := l2 |}) as [stub|e] eqn:Eg;
    cbn; [|reflexivity];
  assert (Hgk : tr_getkey_request tr = ok_opt (fst (rpc_request Sync wrap unwrap (Some prov) (sign s2) 0 c_onl_getkey_opnum stub (Some c_onl_vt) (ds_getkey_stream dc) (ds_sched dc))))
    by (eapply Tgk; first [reflexivity | eassumption]); clear Tgk;
  rewrite (proj1 vt_packed); unfold bytes in *;
  destruct (rpc_request Sync wrap unwrap (Some prov) (sign s2) 0 c_onl_getkey_opnum stub (Some c_onl_vt) (ds_getkey_stream dc) (ds_sched dc))
    as [[sent2|e2] resp2] eqn:Er2; cbn in Hgk |- *;
  [ rewrite Hgk, sent_eqb_refl; destruct resp2 as [rsp2|e]; cbn; [|reflexivity];
    destruct (process_get_key_result _ _) as [env|e]; reflexivity
  | rewrite (rpc_request_raise _ _ _ _ _ _ _ _ _ _ _ Er2); reflexivity ]).
Qed.

(* _async_get_key IS get_key_conversation at Async, in the checking world built from the model's own transcript: the server and the
   credentials reach create_rpc_connection unchanged, the second connection goes to the port the model records (tr_port), each bind offers
   the model's contexts, and the two requests put on the wire (and hand to the security context) exactly the model's REQUEST PDUs
   (tr_ept_request, tr_getkey_request).  Precondition: auth_protocol is a non-empty string. *)
Lemma flow_async_get_key fuel sd rk l0 l1 l2 :
  auth_protocol <> [] ->
  run (WT (snd (get_key_conversation Async wrap unwrap prov legs dc sd rk l0 l1 l2))) fuel k_flow_async_get_key
    [VS server; VB sd; optbv rk; VI l0; VI l1; VI l2; optsv username; optsv password; VS auth_protocol]
  = (let* e := fst (get_key_conversation Async wrap unwrap prov legs dc sd rk l0 l1 l2) in Ok (VO (OEnvl e))).
Proof.
  intro Hp. destruct auth_protocol as [|p0 proto] eqn:Eproto; [congruence|]. clear Hp.
  assert (I1 : forall (a : pv obj), PySlice.index [a] 0 = Ok a) by reflexivity.
  assert (I2 : forall (a b : pv obj), PySlice.index [a; b] 0 = Ok a) by reflexivity.
  pose proof (transcript_ept Async sd rk l0 l1 l2) as Tept.
  pose proof (transcript_port Async sd rk l0 l1 l2) as Tport.
  pose proof (transcript_getkey Async sd rk l0 l1 l2) as Tgk.
  remember (snd (get_key_conversation Async wrap unwrap prov legs dc sd rk l0 l1 l2)) as tr eqn:Etr. clear Etr.
  unfold epm_req_ctx, k_onl_async_epm_ctx, getkey_of, k_onl_agetkey_arg0, k_onl_agetkey_arg1, k_onl_agetkey_arg2, k_onl_agetkey_arg3, k_onl_agetkey_arg4 in Tept, Tport, Tgk.
  change c_onl_epm_ctx_id with 0 in Tept, Tport, Tgk. change c_onl_isd_ctx_id with 0 in Tgk.
  cbn [context_ids epm_contexts isd_key_contexts map ce_context_id] in Tept, Tport, Tgk.
  unfold get_key_conversation, isd_key_phase, isd_request, getkey_of, k_onl_async_epm_ctx, k_onl_agetkey_arg0, k_onl_agetkey_arg1, k_onl_agetkey_arg2, k_onl_agetkey_arg3, k_onl_agetkey_arg4.
  unfold run. cbn [bind_params pf_params pf_body k_flow_async_get_key].
  change c_onl_epm_ctx_id with 0. change c_onl_isd_ctx_id with 0.
  cbn. unfold open_epm. rewrite bytes_eqb_refl. cbn. rewrite I1. cbn. unfold conn_bind. cbn.
  destruct (bind_run false [] (ds_epm_srv dc) [0]) as [[rs|e] s] eqn:Eb; cbn; [|reflexivity].
  destruct (process_bind_result [0] rs 0) as [u0|e] eqn:Ep; cbn; [|reflexivity].
  specialize (Tept rs s u0 eq_refl Ep). specialize (Tport rs s u0). specialize (Tgk rs s u0).
  rewrite (proj1 ept_map_packed). unfold conn_request. cbn.
  destruct (rpc_request Async wrap unwrap None (sign s) 0 c_onl_ept_map_opnum c_onl_ept_map_stub None (ds_ept_stream dc) (ds_sched dc))
    as [[sent|e1] resp] eqn:Er; cbn in Tept |- *.
  2:{ rewrite (rpc_request_raise _ _ _ _ _ _ _ _ _ _ _ Er). reflexivity. }
  rewrite Tept, sent_eqb_refl. destruct resp as [rsp|e]; cbn; [|reflexivity].
  destruct (process_ept_map_result (S (Datatypes.length (rs_stub_data rsp))) (rs_stub_data rsp)) as [[port tk]|e] eqn:Em; cbn; [|reflexivity].
  assert (Hport : tr_port tr = Some port) by (eapply Tport; first [reflexivity | eassumption]). clear Tport.
  unfold open_isd. rewrite Hport, !bytes_eqb_refl, !optstr_is_refl. cbn. repeat (rewrite Z.eqb_refl; cbn).
  rewrite I2. cbn. unfold conn_bind. cbn.
  destruct (bind_run true legs (ds_isd_srv dc) [0; 1]) as [[rs2|e] s2] eqn:Eb2; cbn; [|reflexivity].
  destruct (process_bind_result [0; 1] rs2 0) as [u1|e] eqn:Ep2; cbn; [|reflexivity].
  destruct rk as [rkb|]; cbn in Tgk |- *;
  (destruct (GetKey_pack {| gk_target_sd := sd; gk_root_key_id := _; gk_l0 := l0; gk_l1 := l1; gk_l2 := l2 |}) as [stub|e] eqn:Eg;
    cbn; [|reflexivity];
  assert (Hgk : tr_getkey_request tr = ok_opt (fst (rpc_request Async wrap unwrap (Some prov) (sign s2) 0 c_onl_getkey_opnum stub (Some c_onl_vt) (ds_getkey_stream dc) (ds_sched dc))))
    by (eapply Tgk; first [reflexivity | eassumption]); clear Tgk;
  rewrite (proj1 vt_packed); unfold bytes in *;
  destruct (rpc_request Async wrap unwrap (Some prov) (sign s2) 0 c_onl_getkey_opnum stub (Some c_onl_vt) (ds_getkey_stream dc) (ds_sched dc))
    as [[sent2|e2] resp2] eqn:Er2; cbn in Hgk |- *;
  [ rewrite Hgk, sent_eqb_refl; destruct resp2 as [rsp2|e]; cbn; [|reflexivity];
    destruct (process_get_key_result _ _) as [env|e]; reflexivity
  | rewrite (rpc_request_raise _ _ _ _ _ _ _ _ _ _ _ Er2); reflexivity ]).
Qed.

(* sync = async on the SOURCE: both functions are the same model function at their flavour (each in the checking world of its own
   transcript), and the two flavours of the model coincide -- results AND transcripts -- whenever the two receive loops deliver the same
   PDUs (Proofs/C17.flavours_agree; C14 proves that premise for every well-formed reply and every segmentation) *)
Lemma flow_get_key_sync_async fuel sd rk l0 l1 l2 :
  auth_protocol <> [] ->
  recv_pdu Sync (ds_ept_stream dc) (ds_sched dc) = recv_pdu Async (ds_ept_stream dc) (ds_sched dc) ->
  recv_pdu Sync (ds_getkey_stream dc) (ds_sched dc) = recv_pdu Async (ds_getkey_stream dc) (ds_sched dc) ->
  run (WT (snd (get_key_conversation Sync wrap unwrap prov legs dc sd rk l0 l1 l2))) fuel k_flow_sync_get_key
    [VS server; VB sd; optbv rk; VI l0; VI l1; VI l2; optsv username; optsv password; VS auth_protocol]
  = run (WT (snd (get_key_conversation Async wrap unwrap prov legs dc sd rk l0 l1 l2))) fuel k_flow_async_get_key
    [VS server; VB sd; optbv rk; VI l0; VI l1; VI l2; optsv username; optsv password; VS auth_protocol].
Proof.
  intros Hp H1 H2. rewrite flow_sync_get_key, flow_async_get_key by exact Hp.
  rewrite (flavours_agree wrap unwrap prov legs dc sd rk l0 l1 l2 H1 H2). reflexivity.
Qed.

End Conv.

(* ---- the ties are about the requests, not only about their number: two mutants of the regenerated _sync_get_key ------------------- *)
Fixpoint map_pexp (g : pexp -> pexp) (e : pexp) : pexp :=
  g match e with
    | PAttr e' a => PAttr (map_pexp g e') a
    | PCall f args => PCall f (map (map_pexp g) args)
    | PMeth m recv args => PMeth m (map_pexp g recv) (map (map_pexp g) args)
    | PCmp op a b => PCmp op (map_pexp g a) (map_pexp g b)
    | PNot e' => PNot (map_pexp g e')
    | PAnd a b => PAnd (map_pexp g a) (map_pexp g b)
    | POr a b => POr (map_pexp g a) (map_pexp g b)
    | PBin op a b => PBin op (map_pexp g a) (map_pexp g b)
    | PNeg e' => PNeg (map_pexp g e')
    | PTuple l => PTuple (map (map_pexp g) l)
    | PList l => PList (map (map_pexp g) l)
    | PIfExp c a b => PIfExp (map_pexp g c) (map_pexp g a) (map_pexp g b)
    | PSub e' i => PSub (map_pexp g e') (map_pexp g i)
    | PSlice e' lo hi => PSlice (map_pexp g e') (map_pexp g lo) (map_pexp g hi)
    | PComp elt xs it conds => PComp (map_pexp g elt) xs (map_pexp g it) (map (map_pexp g) conds)
    | other => other
    end.
Fixpoint map_pstmt (g : pexp -> pexp) (s : pstmt) : pstmt :=
  match s with
  | SAssign xs e => SAssign xs (map_pexp g e)
  | SSetAttr x a e => SSetAttr x a (map_pexp g e)
  | SReturn e => SReturn (map_pexp g e)
  | SIf c a b => SIf (map_pexp g c) (map (map_pstmt g) a) (map (map_pstmt g) b)
  | SExpr e => SExpr (map_pexp g e)
  | SWhile c body => SWhile (map_pexp g c) (map (map_pstmt g) body)
  | SFor xs it body => SFor xs (map_pexp g it) (map (map_pstmt g) body)
  | SWith ctx x body => SWith (map_pexp g ctx) x (map (map_pstmt g) body)
  | other => other
  end.
Definition mutate (g : pexp -> pexp) (f : pfun) : pfun := {| pf_params := pf_params f; pf_body := map (map_pstmt g) (pf_body f) |}.

(* mutant 1: the second connection is opened to port 0 instead of isd_key_port *)
Definition mutant_port0 : pfun :=
  mutate (fun e => match e with PName "isd_key_port" => PInt 0 | _ => e end) k_flow_sync_get_key.
(* mutant 2: ept_map goes out on context 7 / opnum 9, GetKey on context 3 / opnum 5 *)
Definition mutant_ctx_opnum : pfun :=
  mutate (fun e => match e with
                   | PMeth "request" r [_; _; stub] => PMeth "request" r [PInt 7; PInt 9; stub]
                   | PMeth "request/verification_trailer" r [_; _; stub; vt] => PMeth "request/verification_trailer" r [PInt 3; PInt 5; stub; vt]
                   | _ => e
                   end) k_flow_sync_get_key.

Definition ex_server : list Z := [100; 99].
Definition ex_proto : list Z := [110; 116; 108; 109].
Definition ex_world : world (pv obj) :=
  WO ex_wrap ex_unwrap ex_pv ex_legs ex_dc 0 ex_server None None ex_proto
     (snd (get_key_conversation Sync ex_wrap ex_unwrap ex_pv ex_legs ex_dc ex_sd (Some ex_rk) 361 12 31)).
Definition ex_args : list (pv obj) := [VS ex_server; VB ex_sd; VB ex_rk; VI 361; VI 12; VI 31; VN; VN; VS ex_proto].

Lemma mutants_differ : mutant_port0 <> k_flow_sync_get_key /\ mutant_ctx_opnum <> k_flow_sync_get_key.
Proof. split; intro H; apply (f_equal pf_body) in H; vm_compute in H; discriminate. Qed.

Lemma mutant_port0_refused : run ex_world 0 mutant_port0 ex_args = Raise TypeError.
Proof. vm_compute. reflexivity. Qed.

Lemma mutant_ctx_opnum_refused : run ex_world 0 mutant_ctx_opnum ex_args = Raise TypeError.
Proof. vm_compute. reflexivity. Qed.

(* ... while the regenerated function itself goes through in the same world and returns the envelope of C17_conversation_example *)
Lemma original_accepted : exists env, run ex_world 0 k_flow_sync_get_key ex_args = Ok (VO (OEnvl env)) /\ (gke_l0 env, gke_l1 env, gke_l2 env) = (361, 12, 31).
Proof.
  destruct conversation_runs as (env & t & wire & args & H1 & _ & _ & _ & _ & H6 & _ & _ & _ & _ & _).
  exists env. split; [|exact H6].
  unfold ex_world, ex_args. change (VB ex_rk) with (optbv (Some ex_rk)). change VN with (optsv None).
  rewrite (flow_sync_get_key ex_wrap ex_unwrap ex_pv ex_legs ex_dc 0 ex_server None None ex_proto 0 ex_sd (Some ex_rk) 361 12 31) by discriminate.
  unfold unprotect_get_key, k_onl_unprot_arg1, k_onl_unprot_arg2, k_onl_unprot_arg3, k_onl_unprot_arg4, k_onl_unprot_arg5 in H1.
  cbn [kid_rkid kid_l0 kid_l1 kid_l2] in H1. unfold bytes in *.
  rewrite H1. reflexivity.
Qed.
