(* Tie theorems, the GetKey conversation (C17): the regenerated syntax of _client._process_ept_map_result, _process_get_key_result,
   _sync_get_key and _async_get_key (gen/F_online.v), run in the world Flow/World_online.v, computes the functions of
   Model/Conversation.v (and Epm.process_ept_map_result, Gkdi.process_get_key_result) the C17 theorems are about.  Both flavours are
   tied to the SAME model function get_key_conversation (at Sync resp. Async): the missing half of C17_sync_async_partial. *)
From V Require Import Prelude.Base Prelude.PyInt Prelude.PySlice Prelude.PyAst Prelude.PyWorld.
From V Require Import gen.F_online gen.K_client gen.C_client gen.C_rpc gen.K_rpc gen.C_gkdi gen.K_gkdi gen.K_online gen.C_online.
From V Require Import Model.Pdu Model.Request Model.Bind Model.Verification Model.Epm.
From V Require Import Model.Handshake Model.Framing Model.Seal Model.Recv.
From V Require Import Model.Types Model.Gkdi Model.Conversation.
From V Require Import Flow.World_online Proofs.FlowClientLib Proofs.C17Consts Proofs.C17.
Local Open Scope string_scope.
Local Open Scope list_scope.
Local Open Scope Z_scope.

Arguments len : simpl never.
Arguments slice : simpl never.
Arguments ept_map_result_unpack : simpl never.
Arguments GetKey_unpack_response : simpl never.
Arguments GetKey_pack : simpl never.
Arguments ept_map_pack : simpl never.
Arguments verification_trailer_pack : simpl never.
Arguments bind_run : simpl never.
Arguments process_bind_result : simpl never.
Arguments process_ept_map_result : simpl never.
Arguments process_get_key_result : simpl never.
Arguments rpc_request : simpl never.
Arguments k_ept_status_bad : simpl never.
Arguments k_strip_test : simpl never.

Section Conv.
Context (wrap : wrap_fn) (unwrap : unwrap_fn) (prov : provider) (legs : list leg) (dc : dc_script) (efuel : nat).
Notation W := (WO wrap unwrap prov legs dc efuel).

Definition ept_outer_body : list pstmt :=
  match nth 2 (pf_body k_flow_process_ept_map_result) SPass with SFor _ _ b => b | _ => [] end.
Definition ept_inner_body : list pstmt :=
  match nth 0 ept_outer_body SPass with SFor _ _ b => b | _ => [] end.

Lemma ept_inner fuel : forall (t : list Epm.floor) env,
  lookup "TCPFloor" env = None ->
  match first_tcp_port_tower t with
  | Some p => for_each W fuel ["floor"] ept_inner_body (map floorv t) env = Ok (Ret (VI p))
  | None => exists env', for_each W fuel ["floor"] ept_inner_body (map floorv t) env = Ok (Next env')
            /\ (forall x, String.eqb x "floor" = false -> lookup x env' = lookup x env)
  end.
Proof.
  induction t as [|f r IH]; intros env Hg.
  - cbn. exists env. auto.
  - cbn [first_tcp_port_tower map for_each]. unfold ept_inner_body, ept_outer_body.
    cbn [nth pf_body k_flow_process_ept_map_result]. cbn. unfold test. cbn. rewrite Hg. cbn.
    rewrite truthy_vb. unfold floor_tcp_port.
    destruct (fl_kind f) eqn:Ek; cbn; rewrite ?Ek; try reflexivity;
      (specialize (IH (update "floor" (floorv f) env)); cbn in IH; specialize (IH Hg);
       unfold ept_inner_body, ept_outer_body in IH; cbn [nth pf_body k_flow_process_ept_map_result] in IH;
       destruct (first_tcp_port_tower r) as [p|]; [exact IH|];
       destruct IH as [env' [H1 H2]]; exists env'; split; [exact H1|];
       intros x Hx; rewrite (H2 x Hx); cbn; rewrite Hx; reflexivity).
Qed.


Lemma ept_outer fuel : forall (towers : list (list Epm.floor)) env,
  lookup "TCPFloor" env = None ->
  match first_tcp_port towers with
  | Some p => for_each W fuel ["tower"] ept_outer_body (map towerv towers) env = Ok (Ret (VI p))
  | None => exists env', for_each W fuel ["tower"] ept_outer_body (map towerv towers) env = Ok (Next env')
  end.
Proof.
  induction towers as [|t r IH]; intros env Hg.
  - cbn. exists env. auto.
  - cbn [first_tcp_port map for_each]. unfold ept_outer_body in *.
    cbn [nth pf_body k_flow_process_ept_map_result bind_targets bind] in *.
    rewrite exec_block_cons, exec_for. cbn [eval lookup update String.eqb Ascii.eqb Bool.eqb bind].
    pose proof (ept_inner fuel t (update "tower" (towerv t) env)) as Hin. cbn in Hin. specialize (Hin Hg).
    unfold ept_inner_body, ept_outer_body in Hin. cbn [nth pf_body k_flow_process_ept_map_result] in Hin.
    unfold update in *.
    assert (Hit : w_iter W (towerv t) = Ok (map floorv t)) by reflexivity.
    destruct (first_tcp_port_tower t) as [p|].
    + rewrite Hit. cbn [bind]. rewrite Hin. reflexivity.
    + destruct Hin as [env' [H1 H2]].
      specialize (IH env'). rewrite (H2 "TCPFloor" eq_refl) in IH. cbn in IH. specialize (IH Hg).
      destruct (first_tcp_port r) as [p|].
      * rewrite Hit. cbn [bind]. rewrite H1. cbn [bind exec_block]. exact IH.
      * destruct IH as [env2 H3]. exists env2. rewrite Hit. cbn [bind]. rewrite H1. cbn [bind exec_block]. exact H3.
Qed.

(* _process_ept_map_result(response); EptMapResult.unpack runs with the model's loop fuel efuel *)
Lemma flow_process_ept_map_result fuel rsp :
  run W fuel k_flow_process_ept_map_result [VO (OResp rsp)]
  = (let* (p, _) := process_ept_map_result efuel (rs_stub_data rsp) in Ok (VI p)).
Proof.
  unfold process_ept_map_result, k_ept_status_bad.
  unfold run. cbn [bind_params pf_params pf_body k_flow_process_ept_map_result].
  match goal with |- context [exec_block W fuel ?body ?env] => change body with (firstn 2 body ++ skipn 2 body) end.
  rewrite exec_block_app. cbn [firstn skipn].
  match goal with |- context [exec_block W fuel ?rest _] =>
    match rest with SFor _ _ _ :: _ => remember rest as tl eqn:Etl end end.
  cbn.
  destruct (ept_map_result_unpack efuel (rs_stub_data rsp)) as [[m tk]|e]; cbn; [|reflexivity].
  unfold test. cbn. destruct (er_status m =? 0); cbn; [|reflexivity].
  subst tl. rewrite exec_block_cons, exec_for. cbn.
  pose proof (ept_outer fuel (er_towers m)
     [("map_response", VO (OEptRes m)); ("response", VO (OResp rsp))] eq_refl) as H.
  unfold ept_outer_body in H. cbn [nth pf_body k_flow_process_ept_map_result] in H. unfold update.
  destruct (first_tcp_port (er_towers m)) as [p|].
  - rewrite H. reflexivity.
  - destruct H as [env' H]. rewrite H. reflexivity.
Qed.


(* _process_get_key_result(response) *)
Lemma flow_process_get_key_result fuel rsp :
  run W fuel k_flow_process_get_key_result [VO (OResp rsp)]
  = (let* e := process_get_key_result (rs_stub_data rsp)
                 (match rs_sec_trailer rsp with Some st => Some (st_pad_length st) | None => None end) in
     Ok (VO (OEnvl e))).
Proof.
  unfold process_get_key_result, K_gkdi.k_strip_test, k_strip_len0, k_strip_sub.
  destruct (rs_sec_trailer rsp) as [st|] eqn:Es; cbn; unfold test; cbn; repeat (rewrite Es; cbn).
  - destruct (st_pad_length st =? 0) eqn:Ep; cbn; repeat (rewrite Es; cbn);
      destruct (GetKey_unpack_response _); reflexivity.
  - destruct (GetKey_unpack_response _); reflexivity.
Qed.


Lemma ces_of_cev cs : ces_of (map cev cs) = Some cs.
Proof. induction cs as [|c r IH]; [reflexivity|]. cbn. now rewrite IH. Qed.

Lemma optb_of_optbv rk : optb_of (optbv rk) = Some rk.
Proof. destruct rk; reflexivity. Qed.

Lemma flow_sync_get_key fuel server sd rk l0 l1 l2 u p proto :
  proto <> [] ->
  run W fuel k_flow_sync_get_key [VS server; VB sd; optbv rk; VI l0; VI l1; VI l2; u; p; VS proto]
  = (let* e := fst (get_key_conversation Sync wrap unwrap prov legs dc sd rk l0 l1 l2) in Ok (VO (OEnvl e))).
Proof.
  intro Hp. destruct proto as [|p0 proto]; [congruence|]. clear Hp.
  assert (I1 : forall (a : pv obj), PySlice.index [a] 0 = Ok a) by reflexivity.
  assert (I2 : forall (a b : pv obj), PySlice.index [a; b] 0 = Ok a) by reflexivity.
  unfold get_key_conversation, isd_key_phase, isd_request, getkey_of, k_onl_sync_epm_ctx,
    k_onl_getkey_arg0, k_onl_getkey_arg1, k_onl_getkey_arg2, k_onl_getkey_arg3, k_onl_getkey_arg4.
  unfold run. cbn [bind_params pf_params pf_body k_flow_sync_get_key].
  change c_onl_epm_ctx_id with 0. change c_onl_isd_ctx_id with 0.
  cbn. rewrite I1. cbn. unfold conn_bind. cbn.
  destruct (bind_run false [] (ds_epm_srv dc) [0]) as [[rs|e] s] eqn:Eb; cbn; [|reflexivity].
  destruct (process_bind_result [0] rs 0) as [u0|e] eqn:Ep; cbn; [|reflexivity].
  rewrite (proj1 ept_map_packed). unfold conn_request. cbn.
  destruct (rpc_request Sync wrap unwrap None (sign s) 0 c_onl_ept_map_opnum c_onl_ept_map_stub None (ds_ept_stream dc) (ds_sched dc))
    as [sent [rsp|e]] eqn:Er; cbn; [|reflexivity].
  destruct (process_ept_map_result (S (Datatypes.length (rs_stub_data rsp))) (rs_stub_data rsp)) as [[port tk]|e] eqn:Em; cbn; [|reflexivity].
  rewrite I2. cbn. unfold conn_bind. cbn.
  destruct (bind_run true legs (ds_isd_srv dc) [0; 1]) as [[rs2|e] s2] eqn:Eb2; cbn; [|reflexivity].
  destruct (process_bind_result [0; 1] rs2 0) as [u1|e] eqn:Ep2; cbn; [|reflexivity].
  destruct rk as [rkb|]; cbn;
  (destruct (GetKey_pack {| gk_target_sd := sd; gk_root_key_id := _; gk_l0 := l0; gk_l1 := l1; gk_l2 := l2 |}) as [stub|e] eqn:Eg;
    cbn; [|reflexivity];
  rewrite (proj1 vt_packed); unfold bytes in *;
  destruct (rpc_request Sync wrap unwrap (Some prov) (sign s2) 0 c_onl_getkey_opnum stub (Some c_onl_vt) (ds_getkey_stream dc) (ds_sched dc))
    as [sent2 [rsp2|e]] eqn:Er2; cbn; [|reflexivity];
  destruct (process_get_key_result _ _) as [env|e]; reflexivity).
Qed.

Lemma flow_async_get_key fuel server sd rk l0 l1 l2 u p proto :
  proto <> [] ->
  run W fuel k_flow_async_get_key [VS server; VB sd; optbv rk; VI l0; VI l1; VI l2; u; p; VS proto]
  = (let* e := fst (get_key_conversation Async wrap unwrap prov legs dc sd rk l0 l1 l2) in Ok (VO (OEnvl e))).
Proof.
  intro Hp. destruct proto as [|p0 proto]; [congruence|]. clear Hp.
  assert (I1 : forall (a : pv obj), PySlice.index [a] 0 = Ok a) by reflexivity.
  assert (I2 : forall (a b : pv obj), PySlice.index [a; b] 0 = Ok a) by reflexivity.
  unfold get_key_conversation, isd_key_phase, isd_request, getkey_of, k_onl_async_epm_ctx,
    k_onl_agetkey_arg0, k_onl_agetkey_arg1, k_onl_agetkey_arg2, k_onl_agetkey_arg3, k_onl_agetkey_arg4.
  unfold run. cbn [bind_params pf_params pf_body k_flow_async_get_key].
  change c_onl_epm_ctx_id with 0. change c_onl_isd_ctx_id with 0.
  cbn. rewrite I1. cbn. unfold conn_bind. cbn.
  destruct (bind_run false [] (ds_epm_srv dc) [0]) as [[rs|e] s] eqn:Eb; cbn; [|reflexivity].
  destruct (process_bind_result [0] rs 0) as [u0|e] eqn:Ep; cbn; [|reflexivity].
  rewrite (proj1 ept_map_packed). unfold conn_request. cbn.
  destruct (rpc_request Async wrap unwrap None (sign s) 0 c_onl_ept_map_opnum c_onl_ept_map_stub None (ds_ept_stream dc) (ds_sched dc))
    as [sent [rsp|e]] eqn:Er; cbn; [|reflexivity].
  destruct (process_ept_map_result (S (Datatypes.length (rs_stub_data rsp))) (rs_stub_data rsp)) as [[port tk]|e] eqn:Em; cbn; [|reflexivity].
  rewrite I2. cbn. unfold conn_bind. cbn.
  destruct (bind_run true legs (ds_isd_srv dc) [0; 1]) as [[rs2|e] s2] eqn:Eb2; cbn; [|reflexivity].
  destruct (process_bind_result [0; 1] rs2 0) as [u1|e] eqn:Ep2; cbn; [|reflexivity].
  destruct rk as [rkb|]; cbn;
  (destruct (GetKey_pack {| gk_target_sd := sd; gk_root_key_id := _; gk_l0 := l0; gk_l1 := l1; gk_l2 := l2 |}) as [stub|e] eqn:Eg;
    cbn; [|reflexivity];
  rewrite (proj1 vt_packed); unfold bytes in *;
  destruct (rpc_request Async wrap unwrap (Some prov) (sign s2) 0 c_onl_getkey_opnum stub (Some c_onl_vt) (ds_getkey_stream dc) (ds_sched dc))
    as [sent2 [rsp2|e]] eqn:Er2; cbn; [|reflexivity];
  destruct (process_get_key_result _ _) as [env|e]; reflexivity).
Qed.


(* sync = async on the SOURCE: both functions are the same model function at their flavour, and the two flavours of the model coincide
   whenever the two receive loops deliver the same PDUs (Proofs/C17.flavours_agree; C14 proves that premise for every well-formed reply
   and every segmentation) *)
Lemma flow_get_key_sync_async fuel server sd rk l0 l1 l2 u p proto :
  proto <> [] ->
  recv_pdu Sync (ds_ept_stream dc) (ds_sched dc) = recv_pdu Async (ds_ept_stream dc) (ds_sched dc) ->
  recv_pdu Sync (ds_getkey_stream dc) (ds_sched dc) = recv_pdu Async (ds_getkey_stream dc) (ds_sched dc) ->
  run W fuel k_flow_sync_get_key [VS server; VB sd; optbv rk; VI l0; VI l1; VI l2; u; p; VS proto]
  = run W fuel k_flow_async_get_key [VS server; VB sd; optbv rk; VI l0; VI l1; VI l2; u; p; VS proto].
Proof.
  intros Hp H1 H2. rewrite flow_sync_get_key, flow_async_get_key by exact Hp.
  rewrite (flavours_agree wrap unwrap prov legs dc sd rk l0 l1 l2 H1 H2). reflexivity.
Qed.

End Conv.
