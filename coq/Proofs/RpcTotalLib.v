(* Tools for the termination / linear-cost statements of area rpc: a computing form of
   "does not run out of fuel", its closure under bind / if, the loop-free primitives, and two generic
   facts about for_range driven by a potential (the length of the remaining view). *)
From V Require Import Prelude.Base Prelude.PyInt Prelude.PySlice Prelude.PyStr Model.Pdu Model.Request Model.RpcLoop Model.Bind.
From V Require Import Proofs.RpcLib Proofs.RpcTotal.

Definition noof {A} (r : res A) : Prop := match r with Raise OutOfFuel => False | _ => True end.

Lemma noof_spec {A} (r : res A) : noof r <-> r <> Raise OutOfFuel.
Proof. destruct r as [a|e]; cbn; [split; [discriminate|trivial]|]. destruct e; cbn; split; try discriminate; try trivial; try tauto; congruence. Qed.
Lemma noof_bind {A B} (m : res A) (f : A -> res B) : noof m -> (forall a, m = Ok a -> noof (f a)) -> noof (bind m f).
Proof. destruct m as [a|e]; cbn [bind]; intros Hm Hf; [now apply Hf|]. destruct e; exact Hm. Qed.
Lemma noof_if {A} (c : bool) (a b : res A) : noof a -> noof b -> noof (if c then a else b).
Proof. destruct c; auto. Qed.

Lemma noof_index {A} (l : list A) i : noof (index l i).
Proof. unfold index. destruct (_ && _); [destruct (nth_error _ _)|]; exact I. Qed.
Lemma noof_enum_lookup vals x : noof (enum_lookup vals x).
Proof. unfold enum_lookup. destruct (mem x vals); exact I. Qed.
Lemma noof_uuid b : noof (uuid_of_bytes_le b).
Proof. unfold uuid_of_bytes_le. destruct (_ =? 16); exact I. Qed.
Lemma noof_data_rep_unpack v : noof (data_rep_unpack v).
Proof.
  unfold data_rep_unpack.
  apply noof_bind; [apply noof_index|intros b0 _]. apply noof_bind; [apply noof_enum_lookup|intros bo _].
  apply noof_bind; [apply noof_enum_lookup|intros ch _]. apply noof_bind; [apply noof_index|intros b1 _].
  apply noof_bind; [apply noof_enum_lookup|intros fp _]. exact I.
Qed.
Lemma noof_pdu_header_unpack v : noof (pdu_header_unpack v).
Proof.
  unfold pdu_header_unpack.
  apply noof_bind; [apply noof_index|intros ? _]. apply noof_bind; [apply noof_index|intros ? _].
  apply noof_bind; [apply noof_index|intros ? _]. apply noof_bind; [apply noof_enum_lookup|intros ? _].
  apply noof_bind; [apply noof_index|intros ? _]. apply noof_bind; [apply noof_data_rep_unpack|intros ? _]. exact I.
Qed.
Lemma noof_sec_trailer_unpack v : noof (sec_trailer_unpack v).
Proof.
  unfold sec_trailer_unpack.
  apply noof_bind; [apply noof_index|intros ? _]. apply noof_bind; [apply noof_enum_lookup|intros ? _].
  apply noof_bind; [apply noof_index|intros ? _]. apply noof_bind; [apply noof_enum_lookup|intros ? _].
  apply noof_bind; [apply noof_index|intros ? _]. exact I.
Qed.
Lemma noof_syntax_id_unpack v : noof (syntax_id_unpack v).
Proof. unfold syntax_id_unpack. apply noof_bind; [apply noof_uuid|intros ? _]. exact I. Qed.
Lemma noof_context_result_unpack v : noof (context_result_unpack v).
Proof. unfold context_result_unpack. apply noof_bind; [apply noof_enum_lookup|intros ? _]. apply noof_bind; [apply noof_uuid|intros ? _]. exact I. Qed.

(* utf8_decode carries its own fuel = length *)
Lemma noof_utf8_decode_fuel : forall fuel b, (length b <= fuel)%nat -> noof (utf8_decode_fuel fuel b).
Proof.
  induction fuel as [|fuel IH]; intros b Hb; cbn [utf8_decode_fuel].
  - destruct b; [exact I|cbn in Hb; lia].
  - destruct b as [|x r]; [exact I|]. cbn [length] in Hb.
    assert (Hrec : forall r', (length r' <= length r)%nat -> forall g : list Z -> res (list Z), (forall s, noof (g s)) -> noof (bind (utf8_decode_fuel fuel r') g)).
    { intros r' Hr g Hg. apply noof_bind; [apply IH; lia|intros; apply Hg]. }
    destruct (x <? 128). { apply Hrec; [lia|intros; exact I]. }
    destruct (_ && _).
    { destruct r as [|y r2]; [exact I|]. destruct (cont y); [|exact I]. apply Hrec; [cbn [length]; lia|intros; exact I]. }
    destruct (_ && _).
    { destruct r as [|y [|z r2]]; try exact I. destruct (_ && _); [|exact I]. apply Hrec; [cbn [length]; lia|intros; exact I]. }
    destruct (_ && _); [|exact I].
    destruct r as [|y [|z [|w r2]]]; try exact I. destruct (_ && _); [|exact I]. apply Hrec; [cbn [length]; lia|intros; exact I].
Qed.
Lemma noof_utf8_decode b : noof (utf8_decode b).
Proof. unfold utf8_decode. now apply noof_utf8_decode_fuel. Qed.

(* what a successful primitive says about the length of its input *)
Lemma uuid_ok_len b u : uuid_of_bytes_le b = Ok u -> len b = 16.
Proof. unfold uuid_of_bytes_le. destruct (len b =? 16) eqn:E; [lia|discriminate]. Qed.
Lemma len_slice_to {A} (v : list A) k : 0 <= k -> len (slice (Some 0) (Some k) v) = Z.min k (len v).
Proof.
  intros Hk. unfold slice, norm. destruct (k <? 0) eqn:?; try lia. pose proof (len_nonneg v). cbn [Z.ltb Z.compare].
  unfold len in *. rewrite firstn_length, skipn_length. lia.
Qed.
Lemma len_slice_range {A} (v : list A) a b : 0 <= a -> 0 <= b -> len (slice (Some a) (Some b) v) = Z.max 0 (Z.min b (len v) - Z.min a (len v)).
Proof.
  intros Ha Hb. unfold slice, norm. destruct (a <? 0) eqn:?; try lia. destruct (b <? 0) eqn:?; try lia. pose proof (len_nonneg v).
  unfold len in *. rewrite firstn_length, skipn_length. lia.
Qed.
Lemma syntax_id_ok_len v s : syntax_id_unpack v = Ok s -> 16 <= len v.
Proof.
  unfold syntax_id_unpack. destruct (uuid_of_bytes_le _) as [u|] eqn:E; [|discriminate]. intros _.
  apply uuid_ok_len in E. rewrite slice_None_lo, len_slice_to in E; lia.
Qed.

(* ---- for_range over (view, items): the body consumes at least w octets and appends one item ---- *)
Section SimpleLoop.
Context {A : Type} (body : bytes * list A -> res ((bytes * list A) * Z)) (w : Z).
Hypothesis Hstep : forall v acc, noof (body (v, acc)) /\
  forall s' t, body (v, acc) = Ok (s', t) -> t = 0 /\ w <= len v - len (fst s') /\ len (snd s') = len acc + 1.

Lemma simple_loop : forall fuel n (v : bytes) acc t, len v < w * Z.of_nat fuel ->
  noof (for_range fuel n body (v, acc) t) /\
  forall s' t', for_range fuel n body (v, acc) t = Ok (s', t') ->
    t <= t' /\ w * (t' - t) <= len v - len (fst s') /\ len (snd s') = len acc + (t' - t).
Proof.
  induction fuel as [|fuel IH]; intros n v acc t Hf; cbn [for_range].
  - pose proof (len_nonneg v). lia.
  - destruct (n <=? 0) eqn:E.
    { split; [exact I|]. intros s' t' H. apply Ok_inj in H. assert (Hs : s' = (v, acc) /\ t' = t) by (split; congruence).
      destruct Hs as [-> ->]. cbn [fst snd]. lia. }
    destruct (Hstep v acc) as [Hno Hb]. destruct (body (v, acc)) as [[[v1 acc1] t1]|e] eqn:Eb; cbn [bind].
    + destruct (Hb _ _ eq_refl) as (-> & Hd & Hl). unfold bytes in *. cbn [fst snd] in Hd, Hl.
      destruct (IH (n - 1) v1 acc1 (t + 1 + 0) ltac:(lia)) as [IH1 IH2]. split; [exact IH1|].
      intros s' t' H. specialize (IH2 _ _ H). lia.
    + split; [|discriminate]. try rewrite Eb in Hno. destruct e; exact Hno.
Qed.
End SimpleLoop.

(* ---- for_range whose body pays for its own ticks and for the iteration out of a potential ---- *)
Section PotLoop.
Context {St : Type} (body : St -> res (St * Z)) (mu : St -> Z) (B : Z).
Hypothesis mu_nonneg : forall s, 0 <= mu s.
Hypothesis Hstep : forall s, mu s <= B -> noof (body s) /\
  forall s' t, body s = Ok (s', t) -> 0 <= t /\ 1 + t <= mu s - mu s'.

Lemma pot_loop : forall fuel n s t, mu s <= B -> mu s < Z.of_nat fuel ->
  noof (for_range fuel n body s t) /\
  forall s' t', for_range fuel n body s t = Ok (s', t') -> t <= t' /\ t' - t <= mu s - mu s'.
Proof.
  induction fuel as [|fuel IH]; intros n s t HB Hf; cbn [for_range].
  - pose proof (mu_nonneg s). lia.
  - destruct (n <=? 0) eqn:E.
    { split; [exact I|]. intros s' t' H. apply Ok_inj in H. assert (Hs : s' = s /\ t' = t) by (split; congruence).
      destruct Hs as [-> ->]. lia. }
    destruct (Hstep s HB) as [Hno Hb]. destruct (body s) as [[s1 t1]|e] eqn:Eb; cbn [bind].
    + first [destruct (Hb _ _ Eb) as (Ht1 & Hd) | destruct (Hb _ _ eq_refl) as (Ht1 & Hd)].
      destruct (IH (n - 1) s1 (t + 1 + t1) ltac:(lia) ltac:(lia)) as [IH1 IH2]. split; [exact IH1|].
      intros s' t' H. specialize (IH2 _ _ H). lia.
    + split; [|discriminate]. try rewrite Eb in Hno. destruct e; exact Hno.
Qed.
End PotLoop.
