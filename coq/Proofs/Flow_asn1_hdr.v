(* Tie theorem: _read_asn1_header of _asn1.py (gen/F_asn1.v, run in Flow/World_asn1.v) = Model/Asn1.v read_asn1_header,
   for every octet list (no well-formedness assumed) and every fuel (the only loop is a `for`). *)
From V Require Import Prelude.PyAst.
From V Require Import Prelude.Base Prelude.PyInt Prelude.PySlice Prelude.PyStr Prelude.PyWorld gen.K_asn1 gen.C_asn1 gen.F_asn1.
From V Require Import Model.Asn1 Flow.World_asn1 Proofs.Flow_asn1_lib Proofs.Asn1Lib.
Local Open Scope string_scope.
Local Open Scope list_scope.
Local Open Scope Z_scope.
Arguments len : simpl never.
Arguments slice : simpl never.
Arguments Z.land : simpl never.
Arguments Z.lor : simpl never.
Arguments Z.shiftr : simpl never.
Arguments Z.shiftl : simpl never.
Arguments Z.mul : simpl never.
Arguments Z.to_nat : simpl never.
Arguments universal_ok : simpl never.
Arguments zrange : simpl never.

Lemma hdr_class_range o : 0 <= k_hdr_class o <= 3.
Proof.
  unfold k_hdr_class. rewrite Z.shiftr_land. change (Z.shiftr 192 6) with (Z.ones 2). rewrite Z.land_ones by lia.
  pose proof (Z.mod_pos_bound (Z.shiftr o 6) (2 ^ 2)). lia.
Qed.

Lemma unpack_rest_split : forall data i idx v idx' rest,
  unpack_octet_number_rest data i idx = Ok (v, idx', rest) -> exists pre, data = pre ++ rest /\ idx' = idx + len pre.
Proof.
  induction data as [|x r IH]; intros i idx v idx' rest H; cbn [unpack_octet_number_rest] in H; [discriminate|].
  destruct (Z.land x 128 =? 0).
  - apply Ok_inj in H. inversion H; subst. exists [x]. split; [reflexivity|]. rewrite len1. reflexivity.
  - apply IH in H. destruct H as (pre & -> & ->). exists (x :: pre). split; [reflexivity|]. rewrite len_cons. lia.
Qed.

Definition lo_for_body : list pstmt := [
          SIf (PCmp "<" (PCall "len" [(PName "view")]) (PBin "+" (PName "idx") (PInt 1))) [
            SRaise "NotEnougData"
          ] [];
          SAssign ["octet_val"] (PSub (PCall "struct.unpack" [(PStr [66]); (PSlice (PName "view") (PName "idx") (PBin "+" (PName "idx") (PInt 1)))]) (PInt 0));
          SAssign ["length"] (PBin "+" (PName "length") (PBin "<<" (PName "octet_val") (PBin "*" (PInt 8) (PBin "-" (PBin "-" (PName "length_octets") (PInt 1)) (PName "idx")))))
        ].

Lemma zrange_S n lo : zrange (S n) lo = @VI obj lo :: zrange n (lo + 1).
Proof. reflexivity. Qed.

Lemma hdr_for fuel : forall n pre r env lo acc,
  lookup "view" env = Some (VB (pre ++ r)) -> lookup "length_octets" env = Some (VI lo) -> lookup "length" env = Some (VI acc) ->
  Z.of_nat n = lo - len pre ->
  match read_len_octets n r lo (len pre) acc with
  | Raise e => for_each W fuel ["idx"] lo_for_body (zrange n (len pre)) env = Raise e
  | Ok l => exists env', for_each W fuel ["idx"] lo_for_body (zrange n (len pre)) env = Ok (Next env') /\
                         lookup "length" env' = Some (VI l) /\
                         (forall x, x <> "idx" -> x <> "octet_val" -> x <> "length" -> lookup x env' = lookup x env)
  end.
Proof.
  induction n as [|n IH]; intros pre r env lo acc Hv Hlo Hacc Hn; cbn [read_len_octets].
  - exists env. split; [reflexivity|]. split; [exact Hacc|reflexivity].
  - rewrite zrange_S, for_each_cons. unfold lo_for_body. destruct r as [|x r].
    + pye. rewrite app_nil_r. destruct (len pre <? len pre + 1) eqn:E; [|lia]. pye. reflexivity.
    + pose proof (len_nonneg r). pye. rewrite len_app, len_cons.
      destruct (len pre + (1 + len r) <? len pre + 1) eqn:E; [lia|]. pye.
      rewrite (slice_mid pre [x] r) by (rewrite ?len1; lia). pye.
      destruct (8 * (lo - 1 - len pre) <? 0) eqn:E8; [lia|]. pye. fold lo_for_body.
      match goal with |- context [for_each _ _ _ _ _ ?e] =>
        specialize (IH (pre ++ [x]) r e lo (k_hdr_len_acc acc x lo (len pre))) end.
      rewrite len_app, len1 in IH.
      lapply IH; [clear IH; intro IH|cbn; rewrite Hv, <- app_assoc; reflexivity].
      lapply IH; [clear IH; intro IH|cbn; exact Hlo].
      lapply IH; [clear IH; intro IH|reflexivity].
      lapply IH; [clear IH; intro IH|lia].
      destruct (read_len_octets n r lo (len pre + 1) (k_hdr_len_acc acc x lo (len pre))) as [l|e]; [|exact IH].
      destruct IH as (env' & Hw & Hl & Hfr). exists env'. split; [exact Hw|]. split; [exact Hl|].
      intros y H1 H2 H3. rewrite Hfr by assumption. cbn.
      apply String.eqb_neq in H1, H2, H3. rewrite H1, H2, H3. reflexivity.
Qed.

Lemma slice_tail1 {A} (x : A) r : slice (Some 1) None (x :: r) = r.
Proof. change (x :: r) with ([x] ++ r). change 1 with (len [x]). apply slice_app_r. Qed.
Lemma slice_head1 {A} (x : A) r : slice None (Some 1) (x :: r) = [x].
Proof. change (x :: r) with ([x] ++ r). change 1 with (len [x]). apply slice_none_l. Qed.
Lemma len_cons_nz {A} (x : A) r : (len (x :: r) =? 0) = false.
Proof. rewrite len_cons. pose proof (len_nonneg r). lia. Qed.

Arguments Z.add : simpl never.
Arguments Z.sub : simpl never.

(* the part of the model after the identifier octets *)
Definition hdr_rest (tag_class tag_number : Z) (constructed : bool) (tag_octets : Z) (view2 : bytes) : res header :=
    if (tag_class =? c_class_universal) && negb (universal_ok tag_number) then Raise ValueError else
    match view2 with
    | [] => Raise NotEnoughData
    | length :: r2 =>
      let t := mk_tag tag_class tag_number constructed in
      if k_hdr_indef length then Raise ValueError
      else if negb (k_hdr_long length =? 0) then
        let length_octets := k_hdr_len_octets 1 length in
        let* l := read_len_octets (Z.to_nat (length_octets - 1)) r2 length_octets 1 0 in
        Ok (mk_header t (tag_octets + length_octets) l)
      else Ok (mk_header t (tag_octets + 1) length)
    end.

Definition hdr_tail : list pstmt := [
    SIf (PCmp "==" (PName "tag_class") (PName "TagClass.UNIVERSAL")) [
      SAssign ["tag_number"] (PCall "TypeTagNumber" [(PName "tag_number")])
    ] [];
    SAssign ["view"] (PSlice (PName "view") (PName "tag_octets") PNone);
    SIf (PNot (PName "view")) [
      SRaise "NotEnougData"
    ] [];
    SAssign ["length"] (PSub (PCall "struct.unpack" [(PStr [66]); (PSlice (PName "view") PNone (PInt 1))]) (PInt 0));
    SAssign ["length_octets"] (PInt 1);
    SIf (PCmp "==" (PName "length") (PInt 128)) [
      SRaise "ValueError"
    ] [
      SIf (PBin "&" (PName "length") (PInt 128)) [
        SAssign ["length_octets"] (PBin "+" (PName "length_octets") (PBin "&" (PName "length") (PInt 127)));
        SAssign ["length"] (PInt 0);
        SFor ["idx"] (PCall "range" [(PInt 1); (PName "length_octets")]) lo_for_body
      ] []
    ];
    SReturn (PCall "ASN1Header/tag,tag_length,length" [(PCall "ASN1Tag/tag_class,tag_number,is_constructed" [(PName "tag_class"); (PName "tag_number"); (PName "constructed")]); (PBin "+" (PName "tag_octets") (PName "length_octets")); (PName "length")])
  ].

Lemma land127_nonneg x : 0 <= Z.land x 127.
Proof. apply Z.land_nonneg. right. lia. Qed.

Lemma hdr_tail_ok fuel env tc tn (cons : bool) pre view2 :
  lookup "tag_class" env = Some (VI tc) -> lookup "tag_number" env = Some (VI tn) ->
  lookup "constructed" env = Some (vb cons) -> lookup "tag_octets" env = Some (VI (len pre)) ->
  lookup "view" env = Some (VB (pre ++ view2)) -> lookup "TagClass.UNIVERSAL" env = None ->
  exec_block W fuel hdr_tail env =
  match hdr_rest tc tn cons (len pre) view2 with Ok h => Ok (Ret (inj_header h)) | Raise e => Raise e end.
Proof.
  intros Hc Hn Hk Ho Hv Hg. unfold hdr_tail, hdr_rest, k_hdr_indef, k_hdr_long, k_hdr_len_octets.
  pye. destruct (tc =? c_class_universal) eqn:Eu; pye.
  1: destruct (universal_ok tn) eqn:Et; pye; [|reflexivity].
  all: rewrite slice_app_r; destruct view2 as [|length r2]; pye; [reflexivity|].
  all: rewrite len_cons_nz; pye; rewrite slice_head1; pye.
  all: destruct (length =? 128) eqn:E128; pye; [reflexivity|].
  all: destruct (Z.land length 128 =? 0) eqn:El; pye; [destruct cons; pye; reflexivity|].
  all: pose proof (land127_nonneg length) as H127.
  all: match goal with |- context [for_each _ _ _ _ _ ?e] =>
        pose proof (hdr_for fuel (Z.to_nat (1 + Z.land length 127 - 1)) [length] r2 e (1 + Z.land length 127) 0
                      eq_refl eq_refl eq_refl) as HF end.
  all: rewrite len1 in HF; (lapply HF; [clear HF; intro HF|lia]).
  all: destruct (read_len_octets _ r2 _ 1 0) as [l|e]; [|rewrite HF; reflexivity].
  all: destruct HF as (env' & Hw & Hl & Hfr); rewrite Hw; cbn [bind].
  all: assert (H1 : lookup "tag_class" env' = Some (VI tc)) by (rewrite Hfr by discriminate; cbn; exact Hc).
  all: assert (H2 : lookup "tag_number" env' = Some (VI tn)) by (rewrite Hfr by discriminate; cbn; first [reflexivity|exact Hn]).
  all: assert (H3 : lookup "constructed" env' = Some (vb cons)) by (rewrite Hfr by discriminate; cbn; exact Hk).
  all: assert (H4 : lookup "tag_octets" env' = Some (VI (len pre))) by (rewrite Hfr by discriminate; cbn; exact Ho).
  all: assert (H5 : lookup "length_octets" env' = Some (VI (1 + Z.land length 127))) by (rewrite Hfr by discriminate; reflexivity).
  all: clear Hw Hfr; destruct cons; pye; reflexivity.
Qed.

Arguments hdr_tail : simpl never.
Arguments hdr_rest : simpl never.
Arguments unpack_octet_number_rest : simpl never.

Lemma read_header_rest octet1 r1 :
  read_asn1_header (octet1 :: r1) =
  (let* (tag_number, tag_octets, view2) :=
      if k_hdr_high (k_hdr_num octet1)
      then let* (n, c, rest) := unpack_octet_number_rest r1 0 0 in Ok (n, 1 + c, rest)
      else Ok (k_hdr_num octet1, 1, r1) in
   hdr_rest (k_hdr_class octet1) tag_number (negb (k_hdr_cons octet1 =? 0)) tag_octets view2).
Proof. reflexivity. Qed.

Lemma flow_read_asn1_header fuel data :
  run W fuel k_flow_read_asn1_header [VB data] = (let* h := read_asn1_header data in Ok (inj_header h)).
Proof.
  start W k_flow_read_asn1_header. fold lo_for_body. fold hdr_tail.
  destruct data as [|octet1 r1]; [py; reflexivity|].
  rewrite read_header_rest. py.
  rewrite len_cons_nz. py. rewrite slice_head1. py.
  pose proof (hdr_class_range octet1) as Hc. unfold k_hdr_class in Hc |- *.
  destruct ((0 <=? Z.shiftr (Z.land octet1 192) 6) && (Z.shiftr (Z.land octet1 192) 6 <=? 3)) eqn:Ec; [|lia]. py.
  unfold k_hdr_num, k_hdr_high, k_hdr_cons.
  destruct (Z.land octet1 31 =? 31) eqn:Eh; py.
  - rewrite slice_tail1. unfold unpack_octet_number.
    destruct (unpack_octet_number_rest r1 0 0) as [[[n c] rest]|e] eqn:Eu; py; try reflexivity.
    apply unpack_rest_split in Eu. destruct Eu as (pre & -> & ->).
    erewrite (hdr_tail_ok _ _ _ _ _ (octet1 :: pre) rest);
      [|first [reflexivity | cbn; rewrite len_cons; do 2 f_equal; lia] ..].
    rewrite len_cons. replace (1 + (0 + len pre)) with (1 + len pre) by lia.
    destruct (hdr_rest _ _ _ _ _); reflexivity.
  - erewrite (hdr_tail_ok _ _ _ _ _ [octet1] r1); [|reflexivity ..].
    rewrite len1. destruct (hdr_rest _ _ _ _ _); reflexivity.
Qed.
