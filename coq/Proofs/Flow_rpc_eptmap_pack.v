(* Part 2 of 2 of the ept_map request ties (EptMap.pack); see Proofs/Flow_rpc_eptmap_unpack.v. *)
From V Require Import Prelude.Base Prelude.PyInt Prelude.PySlice Prelude.PyStr Prelude.PyAst Prelude.PyWorld gen.F_rpc.
From V Require Import Model.Pdu Model.Request Model.RpcLoop Model.Bind Model.Verification Model.Epm Flow.World_rpc Proofs.Flow_rpc_lib.
Local Open Scope string_scope.
Local Open Scope list_scope.
Local Open Scope Z_scope.

Lemma flow_eptmap_pack mf fuel m :
  run (W mf) fuel k_flow_eptmap_pack [VO (OEptMap m)] = chk (ept_map_ranges m) (ept_map_pack m).
Proof.
  unfold ept_map_pack, tower_bytes, entry_handle_pack, ept_map_ranges, handle_ranges, chk, k_flow_eptmap_pack, k_eptmap_pack_pad.
  destruct m as [ob fs eh mt]. hide_comps.
  destruct eh as [[a u]|]; destruct ob as [u'|].
  all: tie1; dand; tie1. all: comp_step OFloor floor_ranges floor_pack; tie.
Qed.
