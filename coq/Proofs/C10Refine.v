(* C10 refinement: the concrete cache model (Model/Client.v: ccache over octet strings and real envelopes, cc_get_key,
   cc_store_key, cc_load and the unprotect pipeline unprotect_online of Proofs/Flow_cache_public.v) refines the abstract
   state machine of the C10 theorems (Model/Cache.v) under an abstraction function `abs`.
   Instantiation: K := res bytes (a key, or the error raised while building a KDF context), RK := root_key,
     kdf rk l0 k a b   := Chain.kdfK c h (dec rk) l0 k a b          (the concrete chain step: Crypto.kdf over compute_kdf_context)
     l1seed d rk sd l0 := compute_l1_key with the hash named by d's own KDF parameters
     nokey             := Ok []                                      (b"")
   where root key ids and security descriptors (octet strings) are numbered by an injective code : bytes -> Z with left
   inverse dec (the abstract model compares them with Z.eqb). *)
From V Require Import Prelude.Base Prelude.PyInt Prelude.Loops gen.Kernels gen.Consts gen.K_cache gen.K_gkdi.
From V Require Import Prelude.PyAst Prelude.PyWorld Flow.World_cache Proofs.Flow_cache_public.
From V Require Import Model.Types Model.Crypto Model.Chain Model.KeyId Model.Gkdi Model.Kek Model.SecDesc Model.Blob Model.Interval Model.Client Model.Cache.
From V Require Import Proofs.GkdiLib Spec.GkdiSpec Proofs.C10.
Local Open Scope Z_scope.

(* ---------------------------------------------------------------- numbering octet strings *)
(* a :: rest as a positive: the bits of a (low first), each preceded by a 1, then 0 0, then rest *)
Fixpoint pre (a q : positive) : positive :=
  match a with
  | xH => xO (xO q)
  | xO a' => xI (xO (pre a' q))
  | xI a' => xI (xI (pre a' q))
  end.
Definition zpos (z : Z) : positive := match z with Z0 => xH | Zpos p => xO p | Zneg p => xI p end.
Definition unzpos (p : positive) : Z := match p with xH => Z0 | xO q => Zpos q | xI q => Zneg q end.
Fixpoint code_list (l : list Z) : positive :=
  match l with [] => xH | x :: r => pre (zpos x) (code_list r) end.
Fixpoint dec_list (p : positive) (acc : positive -> positive) : list Z :=
  match p with
  | xO (xO q) => unzpos (acc xH) :: dec_list q (fun x => x)
  | xI (xO r) => dec_list r (fun x => acc (xO x))
  | xI (xI r) => dec_list r (fun x => acc (xI x))
  | _ => []
  end.
Definition code (b : bytes) : Z := Zpos (code_list b).
Definition dec (z : Z) : bytes := match z with Zpos p => dec_list p (fun x => x) | _ => [] end.

Lemma unzpos_zpos z : unzpos (zpos z) = z.
Proof. destruct z; reflexivity. Qed.
Lemma dec_list_pre a q acc : dec_list (pre a q) acc = unzpos (acc a) :: dec_list q (fun x => x).
Proof. revert acc. induction a as [a IH|a IH|]; intros acc; cbn [pre dec_list]; [apply IH|apply IH|reflexivity]. Qed.
Lemma dec_code b : dec (code b) = b.
Proof.
  unfold dec, code. induction b as [|x r IH]; [reflexivity|].
  cbn [code_list]. rewrite dec_list_pre, unzpos_zpos, IH. reflexivity.
Qed.
Lemma code_inj a b : code a = code b -> a = b.
Proof. intros H. rewrite <- (dec_code a), <- (dec_code b), H. reflexivity. Qed.
Lemma code_eqb a b : (code a =? code b) = beqb a b.
Proof.
  destruct (beqb a b) eqn:E.
  - apply beqb_eq in E. subst. apply Z.eqb_refl.
  - apply beqb_neq in E. apply Z.eqb_neq. intros H. apply E, code_inj, H.
Qed.

(* ---------------------------------------------------------------- the abstraction *)
Notation KK := (res bytes) (only parsing).
Definition abs_env (e : envelope) : cenv (K := KK) :=
  {| c_rk := code (gke_rkid e); c_l0 := gke_l0 e; c_l1 := gke_l1 e; c_l2 := gke_l2 e; c_pub := gke_is_public_key e;
     c_k1 := Ok (gke_l1_key e); c_k2 := Ok (gke_l2_key e) |}.
Definition abs_tkey (t : ckey) : tkey := let '(r, s, l0) := t in (code r, code s, l0).
Definition abs (cc : ccache) : cache (K := KK) (RK := root_key) :=
  {| roots := map (fun p => (code (fst p), snd p)) (cc_roots cc);
     seeds := map (fun p => (abs_tkey (fst p), abs_env (snd p))) (cc_seeds cc) |}.

Lemma abs_empty : abs cc_empty = empty_cache.
Proof. reflexivity. Qed.
Lemma abs_load cc rkid rk : abs (cc_load cc rkid rk) = load_key (abs cc) (code rkid) rk.
Proof. reflexivity. Qed.

Lemma abs_tkey_eqb a b : tkey_eqb (abs_tkey a) (abs_tkey b) = ckey_eqb a b.
Proof. destruct a as [[a1 a2] a3], b as [[b1 b2] b3]. cbn [abs_tkey tkey_eqb ckey_eqb]. rewrite !code_eqb. reflexivity. Qed.

Lemma abs_find_seed l r s l0 :
  find_seed (map (fun p => (abs_tkey (fst p), abs_env (snd p))) l) (code r, code s, l0) = option_map abs_env (cc_find_seed l (r, s, l0)).
Proof.
  induction l as [|[k v] l IH]; [reflexivity|].
  cbn [map fst snd find_seed cc_find_seed]. change (code r, code s, l0) with (abs_tkey (r, s, l0)).
  rewrite abs_tkey_eqb. destruct (ckey_eqb k (r, s, l0)); [reflexivity|exact IH].
Qed.
Lemma abs_find_root l r :
  find_root (map (fun p => (code (fst p), snd p)) l) (code r) = cc_find_root l r.
Proof.
  induction l as [|[k v] l IH]; [reflexivity|].
  cbn [map fst snd find_root cc_find_root]. rewrite code_eqb. destruct (beqb k r); [reflexivity|exact IH].
Qed.
Lemma abs_set_seed cc r s l0 e : abs (cc_set_seed cc (r, s, l0) e) = set_seed (abs cc) (code r, code s, l0) (abs_env e).
Proof. reflexivity. Qed.

(* KeyCache._store_key commutes, unconditionally *)
Lemma abs_store_key cc sd e : abs (cc_store_key cc sd e) = store_key (abs cc) (code sd) (abs_env e).
Proof.
  unfold cc_store_key, store_key. cbn [abs seeds abs_env c_rk c_l0 c_l1 c_l2].
  rewrite abs_find_seed. destruct (cc_find_seed (cc_seeds cc) (gke_rkid e, sd, gke_l0 e)) as [x|]; cbn [option_map abs_env c_l1 c_l2].
  - destruct (k_cache_store true _ _ _ _); [apply abs_set_seed|reflexivity].
  - destruct (k_cache_store false _ _ _ _); [apply abs_set_seed|reflexivity].
Qed.

(* ---------------------------------------------------------------- the instantiation *)
Lemma tbs4_ok z : -2147483648 <= z <= 2147483647 -> exists b, to_bytes_le_signed 4 z = Ok b.
Proof.
  intros H. unfold to_bytes_le_signed. rewrite P_4.
  match goal with |- context [if ?b then _ else _] => replace b with true by lia end. eexists; reflexivity.
Qed.
Lemma kdf_context_ok rkid l0 a b : 0 <= l0 <= 2147483647 -> -1 <= a <= 31 -> -1 <= b <= 31 ->
  exists x, compute_kdf_context rkid l0 a b = Ok x.
Proof.
  intros H0 Ha Hb. unfold compute_kdf_context.
  destruct (tbs4_ok l0) as [b0 ->]; [lia|]. destruct (tbs4_ok a) as [b1 ->]; [lia|]. destruct (tbs4_ok b) as [b2 ->]; [lia|].
  cbn [bind]. eexists; reflexivity.
Qed.
Lemma compute_l1_key_ok c h sd rkid l0 key : 0 <= l0 <= 2147483647 -> exists k, compute_l1_key c h sd rkid l0 key = Ok k.
Proof.
  intros H0. unfold compute_l1_key.
  destruct (kdf_context_ok rkid l0 (-1) (-1)) as [x0 ->]; [lia..|].
  destruct (kdf_context_ok rkid l0 31 (-1)) as [x1 ->]; [lia..|]. cbn [bind]. eexists; reflexivity.
Qed.

Section Refine.
Context (c : Crypto) (h : hash).

Definition akdf (rk l0 : Z) (k : res bytes) (a b : Z) : res bytes := kdfK c h (dec rk) l0 k a b.
Definition al1seed (d : root_key) (rk sd l0 : Z) : res bytes :=
  let* n := KDFParameters_unpack (rk_kdf_params d) in
  let* h' := hash_algorithm n in
  compute_l1_key c h' (dec sd) (dec rk) l0 (rk_key d).
Definition anokey : res bytes := Ok [].

(* a loaded root key whose KDF parameters name a supported hash (load_key stores whatever it is given; _get_key raises on
   the others, where the abstract model - which has no errors in _get_key - would go on) *)
Definition good_root (d : root_key) : Prop :=
  exists n h', KDFParameters_unpack (rk_kdf_params d) = Ok n /\ hash_algorithm n = Ok h'.
Definition good_roots (cc : ccache) : Prop := forall r d, cc_find_root (cc_roots cc) r = Some d -> good_root d.
Definition l0_ok (l0 : Z) : Prop := 0 <= l0 <= 2147483647.

Lemma l0_ok_guard l0 : l0_ok l0 -> k_cache_l0_guard l0 = false.
Proof. unfold l0_ok, k_cache_l0_guard. lia. Qed.

(* KeyCache._get_key commutes: for an L0 the source accepts and supported root keys *)
Lemma abs_get_key cc sd rkid l0 l1 l2 : l0_ok l0 -> good_roots cc ->
  exists o cc', cc_get_key c cc sd rkid l0 l1 l2 = Ok (o, cc') /\
    get_key al1seed anokey (abs cc) (code sd) (code rkid) l0 l1 l2 = (option_map abs_env o, abs cc').
Proof.
  intros H0 HG. unfold cc_get_key, get_key. rewrite (l0_ok_guard _ H0). cbn [abs seeds roots].
  rewrite abs_find_seed, abs_find_root.
  assert (ROOT : forall seed : option envelope,
    exists o cc',
      match cc_find_root (cc_roots cc) rkid with
      | Some rk =>
        let* hash_name := KDFParameters_unpack (rk_kdf_params rk) in
        let* h0 := hash_algorithm hash_name in
        let* l1_seed := compute_l1_key c h0 sd rkid l0 (rk_key rk) in
        let gke := {| gke_version := rk_version rk; gke_flags := k_root_env_flags; gke_l0 := l0;
                      gke_l1 := k_root_env_l1; gke_l2 := k_root_env_l2; gke_rkid := rkid;
                      gke_kdf_alg := rk_kdf_alg rk; gke_kdf_params := rk_kdf_params rk;
                      gke_secret_alg := rk_secret_alg rk;
                      gke_secret_params := match rk_secret_params rk with Some (x :: r) => x :: r | _ => [] end;
                      gke_priv_len := rk_priv_len rk; gke_pub_len := rk_pub_len rk;
                      gke_domain := []; gke_forest := []; gke_l1_key := l1_seed; gke_l2_key := [] |} in
        if k_cache_root_overwrites then Ok (Some gke, cc_set_seed cc (rkid, sd, l0) gke)
        else match seed with
             | Some e => Ok (Some e, cc)
             | None => Ok (Some gke, cc_set_seed cc (rkid, sd, l0) gke)
             end
      | None => Ok (None, cc)
      end = Ok (o, cc') /\
      match cc_find_root (cc_roots cc) rkid with
      | Some data =>
        let gke := {| c_rk := code rkid; c_l0 := l0; c_l1 := k_root_env_l1; c_l2 := k_root_env_l2;
                      c_pub := negb (Z.land k_root_env_flags 1 =? 0);
                      c_k1 := al1seed data (code rkid) (code sd) l0; c_k2 := anokey |} in
        if k_cache_root_overwrites then (Some gke, set_seed (abs cc) (code rkid, code sd, l0) gke)
        else match option_map abs_env seed with
             | Some e => (Some e, abs cc)
             | None => (Some gke, set_seed (abs cc) (code rkid, code sd, l0) gke)
             end
      | None => (None, abs cc)
      end = (option_map abs_env o, abs cc')).
  { intros seed. destruct (cc_find_root (cc_roots cc) rkid) as [rk|] eqn:R.
    - destruct (HG _ _ R) as (n & h' & Hn & Hh). unfold al1seed. rewrite !dec_code, Hn. cbn [bind]. rewrite Hh. cbn [bind].
      destruct (compute_l1_key_ok c h' sd rkid l0 (rk_key rk) H0) as [k ->]. cbn [bind]. cbv zeta.
      destruct k_cache_root_overwrites.
      + eexists _, _. split; [reflexivity|]. rewrite abs_set_seed. reflexivity.
      + destruct seed as [e|]; cbn [option_map].
        * eexists _, _. split; reflexivity.
        * eexists _, _. split; [reflexivity|]. rewrite abs_set_seed. reflexivity.
    - exists None, cc. split; reflexivity. }
  destruct (cc_find_seed (cc_seeds cc) (rkid, sd, l0)) as [e|]; cbn [option_map abs_env c_l1 c_l2].
  - destruct (k_cache_covers true (gke_l1 e) l1 (gke_l2 e) l2).
    + exists (Some e), cc. split; reflexivity.
    + exact (ROOT (Some e)).
  - destruct (k_cache_covers false 0 l1 0 l2).
    + exists None, cc. split; reflexivity.
    + exact (ROOT None).
Qed.

(* ---------------------------------------------------------------- the unprotect step *)
Notation aunprotect adc := (Cache.unprotect akdf al1seed anokey adc).

Lemma roots_get_key (ca : cache (K := res bytes) (RK := root_key)) sd rk l0 l1 l2 :
  roots (snd (get_key al1seed anokey ca sd rk l0 l1 l2)) = roots ca.
Proof.
  unfold get_key. destruct (find_seed (seeds ca) (rk, sd, l0)) as [e|];
    [destruct (k_cache_covers true _ _ _ _)|destruct (k_cache_covers false _ _ _ _)]; try reflexivity;
    destruct (find_root (roots ca) rk); try reflexivity; destruct k_cache_root_overwrites; reflexivity.
Qed.
Lemma roots_store_key (ca : cache (K := res bytes) (RK := root_key)) sd e : roots (store_key ca sd e) = roots ca.
Proof. unfold store_key. destruct (find_seed _ _) as [x|]; [destruct (k_cache_store true _ _ _ _)|destruct (k_cache_store false _ _ _ _)]; reflexivity. Qed.
Lemma roots_unprotect adc (ca : cache (K := res bytes) (RK := root_key)) sd rk l0 l1 l2 :
  roots (snd (aunprotect adc ca sd rk l0 l1 l2)) = roots ca.
Proof.
  unfold Cache.unprotect. pose proof (roots_get_key ca sd rk l0 l1 l2) as R.
  destruct (get_key al1seed anokey ca sd rk l0 l1 l2) as [[e|] c1]; cbn [snd] in R; unfold unprotect_finish; cbn [snd];
    match goal with |- context [c_pub ?x] => destruct (c_pub x) end; rewrite ?roots_store_key; exact R.
Qed.

Lemma good_roots_of_abs cc cc' : roots (abs cc') = roots (abs cc) -> good_roots cc -> good_roots cc'.
Proof.
  intros E HG r d Hr. apply (HG r d). rewrite <- abs_find_root in *. cbn [abs roots] in E. rewrite <- E. exact Hr.
Qed.

(* the envelope a concrete unprotect call works with (cached, or the network's reply) *)
Definition unprotect_envelope (dns : list (pv obj) -> res pystr) (getkey : list (pv obj) -> res envelope)
    (cc : ccache) (data : bytes) (server : option pystr) (u p a : pv obj) : res envelope :=
  let* b := blob_unpack data in
  let* sd := get_target_sd (b_sid b) in
  let kid := b_key_identifier b in
  let* (o, _) := cc_get_key c cc sd (kid_rkid kid) (kid_l0 kid) (kid_l1 kid) (kid_l2 kid) in
  envelope_for dns getkey o server (VS (kid_domain kid))
    [VB sd; VB (kid_rkid kid); VI (kid_l0 kid); VI (kid_l1 kid); VI (kid_l2 kid); u; p; a].

(* what a blob asks for *)
Definition asks (data : bytes) (b : blob) (sd : bytes) : Prop :=
  blob_unpack data = Ok b /\ get_target_sd (b_sid b) = Ok sd /\ l0_ok (kid_l0 (b_key_identifier b)).

(* `adc` abstracts what the network answers to this call *)
Definition net_ok dns getkey (adc : Z -> option Z -> Z -> Z -> Z -> cenv (K := res bytes)) (b : blob) (sd : bytes)
    (server : option pystr) (u p a : pv obj) : Prop :=
  let kid := b_key_identifier b in
  exists e, envelope_for dns getkey None server (VS (kid_domain kid))
              [VB sd; VB (kid_rkid kid); VI (kid_l0 kid); VI (kid_l1 kid); VI (kid_l2 kid); u; p; a] = Ok e /\
            adc (code sd) (Some (code (kid_rkid kid))) (kid_l0 kid) (kid_l1 kid) (kid_l2 kid) = abs_env e.

Lemma abs_unprotect_finish ca sd l0 l1 l2 e n cc1 :
  ca = abs cc1 ->
  snd (unprotect_finish akdf ca (code sd) l0 l1 l2 (abs_env e) n)
  = abs (if gke_is_public_key e then cc1 else cc_store_key cc1 sd e).
Proof.
  intros ->. unfold unprotect_finish. cbn [snd abs_env c_pub].
  destruct (gke_is_public_key e); [reflexivity|]. symmetry. apply abs_store_key.
Qed.

(* (3) one concrete unprotect call = one abstract unprotect step: the cache afterwards, and whether the network is consulted *)
Theorem unprotect_refines dns getkey adc cc data server u p a b sd :
  asks data b sd -> good_roots cc -> net_ok dns getkey adc b sd server u p a ->
  let kid := b_key_identifier b in
  let astep := aunprotect adc (abs cc) (code sd) (code (kid_rkid kid)) (kid_l0 kid) (kid_l1 kid) (kid_l2 kid) in
  abs (snd (unprotect_online c dns getkey cc data server u p a)) = snd astep /\
  (o_rpcs (fst astep) = 0 \/ o_rpcs (fst astep) = 1) /\
  (* no RPC in the abstract step: the concrete call does not depend on the network oracles at all *)
  (o_rpcs (fst astep) = 0 ->
     forall dns' getkey', unprotect_online c dns' getkey' cc data server u p a = unprotect_offline c cc data) /\
  (* an RPC in the abstract step: the concrete lookup missed *)
  (o_rpcs (fst astep) = 1 ->
     exists cc1, cc_get_key c cc sd (kid_rkid kid) (kid_l0 kid) (kid_l1 kid) (kid_l2 kid) = Ok (None, cc1)).
Proof.
  intros (Hb & Hsd & H0) HG (e & Hnet & Hadc) kid astep. subst astep kid.
  destruct (abs_get_key cc sd (kid_rkid (b_key_identifier b)) _ (kid_l1 (b_key_identifier b)) (kid_l2 (b_key_identifier b)) H0 HG) as (o & cc1 & G & AG).
  unfold unprotect_online, unprotect_offline, Cache.unprotect. rewrite Hb, Hsd. cbv zeta. rewrite G, AG.
  destruct o as [rk|]; cbn [option_map].
  - cbn [envelope_for]. split; [|split; [|split]].
    + rewrite (abs_unprotect_finish _ _ _ _ _ _ _ _ eq_refl). reflexivity.
    + left. reflexivity.
    + intros _ dns' getkey'. reflexivity.
    + cbn. discriminate.
  - rewrite Hnet, Hadc. split; [|split; [|split]].
    + rewrite (abs_unprotect_finish _ _ _ _ _ _ _ _ eq_refl). reflexivity.
    + right. reflexivity.
    + cbn. discriminate.
    + intros _. exists cc1. reflexivity.
Qed.

(* a served position: the concrete call is the offline one, whatever the oracles *)
Definition c_served (cc : ccache) (rkid sd : bytes) (l0 l1 l2 : Z) : Prop :=
  (exists e, cc_find_seed (cc_seeds cc) (rkid, sd, l0) = Some e /\ (gke_l1 e > l1 \/ (gke_l1 e = l1 /\ gke_l2 e >= l2))) \/
  (exists d, cc_find_root (cc_roots cc) rkid = Some d).

Lemma c_served_abs cc rkid sd l0 l1 l2 : c_served cc rkid sd l0 l1 l2 <-> served (abs cc) (code rkid) (code sd) l0 l1 l2.
Proof.
  unfold c_served, served, covers_at. cbn [abs seeds roots]. rewrite abs_find_seed, abs_find_root. split.
  - intros [(e & He & Hc)|(d & Hd)]; [left; exists (abs_env e); rewrite He; split; [reflexivity|exact Hc]|right; eauto].
  - intros [(e & He & Hc)|(d & Hd)]; [left|right; eauto].
    destruct (cc_find_seed (cc_seeds cc) (rkid, sd, l0)) as [x|]; [|discriminate]. cbn [option_map] in He.
    assert (e = abs_env x) by congruence. subst e. exists x. split; [reflexivity|exact Hc].
Qed.

Theorem served_no_rpc cc data b sd l1 l2 : asks data b sd -> good_roots cc ->
  let kid := b_key_identifier b in
  kid_l1 kid = l1 -> kid_l2 kid = l2 ->
  c_served cc (kid_rkid kid) sd (kid_l0 kid) l1 l2 ->
  forall dns getkey server u p a, unprotect_online c dns getkey cc data server u p a = unprotect_offline c cc data.
Proof.
  intros (Hb & Hsd & H0) HG kid E1 E2 Hs dns getkey server u p a. subst l1 l2 kid.
  apply c_served_abs in Hs. destruct (served_get al1seed anokey _ _ _ _ _ _ Hs) as (e & c1 & AG').
  destruct (abs_get_key cc sd (kid_rkid (b_key_identifier b)) _ (kid_l1 (b_key_identifier b)) (kid_l2 (b_key_identifier b)) H0 HG) as (o & cc1 & G & AG).
  rewrite AG in AG'. destruct o as [rk|]; [|discriminate].
  unfold unprotect_online, unprotect_offline. rewrite Hb, Hsd. cbv zeta. rewrite G. reflexivity.
Qed.
End Refine.

(* the L2 key the concrete code derives from an envelope is the abstract model's `derive` (K := res bytes: flattened) *)
Lemma derive_abs' c h rk l1 l2 :
  compute_l2_key c h l1 l2 rk = match derive (akdf c h) (abs_env rk) l1 l2 with Ok r => r | Raise x => Raise x end.
Proof. unfold compute_l2_key, derive, akdf. cbn [abs_env c_rk c_l0 c_l1 c_l2 c_k1 c_k2]. rewrite dec_code. reflexivity. Qed.

(* ---------------------------------------------------------------- the protect step (partial) *)
Section RefineProtect.
Context (c : Crypto) (h : hash).
Notation aprotect adc := (Cache.protect (akdf c h) (al1seed c) anokey adc).

(* One concrete protect call = one abstract protect step, UNDER two extra hypotheses about the cache lookup that the unprotect
   step does not need and that depend on the cache contents: (i) _get_protection_gke_from_cache does not raise (KDF parameters
   of the cached envelope unpack, compute_l2_key succeeds) and (ii) a cached envelope it finds names the hash h the abstract
   kdf is instantiated with.  Both follow from conformance of the cached envelopes, but that transfer (and with it the
   history-level statements for protect) is not proved here. *)
Theorem protect_refines_partial dns getkey adc cc r1 r2 r3 ns data sid rkid server dom u p a sd o cc1 n0 n1 n2 :
  get_target_sd sid = Ok sd -> good_roots cc -> Interval.interval_of_time_ns ns = (n0, n1, n2) -> l0_ok n0 ->
  protection_gke_from_cache c cc rkid sd ns = Ok (o, cc1) ->
  (forall rid rk cc', rkid = Some rid -> cc_get_key c cc sd rid n0 n1 n2 = Ok (Some rk, cc') ->
     exists n, KDFParameters_unpack (gke_kdf_params rk) = Ok n /\ hash_algorithm n = Ok h) ->
  (exists e, envelope_for dns getkey None server dom [VB sd; vbytes_opt rkid; VI (-1); VI (-1); VI (-1); u; p; a] = Ok e /\
             adc (code sd) (option_map code rkid) (-1) (-1) (-1) = abs_env e) ->
  let astep := aprotect adc (abs cc) (code sd) (option_map code rkid) n0 n1 n2 in
  abs (snd (protect_online c r1 r2 r3 ns dns getkey cc data sid rkid server dom u p a)) = snd astep /\
  (o_rpcs (fst astep) = 0 <-> o <> None).
Proof.
  intros Hsd HG HI H0 HP HH (e & Hnet & Hadc) astep. subst astep.
  unfold protect_online. rewrite Hsd, HP. unfold Cache.protect, protection_gke.
  unfold protection_gke_from_cache in HP.
  destruct rkid as [rid|]; cbn [option_map] in *.
  - rewrite HI in HP.
    destruct (abs_get_key c cc sd rid n0 n1 n2 H0 HG) as (o' & cc' & G & AG). rewrite G in HP. cbn [bind] in HP. rewrite AG.
    destruct o' as [rk|]; cbn [option_map].
    + destruct (HH rid rk cc' eq_refl G) as (n & Hn & Hh). rewrite Hn in HP. cbn [bind] in HP. rewrite Hh in HP. cbn [bind] in HP.
      rewrite (derive_abs' c h rk n1 n2) in HP.
      destruct (derive (akdf c h) (abs_env rk) n1 n2) as [[k|x]|x]; cbn [bind] in HP; try discriminate.
      injection HP as <- <-. cbn [envelope_for]. unfold protect_finish. cbn [snd fst o_rpcs].
      split; [|split; [discriminate|reflexivity]].
      match goal with |- abs (if gke_is_public_key ?E then _ else _) = _ =>
        change (c_pub (abs_env rk)) with (gke_is_public_key rk);
        change (gke_is_public_key E) with (gke_is_public_key rk) end.
      destruct (gke_is_public_key rk) eqn:Ep; [reflexivity|].
      rewrite abs_store_key. unfold abs_env at 1. cbn [gke_rkid gke_l0 gke_l1 gke_l2 gke_l1_key gke_l2_key]. unfold anokey.
      unfold gke_is_public_key at 1. cbn [gke_flags]. fold (gke_is_public_key rk). rewrite Ep. reflexivity.
    + injection HP as <- <-. rewrite Hnet, Hadc. unfold protect_finish. cbn [snd fst o_rpcs abs_env c_pub].
      split; [|split; [discriminate|intros X; exfalso; apply X; reflexivity]].
      destruct (gke_is_public_key e); [reflexivity|]. rewrite abs_store_key. reflexivity.
  - injection HP as <- <-. rewrite Hnet, Hadc. unfold protect_finish. cbn [snd fst o_rpcs abs_env c_pub].
    split; [|split; [discriminate|intros X; exfalso; apply X; reflexivity]].
    destruct (gke_is_public_key e); [reflexivity|]. rewrite abs_store_key. reflexivity.
Qed.
End RefineProtect.

(* ---------------------------------------------------------------- histories of concrete calls *)
Section Histories.
Context (c : Crypto) (h : hash).
(* the domain controller as a function of the GetKey request (target SD, optional root key id, L0, L1, L2), and the true
   root key of each root key id *)
Context (cdc : bytes -> option bytes -> Z -> Z -> Z -> envelope) (ctruth : bytes -> root_key).

Definition dns_of : list (pv obj) -> res pystr := fun _ => Ok [100; 99].
Definition getkey_of : list (pv obj) -> res envelope := fun args =>
  match args with
  | [_; VB sd; r; VI l0; VI l1; VI l2; _; _; _] =>
    match bytes_opt_of r with Some rko => Ok (cdc sd rko l0 l1 l2) | None => Raise TypeError end
  | _ => Raise TypeError
  end.
(* the abstract model's DC oracle *)
(* (a number that is not the code of an octet string never comes from a concrete call; the abstract theorems quantify over
   all numbers, so such a request is answered by a public envelope for exactly what was asked) *)
Definition coded (z : Z) : bool := code (dec z) =? z.
Definition adc_of : Z -> option Z -> Z -> Z -> Z -> cenv (K := res bytes) :=
  fun sd rko l0 l1 l2 =>
    if coded sd && match rko with Some rk => coded rk | None => true end
    then abs_env (cdc (dec sd) (option_map dec rko) l0 l1 l2)
    else {| c_rk := match rko with Some rk => rk | None => 0 end; c_l0 := l0; c_l1 := l1; c_l2 := l2; c_pub := true;
            c_k1 := anokey; c_k2 := anokey |}.
Lemma coded_code b : coded (code b) = true.
Proof. unfold coded. rewrite dec_code. apply Z.eqb_refl. Qed.

(* a DC that answers a request naming a root key and an explicit position for that position *)
Definition cdc_explicit : Prop :=
  forall sd rk l0 l1 l2, 0 <= l0 -> 0 <= l1 <= 31 -> 0 <= l2 <= 31 ->
  let e := cdc sd (Some rk) l0 l1 l2 in gke_rkid e = rk /\ gke_l0 e = l0 /\ gke_l1 e = l1 /\ gke_l2 e = l2.
Lemma adc_explicit : cdc_explicit -> dc_explicit_ok adc_of.
Proof.
  intros H sd rk l0 l1 l2 R0 R1 R2. unfold adc_of. destruct (coded sd && coded rk) eqn:E.
  - destruct (H (dec sd) (dec rk) l0 l1 l2 R0 R1 R2) as (A & B & C & D). cbn [option_map abs_env c_rk c_l0 c_l1 c_l2].
    rewrite A, B, C, D. unfold coded in E. repeat split; lia.
  - cbn. auto.
Qed.
Definition atruth (z : Z) : root_key := ctruth (dec z).

Notation astep := (Cache.step (akdf c h) (al1seed c) anokey adc_of).
Notation arun := (Cache.run_events (akdf c h) (al1seed c) anokey adc_of).

Lemma net_ok_of b sd server u p a : net_ok dns_of getkey_of adc_of b sd server u p a.
Proof.
  unfold net_ok, envelope_for, server_of, dns_of, getkey_of, adc_of.
  destruct server as [[|x s]|]; cbn [bind bytes_opt_of option_map]; eexists; (split; [reflexivity|rewrite !coded_code, !dec_code; reflexivity]).
Qed.

Inductive cevent :=
| CELoad (rkid : bytes) (d : root_key)                                  (* cache.load_key *)
| CEUnprotect (data : bytes) (server : option pystr) (u p a : pv obj).  (* ncrypt_unprotect_secret(data, .., cache=cache) *)

Definition cstep (cc : ccache) (ev : cevent) : ccache :=
  match ev with
  | CELoad r d => cc_load cc r d
  | CEUnprotect data server u p a => snd (unprotect_online c dns_of getkey_of cc data server u p a)
  end.
Definition crun (evs : list cevent) : ccache := fold_left cstep evs cc_empty.

Definition cev_ok (ev : cevent) : Prop :=
  match ev with
  | CELoad _ d => good_root d
  | CEUnprotect data _ _ _ _ => exists b sd, asks data b sd
  end.
(* loads are of the true root keys *)
Definition cev_true (ev : cevent) : Prop := match ev with CELoad r d => d = ctruth r | _ => True end.

(* the abstract events of a concrete call: a sync call is Start then the completion of its (only) pending RPC *)
Definition aevents (ev : cevent) : list (Cache.event (RK := root_key)) :=
  match ev with
  | CELoad r d => [Start (CLoad (code r) d)]
  | CEUnprotect data _ _ _ _ =>
    match blob_unpack data with
    | Ok b => match get_target_sd (b_sid b) with
              | Ok sd => let kid := b_key_identifier b in
                         [Start (CUnprotect (code sd) (code (kid_rkid kid)) (kid_l0 kid) (kid_l1 kid) (kid_l2 kid)); Finish 0]
              | Raise _ => []
              end
    | Raise _ => []
    end
  end.

Lemma sim evs : forall cc w, w_cache w = abs cc -> w_pending w = [] -> good_roots cc -> Forall cev_ok evs ->
  let w' := fold_left astep (flat_map aevents evs) w in
  w_cache w' = abs (fold_left cstep evs cc) /\ w_pending w' = [] /\ good_roots (fold_left cstep evs cc).
Proof.
  induction evs as [|ev evs IH]; intros cc w Hw Hp HG HF; [cbn; auto|].
  inversion HF as [|? ? Hev HF']; subst. cbn [flat_map fold_left]. rewrite fold_left_app.
  apply IH; [| | |exact HF']; destruct ev as [r d|data server u p a]; cbn [cev_ok] in Hev.
  - cbn [aevents fold_left Cache.step w_cache]. rewrite Hw. reflexivity.
  - destruct Hev as (b & sd & HA). assert (HA' := HA). destruct HA' as (Hb & Hsd & _).
    cbn [aevents]. rewrite Hb, Hsd. cbv zeta. cbn [fold_left]. rewrite sync_unprotect_as_events by exact Hp.
    cbn [w_cache cstep]. rewrite Hw.
    symmetry. exact (proj1 (unprotect_refines c h _ _ _ cc data server u p a b sd HA HG (net_ok_of b sd server u p a))).
  - cbn [aevents fold_left Cache.step w_pending]. exact Hp.
  - destruct Hev as (b & sd & Hb & Hsd & _). cbn [aevents]. rewrite Hb, Hsd. cbv zeta. cbn [fold_left].
    rewrite sync_unprotect_as_events by exact Hp. reflexivity.
  - cbn [cstep]. intros r0 d0. cbn [cc_load cc_roots cc_find_root]. destruct (beqb r r0); [intros E; injection E as <-; exact Hev|apply HG].
  - destruct Hev as (b & sd & HA). cbn [cstep].
    apply (good_roots_of_abs cc); [|exact HG].
    rewrite (proj1 (unprotect_refines c h _ _ _ cc data server u p a b sd HA HG (net_ok_of b sd server u p a))).
    apply roots_unprotect.
Qed.

(* (3) for whole histories: the abstract machine, run on the abstract events, is in the state abs of the concrete one *)
Theorem crun_refines evs : Forall cev_ok evs ->
  w_cache (arun (flat_map aevents evs)) = abs (crun evs) /\ w_pending (arun (flat_map aevents evs)) = [] /\ good_roots (crun evs).
Proof.
  intros HF. apply (sim evs cc_empty init_world); [reflexivity|reflexivity| |exact HF].
  intros r d Hr. discriminate.
Qed.

Lemma aevents_true evs : Forall cev_true evs -> Forall (ev_true (al1seed c) atruth) (flat_map aevents evs).
Proof.
  induction evs as [|ev evs IH]; intros HF; [constructor|]. inversion HF as [|? ? Hev HF']; subst.
  cbn [flat_map]. apply Forall_app. split; [|exact (IH HF')].
  destruct ev as [r d|data server u p a]; cbn [aevents cev_true] in *.
  - constructor; [|constructor]. cbn [ev_true]. subst d. unfold atruth.
    replace (ctruth r) with (ctruth (dec (code r))) by (rewrite dec_code; reflexivity). apply (agrees_truth (al1seed c) (fun z => ctruth (dec z))).
  - destruct (blob_unpack data) as [b|]; [|constructor]. destruct (get_target_sd (b_sid b)); [|constructor].
    repeat constructor.
Qed.

(* the L2 key the concrete code derives from an envelope is the abstract model's `derive` *)
Lemma derive_abs rk l1 l2 :
  compute_l2_key c h l1 l2 rk = match derive (akdf c h) (abs_env rk) l1 l2 with Ok r => r | Raise x => Raise x end.
Proof. unfold compute_l2_key, derive, akdf. cbn [abs_env c_rk c_l0 c_l1 c_l2 c_k1 c_k2]. rewrite dec_code. reflexivity. Qed.

Hypothesis dc_conf : dc_conforming_ok (akdf c h) (al1seed c) adc_of atruth.

(* C10_no_repeat_rpc, concretely: once a position of (root key id, target SD, L0) is served by the concrete cache, then after
   any further valid history every unprotect of a blob at or before that position is the OFFLINE function - for all network
   oracles, i.e. the network is not consulted *)
Theorem concrete_no_repeat_rpc evs1 evs2 rkid sd l0 l1 l2 l1' l2' :
  Forall cev_ok (evs1 ++ evs2) -> Forall cev_true (evs1 ++ evs2) ->
  c_served (crun evs1) rkid sd l0 l1 l2 -> l1' < l1 \/ (l1' = l1 /\ l2' <= l2) ->
  let cc := crun (evs1 ++ evs2) in
  c_served cc rkid sd l0 l1' l2' /\
  forall data b, asks data b sd ->
    kid_rkid (b_key_identifier b) = rkid -> kid_l0 (b_key_identifier b) = l0 ->
    kid_l1 (b_key_identifier b) = l1' -> kid_l2 (b_key_identifier b) = l2' ->
    forall dns getkey server u p a, unprotect_online c dns getkey cc data server u p a = unprotect_offline c cc data.
Proof.
  intros HF HT Hs Hle cc.
  destruct (crun_refines _ HF) as (A12 & _ & G12).
  destruct (crun_refines evs1 (proj1 (proj1 (Forall_app _ _ _) HF))) as (A1 & _ & _).
  apply c_served_abs in Hs. rewrite <- A1 in Hs.
  pose proof (aevents_true _ HT) as HT'. rewrite flat_map_app in HT', A12.
  destruct (no_repeat_rpc (akdf c h) (al1seed c) anokey adc_of atruth dc_conf _ _ _ _ _ _ _ _ _ HT' Hs Hle) as (S & _).
  rewrite A12 in S. apply c_served_abs in S. split; [exact S|].
  intros data b HA E1 E2 E3 E4 dns getkey server u p a.
  apply (served_no_rpc c cc data b sd l1' l2' HA G12 E3 E4). rewrite E1, E2. exact S.
Qed.

Hypothesis dc_expl : dc_explicit_ok adc_of.

(* C10_transparent, concretely: in every valid history, a completed unprotect call decrypts with an envelope (cached, or the
   DC's reply) that is for the blob's L0 and whose L2 key at the blob's position is the MS-GKDI chain key of (root key id,
   target SD, L0, L1, L2) under the true root key - and that IS what get_kek derives the KEK from, PROVIDED the envelope's own
   KDF parameters name the hash h (envelope_hash rk = Ok h): the abstraction abs_env forgets the KDF parameters, the abstract kdf
   has one hash, and without this hypothesis the statement would speak of a key the call does not derive
   (C10RefineEx.rx_wrong_hash: the rx instance with h := SHA256 against an envelope naming SHA512). *)
Theorem concrete_transparent evs data b sd server u p a rk :
  Forall cev_ok evs -> Forall cev_true evs ->
  asks data b sd ->
  let kid := b_key_identifier b in
  0 <= kid_l1 kid <= 31 -> 0 <= kid_l2 kid <= 31 ->
  unprotect_envelope c dns_of getkey_of (crun evs) data server u p a = Ok rk -> gke_is_public_key rk = false ->
  envelope_hash rk = Ok h ->      (* the hash the envelope's KDF parameters name is the h of the abstract kdf: abs_env forgets them *)
  fst (unprotect_online c dns_of getkey_of (crun evs) data server u p a) = decrypt_blob c b rk /\
  gke_l0 rk = kid_l0 kid /\
  compute_l2_key c h (kid_l1 kid) (kid_l2 kid) rk
  = key_at (akdf c h) (al1seed c) atruth (code (kid_rkid kid)) (code sd) (kid_l0 kid) (kid_l1 kid) (kid_l2 kid) /\
  get_kek c rk kid
  = (let* l2_key := key_at (akdf c h) (al1seed c) atruth (code (kid_rkid kid)) (code sd) (kid_l0 kid) (kid_l1 kid) (kid_l2 kid) in
     if kid_is_public_key kid
     then compute_kek_from_public_key c h l2_key (gke_secret_alg rk) (gke_secret_params rk) (kid_key_info kid) (k_ceil_priv_get (gke_priv_len rk))
     else Ok (kdf c h l2_key c_KDS_SERVICE_LABEL (kid_key_info kid) k_kek_len_nonce_get)).
Proof.
  intros HF HT HA kid R1 R2 HE Hpub Hhash. subst kid.
  enough (CORE : fst (unprotect_online c dns_of getkey_of (crun evs) data server u p a) = decrypt_blob c b rk /\
            gke_l0 rk = kid_l0 (b_key_identifier b) /\
            compute_l2_key c h (kid_l1 (b_key_identifier b)) (kid_l2 (b_key_identifier b)) rk
            = key_at (akdf c h) (al1seed c) atruth (code (kid_rkid (b_key_identifier b))) (code sd) (kid_l0 (b_key_identifier b))
                (kid_l1 (b_key_identifier b)) (kid_l2 (b_key_identifier b))).
  { destruct CORE as (C1 & C2 & C3). split; [exact C1|]. split; [exact C2|]. split; [exact C3|].
    unfold get_kek. rewrite Hpub. unfold k_getkek_l0_mismatch. rewrite C2, Z.eqb_refl. cbn [negb].
    unfold envelope_hash in Hhash. unfold envelope_hash. rewrite Hhash. cbn [bind]. rewrite C3. reflexivity. }
  destruct (crun_refines _ HF) as (A & _ & HG).
  pose proof (Inv_reachable (akdf c h) (al1seed c) anokey adc_of atruth dc_conf _ (aevents_true _ HT)) as HI. rewrite A in HI.
  assert (HA' := HA). destruct HA' as (Hb & Hsd & H0).
  destruct (unprotect_transparent (akdf c h) (al1seed c) anokey adc_of atruth dc_expl dc_conf _ (code sd)
              (code (kid_rkid (b_key_identifier b))) _ _ _ HI (proj1 H0) R1 R2) as (_ & _ & HK & _).
  destruct (abs_get_key c (crun evs) sd (kid_rkid (b_key_identifier b)) _ (kid_l1 (b_key_identifier b)) (kid_l2 (b_key_identifier b)) H0 HG)
    as (o & cc1 & G & AG).
  destruct (net_ok_of b sd server u p a) as (e & Hnet & Hadc).
  unfold unprotect_envelope in HE. rewrite Hb in HE. cbn [bind] in HE. rewrite Hsd in HE. cbn [bind] in HE. cbv zeta in HE. rewrite G in HE. cbn [bind] in HE.
  unfold Cache.unprotect in HK. rewrite AG in HK.
  unfold unprotect_online. rewrite Hb, Hsd. cbv zeta. rewrite G.
  assert (FIN : forall n (ca : cache (K := res bytes) (RK := root_key)), (o_pub (fst (unprotect_finish (akdf c h) ca (code sd) (kid_l0 (b_key_identifier b)) (kid_l1 (b_key_identifier b))
                               (kid_l2 (b_key_identifier b)) (abs_env rk) n)) = false ->
                       o_key (fst (unprotect_finish (akdf c h) ca (code sd) (kid_l0 (b_key_identifier b)) (kid_l1 (b_key_identifier b))
                               (kid_l2 (b_key_identifier b)) (abs_env rk) n)) = Ok (key_at (akdf c h) (al1seed c) atruth (code (kid_rkid (b_key_identifier b))) (code sd)
                                 (kid_l0 (b_key_identifier b)) (kid_l1 (b_key_identifier b)) (kid_l2 (b_key_identifier b)))) ->
                   gke_l0 rk = kid_l0 (b_key_identifier b) /\
                   compute_l2_key c h (kid_l1 (b_key_identifier b)) (kid_l2 (b_key_identifier b)) rk
                   = key_at (akdf c h) (al1seed c) atruth (code (kid_rkid (b_key_identifier b))) (code sd)
                       (kid_l0 (b_key_identifier b)) (kid_l1 (b_key_identifier b)) (kid_l2 (b_key_identifier b))).
  { intros n ca HK'. unfold unprotect_finish in HK'. cbn [fst o_pub o_key abs_env c_pub c_l0] in HK'. rewrite Hpub in HK'.
    specialize (HK' eq_refl). cbn [negb] in HK'.
    destruct (gke_l0 rk =? kid_l0 (b_key_identifier b)) eqn:E0; cbn [negb] in HK'; [|discriminate].
    split; [lia|]. rewrite derive_abs. change (abs_env rk) with
      {| c_rk := code (gke_rkid rk); c_l0 := gke_l0 rk; c_l1 := gke_l1 rk; c_l2 := gke_l2 rk; c_pub := gke_is_public_key rk;
         c_k1 := Ok (gke_l1_key rk); c_k2 := Ok (gke_l2_key rk) |} in HK'. unfold abs_env. rewrite HK'. reflexivity. }
  destruct o as [rk0|]; cbn [option_map] in HK.
  - cbn [envelope_for] in HE. injection HE as ->. cbn [envelope_for]. split; [reflexivity|]. exact (FIN _ _ HK).
  - rewrite Hnet in HE. injection HE as ->. rewrite Hnet. split; [reflexivity|]. rewrite Hadc in HK. exact (FIN _ _ HK).
Qed.
End Histories.
