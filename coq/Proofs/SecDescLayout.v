(* C08, byte side: the independent MS-DTYP parser of Spec/Dtyp.v recovers what the model wrote. *)
From V Require Import Prelude.Base Prelude.PyInt Prelude.PySlice gen.K_sd Model.Types Model.SecDesc Spec.Dtyp.
From V Require Import Proofs.SecDescK Proofs.SecDescStr.

Definition dsid_of (s : sid) : dsid := {| d_rev := sid_rev s; d_auth := sid_auth s; d_subs := sid_subs s |}.

(* ---- little lemmas on le / be / lists ---------------------------------------------------------------------- *)
Lemma le_app n : forall m z, le (n + m) z = le n z ++ le m (z / P n).
Proof.
  induction n as [|n IH]; intros m z.
  - cbn [Nat.add le app]. rewrite P_0. now rewrite Z.div_1_r.
  - cbn [Nat.add le app]. rewrite IH. f_equal. f_equal. rewrite P_S. pose proof (P_pos n).
    rewrite Z.div_div by lia. reflexivity.
Qed.
Lemma P_6 : P 6 = 2 ^ 48. Proof. rewrite !P_S, P_0. reflexivity. Qed.
Lemma P_4' : P 4 = 2 ^ 32. Proof. rewrite P_4. reflexivity. Qed.

Lemma be8_skip2 a : skipn 2 (be 8 a) = be 6 a.
Proof.
  unfold be. change 8%nat with (6 + 2)%nat. rewrite le_app, rev_app_distr.
  assert (length (rev (le 2 (a / P 6))) = 2%nat) by (rewrite rev_length; apply le_length).
  destruct (rev (le 2 (a / P 6))) as [|x [|y [|? ?]]]; try discriminate. reflexivity.
Qed.

Lemma sid_bytes_eq s : sid_bytes s = sid_rev s :: len (sid_subs s) :: be 6 (sid_auth s) ++ concat (map (le 4) (sid_subs s)).
Proof.
  unfold sid_bytes, set01.
  change (int_bytes k_sid_auth_order k_sid_auth_width (sid_auth s)) with (be 8 (sid_auth s)).
  change (int_bytes k_sid_sub_order k_sid_sub_width) with (le 4).
  rewrite be8_skip2. reflexivity.
Qed.

Lemma len_concat_le4 l : len (concat (map (le 4) l)) = 4 * len l.
Proof.
  induction l as [|x l IH]; [reflexivity|]. cbn [map concat]. rewrite len_app, len_le, len_cons, IH. lia.
Qed.
Lemma len_sid_bytes s : len (sid_bytes s) = 8 + 4 * len (sid_subs s).
Proof. rewrite sid_bytes_eq, !len_cons, len_app, len_be, len_concat_le4. lia. Qed.

Lemma ace_bytes_eq s m : ace_bytes s m = 0 :: 0 :: le 2 (8 + len (sid_bytes s)) ++ le 4 m ++ sid_bytes s.
Proof.
  unfold ace_bytes. change (int_bytes k_ace_mask_order k_ace_mask_width m) with (le 4 m).
  cbn [concat app]. now rewrite app_nil_r.
Qed.
Lemma len_ace_bytes s m : len (ace_bytes s m) = 16 + 4 * len (sid_subs s).
Proof. rewrite ace_bytes_eq, !len_cons, !len_app, !len_le, len_sid_bytes. lia. Qed.

Lemma acl_bytes_eq aces : acl_bytes aces = 2 :: 0 :: le 2 (8 + len (concat aces)) ++ le 2 (len aces) ++ 0 :: 0 :: concat aces.
Proof. unfold acl_bytes. cbn [concat app]. now rewrite app_nil_r. Qed.
Lemma len_acl_bytes aces : len (acl_bytes aces) = 8 + len (concat aces).
Proof. rewrite acl_bytes_eq, !len_cons, !len_app, !len_le, !len_cons. lia. Qed.

(* ---- the primitive readers on what the writers produce ------------------------------------------------------------ *)
Lemma take_app (a b : bytes) n : n = len a -> take n (a ++ b) = Some (a, b).
Proof.
  intros ->. unfold take. rewrite len_app. pose proof (len_nonneg a). pose proof (len_nonneg b).
  destruct ((0 <=? len a) && (len a <=? len a + len b)) eqn:E; [|lia].
  unfold len. rewrite Nat2Z.id. f_equal. f_equal.
  - rewrite firstn_app, firstn_all, Nat.sub_diag. cbn [firstn]. apply app_nil_r.
  - rewrite skipn_app, skipn_all, Nat.sub_diag. reflexivity.
Qed.
Lemma u_le_app w z rest n : n = Z.of_nat w -> 0 <= z < P w -> u_le n (le w z ++ rest) = Some (z, rest).
Proof.
  intros -> Hz. unfold u_le. rewrite take_app by (now rewrite len_le). cbn [obind]. now rewrite le_val_le.
Qed.
Lemma u_be_app w z rest n : n = Z.of_nat w -> 0 <= z < P w -> u_be n (be w z ++ rest) = Some (z, rest).
Proof.
  intros -> Hz. unfold u_be. rewrite take_app by (now rewrite len_be). cbn [obind]. now rewrite be_val_be.
Qed.

(* ---- 2.4.2.2 SID ------------------------------------------------------------------------------------------------------ *)
Lemma parse_subauths_app subs rest : forallb (fun x => (0 <=? x) && (x <? 2 ^ 32)) subs = true ->
  parse_subauths (length subs) (concat (map (le 4) subs) ++ rest) = Some (subs, rest).
Proof.
  induction subs as [|x subs IH]; intros H; [reflexivity|].
  cbn [forallb] in H. apply andb_true_iff in H as [Hx Hs].
  cbn [length parse_subauths map concat]. rewrite <- app_assoc.
  rewrite (u_le_app 4 x) by (rewrite ?P_4; lia || reflexivity). cbn [obind].
  rewrite (IH Hs). reflexivity.
Qed.

Lemma parse_sid_app s rest : wf_sid s = true -> parse_sid (sid_bytes s ++ rest) = Some (dsid_of s, rest).
Proof.
  intros H. destruct (wf_sid_facts s H) as (Hr & Ha & Hn & Hs).
  rewrite sid_bytes_eq. cbn [app]. unfold parse_sid. cbn [u8 obind].
  unfold len at 1. destruct (15 <? Z.of_nat (length (sid_subs s))) eqn:E; [lia|].
  rewrite <- app_assoc. rewrite (u_be_app 6 (sid_auth s)) by (rewrite ?P_6; lia || reflexivity). cbn [obind].
  unfold len. rewrite Nat2Z.id. rewrite (parse_subauths_app _ rest Hs). reflexivity.
Qed.

(* ---- 2.4.4 ACE ------------------------------------------------------------------------------------------------------ *)
Lemma parse_ace_app s m rest : wf_sid s = true -> 0 <= m < 2 ^ 32 ->
  parse_ace (ace_bytes s m ++ rest) = Some ({| a_type := 0; a_flags := 0; a_mask := m; a_sid := dsid_of s |}, rest).
Proof.
  intros H Hm. destruct (wf_sid_facts s H) as (Hr & Ha & Hn & Hs).
  rewrite ace_bytes_eq. cbn [app]. unfold parse_ace. cbn [u8 obind].
  rewrite <- !app_assoc.
  pose proof (len_sid_bytes s) as Hl. unfold len in Hl at 2.
  rewrite (u_le_app 2 (8 + len (sid_bytes s))) by (rewrite ?P_2; lia || reflexivity). cbn [obind].
  cbn [Z.eqb orb negb].
  destruct ((8 + len (sid_bytes s)) mod 4 =? 0) eqn:E; [|lia]. cbn [negb].
  rewrite app_assoc. rewrite take_app by (rewrite len_app, len_le; lia). cbn [obind].
  rewrite (u_le_app 4 m) by (rewrite ?P_4; lia || reflexivity). cbn [obind].
  rewrite <- (app_nil_r (sid_bytes s)). rewrite (parse_sid_app s [] H). reflexivity.
Qed.

Definition ace_of (p : sid * Z) : dace := {| a_type := 0; a_flags := 0; a_mask := snd p; a_sid := dsid_of (fst p) |}.
Definition ace_ok (p : sid * Z) : bool := wf_sid (fst p) && (0 <=? snd p) && (snd p <? 2 ^ 32).

Lemma parse_aces_all l : forallb ace_ok l = true ->
  parse_aces (length l) (concat (map (fun p => ace_bytes (fst p) (snd p)) l)) = Some (map ace_of l).
Proof.
  induction l as [|[s m] l IH]; intros H; [reflexivity|].
  cbn [forallb] in H. apply andb_true_iff in H as [Hp Hl]. unfold ace_ok in Hp. cbn [fst snd] in Hp.
  rewrite !andb_true_iff in Hp. destruct Hp as [[Hw H0] H1].
  cbn [length parse_aces map concat fst snd].
  rewrite parse_ace_app by (assumption || lia). cbn [obind]. rewrite (IH Hl). reflexivity.
Qed.

(* ---- 2.4.5 ACL ------------------------------------------------------------------------------------------------------ *)
Lemma len_aces l : forallb ace_ok l = true -> (length l <= 3000)%nat ->
  len (concat (map (fun p => ace_bytes (fst p) (snd p)) l)) <= 76 * len l /\
  len (concat (map (fun p => ace_bytes (fst p) (snd p)) l)) mod 4 = 0.
Proof.
  induction l as [|[s m] l IH]; intros H Hn; [cbn; lia|].
  cbn [forallb] in H. apply andb_true_iff in H as [Hp Hl]. unfold ace_ok in Hp. cbn [fst snd] in Hp.
  rewrite !andb_true_iff in Hp. destruct Hp as [[Hw H0] H1].
  cbn [length] in Hn. destruct (IH Hl ltac:(lia)) as [I1 I2].
  cbn [map concat fst snd]. rewrite len_app, len_cons, len_ace_bytes.
  destruct (wf_sid_facts s Hw) as (_ & _ & Hc & _). unfold len in *. lia.
Qed.

Lemma parse_acl_app l rest : forallb ace_ok l = true -> (length l <= 800)%nat ->
  parse_acl (acl_bytes (map (fun p => ace_bytes (fst p) (snd p)) l) ++ rest) = Some ({| l_rev := 2; l_aces := map ace_of l |}, rest).
Proof.
  intros H Hn. destruct (len_aces l H ltac:(lia)) as [L1 L2].
  set (aces := map (fun p => ace_bytes (fst p) (snd p)) l) in *.
  rewrite acl_bytes_eq. cbn [app]. unfold parse_acl. cbn [u8 obind].
  rewrite <- !app_assoc.
  assert (Hlen : len aces = len l) by (unfold aces, len; now rewrite map_length).
  pose proof (len_nonneg (concat aces)). unfold len in L1 at 2.
  rewrite (u_le_app 2 (8 + len (concat aces))) by (rewrite ?P_2; lia || reflexivity). cbn [obind].
  rewrite (u_le_app 2 (len aces)) by (rewrite ?P_2; unfold len in *; lia || reflexivity). cbn [obind].
  cbn [app]. change (0 :: 0 :: concat aces ++ rest) with (le 2 0 ++ concat aces ++ rest).
  rewrite (u_le_app 2 0) by (rewrite ?P_2; lia || reflexivity). cbn [obind].
  cbn [Z.eqb orb andb negb].
  destruct ((8 + len (concat aces)) mod 4 =? 0) eqn:E; [|lia]. cbn [negb].
  rewrite take_app by lia. cbn [obind].
  rewrite Hlen. unfold len at 1. rewrite Nat2Z.id. unfold aces. rewrite (parse_aces_all l H). reflexivity.
Qed.

(* ---- 2.4.6 SECURITY_DESCRIPTOR --------------------------------------------------------------------------------------- *)
Lemma component_app {A} (p : bytes -> option (A * bytes)) pre x rest v off :
  off = len pre -> 20 <= off -> p (x ++ rest) = Some (v, rest) ->
  component (pre ++ x ++ rest) off p = Some (Some (v, (off, len x))).
Proof.
  intros -> H20 Hp. unfold component. destruct (len pre =? 0) eqn:E; [lia|].
  rewrite !len_app. pose proof (len_nonneg x). pose proof (len_nonneg rest).
  destruct ((20 <=? len pre) && (len pre <=? len pre + (len x + len rest))) eqn:E2; [|lia]. cbn [negb].
  assert (Hsk : skipn (Z.to_nat (len pre)) (pre ++ x ++ rest) = x ++ rest)
    by (unfold len; rewrite Nat2Z.id, skipn_app, skipn_all, Nat.sub_diag; reflexivity).
  cbv zeta. rewrite Hsk, Hp. cbn [obind]. rewrite len_app. do 4 f_equal. lia.
Qed.
Lemma component_absent {A} (p : bytes -> option (A * bytes)) buf : component buf 0 p = Some None.
Proof. reflexivity. Qed.

(* the constants of get_target_sd as structured SIDs *)
Definition sid_system : sid := {| sid_rev := 1; sid_auth := 5; sid_subs := [18] |}.
Definition sid_everyone : sid := {| sid_rev := 1; sid_auth := 1; sid_subs := [0] |}.
Lemma const_owner : const_sid k_tsd_owner = sid_system. Proof. reflexivity. Qed.
Lemma const_group : const_sid k_tsd_group = sid_system. Proof. reflexivity. Qed.
Lemma const_everyone : const_sid k_tsd_everyone = sid_everyone. Proof. reflexivity. Qed.
Lemma parse_owner : sid_parse k_tsd_owner = Ok sid_system. Proof. reflexivity. Qed.
Lemma parse_group : sid_parse k_tsd_group = Ok sid_system. Proof. reflexivity. Qed.
Lemma parse_everyone : sid_parse k_tsd_everyone = Ok sid_everyone. Proof. reflexivity. Qed.

Definition sd_header (control off_owner off_group off_sacl off_dacl : Z) : bytes :=
  1 :: 0 :: le 2 control ++ le 4 off_owner ++ le 4 off_group ++ le 4 off_sacl ++ le 4 off_dacl.
Lemma len_sd_header c a b d e : len (sd_header c a b d e) = 20.
Proof. unfold sd_header. rewrite !len_cons, !len_app, !len_le. reflexivity. Qed.

(* the general shape of sd_bytes when only a DACL is given *)
Lemma sd_bytes_dacl_only owner group a aces :
  sd_bytes owner group [] (a :: aces) =
    sd_header 32772 (20 + len (acl_bytes (a :: aces))) (20 + len (acl_bytes (a :: aces)) + len (sid_bytes owner)) 0 20
    ++ acl_bytes (a :: aces) ++ sid_bytes owner ++ sid_bytes group.
Proof.
  unfold sd_bytes, sd_header. cbn [concat app]. rewrite app_nil_r, <- !app_assoc. reflexivity.
Qed.

Lemma wfb_sid_bytes s : wf_sid s = true -> wfb (sid_bytes s) = true.
Proof.
  intros H. destruct (wf_sid_facts s H) as (Hr & Ha & Hn & Hs). rewrite sid_bytes_eq.
  apply wfb_cons. split; [lia|]. apply wfb_cons. split; [unfold len; lia|].
  rewrite wfb_app, wfb_be. apply wfb_concat. apply forallb_forall. intros b Hb.
  apply in_map_iff in Hb as (x & <- & _). apply wfb_le.
Qed.
Lemma wfb_ace_bytes s m : wf_sid s = true -> wfb (ace_bytes s m) = true.
Proof.
  intros H. rewrite ace_bytes_eq. apply wfb_cons. split; [lia|]. apply wfb_cons. split; [lia|].
  now rewrite !wfb_app, !wfb_le, wfb_sid_bytes.
Qed.
Lemma wfb_acl_bytes aces : forallb wfb aces = true -> wfb (acl_bytes aces) = true.
Proof.
  intros H. rewrite acl_bytes_eq. apply wfb_cons. split; [lia|]. apply wfb_cons. split; [lia|].
  rewrite !wfb_app, !wfb_le. cbn [andb]. apply wfb_cons. split; [lia|]. apply wfb_cons. split; [lia|].
  now apply wfb_concat.
Qed.
Lemma wfb_sd_header c a b d e : wfb (sd_header c a b d e) = true.
Proof. unfold sd_header. apply wfb_cons. split; [lia|]. apply wfb_cons. split; [lia|]. now rewrite !wfb_app, !wfb_le. Qed.

Lemma bits_32772 : has_bit 32772 SE_SELF_RELATIVE = true /\ has_bit 32772 SE_SACL_PRESENT = false /\ has_bit 32772 SE_DACL_PRESENT = true.
Proof. repeat split; reflexivity. Qed.

Lemma wf_system : wf_sid sid_system = true. Proof. reflexivity. Qed.
Lemma wf_everyone : wf_sid sid_everyone = true. Proof. reflexivity. Qed.

Definition expected_target (s : sid) : sd_struct :=
  {| sd_control := 32768 + 4;
     sd_owner := Some (dsid_of sid_system); sd_group := Some (dsid_of sid_system);
     sd_sacl := None;
     sd_dacl := Some {| l_rev := 2; l_aces := [ {| a_type := 0; a_flags := 0; a_mask := 3; a_sid := dsid_of s |};
                                               {| a_type := 0; a_flags := 0; a_mask := 2; a_sid := dsid_of sid_everyone |} ] |};
     sd_gkdi_order := true |}.

Lemma layout s : wf_sid s = true -> parse_sd (target_sd s) = Some (expected_target s).
Proof.
  intros H. unfold target_sd. rewrite const_owner, const_group, const_everyone.
  change k_tsd_mask_target with 3. change k_tsd_mask_everyone with 2.
  rewrite sd_bytes_dacl_only.
  set (l := [(s, 3); (sid_everyone, 2)]).
  change [ace_bytes s 3; ace_bytes sid_everyone 2] with (map (fun p => ace_bytes (fst p) (snd p)) l).
  assert (Hl : forallb ace_ok l = true) by (unfold l, ace_ok; cbn [forallb fst snd]; rewrite H; reflexivity).
  set (D := acl_bytes (map (fun p => ace_bytes (fst p) (snd p)) l)).
  set (O := sid_bytes sid_system).
  assert (HD : parse_acl (D ++ O ++ O) = Some ({| l_rev := 2; l_aces := map ace_of l |}, O ++ O))
    by (apply parse_acl_app; [exact Hl|cbn; lia]).
  assert (HO1 : parse_sid (O ++ O) = Some (dsid_of sid_system, O)) by (apply parse_sid_app; reflexivity).
  assert (HO2 : parse_sid (O ++ []) = Some (dsid_of sid_system, [])) by (apply parse_sid_app; reflexivity).
  assert (LO : len O = 12) by reflexivity.
  assert (LD : 0 <= len D) by apply len_nonneg.
  set (hdr := sd_header 32772 (20 + len D) (20 + len D + len O) 0 20).
  assert (Lh : len hdr = 20) by apply len_sd_header.
  assert (Hw : wfb (hdr ++ D ++ O ++ O) = true).
  { rewrite !wfb_app. unfold hdr. rewrite wfb_sd_header. unfold D, O.
    rewrite (wfb_sid_bytes sid_system) by reflexivity. rewrite wfb_acl_bytes; [reflexivity|].
    unfold l. cbn [map forallb fst snd]. rewrite (wfb_ace_bytes s 3 H), (wfb_ace_bytes sid_everyone 2) by reflexivity. reflexivity. }
  assert (LDub : len D < 200).
  { unfold D. rewrite len_acl_bytes. destruct (len_aces l Hl ltac:(cbn; lia)) as [B _]. change (len l) with 2 in B. lia. }
  unfold parse_sd. rewrite Hw. cbn [negb].
  unfold hdr at 1, sd_header. cbn [app u8 obind]. rewrite <- !app_assoc.
  rewrite (u_le_app 2 32772) by (rewrite ?P_2; lia || reflexivity). cbn [obind].
  rewrite (u_le_app 4 (20 + len D)) by (rewrite ?P_4; lia || reflexivity). cbn [obind].
  rewrite (u_le_app 4 (20 + len D + len O)) by (rewrite ?P_4; lia || reflexivity). cbn [obind].
  rewrite (u_le_app 4 0) by (rewrite ?P_4; lia || reflexivity). cbn [obind].
  rewrite (u_le_app 4 20) by (rewrite ?P_4; lia || reflexivity). cbn [obind].
  cbn [Z.eqb negb Pos.eqb].
  destruct bits_32772 as (B1 & B2 & B3). rewrite B1, B2, B3. cbn [negb Bool.eqb].
  rewrite component_absent. cbn [obind].
  rewrite (component_app parse_acl hdr D (O ++ O) _ 20 (eq_sym Lh) ltac:(lia) HD). cbn [obind].
  replace (hdr ++ D ++ O ++ O) with ((hdr ++ D) ++ O ++ O) by (now rewrite <- app_assoc).
  rewrite (component_app parse_sid (hdr ++ D) O O _ (20 + len D) ltac:(rewrite len_app; lia) ltac:(lia) HO1). cbn [obind].
  replace ((hdr ++ D) ++ O ++ O) with ((hdr ++ D ++ O) ++ O ++ []) by (now rewrite app_nil_r, <- !app_assoc).
  rewrite (component_app parse_sid (hdr ++ D ++ O) O [] _ (20 + len D + len O) ltac:(rewrite !len_app; lia) ltac:(lia) HO2). cbn [obind].
  cbn [reg_of app val_of pairwise_disjoint forallb disjoint fst snd total_size fold_right contiguous_from].
  rewrite !len_app. rewrite ?Lh, ?LO. change (len (@nil Z)) with 0. unfold disjoint. cbn [fst snd].
  match goal with |- (if negb ?c then _ else _) = _ => assert (E1 : c = true) by lia; rewrite E1 end. cbn [negb].
  match goal with |- (if negb ?c then _ else _) = _ => assert (E2 : c = true) by lia; rewrite E2 end. cbn [negb].
  unfold expected_target. f_equal. f_equal. lia.
Qed.
