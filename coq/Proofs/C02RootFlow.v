(* C02: what the SOURCE computes (compute_l1_key / compute_l2_key run by the interpreter, Proofs/Flow_gkdi_keys_chain.v)
   is the specification's key hierarchy from the root key bytes (Spec/GkdiRootSpec.v, Proofs/C02Root.v). *)
From V Require Import Prelude.Base Prelude.PyInt Prelude.PyAst Prelude.PyWorld gen.F_gkdi Spec.GkdiSpec Spec.GkdiRootSpec.
From V Require Import Model.Crypto Model.Types Model.Chain Proofs.C02 Proofs.C02Root Flow.World_gkdi_keys Proofs.Flow_gkdi_keys_chain.

Lemma flow_root_l1 c u fuel sd g l0 rk h :
  run (W c u) fuel k_flow_compute_l1_key [VB sd; VO (OUuid g); VI l0; VB rk; VO (OHash h)]
  = (let* b := res_of (L1_31 (kdf c) h rk sd g l0) in Ok (VB b)).
Proof. rewrite flow_compute_l1_key, root_l1. reflexivity. Qed.

Lemma flow_root_chain c u fuel h root_key target_sd e l1 l2 :
  conforming (kdfK c h (gke_rkid e) (gke_l0 e)) (compute_l1_key c h target_sd (gke_rkid e) (gke_l0 e) root_key) (env_of e) ->
  0 <= l1 <= 31 -> 0 <= l2 <= 31 -> covers (env_of e) l1 l2 -> (L2_FUEL < fuel)%nat ->
  run (W c u) fuel k_flow_compute_l2_key [VO (OHash h); VI l1; VI l2; VO (OEnv e)]
  = (let* b := res_of (L2 (kdf c) h root_key target_sd (gke_rkid e) (gke_l0 e) l1 l2) in Ok (VB b)).
Proof.
  intros Hc H1 H2 Hcov Hf. rewrite (flow_compute_l2_key_chain c u fuel h _ e l1 l2 Hc H1 H2 Hcov Hf), K2_spec. reflexivity.
Qed.
