(* Tie theorems for the floors and the ept_map REPLY side of _epm.py (Floor and its registered subclasses,
   EptMapResult.pack / unpack) against Model/Epm.v; listed under C12 and C18.  Conventions as in Proofs/Flow_rpc_pdu.v /
   Flow_rpc_bind_ctx.v.  A floor object is the model's `floor` record: kind (typed fields of a known class), protocol and
   the raw lhs / rhs caches; `self.protocol` of a known class is its class default (floor_protocol).
   EptMapResult.unpack has two nested `for _ in range(count)` loops (towers, floors) with the count guard in front;
   the tie holds whenever the model does not run out of fuel (C18_linear: fuel > length suffices).
   EptMapResult.pack is tied under the field ranges ept_map_result_ranges (implied by wf_ept_map_result). *)
From V Require Import Prelude.Base Prelude.PyInt Prelude.PySlice Prelude.PyStr Prelude.PyAst Prelude.PyWorld gen.F_rpc.
From V Require Import Model.Pdu Model.Request Model.RpcLoop Model.Bind Model.Verification Model.Epm Flow.World_rpc Proofs.Flow_rpc_lib.

(* in this file a floor's ranges are computed through: the kind is known in every lemma *)
Local Arguments floor_ranges f /.
Local Arguments floor_generic_ranges protocol lhs rhs /.
From V Require Import Proofs.RpcTotal.
Local Open Scope string_scope.
Local Open Scope list_scope.
Local Open Scope Z_scope.

(* Floor.pack, the base class method: packs the raw fields (protocol, lhs, rhs) of any floor object *)
Lemma flow_floor_pack mf fuel f :
  run (W mf) fuel k_flow_floor_pack [VO (OFloor f)] =
  chk (floor_generic_ranges (floor_protocol f) (fl_lhs f) (fl_rhs f))
      (floor_generic_pack (floor_protocol f) (fl_lhs f) (fl_rhs f)).
Proof. unfold floor_generic_pack, floor_generic_ranges, chk. destruct f as [k p l r]. tie. Qed.

Lemma flow_floor_pack_generic mf fuel f : fl_kind f = FK_Generic ->
  run (W mf) fuel k_flow_floor_pack [VO (OFloor f)] = chk (floor_ranges f) (floor_pack f).
Proof. intros Hk. rewrite flow_floor_pack. unfold floor_ranges, floor_pack, floor_protocol, floor_lhs, floor_rhs. rewrite Hk. reflexivity. Qed.

Lemma flow_floor_unpack mf fuel data :
  run (W mf) fuel k_flow_floor_unpack [VO (OCls CFloor); VB data] = (let* f := floor_unpack data in Ok (VO (OFloor f))).
Proof.
  unfold floor_unpack, k_floor_offset. tie.
  all: try match goal with H : (_ =? _) = true |- _ => apply Z.eqb_eq in H; rewrite H; reflexivity end.
Qed.

Lemma flow_tcpfloor_pack mf fuel f port : fl_kind f = FK_TCP port ->
  run (W mf) fuel k_flow_tcpfloor_pack [VO (OFloor f)] = chk (floor_ranges f) (floor_pack f).
Proof. destruct f as [k p l r]. cbn [fl_kind]. intros ->. unfold chk. tie. Qed.
Lemma flow_tcpfloor_unpack mf fuel lhs rhs :
  run (W mf) fuel k_flow_tcpfloor_unpack [VO (OCls CTCPFloor); VB lhs; VB rhs] = Ok (VO (OFloor (known_floor (FK_TCP (be_val rhs))))).
Proof. reflexivity. Qed.

Lemma flow_ipfloor_pack mf fuel f addr : fl_kind f = FK_IP addr ->
  run (W mf) fuel k_flow_ipfloor_pack [VO (OFloor f)] = chk (floor_ranges f) (floor_pack f).
Proof. destruct f as [k p l r]. cbn [fl_kind]. intros ->. unfold chk. tie. Qed.
Lemma flow_ipfloor_unpack mf fuel lhs rhs :
  run (W mf) fuel k_flow_ipfloor_unpack [VO (OCls CIPFloor); VB lhs; VB rhs] = Ok (VO (OFloor (known_floor (FK_IP (be_val rhs))))).
Proof. reflexivity. Qed.

Lemma flow_rpccofloor_pack mf fuel f vm : fl_kind f = FK_RPC_CO vm ->
  run (W mf) fuel k_flow_rpccofloor_pack [VO (OFloor f)] = chk (floor_ranges f) (floor_pack f).
Proof. destruct f as [k p l r]. cbn [fl_kind]. intros ->. unfold chk. tie. Qed.
Lemma flow_rpccofloor_unpack mf fuel lhs rhs :
  run (W mf) fuel k_flow_rpccofloor_unpack [VO (OCls CRPCConnectionOrientedFloor); VB lhs; VB rhs] =
  Ok (VO (OFloor (known_floor (FK_RPC_CO (le_val rhs))))).
Proof. reflexivity. Qed.

Lemma flow_uuidfloor_pack mf fuel f u v vm : fl_kind f = FK_UUID u v vm ->
  run (W mf) fuel k_flow_uuidfloor_pack [VO (OFloor f)] = chk (floor_ranges f) (floor_pack f).
Proof. destruct f as [k p l r]. cbn [fl_kind]. intros ->. unfold chk. tie. Qed.
Lemma flow_uuidfloor_unpack mf fuel lhs rhs :
  run (W mf) fuel k_flow_uuidfloor_unpack [VO (OCls CUUIDFloor); VB lhs; VB rhs] =
  (let* u := uuid_of_bytes_le (slice None (Some 16) lhs) in
   Ok (VO (OFloor (known_floor (FK_UUID u (le_val (slice (Some 16) (Some 18) lhs)) (le_val rhs)))))).
Proof. tie. Qed.

Lemma floors_of_inj l : floors_of (map (fun f => VO (OFloor f)) l) = Some l.
Proof. induction l as [|a r IH]; [reflexivity|]. cbn. rewrite IH. reflexivity. Qed.
Lemma towers_of_inj l : towers_of (map vfloors l) = Some l.
Proof. induction l as [|a r IH]; [reflexivity|]. cbn. rewrite floors_of_inj, IH. reflexivity. Qed.

Ltac norm_in Hn :=
  cbn in Hn;
  repeat match goal with H : ?t = _ |- _ => match type of Hn with context [t] => rewrite H in Hn end end; cbn in Hn.

(* the body of the `for _ in range(tower_count)` loop of EptMapResult.unpack, taken from the regenerated term *)
Definition eptres_body : list pstmt :=
  match nth_error (pf_body k_flow_eptmapresult_unpack) 9 with Some (SFor _ _ b) => b | _ => [] end.

Definition eptres_mbody (mfuel : nat) : bytes * list (list floor) -> res (bytes * list (list floor) * Z) :=
  fun '(view, towers) =>
    let* (fs, t) := for_range mfuel (le_val (slice (Some 12) (Some 14) view))
        (fun '(view0, acc) =>
           let* f := floor_unpack view0 in
           Ok ((slice (Some (len (fl_lhs f) + len (fl_rhs f) + 5)) None view0, acc ++ [f]), 0))
        (slice (Some 14) None view, []) 0 in
    Ok ((slice (Some (- (le_val (slice None (Some 8) view) + 4) mod 8)) None (fst fs), towers ++ [snd fs]), t).

Definition eptres_R (ehv stv : V) (s : bytes * list (list floor)) (e : @penv V) : Prop :=
  lookup "view" e = Some (VB (fst s)) /\ lookup "towers" e = Some (vtowers (snd s))
  /\ lookup "cls" e = Some (VO (OCls CEptMapResult)) /\ lookup "entry_handle" e = Some ehv
  /\ lookup "status" e = Some stv.

Lemma eptres_outer mf fuel mfuel ehv stv : forall s env v, eptres_R ehv stv s env ->
  match eptres_mbody mfuel s with
  | Ok (s', _) => exists env', exec_block (W mf) fuel eptres_body (update "_" v env) = Ok (Next env') /\ eptres_R ehv stv s' env'
  | Raise e => e <> OutOfFuel -> exec_block (W mf) fuel eptres_body (update "_" v env) = Raise e
  end.
Proof.
  intros [view acc] env v (Hv & Ht & H1 & H2 & H3). cbn [fst snd] in *.
  unfold eptres_body, eptres_mbody. cbn [nth_error pf_body k_flow_eptmapresult_unpack].
  match goal with |- context [SFor ?a ?b ?c] => remember (SFor a b c) as iloop end.
  tie. subst iloop. rewrite exec_for. cbn. lk.
  loop_setup (fun (s : bytes * list floor) (e : @penv V) =>
     lookup "view" e = Some (VB (fst s)) /\ lookup "tower" e = Some (vfloors (snd s))
     /\ lookup "towers" e = Some (vtowers acc)
     /\ lookup "cls" e = Some (VO (OCls CEptMapResult)) /\ lookup "entry_handle" e = Some ehv
     /\ lookup "status" e = Some stv
     /\ lookup "padding" e = Some (VI (- (le_val (slice None (Some 8) view) + 4) mod 8))).
  match type of HL with ?A -> _ => assert (Hb : A) end.
  { intros [view0 acc0] env0 v0 (Hv0 & Ht0 & H4 & H5 & H6 & H7 & H8). cbn [fst snd] in *. tie.
    eexists; split; [reflexivity|]. cbn. unfold vfloors. rewrite map_app. cbn. repeat split; auto. }
  specialize (HL Hb). cbn [fst snd] in HL. clear Hb.
  match type of HL with ?A -> _ => assert (HR : A) by (cbn; repeat split; auto) end.
  specialize (HL HR). clear HR.
  destruct (for_range _ _ _ _ _) as [[[view' fs'] t]|err] eqn:EF.
  - destruct HL as [env' [He (Hv0 & Ht0 & H4 & H5 & H6 & H7 & H8)]]; [congruence|]. cbn [fst snd bind] in *.
    rewrite He. tie. eexists; split; [reflexivity|]. unfold eptres_R. cbn. unfold vtowers. rewrite map_app. cbn.
    repeat split; auto.
  - cbn [bind]. intros Hnof. rewrite HL by congruence. reflexivity.
Qed.

Lemma flow_eptmapresult_unpack mf mfuel fuel data :
  ept_map_result_unpack mfuel data <> Raise OutOfFuel ->
  run (W mf) fuel k_flow_eptmapresult_unpack [VO (OCls CEptMapResult); VB data] =
  lift_fst OEptMapResult (ept_map_result_unpack mfuel data).
Proof.
  unfold ept_map_result_unpack, floors_unpack, entry_handle_unpack, lift_fst, k_flow_eptmapresult_unpack,
    k_eptres_unpack_pad, k_referent_skip, k_eptres_count_guard. rewrite !Z.gtb_ltb. intros Hne.
  match goal with |- context [SFor ?a (PCall "range" [PName "tower_count"]) ?c] =>
    remember (SFor a (PCall "range" [PName "tower_count"]) c) as loop end.
  tie.
  all: subst loop; rewrite exec_for; cbn.
  all: match goal with |- context [update "entry_handle" ?ehv _] =>
    loop_setup (eptres_R ehv (VI (le_val (slice (Some (-4)) None data))));
    specialize (HL (eptres_outer mf fuel mfuel ehv (VI (le_val (slice (Some (-4)) None data))))) end.
  all: match type of HL with ?A -> _ => assert (HR : A) by (unfold eptres_R; cbn; repeat split; auto) end.
  all: specialize (HL HR); clear HR.
  all: destruct (for_range _ _ _ _ _) as [[[view' acc'] t]|err] eqn:EF;
    [ destruct HL as [env' [He (Hv & Ht & H1 & H2 & H3)]]; [norm_in Hne; congruence|]; cbn [fst snd] in *;
      rewrite He; unfold vtowers in *; tie; rewrite ?towers_of_inj; try reflexivity
    | rewrite HL by (norm_in Hne; congruence); tie ].
Qed.

(* EptMapResult.pack: tied under the field ranges ept_map_result_ranges of Flow/World_rpc.v (implied by wf_ept_map_result) *)
Lemma in_range_4_8 x : in_range 4 x = true -> in_range 8 x = true.
Proof. unfold in_range. rewrite P_4, P_8. lia. Qed.
Lemma in_range_idx i n : 0 <= i -> i < n -> in_range 4 n = true -> in_range 8 (i + 3) = true.
Proof. unfold in_range. rewrite P_4, P_8. lia. Qed.

Definition eptres_pack_body : list pstmt :=
  match nth_error (pf_body k_flow_eptmapresult_pack) 3 with Some (SFor _ _ b) => b | _ => [] end.

Lemma eptres_pack_loop mf fuel m : in_range 4 (len (er_towers m)) = true ->
  forall rest i env refs tw,
  lookup "b_tower_referents" env = Some (VB refs) -> lookup "b_tower" env = Some (VB tw) ->
  lookup "self" env = Some (VO (OEptMapResult m)) ->
  0 <= i -> i + len rest = len (er_towers m) -> forallb tower_ranges rest = true ->
  exists env', for_each (W mf) fuel ["idx"; "t"] eptres_pack_body (enumerate_from i (map vfloors rest)) env = Ok (Next env')
    /\ lookup "b_tower_referents" env' = Some (VB (refs ++ referents_pack i rest))
    /\ lookup "b_tower" env' = Some (VB (tw ++ towers_pack (len (er_towers m)) i rest))
    /\ lookup "self" env' = Some (VO (OEptMapResult m))
    /\ lookup "b_entry_handle" env' = lookup "b_entry_handle" env.
Proof.
  intros Hn. induction rest as [|t rest IH]; intros i env refs tw Hr Ht Hs Hi Hlen Hok.
  - exists env. cbn. rewrite !app_nil_r. auto.
  - cbn [map enumerate_from]. rewrite for_each_cons.
    cbn [forallb] in Hok. apply andb_prop in Hok. destruct Hok as [Hok1 Hok]. unfold tower_ranges in Hok1.
    apply andb_prop in Hok1. destruct Hok1 as [Hk1 Hk2]. apply andb_prop in Hk1. destruct Hk1 as [Hk1 Hkf]. rewrite len_cons in Hlen. pose proof (len_nonneg rest).
    assert (Hk3 := in_range_idx i (len (er_towers m)) Hi ltac:(lia) Hn). assert (Hk4 := in_range_4_8 _ Hk2).
    unfold tower_bytes in Hk2, Hk4. cbn [concat] in Hk2, Hk4. rewrite app_nil_r in Hk2, Hk4.
    unfold eptres_pack_body at 1. cbn [nth_error pf_body k_flow_eptmapresult_pack].
    hide_comps. tie1. rewrite Hk3. tie1. rewrite Hk1. tie1. comp_step OFloor floor_ranges floor_pack. rewrite Hkf. unfold k_eptres_pack_pad. tie.
    all: match goal with |- context [for_each _ _ _ _ _ ?E] =>
           edestruct (IH (i + 1) E) as [env' [He [Hr' [Ht' [Hs' Hb']]]]] end;
         [ cbn; reflexivity | cbn; reflexivity | cbn; exact Hs | lia | lia | assumption | ].
    all: exists env'; split; [exact He|]; rewrite Hr', Ht'; cbn in Hb'; rewrite <- ?app_assoc; auto.
Qed.

Lemma towers_of_map l : @map (list floor) V vfloors l = map vfloors l.
Proof. reflexivity. Qed.

Lemma flow_eptmapresult_pack mf fuel m : ept_map_result_ranges m = true ->
  run (W mf) fuel k_flow_eptmapresult_pack [VO (OEptMapResult m)] = Ok (VB (ept_map_result_pack m)).
Proof.
  unfold ept_map_result_ranges. intros Hr.
  apply andb_prop in Hr. destruct Hr as [Hr H4]. apply andb_prop in Hr. destruct Hr as [Hr H3].
  apply andb_prop in Hr. destruct Hr as [H1 H2]. pose proof (in_range_4_8 _ H3) as H5.
  unfold ept_map_result_pack, entry_handle_pack, k_flow_eptmapresult_pack.
  match goal with |- context [SFor ?a ?b ?c] => remember (SFor a b c) as loop end.
  destruct m as [eh ts stt]. cbn [er_entry_handle er_towers er_status] in *.
  destruct eh as [[a u]|]; cbn [handle_ranges] in H1.
  all: tie1; rewrite ?H1; tie1.
  all: subst loop; rewrite exec_for; cbn.
  all: match goal with |- context [for_each _ _ _ _ _ ?E] => match E with context [OEptMapResult ?M] =>
         destruct (eptres_pack_loop mf fuel M H3 ts 0 E [] []) as [env' [He [Hr' [Ht' [Hs' Hb']]]]];
         [ reflexivity | reflexivity | reflexivity | lia | cbn; lia | assumption | ] end end.
  all: change eptres_pack_body with
         (match nth_error (pf_body k_flow_eptmapresult_pack) 3 with Some (SFor _ _ b) => b | _ => [] end) in He;
       cbn [nth_error pf_body k_flow_eptmapresult_pack] in He; rewrite He; cbn in Hb', Hr', Ht'.
  all: tie.
Qed.


(* the model's well-formedness predicates imply the ranges *)
Lemma wf_floor_ranges f : wf_floor f = true -> floor_ranges f = true.
Proof.
  unfold wf_floor. intros H.
  apply andb_prop in H. destruct H as [H Hk]. apply andb_prop in H. destruct H as [H _]. apply andb_prop in H. destruct H as [H _].
  apply andb_prop in H. destruct H as [Hl Hr]. cbn [floor_ranges floor_generic_ranges]. rewrite Hl, Hr, andb_true_r.
  unfold floor_protocol. destruct (fl_kind f) as [|port|addr|vm|u v vm]; cbn [floor_kind_ranges andb].
  - apply andb_prop in Hk. destruct Hk as [Hk _]. rewrite Hk. reflexivity.
  - rewrite Hk. reflexivity.
  - rewrite Hk. reflexivity.
  - rewrite Hk. reflexivity.
  - apply andb_prop in Hk. destruct Hk as [Hk H3]. apply andb_prop in Hk. destruct Hk as [_ H2]. rewrite H2, H3. reflexivity.
Qed.
Lemma wf_eptres_ranges m : wf_ept_map_result m = true -> ept_map_result_ranges m = true.
Proof.
  unfold wf_ept_map_result, ept_map_result_ranges. intros H.
  apply andb_prop in H. destruct H as [H H4]. apply andb_prop in H. destruct H as [H H3].
  apply andb_prop in H. destruct H as [H1 H2]. rewrite H3, H4, !andb_true_r.
  apply andb_true_intro. split.
  - destruct (er_entry_handle m) as [[a u]|]; [|reflexivity]. cbn [wf_entry_handle handle_ranges] in *.
    apply andb_prop in H1. destruct H1 as [H1 _]. apply andb_prop in H1. destruct H1 as [H1 _]. exact H1.
  - rewrite forallb_forall in *. intros t Ht. specialize (H2 t Ht). unfold tower_ranges.
    apply andb_prop in H2. destruct H2 as [H2 Hb]. apply andb_prop in H2. destruct H2 as [Hf Ha]. rewrite Ha, Hb, andb_true_r. cbn [andb].
    rewrite forallb_forall in *. intros x Hx. apply wf_floor_ranges, Hf, Hx.
Qed.

Lemma flow_eptmapresult_unpack_total mf mfuel fuel data : len data < Z.of_nat mfuel ->
  run (W mf) fuel k_flow_eptmapresult_unpack [VO (OCls CEptMapResult); VB data] =
  lift_fst OEptMapResult (ept_map_result_unpack mfuel data).
Proof. intros H. apply flow_eptmapresult_unpack. exact (proj1 (ept_map_result_unpack_total data mfuel H)). Qed.
