(* Tie theorem for _client._process_ept_map_result (C17, C18): the regenerated syntax (gen/F_online.v), run in the world
   Flow/World_online.v, computes Epm.process_ept_map_result -- the function C18_port / C18_linear_process and the conversation of C17
   are about.  (The world's checks on connections play no part here: the function only calls EptMapResult.unpack and isinstance.) *)
From V Require Import Prelude.Base Prelude.PyInt Prelude.PySlice Prelude.PyAst Prelude.PyWorld.
From V Require Import gen.F_online gen.K_client gen.C_client gen.C_rpc gen.K_rpc gen.C_gkdi gen.K_gkdi gen.K_online gen.C_online.
From V Require Import Model.Pdu Model.Request Model.Bind Model.Verification Model.Epm.
From V Require Import Model.Handshake Model.Framing Model.Seal Model.Recv.
From V Require Import Model.Types Model.Gkdi Model.Conversation.
From V Require Import Flow.World_online Proofs.FlowClientLib.
Local Open Scope string_scope.
Local Open Scope list_scope.
Local Open Scope Z_scope.

Arguments len : simpl never.
Arguments slice : simpl never.
Arguments ept_map_result_unpack : simpl never.
Arguments GetKey_unpack_response : simpl never.
Arguments GetKey_pack : simpl never.
Arguments ept_map_pack : simpl never.
Arguments verification_trailer_pack : simpl never.
Arguments bind_run : simpl never.
Arguments process_bind_result : simpl never.
Arguments process_ept_map_result : simpl never.
Arguments process_get_key_result : simpl never.
Arguments rpc_request : simpl never.
Arguments k_ept_status_bad : simpl never.
Arguments k_strip_test : simpl never.

Section Ept.
Context (wrap : wrap_fn) (unwrap : unwrap_fn) (prov : provider) (legs : list leg) (dc : dc_script) (efuel : nat).
Context (server : list Z) (username password : option (list Z)) (auth_protocol : list Z).
Notation WT := (WO wrap unwrap prov legs dc efuel server username password auth_protocol).
Section AnyTranscript.
Context (tr : transcript).
Notation W := (WT tr).

Definition ept_outer_body : list pstmt :=
  match nth 2 (pf_body k_flow_process_ept_map_result) SPass with SFor _ _ b => b | _ => [] end.
Definition ept_inner_body : list pstmt :=
  match nth 0 ept_outer_body SPass with SFor _ _ b => b | _ => [] end.

Lemma ept_inner fuel : forall (t : list Epm.floor) env,
  lookup "TCPFloor" env = None ->
  match first_tcp_port_tower t with
  | Some p => for_each W fuel ["floor"] ept_inner_body (map floorv t) env = Ok (Ret (VI p))
  | None => exists env', for_each W fuel ["floor"] ept_inner_body (map floorv t) env = Ok (Next env')
            /\ (forall x, String.eqb x "floor" = false -> lookup x env' = lookup x env)
  end.
Proof.
  induction t as [|f r IH]; intros env Hg.
  - cbn. exists env. auto.
  - cbn [first_tcp_port_tower map for_each]. unfold ept_inner_body, ept_outer_body.
    cbn [nth pf_body k_flow_process_ept_map_result]. cbn. unfold test. cbn. rewrite Hg. cbn.
    rewrite truthy_vb. unfold floor_tcp_port.
    destruct (fl_kind f) eqn:Ek; cbn; rewrite ?Ek; try reflexivity;
      (specialize (IH (update "floor" (floorv f) env)); cbn in IH; specialize (IH Hg);
       unfold ept_inner_body, ept_outer_body in IH; cbn [nth pf_body k_flow_process_ept_map_result] in IH;
       destruct (first_tcp_port_tower r) as [p|]; [exact IH|];
       destruct IH as [env' [H1 H2]]; exists env'; split; [exact H1|];
       intros x Hx; rewrite (H2 x Hx); cbn; rewrite Hx; reflexivity).
Qed.


Lemma ept_outer fuel : forall (towers : list (list Epm.floor)) env,
  lookup "TCPFloor" env = None ->
  match first_tcp_port towers with
  | Some p => for_each W fuel ["tower"] ept_outer_body (map towerv towers) env = Ok (Ret (VI p))
  | None => exists env', for_each W fuel ["tower"] ept_outer_body (map towerv towers) env = Ok (Next env')
  end.
Proof.
  induction towers as [|t r IH]; intros env Hg.
  - cbn. exists env. auto.
  - cbn [first_tcp_port map for_each]. unfold ept_outer_body in *.
    cbn [nth pf_body k_flow_process_ept_map_result bind_targets bind] in *.
    rewrite exec_block_cons, exec_for. cbn [eval lookup update String.eqb Ascii.eqb Bool.eqb bind].
    pose proof (ept_inner fuel t (update "tower" (towerv t) env)) as Hin. cbn in Hin. specialize (Hin Hg).
    unfold ept_inner_body, ept_outer_body in Hin. cbn [nth pf_body k_flow_process_ept_map_result] in Hin.
    unfold update in *.
    assert (Hit : w_iter W (towerv t) = Ok (map floorv t)) by reflexivity.
    destruct (first_tcp_port_tower t) as [p|].
    + rewrite Hit. cbn [bind]. rewrite Hin. reflexivity.
    + destruct Hin as [env' [H1 H2]].
      specialize (IH env'). rewrite (H2 "TCPFloor" eq_refl) in IH. cbn in IH. specialize (IH Hg).
      destruct (first_tcp_port r) as [p|].
      * rewrite Hit. cbn [bind]. rewrite H1. cbn [bind exec_block]. exact IH.
      * destruct IH as [env2 H3]. exists env2. rewrite Hit. cbn [bind]. rewrite H1. cbn [bind exec_block]. exact H3.
Qed.

(* _process_ept_map_result(response); EptMapResult.unpack runs with the model's loop fuel efuel *)
Lemma flow_process_ept_map_result fuel rsp :
  run W fuel k_flow_process_ept_map_result [VO (OResp rsp)]
  = (let* (p, _) := process_ept_map_result efuel (rs_stub_data rsp) in Ok (VI p)).
Proof.
  unfold process_ept_map_result, k_ept_status_bad.
  unfold run. cbn [bind_params pf_params pf_body k_flow_process_ept_map_result].
  match goal with |- context [exec_block W fuel ?body ?env] => change body with (firstn 2 body ++ skipn 2 body) end.
  rewrite exec_block_app. cbn [firstn skipn].
  match goal with |- context [exec_block W fuel ?rest _] =>
    match rest with SFor _ _ _ :: _ => remember rest as tl eqn:Etl end end.
  cbn.
  destruct (ept_map_result_unpack efuel (rs_stub_data rsp)) as [[m tk]|e]; cbn; [|reflexivity].
  unfold test. cbn. destruct (er_status m =? 0); cbn; [|reflexivity].
  subst tl. rewrite exec_block_cons, exec_for. cbn.
  pose proof (ept_outer fuel (er_towers m)
     [("map_response", VO (OEptRes m)); ("response", VO (OResp rsp))] eq_refl) as H.
  unfold ept_outer_body in H. cbn [nth pf_body k_flow_process_ept_map_result] in H. unfold update.
  destruct (first_tcp_port (er_towers m)) as [p|].
  - rewrite H. reflexivity.
  - destruct H as [env' H]. rewrite H. reflexivity.
Qed.


End AnyTranscript.
End Ept.
