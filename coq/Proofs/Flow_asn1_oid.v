(* Tie theorems: _encode_object_identifier and _read_asn1_object_identifier of _asn1.py (gen/F_asn1.v, run in
   Flow/World_asn1.v) against Model/Asn1.v encode_oid / read_oid_content.  A dotted-decimal str is its list of arcs
   (VO (OOid arcs), "" = []): Flow/World_asn1.v gives split / map(int, ..) / str / join that meaning. *)
From V Require Import Prelude.PyAst.
From V Require Import Prelude.Base Prelude.PyInt Prelude.PySlice Prelude.PyStr Prelude.PyWorld gen.K_asn1 gen.C_asn1 gen.F_asn1.
From V Require Import Model.Asn1 Flow.World_asn1 Proofs.Flow_asn1_lib Proofs.Asn1Lib Proofs.Asn1Hdr Proofs.Asn1Oid.
Local Open Scope string_scope.
Local Open Scope list_scope.
Local Open Scope Z_scope.
Arguments len : simpl never.
Arguments slice : simpl never.
Arguments Z.land : simpl never.
Arguments Z.lor : simpl never.
Arguments Z.shiftr : simpl never.
Arguments Z.shiftl : simpl never.
Arguments Z.mul : simpl never.
Arguments Z.add : simpl never.
Arguments Z.sub : simpl never.
Arguments bits_fuel : simpl never.

(* ---- the model side: digits of one arc, least significant first ---- *)
Definition lsbdigs (c : Z) : list Z :=
  match oid_more_digits (bits_fuel c) c with Ok r => k_oid_low c :: r | Raise _ => [] end.
Lemma omd_total c : exists r, oid_more_digits (bits_fuel c) c = Ok r.
Proof.
  destruct (Z_lt_le_dec c 0) as [Hn|Hp].
  - exists []. unfold bits_fuel. cbn [oid_more_digits]. unfold k_oid_more. destruct (c >? 127) eqn:E; [lia|reflexivity].
  - destruct (oid_more_digits_spec (bits_fuel c) c) as (r & E & _); [split; [lia|apply bits_fuel_ok; lia]|]. eauto.
Qed.
Lemma oid_arc_lsb c : oid_arc c = Ok (rev (lsbdigs c)).
Proof. unfold oid_arc, lsbdigs. destruct (omd_total c) as (r & ->). reflexivity. Qed.
Lemma map_res_oid_arc cs : map_res oid_arc cs = Ok (map (fun c => rev (lsbdigs c)) cs).
Proof. induction cs as [|c r IH]; [reflexivity|]. cbn [map_res map]. rewrite oid_arc_lsb, IH. reflexivity. Qed.
Lemma omd_range : forall f c r, oid_more_digits f c = Ok r -> Forall (fun d => 0 <= d < 256) r.
Proof.
  induction f as [|f IH]; intros c r H; cbn [oid_more_digits] in H; destruct (k_oid_more c).
  - discriminate.
  - apply Ok_inj in H. subst. constructor.
  - destruct (oid_more_digits f (k_oid_shift c)) as [r'|] eqn:E; [|discriminate]. cbn [bind] in H. apply Ok_inj in H. subst.
    constructor; [|eapply IH; exact E]. unfold k_oid_cont. pose proof (Z.mod_pos_bound (k_oid_shift c) 128 ltac:(lia)).
    rewrite land_127, lor_128_l_spec by lia. lia.
  - apply Ok_inj in H. subst. constructor.
Qed.
Lemma lsbdigs_range c : Forall (fun d => 0 <= d < 256) (lsbdigs c).
Proof.
  unfold lsbdigs. destruct (oid_more_digits _ c) as [r|] eqn:E; [|constructor].
  constructor; [|eapply omd_range; exact E]. unfold k_oid_low. rewrite land_127. lia.
Qed.
Lemma rev_concat_map {A B} (f : A -> list B) l : rev (concat (map f (rev l))) = concat (map (fun x => rev (f x)) l).
Proof.
  induction l as [|x r IH]; [reflexivity|]. cbn [rev map concat]. rewrite map_app, concat_app, rev_app_distr, IH.
  cbn [map concat]. rewrite app_nil_r. reflexivity.
Qed.
Lemma all_int_map zs : all_int (map VI zs) = Some zs.
Proof. induction zs as [|z r IH]; [reflexivity|]. cbn [map all_int]. rewrite IH. reflexivity. Qed.
Lemma map_res_byte_ok zs : Forall (fun d => 0 <= d < 256) zs -> map_res byte_ok zs = Ok zs.
Proof.
  induction 1 as [|z r Hz _ IH]; [reflexivity|]. cbn [map_res]. unfold byte_ok at 1.
  destruct ((0 <=? z) && (z <? 256)) eqn:E; [|lia]. cbn [bind]. rewrite IH. reflexivity.
Qed.

(* ---- while cmp_data > 0x7F ---- *)
Definition more_body : list pstmt := [
        SAssign ["cmp_data"] (PBin ">>" (PName "cmp_data") (PInt 7));
        SExpr (PMeth "append" (PName "result") [(PBin "|" (PInt 128) (PBin "&" (PName "cmp_data") (PInt 127)))])
      ].
Lemma more_loop fuel : forall k K env c acc ds,
  lookup "cmp_data" env = Some (VI c) -> lookup "result" env = Some (VL (map VI acc)) ->
  oid_more_digits k c = Ok ds -> (k < K)%nat ->
  exists env', while_loop W fuel (PCmp ">" (PName "cmp_data") (PInt 127)) more_body K env = Ok (Next env') /\
               lookup "result" env' = Some (VL (map VI (acc ++ ds))) /\ frame ["cmp_data"; "result"] env env'.
Proof.
  induction k as [|k IH]; intros K env c acc ds Hc Hr Hd HK; (destruct K as [|K]; [lia|]); rewrite while_loop_S;
    cbn [oid_more_digits] in Hd; unfold k_oid_more in Hd; rewrite Z.gtb_ltb in Hd; revert Hd; pye;
    destruct (127 <? c) eqn:E; cbn; intro Hd.
  - discriminate Hd.
  - apply Ok_inj in Hd. subst ds. rewrite app_nil_r. exists env. repeat split; try assumption; try apply frame_refl.
  - destruct (oid_more_digits k (k_oid_shift c)) as [r|] eqn:Er; [|discriminate]. cbn [bind] in Hd. apply Ok_inj in Hd.
    unfold more_body. pye. fold more_body. unfold k_oid_shift, k_oid_cont in *.
    match goal with |- context [while_loop _ _ _ _ K ?e] =>
      destruct (IH K e (Z.shiftr c 7) (acc ++ [Z.lor 128 (Z.land (Z.shiftr c 7) 127)]) r) as (env' & Hw & Hr' & Hfr);
        [reflexivity|cbn; rewrite map_app; reflexivity|exact Er|lia|] end.
    exists env'. split; [exact Hw|]. split; [rewrite Hr', <- Hd, <- app_assoc; reflexivity|].
    eapply frame_step; [exact Hfr|frame_upd].
  - apply Ok_inj in Hd. subst ds. rewrite app_nil_r. exists env. repeat split; try assumption; try apply frame_refl.
Qed.

(* ---- for cmp_data in cmps ---- *)
Definition arc_body : list pstmt := [
      SExpr (PMeth "append" (PName "result") [(PBin "&" (PName "cmp_data") (PInt 127))]);
      SWhile (PCmp ">" (PName "cmp_data") (PInt 127)) more_body
    ].
Lemma arc_for fuel : forall xs env acc, Forall (fun c => (bits_fuel c < fuel)%nat) xs ->
  lookup "result" env = Some (VL (map VI acc)) ->
  exists env', for_each W fuel ["cmp_data"] arc_body (map VI xs) env = Ok (Next env') /\
               lookup "result" env' = Some (VL (map VI (acc ++ concat (map lsbdigs xs)))) /\
               frame ["cmp_data"; "result"] env env'.
Proof.
  induction xs as [|c r IH]; intros env acc Hfu Hr.
  - exists env. cbn [map concat]. rewrite app_nil_r. split; [reflexivity|]. split; [exact Hr|apply frame_refl].
  - inversion Hfu as [|? ? Hc Hfr']; subst. change (map VI (c :: r)) with (@VI obj c :: map VI r). rewrite for_each_cons. unfold arc_body. pye. fold more_body.
    destruct (omd_total c) as (ds & Ed).
    match goal with |- context [while_loop _ _ _ _ fuel ?e] =>
      destruct (more_loop fuel (bits_fuel c) fuel e c (acc ++ [Z.land c 127]) ds) as (env1 & Hw & Hr1 & Hfr1);
        [reflexivity|cbn; rewrite map_app; reflexivity|exact Ed|exact Hc|] end.
    rewrite Hw. pye. fold more_body. fold arc_body.
    destruct (IH env1 ((acc ++ [Z.land c 127]) ++ ds) Hfr' Hr1) as (env' & Hf & Hr' & Hfr2).
    exists env'. split; [exact Hf|]. split.
    + rewrite Hr'. cbn [map concat]. unfold lsbdigs at 2. rewrite Ed. unfold k_oid_low. rewrite <- !app_assoc. reflexivity.
    + eapply frame_step; [exact Hfr2|]. intros x Hx. rewrite (Hfr1 x Hx). revert x Hx. frame_upd.
Qed.

Lemma index_1 {A} (x y : A) l : index (x :: y :: l) 1 = Ok y.
Proof.
  unfold index. rewrite !len_cons. pose proof (len_nonneg l). change (1 <? 0) with false. cbv iota.
  destruct ((0 <=? 1) && (1 <? 1 + (1 + len l))) eqn:E; [reflexivity|lia].
Qed.
Lemma index_1_single {A} (x : A) : index [x] 1 = Raise IndexError.
Proof. reflexivity. Qed.
Lemma slice_from2 {A} (x y : A) l : slice (Some 2) None (x :: y :: l) = l.
Proof. change (x :: y :: l) with ([x; y] ++ l). change 2 with (len [x; y]). apply slice_app_r. Qed.

(* the arcs the loop runs over *)
Definition oid_cmps (arcs : list Z) : list Z := match arcs with a :: b :: rest => (40 * a + b) :: rest | _ => [] end.

Arguments rev : simpl never.
Arguments map : simpl never.
Arguments lsbdigs : simpl never.
Arguments arc_body : simpl never.

(* (the one-arc case: `cmps[0] > 39 or cmps[1] > 39` raises ValueError for an arc above 39 before cmps[1] is indexed; the model
   said IndexError for every one-arc list until this tie was attempted: fixed in Model/Asn1.v encode_oid) *)
Lemma flow_encode_object_identifier fuel arcs :
  Forall (fun c => (bits_fuel c < fuel)%nat) (oid_cmps arcs) ->
  run W fuel k_flow_encode_object_identifier [VO (OOid arcs)] = lift_b (encode_oid arcs).
Proof.
  intros Hfu. start W k_flow_encode_object_identifier. fold more_body. fold arc_body. unfold encode_oid.
  destruct arcs as [|a [|b rest]]; py.
  - reflexivity.
  - change (map VI [a]) with [@VI obj a]. py. rewrite Z.gtb_ltb.
    destruct (39 <? a) eqn:E; py; reflexivity.
  - change (map VI (a :: b :: rest)) with (@VI obj a :: VI b :: map VI rest). py. rewrite index_1. py.
    rewrite !Z.gtb_ltb. destruct (39 <? a) eqn:Ea; py; [reflexivity|]. destruct (39 <? b) eqn:Eb; py; [reflexivity|].
    rewrite index_1. py. rewrite slice_from2. py.
    change (VI (40 * a + b) :: map VI rest) with (map (@VI obj) ((40 * a + b) :: rest)). rewrite <- map_rev.
    cbn [oid_cmps] in Hfu. apply Forall_rev in Hfu.
    match goal with |- context [for_each _ _ _ _ _ ?e] =>
      destruct (arc_for fuel (rev ((40 * a + b) :: rest)) e [] Hfu eq_refl) as (env' & Hf & Hr & Hfr) end.
    rewrite Hf. cbn [bind app] in *. pye. rewrite <- map_rev, all_int_map, rev_concat_map. cbn [or_else].
    rewrite map_res_byte_ok, oid_arc_lsb, map_res_oid_arc; [reflexivity|].
    apply Forall_concat. apply Forall_map. apply Forall_forall. intros c _. apply Forall_rev. apply lsbdigs_range.
Qed.

(* ================= _read_asn1_object_identifier ================= *)
From V Require Import Proofs.Flow_asn1_hdr.
Arguments Z.modulo : simpl never.
Arguments Z.div : simpl never.
Arguments validate_tag : simpl never.
Arguments with_opts : simpl never.
Lemma uonr_cons x r i idx : unpack_octet_number_rest (x :: r) i idx =
  if Z.land x 128 =? 0 then Ok (k_b128_acc i x, idx + 1, r) else unpack_octet_number_rest r (k_b128_acc i x) (idx + 1).
Proof. reflexivity. Qed.
Lemma unpack_rest_split_ne : forall data i idx v idx' rest,
  unpack_octet_number_rest data i idx = Ok (v, idx', rest) -> exists x pre, data = (x :: pre) ++ rest /\ idx' = idx + len (x :: pre).
Proof.
  induction data as [|x r IH]; intros i idx v idx' rest H; [discriminate|]. rewrite uonr_cons in H.
  destruct (Z.land x 128 =? 0).
  - apply Ok_inj in H. inversion H; subst. exists x, []. split; [reflexivity|]. rewrite len1. reflexivity.
  - apply IH in H. destruct H as (y & pre & -> & ->). exists x, (y :: pre). split; [reflexivity|]. rewrite (len_cons x). lia.
Qed.
Arguments unpack_octet_number_rest : simpl never.
Arguments read_oid_arcs : simpl never.

Definition oidr_body : list pstmt := [
      SAssign ["oid"; "octet_len"] (PCall "_unpack_asn1_octet_number" [(PSlice (PName "raw_oid") (PName "idx") PNone)]);
      SExpr (PMeth "append" (PName "ids") [(PName "oid")]);
      SAssign ["idx"] (PBin "+" (PName "idx") (PName "octet_len"))
    ].
Lemma read_oid_arcs_S k x r : read_oid_arcs (S k) (x :: r) =
  (let* (v, _, rest) := unpack_octet_number_rest (x :: r) 0 0 in let* m := read_oid_arcs k rest in Ok (v :: m)).
Proof. reflexivity. Qed.
Lemma read_oid_arcs_nil k : read_oid_arcs k [] = Ok []. Proof. destruct k; reflexivity. Qed.

Lemma oidr_loop fuel : forall k rest pre K env acc, (Datatypes.length rest <= k)%nat -> (k < K)%nat ->
  lookup "raw_oid" env = Some (VB (pre ++ rest)) -> lookup "idx" env = Some (VI (len pre)) ->
  lookup "ids" env = Some (VL (map VI acc)) ->
  match read_oid_arcs k rest with
  | Ok more => exists env', while_loop W fuel (PCmp "!=" (PName "idx") (PCall "len" [(PName "raw_oid")])) oidr_body K env = Ok (Next env') /\
                            lookup "ids" env' = Some (VL (map VI (acc ++ more))) /\
                            frame ["oid"; "octet_len"; "ids"; "idx"] env env'
  | Raise e => while_loop W fuel (PCmp "!=" (PName "idx") (PCall "len" [(PName "raw_oid")])) oidr_body K env = Raise e
  end.
Proof.
  induction k as [|k IH]; intros rest pre K env acc Hlen HK Hr Hi Ha; (destruct K as [|K]; [lia|]); rewrite while_loop_S.
  - destruct rest; [|cbn in Hlen; lia]. rewrite read_oid_arcs_nil. pye. rewrite !app_nil_r. rewrite Z.eqb_refl. pye.
    exists env. split; [reflexivity|]. split; [exact Ha|apply frame_refl].
  - destruct rest as [|x r].
    + rewrite read_oid_arcs_nil. pye. rewrite !app_nil_r. rewrite Z.eqb_refl. pye.
      exists env. split; [reflexivity|]. split; [exact Ha|apply frame_refl].
    + rewrite read_oid_arcs_S. pye. rewrite len_app, len_cons. pose proof (len_nonneg r).
      destruct (len pre =? len pre + (1 + len r)) eqn:E; [lia|]. unfold oidr_body. pye.
      rewrite slice_app_r. unfold unpack_octet_number.
      destruct (unpack_octet_number_rest (x :: r) 0 0) as [[[v c] rest']|e] eqn:Eu; pye; [|reflexivity].
      fold oidr_body. apply unpack_rest_split_ne in Eu. destruct Eu as (y & p' & Ep & ->). set (p := y :: p') in *.
      assert (Hl' : (Datatypes.length rest' <= k)%nat).
      { apply (f_equal (@Datatypes.length Z)) in Ep. rewrite app_length in Ep. unfold p in Ep. cbn [Datatypes.length] in *. lia. }
      match goal with |- context [while_loop _ _ _ _ K ?e] =>
        specialize (IH rest' (pre ++ p) K e (acc ++ [v]) Hl' ltac:(lia)) end.
      rewrite len_app in IH.
      lapply IH; [clear IH; intro IH|cbn; rewrite Hr, Ep, <- app_assoc; reflexivity].
      lapply IH; [clear IH; intro IH|cbn; do 2 f_equal; lia].
      lapply IH; [clear IH; intro IH|cbn; rewrite map_app; reflexivity].
      destruct (read_oid_arcs k rest') as [more|e]; [|exact IH].
      destruct IH as (env' & Hw & Hi' & Hfr). exists env'. split; [exact Hw|]. split.
      * rewrite Hi', <- app_assoc. reflexivity.
      * eapply frame_step; [exact Hfr|frame_upd].
Qed.

Lemma all_dec_map l : all_dec (map (fun z => VO (ODec z)) l) = Some l.
Proof. induction l as [|z r IH]; [reflexivity|]. change (map (fun z0 => VO (ODec z0)) (z :: r)) with (@VO obj (ODec z) :: map (fun z0 => VO (ODec z0)) r). cbn [all_dec]. rewrite IH. reflexivity. Qed.

(* [str(i) for i in ids] *)
Lemma comp_str : forall l envc,
  comp_each W ["i"] (PCall "str" [PName "i"]) (map VI l) envc = Ok (map (fun z => VO (ODec z)) l).
Proof.
  induction l as [|z r IH]; intro envc; [reflexivity|].
  change (map VI (z :: r)) with (@VI obj z :: map VI r). rewrite comp_each_cons. cbn -[map]. rewrite IH. reflexivity.
Qed.

Lemma join_ids env l c : lookup "ids" env = Some (VL (map VI l)) -> lookup "consumed" env = Some (VI c) ->
  eval W env (PTuple [(PMeth "join" (PStr [46]) [(PComp (PCall "str" [(PName "i")]) ["i"] (PName "ids") [])]); (PName "consumed")]) =
  Ok (VT [VO (OOid l); VI c], env).
Proof.
  intros Hi Hc. rewrite eval_tuple. cbn [evals]. rewrite eval_meth.
  change (eval W env (PStr [46])) with (Ok (@VS obj [46], env)). cbn [bind evals]. rewrite eval_comp0.
  change (eval W env (PName "ids")) with
    (match lookup "ids" env with Some v => Ok (v, env) | None => let* v := w_glob W "ids" in Ok (v, env) end).
  rewrite Hi. cbn [bind]. change (w_iter W (VL (map VI l))) with (Ok (map (@VI obj) l)). cbn [bind].
  rewrite comp_str. cbn -[map]. rewrite all_dec_map. cbn -[map]. rewrite Hc. reflexivity.
Qed.

Lemma slice_length_le {A} lo hi (l : list A) : (Datatypes.length (slice lo hi l) <= Datatypes.length l)%nat.
Proof. unfold slice. rewrite firstn_length, skipn_length. lia. Qed.
Lemma validate_tag_len data t ty h raw c : validate_tag data t ty h = Ok (raw, c) -> (Datatypes.length raw <= Datatypes.length data)%nat.
Proof.
  intros H. unfold validate_tag in H.
  destruct (match h with Some h0 => Ok h0 | None => read_asn1_header data end) as [hd|]; cbn [bind] in H; [|discriminate].
  destruct (negb (tag_eqb _ _)); [discriminate|]. destruct (k_vt_short _ _); [discriminate|].
  apply Ok_inj in H. inversion H; subst. etransitivity; [apply slice_length_le|apply slice_length_le].
Qed.
Lemma tag_of_vopt t : tag_of (vopt_tag t) = Some t. Proof. destruct t; reflexivity. Qed.
Lemma header_of_vopt h : header_of (vopt_header h) = Some h. Proof. destruct h as [[? ? ?]|]; reflexivity. Qed.
Lemma hint_of_vopt s : hint_of (vopt_str s) = Some tt. Proof. destruct s; reflexivity. Qed.
Lemma with_opts_vopt {A} t h hint (k : option tag -> option header -> res A) inj :
  with_opts (vopt_tag t) (vopt_header h) (vopt_str hint) k inj = Some (let* r := k t h in Ok (inj r)).
Proof. unfold with_opts. rewrite tag_of_vopt, header_of_vopt, hint_of_vopt. reflexivity. Qed.
Lemma len_cons_nz' {A} (x : A) r : (len (x :: r) =? 0) = false.
Proof. rewrite len_cons. pose proof (len_nonneg r). lia. Qed.

Arguments oidr_body : simpl never.

(* each arc consumes at least one octet: at most len(data) iterations *)
Lemma flow_read_asn1_object_identifier fuel data t h hint : (Datatypes.length data < fuel)%nat ->
  run W fuel k_flow_read_asn1_object_identifier [VB data; vopt_tag t; vopt_header h; vopt_str hint] =
  (let* r := m_read_object_identifier data t h in Ok (inj_oid r)).
Proof.
  intros Hf. start W k_flow_read_asn1_object_identifier. fold oidr_body. unfold m_read_object_identifier.
  repeat step1. cbn -[map]. rewrite with_opts_vopt. cbn [or_else].
  destruct (validate_tag data t _ h) as [[raw consumed]|e] eqn:Ev; [|reflexivity]. apply validate_tag_len in Ev.
  unfold read_oid_content. destruct raw as [|first r]; py; [reflexivity|].
  rewrite len_cons_nz'. py. rewrite slice_head1. py. unfold k_oid_second.
  match goal with |- context [while_loop _ _ _ _ fuel ?e] =>
    pose proof (oidr_loop fuel (Datatypes.length r) r [first] fuel e [(first - first mod 40) / 40; first mod 40]
                  (le_n _) ltac:(cbn in Ev; lia) eq_refl eq_refl eq_refl) as HL end.
  destruct (read_oid_arcs (Datatypes.length r) r) as [more|e]; [|rewrite HL; reflexivity].
  destruct HL as (env' & Hw & Hi & Hfr). rewrite Hw. cbn [bind].
  assert (Hc : lookup "consumed" env' = Some (VI consumed)) by (fr Hfr "consumed"; reflexivity).
  rewrite exec_block_cons, exec_return, (join_ids _ _ _ Hi Hc). reflexivity.
Qed.
