(* Tie theorem for _dns.py::_get_highest_answer: the regenerated body (gen/Flows.v k_flow_get_highest_answer), run in the world
   Flow/World_core.v, computes Model/Dns.v get_highest_answer - for every answer set. The sort is the world's stable insertion sort
   by the keys the lambda computes; `first_of_sort` shows that its first element is the model's first minimiser. *)
From V Require Import Prelude.Base Prelude.PySlice Prelude.PyAst Prelude.PyWorld gen.Flows gen.Kernels.
From V Require Import Model.Types Model.Dns Flow.World_core Proofs.FlowClientLib.
From Coq Require Import Lia.
Local Open Scope string_scope.
Local Open Scope list_scope.
Local Open Scope Z_scope.

(* ---- the order ---- *)
Lemma key_lt_irrefl x : key_lt x x = false.
Proof. unfold key_lt. destruct x as [a b]; cbn [fst snd]. lia. Qed.
Lemma key_lt_trans x y z : key_lt x y = true -> key_lt y z = true -> key_lt x z = true.
Proof. unfold key_lt. destruct x, y, z; cbn [fst snd]. lia. Qed.
Lemma key_lt_ntrans x y z : key_lt x y = false -> key_lt y z = false -> key_lt x z = false.
Proof. unfold key_lt. destruct x, y, z; cbn [fst snd]. lia. Qed.
Lemma key_lt_asym x y : key_lt x y = true -> key_lt y x = false.
Proof. unfold key_lt. destruct x, y; cbn [fst snd]. lia. Qed.

(* first minimiser of a keyed list, left to right (pick_from on pairs) *)
Fixpoint pick_k {A} (best : A * (Z * Z)) (l : list (A * (Z * Z))) : A * (Z * Z) :=
  match l with
  | [] => best
  | a :: r => if key_lt (snd a) (snd best) then pick_k a r else pick_k best r
  end.

Lemma insert_k_hd {A} (x : A * (Z * Z)) s d :
  hd d (insert_k x s) = match s with [] => x | y :: _ => if key_lt (snd y) (snd x) then y else x end.
Proof. destruct s as [|y r]; [reflexivity|]. cbn [insert_k]. destruct (key_lt (snd y) (snd x)); reflexivity. Qed.

Lemma insert_k_nonnil {A} (x : A * (Z * Z)) s : insert_k x s <> [].
Proof. destruct s as [|y r]; cbn [insert_k]; [discriminate|]. destruct (key_lt _ _); discriminate. Qed.

Lemma isort_k_nonnil {A} (x : A * (Z * Z)) r : isort_k (x :: r) <> [].
Proof. cbn [isort_k]. apply insert_k_nonnil. Qed.

(* the head of the stable sort of best :: l is the first minimiser *)
Lemma hd_isort_pick {A} (l : list (A * (Z * Z))) : forall best d,
  hd d (isort_k (best :: l)) = pick_k best l.
Proof.
  induction l as [|a r IH]; intros best d; [reflexivity|].
  cbn [pick_k]. destruct (key_lt (snd a) (snd best)) eqn:E.
  - rewrite <- (IH a d).
    change (isort_k (best :: a :: r)) with (insert_k best (isort_k (a :: r))).
    rewrite insert_k_hd.
    destruct (isort_k (a :: r)) as [|m s] eqn:Em; [exfalso; eapply isort_k_nonnil; eassumption|].
    cbn [hd].
    destruct (key_lt (snd m) (snd best)) eqn:E2; [reflexivity|]. exfalso.
    assert (Hm : m = hd d (isort_k (a :: r))) by (rewrite Em; reflexivity).
    cbn [isort_k] in Hm. rewrite insert_k_hd in Hm.
    destruct (isort_k r) as [|y ys].
    + subst m. congruence.
    + destruct (key_lt (snd y) (snd a)) eqn:E3; subst m; [|congruence].
      rewrite (key_lt_trans _ _ _ E3 E) in E2. discriminate.
  - rewrite <- (IH best d).
    change (isort_k (best :: a :: r)) with (insert_k best (insert_k a (isort_k r))).
    change (isort_k (best :: r)) with (insert_k best (isort_k r)).
    rewrite !(insert_k_hd best).
    destruct (insert_k a (isort_k r)) as [|m s] eqn:Em; [exfalso; eapply insert_k_nonnil; eassumption|].
    assert (Hm : m = hd d (insert_k a (isort_k r))) by (rewrite Em; reflexivity).
    rewrite insert_k_hd in Hm.
    destruct (isort_k r) as [|y ys].
    + subst m. rewrite E. reflexivity.
    + destruct (key_lt (snd y) (snd a)) eqn:E3; subst m.
      * reflexivity.
      * rewrite E. destruct (key_lt (snd y) (snd best)) eqn:E4; [|reflexivity].
        rewrite (key_lt_ntrans _ _ _ E3 E) in E4. discriminate.
Qed.

(* ---- comprehension without conditions as a named fixpoint (generic in the world) ---- *)
Section Comp.
Context {V : Type} (W : world V).
Fixpoint comp_each (xs : list string) (elt : pexp) (vs : list V) (envc : penv) : res (list V) :=
  match vs with
  | [] => Ok []
  | v :: r => let* envb := bind_targets W xs v envc in
              let* (x, enve) := eval W envb elt in
              let* rest := comp_each xs elt r enve in Ok (x :: rest)
  end.
Definition comp0 (xs : list string) (elt : pexp) := fix each (vs : list V) (envc : penv) : res (list V) :=
         match vs with
         | [] => Ok []
         | v :: r =>
           let* envb := bind_targets W xs v envc in
           let* (keep, envd) := Ok (true, envb) in
           if keep then let* (x, enve) := eval W envd elt in let* rest := each r enve in Ok (x :: rest)
           else each r envd
         end.
Lemma comp0_eq xs elt vs : forall envc, comp0 xs elt vs envc = comp_each xs elt vs envc.
Proof.
  induction vs as [|v r IH]; intro envc; [reflexivity|]. cbn [comp0 comp_each].
  destruct (bind_targets W xs v envc) as [envb|e]; [|reflexivity]. cbn [bind].
  destruct (eval W envb elt) as [[x enve]|e]; [|reflexivity]. cbn [bind]. rewrite IH. reflexivity.
Qed.
Lemma eval_comp0 env elt xs it :
  eval W env (PComp elt xs it []) =
  let* (iv, env1) := eval W env it in let* items := w_iter W iv in
  let* out := comp_each xs elt items env1 in Ok (w_list W out, env1).
Proof.
  change (eval W env (PComp elt xs it [])) with
    (let* (iv, env1) := eval W env it in let* items := w_iter W iv in
     let* out := comp0 xs elt items env1 in Ok (w_list W out, env1)).
  destruct (eval W env it) as [[iv env1]|e]; [|reflexivity]. cbn [bind].
  destruct (w_iter W iv) as [items|e]; [|reflexivity]. cbn [bind]. rewrite comp0_eq. reflexivity.
Qed.
End Comp.

(* ---- the model's selection in terms of pick_k ---- *)
Definition dec (a : srv) : pv obj * (Z * Z) := (VO (OSrv a), key a).

Lemma pick_from_pick_k l : forall best, dec (pick_from best l) = pick_k (dec best) (map dec l).
Proof.
  induction l as [|a r IH]; intro best; [reflexivity|].
  cbn [pick_from map pick_k]. change (snd (dec a)) with (key a). change (snd (dec best)) with (key best).
  destruct (key_lt (key a) (key best)); apply IH.
Qed.

Section Tie.
Context (resolve : pystr -> res (list srv)).
Notation W := (W resolve).

Definition vsrv (a : srv) : pv obj := VO (OSrv a).

(* the for loop: answers grows by the converted record of every answer *)
Lemma loop_append fuel body l : forall env acc,
  body = [SExpr (PMeth "append" (PName "answers") [(PCall "SrvRecord/target,port,weight,priority" [(PMeth "rstrip" (PCall "str" [(PAttr (PName "a") "target")]) [(PStr [46])]); (PAttr (PName "a") "port"); (PAttr (PName "a") "weight"); (PAttr (PName "a") "priority")])])] ->
  lookup "answers" env = Some (VL acc) ->
  exists env', for_each W fuel ["a"] body (map vsrv l) env = Ok (Next env') /\
               lookup "answers" env' = Some (VL (acc ++ map vsrv (map conv l))).
Proof.
  induction l as [|a r IH]; intros env acc Hb Ha.
  - exists env. split; [reflexivity|]. cbn [map]. rewrite app_nil_r. exact Ha.
  - cbn [map for_each bind_targets bind].
    assert (Hstep : exec_block W fuel body (update "a" (vsrv a) env)
                    = Ok (Next (update "answers" (VL (acc ++ [vsrv (conv a)])) (update "a" (vsrv a) env)))).
    { subst body. cbn. rewrite Ha. cbn. rewrite Ha. unfold conv, k_srv_rstrip_chars. reflexivity. }
    rewrite Hstep. cbn [bind].
    destruct (IH (update "answers" (VL (acc ++ [vsrv (conv a)])) (update "a" (vsrv a) env)) (acc ++ [vsrv (conv a)]) Hb)
      as [env' [H1 H2]]; [reflexivity|].
    exists env'. split; [exact H1|]. rewrite H2, <- app_assoc. reflexivity.
Qed.

Definition keyv (a : srv) : pv obj := VT [VI (srv_priority a); VI (- srv_weight a)].

(* the keys the lambda computes, one per record, in order *)
Lemma keys_each cl : forall env,
  comp_each W ["a"] (PTuple [(PAttr (PName "a") "priority"); (PNeg (PAttr (PName "a") "weight"))]) (map vsrv cl) env
  = Ok (map keyv cl).
Proof.
  induction cl as [|a r IH]; intro env; [reflexivity|].
  cbn [map comp_each bind_targets bind]. cbn. rewrite IH. reflexivity.
Qed.

Lemma keys2_keyv cl : keys2 (map keyv cl) = Some (map key cl).
Proof.
  induction cl as [|a r IH]; [reflexivity|]. cbn [map keys2 keyv key2]. rewrite IH.
  unfold key, k_srv_key. reflexivity.
Qed.

Lemma combine_dec cl : combine (map vsrv cl) (map key cl) = map dec cl.
Proof. induction cl as [|a r IH]; [reflexivity|]. cbn [map combine]. rewrite IH. reflexivity. Qed.

Definition gha_model (l : list srv) : res (pv obj) := let* r := get_highest_answer l in Ok (VO (OSrv r)).

Lemma eval_psub env e i :
  eval W env (PSub e i) = let* (v, env1) := eval W env e in let* (j, env2) := eval W env1 i in
                          let* r := w_sub W v j in Ok (r, env2).
Proof. reflexivity. Qed.
Lemma eval_pcall2 env f a b :
  eval W env (PCall f [a; b]) = let* (va, e1) := eval W env a in let* (vb, e2) := eval W e1 b in
                                let* r := w_call W f [va; vb] in Ok (r, e2).
Proof.
  cbn [eval]. destruct (eval W env a) as [[va e1]|x]; [|reflexivity]. cbn [bind].
  destruct (eval W e1 b) as [[vb e2]|x]; reflexivity.
Qed.

Lemma eval_pcall2' env f a b va :
  eval W env a = Ok (va, env) ->
  eval W env (PCall f [a; b]) = let* (vb, e2) := eval W env b in let* r := w_call W f [va; vb] in Ok (r, e2).
Proof. intro H. rewrite eval_pcall2, H. reflexivity. Qed.
Lemma eval_name env x v : lookup x env = Some v -> eval W env (PName x) = Ok (v, env).
Proof. intro H. cbn [eval]. rewrite H. reflexivity. Qed.

Definition ret_exp : pexp :=
  PSub (PCall "sorted/key" [(PName "answers"); (PComp (PTuple [(PAttr (PName "a") "priority"); (PNeg (PAttr (PName "a") "weight"))]) ["a"] (PName "answers") [])]) (PInt 0).

(* the return statement: first element of the list sorted by the lambda's keys = the model's first minimiser *)
Lemma ret_tail fuel env cl :
  lookup "answers" env = Some (VL (map vsrv cl)) ->
  exec W fuel env (SReturn ret_exp) =
  match cl with [] => Raise IndexError | a :: r => Ok (Ret (vsrv (pick_from a r))) end.
Proof.
  intro Ha. unfold ret_exp. cbn [exec]. rewrite eval_psub, (eval_pcall2' _ _ _ _ _ (eval_name _ _ _ Ha)), eval_comp0.
  rewrite (eval_name _ _ _ Ha). cbn [bind].
  change (w_iter W (VL (map vsrv cl))) with (Ok (A:=list (pv obj)) (map vsrv cl)). cbn [bind].
  rewrite keys_each. cbn [bind].
  change (w_list W (map keyv cl)) with (VL (map keyv cl)).
  assert (Hc : forall xs ks l', sorted_key xs ks = Some l' -> w_call W "sorted/key" [VL xs; VL ks] = Ok (VL l')).
  { intros xs ks l' Hs. unfold W, World_core.W, std_world, w_call, or_else, core_ext, x_call.
    cbn [String.eqb Ascii.eqb Bool.eqb orb]. rewrite Hs. reflexivity. }
  rewrite (Hc _ _ (map fst (isort_k (map dec cl)))); [|unfold sorted_key; rewrite keys2_keyv, !map_length, Nat.eqb_refl, combine_dec; reflexivity].
  cbn [bind].
  change (w_int W 0) with (VI (O:=obj) 0).
  destruct cl as [|a r].
  - reflexivity.
  - change (map dec (a :: r)) with (dec a :: map dec r).
    pose proof (hd_isort_pick (map dec r) (dec a) (dec a)) as H.
    rewrite <- pick_from_pick_k in H.
    destruct (isort_k (dec a :: map dec r)) as [|m s] eqn:Em; [exfalso; eapply isort_k_nonnil; eassumption|].
    cbn [hd] in H. subst m. reflexivity.
Qed.

Lemma flow_get_highest_answer fuel l :
  run W fuel k_flow_get_highest_answer [VO (OAnswer l)] = gha_model l.
Proof.
  unfold run, k_flow_get_highest_answer. cbn [pf_params pf_body bind_params bind].
  rewrite exec_block_cons.
  cbn [exec eval bind update bind_targets].
  change (w_list W []) with (VL (O:=obj) []).
  rewrite exec_block_cons.
  rewrite exec_for. cbn [eval lookup String.eqb Ascii.eqb Bool.eqb update bind].
  change (w_iter W (VO (OAnswer l))) with (Ok (A:=list (pv obj)) (map vsrv l)). cbn [bind].
  match goal with |- context [for_each W fuel ?xs ?body ?items ?env] =>
    destruct (loop_append fuel body l env [] eq_refl eq_refl) as [env' [H1 H2]] end.
  rewrite H1. cbn [bind]. cbn [app] in H2.
  rewrite exec_block_cons.
  change (SReturn _) with (SReturn ret_exp).
  rewrite (ret_tail fuel env' (map conv l) H2).
  unfold gha_model, get_highest_answer. destruct (map conv l) as [|a r]; reflexivity.
Qed.
End Tie.
