(* Tie theorems for _security_descriptor.py (sid_to_bytes, ace_to_bytes, acl_to_bytes, sd_to_bytes): the regenerated syntax
   (gen/F_sd.v), run in the world Flow/World_sd.v, computes exactly the model functions of Model/SecDesc.v the C08 theorems
   are about. *)
From V Require Import Prelude.Base Prelude.PyInt Prelude.PySlice Prelude.PyAst Prelude.PyWorld gen.K_sd gen.F_sd.
From V Require Import Model.Types Model.SecDesc Flow.World_sd.
From V Require Import Proofs.SecDescK Proofs.SecDescStr Proofs.SecDescLayout Proofs.SecDescMain Proofs.Flow_sd_lib.
Local Open Scope string_scope.
Local Open Scope list_scope.
Local Open Scope Z_scope.

#[local] Arguments len : simpl never.
#[local] Arguments le : simpl never.
#[local] Arguments be : simpl never.
#[local] Arguments to_bytes_le : simpl never.
#[local] Arguments to_bytes_be : simpl never.
#[local] Arguments sid_to_bytes : simpl never.
#[local] Arguments acl_to_bytes : simpl never.
#[local] Arguments sid_parse : simpl never.
#[local] Arguments sid_bytes : simpl never.
#[local] Arguments sid_match : simpl never.
#[local] Arguments split_on : simpl never.
#[local] Arguments py_int : simpl never.
#[local] Arguments k_sid_auth_bad : simpl never.
#[local] Arguments k_sid_sub_bad : simpl never.
#[local] Arguments k_sd_control0 : simpl never.
#[local] Arguments k_sd_control_sacl : simpl never.
#[local] Arguments k_sd_control_dacl : simpl never.
#[local] Arguments k_sd_off_sacl : simpl never.
#[local] Arguments k_sd_off_dacl : simpl never.
#[local] Arguments k_sd_off_owner : simpl never.

Lemma len_map {A B} (f : A -> B) l : len (map f l) = len l.
Proof. unfold len. now rewrite map_length. Qed.

Lemma all_vb_map l : all_vb (map VB l) = Some l.
Proof. induction l as [|b l IH]; cbn [map all_vb]; [reflexivity|]. now rewrite IH. Qed.

Lemma join_map (l : list bytes) : join_bytes (O := obj) [] (map VB l) = Ok (concat l).
Proof.
  induction l as [|b l IH]; [reflexivity|]. cbn [map].
  destruct l as [|b' l]; [cbn; now rewrite app_nil_r|].
  change (join_bytes [] (VB b :: map VB (b' :: l))) with (let* t := join_bytes (O := obj) [] (map VB (b' :: l)) in Ok (b ++ [] ++ t)).
  rewrite IH. reflexivity.
Qed.


(* controlled evaluation of the interpreter: only the interpreter, the world and string comparison are unfolded; integer
   arithmetic, len, le/be, the model's functions and the kernels stay folded *)
Ltac ev :=
  cbn [run bind_params pf_params pf_body exec_block exec eval bind lookup update update_all bind_targets owner_of place_get place_set test fst snd
       k_flow_sid_to_bytes k_flow_ace_to_bytes k_flow_acl_to_bytes k_flow_sd_to_bytes
       String.eqb Ascii.eqb Bool.eqb andb orb negb length Nat.eqb
       W std_world w_glob w_attr w_setattr w_call w_meth w_int w_bytes w_str w_none w_bool w_truthy w_cmp w_bin w_neg w_tuple
       w_list w_untuple w_iter w_sub w_slice w_enter w_exit w_exc std_exc
       sd_ext x_glob x_attr x_setattr x_call x_meth x_truthy x_eqb x_iter x_enter x_exit x_exc or_else
       builtin_call builtin_meth v_bin v_cmp v_truthy v_iter v_sub v_eqb vb byteorder_little zs_eqb to_bytes_generic
       is_none opt_index v_slice lift vlist vacl
       Z.eqb Pos.eqb Z.ltb Z.compare Pos.compare Pos.compare_cont].

(* ---- sid_to_bytes ---------------------------------------------------------------------------------------- *)
Definition sid_loop_body : list pstmt :=
  Eval cbv in match nth 10 (pf_body k_flow_sid_to_bytes) SPass with SFor _ _ b => b | _ => [] end.


Lemma set_item_0 x t v : 0 <= v < 256 -> set_item (x :: t) 0 v = Ok (v :: t).
Proof.
  intros Hv. unfold set_item. rewrite len_cons. pose proof (len_nonneg t).
  destruct ((v <? 0) || (256 <=? v)) eqn:E1; [lia|]. change (0 <? 0) with false. cbv iota.
  destruct ((0 <? 0) || (1 + len t <=? 0)) eqn:E2; [lia|]. reflexivity.
Qed.
Lemma set_item_1 x y t v : 0 <= v < 256 -> set_item (x :: y :: t) 1 v = Ok (x :: v :: t).
Proof.
  intros Hv. unfold set_item. rewrite !len_cons. pose proof (len_nonneg t).
  destruct ((v <? 0) || (256 <=? v)) eqn:E1; [lia|]. change (1 <? 0) with false. cbv iota.
  destruct ((1 <? 0) || (1 + (1 + len t) <=? 1)) eqn:E2; [lia|]. reflexivity.
Qed.

Lemma be_ok w z : 0 <= z < P w -> to_bytes_be w z = Ok (be w z).
Proof. intros H. unfold to_bytes_be. destruct ((0 <=? z) && (z <? P w)) eqn:E; [reflexivity|lia]. Qed.

Lemma py_int_nonneg p z : py_int p = Ok z -> 0 <= z.
Proof.
  unfold py_int. destruct (digit_str p) eqn:E; [|discriminate]. destruct (short_str p); [|discriminate].
  intros H. apply Ok_inj in H. subst z.
  now apply dec_val_digit_str_nonneg.
Qed.

Lemma index_mid {A} (pre : list A) x rest : PySlice.index (pre ++ x :: rest) (len pre) = Ok x.
Proof.
  unfold PySlice.index. rewrite len_app, len_cons. pose proof (len_nonneg pre). pose proof (len_nonneg rest).
  destruct (len pre <? 0) eqn:E0; [lia|].
  destruct ((0 <=? len pre) && (len pre <? len pre + (1 + len rest))) eqn:E1; [|lia].
  unfold len. rewrite Nat2Z.id, nth_error_app2, Nat.sub_diag by lia. reflexivity.
Qed.

Lemma parse_subs_length l : forall vs, parse_subs l = Ok vs -> length vs = length l.
Proof.
  induction l as [|p l IH]; intros vs H; cbn [parse_subs] in H.
  - apply Ok_inj in H. now subst.
  - destruct (py_int p) as [z|]; cbn [bind] in H; [|discriminate].
    destruct (k_sid_sub_bad z); [discriminate|].
    destruct (parse_subs l) as [vs'|]; cbn [bind] in H; [|discriminate].
    apply Ok_inj in H. subst vs. cbn [length]. f_equal. now apply IH.
Qed.

Lemma sid_loop fuel : forall rest pre env d,
  lookup "sid_split" env = Some (VL (map VS (pre ++ rest))) ->
  lookup "data" env = Some (VB d) ->
  match parse_subs rest with
  | Raise e => for_each W fuel ["idx"] sid_loop_body (zrange (length rest) (len pre)) env = Raise e
  | Ok vs => exists env', for_each W fuel ["idx"] sid_loop_body (zrange (length rest) (len pre)) env = Ok (Next env')
                          /\ lookup "data" env' = Some (VB (d ++ concat (map (le 4) vs)))
  end.
Proof.
  induction rest as [|p rest IH]; intros pre env d Hs Hd.
  - cbn [parse_subs length zrange for_each map concat]. exists env. rewrite app_nil_r. auto.
  - cbn [parse_subs length zrange]. unfold sid_loop_body. cbn [for_each]. ev. rewrite Hs. ev.
    rewrite map_app. cbn [map]. rewrite <- (len_map (@VS obj) pre), index_mid, len_map. ev.
    destruct (py_int p) as [z|e] eqn:Ep; ev; [|reflexivity].
    apply py_int_nonneg in Ep. unfold k_sid_sub_bad. rewrite Z.geb_leb.
    destruct (2 ^ 32 <=? z) eqn:Ez; ev; [reflexivity|].
    rewrite Hd. ev. change (Z.to_nat 4) with 4%nat. rewrite to_bytes_le_ok by (rewrite P_4'; lia). ev.
    fold sid_loop_body.
    specialize (IH (pre ++ [p]) (update "data" (VB (d ++ le 4 z))
             (update "sub_auth" (VI z) (update "sub_auth" (VI z) (update "idx" (VI (len pre)) env)))) (d ++ le 4 z)).
    rewrite len_app, <- app_assoc in IH. change (len [p]) with 1 in IH. cbn [app] in IH.
    assert (H1 : lookup "sid_split" (update "data" (VB (d ++ le 4 z))
             (update "sub_auth" (VI z) (update "sub_auth" (VI z) (update "idx" (VI (len pre)) env))))
             = Some (VL (map VS (pre ++ p :: rest)))) by (ev; exact Hs).
    specialize (IH H1 eq_refl).
    destruct (parse_subs rest) as [vs|e]; cbn [bind].
    + destruct IH as (env' & H2 & H3). exists env'. split; [exact H2|]. rewrite H3. cbn [map concat]. now rewrite <- app_assoc.
    + exact IH.
Qed.

Lemma flow_sid_to_bytes fuel s : run W fuel k_flow_sid_to_bytes [VS s] = lift (sid_to_bytes s).
Proof.
  unfold run. cbn [bind_params pf_params k_flow_sid_to_bytes pf_body].
  match goal with |- context [SFor ?xs ?it ?b] => remember (SFor xs it b) as loop eqn:Hloop end.
  ev. change (str_eqb _ k_sid_regex) with true. cbv iota.
  unfold sid_to_bytes, sid_parse.
  destruct (sid_match s) eqn:Hm; ev; [|reflexivity].
  destruct (sid_match_parts s Hm) as (r & a & subs & Hs & Hr & Ha & Hn & Hd).
  change (split_on (sep_char k_sid_split_sep) s) with (split_on 45 s). rewrite Hs.
  unfold pystr in *.
  assert (Hr1 : digit_str [r] = true) by (cbn [digit_str forallb]; now rewrite Hr).
  assert (Hrv : 0 <= dec_val 0 [r] < 256) by (cbn [dec_val]; unfold is_digit in Hr; lia).
  pose proof (dec_val_digit_str_nonneg a Ha) as Ha0.
  cbn [map]. rewrite !index_1, !index_2. ev. rewrite !(py_int_short [r] Hr1 (short_1 r)), !(py_int_digits a Ha). ev.
  rewrite index_2. ev. rewrite ?(py_int_digits a Ha).
  destruct (short_str a); ev; [|reflexivity].
  unfold k_sid_auth_bad. rewrite Z.geb_leb.
  destruct (2 ^ 48 <=? dec_val 0 a) eqn:Eauth; ev; [reflexivity|].
  change (Z.to_nat 8) with 8%nat. rewrite be_ok by (rewrite P_8; change (2 ^ 48) with 281474976710656 in Eauth; lia). ev.
  destruct (be 8 (dec_val 0 a)) as [|b0 [|b1 bt]] eqn:Ebe;
    [apply (f_equal (@length Z)) in Ebe; rewrite be_length in Ebe; discriminate
    |apply (f_equal (@length Z)) in Ebe; rewrite be_length in Ebe; discriminate|].
  rewrite set_item_0 by exact Hrv. ev.
  rewrite !len_cons, len_map.
  match goal with |- context [1 + (1 + (1 + ?n)) - 3] => replace (1 + (1 + (1 + n)) - 3) with n by lia end.
  rewrite set_item_1 by (unfold len; lia). ev.
  subst loop. rewrite exec_for. ev.
  rewrite !len_cons, len_map.
  match goal with |- context [1 + (1 + (1 + ?n)) - 3] => replace (1 + (1 + (1 + n)) - 3) with n by lia end.
  unfold len at 1. rewrite Nat2Z.id.
  change k_sid_first_sub with 3. rewrite slice_3.
  match goal with |- context [for_each W fuel ["idx"] ?b (zrange _ 3) ?env] =>
    pose proof (sid_loop fuel subs [[83]; [r]; a] env _ eq_refl eq_refl) as HL end.
  change (len [[83]; [r]; a]) with 3 in HL. unfold sid_loop_body in HL.
  destruct (parse_subs subs) as [vs|e] eqn:Eps.
  - destruct HL as (env' & HL & Hdata). rewrite HL. ev. rewrite Hdata. ev.
    unfold sid_bytes. cbn [sid_rev sid_auth sid_subs].
    change (int_bytes k_sid_auth_order k_sid_auth_width (dec_val 0 a)) with (be 8 (dec_val 0 a)).
    change (int_bytes k_sid_sub_order k_sid_sub_width) with (le 4).
    rewrite Ebe. cbn [set01 skipn]. apply parse_subs_length in Eps. unfold len. rewrite Eps. reflexivity.
  - rewrite HL. reflexivity.
Qed.

(* ---- acl_to_bytes ---------------------------------------------------------------------------------------- *)
Lemma flow_acl_to_bytes fuel aces :
  run W fuel k_flow_acl_to_bytes [vlist aces] = lift (acl_to_bytes aces).
Proof.
  unfold acl_to_bytes, acl_bytes. ev. rewrite join_map. ev.
  change (Z.to_nat 2) with 2%nat. unfold to_bytes_le.
  destruct ((0 <=? 8 + len (concat aces)) && (8 + len (concat aces) <? P 2)); ev; [|reflexivity].
  rewrite len_map.
  destruct ((0 <=? len aces) && (len aces <? P 2)); ev; [|reflexivity].
  cbn [join_bytes bind concat]. rewrite !app_nil_r. reflexivity.
Qed.

(* ---- ace_to_bytes ---------------------------------------------------------------------------------------- *)
Lemma flow_ace_to_bytes fuel sid access_mask :
  run W fuel k_flow_ace_to_bytes [VS sid; VI access_mask] = lift (ace_to_bytes sid access_mask).
Proof.
  unfold ace_to_bytes, ace_bytes. ev. unfold sid_to_bytes. ev.
  destruct (sid_parse sid) as [x|e]; ev; [|reflexivity].
  change (Z.to_nat 2) with 2%nat. change (Z.to_nat k_ace_mask_width) with 4%nat. change (Z.to_nat 4) with 4%nat.
  change (int_bytes k_ace_mask_order k_ace_mask_width access_mask) with (le 4 access_mask).
  unfold to_bytes_le.
  destruct ((0 <=? 8 + len (sid_bytes x)) && (8 + len (sid_bytes x) <? P 2)); ev; [|reflexivity].
  destruct ((0 <=? access_mask) && (access_mask <? P 4)); ev; [|reflexivity].
  cbn [join_bytes bind concat]. rewrite !app_nil_r. reflexivity.
Qed.

(* ---- sd_to_bytes ----------------------------------------------------------------------------------------- *)
Lemma acl_to_bytes_ok aces b : acl_to_bytes aces = Ok b -> b = acl_bytes aces /\ 8 <= len b < 65536.
Proof.
  unfold acl_to_bytes, to_bytes_le. rewrite P_2.
  destruct ((0 <=? 8 + len (concat aces)) && (8 + len (concat aces) <? 65536)) eqn:E1; cbn [bind]; [|discriminate].
  destruct ((0 <=? len aces) && (len aces <? 65536)) eqn:E2; cbn [bind]; [|discriminate].
  intros H. apply Ok_inj in H. subst b. split; [reflexivity|]. rewrite len_acl_bytes.
  pose proof (len_nonneg (concat aces)). lia.
Qed.

Lemma sid_parse_len s x : sid_parse s = Ok x -> 12 <= len (sid_bytes x) <= 68.
Proof.
  intros H. apply sid_parse_wf, wf_sid_facts in H. destruct H as (_ & _ & H & _).
  rewrite len_sid_bytes. unfold len. lia.
Qed.

Lemma truthy_vlist (l : list bytes) : negb (len (map (@VB obj) l) =? 0) = match l with [] => false | _ => true end.
Proof. rewrite len_map. destruct l; [reflexivity|]. rewrite len_cons. pose proof (len_nonneg l). lia. Qed.

Ltac norm_ctl :=
  change (Z.shiftl 128 8) with 32768; change (Z.lor 32768 16) with 32784; change (Z.lor 32768 4) with 32772;
  change (Z.lor 32784 4) with 32788.

Ltac sd_acl :=
  match goal with
  | |- context [acl_to_bytes ?l] =>
    let E := fresh "E" in let H := fresh "H" in
    destruct (acl_to_bytes l) as [?b|?e] eqn:E;
    [apply acl_to_bytes_ok in E; destruct E as [-> H]|reflexivity]
  end.
Ltac sd_sid :=
  match goal with
  | |- context [sid_parse ?s] =>
    let E := fresh "E" in
    destruct (sid_parse s) as [?x|?e] eqn:E; [apply sid_parse_len in E|reflexivity]
  end.

Ltac sd_go :=
  repeat first
    [ progress ev
    | rewrite truthy_vlist
    | rewrite all_vb_map
    | progress unfold sid_to_bytes
    | sd_acl
    | sd_sid ].

Lemma flow_sd_to_bytes fuel owner group sacl dacl :
  run W fuel k_flow_sd_to_bytes [VS owner; VS group; vacl sacl; vacl dacl]
  = lift (sd_to_bytes owner group (acl_of sacl) (acl_of dacl)).
Proof.
  unfold sd_to_bytes, acl_check.
  destruct sacl as [[|s1 sl]|]; destruct dacl as [[|d1 dl]|]; cbn [acl_of]; sd_go.
  all: change (Z.to_nat 2) with 2%nat; change (Z.to_nat 4) with 4%nat; norm_ctl.
  all: repeat (rewrite to_bytes_le_ok by (rewrite ?P_2, ?P_4; lia); ev).
  all: cbn [join_bytes bind]; unfold sd_bytes; cbv beta iota zeta.
  all: unfold k_sd_control0, k_sd_control_sacl, k_sd_control_dacl, k_sd_off_sacl, k_sd_off_dacl, k_sd_off_owner,
           k_sd_header_len, k_sd_sacl_off0, k_sd_dacl_off0; norm_ctl.
  all: cbn [concat]; rewrite ?app_nil_r, ?app_nil_l, <- ?app_assoc; try reflexivity.
Qed.
