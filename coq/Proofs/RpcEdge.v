(* C12, the edges of the well-formedness predicates: what the codecs DO on the inputs wf_lengths / wf_ept_map /
   wf_entry_handle / wf_bind_nak / wf_commands exclude.  Each case packs to the same octets as a well-formed message,
   which is therefore what comes back (DCE/RPC: auth_length = 0 means "no auth trailer"; a nil UUID / an all-zero
   context handle is the NDR encoding of "absent"). *)
From V Require Import Prelude.Base Prelude.PyInt Prelude.PySlice Prelude.PyStr.
From V Require Import Model.Pdu Model.Request Model.RpcLoop Model.Bind Model.Verification Model.RpcDispatch Model.Epm.
From V Require Import Proofs.RpcLib Proofs.RpcKernels Proofs.RpcPdu Proofs.RpcRoundtrip Proofs.RpcEpm Proofs.RpcEptMap Proofs.RpcVerification.

(* (a) a security trailer on a PDU whose header says auth_len = 0 (in particular: a trailer with an EMPTY auth value on an
   otherwise consistent PDU): PDU.unpack reads no trailer, the 8 trailer octets are the tail of stub_data, and the
   decoded PDU (no trailer, longer stub) re-packs to the same octets *)
Definition request_absorbed (m : request) (t : sec_trailer) : request :=
  {| rq_header := rq_header m; rq_sec_trailer := None; rq_alloc_hint := rq_alloc_hint m; rq_context_id := rq_context_id m;
     rq_opnum := rq_opnum m; rq_obj := rq_obj m; rq_stub_data := rq_stub_data m ++ sec_trailer_pack t |}.
Definition response_absorbed (m : response) (t : sec_trailer) : response :=
  {| rs_header := rs_header m; rs_sec_trailer := None; rs_alloc_hint := rs_alloc_hint m; rs_context_id := rs_context_id m;
     rs_cancel_count := rs_cancel_count m; rs_stub_data := rs_stub_data m ++ sec_trailer_pack t |}.
Definition fault_absorbed (m : fault) (t : sec_trailer) : fault :=
  {| f_header := f_header m; f_sec_trailer := None; f_alloc_hint := f_alloc_hint m; f_context_id := f_context_id m;
     f_cancel_count := f_cancel_count m; f_status := f_status m; f_flags := f_flags m;
     f_stub_data := f_stub_data m ++ sec_trailer_pack t |}.

Lemma edge_trailer_request m t fuel : rq_sec_trailer m = Some t -> wf_request (request_absorbed m t) = true ->
  request_pack m = request_pack (request_absorbed m t)
  /\ pdu_unpack fuel (request_pack m) = Ok (PRequest (request_absorbed m t), 0).
Proof.
  intros Ht Hwf.
  assert (E : request_pack m = request_pack (request_absorbed m t)).
  { unfold request_pack, request_body, request_absorbed. rewrite Ht. cbn [rq_header rq_sec_trailer rq_alloc_hint rq_context_id rq_opnum rq_obj rq_stub_data opt_sec_trailer_pack concat].
    rewrite !app_nil_r, <- !app_assoc. reflexivity. }
  split; [exact E|]. rewrite E. apply rt_request, Hwf.
Qed.
Lemma edge_trailer_response m t fuel : rs_sec_trailer m = Some t -> wf_response (response_absorbed m t) = true ->
  response_pack m = response_pack (response_absorbed m t)
  /\ pdu_unpack fuel (response_pack m) = Ok (PResponse (response_absorbed m t), 0).
Proof.
  intros Ht Hwf.
  assert (E : response_pack m = response_pack (response_absorbed m t)).
  { unfold response_pack, response_body, response_absorbed. rewrite Ht. cbn [rs_header rs_sec_trailer rs_alloc_hint rs_context_id rs_cancel_count rs_stub_data opt_sec_trailer_pack concat].
    rewrite !app_nil_r, <- !app_assoc. reflexivity. }
  split; [exact E|]. rewrite E. apply rt_response, Hwf.
Qed.
Lemma edge_trailer_fault m t fuel : f_sec_trailer m = Some t -> wf_fault (fault_absorbed m t) = true ->
  fault_pack m = fault_pack (fault_absorbed m t)
  /\ pdu_unpack fuel (fault_pack m) = Ok (PFault (fault_absorbed m t), 0).
Proof.
  intros Ht Hwf.
  assert (E : fault_pack m = fault_pack (fault_absorbed m t)).
  { unfold fault_pack, fault_body, fault_absorbed. rewrite Ht. cbn [f_header f_sec_trailer f_alloc_hint f_context_id f_cancel_count f_status f_flags f_stub_data opt_sec_trailer_pack concat].
    rewrite !app_nil_r, <- !app_assoc. reflexivity. }
  split; [exact E|]. rewrite E. apply rt_fault, Hwf.
Qed.

(* (b) a nil object UUID / an all-zero entry handle pack to the octets of "absent" and therefore decode to None *)
Definition ept_map_with_obj (o : option bytes) (m : ept_map) : ept_map :=
  {| em_obj := o; em_tower := em_tower m; em_entry_handle := em_entry_handle m; em_max_towers := em_max_towers m |}.
Lemma edge_nil_object m fuel : em_obj m = None -> wf_ept_map m = true -> in_range 4 (len (tower_bytes (em_tower m))) = true ->
  (length (ept_map_pack m) <= fuel)%nat ->
  ept_map_pack (ept_map_with_obj (Some (repeat 0 16)) m) = ept_map_pack m
  /\ ept_map_unpack fuel (ept_map_pack (ept_map_with_obj (Some (repeat 0 16)) m)) = Ok (ept_map_norm m, len (em_tower m)).
Proof.
  intros Ho Hwf HL Hf.
  assert (E : ept_map_pack (ept_map_with_obj (Some (repeat 0 16)) m) = ept_map_pack m).
  { unfold ept_map_pack, ept_map_with_obj. cbn [em_obj em_tower em_entry_handle em_max_towers]. rewrite Ho. reflexivity. }
  split; [exact E|]. rewrite E. exact (ept_map_rt m fuel Hwf HL (ept_map_fuel m fuel Hf)).
Qed.
Lemma edge_zero_handle rest :
  entry_handle_pack (Some (0, repeat 0 16)) = entry_handle_pack None
  /\ entry_handle_unpack (entry_handle_pack (Some (0, repeat 0 16)) ++ rest) = Ok None.
Proof.
  assert (E : entry_handle_pack (Some (0, repeat 0 16)) = entry_handle_pack None) by reflexivity.
  split; [exact E|]. rewrite E. exact (entry_handle_rt None rest eq_refl).
Qed.

(* (c) BindNak.pack does not emit a security trailer and BindNak._unpack returns sec_trailer=None: a trailer on the
   message is dropped *)
Definition bind_nak_with_trailer (t : sec_trailer) (m : bind_nak) : bind_nak :=
  {| bn_header := bn_header m; bn_sec_trailer := Some t; bn_reject_reason := bn_reject_reason m; bn_versions := bn_versions m |}.
Lemma edge_bind_nak_trailer m t fuel : wf_bind_nak m = true -> (length (bind_nak_pack m) <= fuel)%nat ->
  bind_nak_pack (bind_nak_with_trailer t m) = bind_nak_pack m
  /\ pdu_unpack fuel (bind_nak_pack (bind_nak_with_trailer t m)) = Ok (PBindNak m, len (bn_versions m)).
Proof. intros Hwf Hf. split; [reflexivity|]. exact (rt_bind_nak m fuel Hwf Hf). Qed.

(* (d) the empty command list packs to the bare signature, which VerificationTrailer.unpack rejects (no command has
   SEC_VT_COMMAND_END set): ValueError *)
Lemma edge_vt_empty fuel : verification_trailer_pack [] = c_VT_signature
  /\ verification_trailer_unpack (S fuel) (verification_trailer_pack []) = Raise ValueError.
Proof. split; reflexivity. Qed.

(* the hypotheses of (a) are met by a request whose trailer has an empty auth value and whose header is consistent with
   it (auth_len = 0, frag_len = the packed length) *)
Definition ex_edge_trailer : sec_trailer := {| st_type := 10; st_level := 6; st_pad_length := 0; st_context_id := 7; st_auth_value := [] |}.
Definition ex_edge_request : request :=
  {| rq_header := {| h_version := 5; h_version_minor := 0; h_packet_type := 0; h_packet_flags := 3; h_data_rep := data_rep_default;
                     h_frag_len := 35; h_auth_len := 0; h_call_id := 1 |};
     rq_sec_trailer := Some ex_edge_trailer; rq_alloc_hint := 3; rq_context_id := 0; rq_opnum := 0; rq_obj := None; rq_stub_data := [1; 2; 3] |}.
Lemma example_edge_trailer : rq_sec_trailer ex_edge_request = Some ex_edge_trailer /\ st_auth_value ex_edge_trailer = []
  /\ h_auth_len (rq_header ex_edge_request) = len (st_auth_value ex_edge_trailer)
  /\ h_frag_len (rq_header ex_edge_request) = len (request_pack ex_edge_request)
  /\ wf_request (request_absorbed ex_edge_request ex_edge_trailer) = true.
Proof. repeat split; vm_compute; reflexivity. Qed.
