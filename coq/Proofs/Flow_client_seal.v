(* Tie theorems, sealed replies (C16): the regenerated syntax of RpcClient._process_response and AuthenticationProvider.unwrap
   (gen/F_client.v), run in the world Flow/World_client.v, computes Model/Seal.v's unseal followed by PDU.unpack
   (Model/RpcDispatch.v) and the class checks; that composition is Seal.process_response whenever the reply is a RESPONSE PDU
   or a PDU of another type that decodes or fails with ValueError (Seal.v refuses other types without decoding them: its comment). *)
From V Require Import Prelude.Base Prelude.PyInt Prelude.PySlice Prelude.PyAst Prelude.PyWorld gen.F_client gen.K_client gen.C_client gen.C_rpc.
From V Require Import Model.Pdu Model.Request Model.Bind Model.Verification Model.RpcDispatch.
From V Require Import Model.Handshake Model.Framing Model.Seal Model.Recv Model.Conversation Model.Types Model.Gkdi.
From V Require Import Flow.World_client Proofs.FlowClientLib.
Local Open Scope string_scope.
Local Open Scope list_scope.
Local Open Scope Z_scope.

Arguments len : simpl never.
Arguments slice : simpl never.
Arguments norm : simpl never.
Arguments Z.max : simpl never.
Arguments pdu_unpack : simpl never.
Arguments k_unwrap_guard : simpl never.
Arguments k_reject_unsealed : simpl never.
Arguments k_sec_trailer_offset : simpl never.
Arguments k_unwrap_trailer_len : simpl never.

Section Seal.
Context (wrap : wrap_fn) (unwrap : unwrap_fn) (pfuel : nat) (sch : list Z).
Notation W := (WC wrap unwrap pfuel sch).

(* AuthenticationProvider.unwrap(self, header, body, trailer, signature, sign_header): spnego's unwrap_iov is the model's unwrap_fn *)
Lemma flow_auth_unwrap fuel ap h b t sg (sign : bool) :
  run W fuel k_flow_auth_unwrap [VO (OAuthP ap); VB h; VB b; VB t; VB sg; vb sign]
  = (let* d := unwrap h b t sg sign in Ok (VB d)).
Proof.
  assert (I1 : forall (a0 a1 a2 a3 : pv obj), PySlice.index [a0; a1; a2; a3] 1 = Ok a1) by reflexivity.
  cbn. rewrite truthy_vb. destruct sign; cbn; destruct (unwrap h b t sg _) as [[|d0 d]|e]; cbn;
    repeat (first [rewrite I1 | rewrite len_cons_nz | rewrite len_nil_z]; cbn); reflexivity.
Qed.


(* what the source does: unseal, PDU.unpack (all registered types are decoded), then the class checks *)
Definition process_response_src (auth : bool) (offs : option (Z * Z)) (sign : bool) (hdr : pdu_header) (resp : bytes) : res pdu :=
  let* clear := unseal unwrap auth offs sign hdr resp in
  let* (p, _) := pdu_unpack pfuel clear in
  if pdu_type p =? c_PT_BIND_NAK then Raise ValueError
  else if pdu_type p =? c_PT_FAULT then Raise ValueError
  else if negb (pdu_type p =? c_PT_RESPONSE) then Raise ValueError
  else if k_reject_unsealed auth (is_some offs) (h_auth_len hdr) then Raise ValueError
  else Ok p.

Lemma slice_to_firstn {A} (b : list A) a : 0 <= a <= len b -> slice None (Some a) b = firstn (Z.to_nat a) b.
Proof.
  intro H. unfold slice, norm. destruct (Z.ltb_spec a 0); [lia|].
  rewrite Z.min_l by lia. cbn [skipn Z.to_nat]. now rewrite Z.sub_0_r.
Qed.
Lemma slice_to_skipn {A} (b : list A) z : 0 <= z <= len b -> slice (Some z) None b = skipn (Z.to_nat z) b.
Proof.
  intro H. unfold slice, norm. destruct (Z.ltb_spec z 0); [lia|].
  rewrite Z.min_l by lia. apply firstn_all2. rewrite skipn_length. unfold len in *. lia.
Qed.
Lemma norm_range n i : 0 <= n -> 0 <= norm n i <= n.
Proof. unfold norm. destruct (Z.ltb_spec i 0); lia. Qed.

Lemma setslice_assign (b : bytes) lo hi v :
  slice None (Some (norm (len b) lo)) b ++ v ++ slice (Some (Z.max (norm (len b) lo) (norm (len b) hi))) None b
  = assign_slice b lo hi v.
Proof.
  unfold assign_slice. pose proof (len_nonneg b) as Hn.
  pose proof (norm_range (len b) lo Hn). pose proof (norm_range (len b) hi Hn).
  rewrite slice_to_firstn by lia. rewrite slice_to_skipn by lia. reflexivity.
Qed.


Definition pr_tail : list pstmt := skipn 1 (pf_body k_flow_process_response).

Lemma pr_tail_ok fuel c clear hdr offs env :
  lookup "response" env = Some (VB clear) ->
  lookup "self" env = Some (VO (OSelf c)) ->
  lookup "encrypt_offsets" env = Some (offv offs) ->
  lookup "pdu_header" env = Some (VO (OHdr hdr)) ->
  lookup "resp_type" env = Some (VI c_PT_RESPONSE) ->
  lookup "BindNak" env = None -> lookup "Fault" env = None ->
  exec_block W fuel pr_tail env =
  (let* (p, _) := pdu_unpack pfuel clear in
   if pdu_type p =? c_PT_BIND_NAK then Raise ValueError
   else if pdu_type p =? c_PT_FAULT then Raise ValueError
   else if negb (pdu_type p =? c_PT_RESPONSE) then Raise ValueError
   else if k_reject_unsealed (is_some (cl_auth c)) (is_some offs) (h_auth_len hdr) then Raise ValueError
   else Ok (Ret (VO (OPdu p)))).
Proof.
  intros Hr Hs Ho Hh Ht Hn Hf.
  assert (L2 : forall (a0 a1 : pv obj), (len [a0; a1] =? 0) = false) by reflexivity.
  unfold pr_tail. cbn [skipn pf_body k_flow_process_response].
  cbn. rewrite Hr. cbn. destruct (pdu_unpack pfuel clear) as [[p tk]|e]; cbn; [|reflexivity].
  unfold test. cbn. rewrite Hn. cbn. rewrite truthy_vb.
  destruct (pdu_type p =? c_PT_BIND_NAK) eqn:E1; cbn; [reflexivity|].
  rewrite Hf. cbn. rewrite truthy_vb.
  destruct (pdu_type p =? c_PT_FAULT) eqn:E2; cbn; [reflexivity|].
  rewrite Ht. cbn. rewrite truthy_vb.
  destruct (pdu_type p =? c_PT_RESPONSE) eqn:E3; cbn; [|reflexivity].
  rewrite Hs. cbn. unfold k_reject_unsealed.
  destruct (cl_auth c) as [pv|]; cbn.
  - rewrite Ho. destruct offs as [[o0 o1]|]; cbn; rewrite ?L2; cbn.
    + rewrite Hh. cbn. rewrite truthy_vb. destruct (h_auth_len hdr =? 0); cbn; reflexivity.
    + reflexivity.
  - reflexivity.
Qed.

(* _process_response(self, response, pdu_header, Response, encrypt_offsets) *)
Lemma flow_process_response fuel c resp hdr offs :
  run W fuel k_flow_process_response [VO (OSelf c); VB resp; VO (OHdr hdr); VI c_PT_RESPONSE; offv offs]
  = (let* p := process_response_src (is_some (cl_auth c)) offs (cl_sign c) hdr resp in Ok (VO (OPdu p))).
Proof.
  assert (I0 : forall (a0 a1 : pv obj), PySlice.index [a0; a1] 0 = Ok a0) by reflexivity.
  assert (L2 : forall (a0 a1 : pv obj), (len [a0; a1] =? 0) = false) by reflexivity.
  assert (Tl : forall clear env,
    lookup "response" env = Some (VB clear) -> lookup "self" env = Some (VO (OSelf c)) ->
    lookup "encrypt_offsets" env = Some (offv offs) -> lookup "pdu_header" env = Some (VO (OHdr hdr)) ->
    lookup "resp_type" env = Some (VI c_PT_RESPONSE) -> lookup "BindNak" env = None -> lookup "Fault" env = None ->
    (let* o := exec_block W fuel pr_tail env in match o with Ret v => Ok v | _ => Ok VN end)
    = (let* p := (let* (p, _) := pdu_unpack pfuel clear in
                  if pdu_type p =? c_PT_BIND_NAK then Raise ValueError
                  else if pdu_type p =? c_PT_FAULT then Raise ValueError
                  else if negb (pdu_type p =? c_PT_RESPONSE) then Raise ValueError
                  else if k_reject_unsealed (is_some (cl_auth c)) (is_some offs) (h_auth_len hdr) then Raise ValueError
                  else Ok p) in Ok (VO (OPdu p)))).
  { intros clear env H1 H2 H3 H4 H5 H6 H7. rewrite (pr_tail_ok fuel c clear hdr offs env H1 H2 H3 H4 H5 H6 H7).
    destruct (pdu_unpack pfuel clear) as [[p tk]|e]; cbn; [|reflexivity].
    destruct (pdu_type p =? c_PT_BIND_NAK); [reflexivity|]. destruct (pdu_type p =? c_PT_FAULT); [reflexivity|].
    destruct (negb (pdu_type p =? c_PT_RESPONSE)); [reflexivity|]. destruct (k_reject_unsealed _ _ _); reflexivity. }
  unfold process_response_src, unseal, unwrap_slices, k_unwrap_guard, k_sec_trailer_offset, k_unwrap_trailer_len.
  unfold run. cbn [bind_params pf_params pf_body k_flow_process_response].
  match goal with |- context [exec_block W fuel ?body ?env] => change body with (firstn 1 body ++ pr_tail) end.
  rewrite exec_block_app. cbn [firstn]. remember pr_tail as tl eqn:Etl.
  rewrite exec_block_cons, exec_if. unfold test.
  destruct (cl_auth c) as [pv|] eqn:Ea; destruct offs as [[o0 o1]|]; cbn; rewrite ?Ea; cbn; rewrite ?L2; cbn.
  - destruct (h_auth_len hdr =? 0) eqn:El; cbn.
    + subst tl. rewrite (Tl resp) by reflexivity. rewrite ?Ea. reflexivity.
    + repeat (first [rewrite I0 | rewrite Ea | rewrite truthy_vb]; cbn).
      destruct (unwrap _ _ _ _ _) as [dec|e]; cbn; [|reflexivity].
      repeat (first [rewrite I0 | rewrite Ea | rewrite truthy_vb]; cbn). rewrite setslice_assign.
      subst tl. rewrite (Tl (assign_slice resp o0 (h_frag_len hdr - (h_auth_len hdr + 8)) dec)) by reflexivity.
      rewrite ?Ea. reflexivity.
  - subst tl. rewrite (Tl resp) by reflexivity. rewrite ?Ea. reflexivity.
  - subst tl. rewrite (Tl resp) by reflexivity. rewrite ?Ea. reflexivity.
  - subst tl. rewrite (Tl resp) by reflexivity. rewrite ?Ea. reflexivity.
Qed.


(* PDU.unpack returns an object of the class registered under the header's packet type *)
Lemma pdu_unpack_type data body h st p t :
  pdu_split data = Ok (body, h, st) -> pdu_unpack pfuel data = Ok (p, t) -> pdu_type p = h_packet_type h.
Proof.
  intros Hs. unfold pdu_unpack. rewrite Hs. cbn [bind]. unfold registry_lookup.
  destruct (mem (h_packet_type h) c_PDU_registry); cbn [bind]; [|discriminate].
  repeat match goal with
  | |- (if ?c then _ else _) = _ -> _ => let E := fresh "E" in destruct c eqn:E
  end; intro H;
  repeat match type of H with
  | (let* _ := ?x in _) = _ => let r := fresh "r" in destruct x as [r|?]; cbn [bind] in H; [try destruct r|discriminate]
  end; try discriminate;
  apply Ok_inj in H; inversion H; subst; cbn [pdu_type]; symmetry; apply Z.eqb_eq; assumption.
Qed.

(* ... and that composition is Seal.process_response, unless the reply is a PDU of another registered type whose decoding fails with
   an exception that is not a ValueError (Seal.v refuses those outright; the source decodes them first) *)
Lemma process_response_src_model auth offs sign hdr resp :
  (forall clear body h st e, unseal unwrap auth offs sign hdr resp = Ok clear -> pdu_split clear = Ok (body, h, st) ->
     h_packet_type h <> c_PT_RESPONSE -> registry_lookup (h_packet_type h) = Ok (h_packet_type h) ->
     pdu_unpack pfuel clear = Raise e -> e = ValueError) ->
  process_response_src auth offs sign hdr resp = (let* r := process_response unwrap auth offs sign hdr resp in Ok (PResponse r)).
Proof.
  intro Hyp. unfold process_response_src, process_response.
  destruct (unseal unwrap auth offs sign hdr resp) as [clear|e] eqn:Eu; cbn [bind]; [|reflexivity].
  specialize (Hyp clear).
  destruct (pdu_split clear) as [[[body h] st]|e] eqn:Es; cbn [bind].
  2:{ unfold pdu_unpack. rewrite Es. reflexivity. }
  destruct (h_packet_type h =? c_PT_RESPONSE) eqn:Et.
  - apply Z.eqb_eq in Et. unfold pdu_unpack. rewrite Es. cbn [bind]. rewrite Et. cbn.
    destruct (response_unpack body h st) as [r|e]; cbn; [|reflexivity].
    destruct (k_reject_unsealed _ _ _); reflexivity.
  - assert (Hne : h_packet_type h <> c_PT_RESPONSE) by (apply Z.eqb_neq; exact Et).
    destruct (registry_lookup (h_packet_type h)) as [pt|e] eqn:Er; cbn [bind].
    2:{ unfold pdu_unpack. rewrite Es. cbn [bind]. rewrite Er. reflexivity. }
    assert (pt = h_packet_type h) as ->.
    { unfold registry_lookup in Er. destruct (mem _ _); [apply Ok_inj in Er; congruence|discriminate]. }
    cbn [negb]. destruct (pdu_unpack pfuel clear) as [[p t]|e] eqn:Ep; cbn [bind].
    + pose proof (pdu_unpack_type _ _ _ _ _ _ Es Ep) as Hty. rewrite Hty, Et.
      destruct (h_packet_type h =? c_PT_BIND_NAK); [reflexivity|].
      destruct (h_packet_type h =? c_PT_FAULT); reflexivity.
    + rewrite (Hyp body h st e eq_refl eq_refl Hne Er eq_refl). reflexivity.
Qed.

End Seal.
