(* Tie theorems, sealed replies (C16): the regenerated syntax of RpcClient._process_response and AuthenticationProvider.unwrap
   (gen/F_client.v), run in the world Flow/World_client.v, computes Model/Seal.v's process_response (unseal, PDU.unpack of every
   registered type, the class checks, the rejection of an unsealed reply) -- the function the C16 theorems are about. *)
From V Require Import Prelude.Base Prelude.PyInt Prelude.PySlice Prelude.PyAst Prelude.PyWorld gen.F_client gen.K_client gen.C_client gen.C_rpc.
From V Require Import Model.Pdu Model.Request Model.Bind Model.Verification Model.RpcDispatch.
From V Require Import Model.Handshake Model.Framing Model.Seal Model.Recv Model.Conversation Model.Types Model.Gkdi.
From V Require Import Flow.World_client Proofs.FlowClientLib.
Local Open Scope string_scope.
Local Open Scope list_scope.
Local Open Scope Z_scope.

Arguments len : simpl never.
Arguments slice : simpl never.
Arguments norm : simpl never.
Arguments Z.max : simpl never.
Arguments pdu_unpack : simpl never.
Arguments k_unwrap_guard : simpl never.
Arguments k_reject_unsealed : simpl never.
Arguments k_sec_trailer_offset : simpl never.
Arguments k_unwrap_trailer_len : simpl never.

Section Seal.
Context (wrap : wrap_fn) (unwrap : unwrap_fn) (sch : list Z).
Notation W := (WC wrap unwrap sch).

(* AuthenticationProvider.unwrap(self, header, body, trailer, signature, sign_header): spnego's unwrap_iov is the model's unwrap_fn *)
Lemma flow_auth_unwrap fuel ap h b t sg (sign : bool) :
  run W fuel k_flow_auth_unwrap [VO (OAuthP ap); VB h; VB b; VB t; VB sg; vb sign]
  = (let* d := unwrap h b t sg sign in Ok (VB d)).
Proof.
  assert (I1 : forall (a0 a1 a2 a3 : pv obj), PySlice.index [a0; a1; a2; a3] 1 = Ok a1) by reflexivity.
  cbn. rewrite truthy_vb. destruct sign; cbn; destruct (unwrap h b t sg _) as [[|d0 d]|e]; cbn;
    repeat (first [rewrite I1 | rewrite len_cons_nz | rewrite len_nil_z]; cbn); reflexivity.
Qed.


Lemma slice_to_firstn {A} (b : list A) a : 0 <= a <= len b -> slice None (Some a) b = firstn (Z.to_nat a) b.
Proof.
  intro H. unfold slice, norm. destruct (Z.ltb_spec a 0); [lia|].
  rewrite Z.min_l by lia. cbn [skipn Z.to_nat]. now rewrite Z.sub_0_r.
Qed.
Lemma slice_to_skipn {A} (b : list A) z : 0 <= z <= len b -> slice (Some z) None b = skipn (Z.to_nat z) b.
Proof.
  intro H. unfold slice, norm. destruct (Z.ltb_spec z 0); [lia|].
  rewrite Z.min_l by lia. apply firstn_all2. rewrite skipn_length. unfold len in *. lia.
Qed.
Lemma norm_range n i : 0 <= n -> 0 <= norm n i <= n.
Proof. unfold norm. destruct (Z.ltb_spec i 0); lia. Qed.

Lemma setslice_assign (b : bytes) lo hi v :
  slice None (Some (norm (len b) lo)) b ++ v ++ slice (Some (Z.max (norm (len b) lo) (norm (len b) hi))) None b
  = assign_slice b lo hi v.
Proof.
  unfold assign_slice. pose proof (len_nonneg b) as Hn.
  pose proof (norm_range (len b) lo Hn). pose proof (norm_range (len b) hi Hn).
  rewrite slice_to_firstn by lia. rewrite slice_to_skipn by lia. reflexivity.
Qed.


Definition pr_tail : list pstmt := skipn 1 (pf_body k_flow_process_response).

Lemma pdu_type_ptype p : pdu_type p = pdu_ptype p.
Proof. destruct p; reflexivity. Qed.

Lemma pr_tail_ok fuel c clear hdr k offs env :
  lookup "response" env = Some (VB clear) ->
  lookup "self" env = Some (VO (OSelf c)) ->
  lookup "encrypt_offsets" env = Some (offv offs) ->
  lookup "pdu_header" env = Some (VO (OHdr hdr)) ->
  lookup "resp_type" env = Some (VI k) ->
  lookup "BindNak" env = None -> lookup "Fault" env = None ->
  (let* o := exec_block W fuel pr_tail env in match o with Ret v => Ok v | _ => Ok VN end) =
  (let* q := (let* (p, _) := pdu_unpack (S (List.length clear)) clear in
              let* q := class_check k p in
              if k_reject_unsealed (is_some (cl_auth c)) (is_some offs) (h_auth_len hdr) then Raise ValueError else Ok q) in
   Ok (VO (OPdu q))).
Proof.
  intros Hr Hs Ho Hh Ht Hn Hf.
  assert (L2 : forall (a0 a1 : pv obj), (len [a0; a1] =? 0) = false) by reflexivity.
  unfold pr_tail. cbn [skipn pf_body k_flow_process_response].
  cbn. rewrite Hr. cbn. destruct (pdu_unpack (S (List.length clear)) clear) as [[p tk]|e]; cbn; [|reflexivity].
  unfold test. cbn. rewrite Hn. cbn. rewrite truthy_vb.
  destruct (pdu_type p =? c_PT_BIND_NAK) eqn:E1; cbn; [destruct p; try discriminate; reflexivity|].
  rewrite Hf. cbn. rewrite truthy_vb.
  destruct (pdu_type p =? c_PT_FAULT) eqn:E2; cbn; [destruct p; try discriminate; reflexivity|].
  rewrite Ht. cbn. rewrite truthy_vb.
  assert (Hc : class_check k p = if negb (pdu_type p =? k) then Raise ValueError else Ok p)
    by (destruct p; try discriminate; reflexivity).
  rewrite Hc.
  destruct (pdu_type p =? k) eqn:E3; cbn; [|reflexivity].
  rewrite Hs. cbn. unfold k_reject_unsealed.
  destruct (cl_auth c) as [pv|]; cbn.
  - rewrite Ho. destruct offs as [[o0 o1]|]; cbn; rewrite ?L2; cbn.
    + rewrite Hh. cbn. rewrite truthy_vb. destruct (h_auth_len hdr =? 0); cbn; reflexivity.
    + reflexivity.
  - reflexivity.
Qed.

(* _process_response(self, response, pdu_header, resp_type, encrypt_offsets) IS Seal.process_pdu_as, for every resp_type (a PDU class
   := its packet type): the bind stage (BindAck, AlterContextResponse) as well as requests (Response) *)
Lemma flow_process_response_as fuel c resp hdr k offs :
  run W fuel k_flow_process_response [VO (OSelf c); VB resp; VO (OHdr hdr); VI k; offv offs]
  = (let* q := process_pdu_as k unwrap (is_some (cl_auth c)) offs (cl_sign c) hdr resp in Ok (VO (OPdu q))).
Proof.
  assert (I0 : forall (a0 a1 : pv obj), PySlice.index [a0; a1] 0 = Ok a0) by reflexivity.
  assert (L2 : forall (a0 a1 : pv obj), (len [a0; a1] =? 0) = false) by reflexivity.
  assert (Tl : forall clear env,
    lookup "response" env = Some (VB clear) -> lookup "self" env = Some (VO (OSelf c)) ->
    lookup "encrypt_offsets" env = Some (offv offs) -> lookup "pdu_header" env = Some (VO (OHdr hdr)) ->
    lookup "resp_type" env = Some (VI k) -> lookup "BindNak" env = None -> lookup "Fault" env = None ->
    (let* o := exec_block W fuel pr_tail env in match o with Ret v => Ok v | _ => Ok VN end)
    = (let* q := (let* (p, _ticks) := pdu_unpack (S (List.length clear)) clear in
                  let* q := class_check k p in
                  if k_reject_unsealed (is_some (cl_auth c)) (match offs with Some _ => true | None => false end) (h_auth_len hdr)
                  then Raise ValueError else Ok q) in Ok (VO (OPdu q)))).
  { intros. rewrite (pr_tail_ok fuel c clear hdr k offs env) by assumption. destruct offs; reflexivity. }
  unfold process_pdu_as, unseal, unwrap_slices, k_unwrap_guard, k_sec_trailer_offset, k_unwrap_trailer_len.
  unfold run. cbn [bind_params pf_params pf_body k_flow_process_response].
  match goal with |- context [exec_block W fuel ?body ?env] => change body with (firstn 1 body ++ pr_tail) end.
  rewrite exec_block_app. cbn [firstn]. remember pr_tail as tl eqn:Etl.
  rewrite exec_block_cons, exec_if. unfold test.
  destruct (cl_auth c) as [pv|] eqn:Ea; destruct offs as [[o0 o1]|]; cbn; rewrite ?Ea; cbn; rewrite ?L2; cbn.
  - destruct (h_auth_len hdr =? 0) eqn:El; cbn.
    + subst tl. rewrite (Tl resp) by reflexivity. rewrite ?Ea. reflexivity.
    + repeat (first [rewrite I0 | rewrite Ea | rewrite truthy_vb]; cbn).
      destruct (unwrap _ _ _ _ _) as [dec|e]; cbn; [|reflexivity].
      repeat (first [rewrite I0 | rewrite Ea | rewrite truthy_vb]; cbn). rewrite setslice_assign.
      subst tl. rewrite (Tl (assign_slice resp o0 (h_frag_len hdr - (h_auth_len hdr + 8)) dec)) by reflexivity.
      rewrite ?Ea. reflexivity.
  - subst tl. rewrite (Tl resp) by reflexivity. rewrite ?Ea. reflexivity.
  - subst tl. rewrite (Tl resp) by reflexivity. rewrite ?Ea. reflexivity.
  - subst tl. rewrite (Tl resp) by reflexivity. rewrite ?Ea. reflexivity.
Qed.

(* Seal.process_response (the function of C16_sealed_only) is the resp_type = Response instance *)
Lemma process_response_is_as auth offs sign hdr resp :
  process_response unwrap auth offs sign hdr resp
  = (let* q := process_pdu_as c_PT_RESPONSE unwrap auth offs sign hdr resp in
     match q with PResponse r => Ok r | _ => Raise ValueError end).
Proof.
  unfold process_response, process_pdu_as.
  destruct (unseal unwrap auth offs sign hdr resp) as [clear|e]; cbn [bind]; [|reflexivity].
  destruct (pdu_unpack _ clear) as [[p t]|e]; cbn [bind]; [|reflexivity].
  destruct p; cbn; try reflexivity; destruct (k_reject_unsealed _ _ _); reflexivity.
Qed.

(* _process_response(self, response, pdu_header, Response, encrypt_offsets) IS Seal.process_response *)
Lemma flow_process_response fuel c resp hdr offs :
  run W fuel k_flow_process_response [VO (OSelf c); VB resp; VO (OHdr hdr); VI c_PT_RESPONSE; offv offs]
  = (let* r := process_response unwrap (is_some (cl_auth c)) offs (cl_sign c) hdr resp in Ok (VO (OPdu (PResponse r)))).
Proof.
  rewrite flow_process_response_as, process_response_is_as.
  unfold process_pdu_as.
  destruct (unseal unwrap _ offs _ hdr resp) as [clear|e]; cbn [bind]; [|reflexivity].
  destruct (pdu_unpack _ clear) as [[p t]|e]; cbn [bind]; [|reflexivity].
  destruct p; cbn; try reflexivity; destruct (k_reject_unsealed _ _ _); reflexivity.
Qed.

End Seal.
