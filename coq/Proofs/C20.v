From V Require Import Prelude.Base gen.Kernels Model.Types Model.Dns.
From Coq Require Import Permutation.

Definition key_le (x y : Z * Z) : bool := negb (key_lt y x).

Lemma key_lt_trans_le x y z : key_lt x y = true -> key_le y z = true -> key_lt x z = true.
Proof. unfold key_le, key_lt. destruct x, y, z; cbn. lia. Qed.
Lemma key_le_refl x : key_le x x = true.
Proof. unfold key_le, key_lt. destruct x; cbn. lia. Qed.
Lemma key_le_trans x y z : key_le x y = true -> key_le y z = true -> key_le x z = true.
Proof. unfold key_le, key_lt. destruct x, y, z; cbn. lia. Qed.

Lemma pick_from_spec l : forall best,
  let r := pick_from best l in
  In r (best :: l) /\ key_le (key r) (key best) = true /\ forall a, In a l -> key_le (key r) (key a) = true.
Proof.
  induction l as [|a l IH]; intros best; cbn [pick_from].
  - cbn. split; [auto|]. split; [apply key_le_refl|]. intros ? [].
  - destruct (key_lt (key a) (key best)) eqn:E.
    + destruct (IH a) as (Hin & Hle & Hall). cbv zeta. split; [cbn in *; tauto|]. split.
      * apply key_le_trans with (key a); [assumption|]. unfold key_le, key_lt in *.
        destruct (key a), (key best); cbn in *; lia.
      * intros x [<-|Hx]; auto.
    + destruct (IH best) as (Hin & Hle & Hall). cbv zeta. split; [cbn in *; tauto|]. split; [assumption|].
      intros x [<-|Hx]; auto. apply key_le_trans with (key best); [assumption|]. unfold key_le. now rewrite E.
Qed.

(* what the regenerated sort key means *)
Lemma key_le_meaning a b : key_le (key a) (key b) = true <->
  (srv_priority a < srv_priority b \/ (srv_priority a = srv_priority b /\ srv_weight b <= srv_weight a)).
Proof. unfold key_le, key_lt, key, k_srv_key. cbn [fst snd]. lia. Qed.

Lemma best l r : get_highest_answer l = Ok r ->
  In r (map conv l) /\
  forall a, In a l -> srv_priority r <= srv_priority a /\ (srv_priority a = srv_priority r -> srv_weight a <= srv_weight r).
Proof.
  unfold get_highest_answer. destruct (map conv l) as [|b m] eqn:E; [discriminate|]. intros [= <-].
  destruct (pick_from_spec m b) as (Hin & Hle & Hall). split; [assumption|].
  intros a Ha. assert (In (conv a) (b :: m)) as Hc by (rewrite <- E; now apply in_map).
  assert (key_le (key (pick_from b m)) (key (conv a)) = true) as Hk by (destruct Hc as [<-|Hc]; auto).
  apply key_le_meaning in Hk. cbn [conv srv_priority srv_weight] in Hk. lia.
Qed.

Lemma nonempty_ok l : l <> [] -> exists r, get_highest_answer l = Ok r.
Proof. intros H. unfold get_highest_answer. destruct l; [congruence|]. cbn [map]. eauto. Qed.

(* conv keeps port/weight/priority and strips trailing dots *)
Lemma lstrip_spec chars s : exists k, s = firstn k s ++ lstrip chars s /\ forallb (in_chars chars) (firstn k s) = true
  /\ match lstrip chars s with [] => True | c :: _ => in_chars chars c = false end.
Proof.
  induction s as [|c s IH]; [exists 0%nat; cbn; auto|]. cbn [lstrip].
  destruct (in_chars chars c) eqn:E.
  - destruct IH as (k & H1 & H2 & H3). exists (S k). cbn [firstn forallb app]. rewrite E, H2. rewrite <- H1. auto.
  - exists 0%nat. cbn. auto.
Qed.
Lemma rstrip_spec chars s : exists suffix, s = rstrip chars s ++ suffix /\ forallb (in_chars chars) suffix = true
  /\ match rev (rstrip chars s) with [] => True | c :: _ => in_chars chars c = false end.
Proof.
  unfold rstrip. destruct (lstrip_spec chars (rev s)) as (k & H1 & H2 & H3).
  exists (rev (firstn k (rev s))). rewrite rev_involutive. split; [|split; [|assumption]].
  - rewrite <- rev_app_distr, <- H1. now rewrite rev_involutive.
  - rewrite forallb_forall in *. intros x Hx. apply H2. now apply in_rev.
Qed.

Lemma conv_fields a : srv_port (conv a) = srv_port a /\ srv_weight (conv a) = srv_weight a /\ srv_priority (conv a) = srv_priority a
  /\ srv_target (conv a) = rstrip [46] (srv_target a).
Proof. cbn. auto. Qed.

(* order independence up to ties: any two permutations select records with the same priority and weight *)
Lemma perm_same l1 l2 r1 r2 : Permutation l1 l2 -> get_highest_answer l1 = Ok r1 -> get_highest_answer l2 = Ok r2 ->
  srv_priority r1 = srv_priority r2 /\ srv_weight r1 = srv_weight r2.
Proof.
  intros Hp H1 H2. destruct (best _ _ H1) as [I1 B1]. destruct (best _ _ H2) as [I2 B2].
  apply in_map_iff in I1 as (a1 & <- & A1). apply in_map_iff in I2 as (a2 & <- & A2).
  assert (In a1 l2) by (eapply Permutation_in; eauto).
  assert (In a2 l1) by (eapply Permutation_in; [apply Permutation_sym|]; eauto).
  specialize (B1 a2 ltac:(assumption)). specialize (B2 a1 ltac:(assumption)).
  cbn [conv srv_priority srv_weight] in *. lia.
Qed.

Definition prefix : pystr := [95; 108; 100; 97; 112; 46; 95; 116; 99; 112; 46; 100; 99; 46; 95; 109; 115; 100; 99; 115].
Lemma name_spec d : query_name d =
  match d with Some (c :: r) => prefix ++ [46] ++ c :: r | _ => prefix end.
Proof.
  unfold query_name, prefix. destruct d as [[|c r]|]; try reflexivity.
Qed.
