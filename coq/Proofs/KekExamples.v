(* C03: the hypotheses of the agreement theorems are satisfiable -- concrete envelope pairs under the
   symbolic crypto instance (which satisfies CryptoLaws), a 2-byte DH group where shared secrets with a
   leading zero byte occur, and the theorems instantiated on them. *)
From Coq Require Import String.
From V Require Import Prelude.Base Prelude.PyInt Prelude.PySlice Prelude.PyStr.
From V Require Import gen.Consts gen.C_gkdi gen.K_gkdi.
From V Require Import Model.Types Model.Crypto Model.Sym Model.Chain Model.KeyId Model.Gkdi Model.Kek.
From V Require Import Spec.GkdiSpec Spec.GkdiLayout Spec.KekSpec.
From V Require Import Proofs.C02 Proofs.GkdiLib Proofs.GkdiStructs Proofs.KekLib Proofs.Kek.

Definition ex_kdf_params : bytes :=
  [0; 0; 0; 0; 1; 0; 0; 0; 14; 0; 0; 0; 0; 0; 0; 0; 83; 0; 72; 0; 65; 0; 53; 0; 49; 0; 50; 0; 0; 0].   (* "SHA512" *)
Definition ex_rkid : bytes := repeat 5 16.
Definition ex_l1key : bytes := repeat 7 64.
Definition ex_top : res bytes := Ok ex_l1key.
Definition ex_seed : bytes :=
  match kdfK sym SHA512 ex_rkid 361 ex_top 31 31 with Ok s => s | Raise _ => [] end.
(* seed-holding side at (31,31): L1 key = Key(SD,RK,L0,31,-1), L2 key present *)
Definition ex_es (alg : pystr) (priv : Z) : envelope :=
  {| gke_version := 1; gke_flags := 0; gke_l0 := 361; gke_l1 := 31; gke_l2 := 31; gke_rkid := ex_rkid;
     gke_kdf_alg := STR_KDF_ALG; gke_kdf_params := ex_kdf_params; gke_secret_alg := alg; gke_secret_params := [];
     gke_priv_len := priv; gke_pub_len := 16; gke_domain := [100]; gke_forest := []; gke_l1_key := ex_l1key; gke_l2_key := ex_seed |}.
Definition ex_ep (alg : pystr) (priv : Z) (pub : bytes) : envelope :=
  {| gke_version := 1; gke_flags := 1; gke_l0 := 361; gke_l1 := 31; gke_l2 := 31; gke_rkid := ex_rkid;
     gke_kdf_alg := STR_KDF_ALG; gke_kdf_params := ex_kdf_params; gke_secret_alg := alg; gke_secret_params := [];
     gke_priv_len := priv; gke_pub_len := 16; gke_domain := [100]; gke_forest := []; gke_l1_key := []; gke_l2_key := pub |}.
Definition ex_rnd (n : Z) : bytes := repeat 9 (Z.to_nat n).

Lemma ex_hash alg priv : envelope_hash (ex_es alg priv) = Ok SHA512. Proof. reflexivity. Qed.
Lemma ex_hash_p alg priv pub : envelope_hash (ex_ep alg priv pub) = Ok SHA512. Proof. reflexivity. Qed.
Lemma ex_seed_ok : K2 (kdfK sym SHA512 ex_rkid 361) ex_top 31 31 = Ok ex_seed. Proof. reflexivity. Qed.
Lemma ex_conforming alg priv : conforming (kdfK sym SHA512 ex_rkid 361) ex_top (env_of (ex_es alg priv)).
Proof. unfold conforming. cbn [env_of ex_es e_l1 e_l2 e_l1key e_l2key gke_l1 gke_l2 gke_l1_key gke_l2_key]. repeat split; try lia. Qed.
Lemma ex_covers alg priv : covers (env_of (ex_es alg priv)) 31 31.
Proof. unfold covers. cbn. lia. Qed.

(* nonce mode *)
Example agree_nonce_example : exists kid,
  new_kek sym ex_rnd (ex_es STR_DH 512) = Ok (kek_nonce sym SHA512 ex_seed (ex_rnd 32), kid) /\ kid_key_info kid = ex_rnd 32 /\
  get_kek sym (ex_es STR_DH 512) kid = Ok (kek_nonce sym SHA512 ex_seed (ex_rnd 32)).
Proof.
  apply (agree_nonce sym SHA512 ex_top (ex_es STR_DH 512) (ex_es STR_DH 512) ex_rnd ex_seed).
  - reflexivity. - reflexivity. - reflexivity. - reflexivity. - reflexivity. - reflexivity.
  - cbn [ex_es gke_l1]; lia. - cbn [ex_es gke_l2]; lia.
  - apply ex_conforming. - apply ex_covers. - exact ex_seed_ok.
  - left. split; [reflexivity|]. intros H. vm_compute in H. discriminate.
Qed.

(* DH: p = 65521, g = 17, key_length 2 (and with padding: key_length 5) *)
Definition ex_ybytes : bytes := kdf sym SHA512 ex_seed KDS_SERVICE (lit16z "DH") 2.
Definition ex_y : Z := OS2IP ex_ybytes.
Definition ex_pub (kl : Z) : bytes :=
  concat (ffk_field_list {| ffk_key_length := kl; ffk_field_order := 65521; ffk_generator := 17; ffk_public_key := modpow 17 ex_y 65521 |}).
Lemma ex_ybytes_wfb : wfb ex_ybytes = true. Proof. vm_compute. reflexivity. Qed.
Lemma ex_y_nonneg : 0 <= ex_y. Proof. unfold ex_y. rewrite OS2IP_be_val. apply be_val_range, ex_ybytes_wfb. Qed.

(* the group's DH parameters (msKds-SecretAgreementParam) carried by both envelopes *)
Definition ex_sp (kl : Z) : bytes := concat (ffp_field_list {| ffp_key_length := kl; ffp_field_order := 65521; ffp_generator := 17 |}).
Definition ex_es_dh (kl priv : Z) : envelope :=
  {| gke_version := 1; gke_flags := 0; gke_l0 := 361; gke_l1 := 31; gke_l2 := 31; gke_rkid := ex_rkid;
     gke_kdf_alg := STR_KDF_ALG; gke_kdf_params := ex_kdf_params; gke_secret_alg := STR_DH; gke_secret_params := ex_sp kl;
     gke_priv_len := priv; gke_pub_len := 16; gke_domain := [100]; gke_forest := []; gke_l1_key := ex_l1key; gke_l2_key := ex_seed |}.
Definition ex_ep_dh (kl priv : Z) (pub : bytes) : envelope :=
  {| gke_version := 1; gke_flags := 1; gke_l0 := 361; gke_l1 := 31; gke_l2 := 31; gke_rkid := ex_rkid;
     gke_kdf_alg := STR_KDF_ALG; gke_kdf_params := ex_kdf_params; gke_secret_alg := STR_DH; gke_secret_params := ex_sp kl;
     gke_priv_len := priv; gke_pub_len := 16; gke_domain := [100]; gke_forest := []; gke_l1_key := []; gke_l2_key := pub |}.
Lemma ex_conforming_dh kl priv : conforming (kdfK sym SHA512 ex_rkid 361) ex_top (env_of (ex_es_dh kl priv)).
Proof. unfold conforming. cbn [env_of ex_es_dh e_l1 e_l2 e_l1key e_l2key gke_l1 gke_l2 gke_l1_key gke_l2_key]. repeat split; try lia. Qed.
Lemma ex_covers_dh kl priv : covers (env_of (ex_es_dh kl priv)) 31 31.
Proof. unfold covers. cbn. lia. Qed.
Lemma ex_sp_params kl : kl = 2 \/ kl = 5 -> dh_group_params (ex_sp kl) kl 65521 17.
Proof. intros [-> | ->]; vm_compute; reflexivity. Qed.
(* both public values of the example are valid group elements: the group key's 17^y and the ephemeral 17^x, x = 0x0909 *)
Example ex_pub_valid : dh_pub_valid 65521 (dh_public 65521 17 ex_y) /\ dh_pub_valid 65521 (dh_public 65521 17 (OS2IP (ex_rnd 2))).
Proof.
  split; apply dh_pub_validb_spec; unfold dh_public.
  - rewrite <- modpow_spec by (pose proof ex_y_nonneg; lia). vm_compute. reflexivity.
  - rewrite <- modpow_spec by (vm_compute; (reflexivity || discriminate)). vm_compute. reflexivity.
Qed.
(* and the predicate does exclude the degenerate values *)
Example ex_pub_degenerate : ~ dh_pub_valid 65521 0 /\ ~ dh_pub_valid 65521 1 /\ ~ dh_pub_valid 65521 65520.
Proof. unfold dh_pub_valid. lia. Qed.

Example agree_dh_example kl : (kl = 2 \/ kl = 5) -> exists kid kek,
  new_kek sym ex_rnd (ex_ep_dh kl 16 (ex_pub kl)) = Ok (kek, kid) /\ get_kek sym (ex_es_dh kl 16) kid = Ok kek.
Proof.
  intros Hkl.
  assert (Hf : fitsb kl 65521 = true /\ fitsb kl 17 = true /\ u32b kl = true) by (destruct Hkl as [-> | ->]; repeat split).
  destruct Hf as (Hf1 & Hf2 & Hf3).
  assert (Hl2 : gke_l2_key (ex_ep_dh kl 16 (ex_pub kl)) =
                concat (ffk_field_list {| ffk_key_length := kl; ffk_field_order := 65521; ffk_generator := 17;
                                          ffk_public_key := dh_public 65521 17 ex_y |})).
  { cbn [ex_ep_dh gke_l2_key]. unfold ex_pub, dh_public. rewrite modpow_spec by (pose proof ex_y_nonneg; lia). reflexivity. }
  destruct ex_pub_valid as [Vy Vx].
  pose proof (agree_dh sym SHA512 ex_top (ex_es_dh kl 16) (ex_ep_dh kl 16 (ex_pub kl)) ex_rnd ex_seed kl 65521 17
                eq_refl eq_refl eq_refl eq_refl eq_refl eq_refl eq_refl eq_refl eq_refl eq_refl
                ltac:(cbn [ex_ep_dh gke_l1]; lia) ltac:(cbn [ex_ep_dh gke_l2]; lia)
                (ex_conforming_dh kl 16) (ex_covers_dh kl 16) ex_seed_ok ltac:(lia) Hf3 Hf1 Hf2
                (ex_sp_params kl Hkl) (ex_sp_params kl Hkl) ex_ybytes_wfb eq_refl Vy Vx Hl2) as H.
  destruct H as (kid & Hn & _ & Hg & Heq).
  exists kid. eexists. split; [exact Hn|].
  rewrite Hg. apply f_equal. exact Heq.
Qed.

(* a shared secret with a leading zero byte in the 2-byte group: 17^1 mod 65521 = 17 < 256 *)
Example leading_zero_shared : dh_shared 65521 2 17 1 = [0; 17] /\ len (dh_shared 65521 2 17 1) = 2.
Proof. split; reflexivity. Qed.

(* the symbolic instance satisfies the commutation law the ECDH theorem assumes *)
Lemma sym_g_pow_pos e : 0 <= e -> 0 < modpow sym_g e sym_q.
Proof.
  intros He. assert (Hq : 0 < sym_q) by reflexivity. pose proof (modpow_range sym_g e sym_q Hq He) as R.
  destruct (Z.eq_dec (modpow sym_g e sym_q) 0) as [E|]; [|lia]. exfalso.
  rewrite modpow_spec in E by assumption. apply Z.mod_divide in E; [|unfold sym_q; lia].
  assert (Hr : Znumtheory.rel_prime sym_q (sym_g ^ e)).
  { apply Zpow_facts.rel_prime_Zpower_r; [assumption|]. apply Znumtheory.Zgcd_1_rel_prime. vm_compute. reflexivity. }
  destruct Hr as [_ _ H]. specialize (H sym_q (Z.divide_refl _) E). apply Z.divide_1_r in H. unfold sym_q in H. lia.
Qed.
Lemma sym_ec_commutes cv a b A B : ec_pub sym cv a = Ok A -> ec_pub sym cv b = Ok B -> ec_dh sym cv a B = ec_dh sym cv b A.
Proof.
  cbn [ec_pub ec_dh sym]. unfold sym_ec_pub, sym_ec_dh.
  destruct (a <=? 0) eqn:Ea; [discriminate|]. destruct (b <=? 0) eqn:Eb; [discriminate|].
  intros HA HB. apply Ok_inj in HA. apply Ok_inj in HB. subst A B.
  assert (Hq : 0 < sym_q) by reflexivity.
  pose proof (modpow_range sym_g a sym_q Hq ltac:(lia)) as Ra. pose proof (modpow_range sym_g b sym_q Hq ltac:(lia)) as Rb.
  pose proof (sym_g_pow_pos a ltac:(lia)) as Pa. pose proof (sym_g_pow_pos b ltac:(lia)) as Pb.
  unfold sym_point_ok. cbn [fst]. rewrite !Z.eqb_refl.
  destruct (0 <? modpow sym_g b sym_q) eqn:E1; [|lia]. destruct (0 <? modpow sym_g a sym_q) eqn:E2; [|lia].
  destruct (modpow sym_g b sym_q <? sym_q) eqn:E3; [|lia]. destruct (modpow sym_g a sym_q <? sym_q) eqn:E4; [|lia].
  cbn [andb negb]. rewrite (modpow_comm sym_g b a sym_q) by lia. reflexivity.
Qed.

(* ECDH under the symbolic "curve": P256 key structure with 8-byte coordinates *)
Definition ex_algE : pystr := ascii_str "ECDH_P256".
Definition ex_algzE : bytes := lit16z "ECDH_P256".
Definition ex_yE : Z := OS2IP (kdf sym SHA512 ex_seed KDS_SERVICE ex_algzE 32).
Definition ex_A : Z * Z := match ec_pub sym P256 ex_yE with Ok A => A | Raise _ => (0, 0) end.
Definition ex_kA : ecdh_key := {| eck_curve_name := curve_name P256; eck_key_length := 8; eck_x := fst ex_A; eck_y := snd ex_A |}.
Definition ex_epE : envelope := ex_ep ex_algE 256 (concat (eck_field_list P256 ex_kA)).
Definition ex_esE : envelope := ex_es ex_algE 256.

Example agree_ecdh_example : exists kek kid,
  new_kek sym ex_rnd ex_epE = Ok (kek, kid) /\ get_kek sym ex_esE kid = Ok kek.
Proof.
  destruct (new_kek sym ex_rnd ex_epE) as [[kek kid]|] eqn:En; [|vm_compute in En; discriminate].
  exists kek, kid. split; [reflexivity|].
  assert (HA : ec_pub sym P256 ex_yE = Ok (fst ex_A, snd ex_A)) by (vm_compute; reflexivity).
  assert (WA : wf_eck ex_kA = true) by (vm_compute; reflexivity).
  pose proof (agree_ecdh_law sym sym_ec_commutes SHA512 ex_top ex_esE ex_epE ex_rnd ex_seed ex_algE ex_algzE P256 8 (fst ex_A) (snd ex_A) kek kid
                eq_refl eq_refl eq_refl eq_refl eq_refl eq_refl eq_refl eq_refl eq_refl eq_refl eq_refl eq_refl eq_refl
                ltac:(cbn [ex_epE ex_ep gke_l1]; lia) ltac:(cbn [ex_epE ex_ep gke_l2]; lia)
                (ex_conforming ex_algE 256) (ex_covers ex_algE 256) ex_seed_ok HA WA eq_refl En) as H.
  destruct H as (Zs & Bx & By & _ & _ & _ & _ & Hg). exact Hg.
Qed.
