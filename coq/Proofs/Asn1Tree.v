(* C07: nesting and concatenation. What ASN1Writer emits for any well-formed value tree (and any
   sequence of trees) is read back, as exactly that tree, by the strict DER reader of Spec/DerSpec.v. *)
From V Require Import Prelude.Base Prelude.PyInt Prelude.PySlice gen.K_asn1 gen.C_asn1 Model.Asn1 Spec.DerSpec.
From V Require Import Proofs.Asn1Lib Proofs.Asn1Hdr Proofs.Asn1Tlv.

(* ---- the strict reader accepts the relational spec (facts about Spec/DerSpec.v only) *)
Lemma sp_b128_shape ds : b128_shape ds -> forall rest acc first, (first = true -> hd 0 ds <> 128) ->
  sp_b128 (ds ++ rest) acc first = Some (b128_val acc ds, rest).
Proof.
  induction 1 as [d Hd|d r Hd Hr IH]; intros rest acc first Hf; cbn [app sp_b128 b128_val hd] in *.
  - destruct (first && (d =? 128)) eqn:E; [lia|]. destruct (d <? 128) eqn:E2; [|lia].
    do 2 f_equal. lia.
  - destruct (first && (d =? 128)) eqn:E; [destruct first; cbn in E; [specialize (Hf eq_refl); lia|discriminate]|].
    destruct (d <? 128) eqn:E2; [lia|]. rewrite IH by discriminate. do 2 f_equal. f_equal. lia.
Qed.
Lemma sp_ident_der t ib rest : der_ident t ib -> sp_ident (ib ++ rest) = Some (t, rest).
Proof.
  intros Hi. destruct t as [c num k]. inversion Hi as [t' Hc Hn Ht|t' ds Hc Hn Hd Ht]; subst t'; cbn [t_class t_num t_cons] in *; subst ib.
  - cbn [app sp_ident]. set (o := ident_octet c k num).
    assert (o / 64 = c) by (unfold o, ident_octet; destruct k; lia).
    assert (((o / 32) mod 2 =? 1) = k) by (unfold o, ident_octet; destruct k; lia).
    assert (o mod 32 = num) by (unfold o, ident_octet; destruct k; lia).
    rewrite H, H0, H1. destruct (num <? 31) eqn:E; [reflexivity|lia].
  - cbn [app sp_ident]. set (o := ident_octet c k 31).
    assert (o / 64 = c) by (unfold o, ident_octet; destruct k; lia).
    assert (((o / 32) mod 2 =? 1) = k) by (unfold o, ident_octet; destruct k; lia).
    assert (o mod 32 = 31) by (unfold o, ident_octet; destruct k; lia).
    rewrite H, H0, H1. cbn [Z.ltb Z.compare Pos.compare Pos.compare_cont]. destruct Hd as (Hs & Hh & Hv).
    rewrite (sp_b128_shape ds Hs) by auto. rewrite Hv. destruct (num <? 31) eqn:E; [lia|reflexivity].
Qed.
Lemma sp_len_der n lb rest : der_len n lb -> sp_len (lb ++ rest) = Some (n, rest).
Proof.
  destruct 1 as [n Hn|n ds Hn Hw Hl Hv Hh]; cbn [app sp_len].
  - destruct (n <? 128) eqn:E; [reflexivity|lia].
  - unfold len. destruct (128 + Z.of_nat (length ds) <? 128) eqn:E; [lia|].
    replace (Z.to_nat (128 + Z.of_nat (length ds) - 128)) with (length ds) by lia.
    destruct ((length ds =? 0)%nat || (length ds =? 127)%nat) eqn:E2.
    { apply orb_prop in E2. destruct E2 as [E2|E2]; apply Nat.eqb_eq in E2; lia. }
    rewrite app_length. destruct (length ds + length rest <? length ds)%nat eqn:E3; [apply Nat.ltb_lt in E3; lia|].
    rewrite firstn_app, firstn_all, Nat.sub_diag. cbn [firstn]. rewrite app_nil_r.
    destruct (hd 0 ds =? 0) eqn:E4; [lia|]. rewrite Hv. destruct (n <? 128) eqn:E5; [lia|].
    rewrite skipn_app, skipn_all, Nat.sub_diag. reflexivity.
Qed.
Lemma der_ident_wf t ib : der_ident t ib -> wfb ib = true /\ exists o r, ib = o :: r.
Proof.
  destruct 1 as [t Hc Hn|t ds Hc Hn (Hs & _ & _)].
  - split; [|eauto]. apply wfb_single. unfold ident_octet. destruct (t_cons t); lia.
  - split; [|eauto]. apply wfb_cons. split; [unfold ident_octet; destruct (t_cons t); lia|].
    clear -Hs. induction Hs as [d Hd|d r Hd Hr IH]; [apply wfb_single; lia|apply wfb_cons; split; [lia|exact IH]].
Qed.

(* ---- induction over value trees (nested in lists) *)
Lemma asn1_ind2 (Pt : asn1 -> Prop) (Pl : list asn1 -> Prop) :
  (forall t c, Pt (Prim t c)) -> (forall t l, Pl l -> Pt (Cons t l)) -> (forall b, Pt (Raw b)) ->
  Pl [] -> (forall x l, Pt x -> Pl l -> Pl (x :: l)) -> (forall x, Pt x) /\ (forall l, Pl l).
Proof.
  intros HP HC HR HN HS.
  assert (H : forall x, Pt x).
  { fix IH 1. intros [t c|t l|b]; [apply HP| |apply HR]. apply HC.
    induction l as [|y l IHl]; [apply HN|apply HS; [apply IH|apply IHl]]. }
  split; [exact H|]. induction l as [|y l IHl]; [apply HN|apply HS; [apply H|apply IHl]].
Qed.

Lemma enc_list_eq l :
  (fix enc_list (l : list asn1) : res bytes :=
     match l with [] => Ok [] | y :: r => let* a := encode y in let* b := enc_list r in Ok (a ++ b) end) l = encode_list l.
Proof. induction l as [|y l IH]; [reflexivity|]. cbn [encode_list]. rewrite <- IH. reflexivity. Qed.
Lemma encode_cons t l : encode (Cons t l) = let* body := encode_list l in pack_tlv t body.
Proof. cbn [encode]. rewrite enc_list_eq. reflexivity. Qed.

(* well-formed trees: admissible tags, primitive/constructed bit matching the node kind, byte content,
   every content shorter than 256^126 octets, no raw insertions *)
Fixpoint wf_tree (x : asn1) : Prop :=
  match x with
  | Prim t c => tag_wf t /\ t_cons t = false /\ wfb c = true /\ len c < P 126
  | Cons t l => tag_wf t /\ t_cons t = true /\
                (fix all (l : list asn1) : Prop := match l with [] => True | y :: r => wf_tree y /\ all r end) l /\
                (forall b, encode_list l = Ok b -> len b < P 126)
  | Raw _ => False
  end.
Fixpoint wf_trees (l : list asn1) : Prop := match l with [] => True | y :: r => wf_tree y /\ wf_trees r end.
Lemma wf_all_eq l :
  (fix all (l : list asn1) : Prop := match l with [] => True | y :: r => wf_tree y /\ all r end) l = wf_trees l.
Proof. induction l as [|y l IH]; [reflexivity|]. cbn [wf_trees]. rewrite <- IH. reflexivity. Qed.

Definition node_of (t : tag) (c : bytes) (f : nat) : option asn1 :=
  if t_cons t then match strict_parse_fuel f c with Some ch => Some (Cons t ch) | None => None end else Some (Prim t c).

Definition Pt (x : asn1) : Prop := wf_tree x ->
  exists t ib lb c, encode x = Ok (ib ++ lb ++ c) /\ der_ident t ib /\ der_len (len c) lb /\ wfb c = true /\
    forall f, (length c <= f)%nat -> node_of t c f = Some x.
Definition Pl (l : list asn1) : Prop := wf_trees l ->
  exists bs, encode_list l = Ok bs /\ wfb bs = true /\ forall f, (length bs <= f)%nat -> strict_parse_fuel f bs = Some l.

Lemma parse_step t ib lb c more f x l : der_ident t ib -> der_len (len c) lb ->
  node_of t c f = Some x -> strict_parse_fuel f more = Some l ->
  strict_parse_fuel (S f) ((ib ++ lb ++ c) ++ more) = Some (x :: l).
Proof.
  intros Hi Hl Hn Hm. destruct (der_ident_wf t ib Hi) as [_ (o & r & Eib)].
  assert (Hshape : (ib ++ lb ++ c) ++ more = ib ++ lb ++ c ++ more) by (now rewrite <- !app_assoc).
  rewrite Hshape.
  assert (Hstep : strict_parse_fuel (S f) (ib ++ lb ++ c ++ more) =
    match sp_ident (ib ++ lb ++ c ++ more) with
    | None => None
    | Some (t, r1) =>
      match sp_len r1 with
      | None => None
      | Some (n, r2) =>
        if len r2 <? n then None
        else match node_of t (firstn (Z.to_nat n) r2) f, strict_parse_fuel f (skipn (Z.to_nat n) r2) with
             | Some x, Some more => Some (x :: more)
             | _, _ => None
             end
      end
    end).
  { rewrite Eib. reflexivity. }
  rewrite Hstep. rewrite (sp_ident_der t ib _ Hi), (sp_len_der _ lb _ Hl). rewrite len_app.
  pose proof (len_nonneg more). destruct (len c + len more <? len c) eqn:E; [lia|].
  unfold len at 1 2. rewrite Nat2Z.id. rewrite firstn_app, firstn_all, Nat.sub_diag. cbn [firstn]. rewrite app_nil_r.
  rewrite skipn_app, skipn_all, Nat.sub_diag. cbn [skipn app]. rewrite Hn, Hm. reflexivity.
Qed.

Lemma trees_parse : (forall x, Pt x) /\ (forall l, Pl l).
Proof.
  apply asn1_ind2; unfold Pt, Pl.
  - intros t c (Ht & Hk & Hw & Hc). destruct (pack_tlv_der t c Ht Hc) as (ib & lb & E & Hi & Hl).
    exists t, ib, lb, c. cbn [encode]. repeat split; auto. intros f _. unfold node_of. rewrite Hk. reflexivity.
  - intros t l IH (Ht & Hk & Hall & Hsz). rewrite wf_all_eq in Hall. destruct (IH Hall) as (body & E & Hw & Hp).
    destruct (pack_tlv_der t body Ht (Hsz body E)) as (ib & lb & E2 & Hi & Hl).
    exists t, ib, lb, body. rewrite encode_cons, E. cbn [bind]. repeat split; auto.
    intros f Hf. unfold node_of. rewrite Hk, (Hp f Hf). reflexivity.
  - intros b [].
  - intros _. exists []. repeat split; auto. intros f _. destruct f; reflexivity.
  - intros x l IHx IHl [Hx Hl]. destruct (IHx Hx) as (t & ib & lb & c & E & Hi & Hlen & Hw & Hn).
    destruct (IHl Hl) as (more & E2 & Hw2 & Hp).
    exists ((ib ++ lb ++ c) ++ more). cbn [encode_list]. rewrite E, E2. cbn [bind]. split; [reflexivity|].
    destruct (der_ident_wf t ib Hi) as [Hwi (o & r & Eib)]. destruct (der_len_wf _ lb Hlen) as [_ Hwl].
    pose proof (der_len_nonempty _ lb Hlen) as Hlne.
    split; [rewrite !wfb_app, Hwi, Hwl, Hw, Hw2; reflexivity|].
    intros f Hf. rewrite !app_length in Hf. rewrite Eib in Hf. cbn [length] in Hf.
    assert (Hl1 : (1 <= length lb)%nat) by (destruct lb; [congruence|cbn; lia]).
    destruct f as [|f]; [lia|]. apply (parse_step t ib lb c more f x l Hi Hlen); [apply Hn; lia|apply Hp; lia].
Qed.

(* any well-formed tree: the strict reader returns exactly that tree *)
Theorem nested t : wf_tree t -> exists bs, encode t = Ok bs /\ strict_parse bs = Some [t].
Proof.
  intros Ht. destruct (proj2 trees_parse [t] (conj Ht I)) as (bs & E & Hw & Hp).
  cbn [encode_list] in E. destruct (encode t) as [a|e]; [|discriminate]. cbn [bind] in E. apply Ok_inj in E. rewrite app_nil_r in E. subst bs.
  exists a. split; [reflexivity|]. unfold strict_parse. rewrite Hw. apply Hp. lia.
Qed.
(* concatenation: the values come back in order, with nothing left over *)
Theorem concat_parse ts : wf_trees ts -> exists bs, encode_list ts = Ok bs /\ strict_parse bs = Some ts.
Proof.
  intros Ht. destruct (proj2 trees_parse ts Ht) as (bs & E & Hw & Hp).
  exists bs. split; [exact E|]. unfold strict_parse. rewrite Hw. apply Hp. lia.
Qed.

(* the code's own reader: reading the values of a concatenation one after another returns each content
   and advances exactly to the next value *)
Definition root_tag (x : asn1) : tag := match x with Prim t _ => t | Cons t _ => t | Raw _ => mk_tag 0 0 false end.
Definition content_of (x : asn1) : res bytes := match x with Prim _ c => Ok c | Cons _ l => encode_list l | Raw b => Ok b end.
Fixpoint read_each (l : list asn1) (view : bytes) : res (list bytes * bytes) :=
  match l with
  | [] => Ok ([], view)
  | x :: r => let* (c, view') := read_raw (root_tag x) view None None in
              let* (cs, rest) := read_each r view' in Ok (c :: cs, rest)
  end.
Fixpoint readable_roots (l : list asn1) : Prop := match l with [] => True | x :: r => tag_readable (root_tag x) /\ readable_roots r end.

Lemma tree_tlv x : wf_tree x -> exists ib lb c, encode x = Ok (ib ++ lb ++ c) /\ content_of x = Ok c /\
  der_ident (root_tag x) ib /\ der_len (len c) lb.
Proof.
  destruct x as [t c|t l|b]; cbn [wf_tree root_tag content_of].
  - intros (Ht & Hk & Hw & Hc). destruct (pack_tlv_der t c Ht Hc) as (ib & lb & E & Hi & Hl). exists ib, lb, c. auto.
  - intros (Ht & Hk & Hall & Hsz). rewrite wf_all_eq in Hall. destruct (proj2 trees_parse l Hall) as (body & E & _ & _).
    destruct (pack_tlv_der t body Ht (Hsz body E)) as (ib & lb & E2 & Hi & Hl).
    exists ib, lb, body. rewrite encode_cons, E. cbn [bind]. auto.
  - intros [].
Qed.
Theorem concat_read ts : wf_trees ts -> readable_roots ts -> forall rest,
  exists bs cs, encode_list ts = Ok bs /\ map_res content_of ts = Ok cs /\ read_each ts (bs ++ rest) = Ok (cs, rest).
Proof.
  induction ts as [|x ts IH]; intros Hw Hr rest.
  - exists [], []. repeat split; reflexivity.
  - destruct Hw as [Hx Hw]. destruct Hr as [Hrx Hr]. destruct (tree_tlv x Hx) as (ib & lb & c & E & Ec & Hi & Hl).
    destruct (IH Hw Hr rest) as (bs & cs & E2 & Ecs & Hrd).
    exists ((ib ++ lb ++ c) ++ bs), (c :: cs). cbn [encode_list map_res read_each]. rewrite E, E2, Ec, Ecs. cbn [bind].
    split; [reflexivity|]. split; [reflexivity|].
    replace (((ib ++ lb ++ c) ++ bs) ++ rest) with (ib ++ lb ++ c ++ (bs ++ rest)) by (now rewrite <- !app_assoc).
    rewrite (read_raw_der (root_tag x) (root_tag x) ib lb c (bs ++ rest) None Hi Hl Hrx eq_refl). cbn [bind].
    rewrite Hrd. reflexivity.
Qed.

(* ---- well-formedness from a successful, not absurdly long encoding: every nested content is a part of
   the whole, so only the total length has to be bounded *)
Fixpoint shape_ok (x : asn1) : Prop :=
  match x with
  | Prim t c => tag_wf t /\ t_cons t = false /\ wfb c = true
  | Cons t l => tag_wf t /\ t_cons t = true /\
                (fix all (l : list asn1) : Prop := match l with [] => True | y :: r => shape_ok y /\ all r end) l
  | Raw _ => False
  end.
Fixpoint shapes_ok (l : list asn1) : Prop := match l with [] => True | y :: r => shape_ok y /\ shapes_ok r end.
Lemma shape_all_eq l :
  (fix all (l : list asn1) : Prop := match l with [] => True | y :: r => shape_ok y /\ all r end) l = shapes_ok l.
Proof. induction l as [|y l IH]; [reflexivity|]. cbn [shapes_ok]. rewrite <- IH. reflexivity. Qed.
Lemma pack_tlv_suffix t c bs : pack_tlv t c = Ok bs -> exists h, bs = h ++ c.
Proof.
  unfold pack_tlv, pack_asn1. destruct (pack_ident _ _ _) as [i|]; [|discriminate]. cbn [bind].
  destruct (pack_length _) as [l|]; [|discriminate]. cbn [bind]. intros H. apply Ok_inj in H. subst bs.
  exists (i ++ l). now rewrite <- app_assoc.
Qed.
Lemma wf_from_encode_all :
  (forall x, forall bs, shape_ok x -> encode x = Ok bs -> len bs < P 126 -> wf_tree x) /\
  (forall l, forall bs, shapes_ok l -> encode_list l = Ok bs -> len bs < P 126 -> wf_trees l).
Proof.
  apply asn1_ind2.
  - intros t c bs (Ht & Hk & Hw) E Hl. cbn [encode] in E. destruct (pack_tlv_suffix _ _ _ E) as (h & ->).
    rewrite len_app in Hl. pose proof (len_nonneg h). cbn [wf_tree]. repeat split; auto; try apply Ht. lia.
  - intros t l IH bs (Ht & Hk & Hall) E Hl. rewrite shape_all_eq in Hall. rewrite encode_cons in E.
    destruct (encode_list l) as [body|] eqn:Eb; [|discriminate]. cbn [bind] in E. destruct (pack_tlv_suffix _ _ _ E) as (h & ->).
    rewrite len_app in Hl. pose proof (len_nonneg h). cbn [wf_tree]. split; [exact Ht|]. split; [exact Hk|]. rewrite wf_all_eq.
    split; [apply (IH body); auto; lia|]. intros b Hb. rewrite Eb in Hb. apply Ok_inj in Hb. subst b. lia.
  - intros b bs [].
  - intros bs _ _ _. exact I.
  - intros x l IHx IHl bs [Hx Hl] E Hlen. cbn [encode_list] in E.
    destruct (encode x) as [a|] eqn:Ea; [|discriminate]. cbn [bind] in E. destruct (encode_list l) as [b|] eqn:Eb; [|discriminate]. cbn [bind] in E.
    apply Ok_inj in E. subst bs. rewrite len_app in Hlen. pose proof (len_nonneg a). pose proof (len_nonneg b).
    split; [apply (IHx a); auto; lia|apply (IHl b); auto; lia].
Qed.
Theorem wf_from_encode x bs : shape_ok x -> encode x = Ok bs -> len bs < P 126 -> wf_tree x.
Proof. apply (proj1 wf_from_encode_all). Qed.
