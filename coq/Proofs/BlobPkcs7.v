(* C06: each CMS structure of _pkcs7.py: what pack writes is read back by unpack, with the exact
   remaining view; sizes are tracked so that every enclosing length stays far below 256^126. *)
From V Require Import Prelude.Base Prelude.PyInt Prelude.PySlice Prelude.PyStr gen.K_asn1 gen.C_asn1 Model.Asn1 Model.Pkcs7 Spec.DerSpec.
From V Require Import Proofs.Asn1Lib Proofs.Asn1Hdr Proofs.Asn1Tlv Proofs.Asn1Int Proofs.Asn1Oid Proofs.Asn1Str Proofs.Asn1Tree Proofs.C07 Proofs.BlobLib.

Definition U32 : Z := 4294967296.

Lemma encode_seq l body : encode_list l = Ok body -> encode (a_seq l) = pack_tlv seq_tag body.
Proof. intros H. unfold a_seq. rewrite encode_cons, H. reflexivity. Qed.
Lemma encode_list_cons x r a b : encode x = Ok a -> encode_list r = Ok b -> encode_list (x :: r) = Ok (a ++ b).
Proof. intros H1 H2. cbn [encode_list]. rewrite H1, H2. reflexivity. Qed.
Lemma encode_list_app l1 l2 a b : encode_list l1 = Ok a -> encode_list l2 = Ok b -> encode_list (l1 ++ l2) = Ok (a ++ b).
Proof.
  revert a; induction l1 as [|x l1 IH]; intros a H1 H2; cbn [app encode_list] in *.
  - apply Ok_inj in H1. subst a. exact H2.
  - destruct (encode x) as [ex|]; [|discriminate]. cbn [bind] in *. destruct (encode_list l1) as [e1|]; [|discriminate]. cbn [bind] in *.
    apply Ok_inj in H1. subst a. rewrite (IH e1 eq_refl H2). cbn [bind]. now rewrite app_assoc.
Qed.

Definition oid_small (arcs : list Z) : Prop := forall c, encode_oid arcs = Ok c -> len c < U32.
Definition obytes_ok (p : option bytes) : Prop := match p with None => True | Some b => b <> [] /\ len b < U32 * 2 end.
Definition obytes_len (p : option bytes) : Z := match p with None => 0 | Some b => len b end.
Definition obytes_raw (p : option bytes) : bytes := match p with None => [] | Some b => b end.

Lemma raw_if_enc p : obytes_ok p -> encode_list (raw_if p) = Ok (obytes_raw p) /\
  (if reader_bool (obytes_raw p) then Some (obytes_raw p) else None) = p.
Proof.
  destruct p as [[|x r]|]; cbn [obytes_ok]; [intros [H _]; congruence| |]; intros _; split; try reflexivity.
  cbn. now rewrite app_nil_r.
Qed.

Definition oid_tag : tag := universal_tag c_tag_oid false.
Lemma low_oid : low_tag oid_tag. Proof. apply low_universal; [reflexivity|unfold c_tag_oid; lia]. Qed.
Definition int_tag : tag := universal_tag c_tag_integer false.
Lemma low_int : low_tag int_tag. Proof. apply low_universal; [reflexivity|unfold c_tag_integer; lia]. Qed.
Definition oct_tag : tag := universal_tag c_tag_octet_string false.
Lemma low_oct : low_tag oct_tag. Proof. apply low_universal; [reflexivity|unfold c_tag_octet_string; lia]. Qed.

Lemma read_sequence_eq : read_sequence = read_raw seq_tag. Proof. reflexivity. Qed.
Lemma read_set_eq : read_set = read_raw set_tag. Proof. reflexivity. Qed.
Lemma read_octet_string_eq : read_octet_string = read_raw oct_tag. Proof. reflexivity. Qed.

(* an OID leaf: the node a_oid builds, its encoding, and reading it back *)
Lemma oid_node arcs : oid_wf arcs -> oid_small arcs ->
  exists c enc, a_oid arcs = Ok (Prim oid_tag c) /\ encode (Prim oid_tag c) = Ok enc /\ tlv_enc oid_tag c enc /\ len c < U32 /\
    forall rest, read_object_identifier (enc ++ rest) None None = Ok (arcs, rest).
Proof.
  intros Hw Hs. destruct (oid_leaf arcs Hw) as (c & Ec & Rc & _). pose proof (Hs c Ec) as Hl.
  destruct (node_ok oid_tag c low_oid ltac:(unfold U32, BIG in *; lia)) as (enc & E & T).
  exists c, enc. unfold a_oid. rewrite Ec. cbn [bind encode]. repeat split; auto.
  intros rest. now apply (tlv_read_oid oid_tag c).
Qed.

(* ---- AlgorithmIdentifier *)
Theorem alg_roundtrip a : oid_wf (alg_oid a) -> oid_small (alg_oid a) -> obytes_ok (alg_params a) ->
  exists t enc, AlgorithmIdentifier_pack a = Ok t /\ encode t = Ok enc /\ root_tag t = seq_tag /\
    len enc <= obytes_len (alg_params a) + U32 + 256 /\
    forall rest, AlgorithmIdentifier_unpack (enc ++ rest) = Ok (a, rest).
Proof.
  intros Hw Hs Hp. destruct (oid_node _ Hw Hs) as (c & eo & Eo & Eeo & To & Hlc & Ro).
  destruct (raw_if_enc _ Hp) as [Er Hrb]. pose proof (tlv_len _ _ _ To) as Hlo.
  assert (Hpl : len (obytes_raw (alg_params a)) = obytes_len (alg_params a)) by (destruct (alg_params a); reflexivity).
  assert (Hpb : 0 <= obytes_len (alg_params a) < U32 * 2) by (destruct (alg_params a); cbn in *; [pose proof (len_nonneg b); lia|unfold U32; lia]).
  set (body := eo ++ obytes_raw (alg_params a)).
  assert (Ebody : encode_list (Prim oid_tag c :: raw_if (alg_params a)) = Ok body) by (apply encode_list_cons; assumption).
  destruct (node_ok seq_tag body low_seq) as (enc & E & T); [unfold body; rewrite len_app; unfold U32, BIG in *; lia|].
  pose proof (tlv_len _ _ _ T) as Hle.
  exists (a_seq (Prim oid_tag c :: raw_if (alg_params a))), enc.
  unfold AlgorithmIdentifier_pack. rewrite Eo. cbn [bind]. split; [reflexivity|]. split; [rewrite (encode_seq _ _ Ebody); exact E|].
  split; [reflexivity|]. split; [unfold body in Hle; rewrite len_app in Hle; lia|].
  intros rest. unfold AlgorithmIdentifier_unpack. rewrite read_sequence_eq.
  rewrite (tlv_read_raw seq_tag body enc rest None seq_tag None T I eq_refl). cbn [bind].
  unfold body. rewrite Ro. cbn [bind]. rewrite Hrb. destruct a; reflexivity.
Qed.


(* small non-negative INTEGER leaves (CMS versions, ICV length) *)
Lemma int_node v : 0 <= v < 128 ->
  exists enc, a_int v None = Ok (Prim int_tag [v]) /\ encode (Prim int_tag [v]) = Ok enc /\ tlv_enc int_tag [v] enc /\
    forall rest, read_integer (enc ++ rest) None None = Ok (v, rest).
Proof.
  intros Hv. destruct (pack_int_content_der v) as (c & Ec & Hd).
  assert (Hd' : der_int v [v]).
  { split; [apply wfb_single; lia|]. split; [discriminate|]. split; [|exact I].
    unfold tc_val. destruct (v <? 128) eqn:E; [|lia]. unfold be_val. cbn. lia. }
  pose proof (der_int_unique v c [v] Hd Hd'). subst c.
  destruct (node_ok int_tag [v] low_int ltac:(unfold BIG; cbn; lia)) as (enc & E & T).
  exists enc. unfold a_int. rewrite Ec. cbn [bind opt_tag encode]. repeat split; auto.
  intros rest. apply (tlv_read_integer int_tag [v]); auto.
  rewrite read_int_content_tc; [|apply wfb_single; lia|discriminate]. destruct Hd' as (_ & _ & Hv' & _). now rewrite Hv'.
Qed.

(* an OCTET STRING leaf under the default or an explicit low tag *)
Lemma oct_node b t : low_tag (opt_tag t oct_tag) -> len b < BIG ->
  exists enc, encode (a_octets b t) = Ok enc /\ tlv_enc (opt_tag t oct_tag) b enc /\
    forall rest, read_octet_string (enc ++ rest) t None = Ok (b, rest).
Proof.
  intros Ht Hb. destruct (node_ok _ b Ht Hb) as (enc & E & T). exists enc. unfold a_octets. fold oct_tag. cbn [encode].
  repeat split; auto. intros rest. rewrite read_octet_string_eq. apply (tlv_read_raw (opt_tag t oct_tag) b); auto.
  destruct t; reflexivity.
Qed.

(* ---- OtherKeyAttribute (read with the header peeked by KEKIdentifier.unpack) *)
Theorem oka_roundtrip a : oid_wf (oka_id a) -> oid_small (oka_id a) -> obytes_ok (oka_attr a) ->
  exists t enc body, OtherKeyAttribute_pack a = Ok t /\ encode t = Ok enc /\ tlv_enc seq_tag body enc /\
    len enc <= obytes_len (oka_attr a) + U32 + 256 /\
    forall rest h, peek_header (enc ++ rest) = Ok h -> OtherKeyAttribute_unpack (enc ++ rest) (Some h) = Ok (a, rest).
Proof.
  intros Hw Hs Hp. destruct (oid_node _ Hw Hs) as (c & eo & Eo & Eeo & To & Hlc & Ro).
  destruct (raw_if_enc _ Hp) as [Er Hrb]. pose proof (tlv_len _ _ _ To) as Hlo.
  assert (Hpl : len (obytes_raw (oka_attr a)) = obytes_len (oka_attr a)) by (destruct (oka_attr a); reflexivity).
  assert (Hpb : 0 <= obytes_len (oka_attr a) < U32 * 2) by (destruct (oka_attr a); cbn in *; [pose proof (len_nonneg b); lia|unfold U32; lia]).
  set (body := eo ++ obytes_raw (oka_attr a)).
  assert (Ebody : encode_list (Prim oid_tag c :: raw_if (oka_attr a)) = Ok body) by (apply encode_list_cons; assumption).
  destruct (node_ok seq_tag body low_seq) as (enc & E & T); [unfold body; rewrite len_app; unfold U32, BIG in *; lia|].
  pose proof (tlv_len _ _ _ T) as Hle.
  exists (a_seq (Prim oid_tag c :: raw_if (oka_attr a))), enc, body.
  unfold OtherKeyAttribute_pack. rewrite Eo. cbn [bind]. split; [reflexivity|]. split; [rewrite (encode_seq _ _ Ebody); exact E|].
  split; [exact T|]. split; [unfold body in Hle; rewrite len_app in Hle; lia|].
  intros rest h Hh. unfold OtherKeyAttribute_unpack. rewrite read_sequence_eq.
  rewrite (tlv_read_raw seq_tag body enc rest None seq_tag (Some h) T Hh I). cbn [bind].
  unfold body. rewrite Ro. cbn [bind]. rewrite Hrb. destruct a; reflexivity.
Qed.

(* ---- KEKIdentifier as DPAPI-NG writes it: key identifier, no date, the other-key attribute *)
Theorem kekid_roundtrip kid a : len kid < U32 * 16 -> oid_wf (oka_id a) -> oid_small (oka_id a) -> obytes_ok (oka_attr a) ->
  let k := {| kekid_key_identifier := kid; kekid_date := None; kekid_other := Some a |} in
  exists t enc, KEKIdentifier_pack k = Ok t /\ encode t = Ok enc /\
    len enc <= len kid + obytes_len (oka_attr a) + U32 + 1024 /\
    forall rest, KEKIdentifier_unpack (enc ++ rest) = Ok (k, rest).
Proof.
  intros Hk Hw Hs Hp k. destruct (oka_roundtrip a Hw Hs Hp) as (ta & ea & ba & Ea & Eea & Ta & Hla & Ra).
  destruct (oct_node kid None low_oct ltac:(unfold U32, BIG in *; lia)) as (ek & Eek & Tk & Rk).
  pose proof (tlv_len _ _ _ Tk) as Hlk.
  assert (Hpb : 0 <= obytes_len (oka_attr a) < U32 * 2) by (destruct (oka_attr a); cbn in *; [pose proof (len_nonneg b); lia|unfold U32; lia]).
  set (body := ek ++ ea ++ []).
  assert (Ebody : encode_list [a_octets kid None; ta] = Ok body).
  { apply encode_list_cons; [exact Eek|]. apply encode_list_cons; [exact Eea|reflexivity]. }
  assert (Hlb : len body = len ek + len ea) by (unfold body; rewrite !len_app, len_nil; lia).
  destruct (node_ok seq_tag body low_seq) as (enc & E & T); [unfold U32, BIG in *; lia|].
  pose proof (tlv_len _ _ _ T) as Hle.
  exists (a_seq [a_octets kid None; ta]), enc.
  unfold KEKIdentifier_pack, k. cbn [kekid_date kekid_other kekid_key_identifier truthy]. rewrite Ea. cbn [bind app].
  split; [reflexivity|]. split; [rewrite (encode_seq _ _ Ebody); exact E|]. split; [unfold U32 in *; lia|].
  intros rest. unfold KEKIdentifier_unpack. rewrite read_sequence_eq.
  rewrite (tlv_read_raw seq_tag body enc rest None seq_tag None T I eq_refl). cbn [bind].
  unfold body. rewrite Rk. cbn [bind].
  destruct (tlv_peek seq_tag ba ea Ta) as (h & Hh & Htag & _). rewrite (Hh []). cbn [bind]. rewrite Htag.
  change ((t_class seq_tag =? c_class_universal) && (t_num seq_tag =? c_tag_gentime)) with false. cbv iota. cbn [bind]. rewrite Htag.
  change ((t_class seq_tag =? c_class_universal) && (t_num seq_tag =? c_tag_sequence)) with true. cbv iota.
  rewrite (Ra [] h (Hh [])). cbn [bind]. reflexivity.
Qed.

(* ---- KEKRecipientInfo, read through RecipientInfo.unpack (peeked header, [2] choice) *)
Definition kri_tag : tag := ctx_tag c_kekri_choice true.
Lemma low_kri : low_tag kri_tag. Proof. apply low_ctx. unfold c_kekri_choice. lia. Qed.

Definition alg_ok (a : algorithm_identifier) : Prop := oid_wf (alg_oid a) /\ oid_small (alg_oid a) /\ obytes_ok (alg_params a).

Theorem kri_roundtrip v kid a alg key : 0 <= v < 128 -> len kid < U32 * 16 ->
  oid_wf (oka_id a) -> oid_small (oka_id a) -> obytes_ok (oka_attr a) -> alg_ok alg -> len key < U32 ->
  let r := {| kri_version := v; kri_kekid := {| kekid_key_identifier := kid; kekid_date := None; kekid_other := Some a |};
              kri_alg := alg; kri_encrypted_key := key |} in
  exists t enc, KEKRecipientInfo_pack r = Ok t /\ encode t = Ok enc /\
    2 <= len enc <= len kid + obytes_len (oka_attr a) + obytes_len (alg_params alg) + len key + 2 * U32 + 4096 /\
    forall rest, RecipientInfo_unpack (enc ++ rest) = Ok (r, rest).
Proof.
  intros Hv Hk Hw Hs Hp (Haw & Has & Hap) Hkey r.
  destruct (int_node v Hv) as (ev & Ev & Eev & Tv & Rv).
  destruct (kekid_roundtrip kid a Hk Hw Hs Hp) as (tk & ek & Ek & Eek & Hlk & Rk).
  destruct (alg_roundtrip alg Haw Has Hap) as (ta & ea & Ea & Eea & _ & Hla & Ra).
  destruct (oct_node key None low_oct ltac:(unfold U32, BIG in *; lia)) as (ey & Eey & Ty & Ry).
  pose proof (tlv_len _ _ _ Tv) as Hlv. pose proof (tlv_len _ _ _ Ty) as Hly.
  assert (Hpb : 0 <= obytes_len (oka_attr a) < U32 * 2) by (destruct (oka_attr a); cbn in *; [pose proof (len_nonneg b); lia|unfold U32; lia]).
  assert (Hpb2 : 0 <= obytes_len (alg_params alg) < U32 * 2) by (destruct (alg_params alg); cbn in *; [pose proof (len_nonneg b); lia|unfold U32; lia]).
  set (body := ev ++ ek ++ ea ++ ey ++ []).
  assert (Ebody : encode_list [Prim int_tag [v]; tk; ta; a_octets key None] = Ok body).
  { repeat (apply encode_list_cons; [assumption|]). reflexivity. }
  assert (Hlb : len body = len ev + len ek + len ea + len ey) by (unfold body; rewrite !len_app, len_nil; lia).
  change (len [v]) with 1 in Hlv. pose proof (len_nonneg kid). pose proof (len_nonneg key).
  destruct (node_ok kri_tag body low_kri) as (enc & E & T); [unfold U32, BIG in *; lia|].
  pose proof (tlv_len _ _ _ T) as Hle.
  exists (Cons kri_tag [Prim int_tag [v]; tk; ta; a_octets key None]), enc.
  unfold KEKRecipientInfo_pack, r. cbn [kri_version kri_kekid kri_alg kri_encrypted_key]. rewrite Ev. cbn [bind]. rewrite Ek. cbn [bind]. rewrite Ea. cbn [bind].
  split; [reflexivity|]. split; [rewrite encode_cons, Ebody; exact E|]. pose proof (len_nonneg body). split; [unfold U32 in *; lia|].
  intros rest. unfold RecipientInfo_unpack. destruct (tlv_peek kri_tag body enc T) as (h & Hh & Htag & _). rewrite (Hh rest). cbn [bind]. rewrite Htag.
  change ((t_class kri_tag =? c_class_context) && (t_num kri_tag =? c_kekri_choice)) with true. cbv iota.
  unfold KEKRecipientInfo_unpack. rewrite read_sequence_eq.
  rewrite (tlv_read_raw kri_tag body enc rest None seq_tag (Some h) T (Hh rest) I). cbn [bind].
  unfold body. rewrite Rv. cbn [bind]. rewrite Rk. cbn [bind]. rewrite Ra. cbn [bind]. rewrite Ry. cbn [bind]. reflexivity.
Qed.

(* ---- EncryptedContentInfo: the optional [0] content is written only when non-empty *)
Definition eci_tag_w : tag := ctx_tag k_eci_content_tagnum false.
Theorem eci_roundtrip ct alg content : oid_wf ct -> oid_small ct -> alg_ok alg -> len content < U32 ->
  let e := {| eci_content_type := ct; eci_alg := alg; eci_content := Some content |} in
  exists t enc, EncryptedContentInfo_pack e = Ok t /\ encode t = Ok enc /\
    len enc <= len content + obytes_len (alg_params alg) + 2 * U32 + 2048 /\
    forall rest, EncryptedContentInfo_unpack (enc ++ rest) =
                 Ok ({| eci_content_type := ct; eci_alg := alg; eci_content := truthy (Some content) |}, rest).
Proof.
  intros Hw Hs (Haw & Has & Hap) Hc e.
  destruct (oid_node _ Hw Hs) as (c & eo & Eo & Eeo & To & Hlc & Ro).
  destruct (alg_roundtrip alg Haw Has Hap) as (ta & ea & Ea & Eea & _ & Hla & Ra).
  pose proof (tlv_len _ _ _ To) as Hlo. pose proof (len_nonneg content).
  assert (Hpb2 : 0 <= obytes_len (alg_params alg) < U32 * 2) by (destruct (alg_params alg); cbn in *; [pose proof (len_nonneg b); lia|unfold U32; lia]).
  destruct (oct_node content (Some eci_tag_w) (low_ctx k_eci_content_tagnum false ltac:(unfold k_eci_content_tagnum; lia)) ltac:(unfold U32, BIG in *; lia)) as (ec & Eec & Tc & Rc).
  pose proof (tlv_len _ _ _ Tc) as Hlcc.
  set (opt := match truthy (Some content) with Some c0 => [a_octets c0 (Some eci_tag_w)] | None => [] end).
  set (eopt := match content with [] => [] | _ => ec ++ [] end).
  assert (Eopt : encode_list opt = Ok eopt).
  { unfold opt, eopt. destruct content; [reflexivity|]. cbn [truthy]. apply encode_list_cons; [exact Eec|reflexivity]. }
  assert (Hlopt : 0 <= len eopt <= len content + 128).
  { unfold eopt. destruct content; [cbn; lia|]. rewrite app_nil_r. lia. }
  set (body := eo ++ ea ++ eopt).
  assert (Ebody : encode_list (Prim oid_tag c :: ta :: opt) = Ok body) by (repeat (apply encode_list_cons; [assumption|]); exact Eopt).
  assert (Hlb : len body = len eo + len ea + len eopt) by (unfold body; rewrite !len_app; lia).
  destruct (node_ok seq_tag body low_seq) as (enc & E & T); [unfold U32, BIG in *; lia|].
  pose proof (tlv_len _ _ _ T) as Hle.
  exists (a_seq (Prim oid_tag c :: ta :: opt)), enc.
  unfold EncryptedContentInfo_pack, e. cbn [eci_content_type eci_alg eci_content]. rewrite Eo. cbn [bind]. rewrite Ea. cbn [bind].
  split; [reflexivity|]. split; [rewrite (encode_seq _ _ Ebody); exact E|]. split; [unfold U32 in *; lia|].
  intros rest. unfold EncryptedContentInfo_unpack. rewrite read_sequence_eq.
  rewrite (tlv_read_raw seq_tag body enc rest None seq_tag None T I eq_refl). cbn [bind].
  unfold body. rewrite Ro. cbn [bind]. rewrite Ra. cbn [bind]. unfold eopt.
  destruct content as [|x content'].
  - cbn [reader_bool length Nat.eqb negb bind truthy]. reflexivity.
  - assert (Hne : reader_bool (ec ++ []) = true).
    { destruct Tc as (hdr & -> & Hh & _). destruct hdr; [cbn in Hh; lia|reflexivity]. }
    rewrite Hne. change (ctx_tag k_eci_content_tagnum_r false) with eci_tag_w. rewrite Rc. cbn [bind truthy]. reflexivity.
Qed.

(* ---- constant OIDs of the source: well-formed, short *)
Ltac const_oid_wf := cbn; repeat split; try lia; repeat constructor; lia.
Ltac const_oid_small := let c := fresh "c" in let H := fresh "H" in
  intros c H; vm_compute in H; apply Ok_inj in H; subst c; vm_compute; reflexivity.
Lemma oid_enveloped_wf : oid_wf oid_enveloped_data /\ oid_small oid_enveloped_data.
Proof. split; [const_oid_wf|const_oid_small]. Qed.
Lemma oid_data_wf : oid_wf oid_data /\ oid_small oid_data.
Proof. split; [const_oid_wf|const_oid_small]. Qed.
Lemma oid_eqb_refl a : oid_eqb a a = true.
Proof. induction a as [|x a IH]; [reflexivity|]. cbn [oid_eqb]. rewrite Z.eqb_refl, IH. reflexivity. Qed.

(* ---- EnvelopedData with one KEKRecipientInfo *)
Theorem ed_roundtrip v kid a alg key ct calg content :
  0 <= v < 128 -> len kid < U32 * 16 -> oid_wf (oka_id a) -> oid_small (oka_id a) -> obytes_ok (oka_attr a) -> alg_ok alg -> len key < U32 ->
  oid_wf ct -> oid_small ct -> alg_ok calg -> len content < U32 ->
  let r := {| kri_version := v; kri_kekid := {| kekid_key_identifier := kid; kekid_date := None; kekid_other := Some a |};
              kri_alg := alg; kri_encrypted_key := key |} in
  let e := {| ed_version := 2; ed_recipient_infos := [r];
              ed_eci := {| eci_content_type := ct; eci_alg := calg; eci_content := Some content |} |} in
  exists t enc, EnvelopedData_pack e = Ok t /\ encode t = Ok enc /\
    len enc <= len kid + obytes_len (oka_attr a) + obytes_len (alg_params alg) + len key + len content + obytes_len (alg_params calg) + 4 * U32 + 16384 /\
    forall rest, EnvelopedData_unpack (enc ++ rest) =
      Ok {| ed_version := 2; ed_recipient_infos := [r];
            ed_eci := {| eci_content_type := ct; eci_alg := calg; eci_content := truthy (Some content) |} |}.
Proof.
  intros Hv Hk Hw Hs Hp Halg Hkey Hcw Hcs Hcalg Hcont. cbv zeta.
  destruct (int_node 2 ltac:(lia)) as (e2 & E2 & Ee2 & T2 & R2).
  destruct (kri_roundtrip v kid a alg key Hv Hk Hw Hs Hp Halg Hkey) as (tk & ek & Ek & Eek & Hlk & Rk).
  match type of Ek with KEKRecipientInfo_pack ?R = _ => set (r := R) in * end.
  destruct (eci_roundtrip ct calg content Hcw Hcs Hcalg Hcont) as (te & ee & Ee & Eee & Hlee & Re).
  pose proof (tlv_len _ _ _ T2) as Hl2. change (len [2]) with 1 in Hl2.
  assert (Hpb : 0 <= obytes_len (oka_attr a) < U32 * 2) by (destruct (oka_attr a); cbn in *; [pose proof (len_nonneg b); lia|unfold U32; lia]).
  assert (Hpb2 : 0 <= obytes_len (alg_params alg) < U32 * 2) by (destruct Halg as (_ & _ & H); destruct (alg_params alg); cbn in *; [pose proof (len_nonneg b); lia|unfold U32; lia]).
  assert (Hpb3 : 0 <= obytes_len (alg_params calg) < U32 * 2) by (destruct Hcalg as (_ & _ & H); destruct (alg_params calg); cbn in *; [pose proof (len_nonneg b); lia|unfold U32; lia]).
  pose proof (len_nonneg kid). pose proof (len_nonneg key). pose proof (len_nonneg content).
  (* the SET OF RecipientInfo *)
  set (sbody := ek ++ []).
  assert (Esbody : encode_list [tk] = Ok sbody) by (apply encode_list_cons; [exact Eek|reflexivity]).
  assert (Hlsb : len sbody = len ek) by (unfold sbody; now rewrite app_nil_r).
  destruct (node_ok set_tag sbody low_set) as (es & Es & Ts); [unfold U32, BIG in *; lia|].
  pose proof (tlv_len _ _ _ Ts) as Hls.
  assert (Eset : encode (a_set [tk]) = Ok es) by (unfold a_set; rewrite encode_cons, Esbody; exact Es).
  set (body := e2 ++ es ++ ee ++ []).
  assert (Ebody : encode_list [Prim int_tag [2]; a_set [tk]; te] = Ok body).
  { repeat (apply encode_list_cons; [assumption|]). reflexivity. }
  assert (Hlb : len body = len e2 + len es + len ee) by (unfold body; rewrite !len_app, len_nil; lia).
  destruct (node_ok seq_tag body low_seq) as (enc & E & T); [unfold U32, BIG in *; lia|].
  pose proof (tlv_len _ _ _ T) as Hle.
  exists (a_seq [Prim int_tag [2]; a_set [tk]; te]), enc.
  unfold EnvelopedData_pack. cbn [ed_version ed_recipient_infos ed_eci map_res]. rewrite E2. cbn [bind]. rewrite Ek. cbn [bind]. rewrite Ee. cbn [bind].
  split; [reflexivity|]. split; [rewrite (encode_seq _ _ Ebody); exact E|]. split; [unfold U32 in *; lia|].
  intros rest. unfold EnvelopedData_unpack. rewrite read_sequence_eq.
  rewrite (tlv_read_raw seq_tag body enc rest None seq_tag None T I eq_refl). cbn [bind].
  unfold body. rewrite R2. cbn [bind]. change (k_ed_version_bad 2) with false. cbv iota.
  rewrite read_set_eq. rewrite (tlv_read_raw set_tag sbody es (ee ++ []) None set_tag None Ts I eq_refl). cbn [bind].
  assert (Hris : RecipientInfos_unpack (length sbody) sbody = Ok [r]).
  { assert (Hne : exists x y, sbody = x :: y).
    { unfold sbody. destruct ek as [|x y]; [cbn in Hlk; lia|]. cbn [app]. eauto. }
    destruct Hne as (x & y & Hxy). rewrite Hxy at 1. cbn [length]. rewrite Hxy at 1.
    cbn [RecipientInfos_unpack reader_bool length Nat.eqb negb]. rewrite <- Hxy. unfold sbody. rewrite Rk. cbn [bind].
    destruct (length y); reflexivity. }
  rewrite Hris. cbn [bind]. rewrite Re. cbn [bind]. reflexivity.
Qed.

(* ---- ContentInfo: [0] EXPLICIT content, read with the header peeked by DPAPINGBlob.unpack *)
Definition ci_tag_w : tag := ctx_tag k_ci_content_tagnum true.
Theorem ci_roundtrip ct content : oid_wf ct -> oid_small ct -> len content < BIG / 4 ->
  let c := {| ci_content_type := ct; ci_content := content |} in
  exists t enc h, ContentInfo_pack c = Ok t /\ encode t = Ok enc /\ len enc <= len content + U32 + 1024 /\
    (forall rest, peek_header (enc ++ rest) = Ok h) /\ h_tlen h + h_len h = len enc /\
    ContentInfo_unpack enc (Some h) = Ok c.
Proof.
  intros Hw Hs Hc c.
  destruct (oid_node _ Hw Hs) as (co & eo & Eo & Eeo & To & Hlc & Ro). pose proof (tlv_len _ _ _ To) as Hlo.
  assert (Hq : BIG / 4 = 1152921504606846976) by reflexivity. pose proof (len_nonneg content).
  destruct (oct_node content (Some ci_tag_w) (low_ctx k_ci_content_tagnum true ltac:(unfold k_ci_content_tagnum; lia)) ltac:(unfold BIG in *; lia)) as (ec & Eec & Tc & Rc).
  pose proof (tlv_len _ _ _ Tc) as Hlcc.
  set (body := eo ++ ec ++ []).
  assert (Ebody : encode_list [Prim oid_tag co; a_octets content (Some ci_tag_w)] = Ok body).
  { repeat (apply encode_list_cons; [assumption|]). reflexivity. }
  assert (Hlb : len body = len eo + len ec) by (unfold body; rewrite !len_app, len_nil; lia).
  destruct (node_ok seq_tag body low_seq) as (enc & E & T); [unfold U32, BIG in *; lia|].
  pose proof (tlv_len _ _ _ T) as Hle.
  destruct (tlv_peek seq_tag body enc T) as (h & Hh & Htag & Htot & _).
  exists (a_seq [Prim oid_tag co; a_octets content (Some ci_tag_w)]), enc, h.
  unfold ContentInfo_pack, c. cbn [ci_content_type ci_content]. rewrite Eo. cbn [bind].
  split; [reflexivity|]. split; [rewrite (encode_seq _ _ Ebody); exact E|]. split; [unfold U32 in *; lia|]. split; [exact Hh|]. split; [exact Htot|].
  unfold ContentInfo_unpack. rewrite read_sequence_eq. rewrite <- (app_nil_r enc).
  rewrite (tlv_read_raw seq_tag body enc [] None seq_tag (Some h) T (Hh []) I). cbn [bind].
  unfold body. rewrite Ro. cbn [bind]. change (ctx_tag k_ci_content_tagnum_r true) with ci_tag_w. rewrite Rc. cbn [bind]. reflexivity.
Qed.
