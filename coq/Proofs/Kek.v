(* C03: the KEK of the encrypting side (new_kek) equals the KEK of the decrypting side (get_kek)
   and both equal the specification Spec/KekSpec.v. *)
From Coq Require Import String.
From V Require Import Prelude.Base Prelude.PyInt Prelude.PySlice Prelude.PyStr Prelude.TrueDiv.
From V Require Import gen.Consts gen.C_gkdi gen.K_gkdi gen.Kernels.
From V Require Import Model.Types Model.Crypto Model.Sym Model.Chain Model.KeyId Model.Gkdi Model.Kek.
From V Require Import Spec.GkdiSpec Spec.GkdiLayout Spec.KekSpec.
From V Require Import Proofs.C02 Proofs.GkdiLib Proofs.GkdiStructs Proofs.GkdiLayoutEq Proofs.KekLib.

(* ---- constants of the model are the constants of the specification ---- *)
Lemma label_spec : c_KDS_SERVICE_LABEL = KDS_SERVICE. Proof. reflexivity. Qed.
Lemma kek_context_spec : KEK_CONTEXT = KDS_PUBLIC_KEY. Proof. reflexivity. Qed.
Lemma other_info_spec : KEK_ALGORITHM_ID ++ KEK_CONTEXT ++ c_KDS_SERVICE_LABEL = OTHER_INFO. Proof. reflexivity. Qed.
Lemma kek_lengths : k_kek_len_pub = KEK_BYTES /\ k_kek_len_nonce_get = KEK_BYTES /\ k_kek_len_nonce_new = KEK_BYTES /\ k_nonce_len = 32.
Proof. repeat split. Qed.

(* kernel: the private key length in bytes is ceil(bits / 8) on both sides, for every 32-bit length *)
Lemma k_ceil_priv_spec n : u32b n = true -> k_ceil_priv_get n = bytes_of_bits n /\ k_ceil_priv_new n = bytes_of_bits n.
Proof.
  intros H. unfold u32b in H. unfold k_ceil_priv_get, k_ceil_priv_new, bytes_of_bits.
  rewrite py_ceil_div8 by lia. split; reflexivity.
Qed.

(* ---- octet string conversions ---- *)
Lemma le_val_app a : forall x, le_val (a ++ [x]) = le_val a + x * P (length a).
Proof. induction a as [|y a IH]; intros x; cbn [app le_val length]; [rewrite P_0; lia|]. rewrite IH, P_S. lia. Qed.
Lemma OS2IP_acc l : forall acc, fold_left (fun a x => a * 256 + x) l acc = acc * P (length l) + be_val l.
Proof.
  unfold be_val. induction l as [|x l IH]; intros acc; cbn [fold_left length rev].
  - rewrite P_0. cbn. lia.
  - rewrite IH, le_val_app, rev_length, P_S. lia.
Qed.
Lemma OS2IP_be_val l : OS2IP l = be_val l.
Proof. unfold OS2IP. rewrite OS2IP_acc. lia. Qed.
Lemma I2OSP_be n v : I2OSP n v = be (Z.to_nat n) v.
Proof. apply be_digits_be. Qed.

(* ---- FFCDHKey / ECDHKey: decoding what was encoded ---- *)
Lemma ECDHKey_unpack_fields cv k : curve_of_name (eck_curve_name k) = Some cv -> wf_eck k = true ->
  ECDHKey_unpack (concat (eck_field_list cv k)) = Ok k.
Proof.
  intros Ec Hwf. destruct (ECDHKey_roundtrip k Hwf) as (b & Hp & Hu).
  rewrite (ECDHKey_pack_ok k cv Ec Hwf) in Hp. apply Ok_inj in Hp. now subst b.
Qed.
Lemma to_bytes_be_z_inv kl v b : to_bytes_be_z kl v = Ok b -> 0 <= kl /\ fitsb kl v = true /\ b = be (Z.to_nat kl) v.
Proof.
  unfold to_bytes_be_z. destruct (kl <? 0) eqn:E; [discriminate|]. intros H. apply to_bytes_be_inv in H as [Hr ->].
  rewrite P_pow, Z2Nat.id in Hr by lia. unfold fitsb. repeat split; lia.
Qed.
Lemma ECDHKey_pack_inv k b : ECDHKey_pack k = Ok b ->
  exists cv, curve_of_name (eck_curve_name k) = Some cv /\ wf_eck k = true /\ b = concat (eck_field_list cv k).
Proof.
  unfold ECDHKey_pack.
  destruct (to_bytes_be_z (eck_key_length k) (eck_x k)) as [bx|] eqn:Ex; [|discriminate]. cbn [bind].
  destruct (to_bytes_be_z (eck_key_length k) (eck_y k)) as [by_|] eqn:Ey; [|discriminate]. cbn [bind].
  destruct (curve_of_name (eck_curve_name k)) as [cv|] eqn:Ec; [|discriminate].
  destruct (to_bytes_le 4 (eck_key_length k)) as [bl|] eqn:El; [|discriminate]. cbn [bind].
  intros H. apply Ok_inj in H. exists cv. split; [reflexivity|].
  apply to_bytes_be_z_inv in Ex as (Hk & Hx & ->). apply to_bytes_be_z_inv in Ey as (_ & Hy & ->).
  apply to_bytes_le_inv in El as [Hl ->]. rewrite P_4 in Hl.
  split; [|now subst b]. unfold wf_eck. rewrite Ec, Hx, Hy. unfold u32b. lia.
Qed.

Section K.
Context (c : Crypto).

(* ---- compute_kek / compute_public_key on well-formed public keys ---- *)
Lemma STR_DH_self : str_eqb STR_DH STR_DH = true. Proof. reflexivity. Qed.

(* the DH parameters of the group key (secret_parameters of the envelope), decoded *)
Definition dh_group_params (sp : bytes) (kl p g : Z) : Prop :=
  FFCDHParameters_unpack sp = Ok {| ffp_key_length := kl; ffp_field_order := p; ffp_generator := g |}.
Lemma dh_pub_validb_spec p v : dh_pub_validb p v = true <-> dh_pub_valid p v.
Proof. unfold dh_pub_validb, dh_pub_valid. lia. Qed.

Lemma compute_kek_dh h sp priv k : wf_ffk k = true -> 0 < ffk_field_order k -> wfb priv = true ->
  dh_group_params sp (ffk_key_length k) (ffk_field_order k) (ffk_generator k) ->
  dh_pub_valid (ffk_field_order k) (ffk_public_key k) ->
  compute_kek c h STR_DH sp priv (concat (ffk_field_list k)) =
  Ok (kek_dh c h (ffk_field_order k) (ffk_key_length k) (ffk_public_key k) (OS2IP priv)).
Proof.
  intros Hwf Hp Hb Hsp Hv. unfold compute_kek. rewrite STR_DH_self.
  rewrite (FFCDHKey_unpack_fields k Hwf). cbn [bind].
  unfold dh_group_params in Hsp. rewrite Hsp. cbn [bind].
  unfold dh_params_mismatch. cbn [ffp_key_length ffp_field_order ffp_generator]. rewrite !Z.eqb_refl. cbn [andb negb].
  unfold k_dh_pub_bad. unfold dh_pub_valid in Hv.
  replace ((1 <? ffk_public_key k) && (ffk_public_key k <? ffk_field_order k - 1)) with true by lia. cbn [negb].
  unfold py_pow3. destruct (ffk_field_order k =? 0) eqn:E0; [lia|]. cbn [bind].
  pose proof (be_val_range priv Hb) as Hx.
  rewrite modpow_spec by lia.
  unfold wf_ffk in Hwf. rewrite !andb_true_iff in Hwf. destruct Hwf as [[[Hk Hfo] Hg] Hpk].
  assert (Hk0 : 0 <= ffk_key_length k) by (unfold u32b in Hk; lia).
  pose proof (Z.mod_pos_bound (ffk_public_key k ^ be_val priv) (ffk_field_order k) Hp) as Hs.
  rewrite to_bytes_be_z_ok by (auto; unfold fitsb in *; lia). cbn [bind].
  unfold kek_dh, kek_of_shared, dh_shared. rewrite I2OSP_be, OS2IP_be_val.
  rewrite <- label_spec, <- kek_context_spec, <- other_info_spec. reflexivity.
Qed.

Lemma compute_public_key_dh sp priv k : wf_ffk k = true -> 0 < ffk_field_order k -> wfb priv = true ->
  let k' := {| ffk_key_length := ffk_key_length k; ffk_field_order := ffk_field_order k; ffk_generator := ffk_generator k;
               ffk_public_key := dh_public (ffk_field_order k) (ffk_generator k) (OS2IP priv) |} in
  wf_ffk k' = true /\ compute_public_key c STR_DH sp priv (concat (ffk_field_list k)) = Ok (concat (ffk_field_list k')).
Proof.
  intros Hwf Hp Hb k'. pose proof (be_val_range priv Hb) as Hx.
  assert (Hwf' : wf_ffk k' = true).
  { unfold wf_ffk in *. rewrite !andb_true_iff in *. destruct Hwf as [[[Hk Hfo] Hg] Hpk]. cbn [k' ffk_key_length ffk_field_order ffk_generator ffk_public_key].
    repeat split; try assumption. unfold dh_public, fitsb in *.
    pose proof (Z.mod_pos_bound (ffk_generator k ^ OS2IP priv) (ffk_field_order k) Hp). lia. }
  split; [exact Hwf'|].
  unfold compute_public_key. rewrite STR_DH_self. rewrite (FFCDHKey_unpack_fields k Hwf). cbn [bind].
  unfold py_pow3. destruct (ffk_field_order k =? 0) eqn:E0; [lia|]. cbn [bind].
  rewrite modpow_spec by lia. rewrite <- OS2IP_be_val. fold (dh_public (ffk_field_order k) (ffk_generator k) (OS2IP priv)).
  apply (FFCDHKey_pack_ok k' Hwf').
Qed.

Lemma curve_hash_spec cv : curve_hash cv = ecdh_hash cv. Proof. destruct cv; reflexivity. Qed.

Lemma compute_kek_ecdh h alg sp priv cv k : str_eqb alg STR_DH = false -> startswith alg STR_ECDH_P = true ->
  curve_of_name (eck_curve_name k) = Some cv -> wf_eck k = true ->
  compute_kek c h alg sp priv (concat (eck_field_list cv k)) =
  let* Zs := ec_dh c cv (OS2IP priv) (eck_x k, eck_y k) in Ok (kek_ecdh c h cv Zs).
Proof.
  intros Hd He Ec Hwf. unfold compute_kek. rewrite Hd, He.
  rewrite (ECDHKey_unpack_fields cv k Ec Hwf). cbn [bind].
  unfold curve_and_hash. rewrite Ec. cbn [bind]. rewrite OS2IP_be_val.
  destruct (ec_dh c cv (be_val priv) (eck_x k, eck_y k)) as [Zs|err]; cbn [bind]; [|reflexivity].
  unfold kek_ecdh, kek_of_shared. rewrite <- label_spec, <- kek_context_spec, <- other_info_spec, curve_hash_spec. reflexivity.
Qed.

Lemma compute_public_key_ecdh alg sp priv cv k b : str_eqb alg STR_DH = false -> startswith alg STR_ECDH_P = true ->
  curve_of_name (eck_curve_name k) = Some cv -> wf_eck k = true ->
  compute_public_key c alg sp priv (concat (eck_field_list cv k)) = Ok b ->
  exists x y, ec_pub c cv (OS2IP priv) = Ok (x, y) /\
    let k' := {| eck_curve_name := eck_curve_name k; eck_key_length := eck_key_length k; eck_x := x; eck_y := y |} in
    wf_eck k' = true /\ b = concat (eck_field_list cv k').
Proof.
  intros Hd He Ec Hwf. unfold compute_public_key. rewrite Hd, He.
  rewrite (ECDHKey_unpack_fields cv k Ec Hwf). cbn [bind].
  unfold curve_and_hash. rewrite Ec. cbn [bind]. rewrite OS2IP_be_val.
  destruct (ec_pub c cv (be_val priv)) as [[x y]|err]; cbn [bind]; [|discriminate].
  intros Hp. exists x, y. split; [reflexivity|]. cbv zeta.
  apply ECDHKey_pack_inv in Hp as (cv' & Ec' & Hwf' & ->). cbn [eck_curve_name] in Ec'.
  rewrite Ec in Ec'. injection Ec' as <-. split; [exact Hwf'|reflexivity].
Qed.

(* ---- the seed-holding side ---- *)
Definition KDFof (h : hash) (e : envelope) := kdfK c h (gke_rkid e) (gke_l0 e).

Lemma get_kek_seed h top es kid seed :
  envelope_hash es = Ok h -> gke_is_public_key es = false -> gke_l0 es = kid_l0 kid ->
  conforming (KDFof h es) top (env_of es) -> covers (env_of es) (kid_l1 kid) (kid_l2 kid) ->
  0 <= kid_l1 kid <= 31 -> 0 <= kid_l2 kid <= 31 ->
  K2 (KDFof h es) top (kid_l1 kid) (kid_l2 kid) = Ok seed ->
  get_kek c es kid =
  if kid_is_public_key kid
  then compute_kek_from_public_key c h seed (gke_secret_alg es) (gke_secret_params es) (kid_key_info kid) (k_ceil_priv_get (gke_priv_len es))
  else Ok (kek_nonce c h seed (kid_key_info kid)).
Proof.
  intros Hh Hpub Hl0 Hconf Hcov H1 H2 Hseed. unfold get_kek. rewrite Hpub.
  unfold k_getkek_l0_mismatch. rewrite Hl0, Z.eqb_refl. cbn [negb]. rewrite Hh. cbn [bind].
  rewrite (model_chain c h top es _ _ Hconf H1 H2 Hcov). unfold KDFof in Hseed. rewrite Hseed. cbn [bind].
  unfold kek_nonce. rewrite <- label_spec. reflexivity.
Qed.

(* ---- nonce mode ---- *)
(* The encrypting side either holds the L2 seed key of its position, or (the shape MS-GKDI 2.2.4 allows
   at L2 = 31, and the shape the library builds from a root key) holds no L2 key in a conforming
   envelope, in which case new_kek derives it (repair of D13). *)
Theorem agree_nonce h top (e e' : envelope) (rnd : Z -> bytes) seed :
  envelope_hash e = Ok h -> envelope_hash e' = Ok h ->
  gke_is_public_key e = false -> gke_is_public_key e' = false ->
  gke_l0 e' = gke_l0 e -> gke_rkid e' = gke_rkid e ->
  0 <= gke_l1 e <= 31 -> 0 <= gke_l2 e <= 31 ->
  conforming (KDFof h e) top (env_of e') -> covers (env_of e') (gke_l1 e) (gke_l2 e) ->
  K2 (KDFof h e) top (gke_l1 e) (gke_l2 e) = Ok seed ->
  ((gke_l2_key e = seed /\ seed <> []) \/ (gke_l2_key e = [] /\ conforming (KDFof h e) top (env_of e))) ->
  exists kid, new_kek c rnd e = Ok (kek_nonce c h seed (rnd 32), kid) /\ kid_key_info kid = rnd 32 /\
              get_kek c e' kid = Ok (kek_nonce c h seed (rnd 32)).
Proof.
  intros Hh Hh' Hp Hp' Hl0 Hrk H1 H2 Hconf Hcov Hseed Hl2.
  assert (Hs : match gke_l2_key e with
               | [] => compute_l2_key c h (gke_l1 e) (gke_l2 e) e
               | _ => Ok (gke_l2_key e)
               end = Ok seed).
  { destruct Hl2 as [[Hk Hne]|[Hk Hc]].
    - rewrite Hk. destruct seed; [contradiction|reflexivity].
    - rewrite Hk. rewrite (model_chain c h top e _ _ Hc H1 H2); [exact Hseed|]. unfold covers. cbn [env_of e_l1 e_l2]. lia. }
  eexists. split; [|split].
  - unfold new_kek. rewrite Hh. cbn [bind]. rewrite Hp. rewrite Hs. cbn [bind].
    unfold kek_nonce. rewrite <- label_spec. reflexivity.
  - reflexivity.
  - assert (HK : KDFof h e' = KDFof h e) by (unfold KDFof; rewrite Hl0, Hrk; reflexivity).
    rewrite (get_kek_seed h top e' _ seed); cbn [kid_l0 kid_l1 kid_l2 kid_flags kid_key_info]; try rewrite HK; auto.
    unfold kid_is_public_key. cbn [kid_flags]. unfold gke_is_public_key in Hp. rewrite Hp. reflexivity.
Qed.

(* ---- DH ---- *)
Lemma encode_DH : encode_utf16z STR_DH = Ok (lit16z "DH"). Proof. reflexivity. Qed.

Theorem agree_dh h top (es ep : envelope) (rnd : Z -> bytes) seed kl p g :
  envelope_hash es = Ok h -> envelope_hash ep = Ok h ->
  gke_is_public_key es = false -> gke_is_public_key ep = true ->
  gke_l0 es = gke_l0 ep -> gke_rkid es = gke_rkid ep ->
  gke_secret_alg es = STR_DH -> gke_secret_alg ep = STR_DH ->
  gke_priv_len es = gke_priv_len ep -> u32b (gke_priv_len ep) = true ->
  0 <= gke_l1 ep <= 31 -> 0 <= gke_l2 ep <= 31 ->
  conforming (KDFof h ep) top (env_of es) -> covers (env_of es) (gke_l1 ep) (gke_l2 ep) ->
  K2 (KDFof h ep) top (gke_l1 ep) (gke_l2 ep) = Ok seed ->
  0 < p -> u32b kl = true -> fitsb kl p = true -> fitsb kl g = true ->
  (* both envelopes carry the group's DH parameters (msKds-SecretAgreementParam of the root key) *)
  dh_group_params (gke_secret_params es) kl p g -> dh_group_params (gke_secret_params ep) kl p g ->
  let nbytes := bytes_of_bits (gke_priv_len ep) in
  let ybytes := kdf c h seed KDS_SERVICE (lit16z "DH") nbytes in         (* group private key *)
  let y := OS2IP ybytes in let x := OS2IP (rnd nbytes) in
  wfb ybytes = true -> wfb (rnd nbytes) = true ->
  (* the group public value and the ephemeral public value are valid group elements (not 0, 1, p - 1) *)
  dh_pub_valid p (dh_public p g y) -> dh_pub_valid p (dh_public p g x) ->
  (* the DC's public-key envelope carries g^y mod p *)
  gke_l2_key ep = concat (ffk_field_list {| ffk_key_length := kl; ffk_field_order := p; ffk_generator := g; ffk_public_key := dh_public p g y |}) ->
  exists kid,
    new_kek c rnd ep = Ok (kek_dh c h p kl (dh_public p g y) x, kid) /\
    kid_key_info kid = concat (ffk_field_list {| ffk_key_length := kl; ffk_field_order := p; ffk_generator := g; ffk_public_key := dh_public p g x |}) /\
    get_kek c es kid = Ok (kek_dh c h p kl (dh_public p g x) y) /\
    kek_dh c h p kl (dh_public p g x) y = kek_dh c h p kl (dh_public p g y) x.
Proof.
  intros Hh Hh' Hps Hpp Hl0 Hrk Has Hap Hpl Hpu H1 H2 Hconf Hcov Hseed Hp Hkl Hfp Hfg Gs Gp nbytes ybytes y x Wy Wx Vy Vx Hl2.
  destruct (k_ceil_priv_spec _ Hpu) as [Cg Cn].
  set (kA := {| ffk_key_length := kl; ffk_field_order := p; ffk_generator := g; ffk_public_key := dh_public p g y |}) in *.
  assert (WA : wf_ffk kA = true).
  { unfold wf_ffk, kA. cbn [ffk_key_length ffk_field_order ffk_generator ffk_public_key]. rewrite Hkl, Hfp, Hfg. cbn [andb].
    unfold dh_public, fitsb in *. pose proof (Z.mod_pos_bound (g ^ y) p Hp). lia. }
  pose proof (compute_kek_dh h (gke_secret_params ep) (rnd nbytes) kA WA Hp Wx Gp Vy) as CK.
  destruct (compute_public_key_dh (gke_secret_params ep) (rnd nbytes) kA WA Hp Wx) as [WB CP].
  cbn [kA ffk_key_length ffk_field_order ffk_generator ffk_public_key] in CK, CP, WB. fold x in CK, CP, WB.
  set (kB := {| ffk_key_length := kl; ffk_field_order := p; ffk_generator := g; ffk_public_key := dh_public p g x |}) in *.
  eexists. split; [|split; [|split]].
  - unfold new_kek. rewrite Hh'. cbn [bind]. rewrite Hpp. rewrite Cn. fold nbytes. rewrite Hap, Hl2.
    fold kA. rewrite CK. cbn [bind]. rewrite CP. cbn [bind]. reflexivity.
  - reflexivity.
  - assert (HK : KDFof h es = KDFof h ep) by (unfold KDFof; rewrite Hl0, Hrk; reflexivity).
    rewrite (get_kek_seed h top es _ seed); cbn [kid_l0 kid_l1 kid_l2 kid_flags kid_key_info]; try rewrite HK; auto.
    unfold kid_is_public_key. cbn [kid_flags]. unfold gke_is_public_key in Hpp. rewrite Hpp.
    unfold compute_kek_from_public_key. rewrite Has, encode_DH. cbn [bind].
    rewrite Hpl, Cg. fold nbytes. rewrite label_spec. fold ybytes.
    rewrite (compute_kek_dh h _ ybytes kB WB Hp Wy Gs Vx). reflexivity.
  - unfold kek_dh, dh_shared, dh_public.
    assert (Hx : 0 <= x) by (unfold x; rewrite OS2IP_be_val; apply be_val_range, Wx).
    assert (Hy : 0 <= y) by (unfold y; rewrite OS2IP_be_val; apply be_val_range, Wy).
    replace ((g ^ x mod p) ^ y mod p) with ((g ^ y mod p) ^ x mod p); [reflexivity|].
    rewrite <- !modpow_spec by lia. apply modpow_comm; lia.
Qed.

(* the sending side alone (no hypothesis on the ephemeral public value: the sender does not validate its own) *)
Lemma new_kek_dh h (ep : envelope) (rnd : Z -> bytes) seed kl p g :
  envelope_hash ep = Ok h -> gke_is_public_key ep = true -> gke_secret_alg ep = STR_DH -> u32b (gke_priv_len ep) = true ->
  0 < p -> u32b kl = true -> fitsb kl p = true -> fitsb kl g = true ->
  dh_group_params (gke_secret_params ep) kl p g ->
  let nbytes := bytes_of_bits (gke_priv_len ep) in
  let y := OS2IP (kdf c h seed KDS_SERVICE (lit16z "DH") nbytes) in let x := OS2IP (rnd nbytes) in
  wfb (rnd nbytes) = true -> dh_pub_valid p (dh_public p g y) ->
  gke_l2_key ep = concat (ffk_field_list {| ffk_key_length := kl; ffk_field_order := p; ffk_generator := g; ffk_public_key := dh_public p g y |}) ->
  exists kid,
    new_kek c rnd ep = Ok (kek_dh c h p kl (dh_public p g y) x, kid) /\
    kid_key_info kid = concat (ffk_field_list {| ffk_key_length := kl; ffk_field_order := p; ffk_generator := g; ffk_public_key := dh_public p g x |}).
Proof.
  intros Hh' Hpp Hap Hpu Hp Hkl Hfp Hfg Gp nbytes y x Wx Vy Hl2.
  destruct (k_ceil_priv_spec _ Hpu) as [Cg Cn].
  set (kA := {| ffk_key_length := kl; ffk_field_order := p; ffk_generator := g; ffk_public_key := dh_public p g y |}) in *.
  assert (WA : wf_ffk kA = true).
  { unfold wf_ffk, kA. cbn [ffk_key_length ffk_field_order ffk_generator ffk_public_key]. rewrite Hkl, Hfp, Hfg. cbn [andb].
    unfold dh_public, fitsb in *. pose proof (Z.mod_pos_bound (g ^ y) p Hp). lia. }
  pose proof (compute_kek_dh h (gke_secret_params ep) (rnd nbytes) kA WA Hp Wx Gp Vy) as CK.
  destruct (compute_public_key_dh (gke_secret_params ep) (rnd nbytes) kA WA Hp Wx) as [WB CP].
  cbn [kA ffk_key_length ffk_field_order ffk_generator ffk_public_key] in CK, CP, WB. fold x in CK, CP, WB.
  eexists. split.
  - unfold new_kek. rewrite Hh'. cbn [bind]. rewrite Hpp. rewrite Cn. fold nbytes. rewrite Hap, Hl2.
    fold kA. rewrite CK. cbn [bind]. rewrite CP. cbn [bind]. reflexivity.
  - reflexivity.
Qed.

(* ---- ECDH: from the commutation law of the curve primitive ---- *)
Definition ec_commutation_law : Prop := forall cv a b A B,
  ec_pub c cv a = Ok A -> ec_pub c cv b = Ok B -> ec_dh c cv a B = ec_dh c cv b A.
Theorem agree_ecdh_law (L : ec_commutation_law) h top (es ep : envelope) (rnd : Z -> bytes) seed alg algz cv kl Ax Ay kek kid :
  envelope_hash es = Ok h -> envelope_hash ep = Ok h ->
  gke_is_public_key es = false -> gke_is_public_key ep = true ->
  gke_l0 es = gke_l0 ep -> gke_rkid es = gke_rkid ep ->
  gke_secret_alg es = alg -> gke_secret_alg ep = alg ->
  str_eqb alg STR_DH = false -> startswith alg STR_ECDH_P = true -> encode_utf16z alg = Ok algz ->
  gke_priv_len es = gke_priv_len ep -> u32b (gke_priv_len ep) = true ->
  0 <= gke_l1 ep <= 31 -> 0 <= gke_l2 ep <= 31 ->
  conforming (KDFof h ep) top (env_of es) -> covers (env_of es) (gke_l1 ep) (gke_l2 ep) ->
  K2 (KDFof h ep) top (gke_l1 ep) (gke_l2 ep) = Ok seed ->
  let nbytes := bytes_of_bits (gke_priv_len ep) in
  let y := OS2IP (kdf c h seed KDS_SERVICE algz nbytes) in let x := OS2IP (rnd nbytes) in
  (* the DC's public-key envelope carries y*G in the ECDH key structure of the curve *)
  ec_pub c cv y = Ok (Ax, Ay) ->
  let kA := {| eck_curve_name := curve_name cv; eck_key_length := kl; eck_x := Ax; eck_y := Ay |} in
  wf_eck kA = true -> gke_l2_key ep = concat (eck_field_list cv kA) ->
  new_kek c rnd ep = Ok (kek, kid) ->
  exists Zs Bx By, ec_dh c cv x (Ax, Ay) = Ok Zs /\ ec_pub c cv x = Ok (Bx, By) /\
    kek = kek_ecdh c h cv Zs /\
    kid_key_info kid = concat (eck_field_list cv {| eck_curve_name := curve_name cv; eck_key_length := kl; eck_x := Bx; eck_y := By |}) /\
    get_kek c es kid = Ok kek.
Proof.
  intros Hh Hh' Hps Hpp Hl0 Hrk Has Hap Hnd Hec Hz Hpl Hpu H1 H2 Hconf Hcov Hseed nbytes y x HA kA WA Hl2 Hnew.
  destruct (k_ceil_priv_spec _ Hpu) as [Cg Cn].
  assert (EcA : curve_of_name (eck_curve_name kA) = Some cv) by (destruct cv; reflexivity).
  unfold new_kek in Hnew. rewrite Hh' in Hnew. cbn [bind] in Hnew. rewrite Hpp, Cn in Hnew. fold nbytes in Hnew.
  rewrite Hap, Hl2 in Hnew.
  rewrite (compute_kek_ecdh h alg _ (rnd nbytes) cv kA Hnd Hec EcA WA) in Hnew. fold x in Hnew.
  cbn [kA eck_x eck_y] in Hnew.
  destruct (ec_dh c cv x (Ax, Ay)) as [Zs|] eqn:EZ; [|discriminate]. cbn [bind] in Hnew.
  destruct (compute_public_key c alg (gke_secret_params ep) (rnd nbytes) (concat (eck_field_list cv kA))) as [ki|] eqn:EP; [|discriminate].
  cbn [bind] in Hnew.
  destruct (compute_public_key_ecdh alg _ (rnd nbytes) cv kA ki Hnd Hec EcA WA EP) as (Bx & By & HB & WB & ->).
  fold x in HB. unfold kA in WB, Hnew. cbn [eck_curve_name eck_key_length] in WB, Hnew.
  set (kB := {| eck_curve_name := curve_name cv; eck_key_length := kl; eck_x := Bx; eck_y := By |}) in *.
  assert (kek = kek_ecdh c h cv Zs /\ kid = {| kid_version := 1; kid_flags := gke_flags ep; kid_l0 := gke_l0 ep; kid_l1 := gke_l1 ep;
            kid_l2 := gke_l2 ep; kid_rkid := gke_rkid ep; kid_key_info := concat (eck_field_list cv kB);
            kid_domain := gke_domain ep; kid_forest := gke_forest ep |}) as [-> ->].
  { apply Ok_inj in Hnew. split; congruence. }
  exists Zs, Bx, By. repeat split; try assumption.
  assert (HK : KDFof h es = KDFof h ep) by (unfold KDFof; rewrite Hl0, Hrk; reflexivity).
  rewrite (get_kek_seed h top es _ seed); cbn [kid_l0 kid_l1 kid_l2 kid_flags kid_key_info]; try rewrite HK; auto.
  unfold kid_is_public_key. cbn [kid_flags]. unfold gke_is_public_key in Hpp. rewrite Hpp.
  unfold compute_kek_from_public_key. rewrite Has, Hz. cbn [bind].
  rewrite Hpl, Cg. fold nbytes. rewrite label_spec.
  assert (EcB : curve_of_name (eck_curve_name kB) = Some cv) by (destruct cv; reflexivity).
  rewrite (compute_kek_ecdh h alg _ _ cv kB Hnd Hec EcB WB). fold y. cbn [kB eck_x eck_y].
  rewrite (L cv y x (Ax, Ay) (Bx, By) HA HB). rewrite EZ. reflexivity.
Qed.
Definition agree_ecdh (L : CryptoLaws c) := agree_ecdh_law (ec_commutes c L).
End K.

(* ---- fixed width: shared secret and key fields keep their leading zero bytes ---- *)
Theorem fixed_width_shared kl p pub x : 0 < p -> 0 <= kl -> fitsb kl p = true ->
  len (dh_shared p kl pub x) = kl /\ OS2IP (dh_shared p kl pub x) = pub ^ x mod p.
Proof.
  intros Hp Hk Hf. unfold dh_shared. rewrite I2OSP_be, OS2IP_be_val. split; [apply len_be_z, Hk|].
  apply be_val_be. pose proof (Z.mod_pos_bound (pub ^ x) p Hp). unfold fitsb in Hf.
  rewrite P_pow, Z2Nat.id by lia. lia.
Qed.

Theorem fixed_width_key k b : wf_ffk k = true -> FFCDHKey_pack k = Ok b ->
  len b = 8 + 3 * ffk_key_length k /\ FFCDHKey_unpack b = Ok k.
Proof.
  intros H Hp. split; [apply (FFCDHKey_pack_length k b H Hp)|].
  destruct (FFCDHKey_roundtrip k H) as (b' & Hp' & Hu). rewrite Hp in Hp'. apply Ok_inj in Hp'. now subst b'.
Qed.

(* D13 (repaired in /repo by the C17 owner, "fix: new_kek derives the L2 key ..."): an envelope at L2 = 31
   that carries only its L1 key -- the shape the library itself builds from a root key -- now yields the
   same KEK on both sides (second disjunct of agree_nonce); instance under the symbolic crypto: *)
Definition d13_env : envelope :=
  {| gke_version := 1; gke_flags := 2; gke_l0 := 361; gke_l1 := 31; gke_l2 := 31; gke_rkid := repeat 1 16;
     gke_kdf_alg := STR_KDF_ALG;
     gke_kdf_params := [0; 0; 0; 0; 1; 0; 0; 0; 14; 0; 0; 0; 0; 0; 0; 0; 83; 0; 72; 0; 65; 0; 53; 0; 49; 0; 50; 0; 0; 0];
     gke_secret_alg := STR_DH; gke_secret_params := []; gke_priv_len := 512; gke_pub_len := 2048;
     gke_domain := []; gke_forest := []; gke_l1_key := repeat 7 64; gke_l2_key := [] |}.
Lemma d13_repaired : exists kek kid,
  new_kek sym (fun n => repeat 9 (Z.to_nat n)) d13_env = Ok (kek, kid) /\ get_kek sym d13_env kid = Ok kek.
Proof. do 2 eexists. split; [vm_compute; reflexivity|]. vm_compute. reflexivity. Qed.
