(* EptMap (the ept_map request): round trip for any tower, object UUID present / absent, entry handle, max_towers. *)
From V Require Import Prelude.Base Prelude.PyInt Prelude.PySlice Model.Pdu Model.Request Model.RpcLoop Model.Bind Model.Epm.
From V Require Import Proofs.RpcLib Proofs.RpcKernels Proofs.RpcPdu Proofs.RpcBind Proofs.RpcEpm.

Definition ept_obj_bytes (o : option bytes) : bytes := match o with Some u => u | None => repeat 0 16 end.

Lemma ept_obj_rt o : match o with Some u => wf_uuid u && negb (bytes_eqb u (repeat 0 16)) | None => true end = true ->
  len (ept_obj_bytes o) = 16 /\
  (if bytes_eqb (ept_obj_bytes o) (repeat 0 16) then Ok None else let* u := uuid_of_bytes_le (ept_obj_bytes o) in Ok (Some u)) = Ok o.
Proof.
  destruct o as [u|]; cbn [ept_obj_bytes]; intros H.
  - apply andb_true_iff in H. destruct H as [Hu Hz]. unfold wf_uuid in Hu. apply andb_true_iff in Hu. destruct Hu as [H16 _].
    apply negb_true_iff in Hz. rewrite Hz. unfold uuid_of_bytes_le. rewrite H16. split; [lia|reflexivity].
  - split; [reflexivity|]. rewrite bytes_eqb_refl. reflexivity.
Qed.

Lemma ept_map_pack_eq m : ept_map_pack m =
  concat [ [1; 0; 0; 0; 0; 0; 0; 0]; ept_obj_bytes (em_obj m); [2; 0; 0; 0; 0; 0; 0; 0];
           concat [ le 8 (len (tower_bytes (em_tower m))); le 4 (len (tower_bytes (em_tower m))); le 2 (len (em_tower m));
                    concat (map floor_pack (em_tower m)) ++
                    repeat 0 (Z.to_nat (k_eptmap_pack_pad (len (tower_bytes (em_tower m))))) ++
                    concat [entry_handle_pack (em_entry_handle m); le 4 (em_max_towers m)] ] ].
Proof.
  unfold ept_map_pack, ept_obj_bytes. cbv zeta. unfold tower_bytes at 3. cbn [concat]. rewrite !app_nil_r, <- !app_assoc. reflexivity.
Qed.

Lemma concat_one {A} (x : list A) : concat [x] = x.
Proof. cbn [concat]. apply app_nil_r. Qed.

Theorem ept_map_rt m fuel : wf_ept_map m = true -> in_range 4 (len (tower_bytes (em_tower m))) = true ->
  (length (em_tower m) <= fuel)%nat ->
  ept_map_unpack fuel (ept_map_pack m) = Ok (ept_map_norm m, len (em_tower m)).
Proof.
  unfold wf_ept_map. intros H HL Hf.
  apply andb_true_iff in H. destruct H as [H Hmax]. apply andb_true_iff in H. destruct H as [H Heh].
  apply andb_true_iff in H. destruct H as [H Hn]. apply andb_true_iff in H. destruct H as [Hobj Hfl].
  destruct (ept_obj_rt _ Hobj) as [Ho16 Hodec].
  pose proof (len_entry_handle_pack _ Heh) as Hleh.
  rewrite ept_map_pack_eq. set (L := len (tower_bytes (em_tower m))) in *.
  pose proof (eptmap_pad_agree L) as Hpa. pose proof (eptmap_pad_range L) as [Hp0 _].
  set (pad := repeat 0 (Z.to_nat (k_eptmap_pack_pad L))).
  assert (Hpad : len pad = k_eptmap_pack_pad L) by (unfold pad; rewrite len_repeat; lia).
  unfold ept_map_unpack. cbv zeta.
  field_try 1%nat. rewrite Hodec. cbn [bind].
  tail_try 3%nat. rewrite concat_one.
  rewrite !slice_None_lo. field_try 0%nat. rewrite (le_val_le' _ _ (in_range_4_8 _ HL)).
  field_try 2%nat. rewrite (le_val_le' _ _ Hn). tail_try 3%nat. rewrite concat_one.
  rewrite (floors_unpack_rt (em_tower m) fuel _ Hfl Hf). cbn [bind fst snd].
  rewrite <- Hpa. rewrite slice_app_r_len by lia.
  cbn [concat]. rewrite (entry_handle_rt _ _ Heh). cbn [bind].
  rewrite (slice_mid _ (le 4 (em_max_towers m)) []) by (rewrite ?len_le; lia).
  rewrite (le_val_le' _ _ Hmax). reflexivity.
Qed.

Lemma ept_map_pack_norm m : ept_map_pack (ept_map_norm m) = ept_map_pack m.
Proof. unfold ept_map_pack, ept_map_norm. cbn [em_obj em_tower em_entry_handle em_max_towers]. rewrite tower_bytes_norm. reflexivity. Qed.

Lemma ept_map_fuel m fuel : (length (ept_map_pack m) <= fuel)%nat -> (length (em_tower m) <= fuel)%nat.
Proof.
  intros Hf. pose proof (len_floors_ge (em_tower m)) as Hg. revert Hf. rewrite ept_map_pack_eq. cbn [concat].
  rewrite !app_length. unfold len in Hg. lia.
Qed.
