(* Facts about the relational DER spec alone (Spec/DerSpec.v): each relation determines its octets,
   i.e. "the minimal encoding" is unique. *)
From V Require Import Prelude.Base Prelude.PyInt Model.Asn1 Spec.DerSpec Proofs.Asn1Lib.

Lemma last_rev_hd {A} (l : list A) d : last (rev l) d = hd d l.
Proof. destruct l as [|x l]; [reflexivity|]. cbn [rev hd]. apply last_app_single. Qed.
Lemma be_val_top ds : wfb ds = true -> ds <> [] -> hd 0 ds <> 0 -> P (length ds - 1) <= be_val ds.
Proof.
  intros Hw Hne Hh. destruct ds as [|x r]; [congruence|]. cbn [hd] in Hh. apply wfb_cons in Hw. destruct Hw as [Hx Hr].
  rewrite be_val_cons. cbn [length]. replace (S (length r) - 1)%nat with (length r) by lia.
  pose proof (be_val_range r Hr). pose proof (P_pos (length r)). nia.
Qed.

Theorem der_len_unique n b1 b2 : der_len n b1 -> der_len n b2 -> b1 = b2.
Proof.
  intros H1 H2. destruct H1 as [n Hn|n ds1 Hn Hw1 Hl1 Hv1 Hh1]; inversion H2 as [n' Hn' E1 E2|n' ds2 Hn' Hw2 Hl2 Hv2 Hh2 E1 E2]; subst; try lia; try reflexivity.
  assert (Hne1 : ds1 <> []) by (destruct ds1; [cbn in Hl1; lia|discriminate]).
  assert (Hne2 : ds2 <> []) by (destruct ds2; [cbn in Hl2; lia|discriminate]).
  pose proof (be_val_top ds1 Hw1 Hne1 Hh1). pose proof (be_val_top ds2 Hw2 Hne2 Hh2).
  pose proof (be_val_range ds1 Hw1). pose proof (be_val_range ds2 Hw2).
  assert (Hl : length ds1 = length ds2).
  { destruct (lt_eq_lt_dec (length ds1) (length ds2)) as [[Hlt|Heq]|Hgt]; [|exact Heq|].
    - pose proof (P_mono (length ds1) (length ds2 - 1) ltac:(lia)). lia.
    - pose proof (P_mono (length ds2) (length ds1 - 1) ltac:(lia)). lia. }
  assert (ds1 = ds2) by (rewrite <- (be_be_val ds1 Hw1), <- (be_be_val ds2 Hw2), Hl, Hv2; reflexivity).
  subst. reflexivity.
Qed.

(* ---- base 128 *)
Definition Q (n : nat) : Z := 128 ^ Z.of_nat n.
Lemma Q_0 : Q 0 = 1. Proof. reflexivity. Qed.
Lemma Q_S n : Q (S n) = 128 * Q n.
Proof. unfold Q. rewrite Nat2Z.inj_succ, Z.pow_succ_r by lia. reflexivity. Qed.
Lemma Q_pos n : 0 < Q n. Proof. unfold Q. apply Z.pow_pos_nonneg; lia. Qed.
Lemma Q_mono a b : (a <= b)%nat -> Q a <= Q b.
Proof. intros H. unfold Q. apply Z.pow_le_mono_r; lia. Qed.
Global Opaque Q.

Lemma b128_bounds r : b128_shape r -> forall acc, b128_val acc r = acc * Q (length r) + b128_val 0 r /\ 0 <= b128_val 0 r < Q (length r).
Proof.
  induction 1 as [d Hd|d r Hd Hr IH]; intros acc; cbn [b128_val length]; rewrite ?Q_S, ?Q_0.
  - split; lia.
  - destruct (IH (128 * acc + d mod 128)) as [E1 B1]. destruct (IH (128 * 0 + d mod 128)) as [E2 _].
    rewrite E1, E2. pose proof (Q_pos (length r)). split; nia.
Qed.
Lemma b128_same_len b1 : b128_shape b1 -> forall b2, b128_shape b2 -> length b1 = length b2 ->
  b128_val 0 b1 = b128_val 0 b2 -> b1 = b2.
Proof.
  induction 1 as [d Hd|d r Hd Hr IH]; intros b2 H2 Hl Hv; destruct H2 as [d2 Hd2|d2 r2 Hd2 Hr2]; cbn [length] in Hl.
  - cbn in Hv. f_equal. lia.
  - destruct Hr2; cbn in Hl; lia.
  - destruct Hr; cbn in Hl; lia.
  - cbn [b128_val] in Hv.
    destruct (b128_bounds r Hr (128 * 0 + d mod 128)) as [E1 B1]. destruct (b128_bounds r2 Hr2 (128 * 0 + d2 mod 128)) as [E2 B2].
    rewrite E1, E2 in Hv. assert (Hl' : length r = length r2) by lia. rewrite Hl' in *.
    pose proof (Q_pos (length r2)).
    assert (d mod 128 = d2 mod 128 /\ b128_val 0 r = b128_val 0 r2) as [Hd12 Hv12].
    { apply (Z.div_mod_unique (Q (length r2))); [left; lia|left; lia|]. lia. }
    f_equal; [lia|]. apply IH; auto.
Qed.
Lemma b128_len_val bs : b128_shape bs -> hd 0 bs <> 128 -> (2 <= length bs)%nat -> Q (length bs - 1) <= b128_val 0 bs.
Proof.
  intros Hs Hh Hl. destruct Hs as [d Hd|d r Hd Hr]; cbn [length] in *; [lia|]. cbn [hd] in Hh. cbn [b128_val].
  destruct (b128_bounds r Hr (128 * 0 + d mod 128)) as [E1 B1]. rewrite E1.
  replace (S (length r) - 1)%nat with (length r) by lia. pose proof (Q_pos (length r)).
  assert (Ha : 1 <= d mod 128) by lia.
  assert (Q (length r) <= (d mod 128) * Q (length r)) by (rewrite <- (Z.mul_1_l (Q (length r))) at 1; apply Z.mul_le_mono_nonneg_r; lia).
  lia.
Qed.
Theorem der_b128_unique n b1 b2 : der_b128 n b1 -> der_b128 n b2 -> b1 = b2.
Proof.
  intros (Hs1 & Hh1 & Hv1) (Hs2 & Hh2 & Hv2).
  destruct (b128_bounds b1 Hs1 0) as [_ B1]. destruct (b128_bounds b2 Hs2 0) as [_ B2].
  assert (Hl : length b1 = length b2).
  { destruct (lt_eq_lt_dec (length b1) (length b2)) as [[Hlt|Heq]|Hgt]; [|exact Heq|].
    - assert (H1 : (1 <= length b1)%nat) by (destruct Hs1; cbn; lia).
      pose proof (b128_len_val b2 Hs2 Hh2 ltac:(lia)). pose proof (Q_mono (length b1) (length b2 - 1) ltac:(lia)). lia.
    - assert (H1 : (1 <= length b2)%nat) by (destruct Hs2; cbn; lia).
      pose proof (b128_len_val b1 Hs1 Hh1 ltac:(lia)). pose proof (Q_mono (length b2) (length b1 - 1) ltac:(lia)). lia. }
  apply b128_same_len; auto. lia.
Qed.

Theorem der_ident_unique t b1 b2 : der_ident t b1 -> der_ident t b2 -> b1 = b2.
Proof.
  intros H1 H2. destruct H1 as [t Hc Hn|t ds Hc Hn Hd]; inversion H2 as [t' Hc' Hn' E1 E2|t' ds' Hc' Hn' Hd' E1 E2]; subst; try lia; try reflexivity.
  f_equal. eapply der_b128_unique; eauto.
Qed.

Lemma Forall2_b128_unique l : forall ds1 ds2, Forall2 der_b128 l ds1 -> Forall2 der_b128 l ds2 -> ds1 = ds2.
Proof.
  induction l as [|x l IH]; intros ds1 ds2 H1 H2; inversion H1; inversion H2; subst; [reflexivity|].
  f_equal; [eapply der_b128_unique; eauto|apply IH; assumption].
Qed.
Theorem der_oid_unique arcs b1 b2 : der_oid arcs b1 -> der_oid arcs b2 -> b1 = b2.
Proof.
  destruct arcs as [|a [|b rest]]; try (intros []; fail).
  intros (_ & _ & _ & _ & ds1 & H1 & ->) (_ & _ & _ & _ & ds2 & H2 & ->). f_equal.
  eapply Forall2_b128_unique; eauto.
Qed.
