(* C09: the regenerated interval kernels equal the MS-GKDI floor formulas. *)
From V Require Import Prelude.Base gen.Kernels Model.Interval.

Definition B : Z := 360000000000.

Lemma k_l0_floor t : 0 <= t -> k_l0 t = t / (1024 * B).
Proof. intros H. unfold k_l0, B. lia. Qed.
Lemma k_l1_floor t : 0 <= t -> k_l1 t = (t / (32 * B)) mod 32.
Proof. intros H. unfold k_l1, B. lia. Qed.
Lemma k_l2_floor t : 0 <= t -> k_l2 t = (t / B) mod 32.
Proof. intros H. unfold k_l2, B. lia. Qed.

Lemma interval_floor t : 0 <= t ->
  k_l0 t = t / (1024 * B) /\ k_l1 t = (t / (32 * B)) mod 32 /\ k_l2 t = (t / B) mod 32.
Proof. intros H. auto using k_l0_floor, k_l1_floor, k_l2_floor. Qed.

Lemma interval_contains t : 0 <= t ->
  let p := 1024 * k_l0 t + 32 * k_l1 t + k_l2 t in
  B * p <= t < B * (p + 1) /\ 0 <= k_l0 t /\ 0 <= k_l1 t < 32 /\ 0 <= k_l2 t < 32.
Proof.
  intros H. rewrite k_l0_floor, k_l1_floor, k_l2_floor by assumption. unfold B. cbv zeta. lia.
Qed.

(* uniqueness: the triple named is the only in-range triple whose interval contains t *)
Lemma interval_unique t a b c : 0 <= t -> 0 <= b < 32 -> 0 <= c < 32 ->
  B * (1024 * a + 32 * b + c) <= t < B * (1024 * a + 32 * b + c + 1) ->
  (a, b, c) = (k_l0 t, k_l1 t, k_l2 t).
Proof.
  intros H Hb Hc Ht. rewrite k_l0_floor, k_l1_floor, k_l2_floor by assumption. unfold B in *.
  assert (a = t / (1024 * 360000000000)) by lia.
  assert (b = (t / (32 * 360000000000)) mod 32) by lia.
  assert (c = (t / 360000000000) mod 32) by lia.
  congruence.
Qed.

Lemma now_filetime ns : 0 <= ns -> k_now ns = ns / 100 + 116444736000000000 /\ 0 <= k_now ns.
Proof. intros H. unfold k_now. lia. Qed.

Lemma model_interval ns : 0 <= ns ->
  let t := ns / 100 + 116444736000000000 in
  interval_of_time_ns ns = (t / (1024 * B), (t / (32 * B)) mod 32, (t / B) mod 32).
Proof.
  intros H. cbv zeta. unfold interval_of_time_ns. destruct (now_filetime ns H) as [E P]. 
  rewrite k_l0_floor, k_l1_floor, k_l2_floor by assumption. rewrite E. reflexivity.
Qed.
