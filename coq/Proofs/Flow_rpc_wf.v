(* Well-formed values are in range: wf_<X> x = true -> <X>_ranges x = true for the PDU building blocks and messages
   (the ranges of Flow/World_rpc.v under which the checked pack is the model's pack).  No flows here: the tie files and
   their *_pack_wf corollaries import this file. *)
From V Require Import Prelude.Base Prelude.PyInt Prelude.PySlice Prelude.PyStr Prelude.PyAst Prelude.PyWorld.
From V Require Import Model.Pdu Model.Request Model.RpcLoop Model.Bind Model.Verification Model.Epm Flow.World_rpc.
From V Require Import Proofs.RpcLib Proofs.RpcPdu.
Local Open Scope list_scope.
Local Open Scope Z_scope.

Lemma mem_in_range w x l : forallb (in_range w) l = true -> mem x l = true -> in_range w x = true.
Proof. intros Hl Hm. apply mem_cases in Hm. rewrite forallb_forall in Hl. exact (Hl x Hm). Qed.

Lemma wf_data_rep_ranges d : wf_data_rep d = true -> data_rep_ranges d = true.
Proof.
  unfold wf_data_rep, data_rep_ranges, k_datarep_first_octet. intros H.
  apply andb_prop in H. destruct H as [H H3]. apply andb_prop in H. destruct H as [H1 H2].
  rewrite (mem_in_range 1 _ c_FloatingPointRep_values eq_refl H3), andb_true_r.
  apply mem_cases in H1. apply mem_cases in H2. cbn [In c_IntegerRep_values c_CharacterRep_values] in H1, H2.
  destruct H1 as [<-|[<-|[]]]; destruct H2 as [<-|[<-|[]]]; reflexivity.
Qed.

Lemma wf_pdu_header_ranges h : wf_pdu_header h = true -> pdu_header_ranges h = true.
Proof.
  unfold wf_pdu_header, pdu_header_ranges. intros H.
  repeat match type of H with (_ && _) = true => let H' := fresh "H" in apply andb_prop in H; destruct H as [H H'] end.
  rewrite H, (mem_in_range 1 _ c_PacketType_values eq_refl H5), (wf_data_rep_ranges _ H3). repeat (rewrite ?H0, ?H1, ?H2, ?H4, ?H6; cbn [andb]). reflexivity.
Qed.

Lemma wf_sec_trailer_ranges s : wf_sec_trailer s = true -> sec_trailer_ranges s = true.
Proof.
  unfold wf_sec_trailer, sec_trailer_ranges. intros H.
  repeat match type of H with (_ && _) = true => let H' := fresh "H" in apply andb_prop in H; destruct H as [H H'] end.
  rewrite (mem_in_range 1 _ c_SecurityProvider_values eq_refl H), (mem_in_range 1 _ c_AuthenticationLevel_values eq_refl H3), H2, H1. reflexivity.
Qed.

Lemma wf_lengths_ranges h total st : wf_lengths h total st = true -> opt_sec_trailer_ranges st = true.
Proof.
  unfold wf_lengths. intros H. apply andb_prop in H. destruct H as [_ H]. destruct st as [t|]; [|reflexivity].
  apply andb_prop in H. destruct H as [_ H]. exact (wf_sec_trailer_ranges t H).
Qed.

Ltac split_wf H :=
  repeat match type of H with (_ && _) = true => let H' := fresh "H" in apply andb_prop in H; destruct H as [H H'] end.

Ltac use_true := repeat match goal with H : ?b = true |- context [?b] => rewrite H end; cbn [andb]; try reflexivity.

Ltac wf_msg :=
  try match goal with H : wf_pdu_header _ = true |- _ => pose proof (wf_pdu_header_ranges _ H) end;
  try match goal with H : wf_lengths _ _ _ = true |- _ => pose proof (wf_lengths_ranges _ _ _ H) end;
  use_true.

Lemma wf_fault_ranges m : wf_fault m = true -> fault_ranges m = true.
Proof.
  unfold wf_fault, fault_ranges. intros H.
  split_wf H. wf_msg.
Qed.

Lemma wf_request_ranges m : wf_request m = true -> request_ranges m = true.
Proof.
  unfold wf_request, request_ranges. intros H.
  split_wf H. wf_msg.
Qed.

Lemma wf_response_ranges m : wf_response m = true -> response_ranges m = true.
Proof.
  unfold wf_response, response_ranges. intros H.
  split_wf H. wf_msg.
Qed.

Lemma forallb_impl {A} (f g : A -> bool) l : (forall x, f x = true -> g x = true) -> forallb f l = true -> forallb g l = true.
Proof. intros Hfg. rewrite !forallb_forall. intros H x Hx. apply Hfg, H, Hx. Qed.

Lemma in_range_1_4 x : in_range 1 x = true -> in_range 4 x = true.
Proof. unfold in_range. rewrite P_1, P_4. lia. Qed.

Lemma wf_syntax_id_ranges s : wf_syntax_id s = true -> syntax_id_ranges s = true.
Proof. unfold wf_syntax_id, syntax_id_ranges. intros H. split_wf H. use_true. Qed.

Lemma wf_context_element_ranges c : wf_context_element c = true -> context_element_ranges c = true.
Proof.
  unfold wf_context_element, context_element_ranges. intros H. split_wf H.
  pose proof (wf_syntax_id_ranges _ H2). pose proof (forallb_impl _ _ _ wf_syntax_id_ranges H1). use_true.
Qed.

Lemma wf_context_result_ranges r : wf_context_result r = true -> context_result_ranges r = true.
Proof.
  unfold wf_context_result, context_result_ranges. intros H. split_wf H.
  pose proof (mem_in_range 2 _ c_ContextResultCode_values eq_refl H). use_true.
Qed.

Lemma wf_bind_ranges pt m : wf_bind_as pt m = true -> bind_ranges m = true.
Proof.
  unfold wf_bind_as, bind_ranges. intros H. split_wf H.
  match goal with H : in_range 1 _ = true |- _ => pose proof (in_range_1_4 _ H) end.
  match goal with H : forallb wf_context_element _ = true |- _ => pose proof (forallb_impl _ _ _ wf_context_element_ranges H) end.
  wf_msg.
Qed.

Lemma wf_bind_ack_ranges pt m packed bsa : wf_bind_ack_as pt m packed bsa = true -> bind_ack_ranges m bsa = true.
Proof.
  unfold wf_bind_ack_as, bind_ack_ranges. intros H. split_wf H.
  match goal with H : in_range 1 _ = true |- _ => pose proof (in_range_1_4 _ H) end.
  match goal with H : forallb wf_context_result _ = true |- _ => pose proof (forallb_impl _ _ _ wf_context_result_ranges H) end.
  wf_msg.
Qed.
