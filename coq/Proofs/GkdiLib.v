(* Generic lemmas used by the gkdi area proofs (C11, C03): slices of concatenated fields,
   int.to_bytes success, bytes equality, NUL-terminated UTF-16-LE strings. *)
From V Require Import Prelude.Base Prelude.PyInt Prelude.PySlice Prelude.PyStr.
From V Require Import Model.Types Model.KeyId.

Lemma slice_none_lo {A} hi (l : list A) : slice None hi l = slice (Some 0) hi l.
Proof. unfold slice, norm. pose proof (len_nonneg l). cbn [Z.ltb Z.compare]. rewrite Z.min_l by lia. reflexivity. Qed.

Lemma slice_all {A} (l : list A) b : len l <= b -> slice (Some 0) (Some b) l = l.
Proof.
  intros H. unfold slice, norm. pose proof (len_nonneg l). cbn [Z.ltb Z.compare].
  destruct (b <? 0) eqn:?; try lia. rewrite (Z.min_l 0) by lia. rewrite (Z.min_r b) by lia. cbn [Z.to_nat skipn].
  rewrite Z.sub_0_r. unfold len. rewrite Nat2Z.id. apply firstn_all.
Qed.
Lemma slice_prefix {A} (a b : list A) n : n = len a -> slice (Some 0) (Some n) (a ++ b) = a.
Proof. intros ->. apply slice_app_l. Qed.
Lemma slice_suffix {A} (a b : list A) n : n = len a -> slice (Some n) None (a ++ b) = b.
Proof. intros ->. apply slice_app_r. Qed.
Lemma slice_head {A} (a rest : list A) n : n = len a -> slice None (Some n) (a ++ rest) = a.
Proof. intros ->. apply slice_none_l. Qed.
Lemma slice_nil {A} lo hi : slice lo hi (@nil A) = [].
Proof. unfold slice. cbn [skipn]. destruct (Z.to_nat _); destruct (Z.to_nat _); reflexivity. Qed.

Lemma to_bytes_le_ok w v : 0 <= v < P w -> to_bytes_le w v = Ok (le w v).
Proof. intros H. unfold to_bytes_le. destruct ((0 <=? v) && (v <? P w)) eqn:E; [reflexivity|lia]. Qed.
Lemma to_bytes_be_ok w v : 0 <= v < P w -> to_bytes_be w v = Ok (be w v).
Proof. intros H. unfold to_bytes_be. destruct ((0 <=? v) && (v <? P w)) eqn:E; [reflexivity|lia]. Qed.
Lemma to_bytes_le_inv w v b : to_bytes_le w v = Ok b -> 0 <= v < P w /\ b = le w v.
Proof. unfold to_bytes_le. destruct ((0 <=? v) && (v <? P w)) eqn:E; [|discriminate]. intros H; apply Ok_inj in H. split; [lia|congruence]. Qed.
Lemma to_bytes_be_inv w v b : to_bytes_be w v = Ok b -> 0 <= v < P w /\ b = be w v.
Proof. unfold to_bytes_be. destruct ((0 <=? v) && (v <? P w)) eqn:E; [|discriminate]. intros H; apply Ok_inj in H. split; [lia|congruence]. Qed.
Lemma to_bytes_le_signed_ok w v : - P w <= 2 * v < P w -> to_bytes_le_signed w v = Ok (le w (v mod P w)).
Proof. intros H. unfold to_bytes_le_signed. destruct ((- P w <=? 2 * v) && (2 * v <? P w)) eqn:E; [reflexivity|lia]. Qed.

Definition u32b (z : Z) : bool := (0 <=? z) && (z <? 4294967296).
Definition i32b (z : Z) : bool := (-2147483648 <=? z) && (z <? 2147483648).
Lemma u32b_P4 z : u32b z = true -> 0 <= z < P 4.
Proof. unfold u32b. rewrite P_4. lia. Qed.
Lemma le4_val z : u32b z = true -> le_val (le 4 z) = z.
Proof. intros H. apply le_val_le, u32b_P4, H. Qed.

Lemma beqb_refl a : beqb a a = true.
Proof. induction a as [|x a IH]; cbn; [reflexivity|]. now rewrite Z.eqb_refl, IH. Qed.
Lemma beqb_eq a b : beqb a b = true <-> a = b.
Proof.
  revert b; induction a as [|x a IH]; intros [|y b]; cbn; split; intros H; try congruence; try discriminate.
  - apply andb_true_iff in H as [H1 H2]. apply IH in H2. f_equal; [lia|assumption].
  - injection H as -> ->. rewrite Z.eqb_refl. cbn. now apply IH.
Qed.
Lemma beqb_neq a b : beqb a b = false <-> a <> b.
Proof. split; intros H. - intros E. apply beqb_eq in E. congruence.
  - destruct (beqb a b) eqn:E; [apply beqb_eq in E; contradiction|reflexivity]. Qed.

(* ---- UTF-16-LE with terminator ---- *)
Definition utf16_len (s : pystr) : Z := fold_right (fun c acc => (if c <? 65536 then 2 else 4) + acc) 0 s.

Lemma utf16le_encode_app s t a b : utf16le_encode s = Ok a -> utf16le_encode t = Ok b ->
  utf16le_encode (s ++ t) = Ok (a ++ b).
Proof.
  revert a; induction s as [|c s IH]; intros a Ha Hb; cbn [app utf16le_encode] in *.
  - apply Ok_inj in Ha; subst a. exact Hb.
  - destruct (utf16_cp c) as [x|]; [|discriminate]. cbn [bind] in *.
    destruct (utf16le_encode s) as [y|]; [|discriminate]. cbn [bind] in *. apply Ok_inj in Ha; subst a.
    rewrite (IH y eq_refl Hb). cbn [bind]. now rewrite app_assoc.
Qed.
Lemma utf16le_encode_nul : utf16le_encode [0] = Ok [0; 0].
Proof. reflexivity. Qed.
Lemma encode_utf16z_ok s : wfstr s = true ->
  exists b, utf16le_encode s = Ok b /\ encode_utf16z s = Ok (b ++ [0; 0]) /\ len b = utf16_len s.
Proof.
  intros H. destruct (utf16le_encode_ok s H) as [b Hb]. exists b. split; [assumption|]. split.
  - unfold encode_utf16z. now apply utf16le_encode_app.
  - clear H. revert b Hb. induction s as [|c s IH]; intros b Hb; cbn [utf16le_encode utf16_len fold_right] in *.
    + apply Ok_inj in Hb; subst b. reflexivity.
    + unfold utf16_cp in Hb. destruct (negb (scalar c)); [discriminate|].
      destruct (utf16le_encode s) as [y|]; [|destruct (c <? 65536); discriminate].
      specialize (IH y eq_refl). fold (utf16_len s). 
      destruct (c <? 65536); cbn [bind] in Hb; apply Ok_inj in Hb; subst b; rewrite len_app, IH; reflexivity.
Qed.
Lemma encode_utf16z_inv s bz : encode_utf16z s = Ok bz ->
  exists b, utf16le_encode s = Ok b /\ bz = b ++ [0; 0] /\ len b = utf16_len s /\ wfstr s = true.
Proof.
  unfold encode_utf16z. revert bz. induction s as [|c s IH]; intros bz H; cbn [app utf16le_encode] in *.
  - cbn in H. apply Ok_inj in H; subst bz. exists []. repeat split.
  - destruct (utf16_cp c) as [x|] eqn:Ec; [|discriminate]. cbn [bind] in *.
    destruct (utf16le_encode (s ++ [0])) as [y|]; [|discriminate]. cbn [bind] in H. apply Ok_inj in H; subst bz.
    destruct (IH y eq_refl) as (b & Hb & -> & Hl & Hw). rewrite Hb. cbn [bind]. exists (x ++ b).
    split; [reflexivity|]. split; [now rewrite app_assoc|].
    unfold utf16_cp in Ec. destruct (negb (scalar c)) eqn:Es; [discriminate|]. apply negb_false_iff in Es.
    cbn [utf16_len fold_right wfstr forallb]. fold (utf16_len s). fold (wfstr s). rewrite Es, Hw. split; [|reflexivity].
    destruct (c <? 65536); apply Ok_inj in Ec; subst x; rewrite len_app, Hl; reflexivity.
Qed.
Lemma utf16_len_nonneg s : 0 <= utf16_len s.
Proof. induction s as [|c s IH]; cbn [utf16_len fold_right]; [lia|]. fold (utf16_len s). destruct (c <? 65536); lia. Qed.

(* the decoder slice that drops the terminator:  view[: n - 2] with n = len (b ++ [0;0]) *)
Lemma slice_drop_nul (b rest : bytes) n : n = len b + 2 ->
  slice None (Some (n - 2)) ((b ++ [0; 0]) ++ rest) = b.
Proof. intros ->. rewrite <- app_assoc. replace (len b + 2 - 2) with (len b) by lia. apply slice_none_l. Qed.
Lemma len_utf16z (b : bytes) : len (b ++ [0; 0]) = len b + 2.
Proof. rewrite len_app. reflexivity. Qed.
