(* Tie theorems for the methods of KeyCache (concrete model, Model/Client.v), world Flow/World_cache.v (section Concrete):
     __init__   : `self` afterwards is cc_empty
     load_key   : `self` afterwards is cc_load of the root key built from the arguments, defaults filled in
   KeyCache._store_key and KeyCache._get_key store through aliases of inner dictionaries
   (`seed_key = self._seed_keys.setdefault(..).setdefault(..)` ... `seed_key[key.l0] = key`): PyAst / PyAstMut are single-owner, the
   translator refuses both (fail closed): no term, no tie; they stay covered by the kernels k_cache_store / k_cache_covers /
   k_cache_root_overwrites and the correspondence runs cache.histories. *)
From V Require Import Prelude.Base Prelude.PyAst Prelude.PyAstMut Prelude.PyWorld gen.Kernels gen.K_cache gen.F_cache.
From V Require Import Model.Types Model.Crypto Model.Gkdi Model.Kek Model.Client Flow.World_cache.
Local Open Scope string_scope.
Local Open Scope list_scope.
Local Open Scope Z_scope.

Arguments len : simpl never.
Arguments KDFParameters_pack : simpl never.
Arguments FFCDHParameters_pack : simpl never.
Arguments zs_eqb : simpl never.


(* RFC 5114 section 2.3 (2048-bit MODP group with 256-bit prime order subgroup): p and g *)
Definition rfc5114_p : Z := 0x87a8e61db4b6663cffbbd19c651959998ceef608660dd0f25d2ceed4435e3b00e00df8f1d61957d4faf7df4561b2aa3016c3d91134096faa3bf4296d830e9a7c209e0c6497517abd5a8a9d306bcf67ed91f9e6725b4758c022e0b1ef4275bf7b6c5bfc11d45f9088b941f54eb1e59bb8bc39a0bf12307f5c4fdb70c581b23f76b63acae1caa6b7902d52526735488a0ef13c6d9a51bfa4ab3ad8347796524d8ef6a167b5a41825d967e144e5140564251ccacb83e6b486f6b3ca3f7971506026c0b857f689962856ded4010abd0be621c3a3960a54e710c375f26375d7014103a4b54330c198af126116d2276e11715f693877fad7ef09cadb094ae91e1a1597.
Definition rfc5114_g : Z := 0x3fb32c9b73134d0b2e77506660edbd484ca7b18f21ef205407f4793a1a0ba12510dbc15077be463fff4fed4aac0bb555be3a6c1b0c6b47b1bc3773bf7e8c6f62901228f8c28cbb18a55ae31341000a650196f931c77a57f2ddf463e5e9ec144b777de62aaab8a8628ac376d282d6ed3864e67982428ebc831d14348f6f2f9193b5045af2767164e1dfc967c1fb3f2e55a4bd1bffe83b9c80d052b985d182ea0adb2a3b7313d3fe14c8484b1e052588b9b7d2bbd2df016199ecd06e1557cd0915b3353bbb64e0ec377fd028370df92b52c7891428cdc67eb6184b523d1db246c32f63078490f00ef8d647d148d47954515e2327cfef98c582664b4c0f6cc41659.
Arguments rfc5114_p : simpl never.
Arguments rfc5114_g : simpl never.
Definition default_dh_params : ffcdh_params := {| ffp_key_length := 256; ffp_field_order := rfc5114_p; ffp_generator := rfc5114_g |}.

Definition nonempty (o : option bytes) : bool := match o with Some (_ :: _) => true | _ => false end.

(* the RootKey load_key stores: `if not kdf_parameters: KDFParameters("SHA512").pack()`,
   `if secret_algorithm == "DH" and not secret_parameters: FFCDHParameters(256, p, g).pack()` *)
Definition load_key_root (key : bytes) (ver : Z) (kalg : pystr) (kpar : option bytes) (salg : pystr) (spar : option bytes)
    (priv pub : Z) : res root_key :=
  let* kpar' := match kpar with Some (x :: r) => Ok (x :: r) | _ => KDFParameters_pack [83; 72; 65; 53; 49; 50] end in
  let* spar' := if zs_eqb salg [68; 72] && negb (nonempty spar)
                then let* b := FFCDHParameters_pack default_dh_params in Ok (Some b)
                else Ok spar in
  Ok {| rk_key := key; rk_version := ver; rk_kdf_alg := kalg; rk_kdf_params := kpar'; rk_secret_alg := salg;
        rk_secret_params := spar'; rk_priv_len := priv; rk_pub_len := pub |}.

(* `a and b` as a test, one conjunct at a time (cbn does not unfold eval on PAnd while the first conjunct is stuck) *)
Lemma test_and {V} (MW : mworld V) env a b :
  test MW env (PAnd a b) = let* (t, env1) := test MW env a in if t then test MW env1 b else Ok (false, env1).
Proof.
  unfold test. cbn [eval].
  destruct (eval MW env a) as [[v env1]|e]; cbn [bind]; [|reflexivity].
  destruct (w_truthy (mw_base MW) v) as [t|e] eqn:T; cbn [bind]; [|reflexivity].
  destruct t; [reflexivity|]. cbn [bind]. rewrite T. reflexivity.
Qed.

Lemma ptest_and {V} (W : PyAst.world V) env a b :
  PyAst.test W env (PAnd a b) = let* (t, env1) := PyAst.test W env a in if t then PyAst.test W env1 b else Ok (false, env1).
Proof.
  unfold PyAst.test. cbn [PyAst.eval].
  destruct (PyAst.eval W env a) as [[v env1]|e]; cbn [bind]; [|reflexivity].
  destruct (w_truthy W v) as [t|e] eqn:T; cbn [bind]; [|reflexivity].
  destruct t; [reflexivity|]. cbn [bind]. rewrite T. reflexivity.
Qed.
Lemma ptest_or {V} (W : PyAst.world V) env a b :
  PyAst.test W env (POr a b) = let* (t, env1) := PyAst.test W env a in if t then Ok (true, env1) else PyAst.test W env1 b.
Proof.
  unfold PyAst.test. cbn [PyAst.eval].
  destruct (PyAst.eval W env a) as [[v env1]|e]; cbn [bind]; [|reflexivity].
  destruct (w_truthy W v) as [t|e] eqn:T; cbn [bind]; [|reflexivity].
  destruct t; [|reflexivity]. cbn [bind]. rewrite T. reflexivity.
Qed.

Definition self_after (r : res (pv obj * list (pv obj))) : res (pv obj * pv obj) := let* (v, ps) := r in Ok (v, nth 0 ps VN).

Section Ties.
Context (c : Crypto) (rnd_cek rnd_iv rnd_kek : bytes) (time_ns : Z).
Context (dns : list (pv obj) -> res pystr) (getkey : list (pv obj) -> res envelope).
Notation Wc := (W c rnd_cek rnd_iv rnd_kek time_ns dns getkey).
Notation MWc := (MW c rnd_cek rnd_iv rnd_kek time_ns dns getkey).

Lemma truthy_vb_cons (x : Z) (r : bytes) : negb (len (x :: r) =? 0) = true.
Proof. rewrite len_cons. pose proof (len_nonneg r). lia. Qed.

(* KeyCache.__init__: whatever `self` was, afterwards it is the empty cache *)
Lemma flow_keycache_init fuel cc0 :
  run_mut MWc fuel k_flow_keycache_init [VO (OCache cc0)] = Ok (VN, [VO (OCache cc_empty)]).
Proof. reflexivity. Qed.

(* KeyCache.load_key *)
Lemma flow_keycache_load_key fuel cc key rkid ver kalg kpar salg spar priv pub :
  self_after (run_mut MWc fuel k_flow_keycache_load_key
                [VO (OCache cc); VB key; VB rkid; VI ver; VS kalg; vbytes_opt kpar; VS salg; vbytes_opt spar; VI priv; VI pub])
  = let* rk := load_key_root key ver kalg kpar salg spar priv pub in Ok (VN, VO (OCache (cc_load cc rkid rk))).
Proof.
  unfold self_after, load_key_root, cc_load, nonempty, default_dh_params, k_flow_keycache_load_key.
  (* the two 2048-bit literals of the source are RFC 5114's p and g; keep them folded from here on *)
  match goal with |- context [PCall "FFCDHParameters/key_length,field_order,generator" [PInt _; PInt ?p; PInt ?g]] =>
    change p with rfc5114_p; change g with rfc5114_g end.
  destruct (zs_eqb salg [68; 72]) eqn:E.
  all: destruct kpar as [[|k0 kp]|]; cbn; rewrite ?truthy_vb_cons; try change (len (@nil Z)) with 0; cbn.
  all: try (destruct (KDFParameters_pack _) as [kb|e]; cbn; [|reflexivity]).
  all: rewrite test_and; cbn; rewrite E; cbn.
  all: destruct spar as [[|s0 sp]|]; cbn; rewrite ?truthy_vb_cons; try change (len (@nil Z)) with 0; cbn.
  all: try (destruct (FFCDHParameters_pack _) as [fb|e]; cbn; [|reflexivity]).
  all: reflexivity.
Qed.

(* KeyCache._store_key stores through an alias of an inner dictionary: vlib/flow.py refuses it (single-owner semantics), no tie. *)
End Ties.

(* ---- the default argument values of load_key ----
   vlib/flow.py regenerates the defaults of the signature as k_flow_keycache_load_key_defaults; evaluated in the world they are
   (version 1, "SP800_108_CTR_HMAC", None, "DH", None, 512, 2048) - the model's own constants STR_KDF_ALG / STR_DH. *)
Definition eval_defaults (W : PyAst.world (pv obj)) (l : list (string * pexp)) : list (string * res (pv obj)) :=
  map (fun xe => (fst xe, let* (v, _) := PyAst.eval W [] (snd xe) in Ok v)) l.

Lemma flow_load_key_defaults c r1 r2 r3 ns dns getkey :
  eval_defaults (W c r1 r2 r3 ns dns getkey) k_flow_keycache_load_key_defaults
  = [("version", Ok (VI 1)); ("kdf_algorithm", Ok (VS STR_KDF_ALG)); ("kdf_parameters", Ok VN);
     ("secret_algorithm", Ok (VS STR_DH)); ("secret_parameters", Ok VN);
     ("private_key_length", Ok (VI 512)); ("public_key_length", Ok (VI 2048))].
Proof. reflexivity. Qed.

(* the RootKey `cache.load_key(key, root_key_id)` stores.  Model/Client.v has no function for load_key's default filling (cc_load
   takes the finished RootKey; the correspondence harness vlib/e2e.py reads the stored RootKey back from cache._root_keys after
   the real load_key and hands THAT to cc_load, so the model runs on what load_key stored).  The example root keys of the
   C01 / C05 proofs (Proofs/C01.v ex_rk, Proofs/C05Keys.v ex_rk) are this record with rk_kdf_params the same
   KDFParameters_pack "SHA512" but rk_secret_params := None: a RootKey(...) built directly, which load_key itself never
   stores for secret_algorithm "DH" (it fills in the RFC 5114 parameters).  cc_get_key maps None and b"" alike to b"", so
   those examples exercise the same paths with an empty secret_parameters field in the envelope. *)
Lemma load_key_root_defaults key :
  load_key_root key 1 STR_KDF_ALG None STR_DH None 512 2048
  = (let* kp := KDFParameters_pack (ascii_str "SHA512") in
     let* sp := FFCDHParameters_pack default_dh_params in
     Ok {| rk_key := key; rk_version := 1; rk_kdf_alg := STR_KDF_ALG; rk_kdf_params := kp; rk_secret_alg := STR_DH;
           rk_secret_params := Some sp; rk_priv_len := 512; rk_pub_len := 2048 |}).
Proof. reflexivity. Qed.

(* load_key(key, root_key_id) with every other argument at its default *)
Lemma flow_keycache_load_key_default_call c r1 r2 r3 ns dns getkey fuel cc key rkid :
  self_after (run_mut (MW c r1 r2 r3 ns dns getkey) fuel k_flow_keycache_load_key
                [VO (OCache cc); VB key; VB rkid; VI 1; VS STR_KDF_ALG; VN; VS STR_DH; VN; VI 512; VI 2048])
  = (let* rk := load_key_root key 1 STR_KDF_ALG None STR_DH None 512 2048 in Ok (VN, VO (OCache (cc_load cc rkid rk)))).
Proof. exact (flow_keycache_load_key c r1 r2 r3 ns dns getkey fuel cc key rkid 1 STR_KDF_ALG None STR_DH None 512 2048). Qed.
