(* Part 2 of 3 of the _rpc/_bind.py ties (Bind, AlterContext); see Proofs/Flow_rpc_bind_ctx.v for the conventions. *)
From V Require Import Prelude.Base Prelude.PyInt Prelude.PySlice Prelude.PyStr Prelude.PyAst Prelude.PyWorld gen.F_rpc.
From V Require Import Model.Pdu Model.Request Model.RpcLoop Model.Bind Model.Verification Model.Epm Flow.World_rpc Proofs.Flow_rpc_lib Proofs.Flow_rpc_wf.
From V Require Import Proofs.RpcTotalLib Proofs.RpcTotalPdu.
Local Open Scope string_scope.
Local Open Scope list_scope.
Local Open Scope Z_scope.

Lemma contexts_of_inj l : contexts_of (map (fun s => VO (OContextElement s)) l) = Some l.
Proof. induction l as [|a r IH]; [reflexivity|]. cbn. rewrite IH. reflexivity. Qed.

Lemma flow_bind_unpack_as c mf fuel data h st : (c = CBind \/ c = CAlterContext) ->
  bind_unpack mf data h st <> Raise OutOfFuel ->
  run (W mf) fuel k_flow_bind_unpack [VO (OCls c); VB data; VO (OHeader h); vst st] =
  lift_fst OBind (bind_unpack mf data h st).
Proof.
  unfold bind_unpack, lift_fst, k_flow_bind_unpack. intros Hc Hne.
  match goal with |- context [SFor ?a ?b ?c] => remember (SFor a b c) as loop end.
  tie. subst loop. rewrite exec_for. cbn.
  loop_setup (fun (s : bytes * list context_element) (e : @penv V) =>
     lookup "view" e = Some (VB (fst s)) /\ lookup "contexts" e = Some (vcontexts (snd s))
     /\ lookup "cls" e = Some (VO (OCls c)) /\ lookup "header" e = Some (VO (OHeader h)) /\ lookup "sec_trailer" e = Some (vst st)
     /\ lookup "max_xmit_frag" e = Some (VI (le_val (slice None (Some 2) data)))
     /\ lookup "max_recv_frag" e = Some (VI (le_val (slice (Some 2) (Some 4) data)))
     /\ lookup "assoc_group" e = Some (VI (le_val (slice (Some 4) (Some 8) data)))).
  match type of HL with ?A -> _ => assert (Hb : A) end.
  { intros [view acc] env v (Hv & Ht & H1 & H2 & H3 & H4 & H5 & H6). cbn [fst snd] in *.
    unfold lift_fst. tie.
    eexists; split; [reflexivity|]. cbn. unfold vcontexts. rewrite map_app. cbn. repeat split; auto. }
  specialize (HL Hb). cbn [fst snd] in HL. clear Hb.
  match type of HL with ?A -> _ => assert (HR : A) by (cbn; repeat split; auto) end.
  specialize (HL HR). clear HR. cbn [bind] in Hne.
  destruct (for_range _ _ _ _ _) as [[[view' acc'] t]|e] eqn:EF.
  - destruct HL as [env' [He (Hv & Ht & H1 & H2 & H3 & H4 & H5 & H6)]]; [congruence|]. cbn [fst snd] in *.
    rewrite He. unfold vcontexts in *. tie.
    destruct Hc; subst c; destruct st; cbn; rewrite contexts_of_inj; reflexivity.
  - rewrite HL by (cbn in Hne; congruence). reflexivity.
Qed.

Lemma flow_bind_unpack mf fuel data h st : bind_unpack mf data h st <> Raise OutOfFuel ->
  run (W mf) fuel k_flow_bind_unpack [VO (OCls CBind); VB data; VO (OHeader h); vst st] = lift_fst OBind (bind_unpack mf data h st).
Proof. apply flow_bind_unpack_as. auto. Qed.
(* AlterContext._unpack = Bind._unpack.__func__(cls, ..), AlterContextResponse._unpack = BindAck._unpack.__func__(cls, ..):
   the callee is the model function (tied to Bind._unpack / BindAck._unpack run with cls = the subclass just below) *)
Lemma flow_altercontext_unpack mf fuel data h st :
  run (W mf) fuel k_flow_altercontext_unpack [VO (OCls CAlterContext); VB data; VO (OHeader h); vst st] =
  lift_fst OBind (bind_unpack mf data h st).
Proof. unfold lift_fst. destruct st; tie. Qed.

Lemma flow_altercontext_unpack_body mf fuel data h st : bind_unpack mf data h st <> Raise OutOfFuel ->
  run (W mf) fuel k_flow_bind_unpack [VO (OCls CAlterContext); VB data; VO (OHeader h); vst st] = lift_fst OBind (bind_unpack mf data h st).
Proof. apply flow_bind_unpack_as. auto. Qed.

Lemma flow_bind_pack mf fuel m :
  run (W mf) fuel k_flow_bind_pack [VO (OBind m)] = chk (bind_ranges m) (bind_pack m).
Proof.
  unfold bind_pack, bind_body, opt_sec_trailer_pack, bind_ranges, chk, k_flow_bind_pack. destruct m as [h [st|] mx mr ag cs].
  all: hide_comps; tie. all: comp_step OContextElement context_element_ranges context_element_pack; tie.
Qed.

Lemma flow_bind_unpack_total mf fuel data h st : len data < Z.of_nat mf ->
  run (W mf) fuel k_flow_bind_unpack [VO (OCls CBind); VB data; VO (OHeader h); vst st] = lift_fst OBind (bind_unpack mf data h st).
Proof. intros H. apply flow_bind_unpack. exact (proj1 (total_le_spec _ _ (bind_unpack_total mf data h st H))). Qed.

Lemma flow_bind_pack_wf mf fuel pt m : wf_bind_as pt m = true ->
  run (W mf) fuel k_flow_bind_pack [VO (OBind m)] = Ok (VB (bind_pack m)).
Proof. intros H. rewrite flow_bind_pack, (wf_bind_ranges pt m H). reflexivity. Qed.
