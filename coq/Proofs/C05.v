From V Require Import Prelude.Base gen.K_cache.

(* KeyCache._get_key refuses an L0 index that does not fit the signed 32-bit field of the KDF
   context before anything is derived from it *)
Lemma l0_guard_meaning : forall l0, k_cache_l0_guard l0 = true <-> ~ (0 <= l0 <= 2147483647).
Proof. intros l0. unfold k_cache_l0_guard. lia. Qed.

(* ------------------------------------------------------------------------------------------------
   C05: error-class analysis of the offline unprotect pipeline. This file: the predicates and the
   combinators; the per-function lemmas are in Proofs/C05Asn1.v (DER reader + CMS), Proofs/C05Blob.v
   (blob, key identifier, protection descriptor, security descriptor) and Proofs/C05Keys.v (KDF
   parameters, key chain, KEK, crypto wrappers, cache, the composition). *)
Definition safe_err (e : err) : bool := deliberate e || match e with NeedNetwork => true | _ => false end.
Definition Safe {A} (r : res A) : Prop := match r with Ok _ => True | Raise e => safe_err e = true end.
(* Safe with a postcondition on the value (Safe = SafeP (fun _ => True)) *)
Definition SafeP {A} (Q : A -> Prop) (r : res A) : Prop :=
  match r with Ok a => Q a | Raise e => safe_err e = true end.

Lemma SafeP_Safe {A} (Q : A -> Prop) r : SafeP Q r -> Safe r.
Proof. destruct r; cbn; auto. Qed.
Lemma Safe_SafeP {A} (r : res A) : Safe r -> SafeP (fun _ => True) r.
Proof. destruct r; cbn; auto. Qed.
Lemma SafeP_weaken {A} (Q R : A -> Prop) r : SafeP Q r -> (forall a, Q a -> R a) -> SafeP R r.
Proof. destruct r; cbn; auto. Qed.
Lemma SafeP_and {A} (Q R : A -> Prop) r : SafeP Q r -> SafeP R r -> SafeP (fun a => Q a /\ R a) r.
Proof. destruct r; cbn; auto. Qed.
Lemma SafeP_Ok {A} (Q : A -> Prop) a : Q a -> SafeP Q (Ok a).
Proof. auto. Qed.
Lemma SafeP_inv {A} (Q : A -> Prop) r a : SafeP Q r -> r = Ok a -> Q a.
Proof. intros H ->. exact H. Qed.

(* the combinator lemma *)
Lemma Safe_bind {A B} (m : res A) (f : A -> res B) : Safe m -> (forall a, Safe (f a)) -> Safe (bind m f).
Proof. destruct m; cbn; auto. Qed.
(* the variant where f is only applied to results of m *)
Lemma Safe_bind_res {A B} (m : res A) (f : A -> res B) : Safe m -> (forall a, m = Ok a -> Safe (f a)) -> Safe (bind m f).
Proof. destruct m; cbn; auto. Qed.
Lemma SafeP_bind {A B} (Q : A -> Prop) (R : B -> Prop) (m : res A) (f : A -> res B) :
  SafeP Q m -> (forall a, Q a -> SafeP R (f a)) -> SafeP R (bind m f).
Proof. destruct m; cbn; auto. Qed.
Lemma SafeP_bind_res {A B} (Q : A -> Prop) (R : B -> Prop) (m : res A) (f : A -> res B) :
  SafeP Q m -> (forall a, m = Ok a -> Q a -> SafeP R (f a)) -> SafeP R (bind m f).
Proof. destruct m; cbn; auto. Qed.

Lemma Safe_Raise_ValueError {A} : Safe (@Raise A ValueError). Proof. reflexivity. Qed.
Lemma Safe_Raise_NotEnoughData {A} : Safe (@Raise A NotEnoughData). Proof. reflexivity. Qed.
Lemma Safe_Raise_NotImplementedError {A} : Safe (@Raise A NotImplementedError). Proof. reflexivity. Qed.
Lemma Safe_Raise_NeedNetwork {A} : Safe (@Raise A NeedNetwork). Proof. reflexivity. Qed.

(* the internal error classes are exactly the unsafe ones *)
Lemma safe_err_spec e : safe_err e = true <->
  e <> IndexError /\ e <> OverflowError /\ e <> StructError /\ e <> TypeError /\ e <> KeyError /\
  e <> AttributeError /\ e <> EOFError /\ e <> IncompleteRead /\ e <> OutOfFuel.
Proof. destruct e; cbn; split; intros H; try reflexivity; try discriminate;
  try (repeat split; discriminate); exfalso; intuition congruence. Qed.
