From V Require Import Prelude.Base gen.K_cache.

(* KeyCache._get_key refuses an L0 index that does not fit the signed 32-bit field of the KDF
   context before anything is derived from it *)
Lemma l0_guard_meaning : forall l0, k_cache_l0_guard l0 = true <-> ~ (0 <= l0 <= 2147483647).
Proof. intros l0. unfold k_cache_l0_guard. lia. Qed.
