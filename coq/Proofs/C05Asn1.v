(* C05, DER reader + CMS layer: every reader of Model/Asn1.v and every *_unpack of Model/Pkcs7.v ends,
   on ARBITRARY input, with a value or a deliberate error; on Python bytes (wfb) the values they return
   are again bytes and the cursor advances, so the `while reader:` loop stays within its fuel. *)
From V Require Import Prelude.Base Prelude.PyInt Prelude.PySlice Prelude.PyStr gen.K_asn1 gen.C_asn1.
From V Require Import Model.Asn1 Model.Pkcs7 Proofs.C05.

(* ---- slices ---- *)
Lemma length_slice_le {A} lo hi (l : list A) : (length (slice lo hi l) <= length l)%nat.
Proof. unfold slice. rewrite firstn_length, skipn_length. lia. Qed.
Lemma advance_shrinks {A} (view : list A) c : view <> [] -> 1 <= c ->
  (length (slice (Some c) None view) < length view)%nat.
Proof.
  intros Hv Hc. unfold slice, norm. rewrite firstn_length, skipn_length.
  assert (0 < len view) by (destruct view; [congruence|rewrite len_cons; pose proof (len_nonneg view); lia]).
  unfold len in *. destruct (c <? 0) eqn:E; lia.
Qed.
Lemma wfb_advance view c : wfb view = true -> wfb (advance view c) = true.
Proof. apply wfb_slice. Qed.

Ltac sb L := eapply SafeP_bind; [ apply L | cbv beta ].

(* ---- _unpack_asn1_octet_number: consumes at least one octet ---- *)
Lemma unpack_octet_number_rest_safe : forall data i idx,
  SafeP (fun p => let '(_, n, rest) := p in
                  idx + 1 <= n /\ (length rest < length data)%nat /\ (wfb data = true -> wfb rest = true))
        (unpack_octet_number_rest data i idx).
Proof.
  induction data as [|e r IH]; intros i idx; cbn [unpack_octet_number_rest]; [reflexivity|].
  destruct (Z.land e 128 =? 0).
  - cbn [SafeP length]. split; [lia|]. split; [lia|]. intros H. apply wfb_cons in H. tauto.
  - eapply SafeP_weaken; [apply IH|]. intros [[v n] rest] (H1 & H2 & H3). cbn [length].
    split; [lia|]. split; [lia|]. intros H. apply wfb_cons in H. tauto.
Qed.
Lemma unpack_octet_number_safe data : Safe (unpack_octet_number data).
Proof.
  unfold unpack_octet_number. eapply SafeP_Safe, SafeP_bind with (R := fun _ => True);
    [apply unpack_octet_number_rest_safe|]. intros [[? ?] ?] _. exact I.
Qed.

(* ---- _read_asn1_header ---- *)
Lemma read_len_octets_safe : forall n view lo idx acc,
  SafeP (fun l => wfb view = true -> 0 <= acc -> 0 <= l) (read_len_octets n view lo idx acc).
Proof.
  induction n as [|n IH]; intros view lo idx acc; cbn [read_len_octets]; [cbn; auto|].
  destruct view as [|o r]; [reflexivity|].
  eapply SafeP_weaken; [apply IH|]. cbv beta. intros l H Hw Ha. apply wfb_cons in Hw. apply H; [tauto|].
  unfold k_hdr_len_acc. assert (0 <= Z.shiftl o (8 * (lo - 1 - idx))) by (apply Z.shiftl_nonneg; lia). lia.
Qed.

Lemma read_asn1_header_safe view :
  SafeP (fun h => 2 <= h_tlen h /\ (wfb view = true -> 0 <= h_len h)) (read_asn1_header view).
Proof.
  unfold read_asn1_header. destruct view as [|o1 r1]; [reflexivity|].
  eapply SafeP_bind with (Q := fun p => let '(_, tag_octets, view2) := p in
                                1 <= tag_octets /\ (wfb r1 = true -> wfb view2 = true)).
  - destruct (k_hdr_high (k_hdr_num o1)).
    + sb (unpack_octet_number_rest_safe r1 0 0). intros [[n c] rest] (H1 & _ & H3). cbn [SafeP]. split; [lia|exact H3].
    + cbn [SafeP]. split; [lia|auto].
  - intros [[tn tag_octets] view2] [Hto Hw2].
    destruct ((k_hdr_class o1 =? c_class_universal) && negb (universal_ok tn)); [reflexivity|].
    destruct view2 as [|length r2]; [reflexivity|].
    destruct (k_hdr_indef length); [reflexivity|].
    destruct (negb (k_hdr_long length =? 0)).
    + sb (read_len_octets_safe (Z.to_nat (k_hdr_len_octets 1 length - 1)) r2 (k_hdr_len_octets 1 length) 1 0).
      intros l Hl. cbn [SafeP h_tlen h_len]. split.
      * unfold k_hdr_len_octets. assert (0 <= Z.land length 127) by (apply Z.land_nonneg; lia). lia.
      * intros Hw. apply wfb_cons in Hw. destruct Hw as [_ Hw]. specialize (Hw2 Hw). apply wfb_cons in Hw2.
        apply Hl; [tauto|lia].
    + cbn [SafeP h_tlen h_len]. split; [lia|]. intros Hw. apply wfb_cons in Hw. destruct Hw as [_ Hw].
      specialize (Hw2 Hw). apply wfb_cons in Hw2. lia.
Qed.
Lemma peek_header_safe view :
  SafeP (fun h => 2 <= h_tlen h /\ (wfb view = true -> 0 <= h_len h)) (peek_header view).
Proof. apply read_asn1_header_safe. Qed.

(* ---- _validate_tag ---- *)
Definition hdr_ok (view : bytes) (hdr : option header) : Prop :=
  match hdr with Some h => 1 <= h_tlen h + h_len h | None => True end.
Lemma validate_tag_safe view exp ty hdr :
  SafeP (fun p => (wfb view = true -> wfb (fst p) = true) /\
                  match hdr with
                  | Some h => snd p = h_tlen h + h_len h
                  | None => wfb view = true -> 2 <= snd p
                  end)
        (validate_tag view exp ty hdr).
Proof.
  unfold validate_tag.
  eapply SafeP_bind with (Q := fun h => match hdr with Some h' => h = h'
                                        | None => 2 <= h_tlen h /\ (wfb view = true -> 0 <= h_len h) end).
  - destruct hdr; [reflexivity|apply read_asn1_header_safe].
  - intros h Hh. destruct (negb (tag_eqb _ _)); [reflexivity|].
    destruct (k_vt_short _ _); [reflexivity|]. cbn [SafeP fst snd]. split.
    + intros Hw. now apply wfb_slice, wfb_slice.
    + destruct hdr; [now subst|]. intros Hw. destruct Hh as [H1 H2]. specialize (H2 Hw). lia.
Qed.

(* ---- ASN1Reader.read_* : (value, view after the read) ---- *)
Definition rd_post {A} (view : bytes) (hdr : option header) (Q : A -> Prop) (p : A * bytes) : Prop :=
  (wfb view = true -> wfb (snd p) = true /\ Q (fst p)) /\
  match hdr with
  | Some h => snd p = advance view (h_tlen h + h_len h)
  | None => wfb view = true -> view <> [] -> (length (snd p) < length view)%nat
  end.

Lemma read_raw_safe ty view t h : SafeP (rd_post view h (fun raw => wfb raw = true)) (read_raw ty view t h).
Proof.
  unfold read_raw. sb (validate_tag_safe view t ty h). intros [raw consumed] [H1 H2]. cbn [fst snd] in *.
  cbn [SafeP]. unfold rd_post. cbn [fst snd]. split.
  - intros Hw. split; [now apply wfb_advance|auto].
  - destruct h; [now subst|]. intros Hw Hne. apply advance_shrinks; [assumption|]. specialize (H2 Hw). lia.
Qed.
Lemma read_octet_string_safe view t h : SafeP (rd_post view h (fun raw => wfb raw = true)) (read_octet_string view t h).
Proof. apply read_raw_safe. Qed.
Lemma read_sequence_safe view t h : SafeP (rd_post view h (fun raw => wfb raw = true)) (read_sequence view t h).
Proof. apply read_raw_safe. Qed.
Lemma read_set_safe view t h : SafeP (rd_post view h (fun raw => wfb raw = true)) (read_set view t h).
Proof. apply read_raw_safe. Qed.

(* a value decoded from the content octets by a total, deliberate-error-only decoder *)
Lemma read_via_safe {A} (dec : bytes -> res A) ty view t h :
  (forall raw, Safe (dec raw)) ->
  SafeP (rd_post view h (fun _ => True))
        (let* (raw, consumed) := validate_tag view t ty h in let* v := dec raw in Ok (v, advance view consumed)).
Proof.
  intros Hd. sb (validate_tag_safe view t ty h). intros [raw consumed] [H1 H2]. cbn [fst snd] in *.
  eapply SafeP_bind with (Q := fun _ => True); [apply Safe_SafeP, Hd|]. intros v _.
  cbn [SafeP]. unfold rd_post. cbn [fst snd]. split.
  - intros Hw. split; [now apply wfb_advance|auto].
  - destruct h; [now subst|]. intros Hw Hne. apply advance_shrinks; [assumption|]. specialize (H2 Hw). lia.
Qed.

Lemma read_boolean_safe view t h : SafeP (rd_post view h (fun _ => True)) (read_boolean view t h).
Proof.
  unfold read_boolean. sb (read_raw_safe (universal_tag c_tag_boolean false) view t h).
  intros [raw rest] [H1 H2]. cbn [SafeP]. unfold rd_post in *. cbn [fst snd] in *. split; [|exact H2].
  intros Hw. split; [apply H1, Hw|exact I].
Qed.

(* INTEGER content: the empty content is a ValueError (repair D1) *)
Lemma read_int_content_safe raw : Safe (read_int_content raw).
Proof. unfold read_int_content. destruct raw; [reflexivity|exact I]. Qed.
Lemma read_integer_safe view t h : SafeP (rd_post view h (fun _ => True)) (read_integer view t h).
Proof. apply read_via_safe, read_int_content_safe. Qed.
Lemma read_enumerated_safe view t h : SafeP (rd_post view h (fun _ => True)) (read_enumerated view t h).
Proof. apply read_integer_safe. Qed.

(* OBJECT IDENTIFIER content: every arc consumes at least one octet, so length raw is enough fuel *)
Lemma read_oid_arcs_safe : forall fuel raw, (length raw <= fuel)%nat -> Safe (read_oid_arcs fuel raw).
Proof.
  induction fuel as [|fuel IH]; intros raw Hf; destruct raw as [|x r]; try exact I; cbn [length] in Hf; [lia|].
  cbn [read_oid_arcs]. eapply SafeP_Safe, SafeP_bind with (R := fun _ => True);
    [apply (unpack_octet_number_rest_safe (x :: r) 0 0)|].
  intros [[v n] rest] (_ & Hl & _). cbn [length] in Hl. apply Safe_SafeP.
  apply Safe_bind; [apply IH; lia|]. intros; exact I.
Qed.
Lemma read_oid_content_safe raw : Safe (read_oid_content raw).
Proof.
  unfold read_oid_content. destruct raw as [|f r]; [reflexivity|].
  apply Safe_bind; [apply read_oid_arcs_safe; lia|]. intros; exact I.
Qed.
Lemma read_object_identifier_safe view t h : SafeP (rd_post view h (fun _ => True)) (read_object_identifier view t h).
Proof. apply read_via_safe, read_oid_content_safe. Qed.

(* strict UTF-8: every step consumes at least one octet *)
Lemma utf8_decode_fuel_safe : forall fuel b, (length b <= fuel)%nat -> Safe (utf8_decode_fuel fuel b).
Proof.
  induction fuel as [|fuel IH]; intros b Hf; destruct b as [|x r]; try exact I; cbn [length] in Hf; [lia|].
  cbn [utf8_decode_fuel].
  assert (Hs : forall r', (length r' <= length r)%nat -> forall (c : Z),
             Safe (let* s := utf8_decode_fuel fuel r' in Ok (c :: s))).
  { intros r' Hr c. apply Safe_bind; [apply IH; lia|]. intros; exact I. }
  destruct (x <? 128); [apply Hs; lia|].
  destruct ((194 <=? x) && (x <=? 223)).
  { destruct r as [|y r2]; [reflexivity|]. destruct (cont y); [|reflexivity]. apply Hs. cbn [length]. lia. }
  destruct ((224 <=? x) && (x <=? 239)).
  { destruct r as [|y [|z r2]]; try reflexivity. destruct (_ && _ && _ && _); [|reflexivity].
    apply Hs. cbn [length]. lia. }
  destruct ((240 <=? x) && (x <=? 244)); [|reflexivity].
  destruct r as [|y [|z [|w r2]]]; try reflexivity. destruct (_ && _ && _ && _ && _); [|reflexivity].
  apply Hs. cbn [length]. lia.
Qed.
Lemma utf8_decode_safe b : Safe (utf8_decode b).
Proof. apply utf8_decode_fuel_safe. lia. Qed.
Lemma read_utf8_string_safe view t h : SafeP (rd_post view h (fun _ => True)) (read_utf8_string view t h).
Proof. apply read_via_safe, utf8_decode_safe. Qed.
Lemma read_generalized_time_safe view t h : SafeP (rd_post view h (fun _ => True)) (read_generalized_time view t h).
Proof. apply read_via_safe, utf8_decode_safe. Qed.

(* ================= Model/Pkcs7.v ================= *)
(* composite readers, on Python bytes: value + cursor; `Q` says which fields are bytes again *)
Definition un_post {A} (view : bytes) (hdr : option header) (Q : A -> Prop) (p : A * bytes) : Prop :=
  wfb (snd p) = true /\ Q (fst p) /\
  match hdr with
  | Some h => snd p = advance view (h_tlen h + h_len h)
  | None => view <> [] -> (length (snd p) < length view)%nat
  end.
Lemma rd_un {A} view h (Q : A -> Prop) r : wfb view = true -> SafeP (rd_post view h Q) r -> SafeP (un_post view h Q) r.
Proof.
  intros Hw H. eapply SafeP_weaken; [exact H|]. intros p [H1 H2]. destruct (H1 Hw) as [Ha Hb].
  unfold un_post. split; [assumption|]. split; [assumption|]. destruct h; auto.
Qed.
Ltac rd L := eapply SafeP_bind; [ eapply rd_un; [ | apply L ]; [ assumption ] | cbv beta ].

Lemma AlgorithmIdentifier_unpack_safe view : wfb view = true ->
  SafeP (un_post view None (fun _ => True)) (AlgorithmIdentifier_unpack view).
Proof.
  intros Hw. unfold AlgorithmIdentifier_unpack.
  rd (read_sequence_safe view None None). intros [r view'] (Hv' & Hr & Hlen). cbn [fst snd] in *.
  rd (read_object_identifier_safe r None None). intros [alg r'] _.
  cbn [SafeP]. unfold un_post. cbn [fst snd]. auto.
Qed.
Lemma OtherKeyAttribute_unpack_safe view h : wfb view = true ->
  SafeP (un_post view h (fun _ => True)) (OtherKeyAttribute_unpack view h).
Proof.
  intros Hw. unfold OtherKeyAttribute_unpack.
  rd (read_sequence_safe view None h). intros [r view'] (Hv' & Hr & Hlen). cbn [fst snd] in *.
  rd (read_object_identifier_safe r None None). intros [alg r'] _.
  cbn [SafeP]. unfold un_post. cbn [fst snd]. auto.
Qed.
Lemma KEKIdentifier_unpack_safe view : wfb view = true ->
  SafeP (un_post view None (fun k => wfb (kekid_key_identifier k) = true)) (KEKIdentifier_unpack view).
Proof.
  intros Hw. unfold KEKIdentifier_unpack.
  rd (read_sequence_safe view None None). intros [r view'] (Hv' & Hr & Hlen). cbn [fst snd] in *.
  rd (read_octet_string_safe r None None). intros [kid r1] (Hr1 & Hkid & _). cbn [fst snd] in *.
  eapply SafeP_bind; [apply (peek_header_safe r1)|]. intros h _.
  eapply SafeP_bind with (Q := fun p => wfb (snd (fst p)) = true).
  { destruct ((t_class (h_tag h) =? c_class_universal) && (t_num (h_tag h) =? c_tag_gentime)).
    - rd (read_generalized_time_safe r1 None (Some h)). intros [d r2] (Hr2 & _ & _). cbn [fst snd] in *.
      eapply SafeP_bind; [apply (peek_header_safe r2)|]. intros h' _. exact Hr2.
    - exact Hr1. }
  intros [[date r2] h2] Hr2. cbn [fst snd] in Hr2.
  eapply SafeP_bind with (Q := fun _ => True).
  { destruct ((t_class (h_tag h2) =? c_class_universal) && (t_num (h_tag h2) =? c_tag_sequence)); [|exact I].
    eapply SafeP_bind; [apply (OtherKeyAttribute_unpack_safe r2 (Some h2) Hr2)|]. intros [o ?] _. exact I. }
  intros other _. cbn [SafeP]. unfold un_post. cbn [fst snd kekid_key_identifier]. auto.
Qed.
Lemma KEKRecipientInfo_unpack_safe view h : wfb view = true ->
  SafeP (un_post view h (fun k => wfb (kekid_key_identifier (kri_kekid k)) = true)) (KEKRecipientInfo_unpack view h).
Proof.
  intros Hw. unfold KEKRecipientInfo_unpack.
  rd (read_sequence_safe view None h). intros [r view'] (Hv' & Hr & Hlen). cbn [fst snd] in *.
  rd (read_integer_safe r None None). intros [version r1] (Hr1 & _ & _). cbn [fst snd] in *.
  eapply SafeP_bind; [apply (KEKIdentifier_unpack_safe r1 Hr1)|]. intros [kekid r2] (Hr2 & Hk & _). cbn [fst snd] in *.
  eapply SafeP_bind; [apply (AlgorithmIdentifier_unpack_safe r2 Hr2)|]. intros [alg r3] (Hr3 & _ & _). cbn [fst snd] in *.
  rd (read_octet_string_safe r3 None None). intros [ek r4] _.
  cbn [SafeP]. unfold un_post. cbn [fst snd kri_kekid]. auto.
Qed.
Lemma RecipientInfo_unpack_safe view : wfb view = true ->
  SafeP (un_post view None (fun k => wfb (kekid_key_identifier (kri_kekid k)) = true)) (RecipientInfo_unpack view).
Proof.
  intros Hw. unfold RecipientInfo_unpack.
  eapply SafeP_bind; [apply (peek_header_safe view)|]. intros h [Ht Hl]. specialize (Hl Hw).
  destruct ((t_class (h_tag h) =? c_class_context) && (t_num (h_tag h) =? c_kekri_choice)); [|reflexivity].
  eapply SafeP_weaken; [apply (KEKRecipientInfo_unpack_safe view (Some h) Hw)|].
  intros [k rest] (H1 & H2 & H3). unfold un_post. cbn [fst snd] in *. split; [assumption|]. split; [assumption|].
  intros Hne. rewrite H3. apply advance_shrinks; [assumption|lia].
Qed.
(* `while reader:` -- every RecipientInfo consumes at least its two header octets *)
Lemma RecipientInfos_unpack_safe : forall fuel view, wfb view = true -> (length view <= fuel)%nat ->
  SafeP (Forall (fun k => wfb (kekid_key_identifier (kri_kekid k)) = true)) (RecipientInfos_unpack fuel view).
Proof.
  induction fuel as [|fuel IH]; intros view Hw Hf.
  - destruct view; [constructor|cbn [length] in Hf; lia].
  - cbn [RecipientInfos_unpack]. destruct (reader_bool view) eqn:Eb; [|constructor].
    assert (view <> []) by (destruct view; [discriminate|congruence]).
    eapply SafeP_bind; [apply (RecipientInfo_unpack_safe view Hw)|]. intros [info view'] (H1 & H2 & H3).
    cbn [fst snd] in *. specialize (H3 H).
    eapply SafeP_bind; [apply (IH view' H1); lia|]. intros more Hm. cbn [SafeP]. constructor; assumption.
Qed.
Lemma EncryptedContentInfo_unpack_safe view : wfb view = true ->
  SafeP (un_post view None (fun _ => True)) (EncryptedContentInfo_unpack view).
Proof.
  intros Hw. unfold EncryptedContentInfo_unpack.
  rd (read_sequence_safe view None None). intros [r view'] (Hv' & Hr & Hlen). cbn [fst snd] in *.
  rd (read_object_identifier_safe r None None). intros [ct r1] (Hr1 & _ & _). cbn [fst snd] in *.
  eapply SafeP_bind; [apply (AlgorithmIdentifier_unpack_safe r1 Hr1)|]. intros [alg r2] (Hr2 & _ & _). cbn [fst snd] in *.
  eapply SafeP_bind with (Q := fun _ => True).
  { destruct (reader_bool r2); [|exact I].
    rd (read_octet_string_safe r2 (Some (ctx_tag k_eci_content_tagnum_r false)) None). intros [c ?] _. exact I. }
  intros ec _. cbn [SafeP]. unfold un_post. cbn [fst snd]. auto.
Qed.
Lemma EnvelopedData_unpack_safe data : wfb data = true ->
  SafeP (fun ed => Forall (fun k => wfb (kekid_key_identifier (kri_kekid k)) = true) (ed_recipient_infos ed))
        (EnvelopedData_unpack data).
Proof.
  intros Hw. unfold EnvelopedData_unpack.
  rd (read_sequence_safe data None None). intros [r view'] (Hv' & Hr & Hlen). cbn [fst snd] in *.
  rd (read_integer_safe r None None). intros [version r1] (Hr1 & _ & _). cbn [fst snd] in *.
  destruct (k_ed_version_bad version); [reflexivity|].
  rd (read_set_safe r1 None None). intros [ris r2] (Hr2 & Hris & _). cbn [fst snd] in *.
  eapply SafeP_bind; [apply (RecipientInfos_unpack_safe (length ris) ris Hris); lia|]. intros infos Hinfos.
  eapply SafeP_bind; [apply (EncryptedContentInfo_unpack_safe r2 Hr2)|]. intros [ec ?] _.
  cbn [SafeP ed_recipient_infos]. exact Hinfos.
Qed.
Lemma ContentInfo_unpack_safe data h : wfb data = true ->
  SafeP (fun ci => wfb (ci_content ci) = true) (ContentInfo_unpack data h).
Proof.
  intros Hw. unfold ContentInfo_unpack.
  rd (read_sequence_safe data None h). intros [r view'] (Hv' & Hr & Hlen). cbn [fst snd] in *.
  rd (read_object_identifier_safe r None None). intros [ct r1] (Hr1 & _ & _). cbn [fst snd] in *.
  rd (read_octet_string_safe r1 (Some (ctx_tag k_ci_content_tagnum_r true)) None). intros [c ?] (_ & Hc & _).
  exact Hc.
Qed.
