(* Tie theorems: _pack_asn1_octet_number / _unpack_asn1_octet_number (base-128 numbers) of _asn1.py, regenerated in gen/F_asn1.v and
   run in Flow/World_asn1.v, against Model/Asn1.v pack_octet_number / unpack_octet_number.  The interpreter's fuel must exceed
   the model's own bound (one more test than iterations). *)
From V Require Import Prelude.PyAst.
From V Require Import Prelude.Base Prelude.PyInt Prelude.PySlice Prelude.PyStr Prelude.PyWorld gen.K_asn1 gen.C_asn1 gen.F_asn1.
From V Require Import Model.Asn1 Flow.World_asn1 Proofs.Flow_asn1_lib Proofs.Asn1Lib Proofs.Asn1Hdr.
Local Open Scope string_scope.
Local Open Scope list_scope.
Local Open Scope Z_scope.
Arguments len : simpl never.
Arguments Z.land : simpl never.
Arguments Z.lor : simpl never.
Arguments Z.shiftr : simpl never.
Arguments Z.shiftl : simpl never.
Arguments bits_fuel : simpl never.

Definition pon_body : list pstmt := [
      SAssign ["octet_value"] (PBin "&" (PName "num") (PInt 127));
      SIf (PCall "len" [(PName "num_octets")]) [
        SAssign ["octet_value"] (PBin "|" (PName "octet_value") (PInt 128))
      ] [];
      SExpr (PMeth "append" (PName "num_octets") [(PName "octet_value")]);
      SAssign ["num"] (PBin ">>" (PName "num") (PInt 7))
    ].

Lemma pon_loop fuel : forall k K env n acc ds,
  lookup "num" env = Some (VI n) -> lookup "num_octets" env = Some (VB acc) ->
  b128_digits k n (len acc =? 0) = Ok ds -> (k < K)%nat ->
  exists env', while_loop W fuel (PName "num") pon_body K env = Ok (Next env') /\
               lookup "num_octets" env' = Some (VB (acc ++ ds)).
Proof.
  induction k as [|k IH]; intros K env n acc ds Hn Ha Hd HK.
  - destruct K as [|K]; [lia|]. rewrite while_loop_S. unfold test. cbn. rewrite Hn. cbn.
    cbn [b128_digits] in Hd. unfold k_b128_more in Hd. revert Hd. destruct (n =? 0); cbn; intro Hd; [|discriminate Hd].
    apply Ok_inj in Hd. subst ds. rewrite app_nil_r. eauto.
  - destruct K as [|K]; [lia|]. rewrite while_loop_S. unfold test. cbn. rewrite Hn. cbn.
    cbn [b128_digits] in Hd. unfold k_b128_more in Hd. destruct (n =? 0) eqn:En; cbn [negb] in *.
    + apply Ok_inj in Hd. subst ds. rewrite app_nil_r. eauto.
    + unfold pon_body.
      destruct (b128_digits k (k_b128_shift n) false) as [r|] eqn:Er; [|discriminate]. cbn [bind] in Hd. apply Ok_inj in Hd.
      assert (Hl : 0 <= Z.land n 127 < 128) by (rewrite land_127; lia).
      assert (Hnz : forall d, (len (acc ++ [d]) =? 0) = false) by (intro d; rewrite len_app, len1; pose proof (len_nonneg acc); lia).
      pye. destruct (len acc =? 0) eqn:El; pye.
      * destruct ((Z.land n 127 <? 0) || (255 <? Z.land n 127)) eqn:Eb; [lia|]. pye.
        fold pon_body.
        match goal with |- context [while_loop _ _ _ _ K ?e] =>
          destruct (IH K e (Z.shiftr n 7) (acc ++ [Z.land n 127]) r) as (env' & Hw & Hr);
            [reflexivity|reflexivity|rewrite Hnz; exact Er|lia|] end.
        exists env'. split; [exact Hw|]. rewrite Hr, <- Hd, <- app_assoc. reflexivity.
      * rewrite lor_128_spec by lia.
        destruct ((Z.land n 127 + 128 <? 0) || (255 <? Z.land n 127 + 128)) eqn:Eb; [lia|]. pye.
        fold pon_body.
        match goal with |- context [while_loop _ _ _ _ K ?e] =>
          destruct (IH K e (Z.shiftr n 7) (acc ++ [Z.land n 127 + 128]) r) as (env' & Hw & Hr);
            [reflexivity|reflexivity|rewrite Hnz; exact Er|lia|] end.
        exists env'. split; [exact Hw|]. rewrite Hr, <- Hd, <- app_assoc. unfold k_b128_cont, k_b128_low.
        rewrite lor_128_spec by lia. reflexivity.
Qed.

Lemma pon_neg fuel : forall K env n acc, n < 0 ->
  lookup "num" env = Some (VI n) -> lookup "num_octets" env = Some (VB acc) ->
  while_loop W fuel (PName "num") pon_body K env = Raise OutOfFuel.
Proof.
  induction K as [|K IH]; intros env n acc Hneg Hn Ha; [reflexivity|].
  rewrite while_loop_S. unfold pon_body.
  assert (Hl : 0 <= Z.land n 127 < 128) by (rewrite land_127; lia).
  assert (Hs : Z.shiftr n 7 < 0) by (apply Z.shiftr_neg; lia).
  pye. destruct (n =? 0) eqn:En; [lia|]. pye. destruct (len acc =? 0) eqn:El; pye.
  - destruct ((Z.land n 127 <? 0) || (255 <? Z.land n 127)) eqn:Eb; [lia|]. pye.
    fold pon_body. eapply IH; [exact Hs|reflexivity|reflexivity].
  - rewrite lor_128_spec by lia.
    destruct ((Z.land n 127 + 128 <? 0) || (255 <? Z.land n 127 + 128)) eqn:Eb; [lia|]. pye.
    fold pon_body. eapply IH; [exact Hs|reflexivity|reflexivity].
Qed.
Lemma b128_digits_neg : forall k n first, n < 0 -> b128_digits k n first = Raise OutOfFuel.
Proof.
  induction k as [|k IH]; intros n first Hn; cbn [b128_digits]; unfold k_b128_more; destruct (n =? 0) eqn:E; try lia; cbn [negb].
  - reflexivity.
  - rewrite IH; [reflexivity|]. unfold k_b128_shift. apply Z.shiftr_neg. lia.
Qed.

(* num >= 0 terminates within bits_fuel num iterations; a negative num never reaches 0 (>> is arithmetic): both sides OutOfFuel *)
Lemma flow_pack_asn1_octet_number fuel num : (bits_fuel num < fuel)%nat ->
  run W fuel k_flow_pack_asn1_octet_number [VI num] = lift_b (pack_octet_number num).
Proof.
  intros Hf. start W k_flow_pack_asn1_octet_number. unfold pack_octet_number. py. fold pon_body.
  destruct (Z_lt_le_dec num 0) as [Hneg|Hpos].
  - rewrite b128_digits_neg by exact Hneg. erewrite pon_neg; [reflexivity|exact Hneg|reflexivity|reflexivity].
  - destruct (b128_digits_spec (bits_fuel num) num true) as (ds & E1 & _); [split; [lia|apply bits_fuel_ok; lia]|].
    rewrite E1.
    match goal with |- context [while_loop _ _ _ _ fuel ?e] =>
      destruct (pon_loop fuel (bits_fuel num) fuel e num [] ds) as (env' & Hw & Hr); [reflexivity|reflexivity|exact E1|exact Hf|] end.
    rewrite Hw. pye. reflexivity.
Qed.


(* ---- _unpack_asn1_octet_number ---- *)
Arguments slice : simpl never.
Definition uon_body : list pstmt := [
      SIf (PCmp "<" (PCall "len" [(PName "data")]) (PBin "+" (PName "idx") (PInt 1))) [
        SRaise "NotEnougData"
      ] [];
      SAssign ["element"] (PSub (PCall "struct.unpack" [(PStr [66]); (PSlice (PName "data") (PName "idx") (PBin "+" (PName "idx") (PInt 1)))]) (PInt 0));
      SAssign ["idx"] (PBin "+" (PName "idx") (PInt 1));
      SAssign ["i"] (PBin "+" (PBin "<<" (PName "i") (PInt 7)) (PBin "&" (PName "element") (PInt 127)));
      SIf (PNot (PBin "&" (PName "element") (PInt 128))) [
        SBreak
      ] []
    ].

Lemma uon_loop fuel : forall rest pre K env i,
  lookup "data" env = Some (VB (pre ++ rest)) -> lookup "idx" env = Some (VI (len pre)) -> lookup "i" env = Some (VI i) ->
  (length rest < K)%nat ->
  match unpack_octet_number_rest rest i (len pre) with
  | Raise e => while_loop W fuel (PBool true) uon_body K env = Raise e
  | Ok (i', idx', _) => exists env', while_loop W fuel (PBool true) uon_body K env = Ok (Next env') /\
                                     lookup "i" env' = Some (VI i') /\ lookup "idx" env' = Some (VI idx')
  end.
Proof.
  induction rest as [|x r IH]; intros pre K env i Hd Hx Hi HK; (destruct K as [|K]; [cbn in HK; lia|]);
    rewrite while_loop_S; unfold uon_body; cbn [unpack_octet_number_rest].
  - pye. rewrite app_nil_r. destruct (len pre <? len pre + 1) eqn:E; [|lia]. pye. reflexivity.
  - pye. rewrite len_app, len_cons. pose proof (len_nonneg r).
    destruct (len pre + (1 + len r) <? len pre + 1) eqn:E; [lia|]. pye.
    rewrite (slice_mid pre [x] r) by (rewrite ?len1; lia). pye.
    unfold k_b128_acc. destruct (Z.land x 128 =? 0) eqn:Eb; pye.
    + eexists. split; [reflexivity|]. split; reflexivity.
    + fold uon_body.
      match goal with |- context [while_loop _ _ _ _ K ?e] =>
        specialize (IH (pre ++ [x]) K e (Z.shiftl i 7 + Z.land x 127)) end.
      rewrite len_app, len1 in IH. apply IH; [cbn; rewrite Hd, <- app_assoc; reflexivity|reflexivity|reflexivity|cbn in HK; lia].
Qed.

Lemma flow_unpack_asn1_octet_number fuel data : (Datatypes.length data < fuel)%nat ->
  run W fuel k_flow_unpack_asn1_octet_number [VB data] =
  (let* (i, idx) := unpack_octet_number data in Ok (VT [VI i; VI idx])).
Proof.
  intros Hf. start W k_flow_unpack_asn1_octet_number. unfold unpack_octet_number. py. fold uon_body.
  match goal with |- context [while_loop _ _ _ _ fuel ?e] =>
    pose proof (uon_loop fuel data [] fuel e 0 eq_refl eq_refl eq_refl Hf) as H end.
  change (len (@nil Z)) with 0 in H.
  destruct (unpack_octet_number_rest data 0 0) as [[[i' idx'] r']|e].
  - destruct H as (env' & Hw & Hi & Hx). rewrite Hw. pye. reflexivity.
  - rewrite H. reflexivity.
Qed.
