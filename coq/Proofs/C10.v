From V Require Import Prelude.Base Prelude.Loops gen.Kernels gen.K_cache Model.Cache Spec.GkdiSpec.

(* what the regenerated cache kernels mean *)
Lemma kernels_meaning :
  (forall present a l1 b l2, k_cache_covers present a l1 b l2 = true <-> present = true /\ (a > l1 \/ (a = l1 /\ b >= l2))) /\
  (forall present a x b y, k_cache_store present a x b y = true <-> present = false \/ a > x \/ (a = x /\ b > y)) /\
  k_root_env_l1 = 31 /\ k_root_env_l2 = 31 /\ Z.land k_root_env_flags 1 = 0.
Proof.
  unfold k_cache_covers, k_cache_store, k_root_env_l1, k_root_env_l2, k_root_env_flags.
  split; [intros [] a l1 b l2; cbn; lia|]. split; [intros [] a x b y; cbn; lia|]. repeat split.
Qed.

(* _get_key hands back the envelope derived from the loaded root key even when an older,
   non-covering envelope is cached for the same (root key, SD, L0) *)
Lemma root_overwrites : k_cache_root_overwrites = true.
Proof. reflexivity. Qed.
