From V Require Import Prelude.Base Prelude.Loops gen.Kernels gen.K_cache Model.Cache Spec.GkdiSpec.

(* what the regenerated cache kernels mean *)
Lemma kernels_meaning :
  (forall present a l1 b l2, k_cache_covers present a l1 b l2 = true <-> present = true /\ (a > l1 \/ (a = l1 /\ b >= l2))) /\
  (forall present a x b y, k_cache_store present a x b y = true <-> present = false \/ a > x \/ (a = x /\ b > y)) /\
  k_root_env_l1 = 31 /\ k_root_env_l2 = 31 /\ Z.land k_root_env_flags 1 = 0.
Proof.
  unfold k_cache_covers, k_cache_store, k_root_env_l1, k_root_env_l2, k_root_env_flags.
  split; [intros [] a l1 b l2; cbn; lia|]. split; [intros [] a x b y; cbn; lia|]. repeat split.
Qed.

(* _get_key hands back the envelope derived from the loaded root key even when an older,
   non-covering envelope is cached for the same (root key, SD, L0) *)
Lemma root_overwrites : k_cache_root_overwrites = true.
Proof. reflexivity. Qed.

(* =====================================================================================
   C10 proper: a state-machine invariant over atomic steps, hence over every history and
   every interleaving of async calls at await granularity.
   The two lemmas above are the ONLY place where the regenerated kernels are looked into:
   everything below goes through get_key_cases / store_key_cases. *)
From V Require Import Proofs.C02.

(* the source's L0 guard (KeyCache._get_key), regenerated *)
Definition l0_in_range (l0 : Z) : Prop := k_cache_l0_guard l0 = false.
Lemma l0_in_range_iff l0 : l0_in_range l0 <-> 0 <= l0 <= 2147483647.
Proof. unfold l0_in_range, k_cache_l0_guard. lia. Qed.

Section C10.
Set Default Proof Using "Type".
Context {K RK : Type}.
Context (kdf : Z -> Z -> K -> Z -> Z -> K).
Context (l1seed : RK -> Z -> Z -> Z -> K).
Context (nokey : K).
Context (dc : Z -> option Z -> Z -> Z -> Z -> cenv (K := K)).
Context (truth : Z -> RK).           (* ground truth: the real root key data of each root key id *)

Notation cenvK := (cenv (K := K)).
Notation cacheT := (cache (K := K) (RK := RK)).
Notation worldT := (world (K := K) (RK := RK)).
Notation eventT := (event (RK := RK)).
Notation get_key' := (get_key l1seed nokey).
Notation step' := (step kdf l1seed nokey dc).
Notation run' := (run_events kdf l1seed nokey dc).
Implicit Types (c : cacheT) (e x y : cenvK) (w : worldT) (ev : eventT).

Definition top (rk sd l0 : Z) : K := l1seed (truth rk) rk sd l0.
(* the key a secret at (rk, sd, l0, l1, l2) is really protected with (MS-GKDI chain) *)
Definition key_at (rk sd l0 l1 l2 : Z) : K := K2 (kdf rk l0) (top rk sd l0) l1 l2.
Definition cenv_env (e : cenvK) : env :=
  {| e_l1 := c_l1 e; e_l2 := c_l2 e; e_l1key := c_k1 e; e_l2key := c_k2 e |}.

(* a private envelope that is conforming for the triple (c_rk e, sd, c_l0 e) *)
Definition conf (sd : Z) (e : cenvK) : Prop :=
  c_pub e = false /\ conforming (kdf (c_rk e) (c_l0 e)) (top (c_rk e) sd (c_l0 e)) (cenv_env e).
(* ... whose L2 key field is filled in also at L2 = 31 *)
Definition adm (sd : Z) (e : cenvK) : Prop :=
  conf sd e /\ c_k2 e = key_at (c_rk e) sd (c_l0 e) (c_l1 e) (c_l2 e).

(* ---- what is assumed of the domain controller ---- *)
(* a request that names a root key and an explicit position is answered for that position *)
Definition dc_explicit_ok : Prop :=
  forall sd rk l0 l1 l2, 0 <= l0 -> 0 <= l1 <= 31 -> 0 <= l2 <= 31 ->
  let e := dc sd (Some rk) l0 l1 l2 in c_rk e = rk /\ c_l0 e = l0 /\ c_l1 e = l1 /\ c_l2 e = l2.
(* every private reply is an MS-GKDI conforming envelope of the true root key for the position it
   names.  The last clause is the "DC always sends the L2 key" assumption (MS-GKDI makes the field
   optional at L2 = 31); envelopes without it are the candidate defect D13 handled under C17. *)
Definition dc_conforming_ok : Prop :=
  forall sd rko l0 l1 l2, let e := dc sd rko l0 l1 l2 in
  c_pub e = false ->
  0 <= c_l1 e <= 31 /\ 0 <= c_l2 e <= 31 /\
  conforming (kdf (c_rk e) (c_l0 e)) (top (c_rk e) sd (c_l0 e)) (cenv_env e) /\
  c_k2 e = K2 (kdf (c_rk e) (c_l0 e)) (top (c_rk e) sd (c_l0 e)) (c_l1 e) (c_l2 e).

(* ---- positions ---- *)
Definition covers_at (e : cenvK) (l1 l2 : Z) : Prop := c_l1 e > l1 \/ (c_l1 e = l1 /\ c_l2 e >= l2).
Definition pos_le (a b : cenvK) : Prop := c_l1 a < c_l1 b \/ (c_l1 a = c_l1 b /\ c_l2 a <= c_l2 b).
Definition pos_lt (a b : cenvK) : Prop := c_l1 a < c_l1 b \/ (c_l1 a = c_l1 b /\ c_l2 a < c_l2 b).

(* the envelope _get_key builds from a loaded root key *)
Definition root_gke (d : RK) (rk sd l0 : Z) : cenvK :=
  {| c_rk := rk; c_l0 := l0; c_l1 := 31; c_l2 := 31; c_pub := false; c_k1 := l1seed d rk sd l0; c_k2 := nokey |}.

(* ---- the interface to the regenerated kernels ---- *)
Lemma get_key_cases (c : cacheT) sd rk l0 l1 l2 :
  (exists e, find_seed (seeds c) (rk, sd, l0) = Some e /\ covers_at e l1 l2 /\
             get_key' c sd rk l0 l1 l2 = (Some e, c))
  \/ ((forall e, find_seed (seeds c) (rk, sd, l0) = Some e -> ~ covers_at e l1 l2) /\
      ((exists d, find_root (roots c) rk = Some d /\
                  get_key' c sd rk l0 l1 l2 = (Some (root_gke d rk sd l0), set_seed c (rk, sd, l0) (root_gke d rk sd l0)))
       \/ (find_root (roots c) rk = None /\ get_key' c sd rk l0 l1 l2 = (None, c)))).
Proof.
  destruct kernels_meaning as (Hc & _ & H1 & H2 & Hf).
  unfold get_key, covers_at, root_gke. rewrite root_overwrites, H1, H2, Hf. rewrite Z.eqb_refl. cbn [negb]. cbv zeta.
  destruct (find_seed (seeds c) (rk, sd, l0)) as [x|] eqn:E.
  - destruct (k_cache_covers true (c_l1 x) l1 (c_l2 x) l2) eqn:Ecov.
    + left. exists x. apply Hc in Ecov. destruct Ecov as [_ Hcov]. auto.
    + right. split.
      * intros e He Hcov. assert (x = e) by congruence. subst e.
        assert (k_cache_covers true (c_l1 x) l1 (c_l2 x) l2 = true) by (apply Hc; auto). congruence.
      * destruct (find_root (roots c) rk) as [d|] eqn:R; [left; exists d; auto | right; auto].
  - destruct (k_cache_covers false 0 l1 0 l2) eqn:Ecov.
    + apply Hc in Ecov. destruct Ecov; discriminate.
    + right. split; [intros e He; discriminate|].
      destruct (find_root (roots c) rk) as [d|] eqn:R; [left; exists d; auto | right; auto].
Qed.

Lemma store_key_cases (c : cacheT) sd e :
  (store_key c sd e = set_seed c (c_rk e, sd, c_l0 e) e /\
   forall x, find_seed (seeds c) (c_rk e, sd, c_l0 e) = Some x -> pos_lt x e)
  \/ (store_key c sd e = c /\ exists x, find_seed (seeds c) (c_rk e, sd, c_l0 e) = Some x /\ pos_le e x).
Proof using Type. clear dc kdf l1seed nokey truth.
  destruct kernels_meaning as (_ & Hs & _).
  unfold store_key, pos_lt, pos_le. cbv zeta.
  destruct (find_seed (seeds c) (c_rk e, sd, c_l0 e)) as [x|] eqn:E.
  - destruct (k_cache_store true (c_l1 e) (c_l1 x) (c_l2 e) (c_l2 x)) eqn:Es.
    + left. split; [reflexivity|]. intros y Hy. assert (x = y) by congruence. subst y.
      apply Hs in Es. destruct Es as [Es|Es]; [discriminate|lia].
    + right. split; [reflexivity|]. exists x. split; [reflexivity|].
      assert (~ (c_l1 e > c_l1 x \/ (c_l1 e = c_l1 x /\ c_l2 e > c_l2 x))) as Hn.
      { intros Hn. assert (k_cache_store true (c_l1 e) (c_l1 x) (c_l2 e) (c_l2 x) = true) by (apply Hs; auto). congruence. }
      lia.
  - destruct (k_cache_store false (c_l1 e) 0 (c_l2 e) 0) eqn:Es.
    + left. split; [reflexivity|]. intros y Hy. discriminate.
    + assert (k_cache_store false (c_l1 e) 0 (c_l2 e) 0 = true) by (apply Hs; auto). congruence.
Qed.

(* ---- dictionaries ---- *)
Lemma tkey_eqb_eq (a b : tkey) : tkey_eqb a b = true <-> a = b.
Proof.
  destruct a as [[a1 a2] a3], b as [[b1 b2] b3]. unfold tkey_eqb.
  rewrite !andb_true_iff, !Z.eqb_eq. split.
  - intros [[-> ->] ->]. reflexivity.
  - intros H. inversion H. auto.
Qed.
Lemma tkey_eqb_refl t : tkey_eqb t t = true.
Proof. apply tkey_eqb_eq. reflexivity. Qed.
Lemma find_seed_set (c : cacheT) t e t' :
  find_seed (seeds (set_seed c t e)) t' = if tkey_eqb t t' then Some e else find_seed (seeds c) t'.
Proof. reflexivity. Qed.
Lemma find_seed_set_same (c : cacheT) t e : find_seed (seeds (set_seed c t e)) t = Some e.
Proof. rewrite find_seed_set, tkey_eqb_refl. reflexivity. Qed.

(* ---- 1. the invariant ---- *)
(* loading `d` for `rk` is loading the true root key (as far as key derivation can tell) *)
Definition agrees (rk : Z) (d : RK) : Prop := forall sd l0, l1seed d rk sd l0 = top rk sd l0.

Definition Inv (c : cacheT) : Prop :=
  (forall rk d, find_root (roots c) rk = Some d -> agrees rk d) /\
  (forall rk sd l0 e, find_seed (seeds c) (rk, sd, l0) = Some e -> c_rk e = rk /\ c_l0 e = l0 /\ conf sd e).

Lemma agrees_truth rk : agrees rk (truth rk).
Proof. intros sd l0. reflexivity. Qed.

Lemma Inv_empty : Inv empty_cache.
Proof. split; cbn; intros; discriminate. Qed.

Lemma Inv_load c rk d : Inv c -> agrees rk d -> Inv (load_key c rk d).
Proof using Type. clear dc.
  intros [Hr Hs] Hd. split; [|exact Hs].
  intros rk' d'. cbn [load_key roots find_root]. destruct (rk =? rk') eqn:E.
  - intros H. assert (d = d') by congruence. assert (rk = rk') by lia. subst. exact Hd.
  - apply Hr.
Qed.

Lemma Inv_set_seed c rk sd l0 e : Inv c -> c_rk e = rk -> c_l0 e = l0 -> conf sd e -> Inv (set_seed c (rk, sd, l0) e).
Proof.
  intros [Hr Hs] H1 H2 H3. split; [exact Hr|].
  intros rk' sd' l0' e'. rewrite find_seed_set. destruct (tkey_eqb (rk, sd, l0) (rk', sd', l0')) eqn:E.
  - apply tkey_eqb_eq in E. inversion E; subst rk' sd' l0'. intros H. assert (e = e') by congruence. subst e'. auto.
  - apply Hs.
Qed.

Lemma conf_root_gke d rk sd l0 : agrees rk d -> conf sd (root_gke d rk sd l0).
Proof.
  intros H. split; [reflexivity|]. unfold root_gke, cenv_env. cbn [c_rk c_l0 c_l1 c_l2 c_k1 c_k2].
  rewrite H. exact (root_env_conforming (kdf rk l0) (top rk sd l0) nokey).
Qed.

Lemma conf_range sd e : conf sd e -> 0 <= c_l1 e <= 31 /\ 0 <= c_l2 e <= 31.
Proof. intros [_ (H1 & H2 & _)]. exact (conj H1 H2). Qed.

Lemma get_key_sound c sd rk l0 l1 l2 e c1 : Inv c -> get_key' c sd rk l0 l1 l2 = (Some e, c1) ->
  Inv c1 /\ find_seed (seeds c1) (rk, sd, l0) = Some e /\ c_rk e = rk /\ c_l0 e = l0 /\ conf sd e /\
  (l1 <= 31 -> l2 <= 31 -> covers_at e l1 l2).
Proof using Type. clear dc.
  intros HI G. destruct (get_key_cases c sd rk l0 l1 l2) as [(x & Hx & Hcov & G')|(_ & [(d & Hd & G')|(_ & G')])];
    rewrite G' in G; [| |discriminate]; assert (e' := G); apply (f_equal fst) in e'; apply (f_equal snd) in G; cbn [fst snd] in *.
  - assert (x = e) by congruence. subst x c1. destruct (proj2 HI _ _ _ _ Hx) as (A & B & C). auto 10.
  - assert (root_gke d rk sd l0 = e) by congruence. subst e c1. clear e'.
    assert (conf sd (root_gke d rk sd l0)) by (apply conf_root_gke; exact (proj1 HI _ _ Hd)).
    split; [apply Inv_set_seed; auto|]. split; [apply find_seed_set_same|].
    repeat (split; [solve [auto]|]). intros. unfold covers_at, root_gke; cbn [c_l1 c_l2]. lia.
Qed.

Lemma get_key_none c sd rk l0 l1 l2 c1 : get_key' c sd rk l0 l1 l2 = (None, c1) ->
  c1 = c /\ find_root (roots c) rk = None /\ (forall e, find_seed (seeds c) (rk, sd, l0) = Some e -> ~ covers_at e l1 l2).
Proof.
  intros G. destruct (get_key_cases c sd rk l0 l1 l2) as [(x & Hx & Hcov & G')|(Hn & [(d & Hd & G')|(Hd & G')])];
    rewrite G' in G; try discriminate. split; [congruence|]. auto.
Qed.

Lemma Inv_get_key c sd rk l0 l1 l2 : Inv c -> Inv (snd (get_key' c sd rk l0 l1 l2)).
Proof using Type. clear dc.
  intros HI. destruct (get_key' c sd rk l0 l1 l2) as [[e|] c1] eqn:G; cbn [snd].
  - exact (proj1 (get_key_sound _ _ _ _ _ _ _ _ HI G)).
  - apply get_key_none in G. destruct G as [-> _]. exact HI.
Qed.

Lemma Inv_store_key c sd e : Inv c -> conf sd e -> Inv (store_key c sd e).
Proof using Type. clear dc nokey.
  intros HI He. destruct (store_key_cases c sd e) as [[-> _]|[-> _]]; [|exact HI].
  apply Inv_set_seed; auto.
Qed.

(* the entry already there is at or after e: _store_key keeps it *)
Lemma store_key_noop c sd e x : find_seed (seeds c) (c_rk e, sd, c_l0 e) = Some x -> pos_le e x -> store_key c sd e = c.
Proof using Type. clear dc kdf l1seed nokey truth.
  intros Hx Hle. destruct (store_key_cases c sd e) as [[_ H]|[-> _]]; [|reflexivity].
  specialize (H _ Hx). unfold pos_lt, pos_le in *. lia.
Qed.

(* after _store_key the triple holds an entry at or after e *)
Lemma store_key_entry c sd e :
  exists x, find_seed (seeds (store_key c sd e)) (c_rk e, sd, c_l0 e) = Some x /\ pos_le e x.
Proof using Type. clear dc kdf l1seed nokey truth.
  destruct (store_key_cases c sd e) as [[-> _]|[-> (x & Hx & Hle)]].
  - exists e. split; [apply find_seed_set_same|]. unfold pos_le. lia.
  - exists x. auto.
Qed.

(* ---- key derivation from invariant-respecting envelopes (C02) ---- *)
Lemma derive_conf sd e l1 l2 : conf sd e -> 0 <= l1 <= 31 -> 0 <= l2 <= 31 -> covers_at e l1 l2 ->
  derive kdf e l1 l2 = Ok (key_at (c_rk e) sd (c_l0 e) l1 l2).
Proof using Type. clear dc.
  intros [_ Hc] H1 H2 Hcov. unfold derive, key_at.
  apply (chain (kdf (c_rk e) (c_l0 e)) (top (c_rk e) sd (c_l0 e)) L2FUEL (cenv_env e) l1 l2 Hc H1 H2 Hcov).
  unfold L2FUEL. lia.
Qed.

Lemma derive_ok_covers e l1 l2 k : derive kdf e l1 l2 = Ok k -> 0 <= l1 <= 31 /\ 0 <= l2 <= 31 /\ covers_at e l1 l2.
Proof using RK. clear dc l1seed truth.
  intros H. unfold covers_at.
  assert (D : (0 <= l1 <= 31 /\ 0 <= l2 <= 31 /\ (c_l1 e > l1 \/ c_l1 e = l1 /\ c_l2 e >= l2)) \/
              ~ (0 <= l1 <= 31 /\ 0 <= l2 <= 31 /\ (c_l1 e > l1 \/ c_l1 e = l1 /\ c_l2 e >= l2))) by lia.
  destruct D as [D|D]; [exact D|].
  unfold derive in H. rewrite (noncover (kdf (c_rk e) (c_l0 e)) L2FUEL l1 l2 (c_l1 e) (c_l2 e) (c_k1 e) (c_k2 e) D) in H.
  discriminate.
Qed.

(* ---- the tails of the calls ---- *)
Lemma Inv_unprotect_finish c sd l0 l1 l2 e n : Inv c -> (c_pub e = false -> conf sd e) ->
  Inv (snd (unprotect_finish kdf c sd l0 l1 l2 e n)).
Proof using Type. clear dc nokey.
  intros HI He. unfold unprotect_finish. cbv zeta. cbn [snd].
  destruct (c_pub e); [exact HI|]. apply Inv_store_key; auto.
Qed.
Lemma Inv_protect_finish c sd e n : Inv c -> (c_pub e = false -> conf sd e) ->
  Inv (snd (protect_finish c sd e n)).
Proof using Type. clear dc nokey.
  intros HI He. unfold protect_finish. cbv zeta. cbn [snd].
  destruct (c_pub e); [exact HI|]. apply Inv_store_key; auto.
Qed.

(* the outcome of the tail of unprotect on an invariant-respecting covering envelope *)
Lemma unprotect_finish_key c sd rk l0 l1 l2 e n : conf sd e -> c_rk e = rk -> c_l0 e = l0 ->
  0 <= l1 <= 31 -> 0 <= l2 <= 31 -> covers_at e l1 l2 ->
  fst (unprotect_finish kdf c sd l0 l1 l2 e n) =
  {| o_key := Ok (key_at rk sd l0 l1 l2); o_pos := (l0, l1, l2); o_pub := false; o_rpcs := n |}.
Proof using Type. clear dc.
  intros Hc Hrk Hl0 H1 H2 Hcov. unfold unprotect_finish. cbv zeta. cbn [fst].
  rewrite (derive_conf sd e l1 l2 Hc H1 H2 Hcov). destruct Hc as [Hp _]. rewrite Hp, Hrk, Hl0, Z.eqb_refl. reflexivity.
Qed.

(* _get_protection_gke_from_cache *)
Definition prot_env (rk l0 l1 l2 : Z) (pub : bool) (k : K) : cenvK :=
  {| c_rk := rk; c_l0 := l0; c_l1 := l1; c_l2 := l2; c_pub := pub; c_k1 := nokey; c_k2 := k |}.

Lemma protection_gke_cases c sd rko l0 l1 l2 :
  (rko = None /\ protection_gke kdf l1seed nokey c sd rko l0 l1 l2 = (None, c)) \/
  (exists rk, rko = Some rk /\
     ((exists c1, get_key' c sd rk l0 l1 l2 = (None, c1) /\ protection_gke kdf l1seed nokey c sd rko l0 l1 l2 = (None, c1)) \/
      (exists e c1, get_key' c sd rk l0 l1 l2 = (Some e, c1) /\
         ((exists er, derive kdf e l1 l2 = Raise er /\ protection_gke kdf l1seed nokey c sd rko l0 l1 l2 = (Some (Raise er), c1)) \/
          (exists k, derive kdf e l1 l2 = Ok k /\
                     protection_gke kdf l1seed nokey c sd rko l0 l1 l2 = (Some (Ok (prot_env rk l0 l1 l2 (c_pub e) k)), c1)))))).
Proof.
  destruct rko as [rk|]; [right; exists rk; split; [reflexivity|]|left; split; reflexivity].
  unfold protection_gke. destruct (get_key' c sd rk l0 l1 l2) as [[e|] c1] eqn:G.
  - right. exists e, c1. split; [reflexivity|].
    destruct (derive kdf e l1 l2) as [k|er] eqn:D; [right; exists k|left; exists er]; split; reflexivity.
  - left. exists c1. split; reflexivity.
Qed.

(* The envelope _get_protection_gke_from_cache builds carries no L1 key: it is NOT a conforming
   envelope in general (see prot_env_not_conforming below).  It never reaches the cache: the entry
   _get_key has just returned / written for the triple is at or after the requested position. *)
Lemma prot_env_not_stored c sd rk l0 l1 l2 e c1 k : Inv c ->
  get_key' c sd rk l0 l1 l2 = (Some e, c1) -> derive kdf e l1 l2 = Ok k ->
  store_key c1 sd (prot_env rk l0 l1 l2 (c_pub e) k) = c1.
Proof using Type. clear dc.
  intros HI G D. destruct (get_key_sound _ _ _ _ _ _ _ _ HI G) as (_ & Hf & _).
  apply derive_ok_covers in D. destruct D as (_ & _ & Hcov).
  apply (store_key_noop c1 sd _ e); [exact Hf|]. unfold pos_le, covers_at, prot_env in *. cbn [c_l1 c_l2]. lia.
Qed.

(* ---- shapes of the steps ---- *)
Lemma step_unprotect_hit w sd rk l0 l1 l2 e c1 : get_key' (w_cache w) sd rk l0 l1 l2 = (Some e, c1) ->
  step' w (Start (CUnprotect sd rk l0 l1 l2)) =
  {| w_cache := snd (unprotect_finish kdf c1 sd l0 l1 l2 e 0); w_pending := w_pending w;
     w_out := w_out w ++ [fst (unprotect_finish kdf c1 sd l0 l1 l2 e 0)] |}.
Proof. intros G. unfold step. rewrite G. reflexivity. Qed.
Lemma step_unprotect_miss w sd rk l0 l1 l2 c1 : get_key' (w_cache w) sd rk l0 l1 l2 = (None, c1) ->
  step' w (Start (CUnprotect sd rk l0 l1 l2)) =
  {| w_cache := c1; w_pending := w_pending w ++ [PUnprotect sd l0 l1 l2 (dc sd (Some rk) l0 l1 l2)]; w_out := w_out w |}.
Proof. intros G. unfold step. rewrite G. reflexivity. Qed.
Lemma step_protect_raise w sd rko l0 l1 l2 er c1 :
  protection_gke kdf l1seed nokey (w_cache w) sd rko l0 l1 l2 = (Some (Raise er), c1) ->
  step' w (Start (CProtect sd rko l0 l1 l2)) =
  {| w_cache := c1; w_pending := w_pending w;
     w_out := w_out w ++ [{| o_key := Raise er; o_pos := (l0, l1, l2); o_pub := false; o_rpcs := 0 |}] |}.
Proof. intros G. unfold step. rewrite G. reflexivity. Qed.
Lemma step_protect_hit w sd rko l0 l1 l2 e c1 :
  protection_gke kdf l1seed nokey (w_cache w) sd rko l0 l1 l2 = (Some (Ok e), c1) ->
  step' w (Start (CProtect sd rko l0 l1 l2)) =
  {| w_cache := snd (protect_finish c1 sd e 0); w_pending := w_pending w;
     w_out := w_out w ++ [fst (protect_finish c1 sd e 0)] |}.
Proof. intros G. unfold step. rewrite G. reflexivity. Qed.
Lemma step_protect_miss w sd rko l0 l1 l2 c1 :
  protection_gke kdf l1seed nokey (w_cache w) sd rko l0 l1 l2 = (None, c1) ->
  step' w (Start (CProtect sd rko l0 l1 l2)) =
  {| w_cache := c1; w_pending := w_pending w ++ [PProtect sd (dc sd rko (-1) (-1) (-1))]; w_out := w_out w |}.
Proof. intros G. unfold step. rewrite G. reflexivity. Qed.
Lemma step_finish_none w i : nth_error (w_pending w) i = None -> step' w (Finish i) = w.
Proof. intros G. unfold step. rewrite G. reflexivity. Qed.
Lemma step_finish_unprotect w i sd l0 l1 l2 e : nth_error (w_pending w) i = Some (PUnprotect sd l0 l1 l2 e) ->
  step' w (Finish i) =
  {| w_cache := snd (unprotect_finish kdf (w_cache w) sd l0 l1 l2 e 1); w_pending := remove_nth i (w_pending w);
     w_out := w_out w ++ [fst (unprotect_finish kdf (w_cache w) sd l0 l1 l2 e 1)] |}.
Proof. intros G. unfold step. rewrite G. reflexivity. Qed.
Lemma step_finish_protect w i sd e : nth_error (w_pending w) i = Some (PProtect sd e) ->
  step' w (Finish i) =
  {| w_cache := snd (protect_finish (w_cache w) sd e 1); w_pending := remove_nth i (w_pending w);
     w_out := w_out w ++ [fst (protect_finish (w_cache w) sd e 1)] |}.
Proof. intros G. unfold step. rewrite G. reflexivity. Qed.

Lemma Forall_remove_nth {A} (P : A -> Prop) i (l : list A) : Forall P l -> Forall P (remove_nth i l).
Proof.
  revert i. induction l as [|a l IH]; intros [|i] H; cbn [remove_nth]; auto.
  - inversion H; auto.
  - inversion H; subst. constructor; auto.
Qed.
Lemma Forall_nth_error {A} (P : A -> Prop) i (l : list A) a : Forall P l -> nth_error l i = Some a -> P a.
Proof. intros H G. apply nth_error_In in G. rewrite Forall_forall in H. auto. Qed.
Lemma Forall_snoc {A} (P : A -> Prop) (l : list A) a : Forall P l -> P a -> Forall P (l ++ [a]).
Proof. intros. apply Forall_app. auto. Qed.

(* ---- 3. the cache only grows: per triple the position never decreases, loaded roots stay ---- *)
Definition grows c c' : Prop :=
  (forall t x, find_seed (seeds c) t = Some x -> exists y, find_seed (seeds c') t = Some y /\ pos_le x y) /\
  (forall rk, find_root (roots c) rk <> None -> find_root (roots c') rk <> None).

Lemma pos_le_refl x : pos_le x x.
Proof. unfold pos_le. lia. Qed.
Lemma grows_refl c : grows c c.
Proof. split; [|auto]. intros t x Hx. exists x. split; [exact Hx|apply pos_le_refl]. Qed.
Lemma grows_trans c1 c2 c3 : grows c1 c2 -> grows c2 c3 -> grows c1 c3.
Proof.
  intros [A1 B1] [A2 B2]. split; [|auto]. intros t x Hx.
  destruct (A1 _ _ Hx) as (y & Hy & L1). destruct (A2 _ _ Hy) as (z & Hz & L2).
  exists z. split; [exact Hz|]. unfold pos_le in *. lia.
Qed.
Lemma grows_set_seed c t e : (forall x, find_seed (seeds c) t = Some x -> pos_le x e) -> grows c (set_seed c t e).
Proof.
  intros H. split; [|auto]. intros t' x Hx. rewrite find_seed_set. destruct (tkey_eqb t t') eqn:E.
  - apply tkey_eqb_eq in E. subst t'. exists e. auto.
  - exists x. split; [exact Hx|apply pos_le_refl].
Qed.
Lemma grows_load c rk d : grows c (load_key c rk d).
Proof.
  split.
  - intros t x Hx. exists x. split; [exact Hx|apply pos_le_refl].
  - intros rk' H. cbn [load_key roots find_root]. destruct (rk =? rk'); [discriminate|exact H].
Qed.
Lemma grows_store c sd e : grows c (store_key c sd e).
Proof using Type. clear dc kdf l1seed nokey truth.
  destruct (store_key_cases c sd e) as [[-> H]|[-> _]]; [|apply grows_refl].
  apply grows_set_seed. intros x Hx. specialize (H _ Hx). unfold pos_lt, pos_le in *. lia.
Qed.
Lemma grows_get_key c sd rk l0 l1 l2 : Inv c -> grows c (snd (get_key' c sd rk l0 l1 l2)).
Proof using Type. clear dc.
  intros HI. destruct (get_key_cases c sd rk l0 l1 l2) as [(x & Hx & Hcov & G)|(_ & [(d & Hd & G)|(_ & G)])];
    rewrite G; cbn [snd]; try apply grows_refl.
  apply grows_set_seed. intros x Hx. destruct (proj2 HI _ _ _ _ Hx) as (_ & _ & Hc). apply conf_range in Hc.
  unfold pos_le, root_gke. cbn [c_l1 c_l2]. lia.
Qed.

(* the atomic moves of the cache *)
Definition moves c c' : Prop :=
  c' = c \/ (exists rk d, agrees rk d /\ c' = load_key c rk d) \/
  (exists sd rk l0 l1 l2, c' = snd (get_key' c sd rk l0 l1 l2)) \/
  (exists sd e, conf sd e /\ c' = store_key c sd e).
Lemma Inv_moves c c' : Inv c -> moves c c' -> Inv c'.
Proof using Type. clear dc.
  intros HI [->|[(rk & d & Hd & ->)|[(sd & rk & l0 & l1 & l2 & ->)|(sd & e & He & ->)]]];
    auto using Inv_load, Inv_get_key, Inv_store_key.
Qed.
Lemma grows_moves c c' : Inv c -> moves c c' -> grows c c'.
Proof using Type. clear dc.
  intros HI [->|[(rk & d & Hd & ->)|[(sd & rk & l0 & l1 & l2 & ->)|(sd & e & He & ->)]]];
    auto using grows_refl, grows_load, grows_get_key, grows_store.
Qed.
Lemma moves_get c sd rk l0 l1 l2 r c1 : get_key' c sd rk l0 l1 l2 = (r, c1) -> moves c c1.
Proof. intros G. right; right; left. exists sd, rk, l0, l1, l2. rewrite G. reflexivity. Qed.
Lemma moves_unprotect_finish c sd l0 l1 l2 e n : (c_pub e = false -> conf sd e) ->
  moves c (snd (unprotect_finish kdf c sd l0 l1 l2 e n)).
Proof.
  intros He. unfold unprotect_finish. cbv zeta. cbn [snd].
  destruct (c_pub e); [left; reflexivity|]. right; right; right. exists sd, e. auto.
Qed.
Lemma moves_protect_finish c sd e n : (c_pub e = false -> conf sd e) -> moves c (snd (protect_finish c sd e n)).
Proof.
  intros He. unfold protect_finish. cbv zeta. cbn [snd].
  destruct (c_pub e); [left; reflexivity|]. right; right; right. exists sd, e. auto.
Qed.

(* ---- the world: cache + pending RPCs + outcomes so far ---- *)
Definition pend_conf (p : pending (K := K)) : Prop :=
  match p with PUnprotect sd _ _ _ e | PProtect sd e => c_pub e = false -> adm sd e end.
Definition pend_pos (p : pending (K := K)) : Prop :=
  match p with
  | PUnprotect sd l0 l1 l2 e => c_pub e = false -> c_l0 e = l0 /\ c_l1 e = l1 /\ c_l2 e = l2
  | PProtect _ _ => True
  end.
(* loads are of true root keys *)
Definition ev_true ev : Prop := match ev with Start (CLoad rk d) => agrees rk d | _ => True end.
(* ... and requested positions are positions.  l0_in_range: the abstract get_key has NO counterpart of the source's L0 guard
   (KeyCache._get_key: `if not 0 <= l0 <= 0x7FFFFFFF: raise ValueError`, regenerated as k_cache_l0_guard and present in the
   concrete Model/Client.v cc_get_key): for an L0 the guard refuses the source raises before touching the cache, where this
   model goes on.  Admitted histories therefore only contain requests the guard lets through, for unprotect (the blob's L0)
   and for protect (the L0 computed from the clock). *)
Definition ev_adm ev : Prop :=
  match ev with
  | Start (CLoad rk d) => agrees rk d
  | Start (CUnprotect sd rk l0 l1 l2) => (0 <= l0 /\ 0 <= l1 <= 31 /\ 0 <= l2 <= 31) /\ l0_in_range l0
  | Start (CProtect sd rko l0 l1 l2) => (0 <= l1 <= 31 /\ 0 <= l2 <= 31) /\ l0_in_range l0
  | Finish _ => True
  end.

Lemma ev_adm_true ev : ev_adm ev -> ev_true ev.
Proof. destruct ev as [[| |]|]; cbn; auto. Qed.

(* 2. the key the outcome carries is the chain key of the position it names *)
Definition good_outcome (o : outcome (K := K)) : Prop :=
  o_pub o = false ->
  exists rk sd l0 l1 l2, o_pos o = (l0, l1, l2) /\ 0 <= l1 <= 31 /\ 0 <= l2 <= 31 /\ o_key o = Ok (key_at rk sd l0 l1 l2).

Hypothesis dc_explicit : dc_explicit_ok.
Hypothesis dc_conforming : dc_conforming_ok.

Lemma dc_adm sd rko l0 l1 l2 : c_pub (dc sd rko l0 l1 l2) = false -> adm sd (dc sd rko l0 l1 l2).
Proof using dc_conforming. intros H. destruct (dc_conforming sd rko l0 l1 l2 H) as (_ & _ & A & B). split; [split|]; assumption. Qed.

Lemma step_moves w ev : Inv (w_cache w) -> Forall pend_conf (w_pending w) -> ev_true ev ->
  (exists cm, moves (w_cache w) cm /\ moves cm (w_cache (step' w ev))) /\ Forall pend_conf (w_pending (step' w ev)).
Proof using dc_conforming.
  intros HI HP Hev. destruct ev as [[rk d|sd rk l0 l1 l2|sd rko l0 l1 l2]|i].
  - split; [|exact HP]. exists (w_cache w). split; [left; reflexivity|].
    right; left. exists rk, d. split; [exact Hev|reflexivity].
  - destruct (get_key' (w_cache w) sd rk l0 l1 l2) as [[e|] c1] eqn:G.
    + rewrite (step_unprotect_hit _ _ _ _ _ _ _ _ G). cbn [w_cache w_pending]. split; [|exact HP].
      exists c1. split; [exact (moves_get _ _ _ _ _ _ _ _ G)|].
      destruct (get_key_sound _ _ _ _ _ _ _ _ HI G) as (_ & _ & _ & _ & Hc & _).
      apply moves_unprotect_finish. auto.
    + rewrite (step_unprotect_miss _ _ _ _ _ _ _ G). cbn [w_cache w_pending]. split.
      * exists c1. split; [exact (moves_get _ _ _ _ _ _ _ _ G)|left; reflexivity].
      * apply Forall_snoc; [exact HP|]. cbn [pend_conf]. apply dc_adm.
  - destruct (protection_gke_cases (w_cache w) sd rko l0 l1 l2)
      as [[-> P]|(rk & -> & [(c1 & G & P)|(e & c1 & G & [(er & D & P)|(k & D & P)])])].
    + rewrite (step_protect_miss _ _ _ _ _ _ _ P). cbn [w_cache w_pending]. split.
      * exists (w_cache w). split; left; reflexivity.
      * apply Forall_snoc; [exact HP|]. cbn [pend_conf]. apply dc_adm.
    + rewrite (step_protect_miss _ _ _ _ _ _ _ P). cbn [w_cache w_pending]. split.
      * exists c1. split; [exact (moves_get _ _ _ _ _ _ _ _ G)|left; reflexivity].
      * apply Forall_snoc; [exact HP|]. cbn [pend_conf]. apply dc_adm.
    + rewrite (step_protect_raise _ _ _ _ _ _ _ _ P). cbn [w_cache w_pending]. split; [|exact HP].
      exists c1. split; [exact (moves_get _ _ _ _ _ _ _ _ G)|left; reflexivity].
    + rewrite (step_protect_hit _ _ _ _ _ _ _ _ P). cbn [w_cache w_pending]. split; [|exact HP].
      exists c1. split; [exact (moves_get _ _ _ _ _ _ _ _ G)|]. left.
      unfold protect_finish. cbv zeta. cbn [snd]. cbn [prot_env c_pub].
      destruct (c_pub e) eqn:Ep; [reflexivity|]. rewrite <- Ep. exact (prot_env_not_stored _ _ _ _ _ _ _ _ _ HI G D).
  - destruct (nth_error (w_pending w) i) as [[sd l0 l1 l2 e|sd e]|] eqn:G.
    + rewrite (step_finish_unprotect _ _ _ _ _ _ _ G). cbn [w_cache w_pending].
      split; [|apply Forall_remove_nth; exact HP].
      exists (w_cache w). split; [left; reflexivity|]. apply moves_unprotect_finish.
      intros Hp. exact (proj1 (Forall_nth_error _ _ _ _ HP G Hp)).
    + rewrite (step_finish_protect _ _ _ _ G). cbn [w_cache w_pending].
      split; [|apply Forall_remove_nth; exact HP].
      exists (w_cache w). split; [left; reflexivity|]. apply moves_protect_finish.
      intros Hp. exact (proj1 (Forall_nth_error _ _ _ _ HP G Hp)).
    + rewrite (step_finish_none _ _ G). split; [|exact HP]. exists (w_cache w). split; left; reflexivity.
Qed.

(* Inv (and the sanity of what is in flight) is preserved by EVERY event; only loads are constrained *)
Definition WInv w : Prop := Inv (w_cache w) /\ Forall pend_conf (w_pending w).
Lemma step_WInv w ev : WInv w -> ev_true ev -> WInv (step' w ev).
Proof using dc_conforming.
  intros [HI HP] Hev. destruct (step_moves w ev HI HP Hev) as [(cm & M1 & M2) HP']. split; [|exact HP'].
  eauto using Inv_moves.
Qed.
Lemma step_grows w ev : WInv w -> ev_true ev -> grows (w_cache w) (w_cache (step' w ev)).
Proof using dc_conforming.
  intros [HI HP] Hev. destruct (step_moves w ev HI HP Hev) as [(cm & M1 & M2) _].
  eapply grows_trans; [exact (grows_moves _ _ HI M1)|]. apply grows_moves; [|exact M2]. eauto using Inv_moves.
Qed.
Lemma WInv_init : WInv init_world.
Proof. split; [exact Inv_empty|constructor]. Qed.
Lemma fold_WInv evs w : WInv w -> Forall ev_true evs -> WInv (fold_left step' evs w).
Proof using dc_conforming.
  revert w. induction evs as [|ev evs IH]; intros w HW HA; [exact HW|].
  inversion HA; subst. cbn [fold_left]. apply IH; [apply step_WInv|]; assumption.
Qed.
Lemma fold_grows evs w : WInv w -> Forall ev_true evs -> grows (w_cache w) (w_cache (fold_left step' evs w)).
Proof using dc_conforming.
  revert w. induction evs as [|ev evs IH]; intros w HW HA; [apply grows_refl|].
  inversion HA; subst. cbn [fold_left]. eapply grows_trans; [apply step_grows; eassumption|].
  apply IH; [apply step_WInv|]; assumption.
Qed.

(* 1. the invariant holds in every reachable world, whatever the interleaving *)
Theorem Inv_reachable evs : Forall ev_true evs -> Inv (w_cache (run' evs)).
Proof using dc_conforming. intros H. exact (proj1 (fold_WInv evs init_world WInv_init H)). Qed.

(* 3. along any history the position cached for a triple never decreases (and loaded roots stay) *)
Theorem monotone evs1 evs2 : Forall ev_true (evs1 ++ evs2) ->
  grows (w_cache (run' evs1)) (w_cache (run' (evs1 ++ evs2))).
Proof using dc_conforming.
  intros H. apply Forall_app in H. destruct H as [H1 H2]. unfold run_events. rewrite fold_left_app.
  apply fold_grows; [apply fold_WInv; [exact WInv_init|exact H1]|exact H2].
Qed.

(* ---- 2. transparency ---- *)
Lemma good_unprotect_finish c sd l0 l1 l2 e n :
  (c_pub e = false -> adm sd e /\ c_l0 e = l0 /\ c_l1 e = l1 /\ c_l2 e = l2) ->
  good_outcome (fst (unprotect_finish kdf c sd l0 l1 l2 e n)).
Proof using Type. clear dc_explicit dc_conforming dc.
  intros H Hp. assert (Hp' : c_pub e = false) by exact Hp. destruct (H Hp') as ([Hc _] & E0 & E1 & E2).
  pose proof (conf_range _ _ Hc) as [R1 R2]. rewrite E1 in R1. rewrite E2 in R2.
  rewrite (unprotect_finish_key c sd (c_rk e) l0 l1 l2 e n Hc eq_refl E0 R1 R2) by (unfold covers_at; lia).
  exists (c_rk e), sd, l0, l1, l2. cbn [o_pos o_key]. auto.
Qed.
Lemma good_protect_finish c sd e n : (c_pub e = false -> adm sd e) -> good_outcome (fst (protect_finish c sd e n)).
Proof.
  intros H Hp. assert (Hp' : c_pub e = false) by exact Hp. destruct (H Hp') as [Hc Hk].
  pose proof (conf_range _ _ Hc) as [R1 R2].
  exists (c_rk e), sd, (c_l0 e), (c_l1 e), (c_l2 e). unfold protect_finish. cbv zeta. cbn [fst o_pos o_key].
  rewrite Hk. auto.
Qed.

(* a request served from the cache (cached envelope or loaded root key) yields exactly the chain key *)
Lemma unprotect_hit_outcome c sd rk l0 l1 l2 e c1 n : Inv c -> get_key' c sd rk l0 l1 l2 = (Some e, c1) ->
  0 <= l1 <= 31 -> 0 <= l2 <= 31 ->
  fst (unprotect_finish kdf c1 sd l0 l1 l2 e n) =
  {| o_key := Ok (key_at rk sd l0 l1 l2); o_pos := (l0, l1, l2); o_pub := false; o_rpcs := n |}.
Proof using Type. clear dc_explicit dc_conforming dc.
  intros HI G R1 R2. destruct (get_key_sound _ _ _ _ _ _ _ _ HI G) as (_ & _ & Erk & El0 & Hc & Hcov).
  apply unprotect_finish_key; auto. apply Hcov; lia.
Qed.
Lemma protect_hit_outcome c sd rk l0 l1 l2 e c1 k n : Inv c -> get_key' c sd rk l0 l1 l2 = (Some e, c1) ->
  derive kdf e l1 l2 = Ok k ->
  fst (protect_finish c1 sd (prot_env rk l0 l1 l2 (c_pub e) k) n) =
  {| o_key := Ok (key_at rk sd l0 l1 l2); o_pos := (l0, l1, l2); o_pub := false; o_rpcs := n |}.
Proof using Type. clear dc_explicit dc_conforming dc.
  intros HI G D. destruct (get_key_sound _ _ _ _ _ _ _ _ HI G) as (_ & _ & Erk & El0 & Hc & _).
  destruct (derive_ok_covers _ _ _ _ D) as (R1 & R2 & Hcov).
  rewrite (derive_conf sd e l1 l2 Hc R1 R2 Hcov), Erk, El0 in D. apply Ok_inj in D. subst k.
  destruct Hc as [Hp _]. rewrite Hp. reflexivity.
Qed.
(* an RPC reply for an explicit position: the chain key of that position of the requested root key *)
Lemma unprotect_rpc_outcome c sd rk l0 l1 l2 n : 0 <= l0 -> 0 <= l1 <= 31 -> 0 <= l2 <= 31 ->
  c_pub (dc sd (Some rk) l0 l1 l2) = false ->
  fst (unprotect_finish kdf c sd l0 l1 l2 (dc sd (Some rk) l0 l1 l2) n) =
  {| o_key := Ok (key_at rk sd l0 l1 l2); o_pos := (l0, l1, l2); o_pub := false; o_rpcs := n |}.
Proof using dc_conforming dc_explicit.
  intros R0 R1 R2 Hp. destruct (dc_explicit sd rk l0 l1 l2 R0 R1 R2) as (Erk & El0 & E1 & E2).
  destruct (dc_adm _ _ _ _ _ Hp) as [Hc _].
  apply unprotect_finish_key; auto. unfold covers_at. lia.
Qed.

Lemma step_out w ev : Inv (w_cache w) -> Forall pend_conf (w_pending w) -> Forall pend_pos (w_pending w) -> ev_adm ev ->
  Forall pend_pos (w_pending (step' w ev)) /\
  exists new, w_out (step' w ev) = w_out w ++ new /\ Forall good_outcome new.
Proof using dc_explicit.
  intros HI HC HP Hev. destruct ev as [[rk d|sd rk l0 l1 l2|sd rko l0 l1 l2]|i].
  - split; [exact HP|]. exists []. split; [symmetry; apply app_nil_r|constructor].
  - destruct Hev as ((R0 & R1 & R2) & _). destruct (get_key' (w_cache w) sd rk l0 l1 l2) as [[e|] c1] eqn:G.
    + rewrite (step_unprotect_hit _ _ _ _ _ _ _ _ G). cbn [w_out w_pending]. split; [exact HP|].
      eexists. split; [reflexivity|]. constructor; [|constructor].
      rewrite (unprotect_hit_outcome _ _ _ _ _ _ _ _ 0 HI G R1 R2). intros _.
      exists rk, sd, l0, l1, l2. cbn [o_pos o_key]. auto.
    + rewrite (step_unprotect_miss _ _ _ _ _ _ _ G). cbn [w_out w_pending]. split.
      * apply Forall_snoc; [exact HP|]. cbn [pend_pos]. intros _.
        destruct (dc_explicit sd rk l0 l1 l2 R0 R1 R2) as (_ & El0 & E1 & E2). auto.
      * exists []. split; [symmetry; apply app_nil_r|constructor].
  - destruct (protection_gke_cases (w_cache w) sd rko l0 l1 l2)
      as [[-> P]|(rk & -> & [(c1 & G & P)|(e & c1 & G & [(er & D & P)|(k & D & P)])])].
    + rewrite (step_protect_miss _ _ _ _ _ _ _ P). cbn [w_out w_pending]. split.
      * apply Forall_snoc; [exact HP|exact I].
      * exists []. split; [symmetry; apply app_nil_r|constructor].
    + rewrite (step_protect_miss _ _ _ _ _ _ _ P). cbn [w_out w_pending]. split.
      * apply Forall_snoc; [exact HP|exact I].
      * exists []. split; [symmetry; apply app_nil_r|constructor].
    + (* compute_l2_key cannot raise on an invariant-respecting entry and a position *)
      exfalso. destruct Hev as ((R1 & R2) & _).
      destruct (get_key_sound _ _ _ _ _ _ _ _ HI G) as (_ & _ & _ & _ & Hc & Hcov).
      rewrite (derive_conf sd e l1 l2 Hc R1 R2) in D by (apply Hcov; lia). discriminate.
    + rewrite (step_protect_hit _ _ _ _ _ _ _ _ P). cbn [w_out w_pending]. split; [exact HP|].
      eexists. split; [reflexivity|]. constructor; [|constructor].
      rewrite (protect_hit_outcome _ _ _ _ _ _ _ _ _ 0 HI G D). intros _.
      destruct (derive_ok_covers _ _ _ _ D) as (R1 & R2 & _).
      exists rk, sd, l0, l1, l2. cbn [o_pos o_key]. auto.
  - destruct (nth_error (w_pending w) i) as [[sd l0 l1 l2 e|sd e]|] eqn:G.
    + rewrite (step_finish_unprotect _ _ _ _ _ _ _ G). cbn [w_out w_pending].
      split; [apply Forall_remove_nth; exact HP|]. eexists. split; [reflexivity|]. constructor; [|constructor].
      apply good_unprotect_finish. intros Hp. split.
      * exact (Forall_nth_error _ _ _ _ HC G Hp).
      * exact (Forall_nth_error _ _ _ _ HP G Hp).
    + rewrite (step_finish_protect _ _ _ _ G). cbn [w_out w_pending].
      split; [apply Forall_remove_nth; exact HP|]. eexists. split; [reflexivity|]. constructor; [|constructor].
      apply good_protect_finish. exact (Forall_nth_error _ _ _ _ HC G).
    + rewrite (step_finish_none _ _ G). split; [exact HP|]. exists []. split; [symmetry; apply app_nil_r|constructor].
Qed.

Definition WGood w : Prop := WInv w /\ Forall pend_pos (w_pending w) /\ Forall good_outcome (w_out w).
Lemma step_WGood w ev : WGood w -> ev_adm ev -> WGood (step' w ev).
Proof using dc_conforming dc_explicit.
  intros (HW & HP & HO) Hev. split; [apply step_WInv; [exact HW|apply ev_adm_true; exact Hev]|].
  destruct HW as [HI HC]. destruct (step_out w ev HI HC HP Hev) as (HP' & new & -> & Hn).
  split; [exact HP'|]. apply Forall_app. auto.
Qed.
Lemma fold_WGood evs w : WGood w -> Forall ev_adm evs -> WGood (fold_left step' evs w).
Proof using dc_conforming dc_explicit.
  revert w. induction evs as [|ev evs IH]; intros w HW HA; [exact HW|].
  inversion HA; subst. cbn [fold_left]. apply IH; [apply step_WGood|]; assumption.
Qed.

(* 2. every call completed in any reachable world used the chain key of the position it names
   (never an error, never OutOfFuel), whatever the history and the completion order of the RPCs *)
Theorem all_outcomes_good evs : Forall ev_adm evs -> Forall good_outcome (w_out (run' evs)).
Proof using dc_conforming dc_explicit.
  intros H. refine (proj2 (proj2 (fold_WGood evs init_world _ H))).
  split; [exact WInv_init|]. split; constructor.
Qed.

(* ---- 4. no repeat RPC ---- *)
(* the cache can serve (rk, sd, l0) at (l1, l2): a cached envelope covers it, or the root key is loaded *)
Definition served c (rk sd l0 l1 l2 : Z) : Prop :=
  (exists e, find_seed (seeds c) (rk, sd, l0) = Some e /\ covers_at e l1 l2) \/
  (exists d, find_root (roots c) rk = Some d).

Lemma served_get c rk sd l0 l1 l2 : served c rk sd l0 l1 l2 -> exists e c1, get_key' c sd rk l0 l1 l2 = (Some e, c1).
Proof.
  intros Hs. destruct (get_key_cases c sd rk l0 l1 l2) as [(x & Hx & Hcov & G)|(Hn & [(d & Hd & G)|(Hd & G)])]; eauto.
  exfalso. destruct Hs as [(e & He & Hcov)|(d & Hd')]; [exact (Hn _ He Hcov)|congruence].
Qed.

Lemma served_grows c c' rk sd l0 l1 l2 l1' l2' : served c rk sd l0 l1 l2 -> grows c c' ->
  l1' < l1 \/ (l1' = l1 /\ l2' <= l2) -> served c' rk sd l0 l1' l2'.
Proof.
  intros [(e & He & Hcov)|(d & Hd)] [HG HR] Hle.
  - left. destruct (HG _ _ He) as (y & Hy & Hxy). exists y. split; [exact Hy|]. unfold covers_at, pos_le in *. lia.
  - right. destruct (find_root (roots c') rk) as [d'|] eqn:E; [eauto|].
    exfalso. apply (HR rk); congruence.
Qed.

(* what makes a position served: a load, or an envelope stored for it *)
Lemma served_load c rk d sd l0 l1 l2 : served (load_key c rk d) rk sd l0 l1 l2.
Proof. right. exists d. cbn [load_key roots find_root]. rewrite Z.eqb_refl. reflexivity. Qed.
Lemma served_store c sd e : served (store_key c sd e) (c_rk e) sd (c_l0 e) (c_l1 e) (c_l2 e).
Proof using Type. clear dc_explicit dc_conforming dc kdf l1seed truth nokey.
  left. destruct (store_key_entry c sd e) as (x & Hx & Hle). exists x. split; [exact Hx|].
  unfold covers_at, pos_le in *. lia.
Qed.

Lemma unprotect_served_rpcs c rk sd l0 l1 l2 : served c rk sd l0 l1 l2 ->
  o_rpcs (fst (unprotect kdf l1seed nokey dc c sd rk l0 l1 l2)) = 0.
Proof. intros Hs. destruct (served_get _ _ _ _ _ _ Hs) as (e & c1 & G). unfold unprotect. rewrite G. reflexivity. Qed.
Lemma protect_served_rpcs c rk sd l0 l1 l2 : served c rk sd l0 l1 l2 ->
  o_rpcs (fst (protect kdf l1seed nokey dc c sd (Some rk) l0 l1 l2)) = 0.
Proof.
  intros Hs. destruct (served_get _ _ _ _ _ _ Hs) as (e & c1 & G). unfold protect, protection_gke. rewrite G.
  destruct (derive kdf e l1 l2); reflexivity.
Qed.
Lemma start_unprotect_served_pending w rk sd l0 l1 l2 : served (w_cache w) rk sd l0 l1 l2 ->
  w_pending (step' w (Start (CUnprotect sd rk l0 l1 l2))) = w_pending w.
Proof.
  intros Hs. destruct (served_get _ _ _ _ _ _ Hs) as (e & c1 & G).
  rewrite (step_unprotect_hit _ _ _ _ _ _ _ _ G). reflexivity.
Qed.
Lemma start_protect_served_pending w rk sd l0 l1 l2 : served (w_cache w) rk sd l0 l1 l2 ->
  w_pending (step' w (Start (CProtect sd (Some rk) l0 l1 l2))) = w_pending w.
Proof.
  intros Hs. destruct (served_get _ _ _ _ _ _ Hs) as (e & c1 & G).
  destruct (protection_gke_cases (w_cache w) sd (Some rk) l0 l1 l2)
    as [[E _]|(rk' & E & [(c1' & G' & P)|(e' & c1' & G' & [(er & D & P)|(k & D & P)])])]; try discriminate;
    assert (rk' = rk) by congruence; subst rk'.
  - congruence.
  - rewrite (step_protect_raise _ _ _ _ _ _ _ _ P). reflexivity.
  - rewrite (step_protect_hit _ _ _ _ _ _ _ _ P). reflexivity.
Qed.

(* the precise outcome of a served request: no RPC, nothing left pending, the chain key *)
Theorem start_unprotect_served w rk sd l0 l1 l2 : Inv (w_cache w) -> served (w_cache w) rk sd l0 l1 l2 ->
  0 <= l1 <= 31 -> 0 <= l2 <= 31 ->
  exists c', step' w (Start (CUnprotect sd rk l0 l1 l2)) =
    {| w_cache := c'; w_pending := w_pending w;
       w_out := w_out w ++ [{| o_key := Ok (key_at rk sd l0 l1 l2); o_pos := (l0, l1, l2); o_pub := false; o_rpcs := 0 |}] |}.
Proof.
  intros HI Hs R1 R2. destruct (served_get _ _ _ _ _ _ Hs) as (e & c1 & G).
  rewrite (step_unprotect_hit _ _ _ _ _ _ _ _ G), (unprotect_hit_outcome _ _ _ _ _ _ _ _ 0 HI G R1 R2). eauto.
Qed.
Theorem start_protect_served w rk sd l0 l1 l2 : Inv (w_cache w) -> served (w_cache w) rk sd l0 l1 l2 ->
  0 <= l1 <= 31 -> 0 <= l2 <= 31 ->
  exists c', step' w (Start (CProtect sd (Some rk) l0 l1 l2)) =
    {| w_cache := c'; w_pending := w_pending w;
       w_out := w_out w ++ [{| o_key := Ok (key_at rk sd l0 l1 l2); o_pos := (l0, l1, l2); o_pub := false; o_rpcs := 0 |}] |}.
Proof.
  intros HI Hs R1 R2. destruct (served_get _ _ _ _ _ _ Hs) as (e & c1 & G).
  destruct (get_key_sound _ _ _ _ _ _ _ _ HI G) as (_ & _ & Erk & El0 & Hc & Hcov).
  assert (D : derive kdf e l1 l2 = Ok (key_at rk sd l0 l1 l2))
    by (rewrite (derive_conf sd e l1 l2 Hc R1 R2) by (apply Hcov; lia); rewrite Erk, El0; reflexivity).
  assert (P : protection_gke kdf l1seed nokey (w_cache w) sd (Some rk) l0 l1 l2 =
              (Some (Ok (prot_env rk l0 l1 l2 (c_pub e) (key_at rk sd l0 l1 l2))), c1))
    by (unfold protection_gke; rewrite G, D; reflexivity).
  rewrite (step_protect_hit _ _ _ _ _ _ _ _ P), (protect_hit_outcome _ _ _ _ _ _ _ _ _ 0 HI G D). eauto.
Qed.
(* the precise outcome of the completion of an unprotect RPC *)
Theorem finish_unprotect_rpc w i rk sd l0 l1 l2 :
  nth_error (w_pending w) i = Some (PUnprotect sd l0 l1 l2 (dc sd (Some rk) l0 l1 l2)) ->
  0 <= l0 -> 0 <= l1 <= 31 -> 0 <= l2 <= 31 -> c_pub (dc sd (Some rk) l0 l1 l2) = false ->
  exists c', step' w (Finish i) =
    {| w_cache := c'; w_pending := remove_nth i (w_pending w);
       w_out := w_out w ++ [{| o_key := Ok (key_at rk sd l0 l1 l2); o_pos := (l0, l1, l2); o_pub := false; o_rpcs := 1 |}] |}
    /\ served c' rk sd l0 l1 l2.
Proof using dc_conforming dc_explicit.
  intros G R0 R1 R2 Hp. rewrite (step_finish_unprotect _ _ _ _ _ _ _ G).
  rewrite (unprotect_rpc_outcome _ _ _ _ _ _ 1 R0 R1 R2 Hp). eexists. split; [reflexivity|].
  unfold unprotect_finish. cbv zeta. cbn [snd]. rewrite Hp.
  destruct (dc_explicit sd rk l0 l1 l2 R0 R1 R2) as (Erk & El0 & E1 & E2).
  pose proof (served_store (w_cache w) sd (dc sd (Some rk) l0 l1 l2)) as S.
  rewrite Erk, El0, E1, E2 in S. exact S.
Qed.

(* 4. once a position of a triple is served, every later request at or before it on that triple
   is answered without contacting the domain controller: whatever happens in between *)
Theorem no_repeat_rpc evs1 evs2 rk sd l0 l1 l2 l1' l2' : Forall ev_true (evs1 ++ evs2) ->
  served (w_cache (run' evs1)) rk sd l0 l1 l2 -> l1' < l1 \/ (l1' = l1 /\ l2' <= l2) ->
  let w := run' (evs1 ++ evs2) in
  served (w_cache w) rk sd l0 l1' l2' /\
  w_pending (step' w (Start (CUnprotect sd rk l0 l1' l2'))) = w_pending w /\
  w_pending (step' w (Start (CProtect sd (Some rk) l0 l1' l2'))) = w_pending w /\
  o_rpcs (fst (unprotect kdf l1seed nokey dc (w_cache w) sd rk l0 l1' l2')) = 0 /\
  o_rpcs (fst (protect kdf l1seed nokey dc (w_cache w) sd (Some rk) l0 l1' l2')) = 0.
Proof using dc_conforming.
  intros HA Hs Hle w. assert (S : served (w_cache w) rk sd l0 l1' l2')
    by exact (served_grows _ _ _ _ _ _ _ _ _ Hs (monotone evs1 evs2 HA) Hle).
  split; [exact S|]. split; [exact (start_unprotect_served_pending _ _ _ _ _ _ S)|].
  split; [exact (start_protect_served_pending _ _ _ _ _ _ S)|].
  split; [exact (unprotect_served_rpcs _ _ _ _ _ _ S)|exact (protect_served_rpcs _ _ _ _ _ _ S)].
Qed.

(* ---- the synchronous API: one call = get, (RPC,) store, use, atomically ---- *)
Theorem unprotect_transparent c sd rk l0 l1 l2 : Inv c -> 0 <= l0 -> 0 <= l1 <= 31 -> 0 <= l2 <= 31 ->
  let o := fst (unprotect kdf l1seed nokey dc c sd rk l0 l1 l2) in
  Inv (snd (unprotect kdf l1seed nokey dc c sd rk l0 l1 l2)) /\ o_pos o = (l0, l1, l2) /\
  (o_pub o = false -> o_key o = Ok (key_at rk sd l0 l1 l2)) /\
  (served c rk sd l0 l1 l2 -> o_pub o = false /\ o_rpcs o = 0).
Proof using dc_conforming dc_explicit.
  intros HI R0 R1 R2. unfold unprotect. destruct (get_key' c sd rk l0 l1 l2) as [[e|] c1] eqn:G; cbv zeta.
  - destruct (get_key_sound _ _ _ _ _ _ _ _ HI G) as (HI1 & _ & _ & _ & Hc & _).
    split; [apply Inv_unprotect_finish; auto|].
    rewrite (unprotect_hit_outcome _ _ _ _ _ _ _ _ 0 HI G R1 R2). cbn [o_pos o_pub o_key o_rpcs]. auto.
  - destruct (get_key_none _ _ _ _ _ _ _ G) as (-> & Hr & Hn).
    split; [apply Inv_unprotect_finish; [exact HI|]; intros Hp; exact (proj1 (dc_adm _ _ _ _ _ Hp))|].
    split; [reflexivity|]. split.
    + intros Hp. assert (Hp' : c_pub (dc sd (Some rk) l0 l1 l2) = false) by exact Hp.
      rewrite (unprotect_rpc_outcome _ _ _ _ _ _ 1 R0 R1 R2 Hp'). reflexivity.
    + intros Hs. exfalso. destruct Hs as [(e & He & Hcov)|(d & Hd)]; [exact (Hn _ He Hcov)|congruence].
Qed.

Theorem protect_transparent c sd rko l0 l1 l2 : Inv c -> 0 <= l1 <= 31 -> 0 <= l2 <= 31 ->
  let o := fst (protect kdf l1seed nokey dc c sd rko l0 l1 l2) in
  Inv (snd (protect kdf l1seed nokey dc c sd rko l0 l1 l2)) /\ good_outcome o /\
  (forall rk, rko = Some rk -> served c rk sd l0 l1 l2 ->
     o = {| o_key := Ok (key_at rk sd l0 l1 l2); o_pos := (l0, l1, l2); o_pub := false; o_rpcs := 0 |}).
Proof using dc_conforming.
  intros HI R1 R2. unfold protect.
  destruct (protection_gke_cases c sd rko l0 l1 l2)
    as [[-> P]|(rk & -> & [(c1 & G & P)|(e & c1 & G & [(er & D & P)|(k & D & P)])])]; rewrite P; cbv zeta.
  - split; [apply Inv_protect_finish; [exact HI|]; intros Hp; exact (proj1 (dc_adm _ _ _ _ _ Hp))|].
    split; [apply good_protect_finish; apply dc_adm|]. intros rk E. discriminate.
  - destruct (get_key_none _ _ _ _ _ _ _ G) as (-> & Hr & Hn).
    split; [apply Inv_protect_finish; [exact HI|]; intros Hp; exact (proj1 (dc_adm _ _ _ _ _ Hp))|].
    split; [apply good_protect_finish; apply dc_adm|]. intros rk' E Hs. assert (rk' = rk) by congruence. subst rk'.
    exfalso. destruct Hs as [(e & He & Hcov)|(d & Hd)]; [exact (Hn _ He Hcov)|congruence].
  - exfalso. destruct (get_key_sound _ _ _ _ _ _ _ _ HI G) as (_ & _ & _ & _ & Hc & Hcov).
    rewrite (derive_conf sd e l1 l2 Hc R1 R2) in D by (apply Hcov; lia). discriminate.
  - destruct (get_key_sound _ _ _ _ _ _ _ _ HI G) as (HI1 & _).
    assert (E : snd (protect_finish c1 sd (prot_env rk l0 l1 l2 (c_pub e) k) 0) = c1).
    { unfold protect_finish. cbv zeta. cbn [snd prot_env c_pub]. destruct (c_pub e) eqn:Ep; [reflexivity|].
      rewrite <- Ep. exact (prot_env_not_stored _ _ _ _ _ _ _ _ _ HI G D). }
    rewrite E. split; [exact HI1|]. rewrite (protect_hit_outcome _ _ _ _ _ _ _ _ _ 0 HI G D). split.
    + intros _. exists rk, sd, l0, l1, l2. cbn [o_pos o_key]. auto.
    + intros rk' Erk _. assert (rk' = rk) by congruence. subst rk'. reflexivity.
Qed.

(* the literal "same as with a fresh cache": whenever both runs get private key material *)
Theorem unprotect_same_as_fresh c sd rk l0 l1 l2 : Inv c -> 0 <= l0 -> 0 <= l1 <= 31 -> 0 <= l2 <= 31 ->
  let o := fst (unprotect kdf l1seed nokey dc c sd rk l0 l1 l2) in
  let o0 := fst (unprotect kdf l1seed nokey dc empty_cache sd rk l0 l1 l2) in
  o_pub o = false -> o_pub o0 = false -> o_key o = o_key o0 /\ o_pos o = o_pos o0.
Proof using dc_conforming dc_explicit.
  intros HI R0 R1 R2 o o0 Hp Hp0.
  destruct (unprotect_transparent c sd rk l0 l1 l2 HI R0 R1 R2) as (_ & P & Kk & _).
  destruct (unprotect_transparent empty_cache sd rk l0 l1 l2 Inv_empty R0 R1 R2) as (_ & P0 & Kk0 & _).
  fold o in P, Kk. fold o0 in P0, Kk0. rewrite (Kk Hp), (Kk0 Hp0), P, P0. auto.
Qed.

(* the synchronous call is the async one whose RPC completes before anything else happens *)
Lemma sync_unprotect_as_events w sd rk l0 l1 l2 : w_pending w = [] ->
  step' (step' w (Start (CUnprotect sd rk l0 l1 l2))) (Finish 0) =
  {| w_cache := snd (unprotect kdf l1seed nokey dc (w_cache w) sd rk l0 l1 l2); w_pending := [];
     w_out := w_out w ++ [fst (unprotect kdf l1seed nokey dc (w_cache w) sd rk l0 l1 l2)] |}.
Proof.
  intros E. unfold unprotect. destruct (get_key' (w_cache w) sd rk l0 l1 l2) as [[e|] c1] eqn:G.
  - rewrite (step_unprotect_hit _ _ _ _ _ _ _ _ G). rewrite step_finish_none; cbn [w_pending]; rewrite E; reflexivity.
  - rewrite (step_unprotect_miss _ _ _ _ _ _ _ G).
    erewrite step_finish_unprotect by (cbn [w_pending]; rewrite E; reflexivity).
    cbn [w_cache w_pending w_out]. rewrite E. reflexivity.
Qed.
Lemma sync_protect_as_events w sd rko l0 l1 l2 : w_pending w = [] ->
  step' (step' w (Start (CProtect sd rko l0 l1 l2))) (Finish 0) =
  {| w_cache := snd (protect kdf l1seed nokey dc (w_cache w) sd rko l0 l1 l2); w_pending := [];
     w_out := w_out w ++ [fst (protect kdf l1seed nokey dc (w_cache w) sd rko l0 l1 l2)] |}.
Proof.
  intros E. unfold protect.
  destruct (protection_gke kdf l1seed nokey (w_cache w) sd rko l0 l1 l2) as [[[e|er]|] c1] eqn:P.
  - rewrite (step_protect_hit _ _ _ _ _ _ _ _ P). rewrite step_finish_none; cbn [w_pending]; rewrite E; reflexivity.
  - rewrite (step_protect_raise _ _ _ _ _ _ _ _ P). rewrite step_finish_none; cbn [w_pending]; rewrite E; reflexivity.
  - rewrite (step_protect_miss _ _ _ _ _ _ _ P).
    erewrite step_finish_protect by (cbn [w_pending]; rewrite E; reflexivity).
    cbn [w_cache w_pending w_out]. rewrite E. reflexivity.
Qed.
(* the envelope _get_protection_gke_from_cache builds is not a conforming envelope (its L1 key field is b"") *)
Lemma prot_env_not_conf sd rk l0 l1 l2 k : 0 < l1 -> l2 <> 31 ->
  nokey <> K1 (kdf rk l0) (top rk sd l0) (l1 - 1) -> ~ conf sd (prot_env rk l0 l1 l2 false k).
Proof.
  intros R1 R2 N [_ (_ & _ & _ & H)]. destruct (H R2) as [_ H1]. exact (N (H1 R1)).
Qed.
(* ---- 2b. every outcome tied to ITS call ----
   good_outcome only says "some (rk, sd)" and nothing about public-key outcomes.  Here the calls are tracked alongside the
   world: a ghost list of the calls whose RPC is pending (parallel to w_pending) and a ghost list of the completed calls in
   completion order (parallel to w_out).  `tied cl o` names cl's own (rk, sd, l0, l1, l2); a public-key outcome is the DC's
   reply to exactly that call's request (no key is derived on unprotect; protect uses the reply's public key field). *)
Definition callT := call (RK := RK).
Definition tied (cl : callT) (o : outcome (K := K)) : Prop :=
  match cl with
  | CLoad _ _ => False
  | CUnprotect sd rk l0 l1 l2 =>
    o_pos o = (l0, l1, l2) /\
    ((o_rpcs o = 0 /\ o_pub o = false) \/ (o_rpcs o = 1 /\ o_pub o = c_pub (dc sd (Some rk) l0 l1 l2))) /\
    (o_pub o = false -> o_key o = Ok (key_at rk sd l0 l1 l2)) /\
    (o_pub o = true -> o_key o = Raise ValueError)
  | CProtect sd rko l0 l1 l2 =>
    (o_rpcs o = 0 /\ o_pub o = false /\ o_pos o = (l0, l1, l2) /\ exists rk, rko = Some rk /\ o_key o = Ok (key_at rk sd l0 l1 l2)) \/
    (o_rpcs o = 1 /\ let e := dc sd rko (-1) (-1) (-1) in
       o = fst (protect_finish (empty_cache (RK := RK)) sd e 1) /\
       (c_pub e = false -> c_k2 e = key_at (c_rk e) sd (c_l0 e) (c_l1 e) (c_l2 e)))
  end.
Definition pend_of (cl : callT) (p : pending (K := K)) : Prop :=
  match cl, p with
  | CUnprotect sd rk l0 l1 l2, PUnprotect sd' l0' l1' l2' e =>
    sd' = sd /\ l0' = l0 /\ l1' = l1 /\ l2' = l2 /\ e = dc sd (Some rk) l0 l1 l2 /\ 0 <= l0 /\ 0 <= l1 <= 31 /\ 0 <= l2 <= 31
  | CProtect sd rko l0 l1 l2, PProtect sd' e => sd' = sd /\ e = dc sd rko (-1) (-1) (-1)
  | _, _ => False
  end.

(* the ghost step: where the model completes a call at once it joins the completed calls, where it leaves an RPC pending it
   joins the pending calls; Finish i moves the i-th pending call *)
Definition gstep (w : worldT) (g : list callT * list callT) (ev : eventT) : list callT * list callT :=
  let '(gp, go) := g in
  match ev with
  | Start (CLoad _ _) => (gp, go)
  | Start (CUnprotect sd rk l0 l1 l2 as cl) =>
    match fst (get_key' (w_cache w) sd rk l0 l1 l2) with Some _ => (gp, go ++ [cl]) | None => (gp ++ [cl], go) end
  | Start (CProtect sd rko l0 l1 l2 as cl) =>
    match fst (protection_gke kdf l1seed nokey (w_cache w) sd rko l0 l1 l2) with Some _ => (gp, go ++ [cl]) | None => (gp ++ [cl], go) end
  | Finish i => match nth_error gp i with Some cl => (remove_nth i gp, go ++ [cl]) | None => (gp, go) end
  end.
Fixpoint grun (evs : list eventT) (w : worldT) (g : list callT * list callT) : worldT * (list callT * list callT) :=
  match evs with [] => (w, g) | ev :: r => grun r (step' w ev) (gstep w g ev) end.
Lemma grun_world evs w g : fst (grun evs w g) = fold_left step' evs w.
Proof. revert w g. induction evs as [|ev evs IH]; intros w g; [reflexivity|]. cbn [grun fold_left]. apply IH. Qed.
(* the completed calls of a history, in completion order *)
Definition completed (evs : list eventT) : list callT := snd (snd (grun evs init_world ([], []))).

Lemma Forall2_nth_error {A B} (R : A -> B -> Prop) l1 l2 i b : Forall2 R l1 l2 -> nth_error l2 i = Some b ->
  exists a, nth_error l1 i = Some a /\ R a b.
Proof.
  intros H. revert i. induction H as [|x y l1 l2 Hxy H IH]; intros i Hi; [destruct i; discriminate|].
  destruct i as [|i]; cbn [nth_error] in *; [injection Hi as <-; eauto|exact (IH i Hi)].
Qed.
Lemma Forall2_nth_error_None {A B} (R : A -> B -> Prop) l1 l2 i : Forall2 R l1 l2 -> nth_error l2 i = None -> nth_error l1 i = None.
Proof.
  intros H. revert i. induction H as [|x y l1 l2 Hxy H IH]; intros i Hi; [destruct i; reflexivity|].
  destruct i as [|i]; cbn [nth_error] in *; [discriminate|exact (IH i Hi)].
Qed.
Lemma Forall2_remove_nth {A B} (R : A -> B -> Prop) l1 l2 i : Forall2 R l1 l2 -> Forall2 R (remove_nth i l1) (remove_nth i l2).
Proof.
  intros H. revert i. induction H as [|x y l1 l2 Hxy H IH]; intros i; [destruct i; constructor|].
  destruct i as [|i]; cbn [remove_nth]; [exact H|constructor; [exact Hxy|apply IH]].
Qed.
Lemma Forall2_snoc {A B} (R : A -> B -> Prop) l1 l2 a b : Forall2 R l1 l2 -> R a b -> Forall2 R (l1 ++ [a]) (l2 ++ [b]).
Proof. intros H Hab. apply Forall2_app; [exact H|constructor; [exact Hab|constructor]]. Qed.

Definition GInv (w : worldT) (g : list callT * list callT) : Prop :=
  Forall2 pend_of (fst g) (w_pending w) /\ Forall2 tied (snd g) (w_out w).

Lemma tied_unprotect_finish_rpc c sd rk l0 l1 l2 : 0 <= l0 -> 0 <= l1 <= 31 -> 0 <= l2 <= 31 ->
  tied (CUnprotect sd rk l0 l1 l2) (fst (unprotect_finish kdf c sd l0 l1 l2 (dc sd (Some rk) l0 l1 l2) 1)).
Proof using dc_conforming dc_explicit.
  intros R0 R1 R2. destruct (c_pub (dc sd (Some rk) l0 l1 l2)) eqn:Hp.
  - unfold unprotect_finish. cbn [fst tied o_pos o_rpcs o_pub o_key]. rewrite Hp.
    split; [reflexivity|]. split; [right; split; reflexivity|]. split; [discriminate|reflexivity].
  - rewrite (unprotect_rpc_outcome c sd rk l0 l1 l2 1 R0 R1 R2 Hp). cbn [tied o_pos o_rpcs o_pub o_key]. rewrite Hp.
    split; [reflexivity|]. split; [right; split; reflexivity|]. split; [reflexivity|discriminate].
Qed.

Lemma gstep_GInv w g ev : Inv (w_cache w) -> GInv w g -> ev_adm ev -> GInv (step' w ev) (gstep w g ev).
Proof using dc_conforming dc_explicit.
  intros HI [HP HO] Hev. destruct g as [gp go]. cbn [fst snd] in HP, HO.
  destruct ev as [[rk d|sd rk l0 l1 l2|sd rko l0 l1 l2]|i]; cbn [gstep].
  - split; assumption.
  - destruct Hev as ((R0 & R1 & R2) & _). destruct (get_key' (w_cache w) sd rk l0 l1 l2) as [[e|] c1] eqn:G; cbn [fst].
    + rewrite (step_unprotect_hit _ _ _ _ _ _ _ _ G). split; cbn [fst snd w_pending w_out]; [exact HP|].
      apply Forall2_snoc; [exact HO|]. rewrite (unprotect_hit_outcome _ _ _ _ _ _ _ _ 0 HI G R1 R2).
      cbn [tied o_pos o_rpcs o_pub o_key]. split; [reflexivity|]. split; [left; split; reflexivity|]. split; [reflexivity|discriminate].
    + rewrite (step_unprotect_miss _ _ _ _ _ _ _ G). split; cbn [fst snd w_pending w_out]; [|exact HO].
      apply Forall2_snoc; [exact HP|]. cbn [pend_of]. auto 10.
  - destruct Hev as ((R1 & R2) & _).
    destruct (protection_gke_cases (w_cache w) sd rko l0 l1 l2)
      as [[-> P]|(rk & -> & [(c1 & G & P)|(e & c1 & G & [(er & D & P)|(k & D & P)])])]; rewrite P; cbn [fst].
    + rewrite (step_protect_miss _ _ _ _ _ _ _ P). split; cbn [fst snd w_pending w_out]; [|exact HO].
      apply Forall2_snoc; [exact HP|]. cbn [pend_of]. auto.
    + rewrite (step_protect_miss _ _ _ _ _ _ _ P). split; cbn [fst snd w_pending w_out]; [|exact HO].
      apply Forall2_snoc; [exact HP|]. cbn [pend_of]. auto.
    + exfalso. destruct (get_key_sound _ _ _ _ _ _ _ _ HI G) as (_ & _ & _ & _ & Hc & Hcov).
      rewrite (derive_conf sd e l1 l2 Hc R1 R2) in D by (apply Hcov; lia). discriminate.
    + rewrite (step_protect_hit _ _ _ _ _ _ _ _ P). split; cbn [fst snd w_pending w_out]; [exact HP|].
      apply Forall2_snoc; [exact HO|]. rewrite (protect_hit_outcome _ _ _ _ _ _ _ _ _ 0 HI G D).
      cbn [tied o_pos o_rpcs o_pub o_key]. left. repeat split. exists rk. split; reflexivity.
  - destruct (nth_error (w_pending w) i) as [[sd l0 l1 l2 e|sd e]|] eqn:G.
    + destruct (Forall2_nth_error _ _ _ _ _ HP G) as (cl & Hcl & Hpo). rewrite Hcl.
      rewrite (step_finish_unprotect _ _ _ _ _ _ _ G). split; cbn [fst snd w_pending w_out]; [apply Forall2_remove_nth; exact HP|].
      apply Forall2_snoc; [exact HO|]. destruct cl as [|sd' rk l0' l1' l2'|]; cbn [pend_of] in Hpo; try contradiction.
      destruct Hpo as (-> & -> & -> & -> & -> & R0 & R1 & R2). apply tied_unprotect_finish_rpc; assumption.
    + destruct (Forall2_nth_error _ _ _ _ _ HP G) as (cl & Hcl & Hpo). rewrite Hcl.
      rewrite (step_finish_protect _ _ _ _ G). split; cbn [fst snd w_pending w_out]; [apply Forall2_remove_nth; exact HP|].
      apply Forall2_snoc; [exact HO|]. destruct cl as [| |sd' rko l0' l1' l2']; cbn [pend_of] in Hpo; try contradiction.
      destruct Hpo as (-> & ->). cbn [tied]. right. split; [reflexivity|]. cbv zeta. split; [reflexivity|].
      intros Hp. exact (proj2 (dc_adm _ _ _ _ _ Hp)).
    + rewrite (Forall2_nth_error_None _ _ _ _ HP G). rewrite (step_finish_none _ _ G). split; assumption.
Qed.

Lemma grun_GInv evs w g : WGood w -> GInv w g -> Forall ev_adm evs ->
  GInv (fst (grun evs w g)) (snd (grun evs w g)).
Proof using dc_conforming dc_explicit.
  revert w g. induction evs as [|ev evs IH]; intros w g HW HG HA; [exact HG|].
  inversion HA; subst. cbn [grun]. apply IH; [apply step_WGood; assumption| |assumption].
  apply gstep_GInv; [exact (proj1 (proj1 HW))|exact HG|assumption].
Qed.

(* 2b. in every admitted history, whatever the interleaving: the i-th completed call and the i-th outcome are tied *)
Theorem outcomes_tied evs : Forall ev_adm evs -> Forall2 tied (completed evs) (w_out (run' evs)).
Proof using dc_conforming dc_explicit.
  intros HA. unfold completed, run_events. rewrite <- (grun_world evs init_world ([], [])).
  apply (grun_GInv evs init_world ([], [])); [|split; constructor|exact HA].
  split; [exact WInv_init|]. split; constructor.
Qed.

(* the completed calls are calls of the history *)
Lemma gstep_calls w g ev (P : callT -> Prop) : (forall cl, ev = Start cl -> P cl) ->
  Forall P (fst g) -> Forall P (snd g) -> Forall P (fst (gstep w g ev)) /\ Forall P (snd (gstep w g ev)).
Proof using Type. clear dc_explicit dc_conforming truth.
  intros Hev. destruct g as [gp go]. cbn [fst snd]. intros Hp Ho.
  destruct ev as [[rk d|sd rk l0 l1 l2|sd rko l0 l1 l2]|i]; cbn [gstep].
  - split; assumption.
  - destruct (fst (get_key' (w_cache w) sd rk l0 l1 l2)); cbn [fst snd]; split; try assumption; apply Forall_snoc; auto.
  - destruct (fst (protection_gke kdf l1seed nokey (w_cache w) sd rko l0 l1 l2)); cbn [fst snd]; split; try assumption; apply Forall_snoc; auto.
  - destruct (nth_error gp i) as [cl|] eqn:E; cbn [fst snd]; [|split; assumption].
    split; [apply Forall_remove_nth; exact Hp|apply Forall_snoc; [exact Ho|exact (Forall_nth_error _ _ _ _ Hp E)]].
Qed.
Lemma completed_started evs : Forall (fun cl => In (Start cl) evs) (completed evs).
Proof using Type. clear dc_explicit dc_conforming truth.
  unfold completed.
  assert (H : forall (evs0 l : list eventT) w g, (forall ev, In ev l -> In ev evs0) ->
             Forall (fun cl => In (Start cl) evs0) (fst g) -> Forall (fun cl => In (Start cl) evs0) (snd g) ->
             Forall (fun cl => In (Start cl) evs0) (snd (snd (grun l w g)))).
  { intros evs0 l. induction l as [|ev evs' IH]; intros w g Hin Hp Ho; [exact Ho|]. cbn [grun].
    destruct (gstep_calls w g ev (fun cl => In (Start cl) evs0)) as [Hp' Ho']; [intros cl ->; apply Hin; left; reflexivity|exact Hp|exact Ho|].
    apply IH; [intros ev' Hev'; apply Hin; right; exact Hev'|exact Hp'|exact Ho']. }
  apply (H evs evs init_world ([], [])); [auto|constructor|constructor].
Qed.

(* ---- literally "the same as with a fresh cache" ---- *)
(* protect: a fresh cache always asks the DC, which answers for ITS current position; a cache that serves the call answers for
   the caller's clock position.  The two agree when the DC's clock is the caller's: *)
Definition dc_clock (sd : Z) (rko : option Z) (l0 l1 l2 : Z) : Prop :=
  let e := dc sd rko (-1) (-1) (-1) in
  c_pub e = false -> (forall rk, rko = Some rk -> c_rk e = rk) /\ c_l0 e = l0 /\ c_l1 e = l1 /\ c_l2 e = l2.

Definition same_as_fresh (cl : callT) (o : outcome (K := K)) : Prop :=
  match cl with
  | CLoad _ _ => True
  | CUnprotect sd rk l0 l1 l2 =>
    let o0 := fst (unprotect kdf l1seed nokey dc empty_cache sd rk l0 l1 l2) in
    o_pub o = false -> o_pub o0 = false -> o_key o = o_key o0 /\ o_pos o = o_pos o0
  | CProtect sd rko l0 l1 l2 =>
    let o0 := fst (protect kdf l1seed nokey dc empty_cache sd rko l0 l1 l2) in
    (o_rpcs o = 1 -> o = o0) /\
    (dc_clock sd rko l0 l1 l2 -> o_pub o = false -> o_pub o0 = false -> o_key o = o_key o0 /\ o_pos o = o_pos o0)
  end.

Lemma protect_fresh sd rko l0 l1 l2 :
  fst (protect kdf l1seed nokey dc empty_cache sd rko l0 l1 l2) = fst (protect_finish (empty_cache (RK := RK)) sd (dc sd rko (-1) (-1) (-1)) 1).
Proof using Type. clear dc_explicit dc_conforming truth.
  destruct rko as [rk|]; reflexivity.
Qed.

Lemma tied_same_as_fresh cl o : ev_adm (Start cl) -> tied cl o -> same_as_fresh cl o.
Proof using dc_conforming dc_explicit.
  destruct cl as [rk d|sd rk l0 l1 l2|sd rko l0 l1 l2]; cbn [same_as_fresh tied ev_adm]; [auto| |].
  - intros ((R0 & R1 & R2) & _) (Hpos & _ & Hk & _) Hp Hp0.
    destruct (unprotect_transparent empty_cache sd rk l0 l1 l2 Inv_empty R0 R1 R2) as (_ & Hpos0 & Hk0 & _).
    rewrite (Hk Hp), (Hk0 Hp0), Hpos, Hpos0. split; reflexivity.
  - intros _ H. rewrite protect_fresh. destruct H as [(Hr & Hp & Hpos & rk & -> & Hk)|(Hr & Ho & Hadm)].
    + split; [intros X; rewrite Hr in X; discriminate|]. intros Hclk _ Hp0.
      unfold protect_finish in *. cbn [fst o_pub o_key o_pos] in *. destruct (Hclk Hp0) as (Erk & E0 & E1 & E2).
      rewrite Hk, Hpos. destruct (dc_adm _ _ _ _ _ Hp0) as [_ Hk2]. rewrite Hk2, (Erk rk eq_refl), E0, E1, E2. split; reflexivity.
    + split; [intros _; exact Ho|]. intros _ _ _. rewrite Ho. split; reflexivity.
Qed.

(* for every admitted history and every call completed in it: the same key / position as the same call on a fresh cache *)
Theorem history_same_as_fresh evs : Forall ev_adm evs -> Forall2 same_as_fresh (completed evs) (w_out (run' evs)).
Proof using dc_conforming dc_explicit.
  intros HA. pose proof (outcomes_tied evs HA) as HT. pose proof (completed_started evs) as HS.
  revert HS. generalize (completed evs) (w_out (run' evs)) HT. intros l1 l2 H. induction H as [|cl o l1 l2 Hco H IH]; intros HS; [constructor|].
  inversion HS as [|? ? Hin HS']; subst. constructor; [|exact (IH HS')].
  apply tied_same_as_fresh; [|exact Hco]. rewrite Forall_forall in HA. exact (HA _ Hin).
Qed.

(* the sync protect call against a fresh cache (the protect analogue of unprotect_same_as_fresh) *)
Theorem protect_same_as_fresh c sd rko l0 l1 l2 : Inv c -> 0 <= l1 <= 31 -> 0 <= l2 <= 31 -> dc_clock sd rko l0 l1 l2 ->
  let o := fst (protect kdf l1seed nokey dc c sd rko l0 l1 l2) in
  let o0 := fst (protect kdf l1seed nokey dc empty_cache sd rko l0 l1 l2) in
  o_pub o = false -> o_pub o0 = false -> o_key o = o_key o0 /\ o_pos o = o_pos o0.
Proof using dc_conforming dc_explicit.
  intros HI R1 R2 Hclk o o0 Hp Hp0. subst o o0. rewrite protect_fresh in *. revert Hp. unfold protect.
  destruct (protection_gke_cases c sd rko l0 l1 l2)
    as [[-> P]|(rk & -> & [(c1 & G & P)|(e & c1 & G & [(er & D & P)|(k & D & P)])])]; rewrite P; cbv zeta; intros Hp.
  - split; reflexivity.
  - split; reflexivity.
  - exfalso. destruct (get_key_sound _ _ _ _ _ _ _ _ HI G) as (_ & _ & _ & _ & Hc & Hcov).
    rewrite (derive_conf sd e l1 l2 Hc R1 R2) in D by (apply Hcov; lia). discriminate.
  - rewrite (protect_hit_outcome _ _ _ _ _ _ _ _ _ 0 HI G D). unfold protect_finish in *. cbn [fst o_pub o_key o_pos] in *.
    destruct (Hclk Hp0) as (Erk & E0 & E1 & E2). destruct (dc_adm _ _ _ _ _ Hp0) as [_ Hk2].
    rewrite Hk2, (Erk rk eq_refl), E0, E1, E2. split; reflexivity.
Qed.

End C10.

(* =====================================================================================
   The hypotheses on the domain controller are satisfiable, for every key type and KDF:
   the reference DC (the one the correspondence harness runs, Model/Units_cache.v udc). *)
Section RefDC.
Context {K RK : Type}.
Context (kdf : Z -> Z -> K -> Z -> Z -> K) (l1seed : RK -> Z -> Z -> Z -> K) (nokey : K) (truth : Z -> RK).
Context (dflt n0 n1 n2 : Z) (authorised : Z -> bool).   (* default root key id, the DC's clock, who may have private keys *)

Definition ref_dc (sd : Z) (rko : option Z) (l0 l1 l2 : Z) : cenv (K := K) :=
  let rk := match rko with Some r => r | None => dflt end in
  let explicit := (0 <=? l0) && ((0 <=? l1) && (l1 <=? 31)) && ((0 <=? l2) && (l2 <=? 31)) in
  let p0 := if explicit then l0 else n0 in
  let p1 := if explicit then l1 else n1 in
  let p2 := if explicit then l2 else n2 in
  let tp := top l1seed truth rk sd p0 in
  {| c_rk := rk; c_l0 := p0; c_l1 := p1; c_l2 := p2; c_pub := negb (authorised sd);
     c_k1 := if p2 =? 31 then K1 (kdf rk p0) tp p1 else if 0 <? p1 then K1 (kdf rk p0) tp (p1 - 1) else nokey;
     c_k2 := K2 (kdf rk p0) tp p1 p2 |}.

Lemma ref_dc_explicit : dc_explicit_ok ref_dc.
Proof.
  intros sd rk l0 l1 l2 R0 R1 R2. unfold ref_dc. cbv zeta. cbn [c_rk c_l0 c_l1 c_l2].
  replace ((0 <=? l0) && ((0 <=? l1) && (l1 <=? 31)) && ((0 <=? l2) && (l2 <=? 31))) with true by lia. auto.
Qed.

Lemma ref_dc_conforming : 0 <= n1 <= 31 -> 0 <= n2 <= 31 -> dc_conforming_ok kdf l1seed ref_dc truth.
Proof.
  intros N1 N2 sd rko l0 l1 l2. unfold ref_dc. cbv zeta. intros _.
  set (rk := match rko with Some r => r | None => dflt end).
  set (ex := (0 <=? l0) && ((0 <=? l1) && (l1 <=? 31)) && ((0 <=? l2) && (l2 <=? 31))).
  set (p0 := if ex then l0 else n0). set (p1 := if ex then l1 else n1). set (p2 := if ex then l2 else n2).
  assert (P1 : 0 <= p1 <= 31) by (subst p1 ex; destruct ((0 <=? l0) && ((0 <=? l1) && (l1 <=? 31)) && ((0 <=? l2) && (l2 <=? 31))) eqn:E; lia).
  assert (P2 : 0 <= p2 <= 31) by (subst p2 ex; destruct ((0 <=? l0) && ((0 <=? l1) && (l1 <=? 31)) && ((0 <=? l2) && (l2 <=? 31))) eqn:E; lia).
  clearbody p0 p1 p2 rk. cbn [c_rk c_l0 c_l1 c_l2 c_k2].
  split; [exact P1|]. split; [exact P2|]. split; [|reflexivity].
  unfold conforming, cenv_env. cbn [e_l1 e_l2 e_l1key e_l2key c_l1 c_l2 c_k1 c_k2].
  split; [exact P1|]. split; [exact P2|]. split.
  - intros E. replace (p2 =? 31) with true by lia. reflexivity.
  - intros E. split; [reflexivity|]. intros Hp. replace (p2 =? 31) with false by lia. replace (0 <? p1) with true by lia. reflexivity.
Qed.
End RefDC.

(* A toy instance (K := Z, a collision-poor arithmetic "KDF") and a concrete interleaved history. *)
Module Toy.
Definition tkdf (rk l0 k a b : Z) : Z := 3 * k + 5 * a + 7 * b + 11 * rk + 13 * l0 + 1.
Definition tl1seed (d rk sd l0 : Z) : Z := 17 * d + 19 * rk + 23 * sd + 29 * l0.
Definition tnokey : Z := 0.
Definition ttruth (rk : Z) : Z := 1000 + rk.
Definition tdc := ref_dc tkdf tl1seed tnokey ttruth 1 361 7 5 (fun _ => true).
Definition tkey := key_at tkdf tl1seed ttruth.
Definition trun := run_events tkdf tl1seed tnokey tdc.

Lemma tdc_explicit : dc_explicit_ok tdc.
Proof. apply ref_dc_explicit. Qed.
Lemma tdc_conforming : dc_conforming_ok tkdf tl1seed tdc ttruth.
Proof. apply ref_dc_conforming; lia. Qed.

(* two unprotects of the same triple start before either RPC returns, the replies arrive in the
   reverse order; then a covered request, a root key load, a request beyond the cached envelope
   (served from the root key), a protect naming the root key, a protect via the DC *)
Definition history : list (event (RK := Z)) :=
  [Start (CUnprotect 0 1 361 3 4); Start (CUnprotect 0 1 361 3 2); Finish 1; Finish 0;
   Start (CUnprotect 0 1 361 2 9); Start (CLoad 1 (ttruth 1)); Start (CUnprotect 0 1 361 5 0);
   Start (CProtect 0 (Some 1) 361 7 5); Start (CProtect 0 None 361 7 5); Finish 0].
Lemma history_adm : Forall (ev_adm tl1seed ttruth) history.
Proof. repeat constructor; cbn; try lia. Qed.
Lemma history_outcomes :
  map (fun o => (o_key o, o_pos o, o_rpcs o)) (w_out (trun history)) =
  [(Ok (tkey 1 0 361 3 2), (361, 3, 2), 1); (Ok (tkey 1 0 361 3 4), (361, 3, 4), 1);
   (Ok (tkey 1 0 361 2 9), (361, 2, 9), 0); (Ok (tkey 1 0 361 5 0), (361, 5, 0), 0);
   (Ok (tkey 1 0 361 7 5), (361, 7, 5), 0); (Ok (tkey 1 0 361 7 5), (361, 7, 5), 1)].
Proof. vm_compute. reflexivity. Qed.
(* the calls in completion order: the second unprotect completes before the first (outcomes_tied pairs them with the outcomes above) *)
Lemma history_completed :
  completed tkdf tl1seed tnokey tdc history =
  [CUnprotect 0 1 361 3 2; CUnprotect 0 1 361 3 4; CUnprotect 0 1 361 2 9; CUnprotect 0 1 361 5 0;
   CProtect 0 (Some 1) 361 7 5; CProtect 0 None 361 7 5].
Proof. vm_compute. reflexivity. Qed.
(* the toy DC's clock is the caller's for the protect calls of the history *)
Lemma history_dc_clock : dc_clock tdc 0 (Some 1) 361 7 5 /\ dc_clock tdc 0 None 361 7 5.
Proof. split; unfold dc_clock; cbv zeta; intros _; (split; [intros rk E; try discriminate E; injection E as <-; vm_compute; reflexivity|vm_compute; repeat split; reflexivity]). Qed.

(* the envelope _get_protection_gke_from_cache builds is not a conforming envelope *)
Lemma prot_env_not_conforming : ~ conf tkdf tl1seed ttruth 0 (prot_env tnokey 1 361 3 4 false (tkey 1 0 361 3 4)).
Proof. apply prot_env_not_conf; [lia|lia|]. vm_compute. discriminate. Qed.

(* "the same as with a fresh cache" needs both runs to obtain private key material: a cache that holds the
   root key serves a caller the DC refuses (public key only) - that is what loading a root key is for *)
Definition tdc_refuse := ref_dc tkdf tl1seed tnokey ttruth 1 361 7 5 (fun _ => false).
Lemma fresh_differs_when_dc_refuses :
  o_key (fst (unprotect tkdf tl1seed tnokey tdc_refuse (load_key empty_cache 1 (ttruth 1)) 0 1 361 3 4)) = Ok (tkey 1 0 361 3 4) /\
  o_key (fst (unprotect tkdf tl1seed tnokey tdc_refuse empty_cache 0 1 361 3 4)) = Raise ValueError.
Proof. vm_compute. split; reflexivity. Qed.

(* the hypothesis on loads matters, with or without a cache: a wrong root key gives a wrong key *)
Lemma wrong_root_key :
  o_key (fst (unprotect tkdf tl1seed tnokey tdc (load_key empty_cache 1 777) 0 1 361 3 4)) <> Ok (tkey 1 0 361 3 4).
Proof. vm_compute. discriminate. Qed.
End Toy.

(* Why the last clause of dc_conforming_ok is there: MS-GKDI lets the DC leave the L2 key field out at
   L2 = 31.  Such a reply is still `conforming`, but ncrypt_protect_secret takes the key from that
   field: it would protect with b"" instead of the chain key (candidate defect D13, see C17). *)
Module ToyD13.
Import Toy.
Definition dc13 (sd : Z) (rko : option Z) (l0 l1 l2 : Z) : cenv (K := Z) :=
  let e := ref_dc tkdf tl1seed tnokey ttruth 1 361 7 31 (fun _ => true) sd rko l0 l1 l2 in
  if c_l2 e =? 31
  then {| c_rk := c_rk e; c_l0 := c_l0 e; c_l1 := c_l1 e; c_l2 := c_l2 e; c_pub := c_pub e; c_k1 := c_k1 e; c_k2 := tnokey |}
  else e.
Lemma dc13_still_conforming sd rko l0 l1 l2 : let e := dc13 sd rko l0 l1 l2 in
  conforming (tkdf (c_rk e) (c_l0 e)) (top tl1seed ttruth (c_rk e) sd (c_l0 e)) (cenv_env e).
Proof.
  cbv zeta. unfold dc13.
  destruct (ref_dc_conforming tkdf tl1seed tnokey ttruth 1 361 7 31 (fun _ => true) ltac:(lia) ltac:(lia) sd rko l0 l1 l2 eq_refl)
    as (_ & _ & (A & B & C & D) & _).
  set (e := ref_dc tkdf tl1seed tnokey ttruth 1 361 7 31 (fun _ => true) sd rko l0 l1 l2) in *. clearbody e.
  destruct (c_l2 e =? 31) eqn:E; [|exact (conj A (conj B (conj C D)))].
  unfold conforming, cenv_env in *. cbn [e_l1 e_l2 e_l1key e_l2key c_rk c_l0 c_l1 c_l2 c_k1 c_k2] in *.
  split; [exact A|]. split; [exact B|]. split; [exact C|]. intros N. exfalso. lia.
Qed.
Lemma l2_key_assumption_needed :
  let o := fst (protect tkdf tl1seed tnokey dc13 empty_cache 0 None 361 7 31) in
  o_pub o = false /\ o_pos o = (361, 7, 31) /\ o_key o = Ok tnokey /\ tnokey <> tkey 1 0 361 7 31.
Proof. vm_compute. repeat split. discriminate. Qed.
End ToyD13.

(* the async public functions are the sync ones up to await and the async helpers *)
Lemma public_twins : twin_ncrypt_unprotect_secret = true /\ twin_ncrypt_protect_secret = true.
Proof. split; reflexivity. Qed.
