(* Tie theorems, concrete model (Model/Client.v): the regenerated bodies of ncrypt_unprotect_secret / ncrypt_protect_secret and of
   their async twins (gen/F_cache.v), run in the world Flow/World_cache.v (section Concrete), compute the model's
   unprotect_offline / protect_offline when no domain controller is reachable, and in general the same pipeline with the
   envelope the DC oracle returns on a cache miss. *)
From V Require Import Prelude.Base Prelude.PyAst Prelude.PyAstMut Prelude.PyWorld gen.Kernels gen.K_cache gen.F_cache.
From V Require Import Model.Types Model.Crypto Model.KeyId Model.Gkdi Model.Kek Model.SecDesc Model.Blob Model.CryptoWrap Model.Client.
From V Require Import Flow.World_cache.
Local Open Scope string_scope.
Local Open Scope list_scope.
Local Open Scope Z_scope.

Arguments len : simpl never.
Arguments blob_unpack : simpl never.
Arguments get_target_sd : simpl never.
Arguments cc_get_key : simpl never.
Arguments cc_store_key : simpl never.
Arguments decrypt_blob : simpl never.
Arguments encrypt_blob : simpl never.
Arguments protection_gke_from_cache : simpl never.
Arguments gke_is_public_key : simpl never.

Definition lift (r : res bytes) : res (pv obj) := let* b := r in Ok (VB b).
(* value and final cache of a public call, as the model returns them.  When the call raises both sides of a tie collapse to the
   error: the cache after a FAILING call is tied separately, in Proofs/Flow_cache_prefix.v *)
Definition lift2 (rc : res bytes * ccache) : res (pv obj * pv obj) := let* b := fst rc in Ok (VB b, VO (OCache (snd rc))).
(* of PyAstMut.run_mut's (result, final values of the parameters): the result and the final value of parameter number i *)
Definition value_and_param (i : nat) (r : res (pv obj * list (pv obj))) : res (pv obj * pv obj) :=
  let* (v, ps) := r in Ok (v, nth i ps VN).
Definition cache_or_new (co : option ccache) : ccache := match co with Some cc => cc | None => cc_empty end.

Section Ties.
Context (c : Crypto) (rnd_cek rnd_iv rnd_kek : bytes) (time_ns : Z).
Context (dns : list (pv obj) -> res pystr) (getkey : list (pv obj) -> res envelope).
Notation Wc := (W c rnd_cek rnd_iv rnd_kek time_ns dns getkey).
Notation MWc := (MW c rnd_cek rnd_iv rnd_kek time_ns dns getkey).

(* `if not server: srv = lookup_dc(domain); server = srv.target` *)
Definition server_of (server : option pystr) (domain : pv obj) : res (pv obj) :=
  match server with
  | Some (x :: r) => Ok (VS (x :: r))
  | _ => let* t := dns [domain] in Ok (VS t)
  end.

(* the envelope a public call works with after the cache lookup returned `o`: the cached one, or the DC's reply to
   _sync_get_key(server, target_sd, root_key_id, l0, l1, l2, username=, password=, auth_protocol=) *)
Definition envelope_for (o : option envelope) (server : option pystr) (domain : pv obj) (rest : list (pv obj)) : res envelope :=
  match o with
  | Some rk => Ok rk
  | None => let* srv := server_of server domain in getkey (srv :: rest)
  end.

(* ncrypt_unprotect_secret with the network oracles: Client.unprotect_offline with the miss branch filled in *)
Definition unprotect_online (cache : ccache) (data : bytes) (server : option pystr) (u p a : pv obj) : res bytes * ccache :=
  match blob_unpack data with
  | Raise e => (Raise e, cache)
  | Ok b =>
    match get_target_sd (b_sid b) with
    | Raise e => (Raise e, cache)
    | Ok target_sd =>
      let kid := b_key_identifier b in
      match cc_get_key c cache target_sd (kid_rkid kid) (kid_l0 kid) (kid_l1 kid) (kid_l2 kid) with
      | Raise e => (Raise e, cache)
      | Ok (o, cache1) =>
        match envelope_for o server (VS (kid_domain kid))
                [VB target_sd; VB (kid_rkid kid); VI (kid_l0 kid); VI (kid_l1 kid); VI (kid_l2 kid); u; p; a] with
        | Raise e => (Raise e, cache1)
        | Ok rk =>
          let cache2 := if gke_is_public_key rk then cache1 else cc_store_key cache1 target_sd rk in
          (decrypt_blob c b rk, cache2)
        end
      end
    end
  end.

(* ncrypt_protect_secret with the network oracles: Client.protect_offline with the miss branch filled in
   (GetKey is asked for L0 = L1 = L2 = -1: "the current key") *)
Definition protect_online (cache : ccache) (data : bytes) (sid : pystr) (rkid : option bytes) (server : option pystr)
    (dom u p a : pv obj) : res bytes * ccache :=
  match get_target_sd sid with
  | Raise e => (Raise e, cache)
  | Ok sd =>
    match protection_gke_from_cache c cache rkid sd time_ns with
    | Raise e => (Raise e, protection_lookup_cache c cache rkid sd time_ns)
    | Ok (o, cache1) =>
      match envelope_for o server dom [VB sd; vbytes_opt rkid; VI (-1); VI (-1); VI (-1); u; p; a] with
      | Raise e => (Raise e, cache1)
      | Ok rk =>
        let cache2 := if gke_is_public_key rk then cache1 else cc_store_key cache1 sd rk in
        (encrypt_blob c rnd_cek rnd_iv rnd_kek data rk sid, cache2)
      end
    end
  end.

Lemma truthy_vs_cons (x : Z) (r : pystr) : negb (len (x :: r) =? 0) = true.
Proof. rewrite len_cons. pose proof (len_nonneg r). lia. Qed.
Lemma bytes_opt_of_vbytes_opt o : bytes_opt_of (vbytes_opt o) = Some o.
Proof. destruct o; reflexivity. Qed.

Ltac miss_path server fin :=
  destruct server as [[|?x ?s]|]; cbn; try rewrite truthy_vs_cons; try change (len (@nil Z)) with 0; cbn;
  try (destruct (dns _) as [?t|?e]; cbn; [|reflexivity]);
  (destruct (getkey _) as [?rk|?e]; cbn; [fin|reflexivity]).

Ltac fin_dec b :=
  idtac; match goal with rk : envelope |- _ => destruct (gke_is_public_key rk); cbn; destruct (decrypt_blob c b rk); reflexivity end.

Ltac unprotect_script b data co server :=
  destruct (blob_unpack data) as [b|?e]; cbn; [|reflexivity];
  destruct (get_target_sd (b_sid b)) as [?sd|?e]; cbn; [|reflexivity];
  destruct co as [?cc|]; cbn;
  (match goal with |- context [cc_get_key c ?cc0 ?s ?r ?x ?y ?z] => destruct (cc_get_key c cc0 s r x y z) as [[[?rk|] ?cache1]|?e] end; cbn;
   [ fin_dec b | miss_path server ltac:(fin_dec b) | reflexivity ]).

(* value *)
Lemma flow_unprotect_online fuel data server u p a co :
  PyAst.run Wc fuel k_flow_ncrypt_unprotect_secret [VB data; vstr_opt server; u; p; a; vcache_opt co]
  = lift (fst (unprotect_online (cache_or_new co) data server u p a)).
Proof. unfold unprotect_online, lift, envelope_for, server_of, cache_or_new; cbn. unprotect_script b data co server. Qed.

Lemma flow_async_unprotect_online fuel data server u p a co :
  PyAst.run Wc fuel k_flow_async_ncrypt_unprotect_secret [VB data; vstr_opt server; u; p; a; vcache_opt co]
  = lift (fst (unprotect_online (cache_or_new co) data server u p a)).
Proof. unfold unprotect_online, lift, envelope_for, server_of, cache_or_new; cbn. unprotect_script b data co server. Qed.

(* value and the cache afterwards (parameter 5) *)
Lemma flow_unprotect_online_state fuel data server u p a co :
  value_and_param 5 (run_mut MWc fuel k_flow_ncrypt_unprotect_secret [VB data; vstr_opt server; u; p; a; vcache_opt co])
  = lift2 (unprotect_online (cache_or_new co) data server u p a).
Proof. unfold unprotect_online, lift2, value_and_param, envelope_for, server_of, cache_or_new; cbn. unprotect_script b data co server. Qed.

Lemma flow_async_unprotect_online_state fuel data server u p a co :
  value_and_param 5 (run_mut MWc fuel k_flow_async_ncrypt_unprotect_secret [VB data; vstr_opt server; u; p; a; vcache_opt co])
  = lift2 (unprotect_online (cache_or_new co) data server u p a).
Proof. unfold unprotect_online, lift2, value_and_param, envelope_for, server_of, cache_or_new; cbn. unprotect_script b data co server. Qed.

Ltac fin_enc data sid :=
  idtac; match goal with rk : envelope |- _ =>
    destruct (gke_is_public_key rk); cbn; destruct (encrypt_blob c rnd_cek rnd_iv rnd_kek data rk sid); reflexivity end.

Ltac protect_script data sid rkid co server :=
  destruct (get_target_sd sid) as [?sd|?e]; cbn; [|reflexivity];
  destruct co as [?cc|]; cbn; rewrite bytes_opt_of_vbytes_opt; cbn;
  (match goal with |- context [protection_gke_from_cache c ?cc0 ?r ?s ?t] =>
     destruct (protection_gke_from_cache c cc0 r s t) as [[[?rk|] ?cache1]|?e] end; cbn;
   [ fin_enc data sid | miss_path server ltac:(fin_enc data sid) | reflexivity ]).

Lemma flow_protect_online fuel data sid rkid server dom u p a co :
  PyAst.run Wc fuel k_flow_ncrypt_protect_secret [VB data; VS sid; vbytes_opt rkid; vstr_opt server; dom; u; p; a; vcache_opt co]
  = lift (fst (protect_online (cache_or_new co) data sid rkid server dom u p a)).
Proof. unfold protect_online, lift, envelope_for, server_of, cache_or_new; cbn. protect_script data sid rkid co server. Qed.

Lemma flow_async_protect_online fuel data sid rkid server dom u p a co :
  PyAst.run Wc fuel k_flow_async_ncrypt_protect_secret [VB data; VS sid; vbytes_opt rkid; vstr_opt server; dom; u; p; a; vcache_opt co]
  = lift (fst (protect_online (cache_or_new co) data sid rkid server dom u p a)).
Proof. unfold protect_online, lift, envelope_for, server_of, cache_or_new; cbn. protect_script data sid rkid co server. Qed.

(* value and the cache afterwards (parameter 8) *)
Lemma flow_protect_online_state fuel data sid rkid server dom u p a co :
  value_and_param 8 (run_mut MWc fuel k_flow_ncrypt_protect_secret [VB data; VS sid; vbytes_opt rkid; vstr_opt server; dom; u; p; a; vcache_opt co])
  = lift2 (protect_online (cache_or_new co) data sid rkid server dom u p a).
Proof. unfold protect_online, lift2, value_and_param, envelope_for, server_of, cache_or_new; cbn. protect_script data sid rkid co server. Qed.

Lemma flow_async_protect_online_state fuel data sid rkid server dom u p a co :
  value_and_param 8 (run_mut MWc fuel k_flow_async_ncrypt_protect_secret [VB data; VS sid; vbytes_opt rkid; vstr_opt server; dom; u; p; a; vcache_opt co])
  = lift2 (protect_online (cache_or_new co) data sid rkid server dom u p a).
Proof. unfold protect_online, lift2, value_and_param, envelope_for, server_of, cache_or_new; cbn. protect_script data sid rkid co server. Qed.
End Ties.

(* ---- no domain controller reachable: both network callees raise (the model's NeedNetwork) ---- *)
Definition no_dns : list (pv obj) -> res pystr := fun _ => Raise NeedNetwork.
Definition no_dc : list (pv obj) -> res envelope := fun _ => Raise NeedNetwork.

Lemma unprotect_online_offline c cache data server u p a :
  unprotect_online c no_dns no_dc cache data server u p a = unprotect_offline c cache data.
Proof.
  unfold unprotect_online, unprotect_offline, envelope_for, server_of, no_dns, no_dc.
  destruct (blob_unpack data) as [b|e]; [|reflexivity].
  destruct (get_target_sd (b_sid b)) as [sd|e]; [|reflexivity].
  destruct (cc_get_key _ _ _ _ _ _ _) as [[[rk|] cache1]|e]; try reflexivity.
  destruct server as [[|x s]|]; reflexivity.
Qed.

Lemma protect_online_offline c r1 r2 r3 ns cache data sid rkid server dom u p a :
  protect_online c r1 r2 r3 ns no_dns no_dc cache data sid rkid server dom u p a = protect_offline c cache r1 r2 r3 data sid rkid ns.
Proof.
  unfold protect_online, protect_offline, envelope_for, server_of, no_dns, no_dc.
  destruct (get_target_sd sid) as [sd|e]; [|reflexivity].
  destruct (protection_gke_from_cache _ _ _ _ _) as [[[rk|] cache1]|e]; try reflexivity.
  destruct server as [[|x s]|]; reflexivity.
Qed.

(* the regenerated public functions, offline, ARE the model's unprotect_offline / protect_offline: value and cache afterwards *)
Lemma flow_unprotect_offline c r1 r2 r3 ns fuel data server u p a co :
  value_and_param 5 (run_mut (MW c r1 r2 r3 ns no_dns no_dc) fuel k_flow_ncrypt_unprotect_secret [VB data; vstr_opt server; u; p; a; vcache_opt co])
  = lift2 (unprotect_offline c (cache_or_new co) data).
Proof. rewrite flow_unprotect_online_state, unprotect_online_offline. reflexivity. Qed.

Lemma flow_async_unprotect_offline c r1 r2 r3 ns fuel data server u p a co :
  value_and_param 5 (run_mut (MW c r1 r2 r3 ns no_dns no_dc) fuel k_flow_async_ncrypt_unprotect_secret [VB data; vstr_opt server; u; p; a; vcache_opt co])
  = lift2 (unprotect_offline c (cache_or_new co) data).
Proof. rewrite flow_async_unprotect_online_state, unprotect_online_offline. reflexivity. Qed.

Lemma flow_protect_offline c r1 r2 r3 ns fuel data sid rkid server dom u p a co :
  value_and_param 8 (run_mut (MW c r1 r2 r3 ns no_dns no_dc) fuel k_flow_ncrypt_protect_secret
                       [VB data; VS sid; vbytes_opt rkid; vstr_opt server; dom; u; p; a; vcache_opt co])
  = lift2 (protect_offline c (cache_or_new co) r1 r2 r3 data sid rkid ns).
Proof. rewrite flow_protect_online_state, protect_online_offline. reflexivity. Qed.

Lemma flow_async_protect_offline c r1 r2 r3 ns fuel data sid rkid server dom u p a co :
  value_and_param 8 (run_mut (MW c r1 r2 r3 ns no_dns no_dc) fuel k_flow_async_ncrypt_protect_secret
                       [VB data; VS sid; vbytes_opt rkid; vstr_opt server; dom; u; p; a; vcache_opt co])
  = lift2 (protect_offline c (cache_or_new co) r1 r2 r3 data sid rkid ns).
Proof. rewrite flow_async_protect_online_state, protect_online_offline. reflexivity. Qed.
