(* The cache after a FAILING public call, abstract model (Model/Cache.v): Proofs/Flow_cache_abs.v ties value and final cache of a
   call that returns (alift collapses when o_key is an error).  Here the regenerated bodies are run without their final
   `return _decrypt_blob(..)` / `return _encrypt_blob(..)` (PyAstMut.exec_block on removelast of the statement list): the local
   `cache` is then snd (Cache.unprotect ..) / snd (Cache.protect ..) whatever o_key turns out to be - in particular when the DC's
   envelope has been stored and its use then fails.  For protect the one remaining gap is compute_l2_key raising INSIDE
   _get_protection_gke_from_cache (protection_gke = Some (Raise x)): the callee raises, the environment is lost, and the model's
   cache there (the one Cache.get_key left) is not tied by a flow. *)
From V Require Import Prelude.Base Prelude.PyAst Prelude.PyAstMut Prelude.PyWorld gen.Kernels gen.K_cache gen.F_cache.
From V Require Import Model.Cache Flow.World_cache Proofs.Flow_cache_abs.
Local Open Scope string_scope.
Local Open Scope list_scope.
Local Open Scope Z_scope.

Arguments len : simpl never.
Arguments get_key : simpl never.
Arguments store_key : simpl never.
Arguments derive : simpl never.
Arguments protection_gke : simpl never.

Lemma truthy_zs_cons (x : Z) (r : list Z) : negb (len (x :: r) =? 0) = true.
Proof. rewrite len_cons. pose proof (len_nonneg r). lia. Qed.

Section Ties.
Context {K RK : Type}.
Context (kdf : Z -> Z -> K -> Z -> Z -> K) (l1seed : RK -> Z -> Z -> Z -> K) (nokey : K).
Context (dc : Z -> option Z -> Z -> Z -> Z -> cenv (K := K)).
Context (now0 now1 now2 : Z).
Notation V := (pv (aobj (K := K) (RK := RK))).
Notation AMWc := (AMW (RK := RK) kdf l1seed nokey dc now0 now1 now2).

Definition acache_local (r : res (PyAstMut.outcome (V := V))) : res (option V) :=
  let* o := r in match o with PyAstMut.Next env => Ok (PyAstMut.lookup "cache" env) | _ => Ok None end.

Definition aunprotect_env (sd rk l0 l1 l2 : Z) (server : option (list Z)) (u p a : V) (co : option (cache (K := K) (RK := RK)))
    : PyAstMut.penv (V := V) :=
  [("data", VO (AData sd rk l0 l1 l2)); ("server", vs_opt server); ("username", u); ("password", p); ("auth_protocol", a);
   ("cache", vacache_opt co)].
Definition aprotect_env (d : V) (sd : Z) (rko : option Z) (server : option (list Z)) (dom u p a : V)
    (co : option (cache (K := K) (RK := RK))) : PyAstMut.penv (V := V) :=
  [("data", d); ("protection_descriptor", VI sd); ("root_key_identifier", vz_opt rko); ("server", vs_opt server);
   ("domain_name", dom); ("username", u); ("password", p); ("auth_protocol", a); ("cache", vacache_opt co)].

Ltac server_cases server :=
  destruct server as [[|?x ?s]|]; cbn; try rewrite truthy_zs_cons; try change (len (@nil Z)) with 0; cbn.
Ltac fin_pub :=
  idtac; match goal with |- context [c_pub ?e] => let E := fresh "E" in destruct (c_pub e) eqn:E; cbn; rewrite ?E; cbn; reflexivity end.

Ltac unprotect_script co server :=
  unfold acache_local, aunprotect_env, unprotect, unprotect_finish, acache_or_new; cbn;
  destruct co as [?ca|]; cbn;
  (match goal with |- context [get_key l1seed nokey ?ca0 ?sd ?rk ?x ?y ?z] =>
     destruct (get_key l1seed nokey ca0 sd rk x y z) as [[?e|] ?c1] end; cbn;
   [ fin_pub | server_cases server; fin_pub ]).

Lemma flow_unprotect_abs_cache fuel sd rk l0 l1 l2 server u p a co :
  acache_local (PyAstMut.exec_block AMWc fuel (removelast (pf_body k_flow_ncrypt_unprotect_secret)) (aunprotect_env sd rk l0 l1 l2 server u p a co))
  = Ok (Some (VO (ACache (snd (unprotect kdf l1seed nokey dc (acache_or_new co) sd rk l0 l1 l2))))).
Proof. unprotect_script co server. Qed.
Lemma flow_async_unprotect_abs_cache fuel sd rk l0 l1 l2 server u p a co :
  acache_local (PyAstMut.exec_block AMWc fuel (removelast (pf_body k_flow_async_ncrypt_unprotect_secret)) (aunprotect_env sd rk l0 l1 l2 server u p a co))
  = Ok (Some (VO (ACache (snd (unprotect kdf l1seed nokey dc (acache_or_new co) sd rk l0 l1 l2))))).
Proof. unprotect_script co server. Qed.

Definition aprotect_cache (ca : cache (K := K) (RK := RK)) (sd : Z) (rko : option Z) : res (option V) :=
  match fst (protection_gke kdf l1seed nokey ca sd rko now0 now1 now2) with
  | Some (Raise x) => Raise x
  | _ => Ok (Some (VO (ACache (snd (protect kdf l1seed nokey dc ca sd rko now0 now1 now2)))))
  end.

Ltac protect_script co rko server :=
  unfold acache_local, aprotect_env, aprotect_cache, protect, protect_finish, acache_or_new; cbn;
  destruct co as [?ca|]; destruct rko as [?r|]; cbn;
  (match goal with |- context [protection_gke kdf l1seed nokey ?ca0 ?sd ?rko ?x ?y ?z] =>
     destruct (protection_gke kdf l1seed nokey ca0 sd rko x y z) as [[[?e|?x]|] ?c1] end; cbn;
   [ fin_pub | reflexivity | server_cases server; fin_pub ]).

Lemma flow_protect_abs_cache fuel d sd rko server dom u p a co :
  acache_local (PyAstMut.exec_block AMWc fuel (removelast (pf_body k_flow_ncrypt_protect_secret)) (aprotect_env d sd rko server dom u p a co))
  = aprotect_cache (acache_or_new co) sd rko.
Proof. protect_script co rko server. Qed.
Lemma flow_async_protect_abs_cache fuel d sd rko server dom u p a co :
  acache_local (PyAstMut.exec_block AMWc fuel (removelast (pf_body k_flow_async_ncrypt_protect_secret)) (aprotect_env d sd rko server dom u p a co))
  = aprotect_cache (acache_or_new co) sd rko.
Proof. protect_script co rko server. Qed.
End Ties.
