(* Tie theorems (the KDF wrappers of _crypto.py: kdf, kdf_concat): the regenerated syntax (gen/F_e2e.v), run in the world
   Flow/World_e2e.v, computes exactly the `kdf` / `concat_kdf` fields of the Crypto record the model (Model/Chain.v, Model/Kek.v)
   calls.  The world gives KBKDFHMAC a meaning only for the configuration the model's primitive stands for (counter mode,
   rlen = llen = 4, counter before the fixed input, no explicit fixed input): another constant in the source breaks the tie. *)
From V Require Import Prelude.Base Prelude.PyAst Prelude.PyWorld gen.F_e2e.
From V Require Import Model.Types Model.Crypto Flow.World_e2e.
Local Open Scope string_scope.
Local Open Scope list_scope.
Local Open Scope Z_scope.

Local Arguments len : simpl never.

Lemma flow_kdf c fuel h secret label context length :
  run (W c) fuel k_flow_kdf [VO (OHash h); VB secret; VB label; VB context; VI length]
  = Ok (VB (kdf c h secret label context length)).
Proof. reflexivity. Qed.

Lemma flow_kdf_concat c fuel h secret algorithm_id party_uinfo party_vinfo length :
  run (W c) fuel k_flow_kdf_concat [VO (OHash h); VB secret; VB algorithm_id; VB party_uinfo; VB party_vinfo; VI length]
  = Ok (VB (concat_kdf c h secret (algorithm_id ++ party_uinfo ++ party_vinfo) length)).
Proof. reflexivity. Qed.
