(* Generic lemmas and tactics for the fixed-layout codecs of area rpc. *)
From V Require Import Prelude.Base Prelude.PyInt Prelude.PySlice Model.Pdu Model.RpcLoop.

Lemma len_repeat {A} (x : A) n : len (repeat x n) = Z.of_nat n.
Proof. unfold len. now rewrite repeat_length. Qed.
Lemma len_map {A B} (f : A -> B) l : len (map f l) = len l.
Proof. unfold len. now rewrite map_length. Qed.
Lemma len_concat_app {A} (fs : list (list A)) rest : concat fs ++ rest = concat (fs ++ [rest]).
Proof. rewrite concat_app. cbn [concat]. now rewrite app_nil_r. Qed.

Lemma slice_None_lo {A} hi (l : list A) : slice None hi l = slice (Some 0) hi l.
Proof. unfold slice, norm. pose proof (len_nonneg l). cbn [Z.ltb Z.compare]. now rewrite Z.min_l by lia. Qed.
Lemma slice_0_all {A} (l : list A) : slice (Some 0) None l = l.
Proof. unfold slice, norm. pose proof (len_nonneg l). cbn [Z.ltb Z.compare]. rewrite Z.min_l by lia.
  cbn [Z.to_nat skipn]. rewrite Z.sub_0_r. unfold len. rewrite Nat2Z.id. apply firstn_all. Qed.
Lemma slice_full {A} (l : list A) n : n = len l -> slice (Some 0) (Some n) l = l.
Proof. intros ->. rewrite <- (app_nil_r l) at 2. rewrite slice_app_l. reflexivity. Qed.
Lemma slice_ge_all {A} (l : list A) n : len l <= n -> slice (Some 0) (Some n) l = l.
Proof. intros H. unfold slice, norm. pose proof (len_nonneg l). destruct (n <? 0) eqn:?; try lia.
  cbn [Z.ltb Z.compare]. rewrite (Z.min_l 0) by lia. rewrite (Z.min_r n) by lia. cbn [Z.to_nat skipn]. rewrite Z.sub_0_r.
  unfold len. rewrite Nat2Z.id. apply firstn_all. Qed.
Lemma slice_empty {A} lo hi : slice lo hi (@nil A) = [].
Proof. unfold slice. rewrite skipn_nil. apply firstn_nil. Qed.

(* slices relative to a prefix of known length *)
Lemma slice_skip {A} (a b : list A) lo hi : len a <= lo -> len a <= hi ->
  slice (Some lo) (Some hi) (a ++ b) = slice (Some (lo - len a)) (Some (hi - len a)) b.
Proof.
  intros H1 H2. unfold slice, norm. rewrite len_app. pose proof (len_nonneg a). pose proof (len_nonneg b).
  destruct (lo <? 0) eqn:?; try lia. destruct (hi <? 0) eqn:?; try lia.
  destruct (lo - len a <? 0) eqn:?; try lia. destruct (hi - len a <? 0) eqn:?; try lia.
  replace (Z.to_nat (Z.min lo (len a + len b))) with (length a + Z.to_nat (Z.min (lo - len a) (len b)))%nat by (unfold len in *; lia).
  rewrite skipn_app, skipn_all2 by lia. cbn [app].
  replace (length a + Z.to_nat (Z.min (lo - len a) (len b)) - length a)%nat with (Z.to_nat (Z.min (lo - len a) (len b))) by lia.
  f_equal. lia.
Qed.
Lemma slice_skip_none {A} (a b : list A) lo : len a <= lo ->
  slice (Some lo) None (a ++ b) = slice (Some (lo - len a)) None b.
Proof.
  intros H1. unfold slice, norm. rewrite len_app. pose proof (len_nonneg a). pose proof (len_nonneg b).
  destruct (lo <? 0) eqn:?; try lia. destruct (lo - len a <? 0) eqn:?; try lia.
  replace (Z.to_nat (Z.min lo (len a + len b))) with (length a + Z.to_nat (Z.min (lo - len a) (len b)))%nat by (unfold len in *; lia).
  rewrite skipn_app, skipn_all2 by lia. cbn [app].
  replace (length a + Z.to_nat (Z.min (lo - len a) (len b)) - length a)%nat with (Z.to_nat (Z.min (lo - len a) (len b))) by lia.
  f_equal. lia.
Qed.
Lemma slice_within {A} (a b : list A) lo hi : 0 <= lo -> 0 <= hi -> hi <= len a ->
  slice (Some lo) (Some hi) (a ++ b) = slice (Some lo) (Some hi) a.
Proof.
  intros H0 H1 H2. unfold slice, norm. rewrite len_app. pose proof (len_nonneg a). pose proof (len_nonneg b).
  destruct (lo <? 0) eqn:?; try lia. destruct (hi <? 0) eqn:?; try lia.
  rewrite (Z.min_l hi) by lia. rewrite (Z.min_l hi (len a)) by lia.
  destruct (Z.le_gt_cases lo hi).
  - rewrite !Z.min_l by lia. rewrite skipn_app, firstn_app.
    replace (Z.to_nat (hi - lo) - length (skipn (Z.to_nat lo) a))%nat with 0%nat by (rewrite skipn_length; unfold len in *; lia).
    cbn [firstn]. now rewrite app_nil_r.
  - replace (Z.to_nat (hi - Z.min lo (len a + len b))) with 0%nat by lia.
    replace (Z.to_nat (hi - Z.min lo (len a))) with 0%nat by lia. reflexivity.
Qed.
(* tail slices with negative bounds: view[-k:] and view[:-k] *)
Lemma slice_neg_tail {A} (a b : list A) k : k = len b -> 0 < k -> slice (Some (- k)) None (a ++ b) = b.
Proof.
  intros -> Hk. unfold slice, norm. rewrite len_app. pose proof (len_nonneg a).
  destruct (- len b <? 0) eqn:?; try lia. rewrite Z.max_r by lia.
  replace (len a + len b + - len b) with (len a) by lia. unfold len. rewrite Nat2Z.id.
  rewrite skipn_app, skipn_all, Nat.sub_diag. cbn [app skipn].
  replace (Z.to_nat _) with (length b) by lia. apply firstn_all.
Qed.
Lemma slice_neg_init {A} (a b : list A) k : k = len b -> 0 < k -> slice None (Some (- k)) (a ++ b) = a.
Proof.
  intros -> Hk. unfold slice, norm. rewrite len_app. pose proof (len_nonneg a).
  destruct (- len b <? 0) eqn:?; try lia. rewrite Z.max_r by lia.
  cbn [Z.to_nat skipn]. replace (len a + len b + - len b - 0) with (len a) by lia. unfold len. rewrite Nat2Z.id.
  rewrite firstn_app, firstn_all, Nat.sub_diag. cbn. apply app_nil_r.
Qed.

Lemma slice_app_l' {A} (a b : list A) n : n = len a -> slice (Some 0) (Some n) (a ++ b) = a.
Proof. intros ->. apply slice_app_l. Qed.
Lemma slice_app_r_len {A} (a b : list A) k : k = len a -> slice (Some k) None (a ++ b) = b.
Proof. intros ->. apply slice_app_r. Qed.
Lemma index_field {A} (fs : list (list A)) (i : nat) k x tl : (i < length fs)%nat -> k = off fs i ->
  nth i fs [] = x :: tl -> index (concat fs) k = Ok x.
Proof.
  intros Hi -> Hn. rewrite (split_concat fs i Hi), Hn.
  pose proof (len_concat_firstn fs i ltac:(lia)) as Hl. rewrite <- Hl. cbn [app]. apply index_app_r.
Qed.
Lemma index_nil {A} k : index (@nil A) k = Raise IndexError.
Proof. unfold index. cbn [len length Z.of_nat]. destruct (k <? 0) eqn:?; destruct (_ && _) eqn:?; try reflexivity; lia. Qed.

Lemma le1 z : 0 <= z < 256 -> le 1 z = [z].
Proof. intros. cbn [le]. f_equal. lia. Qed.
Lemma in_range_spec w z : in_range w z = true <-> 0 <= z < P w.
Proof. unfold in_range. lia. Qed.
Lemma le_val_le' w z : in_range w z = true -> le_val (le w z) = z.
Proof. intros H. apply le_val_le. now apply in_range_spec. Qed.
Lemma enum_lookup_mem vals x : mem x vals = true -> enum_lookup vals x = Ok x.
Proof. unfold enum_lookup. now intros ->. Qed.

Lemma bytes_eqb_refl a : bytes_eqb a a = true.
Proof. induction a as [|x a IH]; cbn [bytes_eqb]; [reflexivity|]. rewrite IH. lia. Qed.
Lemma bytes_eqb_eq a : forall b, bytes_eqb a b = true -> a = b.
Proof. induction a as [|x a IH]; intros [|y b]; cbn [bytes_eqb]; try discriminate; [reflexivity|].
  intros H. apply andb_true_iff in H. destruct H as [H1 H2]. apply IH in H2. f_equal; [lia|assumption]. Qed.

(* ---- length bookkeeping ---- *)
Ltac lens := rewrite ?len_app, ?len_le, ?len_be, ?len_repeat, ?len_map, ?len_cons, ?len_nil.
Ltac off_solve := cbn [off nth length app]; lens; lia.

(* rewrite the first slice of a `concat fs` as field i (tries i = 0..14) *)
Ltac field_try i :=
  match goal with
  | |- context [slice (Some ?a) (Some ?b) (concat ?fs)] => rewrite (slice_field fs i a b) by off_solve; cbn [nth]
  end.
Ltac tail_try i :=
  match goal with
  | |- context [slice (Some ?a) None (concat ?fs)] => rewrite (slice_tail fs i a) by off_solve; cbn [skipn]
  end.
Ltac index_try i :=
  match goal with
  | |- context [index (concat ?fs) ?k] => erewrite (index_field fs i k) by (first [off_solve | cbn [nth le]; reflexivity]); cbn [bind]
  end.
Ltac field1 := first [field_try 0%nat | field_try 1%nat | field_try 2%nat | field_try 3%nat | field_try 4%nat | field_try 5%nat
  | field_try 6%nat | field_try 7%nat | field_try 8%nat | field_try 9%nat | field_try 10%nat | field_try 11%nat | field_try 12%nat ].
Ltac tail1 := first [tail_try 0%nat | tail_try 1%nat | tail_try 2%nat | tail_try 3%nat | tail_try 4%nat | tail_try 5%nat
  | tail_try 6%nat | tail_try 7%nat | tail_try 8%nat | tail_try 9%nat | tail_try 10%nat | tail_try 11%nat | tail_try 12%nat ].
Ltac index1 := first [index_try 0%nat | index_try 1%nat | index_try 2%nat | index_try 3%nat | index_try 4%nat | index_try 5%nat
  | index_try 6%nat | index_try 7%nat | index_try 8%nat | index_try 9%nat | index_try 10%nat ].
Ltac fields := rewrite ?slice_None_lo; repeat field1; repeat tail1.

(* boolean conjunctions of wf predicates *)
Ltac split_wf H :=
  repeat match type of H with
  | (_ && _) = true => let H1 := fresh H in apply andb_true_iff in H; destruct H as [H H1]
  end.
Ltac wf_split :=
  repeat match goal with
  | H : (_ && _) = true |- _ => let H1 := fresh H in apply andb_true_iff in H; destruct H as [H H1]
  end.
