(* Tie theorems: _read_asn1_integer and _pack_asn1_integer of _asn1.py (gen/F_asn1.v, run in Flow/World_asn1.v) against
   Model/Asn1.v (read_int_content / pack_int_content).  The reader's input must be octets (wfb: bytearray item assignment
   checks the range the model does not). *)
From V Require Import Prelude.PyAst.
From V Require Import Prelude.Base Prelude.PyInt Prelude.PySlice Prelude.PyStr Prelude.PyWorld gen.K_asn1 gen.C_asn1 gen.F_asn1.
From V Require Import Model.Asn1 Flow.World_asn1 Proofs.Flow_asn1_lib Proofs.Asn1Lib.
Local Open Scope string_scope.
Local Open Scope list_scope.
Local Open Scope Z_scope.
Arguments len : simpl never.
Arguments slice : simpl never.
Arguments Z.land : simpl never.
Arguments Z.lor : simpl never.
Arguments Z.shiftr : simpl never.
Arguments Z.shiftl : simpl never.
Arguments Z.mul : simpl never.
Arguments Z.add : simpl never.
Arguments Z.sub : simpl never.
Arguments Z.to_nat : simpl never.
Arguments zrange : simpl never.
Arguments zrange_down : simpl never.
Arguments validate_tag : simpl never.
Arguments with_opts : simpl never.

Lemma zrange_S n lo : zrange (S n) lo = @VI obj lo :: zrange n (lo + 1). Proof. reflexivity. Qed.
Lemma zrange_down_S n hi : zrange_down (S n) hi = VI hi :: zrange_down n (hi - 1). Proof. reflexivity. Qed.
Lemma wfb_cons_inv x l : wfb (x :: l) = true -> 0 <= x < 256 /\ wfb l = true.
Proof. cbn [wfb]. intros H. apply andb_prop in H. destruct H as [H1 H2]. split; [lia|exact H2]. Qed.

(* b[len a] = v on b = a ++ x :: r *)
Lemma setitem_mid (a : bytes) x r v : 0 <= v <= 255 ->
  builtin_call asn1_ext "setitem" [VB (a ++ x :: r); VI (len a); VI v] = Ok (VB (a ++ v :: r)).
Proof.
  intros Hv. cbn. pose proof (len_nonneg a). pose proof (len_nonneg r).
  destruct (len a <? 0) eqn:E0; [lia|]. rewrite len_app, len_cons.
  destruct ((v <? 0) || (255 <? v)) eqn:E2; [lia|].
  destruct ((len a <? 0) || (len a + (1 + len r) <=? len a)) eqn:E1; [lia|].
  rewrite slice_none_l. replace (a ++ x :: r) with ((a ++ [x]) ++ r) by (rewrite <- app_assoc; reflexivity).
  replace (len a + 1) with (len (a ++ [x])) by (rewrite len_app, len1; reflexivity).
  rewrite slice_app_r. reflexivity.
Qed.
Lemma index_mid (a : bytes) x r : index (a ++ x :: r) (len a) = Ok x.
Proof. apply index_app_r. Qed.

Arguments builtin_call : simpl never.
Lemma bc_len (b : bytes) : builtin_call asn1_ext "len" [VB b] = Ok (VI (len b)). Proof. reflexivity. Qed.
Lemma bc_bytearray (b : bytes) : builtin_call asn1_ext "bytearray" [VB b] = Ok (VB b). Proof. reflexivity. Qed.
Lemma bc_bytearray0 : builtin_call asn1_ext "bytearray" [] = Ok (VB []). Proof. reflexivity. Qed.
Lemma bc_range1 n : builtin_call asn1_ext "range" [VI n] = Ok (VL (zrange (Z.to_nat n) 0)). Proof. reflexivity. Qed.
Ltac pyb := repeat (progress (pye; rewrite ?bc_len, ?bc_bytearray, ?bc_bytearray0, ?bc_range1, ?index_mid)).

(* ---- for i in range(len(b_int)): b_int[i] = 0xFF - b_int[i] ---- *)
Definition compl_body : list pstmt := [
        SAssign ["b_int"] (PCall "setitem" [(PName "b_int"); (PName "i"); (PBin "-" (PInt 255) (PSub (PName "b_int") (PName "i")))])
      ].
Lemma compl_for fuel : forall todo done env, wfb todo = true ->
  lookup "b_int" env = Some (VB (done ++ todo)) ->
  exists env', for_each W fuel ["i"] compl_body (zrange (length todo) (len done)) env = Ok (Next env') /\
               lookup "b_int" env' = Some (VB (done ++ map (fun x => 255 - x) todo)) /\ frame ["b_int"; "i"] env env'.
Proof.
  induction todo as [|x r IH]; intros done env Hw Hb.
  - exists env. split; [reflexivity|]. split; [exact Hb|apply frame_refl].
  - apply wfb_cons_inv in Hw. destruct Hw as [Hx Hw].
    cbn [length]. rewrite zrange_S, for_each_cons. unfold compl_body. pyb.
    pyb. rewrite setitem_mid by lia. pyb. fold compl_body.
    match goal with |- context [for_each _ _ _ _ _ ?e] =>
      destruct (IH (done ++ [255 - x]) e Hw) as (env' & Hf & Hb' & Hfr) end.
    { cbn. rewrite <- app_assoc. reflexivity. }
    rewrite len_app, len1 in Hf. exists env'. split; [exact Hf|]. split.
    + rewrite Hb', <- app_assoc. reflexivity.
    + eapply frame_step; [exact Hfr|frame_upd].
Qed.

(* ---- for i in range(len(b_int) - 1, -1, -1): carry ---- *)
Definition carry_body : list pstmt := [
        SIf (PCmp "==" (PSub (PName "b_int") (PName "i")) (PInt 255)) [
          SAssign ["b_int"] (PCall "setitem" [(PName "b_int"); (PName "i"); (PInt 0)]);
          SContinue
        ] [
          SAssign ["b_int"] (PCall "setitem" [(PName "b_int"); (PName "i"); (PBin "+" (PSub (PName "b_int") (PName "i")) (PInt 1))]);
          SBreak
        ]
      ].
Lemma carry_for fuel : forall todo done env, wfb todo = true ->
  lookup "b_int" env = Some (VB (todo ++ done)) ->
  exists env', for_each W fuel ["i"] carry_body (zrange_down (length todo) (len todo - 1)) env = Ok (Next env') /\
               lookup "b_int" env' = Some (VB (rev (int_carry (rev todo)) ++ done)) /\ frame ["b_int"; "i"] env env'.
Proof.
  induction todo as [|v t' IH] using rev_ind; intros done env Hw Hb.
  - exists env. split; [reflexivity|]. split; [exact Hb|apply frame_refl].
  - rewrite wfb_app in Hw. apply andb_prop in Hw. destruct Hw as [Hw Hv]. apply wfb_cons_inv in Hv. destruct Hv as [Hv _].
    rewrite app_length, Nat.add_1_r, len_app, len1. replace (len t' + 1 - 1) with (len t') by lia.
    rewrite zrange_down_S, for_each_cons. unfold carry_body. rewrite <- app_assoc in Hb. cbn [app] in Hb.
    rewrite rev_unit. cbn [int_carry]. pyb.
    destruct (v =? 255) eqn:E; pyb.
    + rewrite setitem_mid by lia. pyb. fold carry_body.
      match goal with |- context [for_each _ _ _ _ _ ?e] =>
        destruct (IH (0 :: done) e Hw eq_refl) as (env' & Hf & Hb' & Hfr) end.
      exists env'. split; [exact Hf|]. split.
      * rewrite Hb'. cbn [rev]. rewrite <- app_assoc. reflexivity.
      * eapply frame_step; [exact Hfr|frame_upd].
    + rewrite setitem_mid by lia. pyb. eexists. split; [reflexivity|]. split.
      * cbn [rev lookup update String.eqb Ascii.eqb Bool.eqb andb]. rewrite rev_involutive, <- app_assoc. reflexivity.
      * eapply frame_step; [apply frame_refl|frame_upd].
Qed.

(* ---- for val in b_int: int_value = (int_value << 8) | val ---- *)
Definition fold_body : list pstmt := [
      SAssign ["int_value"] (PBin "|" (PBin "<<" (PName "int_value") (PInt 8)) (PName "val"))
    ].
Lemma fold_for fuel : forall l env acc, lookup "int_value" env = Some (VI acc) ->
  exists env', for_each W fuel ["val"] fold_body (map VI l) env = Ok (Next env') /\
               lookup "int_value" env' = Some (VI (fold_left k_int_fold l acc)) /\ frame ["int_value"; "val"] env env'.
Proof.
  induction l as [|x r IH]; intros env acc Ha.
  - exists env. split; [reflexivity|]. split; [exact Ha|apply frame_refl].
  - cbn [map fold_left]. rewrite for_each_cons. unfold fold_body. pyb. fold fold_body.
    match goal with |- context [for_each _ _ _ _ _ ?e] =>
      destruct (IH e (k_int_fold acc x) eq_refl) as (env' & Hf & Hb' & Hfr) end.
    exists env'. split; [exact Hf|]. split; [exact Hb'|]. eapply frame_step; [exact Hfr|frame_upd].
Qed.

Lemma len_cons_nz {A} (x : A) r : (len (x :: r) =? 0) = false.
Proof. rewrite len_cons. pose proof (len_nonneg r). lia. Qed.
Lemma tag_of_vopt t : tag_of (vopt_tag t) = Some t. Proof. destruct t; reflexivity. Qed.
Lemma header_of_vopt h : header_of (vopt_header h) = Some h. Proof. destruct h as [[? ? ?]|]; reflexivity. Qed.
Lemma hint_of_vopt s : hint_of (vopt_str s) = Some tt. Proof. destruct s; reflexivity. Qed.
Lemma with_opts_vopt {A} t h hint (k : option tag -> option header -> res A) inj :
  with_opts (vopt_tag t) (vopt_header h) (vopt_str hint) k inj = Some (let* r := k t h in Ok (inj r)).
Proof. unfold with_opts. rewrite tag_of_vopt, header_of_vopt, hint_of_vopt. reflexivity. Qed.

Lemma validate_tag_wfb data t ty h raw c : wfb data = true -> validate_tag data t ty h = Ok (raw, c) -> wfb raw = true.
Proof.
  intros Hw H. unfold validate_tag in H.
  destruct (match h with Some h0 => Ok h0 | None => read_asn1_header data end) as [hd|]; cbn [bind] in H; [|discriminate].
  destruct (negb (tag_eqb _ _)); [discriminate|]. destruct (k_vt_short _ _); [discriminate|].
  apply Ok_inj in H. inversion H; subst. apply wfb_slice. apply wfb_slice. exact Hw.
Qed.

Lemma ric_pos b0 r : (Z.land b0 128 =? 0) = true -> read_int_content (b0 :: r) = Ok (fold_left k_int_fold (b0 :: r) 0).
Proof. intros E. unfold read_int_content. rewrite E. reflexivity. Qed.
Lemma ric_neg b0 r : (Z.land b0 128 =? 0) = false ->
  read_int_content (b0 :: r) = Ok (k_int_negate (fold_left k_int_fold (rev (int_carry (rev (map (fun x => 255 - x) (b0 :: r))))) 0)).
Proof. intros E. unfold read_int_content. rewrite E. reflexivity. Qed.
Arguments read_int_content : simpl never.
Arguments rev : simpl never.
Arguments map : simpl never.

Lemma flow_read_asn1_integer fuel data t h hint : wfb data = true ->
  run W fuel k_flow_read_asn1_integer [VB data; vopt_tag t; vopt_header h; vopt_str hint] =
  (let* r := m_read_integer data t h in Ok (inj_int r)).
Proof.
  intros Hwd. start W k_flow_read_asn1_integer. fold compl_body carry_body fold_body. unfold m_read_integer.
  pyb. rewrite with_opts_vopt. cbn [or_else].
  destruct (validate_tag data t _ h) as [[raw consumed]|e] eqn:Ev; pyb; [|reflexivity].
  apply validate_tag_wfb in Ev; [|exact Hwd].
  destruct raw as [|b0 raw']; pyb; [reflexivity|].
  rewrite len_cons_nz. pyb. remember (b0 :: raw') as raw eqn:Hraw.
  destruct (Z.land b0 128 =? 0) eqn:Eneg; pyb.
  - (* non-negative *)
    match goal with |- context [for_each _ _ _ _ _ ?e] =>
      destruct (fold_for fuel raw e 0 eq_refl) as (env' & Hf & Hv & Hfr) end.
    rewrite Hf. cbn [bind].
    assert (H1 : lookup "is_negative" env' = Some (VI (Z.land b0 128))) by (fr Hfr "is_negative"; reflexivity).
    assert (H2 : lookup "consumed" env' = Some (VI consumed)) by (fr Hfr "consumed"; reflexivity).
    pyb. rewrite Eneg. pyb. rewrite Hraw, (ric_pos _ _ Eneg). reflexivity.
  - (* negative: complement, carry, fold, negate *)
    match goal with |- context [for_each _ _ _ _ _ ?e] =>
      destruct (compl_for fuel raw [] e Ev eq_refl) as (env1 & Hf1 & Hb1 & Hfr1) end.
    change (len (@nil Z)) with 0 in Hf1. unfold len. rewrite Nat2Z.id. rewrite Hf1. cbn [bind app] in *.
    pyb. set (cl := map (fun x : Z => 255 - x) raw) in *.
    assert (Hwc : wfb cl = true) by (apply wfb_map_compl; exact Ev).
    replace (Z.to_nat (len cl - 1 - -1)) with (length cl) by (unfold len; lia).
    destruct (carry_for fuel cl [] env1 Hwc) as (env2 & Hf2 & Hb2 & Hfr2); [rewrite app_nil_r; exact Hb1|].
    rewrite Hf2. cbn [bind]. rewrite app_nil_r in Hb2. pyb.
    match goal with |- context [for_each _ _ _ _ _ ?e] =>
      destruct (fold_for fuel (rev (int_carry (rev cl))) e 0 eq_refl) as (env3 & Hf3 & Hv3 & Hfr3) end.
    rewrite Hf3. cbn [bind].
    assert (H1 : lookup "is_negative" env3 = Some (VI (Z.land b0 128))).
    { fr Hfr3 "is_negative". cbn. fr Hfr2 "is_negative". fr Hfr1 "is_negative". reflexivity. }
    assert (H2 : lookup "consumed" env3 = Some (VI consumed)).
    { fr Hfr3 "consumed". cbn. fr Hfr2 "consumed". fr Hfr1 "consumed". reflexivity. }
    pyb. rewrite Eneg. pyb. rewrite Hraw, (ric_neg _ _ Eneg), <- Hraw. reflexivity.
Qed.

(* ================= _pack_asn1_integer ================= *)
From V Require Import Proofs.Asn1Hdr Proofs.Asn1Int.
Arguments bits_fuel : simpl never.
Arguments int_mag : simpl never.
Arguments pack_asn1 : simpl never.

Definition mag_body : list pstmt := [
      SAssign ["val"] (PBin "&" (PName "value") (PInt 255));
      SIf (PName "is_negative") [
        SAssign ["val"] (PBin "-" (PInt 255) (PName "val"))
      ] [];
      SExpr (PMeth "append" (PName "b_int") [(PName "val")]);
      SAssign ["value"] (PBin ">>" (PName "value") (PInt 8))
    ].
Lemma int_mag_S k neg limit value :
  int_mag (S k) neg limit value =
  if k_int_more value limit then
      let val := k_int_digit value in
      let val := if neg then k_int_compl val else val in
      let* r := int_mag k neg limit (k_int_shift value) in Ok (val :: r)
  else Ok [k_int_top value neg].
Proof. reflexivity. Qed.
Lemma int_mag_0 neg limit value :
  int_mag 0 neg limit value = if k_int_more value limit then Raise OutOfFuel else Ok [k_int_top value neg].
Proof. reflexivity. Qed.

Lemma mag_loop fuel (neg : bool) limit : forall k K env v acc l,
  lookup "value" env = Some (VI v) -> lookup "limit" env = Some (VI limit) ->
  lookup "is_negative" env = Some (vb neg) -> lookup "b_int" env = Some (VB acc) ->
  int_mag k neg limit v = Ok l -> (k < K)%nat ->
  exists env' vf ds, while_loop W fuel (PCmp ">" (PName "value") (PName "limit")) mag_body K env = Ok (Next env') /\
    l = ds ++ [k_int_top vf neg] /\ lookup "b_int" env' = Some (VB (acc ++ ds)) /\ lookup "value" env' = Some (VI vf) /\
    frame ["val"; "b_int"; "value"] env env'.
Proof.
  induction k as [|k IH]; intros K env v acc l Hv Hl Hn Hb Hm HK; (destruct K as [|K]; [lia|]); rewrite while_loop_S;
    [rewrite int_mag_0 in Hm|rewrite int_mag_S in Hm]; unfold k_int_more in Hm; rewrite Z.gtb_ltb in Hm; revert Hm; pyb;
    destruct (limit <? v) eqn:E; cbn; intro Hm.
  - discriminate Hm.
  - apply Ok_inj in Hm. subst l. exists env, v, []. rewrite app_nil_r. repeat split; try assumption; try reflexivity; try apply frame_refl.
  - destruct (int_mag k neg limit (k_int_shift v)) as [r|] eqn:Er; [|discriminate]. cbn [bind] in Hm. apply Ok_inj in Hm.
    unfold mag_body. assert (H255 : 0 <= Z.land v 255 < 256) by (rewrite land_255; lia).
    unfold k_int_digit, k_int_compl, k_int_shift in *.
    destruct neg; pyb.
    + destruct ((255 - Z.land v 255 <? 0) || (255 <? 255 - Z.land v 255)) eqn:Eb; [lia|]. pyb. fold mag_body.
      match goal with |- context [while_loop _ _ _ _ K ?e] =>
        destruct (IH K e (Z.shiftr v 8) (acc ++ [255 - Z.land v 255]) r) as (env' & vf & ds & Hw & Hl' & Hb' & Hv' & Hfr);
          [reflexivity|cbn; exact Hl|cbn; exact Hn|reflexivity|exact Er|lia|] end.
      exists env', vf, ((255 - Z.land v 255) :: ds). split; [exact Hw|]. split; [rewrite <- Hm, Hl'; reflexivity|].
      split; [rewrite Hb', <- app_assoc; reflexivity|]. split; [exact Hv'|]. eapply frame_step; [exact Hfr|frame_upd].
    + destruct ((Z.land v 255 <? 0) || (255 <? Z.land v 255)) eqn:Eb; [lia|]. pyb. fold mag_body.
      match goal with |- context [while_loop _ _ _ _ K ?e] =>
        destruct (IH K e (Z.shiftr v 8) (acc ++ [Z.land v 255]) r) as (env' & vf & ds & Hw & Hl' & Hb' & Hv' & Hfr);
          [reflexivity|cbn; exact Hl|cbn; exact Hn|reflexivity|exact Er|lia|] end.
      exists env', vf, (Z.land v 255 :: ds). split; [exact Hw|]. split; [rewrite <- Hm, Hl'; reflexivity|].
      split; [rewrite Hb', <- app_assoc; reflexivity|]. split; [exact Hv'|]. eapply frame_step; [exact Hfr|frame_upd].
  - apply Ok_inj in Hm. subst l. exists env, v, []. rewrite app_nil_r. repeat split; try assumption; try reflexivity; try apply frame_refl.
Qed.

(* ---- for idx, val in enumerate(b_int): carry of the +1 ---- *)
Fixpoint enum_from (i : Z) (l : list Z) : list (pv obj) :=
  match l with [] => [] | x :: r => VT [VI i; VI x] :: enum_from (i + 1) r end.
Lemma bc_enumerate (b : bytes) : builtin_call asn1_ext "enumerate" [VB b] = Ok (VL (enum_from 0 b)).
Proof.
  unfold builtin_call. cbn [String.eqb Ascii.eqb Bool.eqb orb andb v_iter bind].
  generalize 0. induction b as [|x r IH]; intro i; [reflexivity|].
  change (map VI (x :: r)) with (@VI obj x :: map VI r). cbn [enum_from].
  specialize (IH (i + 1)). apply Ok_inj in IH. injection IH as IH. rewrite <- IH. reflexivity.
Qed.
Definition incr_body : list pstmt := [
        SIf (PCmp "<" (PName "val") (PInt 255)) [
          SAssign ["b_int"] (PCall "setitem" [(PName "b_int"); (PName "idx"); (PBin "+" (PSub (PName "b_int") (PName "idx")) (PInt 1))]);
          SBreak
        ] [];
        SAssign ["b_int"] (PCall "setitem" [(PName "b_int"); (PName "idx"); (PInt 0)])
      ].
Lemma incr_for fuel : forall suf pre env, wfb suf = true ->
  lookup "b_int" env = Some (VB (pre ++ suf)) ->
  exists env', for_each W fuel ["idx"; "val"] incr_body (enum_from (len pre) suf) env = Ok (Next env') /\
               lookup "b_int" env' = Some (VB (pre ++ int_incr suf)) /\ frame ["b_int"; "idx"; "val"] env env'.
Proof.
  induction suf as [|x r IH]; intros pre env Hw Hb.
  - exists env. split; [reflexivity|]. split; [exact Hb|apply frame_refl].
  - apply wfb_cons_inv in Hw. destruct Hw as [Hx Hw]. cbn [enum_from int_incr]. rewrite for_each_cons.
    unfold incr_body, k_int_carry. pyb. destruct (x <? 255) eqn:E; pyb.
    + rewrite setitem_mid by lia. pyb. eexists. split; [reflexivity|]. split; [reflexivity|].
      eapply frame_step; [apply frame_refl|frame_upd].
    + rewrite setitem_mid by lia. pyb. fold incr_body.
      match goal with |- context [for_each _ _ _ _ _ ?e] =>
        destruct (IH (pre ++ [0]) e Hw) as (env' & Hf & Hb' & Hfr) end.
      { cbn. rewrite <- app_assoc. reflexivity. }
      rewrite len_app, len1 in Hf. exists env'. split; [exact Hf|]. split.
      * rewrite Hb', <- app_assoc. reflexivity.
      * eapply frame_step; [exact Hfr|frame_upd].
Qed.

Lemma index_last (l : list Z) : l <> [] -> index l (-1) = Ok (last l 0).
Proof.
  intros Hne. destruct (exists_last Hne) as (init & t & ->). rewrite last_app_single.
  replace (index (init ++ [t]) (-1)) with (index (init ++ [t]) (len init)); [apply index_app_r|].
  unfold index. rewrite len_app, len1. pose proof (len_nonneg init).
  destruct (len init <? 0) eqn:E1; [lia|]. change (-1 <? 0) with true. cbv iota.
  replace (len init + 1 + -1) with (len init) by lia. reflexivity.
Qed.

Arguments int_incr : simpl never.
Arguments last : simpl never.
Lemma vb_truth' (b : bool) : negb ((if b then 1 else 0) =? 0) = b. Proof. destruct b; reflexivity. Qed.

Lemma flow_pack_asn1_integer fuel value t : (bits_fuel (Z.abs value) < fuel)%nat ->
  run W fuel k_flow_pack_asn1_integer [VI value; vopt_tag t] = lift_b (pack_integer value t).
Proof.
  intros Hf. start W k_flow_pack_asn1_integer. fold mag_body incr_body.
  unfold pack_integer, pack_int_content, k_int_is_neg, pack_tlv, k_int_limit_neg, k_int_limit_pos.
  destruct t as [t|]; pyb.
  all: destruct (value <? 0) eqn:Ez; pyb.
  - replace (Z.abs value) with (- value) in Hf by lia.
    destruct (int_mag_neg (bits_fuel (- value)) (- value)) as (l & E1 & Hw & _ & Hne & _);
    [split; [lia|apply bits_fuel_ok; lia]|]. unfold k_int_limit_neg in E1. rewrite E1. cbn [bind].
    match goal with |- context [while_loop _ _ _ _ fuel ?e] =>
      destruct (mag_loop fuel true 128 (bits_fuel (- value)) fuel e (- value) [] l eq_refl eq_refl eq_refl eq_refl E1 Hf)
        as (env1 & vf & ds & Hw1 & Hl & Hb1 & Hv1 & Hfr1) end.
    rewrite Hw1. cbn [bind app] in *.
    assert (Hn1 : lookup "is_negative" env1 = Some (VI 1)) by (fr Hfr1 "is_negative"; reflexivity).
    assert (Ht1 : lookup "tag" env1 = Some (VO (OTag t))) by (fr Hfr1 "tag"; reflexivity).
    assert (Htop : 0 <= k_int_top vf true < 256) by (unfold k_int_top; rewrite land_255; lia).
    unfold k_int_top in Htop, Hl. pyb.
    match goal with |- context [(?z <? 0) || (255 <? ?z)] => destruct ((z <? 0) || (255 <? z)) eqn:Eb; [lia|] end.
    pyb. rewrite bc_enumerate. pyb. rewrite <- Hl.
    match goal with |- context [for_each _ _ _ _ _ ?e] =>
      destruct (incr_for fuel l [] e Hw eq_refl) as (env2 & Hf2 & Hb2 & Hfr2) end.
    change (len (@nil Z)) with 0 in Hf2. rewrite Hf2. cbn [bind app] in *.
    assert (Hn2 : lookup "is_negative" env2 = Some (VI 1)) by (fr Hfr2 "is_negative"; cbn; exact Hn1).
    assert (Ht2 : lookup "tag" env2 = Some (VO (OTag t))) by (fr Hfr2 "tag"; cbn; exact Ht1).
    assert (Hne2 : int_incr l <> []) by (destruct l as [|x r]; [congruence|]; unfold int_incr; destruct (k_int_carry x); discriminate).
    pyb. rewrite (index_last _ Hne2). pyb.
    destruct (last (int_incr l) 0 =? 127); pyb; rewrite ?vb_truth'; destruct (pack_asn1 _ _ _ _); reflexivity.
  - replace (Z.abs value) with value in Hf by lia.
    destruct (int_mag_pos (bits_fuel value) value) as (l & E1 & Hw & _ & Hne & _);
    [split; [lia|apply bits_fuel_ok; lia]|]. unfold k_int_limit_pos in E1. rewrite E1. cbn [bind].
    match goal with |- context [while_loop _ _ _ _ fuel ?e] =>
      destruct (mag_loop fuel false 127 (bits_fuel value) fuel e value [] l eq_refl eq_refl eq_refl eq_refl E1 Hf)
        as (env1 & vf & ds & Hw1 & Hl & Hb1 & Hv1 & Hfr1) end.
    rewrite Hw1. cbn [bind app] in *.
    assert (Hn1 : lookup "is_negative" env1 = Some (VI 0)) by (fr Hfr1 "is_negative"; reflexivity).
    assert (Ht1 : lookup "tag" env1 = Some (VO (OTag t))) by (fr Hfr1 "tag"; reflexivity).
    assert (Htop : 0 <= k_int_top vf false < 256) by (unfold k_int_top; rewrite land_255; lia).
    unfold k_int_top in Htop, Hl. pyb.
    match goal with |- context [(?z <? 0) || (255 <? ?z)] => destruct ((z <? 0) || (255 <? z)) eqn:Eb; [lia|] end.
    pyb. rewrite <- Hl. rewrite ?vb_truth'. destruct (pack_asn1 _ _ _ _); reflexivity.
  - replace (Z.abs value) with (- value) in Hf by lia.
    destruct (int_mag_neg (bits_fuel (- value)) (- value)) as (l & E1 & Hw & _ & Hne & _);
    [split; [lia|apply bits_fuel_ok; lia]|]. unfold k_int_limit_neg in E1. rewrite E1. cbn [bind].
    match goal with |- context [while_loop _ _ _ _ fuel ?e] =>
      destruct (mag_loop fuel true 128 (bits_fuel (- value)) fuel e (- value) [] l eq_refl eq_refl eq_refl eq_refl E1 Hf)
        as (env1 & vf & ds & Hw1 & Hl & Hb1 & Hv1 & Hfr1) end.
    rewrite Hw1. cbn [bind app] in *.
    assert (Hn1 : lookup "is_negative" env1 = Some (VI 1)) by (fr Hfr1 "is_negative"; reflexivity).
    assert (Ht1 : lookup "tag" env1 = Some (VO (OTag (universal_tag c_tag_integer false)))) by (fr Hfr1 "tag"; reflexivity).
    assert (Htop : 0 <= k_int_top vf true < 256) by (unfold k_int_top; rewrite land_255; lia).
    unfold k_int_top in Htop, Hl. pyb.
    match goal with |- context [(?z <? 0) || (255 <? ?z)] => destruct ((z <? 0) || (255 <? z)) eqn:Eb; [lia|] end.
    pyb. rewrite bc_enumerate. pyb. rewrite <- Hl.
    match goal with |- context [for_each _ _ _ _ _ ?e] =>
      destruct (incr_for fuel l [] e Hw eq_refl) as (env2 & Hf2 & Hb2 & Hfr2) end.
    change (len (@nil Z)) with 0 in Hf2. rewrite Hf2. cbn [bind app] in *.
    assert (Hn2 : lookup "is_negative" env2 = Some (VI 1)) by (fr Hfr2 "is_negative"; cbn; exact Hn1).
    assert (Ht2 : lookup "tag" env2 = Some (VO (OTag (universal_tag c_tag_integer false)))) by (fr Hfr2 "tag"; cbn; exact Ht1).
    assert (Hne2 : int_incr l <> []) by (destruct l as [|x r]; [congruence|]; unfold int_incr; destruct (k_int_carry x); discriminate).
    pyb. rewrite (index_last _ Hne2). pyb.
    destruct (last (int_incr l) 0 =? 127); pyb; rewrite ?vb_truth'; destruct (pack_asn1 _ _ _ _); reflexivity.
  - replace (Z.abs value) with value in Hf by lia.
    destruct (int_mag_pos (bits_fuel value) value) as (l & E1 & Hw & _ & Hne & _);
    [split; [lia|apply bits_fuel_ok; lia]|]. unfold k_int_limit_pos in E1. rewrite E1. cbn [bind].
    match goal with |- context [while_loop _ _ _ _ fuel ?e] =>
      destruct (mag_loop fuel false 127 (bits_fuel value) fuel e value [] l eq_refl eq_refl eq_refl eq_refl E1 Hf)
        as (env1 & vf & ds & Hw1 & Hl & Hb1 & Hv1 & Hfr1) end.
    rewrite Hw1. cbn [bind app] in *.
    assert (Hn1 : lookup "is_negative" env1 = Some (VI 0)) by (fr Hfr1 "is_negative"; reflexivity).
    assert (Ht1 : lookup "tag" env1 = Some (VO (OTag (universal_tag c_tag_integer false)))) by (fr Hfr1 "tag"; reflexivity).
    assert (Htop : 0 <= k_int_top vf false < 256) by (unfold k_int_top; rewrite land_255; lia).
    unfold k_int_top in Htop, Hl. pyb.
    match goal with |- context [(?z <? 0) || (255 <? ?z)] => destruct ((z <? 0) || (255 <? z)) eqn:Eb; [lia|] end.
    pyb. rewrite <- Hl. rewrite ?vb_truth'. destruct (pack_asn1 _ _ _ _); reflexivity.
Qed.
