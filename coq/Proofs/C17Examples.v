(* GENERATED ONCE by the C17 worker from vlib/refdc.py (a conversation with the reference DC: unprotect of a blob at (361, 12, 31),
   SHA256, seed-key reply WITHOUT L2 key, two provider legs, header signing) -- static text, part of the proof development. *)
From V Require Import Prelude.Base Prelude.PyInt Prelude.PySlice.
From V Require Import Model.Pdu Model.Request Model.Handshake Model.Framing Model.Seal Model.Types Model.Gkdi Model.Conversation.
From V Require Import Proofs.GkdiGetKey Proofs.GkdiEnvelope Proofs.C17.
Definition ex_sd : bytes := [1; 0; 4; 128; 84; 0; 0; 0; 96; 0; 0; 0; 0; 0; 0; 0; 20; 0; 0; 0; 2; 0; 64; 0; 2; 0; 0; 0; 0; 0; 36; 0; 3; 0; 0; 0; 1; 5; 0; 0; 0; 0; 0; 5; 21; 0; 0; 0; 1; 0; 0; 0; 2; 0; 0; 0; 3; 0; 0; 0; 80; 4; 0; 0; 0; 0; 20; 0; 2; 0; 0; 0; 1; 1; 0; 0; 0; 0; 0; 1; 0; 0; 0; 0; 1; 1; 0; 0; 0; 0; 0; 5; 18; 0; 0; 0; 1; 1; 0; 0; 0; 0; 0; 5; 18; 0; 0; 0].
Definition ex_rk : bytes := [113; 194; 120; 215; 37; 144; 130; 154; 246; 220; 184; 150; 11; 138; 216; 197].
Definition ex_pv : provider := {| pv_type := 9; pv_sig_len := 16 |}.
Definition ex_legs : list leg := [{| leg_token := [84; 79; 89; 45; 67; 48; 45; 1; 1; 1]; leg_complete := false |}; {| leg_token := [84; 79; 89; 45; 67; 49; 45; 2; 2; 2; 2; 2; 2; 2; 2]; leg_complete := true |}].
Definition ex_dc : dc_script :=
  {| ds_epm_srv := [RBindAck [0] 3 None];
     ds_ept_stream := [5; 0; 2; 3; 16; 0; 0; 0; 172; 0; 0; 0; 1; 0; 0; 0; 148; 0; 0; 0; 0; 0; 0; 0; 0; 0; 0; 0; 0; 0; 0; 0; 0; 0; 0; 0; 0; 0; 0; 0; 0; 0; 0; 0; 1; 0; 0; 0; 4; 0; 0; 0; 0; 0; 0; 0; 0; 0; 0; 0; 0; 0; 0; 0; 1; 0; 0; 0; 0; 0; 0; 0; 3; 0; 0; 0; 0; 0; 0; 0; 75; 0; 0; 0; 0; 0; 0; 0; 75; 0; 0; 0; 5; 0; 19; 0; 13; 96; 89; 120; 185; 79; 82; 223; 17; 139; 109; 131; 220; 222; 215; 32; 133; 1; 0; 2; 0; 0; 0; 19; 0; 13; 4; 93; 136; 138; 235; 28; 201; 17; 159; 232; 8; 0; 43; 16; 72; 96; 2; 0; 2; 0; 0; 0; 1; 0; 11; 2; 0; 0; 0; 1; 0; 7; 2; 0; 194; 0; 1; 0; 9; 4; 0; 10; 0; 0; 1; 0; 0; 0; 0; 0];
     ds_isd_srv := [RBindAck [0; 3] 7 (Some [84; 79; 89; 45; 83; 48; 45; 160; 160]); RAlterResp [0] 7 None];
     ds_getkey_stream := [5; 0; 2; 3; 16; 0; 0; 0; 224; 1; 16; 0; 1; 0; 0; 0; 176; 1; 0; 0; 0; 0; 0; 0; 134; 1; 0; 0; 0; 0; 0; 0; 0; 0; 2; 0; 0; 0; 0; 0; 134; 1; 0; 0; 0; 0; 0; 0; 1; 0; 0; 0; 75; 68; 83; 75; 2; 0; 0; 0; 105; 1; 0; 0; 12; 0; 0; 0; 31; 0; 0; 0; 113; 194; 120; 215; 37; 144; 130; 154; 246; 220; 184; 150; 11; 138; 216; 197; 38; 0; 0; 0; 30; 0; 0; 0; 6; 0; 0; 0; 144; 0; 0; 0; 0; 1; 0; 0; 16; 2; 0; 0; 64; 0; 0; 0; 0; 0; 0; 0; 14; 0; 0; 0; 14; 0; 0; 0; 83; 0; 80; 0; 56; 0; 48; 0; 48; 0; 95; 0; 49; 0; 48; 0; 56; 0; 95; 0; 67; 0; 84; 0; 82; 0; 95; 0; 72; 0; 77; 0; 65; 0; 67; 0; 0; 0; 0; 0; 0; 0; 1; 0; 0; 0; 14; 0; 0; 0; 0; 0; 0; 0; 83; 0; 72; 0; 65; 0; 50; 0; 53; 0; 54; 0; 0; 0; 68; 0; 72; 0; 0; 0; 144; 0; 0; 0; 68; 72; 80; 77; 66; 0; 0; 0; 1; 255; 255; 255; 255; 255; 255; 255; 255; 255; 255; 255; 255; 255; 255; 255; 255; 255; 255; 255; 255; 255; 255; 255; 255; 255; 255; 255; 255; 255; 255; 255; 255; 255; 255; 255; 255; 255; 255; 255; 255; 255; 255; 255; 255; 255; 255; 255; 255; 255; 255; 255; 255; 255; 255; 255; 255; 255; 255; 255; 255; 255; 255; 255; 255; 255; 0; 0; 0; 0; 0; 0; 0; 0; 0; 0; 0; 0; 0; 0; 0; 0; 0; 0; 0; 0; 0; 0; 0; 0; 0; 0; 0; 0; 0; 0; 0; 0; 0; 0; 0; 0; 0; 0; 0; 0; 0; 0; 0; 0; 0; 0; 0; 0; 0; 0; 0; 0; 0; 0; 0; 0; 0; 0; 0; 0; 0; 0; 0; 0; 0; 3; 100; 0; 46; 0; 116; 0; 101; 0; 115; 0; 116; 0; 0; 0; 102; 0; 46; 0; 116; 0; 101; 0; 115; 0; 116; 0; 0; 0; 25; 44; 93; 15; 141; 251; 64; 85; 205; 186; 228; 142; 68; 51; 84; 187; 150; 237; 202; 21; 103; 70; 64; 67; 231; 241; 211; 15; 31; 32; 22; 180; 201; 134; 252; 5; 215; 211; 194; 28; 55; 233; 213; 89; 76; 111; 74; 243; 105; 80; 122; 182; 212; 155; 43; 139; 33; 47; 61; 127; 118; 120; 163; 158; 0; 0; 0; 0; 0; 0; 0; 0; 0; 0; 0; 0; 0; 0; 0; 0; 0; 0; 9; 6; 12; 0; 0; 0; 0; 0; 0; 0; 0; 0; 0; 0; 0; 0; 0; 0; 0; 0; 0; 0; 0; 0];
     ds_sched := [1; 2; 3; 50; 7] |}.
Definition ex_wrap : wrap_fn := fun _ b _ _ => (b, repeat 0 16).
Definition ex_unwrap : unwrap_fn := fun _ b _ _ _ => Ok b.

(* the whole conversation runs: both binds, the ept_map hop to port 49664, the sealed GetKey, the reply accepted *)
Example conversation_runs :
  exists env t wire args,
    unprotect_get_key Sync ex_wrap ex_unwrap ex_pv ex_legs ex_dc ex_sd
      {| kid_version := 1; kid_flags := 0; kid_l0 := 361; kid_l1 := 12; kid_l2 := 31; kid_rkid := ex_rk; kid_key_info := [];
         kid_domain := []; kid_forest := [] |} = (Ok env, t) /\
    tr_getkey_request t = Some (wire, Some args) /\ tr_port t = Some 49664 /\ tr_sign t = true /\
    length (tr_isd_binds t) = 2%nat /\
    (gke_l0 env, gke_l1 env, gke_l2 env) = (361, 12, 31) /\ len (gke_l1_key env) = 64 /\ gke_l2_key env = [] /\
    wf_env env = true /\
    wf_getkey (gk ex_sd (Some ex_rk) 361 12 31) = true /\
    get_key_conversation Async ex_wrap ex_unwrap ex_pv ex_legs ex_dc ex_sd (Some ex_rk) 361 12 31 = (Ok env, t).
Proof.
  eexists _, _, _, _. split; [vm_compute; reflexivity|]. repeat (split; [reflexivity|]). vm_compute. reflexivity.
Qed.

(* the hypotheses about a conforming DC's reply are satisfiable: a well-formed envelope marshals, and its NDR64 reply exists *)
Example conforming_reply_exists :
  exists e out reply, wf_env e = true /\ GroupKeyEnvelope_pack e = Ok out /\ Spec.GkdiLayout.ndr64_getkey_reply out 0 = Some reply /\
    process_get_key_result (reply ++ repeat 0 5) (Some 5) = Ok e.
Proof.
  eexists _, _, _. split; [exact wf_env_example|]. split; [vm_compute; reflexivity|]. split; [vm_compute; reflexivity|].
  vm_compute. reflexivity.
Qed.
