(* Concrete non-trivial messages meeting the hypotheses of the C12 / C18 theorems. *)
From V Require Import Prelude.Base Prelude.PyInt Prelude.PySlice Prelude.PyStr Spec.Ndr64Epm.
From V Require Import Model.Pdu Model.Request Model.RpcLoop Model.Bind Model.Verification Model.RpcDispatch Model.Epm.
From V Require Import Proofs.RpcEpm Proofs.RpcC18.

Definition ex_uuid : bytes := [4; 93; 136; 138; 235; 28; 201; 17; 159; 232; 8; 0; 43; 16; 72; 96].
Definition ex_header (pt frag auth : Z) : pdu_header :=
  {| h_version := 5; h_version_minor := 0; h_packet_type := pt; h_packet_flags := 3; h_data_rep := data_rep_default;
     h_frag_len := frag; h_auth_len := auth; h_call_id := 1 |}.
Definition ex_bind_ack : bind_ack :=
  {| ba_header := ex_header 12 100 8;
     ba_sec_trailer := Some {| st_type := 10; st_level := 6; st_pad_length := 0; st_context_id := 0; st_auth_value := [1; 2; 3; 4; 5; 6; 7; 8] |};
     ba_max_xmit_frag := 5840; ba_max_recv_frag := 5840; ba_assoc_group := 4660; ba_sec_addr := [52; 57; 54; 54; 56];
     ba_results := [ {| cr_result := 0; cr_reason := 0; cr_syntax := ex_uuid; cr_syntax_version := 1 |};
                     {| cr_result := 3; cr_reason := 3; cr_syntax := repeat 0 16; cr_syntax_version := 0 |} ] |}.

Lemma example_bind_ack : exists m packed bsa,
  ba_sec_addr m = [52; 57; 54; 54; 56] /\ length (ba_results m) = 2%nat /\
  sec_addr_bytes (ba_sec_addr m) = Ok bsa /\ bind_ack_pack m = Ok packed /\ wf_bind_ack_as c_PT_BIND_ACK m packed bsa = true.
Proof.
  exists ex_bind_ack. eexists. eexists. split; [reflexivity|]. split; [reflexivity|].
  split; [vm_compute; reflexivity|]. split; [vm_compute; reflexivity|]. vm_compute. reflexivity.
Qed.

Definition ex_tcp (port : Z) : floor := known_floor (FK_TCP port).
Definition ex_ip (addr : Z) : floor := known_floor (FK_IP addr).
(* first tower: 2 + 4 * 9 + 2 * 9 = 56 octets = 0 (mod 8): the residue EptMapResult.pack used to get wrong *)
Definition ex_result : ept_map_result :=
  {| er_entry_handle := None;
     er_towers := [ [ex_ip 1; ex_ip 2; ex_ip 3; ex_ip 4; ex_ip 5; ex_ip 6];
                    [ex_tcp 49664; {| fl_kind := FK_Generic; fl_protocol := 255; fl_lhs := [1; 2; 3]; fl_rhs := [] |}] ];
     er_status := 0 |}.
Lemma example_ept_map_result : exists m, length (er_towers m) = 2%nat /\ wf_ept_map_result m = true
  /\ len (tower_bytes (hd [] (er_towers m))) mod 8 = 0.
Proof. exists ex_result. split; [reflexivity|]. split; vm_compute; reflexivity. Qed.

(* C18: a reference reply with an unknown floor, a UUID floor and the TCP floor in the second tower *)
Definition ex_towers : list (list spec_floor) :=
  [ [ (13, ex_uuid ++ [2; 0], [0; 0]); (255, [9; 9; 9], [7]) ];
    [ (11, [], [0; 0]); (7, [], [194; 0]); (9, [], [0; 0; 0; 0]) ] ].
Lemma example_reply : wf_reply None 4 ex_towers 0 = true /\ spec_tcp_port ex_towers = Some 49664
  /\ wf_reply None 4 ex_towers 382312662 = true.
Proof. split; [vm_compute; reflexivity|]. split; vm_compute; reflexivity. Qed.

(* C12: a verification trailer with the three known commands and an unknown one (raw value of odd length); only the
   last command carries SEC_VT_COMMAND_END, the second also SEC_VT_MUST_PROCESS_COMMAND *)
Definition ex_syntax (v : Z) : syntax_id := {| sy_uuid := ex_uuid; sy_version := v; sy_version_minor := 0 |}.
Definition ex_commands : list command :=
  [ {| cmd_kind_of := CK_Bitmask 1; cmd_command := 0; cmd_flags := 0; cmd_value := [] |};
    {| cmd_kind_of := CK_PContext (ex_syntax 1) (ex_syntax 2); cmd_command := 0; cmd_flags := 32768; cmd_value := [] |};
    {| cmd_kind_of := CK_Header2 0 data_rep_default 7 1 0; cmd_command := 0; cmd_flags := 0; cmd_value := [] |};
    {| cmd_kind_of := CK_Generic; cmd_command := 100; cmd_flags := 16384; cmd_value := [1; 2; 3] |} ].
Lemma example_commands : wf_commands ex_commands = true /\ length ex_commands = 4%nat /\
  forallb wf_command ex_commands = true /\ len (verification_trailer_pack ex_commands) = 87.
Proof. split; [vm_compute; reflexivity|]. split; [reflexivity|]. split; vm_compute; reflexivity. Qed.

(* C12: an ept_map request with an object UUID, the five-floor TCP/IP tower plus an unknown floor, an entry handle *)
Definition ex_ept_map : ept_map :=
  {| em_obj := Some ex_uuid;
     em_tower := build_tcpip_tower (ex_syntax 1) (ex_syntax 2) 135 0 ++
                 [ {| fl_kind := FK_Generic; fl_protocol := 255; fl_lhs := [1; 2; 3]; fl_rhs := [9] |} ];
     em_entry_handle := Some (1, ex_uuid); em_max_towers := 4 |}.
Lemma example_ept_map : wf_ept_map ex_ept_map = true /\ in_range 4 (len (tower_bytes (em_tower ex_ept_map))) = true
  /\ length (em_tower ex_ept_map) = 6%nat /\ len (ept_map_pack ex_ept_map) = 152
  /\ wf_ept_map {| em_obj := None; em_tower := []; em_entry_handle := None; em_max_towers := 0 |} = true.
Proof. split; [vm_compute; reflexivity|]. split; [vm_compute; reflexivity|]. split; [reflexivity|]. split; vm_compute; reflexivity. Qed.
