(* Tie theorems (decrypt side: cek_decrypt, content_decrypt, _decrypt_blob): the regenerated syntax (gen/F_e2e.v), run in the
   world Flow/World_e2e.v, computes exactly the hand-written model functions the C01/C04 theorems are about. *)
From V Require Import Prelude.Base Prelude.PyAst Prelude.PyWorld gen.F_e2e.
From V Require Import Model.Types Model.Crypto Model.Kek Model.Asn1 Model.Pkcs7 Model.Blob Model.CryptoWrap Model.Client Flow.World_e2e.
Local Open Scope string_scope.
Local Open Scope list_scope.
Local Open Scope Z_scope.

Arguments len : simpl never.

Definition lift (r : res bytes) : res (pv obj) := let* b := r in Ok (VB b).

Lemma flow_cek_decrypt c fuel a p kek v :
  run (W c) fuel k_flow_cek_decrypt [VO (OOid a); vopt_bytes p; VB kek; VB v] = lift (cek_decrypt c a p kek v).
Proof.
  unfold cek_decrypt, lift. cbn. destruct (oid_eqb a _); cbn; [|reflexivity].
  destruct (kw_unwrap c kek v); reflexivity.
Qed.

Lemma flow_content_decrypt c fuel a p cek v :
  run (W c) fuel k_flow_content_decrypt [VO (OOid a); vopt_bytes p; VB cek; VB v] = lift (content_decrypt c a p cek v).
Proof.
  unfold content_decrypt, gcm_iv_of_parameters, lift, truthy. cbn.
  destruct (oid_eqb a _); cbn; [|reflexivity].
  destruct p as [p|]; cbn; [|reflexivity].
  destruct p as [|x p]; cbn; [reflexivity|].
  rewrite len_cons. replace (1 + len p =? 0) with false by (pose proof (len_nonneg p); lia). cbn.
  destruct (read_sequence (x :: p) None None) as [[content rest]|e]; cbn; [|reflexivity].
  destruct (read_octet_string content None None) as [[iv rest']|e]; cbn; [|reflexivity].
  destruct (gcm_dec c cek iv v); reflexivity.
Qed.

Lemma opt_of_vopt p : opt_of (vopt_bytes p) = Some p.
Proof. destruct p; reflexivity. Qed.

(* _decrypt_blob: the callees cek_decrypt / content_decrypt are the model functions the two lemmas above tie to their own
   regenerated bodies *)
Lemma flow_decrypt_blob c fuel b key :
  run (W c) fuel k_flow_decrypt_blob [VO (OBlob b); VO (OEnv key)] = lift (decrypt_blob c b key).
Proof.
  unfold decrypt_blob, lift. cbn.
  destruct (get_kek c key (b_key_identifier b)) as [kek|e]; cbn; [|reflexivity].
  rewrite opt_of_vopt. cbn.
  destruct (cek_decrypt c _ _ kek _) as [cek|e]; cbn; [|reflexivity].
  rewrite opt_of_vopt. cbn.
  destruct (content_decrypt c _ _ cek _); reflexivity.
Qed.
