(* Tie theorems, get_target_sd of _blob.py (the SID -> security descriptor step of the unprotect path, C05): the regenerated
   syntax run in the world Flow/World_cms.v computes Model.SecDesc.get_target_sd (callees sd_to_bytes / ace_to_bytes := their
   models, tied to their own bodies in Proofs/Flow_sd_*.v). *)
From V Require Import Prelude.PyAst.
From V Require Import Prelude.Base Prelude.PyInt Prelude.PySlice Prelude.PyStr Prelude.PyWorld Prelude.PyAstMut gen.K_sd gen.F_asn1.
From V Require Import Model.Types Model.SecDesc Flow.World_cms.
Local Open Scope string_scope.
Local Open Scope list_scope.
Local Open Scope Z_scope.

Arguments len : simpl never.
Arguments ace_to_bytes : simpl never.
Arguments sd_to_bytes : simpl never.

(* ProtectionDescriptor.get_target_sd is abstract (raise NotImplementedError); every descriptor the library builds is a
   SIDDescriptor, whose get_target_sd is Model.SecDesc.get_target_sd *)
Lemma flow_ProtectionDescriptor_get_target_sd fuel self :
  run_mut MW fuel k_flow_ProtectionDescriptor_get_target_sd [self] = Raise NotImplementedError.
Proof. reflexivity. Qed.

Lemma flow_SIDDescriptor_get_target_sd fuel sid :
  run_mut MW fuel k_flow_SIDDescriptor_get_target_sd [VO (OSidDesc sid)]
  = let* b := get_target_sd sid in Ok (VB b, [VO (OSidDesc sid)]).
Proof.
  unfold get_target_sd. cbn.
  change [83; 45; 49; 45; 49; 45; 48] with k_tsd_everyone.
  destruct (ace_to_bytes sid _) as [a1|e]; cbn; [|reflexivity].
  destruct (ace_to_bytes k_tsd_everyone _) as [a2|e]; cbn; [|reflexivity].
  destruct (sd_to_bytes _ _ _ _) as [b|e]; cbn; reflexivity.
Qed.
