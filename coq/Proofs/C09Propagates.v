(* C09, last clause: the key identifier placed in a new blob names the interval containing the time of the protect call. *)
From V Require Import Prelude.Base Prelude.PyInt Prelude.PySlice Prelude.PyStr.
From V Require Import Model.Types Model.Crypto Model.KeyId Model.Gkdi Model.Kek Model.SecDesc Model.Blob Model.Interval Model.Client.
From V Require Import Proofs.BlobPkcs7 Proofs.BlobMain Proofs.C01Lib Proofs.C01.

Lemma propagates (c : Crypto) (h : hash) (rk : root_key) (rkid : bytes) (s : sid) (sid : pystr) (time_ns l0 l1 l2 : Z) :
  rk_hash rk = Ok h -> rk_kdf_alg rk = STR_KDF_ALG -> len rkid = 16 -> sid_parse sid = Ok s -> sid_okb sid = true ->
  0 <= time_ns -> interval_of_time_ns time_ns = (l0, l1, l2) -> kdf_nonempty c ->
  forall (cache : ccache) (r1 r2 r3 data blob : bytes) (cache1 : ccache),
  cache_ok c h rk rkid (target_sd s) l0 cache -> len r2 = 12 -> len r3 = 32 ->
  (forall kek w, derived_kek c h rk rkid (target_sd s) l0 l1 l2 r3 = Ok kek -> kw_wrap c kek r1 = Ok w -> len w < U32) ->
  (forall ct, gcm_enc c r1 r2 data = Ok ct -> len ct < U32) ->
  protect_offline c cache r1 r2 r3 data sid (Some rkid) time_ns = (Ok blob, cache1) ->
  exists b, blob_unpack blob = Ok b /\
    kid_l0 (b_key_identifier b) = l0 /\ kid_l1 (b_key_identifier b) = l1 /\ kid_l2 (b_key_identifier b) = l2 /\
    kid_rkid (b_key_identifier b) = rkid.
Proof.
  intros Hh Ha Hr Hs Hok Hns Hint Hne cache r1 r2 r3 data blob cache1 Hc Hr2 Hr3 Sw Sct Hp.
  destruct (protect_inv c h rk rkid s sid time_ns l0 l1 l2 Hh Ha Hr Hs Hok Hns Hint Hne cache r1 r2 r3 data blob cache1 Hc Hr2 Hr3 Sw Sct Hp)
    as (e0 & seed & w & ct & p & _ & _ & _ & _ & _ & _ & _ & _ & _ & _ & Hb). cbv zeta in Hb. destruct Hb as (_ & _ & Eu).
  eexists. split; [exact Eu|]. cbn. repeat split; reflexivity.
Qed.
