(* Tie theorem for _client._get_protection_gke_from_cache: the regenerated syntax (gen/F_e2e.v), run in the world WR of
   Flow/World_e2e.v in which time.time_ns() returns time_ns, returns exactly the envelope Model/Client.v
   protection_gke_from_cache returns (the interval arithmetic of the source is compared with the regenerated kernels k_now / k_l0 /
   k_l1 / k_l2 the C09 theorems are about).  root_key_identifier : Optional[uuid.UUID] (None or its bytes_le), cache : KeyCache.
   A Python function returns one value: the model's second component (the cache after KeyCache._get_key, which the source
   mutates in place through the `cache` argument) is not visible in `run` and is not part of the statement. *)
From V Require Import Prelude.Base Prelude.PyAst Prelude.PyWorld gen.F_e2e gen.Kernels gen.Consts.
From V Require Import Model.Types Model.Crypto Model.Chain Model.Gkdi Model.Interval Model.Client Flow.World_e2e.
Local Open Scope string_scope.
Local Open Scope list_scope.
Local Open Scope Z_scope.

Local Arguments len : simpl never.
Local Arguments Z.div : simpl never.
Local Arguments Z.modulo : simpl never.
Local Arguments Z.add : simpl never.
Local Opaque cc_get_key KDFParameters_unpack hash_algorithm compute_l2_key.

Definition lift_gke (r : res (option envelope * ccache)) : res (pv obj) := let* (e, _) := r in Ok (vopt_env e).

Lemma flow_get_protection_gke_from_cache c rnd_cek rnd_iv rnd_kek time_ns fuel rkid target_sd cache :
  run (WR c rnd_cek rnd_iv rnd_kek time_ns) fuel k_flow_get_protection_gke_from_cache [vopt_uuid rkid; VB target_sd; VO (OCache cache)]
  = lift_gke (protection_gke_from_cache c cache rkid target_sd time_ns).
Proof.
  unfold protection_gke_from_cache, lift_gke, interval_of_time_ns.
  destruct rkid as [rid|]; [|reflexivity].
  unfold k_l0, k_l1, k_l2, k_now, c_EPOCH_FILETIME. cbn.
  destruct (cc_get_key c cache target_sd rid _ _ _) as [[rko cache1]|e]; cbn; [|reflexivity].
  destruct rko as [rk|]; cbn; [|reflexivity].
  destruct (KDFParameters_unpack _) as [n|e]; cbn; [|reflexivity].
  destruct (hash_algorithm n) as [h|e]; cbn; [|reflexivity].
  destruct (compute_l2_key c h _ _ rk) as [k|e]; cbn; reflexivity.
Qed.
