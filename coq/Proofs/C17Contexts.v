(* C17 / C15: in the conversation of Model/Conversation.v a request goes out only on a presentation context that the bind_ack of THAT
   connection's peer accepted (composition of Handshake.bind_run's result vector with process_bind_result inside get_key_conversation). *)
From V Require Import Prelude.Base Prelude.PyInt Prelude.PySlice.
From V Require Import gen.K_client gen.C_client gen.C_rpc gen.C_gkdi gen.K_online gen.C_online.
From V Require Import Model.Pdu Model.Request Model.Bind Model.Verification Model.Epm.
From V Require Import Model.Handshake Model.Framing Model.Seal Model.Recv.
From V Require Import Model.Types Model.Gkdi Model.Conversation.
From V Require Import Proofs.C15 Proofs.C15Progress.

Definition accepted_by (srv : list reply) (ids : list Z) (ctx : Z) : Prop :=
  exists rs fl tk rest i, srv = RBindAck rs fl tk :: rest /\ (i < length rs)%nat /\ nth i rs 1 = c_ACCEPTANCE /\
    index ids (Z.of_nat i) = Ok ctx.

Lemma isd_phase_transcript f wrap unwrap pv legs dc g t :
  tr_ept_request (snd (isd_key_phase f wrap unwrap pv legs dc g t)) = tr_ept_request t /\
  (tr_getkey_request (snd (isd_key_phase f wrap unwrap pv legs dc g t)) <> None ->
   accepted_by (ds_isd_srv dc) (context_ids isd_key_contexts) c_onl_isd_ctx_id) \/
  (tr_ept_request (snd (isd_key_phase f wrap unwrap pv legs dc g t)) = tr_ept_request t /\
   tr_getkey_request (snd (isd_key_phase f wrap unwrap pv legs dc g t)) = tr_getkey_request t).
Proof.
  unfold isd_key_phase.
  destruct (bind_run true legs (ds_isd_srv dc) (context_ids isd_key_contexts)) as [[rs|e] s] eqn:Eb; cbn; [|right; auto].
  destruct (process_bind_result _ rs _) as [[]|e] eqn:Ep; cbn; [|right; auto].
  left. assert (Ha : accepted_by (ds_isd_srv dc) (context_ids isd_key_contexts) c_onl_isd_ctx_id).
  { destruct (bind_then_result _ _ _ _ _ _ _ Eb Ep) as (fl & tk & rest & i & H). exists rs, fl, tk, rest, i. exact H. }
  destruct (isd_request f wrap unwrap pv (sign s) g (ds_getkey_stream dc) (ds_sched dc)) as [sr [rsp|e]]; cbn; auto.
Qed.

Theorem conversation_request_contexts f wrap unwrap pv legs dc sd rk l0 l1 l2 r t :
  get_key_conversation f wrap unwrap pv legs dc sd rk l0 l1 l2 = (r, t) ->
  (tr_ept_request t <> None -> accepted_by (ds_epm_srv dc) (context_ids epm_contexts) c_onl_epm_ctx_id) /\
  (tr_getkey_request t <> None -> accepted_by (ds_isd_srv dc) (context_ids isd_key_contexts) c_onl_isd_ctx_id).
Proof.
  unfold get_key_conversation.
  destruct (bind_run false [] (ds_epm_srv dc) (context_ids epm_contexts)) as [[rs|e] s] eqn:Eb; cbn.
  2:{ intro H. inversion H; subst. cbn. split; intro; congruence. }
  destruct (process_bind_result _ rs _) as [[]|e] eqn:Ep; cbn.
  2:{ intro H. inversion H; subst. cbn. split; intro; congruence. }
  assert (Ha : accepted_by (ds_epm_srv dc) (context_ids epm_contexts) c_onl_epm_ctx_id).
  { destruct (bind_then_result _ _ _ _ _ _ _ Eb Ep) as (fl & tk & rest & i & H). exists rs, fl, tk, rest, i. exact H. }
  destruct (rpc_request f wrap unwrap None (sign s) _ c_onl_ept_map_opnum c_onl_ept_map_stub None (ds_ept_stream dc) (ds_sched dc))
    as [sr [rsp|e]]; cbn.
  2:{ intro H. inversion H; subst. cbn. split; [auto|intro; congruence]. }
  destruct (process_ept_map_result _ _) as [[port tk]|e]; cbn.
  2:{ intro H. inversion H; subst. cbn. split; [auto|intro; congruence]. }
  intro H. match type of H with ?x = _ => assert (Ht : t = snd x) by (rewrite H; reflexivity) end. subst t.
  split; [auto|].
  match goal with |- context [isd_key_phase ?a ?b ?c ?d ?e ?f0 ?g ?t0] =>
    destruct (isd_phase_transcript a b c d e f0 g t0) as [[_ Hl]|[_ Hr]] end.
  - exact Hl.
  - rewrite Hr. cbn. congruence.
Qed.
