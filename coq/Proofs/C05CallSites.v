(* C05, "a bounded number of key-derivation steps": the STATIC half. In the regenerated source syntax (gen/F_gkdi.v, F_e2e.v, F_cache.v),
   the call sites of the two KDFs and of the functions that lead to them, and which bodies are loop free. Together with the proved bound
   on the loops of compute_l2_key (C05_l2_loops_within_fuel / C05_bounded_kdf_partial: at most 31 + 1 + 31 calls) this gives
   2 (compute_l1_key) + 63 (compute_l2_key) + at most 3 (get_kek: 1 in nonce mode; compute_kek_from_public_key 1 + compute_kek 1 + kdf_concat 1
   in public-key mode) KDF calls per unprotect: every other function on the path is loop free and has the call sites listed here.
   (KeyCache._get_key, which calls compute_l1_key once, is refused by the flow translator - store through an alias - and is not in the
   table; its single call site is in the model and the kernels.) *)
From V Require Import Prelude.PyAst Prelude.PySyntax gen.F_gkdi gen.F_e2e gen.F_cache.
From V Require Import Prelude.Base.
Local Open Scope string_scope.

(* (kdf, kdf_concat, compute_l2_key, compute_kek, compute_kek_from_public_key, get_kek, _decrypt_blob, loop free) *)
Definition kdf_row (f : pfun) : nat * nat * nat * nat * nat * nat * nat * bool :=
  (count_calls "kdf" f, count_calls "kdf_concat" f, count_calls "compute_l2_key" f, count_calls "compute_kek" f,
   count_calls "compute_kek_from_public_key" f, count_calls "get_kek" f, count_calls "_decrypt_blob" f, loop_free f).

Lemma kdf_call_sites :
  kdf_row k_flow_compute_l1_key = (2, 0, 0, 0, 0, 0, 0, true)%nat /\
  kdf_row k_flow_compute_l2_key = (3, 0, 0, 0, 0, 0, 0, false)%nat /\
  kdf_row k_flow_compute_kek = (1, 1, 0, 0, 0, 0, 0, true)%nat /\
  kdf_row k_flow_compute_kek_from_public_key = (1, 0, 0, 1, 0, 0, 0, true)%nat /\
  kdf_row k_flow_gke_get_kek = (1, 0, 1, 0, 1, 0, 0, true)%nat /\
  kdf_row k_flow_decrypt_blob = (0, 0, 0, 0, 0, 1, 0, true)%nat /\
  kdf_row k_flow_ncrypt_unprotect_secret = (0, 0, 0, 0, 0, 0, 1, true)%nat /\
  kdf_row k_flow_kdf = (0, 0, 0, 0, 0, 0, 0, true)%nat /\
  kdf_row k_flow_kdf_concat = (0, 0, 0, 0, 0, 0, 0, true)%nat.
Proof. repeat split; vm_compute; reflexivity. Qed.
