(* C05, key layer: KDF parameters, KDF context (signed 32-bit fields), the key chain (invariant-style proof
   on the regenerated kernel k_compute_l2_key with a call counter), DH / ECDH key decoders, KEK derivation,
   the crypto wrappers, the key cache and the composition unprotect_offline. *)
From V Require Import Prelude.Base Prelude.PyInt Prelude.PySlice Prelude.PyStr Prelude.Loops.
From V Require Import gen.Kernels gen.K_cache gen.K_gkdi gen.C_gkdi gen.Consts gen.C_asn1.
From V Require Import Model.Types Model.Crypto Model.Sym Model.Chain Model.KeyId Model.Gkdi Model.Kek Model.SecDesc.
From V Require Import Model.Asn1 Model.Pkcs7 Model.Blob Model.CryptoWrap Model.Client.
From V Require Import Proofs.C05 Proofs.C05Asn1 Proofs.C05Blob Proofs.Asn1Lib Proofs.KekLib.

(* ---- fuelled loops by invariant + measure ---- *)
Lemma while_inv {St} (Inv : St -> Prop) (m : St -> nat) (cond : St -> bool) (body : St -> St) :
  (forall s, Inv s -> cond s = true -> Inv (body s) /\ (m (body s) < m s)%nat) ->
  forall fuel s, Inv s -> (m s <= fuel)%nat ->
  exists s', while fuel cond body s = Ok s' /\ Inv s' /\ cond s' = false.
Proof.
  intros Hstep. induction fuel as [|fuel IH]; intros s Hi Hm; cbn [while]; destruct (cond s) eqn:Ec; eauto.
  - destruct (Hstep s Hi Ec). lia.
  - destruct (Hstep s Hi Ec) as [Hi' Hm']. apply IH; [assumption|lia].
Qed.

(* ---- compute_l2_key: the kernel, any key type K, any invariant I indexed by the number of KDF calls ---- *)
Section L2.
Context {K : Type} (kdf : K -> Z -> Z -> K) (I : Z -> K -> Prop).
Hypothesis Hk : forall n k x y, I n k -> -1 <= x <= 31 -> -1 <= y <= 31 -> I (n + 1) (kdf k x y).

Lemma k_compute_l2_key_inv fuel l1 l2 a b k1 k2 :
  a <= 31 -> b <= 31 -> I 0 k1 -> I 0 k2 -> (32 <= fuel)%nat ->
  match k_compute_l2_key kdf fuel l1 l2 a b k1 k2 with
  | Ok r => exists n, 0 <= n <= 63 /\ I n r
  | Raise e => e = ValueError
  end.
Proof.
  intros Ha Hb H1 H2 Hf. unfold k_compute_l2_key.
  destruct (negb _) eqn:G1; [reflexivity|].
  destruct (_ || _) eqn:G2; [reflexivity|].
  match goal with |- context [while fuel ?c ?bd ?s0] =>
    pose proof (while_inv
      (fun st : bool * Z * K => let '(r, x, k) := st in
         l1 <= x <= 31 /\ (r = false -> b <> 31 /\ a = l1) /\ exists n, 0 <= n <= 31 - x /\ I n k)
      (fun st : bool * Z * K => let '(_, x, _) := st in Z.to_nat (x - l1)) c bd) as HW1;
    lapply HW1; [clear HW1; intro HW1; destruct (HW1 fuel s0) as ([[r x] k] & Hw & (Hx & Hr & n & Hn & Hik) & Hc); clear HW1|]
  end.
  - split; [destruct (negb (b =? 31) && negb (a =? l1)) eqn:E; lia|]. split; [lia|].
    exists 0. split; [destruct (negb (b =? 31) && negb (a =? l1)) eqn:E; lia|assumption].
  - destruct (negb (b =? 31) && negb (a =? l1)) eqn:E; lia.
  - rewrite Hw. cbn [bind]. assert (x = l1) by lia. subst x.
    match goal with |- context [while fuel ?c ?bd _] =>
      pose proof (while_inv
        (fun st : Z * K => let '(y, k) := st in l2 <= y <= 31 /\ exists n, 0 <= n <= 32 + (31 - y) /\ I n k)
        (fun st : Z * K => let '(y, _) := st in Z.to_nat (y - l2)) c bd) as HW;
      lapply HW; [clear HW; intro HW; specialize (HW fuel)|]
    end.
    + destruct r.
      * destruct (HW (31, kdf k l1 31)) as ([y k'] & Hw2 & (Hy & m & Hm & Hik') & Hc2).
        -- split; [lia|]. exists (n + 1). split; [lia|]. apply Hk; [assumption|lia|lia].
        -- lia.
        -- rewrite Hw2. cbn [bind]. exists m. split; [lia|assumption].
      * destruct (Hr eq_refl) as [Hb31 Hal].
        destruct (HW (b, k2)) as ([y k'] & Hw2 & (Hy & m & Hm & Hik') & Hc2).
        -- split; [lia|]. exists 0. split; [lia|assumption].
        -- lia.
        -- rewrite Hw2. cbn [bind]. exists m. split; [lia|assumption].
    + intros [y k'] (Hy & m & Hm & Hik') Hc'. split; [|lia]. split; [lia|].
      exists (m + 1). split; [lia|]. apply Hk; [assumption|lia|lia].
  - intros [[r x] k] (Hx & Hr & n & Hn & Hik) Hc. split; [|lia].
    split; [lia|]. split; [discriminate|]. exists (n + 1). split; [lia|]. apply Hk; [assumption|lia|lia].
Qed.
End L2.

(* ---- KDFParameters.unpack, the hash enum ---- *)
Lemma KDFParameters_unpack_safe data : Safe (KDFParameters_unpack data).
Proof. unfold KDFParameters_unpack. destruct (_ || _); [reflexivity|apply utf16le_decode_safe]. Qed.
Lemma hash_algorithm_safe name : Safe (hash_algorithm name).
Proof. unfold hash_algorithm. repeat (destruct (Gkdi.str_eqb _ _); [exact I|]). reflexivity. Qed.

(* ---- compute_kdf_context: three int.to_bytes(4, "little", signed=True) ---- *)
Definition i32 (z : Z) : Prop := -2147483648 <= z <= 2147483647.
Lemma to_bytes_le_signed_4 z : i32 z -> to_bytes_le_signed 4 z = Ok (le 4 (z mod P 4)).
Proof. intros H. unfold i32 in H. unfold to_bytes_le_signed. rewrite P_4. destruct (_ && _) eqn:E; [reflexivity|lia]. Qed.
(* ... and OverflowError is exactly what happens outside the signed range: the guards are load-bearing *)
Lemma to_bytes_le_signed_4_overflow z : ~ i32 z -> to_bytes_le_signed 4 z = Raise OverflowError.
Proof. intros H. unfold i32 in H. unfold to_bytes_le_signed. rewrite P_4. destruct (_ && _) eqn:E; [lia|reflexivity]. Qed.
Lemma compute_kdf_context_ok rkid l0 l1 l2 : i32 l0 -> i32 l1 -> i32 l2 ->
  exists ctx, compute_kdf_context rkid l0 l1 l2 = Ok ctx.
Proof.
  intros H0 H1 H2. unfold compute_kdf_context. rewrite !to_bytes_le_signed_4 by assumption. cbn [bind]. eauto.
Qed.
Lemma compute_kdf_context_safe rkid l0 l1 l2 : i32 l0 -> i32 l1 -> i32 l2 -> Safe (compute_kdf_context rkid l0 l1 l2).
Proof. intros H0 H1 H2. destruct (compute_kdf_context_ok rkid l0 l1 l2 H0 H1 H2) as [ctx ->]. exact I. Qed.
Lemma compute_kdf_context_l0_overflow rkid l0 l1 l2 : ~ i32 l0 -> compute_kdf_context rkid l0 l1 l2 = Raise OverflowError.
Proof. intros H. unfold compute_kdf_context. now rewrite to_bytes_le_signed_4_overflow. Qed.

(* ---- compute_l1_key: behind the L0 guard of KeyCache._get_key ---- *)
Lemma compute_l1_key_safe c h sd rkid l0 key : 0 <= l0 <= 2147483647 -> Safe (compute_l1_key c h sd rkid l0 key).
Proof.
  intros H. unfold compute_l1_key.
  destruct (compute_kdf_context_ok rkid l0 (-1) (-1)) as [c0 ->]; try (unfold i32; lia). cbn [bind].
  destruct (compute_kdf_context_ok rkid l0 31 (-1)) as [c1 ->]; try (unfold i32; lia). exact I.
Qed.

(* ---- compute_l2_key: every context it builds has positions in -1..31 ---- *)
Lemma kdfK_safe c h rkid l0 k a b : i32 l0 -> Safe k -> -1 <= a <= 31 -> -1 <= b <= 31 -> Safe (kdfK c h rkid l0 k a b).
Proof.
  intros H0 Hs Ha Hb. unfold kdfK. apply Safe_bind; [assumption|]. intros key.
  destruct (compute_kdf_context_ok rkid l0 a b) as [ctx ->]; try (unfold i32; lia); try assumption. exact I.
Qed.
Lemma compute_l2_key_safe c h l1 l2 e : i32 (gke_l0 e) -> gke_l1 e <= 31 -> gke_l2 e <= 31 ->
  Safe (compute_l2_key c h l1 l2 e).
Proof.
  intros H0 H1 H2. unfold compute_l2_key.
  pose proof (k_compute_l2_key_inv (kdfK c h (gke_rkid e) (gke_l0 e)) (fun _ k => Safe k)
                (fun n k x y Hs Hx Hy => kdfK_safe c h _ _ k x y H0 Hs Hx Hy)
                L2_FUEL l1 l2 (gke_l1 e) (gke_l2 e) (Ok (gke_l1_key e)) (Ok (gke_l2_key e)) H1 H2 I I) as H.
  specialize (H ltac:(unfold L2_FUEL; lia)).
  destruct (k_compute_l2_key _ _ _ _ _ _ _ _) as [r|x].
  - destruct H as (n & _ & Hs). exact Hs.
  - subst x. reflexivity.
Qed.

(* the number of KDF calls of one compute_l2_key: instrument ANY kdf with a counter *)
Definition counted {K : Type} (kdf : K -> Z -> Z -> K) (kn : K * Z) (a b : Z) : K * Z := (kdf (fst kn) a b, snd kn + 1).
Lemma l2_kdf_calls_bounded {K : Type} (kdf : K -> Z -> Z -> K) fuel l1 l2 a b k1 k2 r :
  a <= 31 -> b <= 31 -> (32 <= fuel)%nat ->
  k_compute_l2_key (counted kdf) fuel l1 l2 a b (k1, 0) (k2, 0) = Ok r -> 0 <= snd r <= 63.
Proof.
  intros Ha Hb Hf E.
  assert (Hk : forall n (k : K * Z) x y, snd k = n -> -1 <= x <= 31 -> -1 <= y <= 31 -> snd (counted kdf k x y) = n + 1)
    by (intros n k x y Hn _ _; cbn [counted snd]; lia).
  pose proof (k_compute_l2_key_inv (counted kdf) (fun n kn => snd kn = n) Hk
                fuel l1 l2 a b (k1, 0) (k2, 0) Ha Hb eq_refl eq_refl Hf) as H.
  rewrite E in H. destruct H as (n & Hn & Hr). lia.
Qed.
(* the instrumented run computes the same key: projection commutes with the loops *)
Lemma while_proj {S1 S2} (p : S1 -> S2) c1 b1 c2 b2 :
  (forall s, c1 s = c2 (p s)) -> (forall s, p (b1 s) = b2 (p s)) ->
  forall fuel s, match while fuel c1 b1 s with Ok s' => while fuel c2 b2 (p s) = Ok (p s') | Raise x => while fuel c2 b2 (p s) = Raise x end.
Proof.
  intros Hc Hb. induction fuel as [|fuel IH]; intros s; cbn [while]; rewrite <- Hc; destruct (c1 s); try reflexivity.
  rewrite <- Hb. apply IH.
Qed.
Lemma counted_same_key {K : Type} (kdf : K -> Z -> Z -> K) fuel l1 l2 a b k1 k2 n1 n2 :
  match k_compute_l2_key (counted kdf) fuel l1 l2 a b (k1, n1) (k2, n2) with
  | Ok r => k_compute_l2_key kdf fuel l1 l2 a b k1 k2 = Ok (fst r)
  | Raise x => k_compute_l2_key kdf fuel l1 l2 a b k1 k2 = Raise x
  end.
Proof.
  unfold k_compute_l2_key.
  destruct (negb _); [reflexivity|]. destruct (_ || _); [reflexivity|].
  match goal with |- context [while fuel ?c1 ?b1 ?s1] =>
    match goal with |- context [@while (bool * Z * K) fuel ?c2 ?b2 ?s2] =>
      pose proof (while_proj (fun st : bool * Z * (K * Z) => let '(r, x, kn) := st in (r, x, fst kn)) c1 b1 c2 b2
                    ltac:(intros [[? ?] ?]; reflexivity) ltac:(intros [[? ?] ?]; reflexivity) fuel s1) as H1
    end end.
  cbv beta iota in H1. cbn [fst] in H1.
  destruct (while fuel _ _ (_, _, (k1, n1))) as [[[r x] [k n]]|e1]; rewrite H1; cbn [bind fst]; [|reflexivity].
  destruct r.
  - match goal with |- context [while fuel ?c1 ?b1 (31, counted kdf (k, n) x 31)] =>
      match goal with |- context [@while (Z * K) fuel ?c2 ?b2 _] =>
        pose proof (while_proj (fun st : Z * (K * Z) => let '(y, kn) := st in (y, fst kn)) c1 b1 c2 b2
                      ltac:(intros [? ?]; reflexivity) ltac:(intros [? ?]; reflexivity) fuel (31, counted kdf (k, n) x 31)) as H2
      end end.
    cbv beta iota in H2. cbn [fst counted] in H2.
    destruct (while fuel _ _ (31, counted kdf (k, n) x 31)) as [[y [k' n']]|e2]; cbn [bind fst]; rewrite H2; reflexivity.
  - match goal with |- context [while fuel ?c1 ?b1 (b, (k2, n2))] =>
      match goal with |- context [@while (Z * K) fuel ?c2 ?b2 _] =>
        pose proof (while_proj (fun st : Z * (K * Z) => let '(y, kn) := st in (y, fst kn)) c1 b1 c2 b2
                      ltac:(intros [? ?]; reflexivity) ltac:(intros [? ?]; reflexivity) fuel (b, (k2, n2))) as H2
      end end.
    cbv beta iota in H2. cbn [fst] in H2.
    destruct (while fuel _ _ (b, (k2, n2))) as [[y [k' n']]|e2]; cbn [bind fst]; rewrite H2; reflexivity.
Qed.

(* ---- FFCDHKey.unpack / ECDHKey.unpack ---- *)
Lemma length_slice_window {A} (l : list A) a n : 0 <= a -> 0 <= n ->
  (length (slice (Some a) (Some (a + n)%Z) l) <= Z.to_nat n)%nat.
Proof.
  intros Ha Hn. unfold slice, norm. rewrite firstn_length.
  destruct (a <? 0) eqn:E1; [lia|]. destruct (a + n <? 0) eqn:E2; lia.
Qed.
Lemma le_val_nonneg l : wfb l = true -> 0 <= le_val l.
Proof. intros H. pose proof (le_val_range l H). lia. Qed.

Lemma FFCDHKey_unpack_safe data :
  SafeP (fun k => wfb data = true -> 0 <= ffk_key_length k /\ 0 <= ffk_field_order k < P (Z.to_nat (ffk_key_length k)))
        (FFCDHKey_unpack data).
Proof.
  unfold FFCDHKey_unpack. destruct (negb (beqb _ c_FFCDH_KEY_MAGIC)); [reflexivity|].
  cbv zeta. destruct (k_ffcdhkey_short _ _); [reflexivity|].
  cbn [SafeP ffk_key_length ffk_field_order]. intros Hw.
  set (kl := le_val (slice (Some 4) (Some 8) data)).
  assert (Hkl : 0 <= kl) by (apply le_val_nonneg, wfb_slice, Hw). split; [assumption|].
  pose proof (be_val_range (slice (Some 8) (Some (8 + kl)) data) (wfb_slice _ _ _ Hw)) as Hr.
  pose proof (P_mono _ _ (length_slice_window data 8 kl ltac:(lia) Hkl)). lia.
Qed.
Lemma FFCDHParameters_unpack_safe data : Safe (FFCDHParameters_unpack data).
Proof. unfold FFCDHParameters_unpack. destruct (negb (beqb _ c_FFCDH_PARAMS_MAGIC)); [reflexivity|]. exact I. Qed.
Lemma ECDHKey_unpack_safe data :
  SafeP (fun k => exists cv, curve_and_hash k = Ok (cv, curve_hash cv)) (ECDHKey_unpack data).
Proof.
  unfold ECDHKey_unpack. destruct (curve_of_id _) as [cv|]; [|reflexivity].
  cbn [SafeP]. exists cv. unfold curve_and_hash. cbn [eck_curve_name]. destruct cv; reflexivity.
Qed.

(* ---- pow(b, e, m) and the fixed-width big-endian encoding of the shared secret ---- *)
Lemma modpow_range_all b e m : 0 < m -> 0 <= modpow b e m < m.
Proof.
  intros Hm. destruct e as [|e|e]; cbn [modpow].
  - apply Z.mod_pos_bound, Hm.
  - rewrite powmod_pos_spec by assumption. apply Z.mod_pos_bound, Hm.
  - lia.
Qed.
Lemma py_pow3_safe b e m : 0 <= m -> SafeP (fun v => 0 <= v < m) (py_pow3 b e m).
Proof. intros Hm. unfold py_pow3. destruct (m =? 0) eqn:E; [reflexivity|]. apply modpow_range_all. lia. Qed.
Lemma to_bytes_be_z_safe n v : 0 <= v < P (Z.to_nat n) -> Safe (to_bytes_be_z n v).
Proof.
  intros H. unfold to_bytes_be_z. destruct (n <? 0); [reflexivity|]. unfold to_bytes_be.
  destruct (_ && _) eqn:E; [exact I|lia].
Qed.

Lemma utf16le_encode_safe s : Safe (utf16le_encode s).
Proof.
  induction s as [|ch s IH]; cbn [utf16le_encode]; [exact I|].
  apply Safe_bind.
  - unfold utf16_cp. destruct (negb (scalar ch)); [reflexivity|]. destruct (ch <? 65536); exact I.
  - intros a. apply Safe_bind; [exact IH|]. intros; exact I.
Qed.
Lemma encode_utf16z_safe s : Safe (encode_utf16z s).
Proof. apply utf16le_encode_safe. Qed.

Section WithCrypto.
Context (c : Crypto) (Hc : CryptoLaws c).

Lemma ec_dh_safe cv d Q : Safe (ec_dh c cv d Q).
Proof. destruct (ec_dh c cv d Q) eqn:E; [exact I|]. now rewrite (ec_dh_errors c Hc _ _ _ _ E). Qed.
Lemma kw_unwrap_safe k w : Safe (kw_unwrap c k w).
Proof. destruct (kw_unwrap c k w) eqn:E; [exact I|]. destruct (kw_unwrap_errors c Hc _ _ _ E); subst; reflexivity. Qed.
Lemma gcm_dec_safe k n ct : Safe (gcm_dec c k n ct).
Proof. destruct (gcm_dec c k n ct) eqn:E; [exact I|]. destruct (gcm_dec_errors c Hc _ _ _ _ E); subst; reflexivity. Qed.

(* ---- compute_kek: the public key is attacker-supplied bytes ---- *)
Lemma compute_kek_safe alg sa sp priv pub : wfb pub = true -> Safe (compute_kek c alg sa sp priv pub).
Proof.
  intros Hw. unfold compute_kek. apply Safe_bind; [|intros [? ?]; exact I].
  destruct (Gkdi.str_eqb sa STR_DH).
  - apply SafeP_Safe with (Q := fun _ => True).
    eapply SafeP_bind; [apply (FFCDHKey_unpack_safe pub)|]. cbv beta. intros k Hk. destruct (Hk Hw) as [Hkl Hfo].
    (* repair of D16: the group's parameters are decoded (ValueError on a bad magic) and two deliberate ValueErrors *)
    eapply SafeP_bind with (Q := fun _ => True); [apply Safe_SafeP, FFCDHParameters_unpack_safe|]. intros dp _.
    destruct (dh_params_mismatch k dp); [reflexivity|].
    destruct (k_dh_pub_bad _ _); [reflexivity|].
    eapply SafeP_bind; [apply (py_pow3_safe (ffk_public_key k) (be_val priv) (ffk_field_order k)); lia|]. cbv beta.
    intros v Hv. eapply SafeP_bind with (Q := fun _ => True); [apply Safe_SafeP, to_bytes_be_z_safe; lia|].
    intros; exact I.
  - destruct (startswith sa STR_ECDH_P); [|reflexivity].
    apply SafeP_Safe with (Q := fun _ => True).
    eapply SafeP_bind; [apply (ECDHKey_unpack_safe pub)|]. cbv beta. intros k [cv Hcv]. rewrite Hcv. cbn [bind].
    eapply SafeP_bind with (Q := fun _ => True); [apply Safe_SafeP, ec_dh_safe|]. intros; exact I.
Qed.
Lemma compute_kek_from_public_key_safe alg seed sa sp pub plen : wfb pub = true ->
  Safe (compute_kek_from_public_key c alg seed sa sp pub plen).
Proof.
  intros Hw. unfold compute_kek_from_public_key. apply Safe_bind; [apply encode_utf16z_safe|]. intros ctx.
  now apply compute_kek_safe.
Qed.

(* ---- GroupKeyEnvelope.get_kek ---- *)
Definition env_ok (e : envelope) : Prop := gke_l1 e <= 31 /\ gke_l2 e <= 31.
Lemma envelope_hash_safe e : Safe (envelope_hash e).
Proof.
  unfold envelope_hash. destruct (negb _); [reflexivity|].
  apply Safe_bind; [apply KDFParameters_unpack_safe|]. intros. apply hash_algorithm_safe.
Qed.
Lemma get_kek_safe e kid : env_ok e -> i32 (kid_l0 kid) -> wfb (kid_key_info kid) = true -> Safe (get_kek c e kid).
Proof.
  intros [H1 H2] H0 Hw. unfold get_kek. destruct (gke_is_public_key e); [reflexivity|].
  unfold k_getkek_l0_mismatch. destruct (negb (gke_l0 e =? kid_l0 kid)) eqn:E; [reflexivity|].
  assert (gke_l0 e = kid_l0 kid) as El0 by lia.
  apply Safe_bind; [apply envelope_hash_safe|]. intros h.
  apply Safe_bind; [apply compute_l2_key_safe; [rewrite El0|..]; assumption|]. intros l2_key.
  destruct (kid_is_public_key kid); [|exact I]. now apply compute_kek_from_public_key_safe.
Qed.

(* ---- _crypto.py wrappers ---- *)
Lemma cek_decrypt_safe alg params kek v : Safe (cek_decrypt c alg params kek v).
Proof. unfold cek_decrypt. destruct (oid_eqb _ _); [apply kw_unwrap_safe|reflexivity]. Qed.
Lemma gcm_iv_of_parameters_safe params : Safe (gcm_iv_of_parameters params).
Proof.
  unfold gcm_iv_of_parameters. destruct (truthy params) as [p|]; [|reflexivity].
  apply SafeP_Safe with (Q := fun _ => True).
  eapply SafeP_bind with (R := fun _ => True); [apply (read_sequence_safe p None None)|]. intros [r ?] _.
  eapply SafeP_bind with (R := fun _ => True); [apply (read_octet_string_safe r None None)|]. intros [iv ?] _. exact I.
Qed.
Lemma content_decrypt_safe alg params cek v : Safe (content_decrypt c alg params cek v).
Proof.
  unfold content_decrypt. destruct (oid_eqb _ _); [|reflexivity].
  apply Safe_bind; [apply gcm_iv_of_parameters_safe|]. intros. apply gcm_dec_safe.
Qed.

(* ---- _decrypt_blob ---- *)
Lemma decrypt_blob_safe b e : env_ok e -> i32 (kid_l0 (b_key_identifier b)) ->
  wfb (kid_key_info (b_key_identifier b)) = true -> Safe (decrypt_blob c b e).
Proof.
  intros He H0 Hw. unfold decrypt_blob. apply Safe_bind; [now apply get_kek_safe|]. intros kek.
  apply Safe_bind; [apply cek_decrypt_safe|]. intros cek. apply content_decrypt_safe.
Qed.
End WithCrypto.

(* ---- KeyCache ---- *)
Definition env_okb (e : envelope) : bool := (gke_l1 e <=? 31) && (gke_l2 e <=? 31).
(* the condition on the cache CONTENTS: every cached seed envelope sits at a position <= (31, 31). Nothing is
   required of the loaded root keys (unparseable KDF parameters are a ValueError / NotImplementedError) and
   nothing of the cached L0 or key material (a cached L0 that differs from the blob's is a ValueError). *)
Definition cache_ok (cache : ccache) : Prop := forallb (fun p => env_okb (snd p)) (cc_seeds cache) = true.

Lemma env_okb_ok e : env_okb e = true <-> env_ok e.
Proof. unfold env_okb, env_ok. lia. Qed.
Lemma cc_find_seed_ok l t e : forallb (fun p => env_okb (snd p)) l = true -> cc_find_seed l t = Some e -> env_ok e.
Proof.
  induction l as [|[k v] l IH]; cbn [cc_find_seed forallb snd]; [discriminate|].
  intros H E. apply andb_true_iff in H as [H1 H2]. destruct (ckey_eqb k t).
  - injection E as <-. now apply env_okb_ok.
  - now apply IH.
Qed.
Lemma cc_set_seed_ok cache t e : cache_ok cache -> env_ok e -> cache_ok (cc_set_seed cache t e).
Proof.
  intros H He. unfold cache_ok, cc_set_seed. cbn [cc_seeds forallb snd]. apply andb_true_iff. split; [|exact H].
  now apply env_okb_ok.
Qed.
Lemma cc_store_key_ok cache sd e : cache_ok cache -> env_ok e -> cache_ok (cc_store_key cache sd e).
Proof.
  intros H He. unfold cc_store_key. destruct (match cc_find_seed _ _ with Some _ => _ | None => _ end); [|exact H].
  now apply cc_set_seed_ok.
Qed.
Lemma cc_load_ok cache rkid rk : cache_ok cache -> cache_ok (cc_load cache rkid rk).
Proof. intros H. exact H. Qed.
Lemma cc_empty_ok : cache_ok cc_empty.
Proof. reflexivity. Qed.

(* KeyCache._get_key: the L0 guard comes first; what it returns is a covered-position envelope *)
Lemma cc_get_key_safe c cache sd rkid l0 l1 l2 : cache_ok cache ->
  SafeP (fun p => cache_ok (snd p) /\ 0 <= l0 <= 2147483647 /\ match fst p with Some e => env_ok e | None => True end)
        (cc_get_key c cache sd rkid l0 l1 l2).
Proof.
  intros Hok. unfold cc_get_key. destruct (k_cache_l0_guard l0) eqn:G; [reflexivity|].
  assert (Hl0 : 0 <= l0 <= 2147483647).
  { destruct (Z_le_dec 0 l0) as [A|A]; [destruct (Z_le_dec l0 2147483647) as [B|B]; [lia|]|];
      exfalso; assert (k_cache_l0_guard l0 = true) by (apply l0_guard_meaning; lia); congruence. }
  destruct (cc_find_seed (cc_seeds cache) (rkid, sd, l0)) as [e|] eqn:Es.
  - pose proof (cc_find_seed_ok _ _ _ Hok Es) as He.
    destruct (k_cache_covers true (gke_l1 e) l1 (gke_l2 e) l2); [cbn [SafeP fst snd]; auto|].
    destruct (cc_find_root (cc_roots cache) rkid) as [rk|]; [|cbn [SafeP fst snd]; auto].
    eapply SafeP_bind with (Q := fun _ => True); [apply Safe_SafeP, KDFParameters_unpack_safe|]. intros hn _.
    eapply SafeP_bind with (Q := fun _ => True); [apply Safe_SafeP, hash_algorithm_safe|]. intros h _.
    eapply SafeP_bind with (Q := fun _ => True); [apply Safe_SafeP, compute_l1_key_safe; assumption|]. intros l1_seed _.
    destruct k_cache_root_overwrites; cbn [SafeP fst snd]; [|auto].
    split; [|split; [assumption|]]; [apply cc_set_seed_ok; [assumption|]|]; unfold env_ok; cbn [gke_l1 gke_l2];
      unfold k_root_env_l1, k_root_env_l2; lia.
  - destruct (k_cache_covers false 0 l1 0 l2); [cbn [SafeP fst snd]; auto|].
    destruct (cc_find_root (cc_roots cache) rkid) as [rk|]; [|cbn [SafeP fst snd]; auto].
    eapply SafeP_bind with (Q := fun _ => True); [apply Safe_SafeP, KDFParameters_unpack_safe|]. intros hn _.
    eapply SafeP_bind with (Q := fun _ => True); [apply Safe_SafeP, hash_algorithm_safe|]. intros h _.
    eapply SafeP_bind with (Q := fun _ => True); [apply Safe_SafeP, compute_l1_key_safe; assumption|]. intros l1_seed _.
    assert (Hg : forall g, gke_l1 g = k_root_env_l1 -> gke_l2 g = k_root_env_l2 -> env_ok g)
      by (intros g E1 E2; unfold env_ok; rewrite E1, E2; unfold k_root_env_l1, k_root_env_l2; lia).
    destruct k_cache_root_overwrites; cbn [SafeP fst snd];
      (split; [|split; [assumption|]]; [apply cc_set_seed_ok; [assumption|]|]; apply Hg; reflexivity).
Qed.

(* ---- ncrypt_unprotect_secret, offline ---- *)
Theorem unprotect_offline_safe c : CryptoLaws c -> forall cache data, wfb data = true -> cache_ok cache ->
  Safe (fst (unprotect_offline c cache data)) /\ cache_ok (snd (unprotect_offline c cache data)).
Proof.
  intros Hc cache data Hw Hok. unfold unprotect_offline.
  pose proof (blob_unpack_safe data Hw) as Hb. destruct (blob_unpack data) as [b|e]; cbn [SafeP] in Hb; [|auto].
  pose proof (get_target_sd_safe (b_sid b)) as Hsd. destruct (get_target_sd (b_sid b)) as [sd|e]; [|auto].
  pose proof (cc_get_key_safe c cache sd (kid_rkid (b_key_identifier b)) (kid_l0 (b_key_identifier b))
                (kid_l1 (b_key_identifier b)) (kid_l2 (b_key_identifier b)) Hok) as Hg.
  destruct (cc_get_key _ _ _ _ _ _ _) as [[[rk|] cache1]|e]; cbn [SafeP fst snd] in Hg; [| |auto].
  - destruct Hg as (Hok1 & Hl0 & He). cbn [fst snd]. split.
    + apply decrypt_blob_safe; [assumption|assumption|unfold i32; lia|assumption].
    + destruct (gke_is_public_key rk); [assumption|]. now apply cc_store_key_ok.
  - destruct Hg as (Hok1 & _ & _). cbn [fst snd]. split; [reflexivity|assumption].
Qed.

Corollary unprotect_offline_no_fuel_exhaustion c : CryptoLaws c -> forall cache data, wfb data = true -> cache_ok cache ->
  fst (unprotect_offline c cache data) <> Raise OutOfFuel.
Proof.
  intros Hc cache data Hw Hok E. destruct (unprotect_offline_safe c Hc cache data Hw Hok) as [H _].
  rewrite E in H. discriminate.
Qed.
(* ... and none of the internal error classes *)
Corollary unprotect_offline_no_internal_error c : CryptoLaws c -> forall cache data e, wfb data = true -> cache_ok cache ->
  fst (unprotect_offline c cache data) = Raise e ->
  e = ValueError \/ e = NotImplementedError \/ e = NotEnoughData \/ e = InvalidTag \/ e = InvalidUnwrap \/ e = NeedNetwork.
Proof.
  intros Hc cache data e Hw Hok E. destruct (unprotect_offline_safe c Hc cache data Hw Hok) as [H _].
  rewrite E in H. destruct e; cbn in H; try discriminate; tauto.
Qed.

(* ---- the forms stated in Properties/C05.v ---- *)
Lemma unprotect_offline_deliberate c : CryptoLaws c -> forall cache data, wfb data = true -> cache_ok cache ->
  Safe (fst (unprotect_offline c cache data)).
Proof. intros Hc cache data Hw Hok. apply (unprotect_offline_safe c Hc cache data Hw Hok). Qed.
Lemma unprotect_offline_cache_ok c : CryptoLaws c -> forall cache data, wfb data = true -> cache_ok cache ->
  cache_ok (snd (unprotect_offline c cache data)).
Proof. intros Hc cache data Hw Hok. apply (unprotect_offline_safe c Hc cache data Hw Hok). Qed.
Lemma cc_load_empty_ok rkid rk : cache_ok (cc_load cc_empty rkid rk).
Proof. reflexivity. Qed.
Lemma blob_unpack_deliberate data : wfb data = true -> Safe (blob_unpack data).
Proof. intros Hw. exact (SafeP_Safe _ _ (blob_unpack_safe data Hw)). Qed.
Lemma l2_kdf_calls {K : Type} (kdf : K -> Z -> Z -> K) fuel l1 l2 a b k1 k2 r :
  a <= 31 -> b <= 31 -> (32 <= fuel)%nat ->
  k_compute_l2_key (counted kdf) fuel l1 l2 a b (k1, 0) (k2, 0) = Ok r ->
  0 <= snd r <= 63 /\ k_compute_l2_key kdf fuel l1 l2 a b k1 k2 = Ok (fst r).
Proof.
  intros Ha Hb Hf E. split; [exact (l2_kdf_calls_bounded kdf fuel l1 l2 a b k1 k2 r Ha Hb Hf E)|].
  pose proof (counted_same_key kdf fuel l1 l2 a b k1 k2 0 0) as H. now rewrite E in H.
Qed.
(* the loops of compute_l2_key end within 32 iterations each whenever the envelope position is <= (31, 31):
   the result does not depend on the fuel *)
Lemma l2_fuel_independent {K : Type} (kdf : K -> Z -> Z -> K) f1 f2 l1 l2 a b k1 k2 :
  a <= 31 -> b <= 31 -> (32 <= f1)%nat -> (32 <= f2)%nat ->
  k_compute_l2_key kdf f1 l1 l2 a b k1 k2 <> Raise OutOfFuel.
Proof.
  intros Ha Hb H1 _ E.
  pose proof (k_compute_l2_key_inv kdf (fun _ _ => True) ltac:(auto) f1 l1 l2 a b k1 k2 Ha Hb I I H1) as H.
  rewrite E in H. discriminate.
Qed.

(* ================= examples (run in Coq) ================= *)
From Coq Require Import String.
(* a Crypto record that meets CryptoLaws (the hypothesis of the theorems is satisfiable) *)
Definition idc : Crypto := {|
  kdf := fun _ s _ _ _ => s; concat_kdf := fun _ s _ _ => s;
  kw_wrap := fun _ x => Ok x; kw_unwrap := fun _ w => Ok w;
  gcm_enc := fun _ _ p => Ok p; gcm_dec := fun _ _ ct => Ok ct;
  ec_pub := fun _ d => Ok (d, 0); ec_dh := fun _ d Q => Ok [d * fst Q] |}.
Lemma idc_laws : CryptoLaws idc.
Proof.
  constructor; cbn; intros; try congruence; try discriminate.
  injection H as <-. injection H0 as <-. cbn [fst]. do 2 f_equal. lia.
Qed.

Definition ex_kdf_params : bytes := match KDFParameters_pack (ascii_str "SHA512"%string) with Ok b => b | Raise _ => [] end.
Definition ex_rkid : bytes := repeat 5 16%nat.
Definition ex_rk : root_key :=
  {| rk_key := repeat 7 64%nat; rk_version := 1; rk_kdf_alg := STR_KDF_ALG; rk_kdf_params := ex_kdf_params;
     rk_secret_alg := STR_DH; rk_secret_params := None; rk_priv_len := 512; rk_pub_len := 2048 |}.
Definition ex_cache : ccache := cc_load cc_empty ex_rkid ex_rk.
Definition ex_sid : pystr := ascii_str "S-1-5-21-1-2-3-500"%string.
(* a blob made by the model's own protect path under the symbolic crypto (L0 361, L1 31, L2 23) *)
Definition ex_blob : bytes :=
  match fst (protect_offline sym ex_cache (repeat 1 32%nat) (repeat 2 12%nat) (repeat 3 32%nat) [104; 105] ex_sid
               (Some ex_rkid) 1700000000000000000) with Ok b => b | Raise _ => [] end.
Definition patch (o : nat) (new l : bytes) : bytes := firstn o l ++ new ++ skipn (o + List.length new) l.

Example ex_hyps : wfb ex_blob = true /\ cache_ok ex_cache /\ len ex_blob = 1478.
Proof. vm_compute. auto. Qed.
(* the key identifier sits at offset 42: version, "KDSK", flags, L0 (54), L1 (58), L2 (62) *)
Example ex_outcomes :
  fst (unprotect_offline sym ex_cache ex_blob) = Ok [104; 105] /\
  fst (unprotect_offline sym ex_cache (firstn 100 ex_blob)) = Raise NotEnoughData /\
  fst (unprotect_offline sym cc_empty ex_blob) = Raise NeedNetwork /\
  fst (unprotect_offline sym ex_cache (patch 54 [0; 0; 0; 128] ex_blob)) = Raise ValueError /\       (* L0 = 2^31: the guard *)
  fst (unprotect_offline sym ex_cache (patch 54 [255; 255; 255; 255] ex_blob)) = Raise ValueError /\ (* L0 = 2^32-1 *)
  fst (unprotect_offline sym ex_cache (patch 58 [32; 0; 0; 0] ex_blob)) = Raise ValueError /\        (* L1 = 32 *)
  fst (unprotect_offline sym ex_cache (patch 62 [255; 255; 255; 255] ex_blob)) = Raise ValueError /\ (* L2 = 2^32-1 *)
  fst (unprotect_offline sym ex_cache (patch 62 [22; 0; 0; 0] ex_blob)) = Raise InvalidUnwrap /\     (* another key *)
  fst (unprotect_offline sym ex_cache (patch 4 [2; 0] ex_blob)) = Raise ValueError /\                (* a zero-length INTEGER where the content-type OID is expected *)
  fst (unprotect_offline sym ex_cache []) = Raise NotEnoughData.
Proof. vm_compute. repeat split. Qed.
(* without the L0 guard the first KDF context would be an OverflowError *)
Example ex_l0_guard_needed : compute_l1_key sym SHA512 [] ex_rkid 2147483648 [] = Raise OverflowError.
Proof. vm_compute. reflexivity. Qed.

(* cache_ok is needed: a cached seed envelope claiming position L1 = 200 drives the L1 loop past its fuel *)
Definition ex_sd : bytes := match get_target_sd ex_sid with Ok b => b | Raise _ => [] end.
Definition ex_env (l1 l2 : Z) : envelope :=
  {| gke_version := 1; gke_flags := 2; gke_l0 := 361; gke_l1 := l1; gke_l2 := l2; gke_rkid := ex_rkid;
     gke_kdf_alg := STR_KDF_ALG; gke_kdf_params := ex_kdf_params; gke_secret_alg := STR_DH; gke_secret_params := [];
     gke_priv_len := 512; gke_pub_len := 2048; gke_domain := []; gke_forest := []; gke_l1_key := repeat 7 64%nat; gke_l2_key := [] |}.
Definition ex_cache_at (l1 l2 : Z) : ccache := cc_set_seed cc_empty (ex_rkid, ex_sd, 361) (ex_env l1 l2).
Example ex_cache_ok_needed :
  fst (unprotect_offline sym (ex_cache_at 200 31) ex_blob) = Raise OutOfFuel /\ ~ cache_ok (ex_cache_at 200 31) /\
  cache_ok (ex_cache_at 31 31) /\ fst (unprotect_offline sym (ex_cache_at 31 31) ex_blob) = Raise InvalidUnwrap.
Proof. vm_compute. repeat split; discriminate. Qed.
(* `wfb` (elements in 0..255: a Python bytes object) cannot be dropped either -- the model's `bytes` is `list Z`, and
   with an "octet" of 1000 as one-byte field order (the group's parameters say the same) the shared secret 700 does not
   fit the one byte the key length announces, and to_bytes overflows *)
Example ex_wfb_needed :
  compute_kek sym SHA512 STR_DH ([0; 0; 0; 0] ++ c_FFCDH_PARAMS_MAGIC ++ [1; 0; 0; 0] ++ [1000] ++ [2]) [1]
    (c_FFCDH_KEY_MAGIC ++ [1; 0; 0; 0] ++ [1000] ++ [2] ++ [700]) = Raise OverflowError.
Proof. vm_compute. reflexivity. Qed.

(* the key length a DH key blob announces is bounded by the size of the blob, so the fixed-width
   encodings sized by it (shared secret, ephemeral public key) are linear in the input *)
Lemma FFCDHKey_length_bounded data k : FFCDHKey_unpack data = Ok k -> 8 + 3 * ffk_key_length k <= len data.
Proof.
  unfold FFCDHKey_unpack. destruct (negb (beqb _ c_FFCDH_KEY_MAGIC)); [discriminate|]. cbv zeta.
  destruct (k_ffcdhkey_short (len data) (le_val (slice (Some 4) (Some 8) data))) eqn:E; [discriminate|].
  intros H. apply Ok_inj in H. subst k. cbn [ffk_key_length]. unfold k_ffcdhkey_short in E. lia.
Qed.
