(* C05, key layer: KDF parameters, KDF context (signed 32-bit fields), the key chain (invariant-style proof
   on the regenerated kernel k_compute_l2_key with a call counter), DH / ECDH key decoders, KEK derivation,
   the crypto wrappers, the key cache and the composition unprotect_offline. *)
From V Require Import Prelude.Base Prelude.PyInt Prelude.PySlice Prelude.PyStr Prelude.Loops.
From V Require Import gen.Kernels gen.K_cache gen.K_gkdi gen.C_gkdi gen.Consts gen.C_asn1.
From V Require Import Model.Types Model.Crypto Model.Sym Model.Chain Model.KeyId Model.Gkdi Model.Kek Model.SecDesc.
From V Require Import Model.Asn1 Model.Pkcs7 Model.Blob Model.CryptoWrap Model.Client.
From V Require Import Proofs.C05 Proofs.C05Asn1 Proofs.C05Blob Proofs.Asn1Lib Proofs.KekLib.

(* ---- fuelled loops by invariant + measure ---- *)
Lemma while_inv {St} (Inv : St -> Prop) (m : St -> nat) (cond : St -> bool) (body : St -> St) :
  (forall s, Inv s -> cond s = true -> Inv (body s) /\ (m (body s) < m s)%nat) ->
  forall fuel s, Inv s -> (m s <= fuel)%nat ->
  exists s', while fuel cond body s = Ok s' /\ Inv s' /\ cond s' = false.
Proof.
  intros Hstep. induction fuel as [|fuel IH]; intros s Hi Hm; cbn [while]; destruct (cond s) eqn:Ec; eauto.
  - destruct (Hstep s Hi Ec). lia.
  - destruct (Hstep s Hi Ec) as [Hi' Hm']. apply IH; [assumption|lia].
Qed.

(* ---- compute_l2_key: the kernel, any key type K, any invariant I indexed by the number of KDF calls ---- *)
Section L2.
Context {K : Type} (kdf : K -> Z -> Z -> K) (I : Z -> K -> Prop).
Hypothesis Hk : forall n k x y, I n k -> -1 <= x <= 31 -> -1 <= y <= 31 -> I (n + 1) (kdf k x y).

Lemma k_compute_l2_key_inv fuel l1 l2 a b k1 k2 :
  a <= 31 -> b <= 31 -> I 0 k1 -> I 0 k2 -> (32 <= fuel)%nat ->
  match k_compute_l2_key kdf fuel l1 l2 a b k1 k2 with
  | Ok r => exists n, 0 <= n <= 63 /\ I n r
  | Raise e => e = ValueError
  end.
Proof.
  intros Ha Hb H1 H2 Hf. unfold k_compute_l2_key.
  destruct (negb _) eqn:G1; [reflexivity|].
  destruct (_ || _) eqn:G2; [reflexivity|].
  match goal with |- context [while fuel ?c ?bd ?s0] =>
    pose proof (while_inv
      (fun st : bool * Z * K => let '(r, x, k) := st in
         l1 <= x <= 31 /\ (r = false -> b <> 31 /\ a = l1) /\ exists n, 0 <= n <= 31 - x /\ I n k)
      (fun st : bool * Z * K => let '(_, x, _) := st in Z.to_nat (x - l1)) c bd) as HW1;
    lapply HW1; [clear HW1; intro HW1; destruct (HW1 fuel s0) as ([[r x] k] & Hw & (Hx & Hr & n & Hn & Hik) & Hc); clear HW1|]
  end.
  - split; [destruct (negb (b =? 31) && negb (a =? l1)) eqn:E; lia|]. split; [lia|].
    exists 0. split; [destruct (negb (b =? 31) && negb (a =? l1)) eqn:E; lia|assumption].
  - destruct (negb (b =? 31) && negb (a =? l1)) eqn:E; lia.
  - rewrite Hw. cbn [bind]. assert (x = l1) by lia. subst x.
    match goal with |- context [while fuel ?c ?bd _] =>
      pose proof (while_inv
        (fun st : Z * K => let '(y, k) := st in l2 <= y <= 31 /\ exists n, 0 <= n <= 32 + (31 - y) /\ I n k)
        (fun st : Z * K => let '(y, _) := st in Z.to_nat (y - l2)) c bd) as HW;
      lapply HW; [clear HW; intro HW; specialize (HW fuel)|]
    end.
    + destruct r.
      * destruct (HW (31, kdf k l1 31)) as ([y k'] & Hw2 & (Hy & m & Hm & Hik') & Hc2).
        -- split; [lia|]. exists (n + 1). split; [lia|]. apply Hk; [assumption|lia|lia].
        -- lia.
        -- rewrite Hw2. cbn [bind]. exists m. split; [lia|assumption].
      * destruct (Hr eq_refl) as [Hb31 Hal].
        destruct (HW (b, k2)) as ([y k'] & Hw2 & (Hy & m & Hm & Hik') & Hc2).
        -- split; [lia|]. exists 0. split; [lia|assumption].
        -- lia.
        -- rewrite Hw2. cbn [bind]. exists m. split; [lia|assumption].
    + intros [y k'] (Hy & m & Hm & Hik') Hc'. split; [|lia]. split; [lia|].
      exists (m + 1). split; [lia|]. apply Hk; [assumption|lia|lia].
  - intros [[r x] k] (Hx & Hr & n & Hn & Hik) Hc. split; [|lia].
    split; [lia|]. split; [discriminate|]. exists (n + 1). split; [lia|]. apply Hk; [assumption|lia|lia].
Qed.
End L2.

(* ---- KDFParameters.unpack, the hash enum ---- *)
Lemma KDFParameters_unpack_safe data : Safe (KDFParameters_unpack data).
Proof. unfold KDFParameters_unpack. destruct (_ || _); [reflexivity|apply utf16le_decode_safe]. Qed.
Lemma hash_algorithm_safe name : Safe (hash_algorithm name).
Proof. unfold hash_algorithm. repeat (destruct (Gkdi.str_eqb _ _); [exact I|]). reflexivity. Qed.

(* ---- compute_kdf_context: three int.to_bytes(4, "little", signed=True) ---- *)
Definition i32 (z : Z) : Prop := -2147483648 <= z <= 2147483647.
Lemma to_bytes_le_signed_4 z : i32 z -> to_bytes_le_signed 4 z = Ok (le 4 (z mod P 4)).
Proof. intros H. unfold i32 in H. unfold to_bytes_le_signed. rewrite P_4. destruct (_ && _) eqn:E; [reflexivity|lia]. Qed.
(* ... and OverflowError is exactly what happens outside the signed range: the guards are load-bearing *)
Lemma to_bytes_le_signed_4_overflow z : ~ i32 z -> to_bytes_le_signed 4 z = Raise OverflowError.
Proof. intros H. unfold i32 in H. unfold to_bytes_le_signed. rewrite P_4. destruct (_ && _) eqn:E; [lia|reflexivity]. Qed.
Lemma compute_kdf_context_ok rkid l0 l1 l2 : i32 l0 -> i32 l1 -> i32 l2 ->
  exists ctx, compute_kdf_context rkid l0 l1 l2 = Ok ctx.
Proof.
  intros H0 H1 H2. unfold compute_kdf_context. rewrite !to_bytes_le_signed_4 by assumption. cbn [bind]. eauto.
Qed.
Lemma compute_kdf_context_safe rkid l0 l1 l2 : i32 l0 -> i32 l1 -> i32 l2 -> Safe (compute_kdf_context rkid l0 l1 l2).
Proof. intros H0 H1 H2. destruct (compute_kdf_context_ok rkid l0 l1 l2 H0 H1 H2) as [ctx ->]. exact I. Qed.
Lemma compute_kdf_context_l0_overflow rkid l0 l1 l2 : ~ i32 l0 -> compute_kdf_context rkid l0 l1 l2 = Raise OverflowError.
Proof. intros H. unfold compute_kdf_context. now rewrite to_bytes_le_signed_4_overflow. Qed.

(* ---- compute_l1_key: behind the L0 guard of KeyCache._get_key ---- *)
Lemma compute_l1_key_safe c h sd rkid l0 key : 0 <= l0 <= 2147483647 -> Safe (compute_l1_key c h sd rkid l0 key).
Proof.
  intros H. unfold compute_l1_key.
  destruct (compute_kdf_context_ok rkid l0 (-1) (-1)) as [c0 ->]; try (unfold i32; lia). cbn [bind].
  destruct (compute_kdf_context_ok rkid l0 31 (-1)) as [c1 ->]; try (unfold i32; lia). exact I.
Qed.

(* ---- compute_l2_key: every context it builds has positions in -1..31 ---- *)
Lemma kdfK_safe c h rkid l0 k a b : i32 l0 -> Safe k -> -1 <= a <= 31 -> -1 <= b <= 31 -> Safe (kdfK c h rkid l0 k a b).
Proof.
  intros H0 Hs Ha Hb. unfold kdfK. apply Safe_bind; [assumption|]. intros key.
  destruct (compute_kdf_context_ok rkid l0 a b) as [ctx ->]; try (unfold i32; lia); try assumption. exact I.
Qed.
Lemma compute_l2_key_safe c h l1 l2 e : i32 (gke_l0 e) -> gke_l1 e <= 31 -> gke_l2 e <= 31 ->
  Safe (compute_l2_key c h l1 l2 e).
Proof.
  intros H0 H1 H2. unfold compute_l2_key.
  pose proof (k_compute_l2_key_inv (kdfK c h (gke_rkid e) (gke_l0 e)) (fun _ k => Safe k)
                (fun n k x y Hs Hx Hy => kdfK_safe c h _ _ k x y H0 Hs Hx Hy)
                L2_FUEL l1 l2 (gke_l1 e) (gke_l2 e) (Ok (gke_l1_key e)) (Ok (gke_l2_key e)) H1 H2 I I) as H.
  specialize (H ltac:(unfold L2_FUEL; lia)).
  destruct (k_compute_l2_key _ _ _ _ _ _ _ _) as [r|x].
  - destruct H as (n & _ & Hs). exact Hs.
  - subst x. reflexivity.
Qed.

(* the number of KDF calls of one compute_l2_key: instrument ANY kdf with a counter *)
Definition counted {K : Type} (kdf : K -> Z -> Z -> K) (kn : K * Z) (a b : Z) : K * Z := (kdf (fst kn) a b, snd kn + 1).
Lemma l2_kdf_calls_bounded {K : Type} (kdf : K -> Z -> Z -> K) fuel l1 l2 a b k1 k2 r :
  a <= 31 -> b <= 31 -> (32 <= fuel)%nat ->
  k_compute_l2_key (counted kdf) fuel l1 l2 a b (k1, 0) (k2, 0) = Ok r -> 0 <= snd r <= 63.
Proof.
  intros Ha Hb Hf E.
  assert (Hk : forall n (k : K * Z) x y, snd k = n -> -1 <= x <= 31 -> -1 <= y <= 31 -> snd (counted kdf k x y) = n + 1)
    by (intros n k x y Hn _ _; cbn [counted snd]; lia).
  pose proof (k_compute_l2_key_inv (counted kdf) (fun n kn => snd kn = n) Hk
                fuel l1 l2 a b (k1, 0) (k2, 0) Ha Hb eq_refl eq_refl Hf) as H.
  rewrite E in H. destruct H as (n & Hn & Hr). lia.
Qed.
(* the instrumented run computes the same key: projection commutes with the loops *)
Lemma while_proj {S1 S2} (p : S1 -> S2) c1 b1 c2 b2 :
  (forall s, c1 s = c2 (p s)) -> (forall s, p (b1 s) = b2 (p s)) ->
  forall fuel s, match while fuel c1 b1 s with Ok s' => while fuel c2 b2 (p s) = Ok (p s') | Raise x => while fuel c2 b2 (p s) = Raise x end.
Proof.
  intros Hc Hb. induction fuel as [|fuel IH]; intros s; cbn [while]; rewrite <- Hc; destruct (c1 s); try reflexivity.
  rewrite <- Hb. apply IH.
Qed.
Lemma counted_same_key {K : Type} (kdf : K -> Z -> Z -> K) fuel l1 l2 a b k1 k2 n1 n2 :
  match k_compute_l2_key (counted kdf) fuel l1 l2 a b (k1, n1) (k2, n2) with
  | Ok r => k_compute_l2_key kdf fuel l1 l2 a b k1 k2 = Ok (fst r)
  | Raise x => k_compute_l2_key kdf fuel l1 l2 a b k1 k2 = Raise x
  end.
Proof.
  unfold k_compute_l2_key.
  destruct (negb _); [reflexivity|]. destruct (_ || _); [reflexivity|].
  match goal with |- context [while fuel ?c1 ?b1 ?s1] =>
    match goal with |- context [@while (bool * Z * K) fuel ?c2 ?b2 ?s2] =>
      pose proof (while_proj (fun st : bool * Z * (K * Z) => let '(r, x, kn) := st in (r, x, fst kn)) c1 b1 c2 b2
                    ltac:(intros [[? ?] ?]; reflexivity) ltac:(intros [[? ?] ?]; reflexivity) fuel s1) as H1
    end end.
  cbv beta iota in H1. cbn [fst] in H1.
  destruct (while fuel _ _ (_, _, (k1, n1))) as [[[r x] [k n]]|e1]; rewrite H1; cbn [bind fst]; [|reflexivity].
  destruct r.
  - match goal with |- context [while fuel ?c1 ?b1 (31, counted kdf (k, n) x 31)] =>
      match goal with |- context [@while (Z * K) fuel ?c2 ?b2 _] =>
        pose proof (while_proj (fun st : Z * (K * Z) => let '(y, kn) := st in (y, fst kn)) c1 b1 c2 b2
                      ltac:(intros [? ?]; reflexivity) ltac:(intros [? ?]; reflexivity) fuel (31, counted kdf (k, n) x 31)) as H2
      end end.
    cbv beta iota in H2. cbn [fst counted] in H2.
    destruct (while fuel _ _ (31, counted kdf (k, n) x 31)) as [[y [k' n']]|e2]; cbn [bind fst]; rewrite H2; reflexivity.
  - match goal with |- context [while fuel ?c1 ?b1 (b, (k2, n2))] =>
      match goal with |- context [@while (Z * K) fuel ?c2 ?b2 _] =>
        pose proof (while_proj (fun st : Z * (K * Z) => let '(y, kn) := st in (y, fst kn)) c1 b1 c2 b2
                      ltac:(intros [? ?]; reflexivity) ltac:(intros [? ?]; reflexivity) fuel (b, (k2, n2))) as H2
      end end.
    cbv beta iota in H2. cbn [fst] in H2.
    destruct (while fuel _ _ (b, (k2, n2))) as [[y [k' n']]|e2]; cbn [bind fst]; rewrite H2; reflexivity.
Qed.
