(* C07: statements in the shape used by Properties/C07.v, assembled from the Asn1* proof files. *)
From V Require Import Prelude.Base Prelude.PyInt Prelude.PySlice Prelude.PyStr gen.K_asn1 gen.C_asn1 Model.Asn1 Spec.DerSpec.
From V Require Import Proofs.Asn1Lib Proofs.Asn1Hdr Proofs.Asn1Tlv Proofs.Asn1Int Proofs.Asn1Oid Proofs.Asn1Str Proofs.Asn1Tree Proofs.DerFacts.

Theorem header_roundtrip t c rest : tag_wf t -> tag_readable t -> len c < P 126 ->
  exists ib lb, pack_tlv t c = Ok (ib ++ lb ++ c) /\ der_ident t ib /\ der_len (len c) lb /\
    read_asn1_header (ib ++ lb ++ c ++ rest) = Ok (mk_header t (len ib + len lb) (len c)).
Proof.
  intros Ht Hr Hc. destruct (pack_tlv_der t c Ht Hc) as (ib & lb & E & Hi & Hl).
  exists ib, lb. repeat split; auto. now apply (read_header_der t).
Qed.

Theorem exact_consumption ty t c rest exp : tag_wf t -> tag_readable t -> len c < P 126 -> expected_of exp ty = t ->
  exists bs, pack_tlv t c = Ok bs /\ validate_tag (bs ++ rest) exp ty None = Ok (c, len bs) /\
             read_raw ty (bs ++ rest) exp None = Ok (c, rest).
Proof.
  intros Ht Hr Hc He. destruct (validate_pack ty t c rest exp Ht Hr Hc He) as (bs & E & Hv & Ha).
  exists bs. repeat split; auto. unfold read_raw. rewrite Hv. cbn [bind]. rewrite Ha. reflexivity.
Qed.

(* a mismatching tag is refused with ValueError, whatever follows *)
Theorem wrong_tag_refused ty t c rest exp : tag_wf t -> tag_readable t -> len c < P 126 -> expected_of exp ty <> t ->
  exists bs, pack_tlv t c = Ok bs /\ validate_tag (bs ++ rest) exp ty None = Raise ValueError.
Proof.
  intros Ht Hr Hc He. destruct (pack_tlv_der t c Ht Hc) as (ib & lb & E & Hi & Hl).
  exists (ib ++ lb ++ c). split; [exact E|]. rewrite <- !app_assoc. unfold validate_tag.
  rewrite (read_header_der t ib (len c) lb (c ++ rest) Hi Hl Hr). cbn [bind h_tag].
  fold (expected_of exp ty). destruct (tag_eqb t (expected_of exp ty)) eqn:Eq; [apply tag_eqb_eq in Eq; congruence|reflexivity].
Qed.

Lemma small_lt_P126 n : n < 18446744073709551616 -> n < P 126.
Proof. intros H. pose proof (P_mono 8 126 ltac:(lia)). rewrite P_8 in *. lia. Qed.

Theorem empty_content_refused : read_int_content [] = Raise ValueError /\ read_oid_content [] = Raise ValueError.
Proof. split; reflexivity. Qed.

(* a concrete nested tree meeting wf_tree: SEQUENCE { [2] { INTEGER -65536 }, OCTET STRING (130 octets), SET {} } *)
Definition ex_tree : asn1 :=
  Cons seq_tag [Cons (mk_tag 2 2 true) [Prim (universal_tag 2 false) [255; 0; 0]]; Prim (universal_tag 4 false) (repeat 7 130); Cons set_tag []].
Lemma ex_tree_wf : wf_tree ex_tree.
Proof.
  assert (Hs : forall l b v, encode_list l = Ok v -> len v < 18446744073709551616 -> encode_list l = Ok b -> len b < P 126).
  { intros l b v E Hv E2. rewrite E in E2. apply Ok_inj in E2. subst. now apply small_lt_P126. }
  unfold ex_tree. cbn [wf_tree]. unfold tag_wf, seq_tag, set_tag, universal_tag, c_class_universal, c_tag_sequence, c_tag_set. cbn [t_class t_num t_cons].
  repeat split; try lia; try reflexivity; try (apply small_lt_P126; vm_compute; reflexivity);
    try (intros b; eapply Hs; [vm_compute; reflexivity|vm_compute; reflexivity]).
Qed.

Theorem nested_from_encode x bs : shape_ok x -> encode x = Ok bs -> len bs < P 126 -> wf_tree x /\ strict_parse bs = Some [x].
Proof.
  intros Hs E Hl. pose proof (wf_from_encode x bs Hs E Hl) as Hw. split; [exact Hw|].
  destruct (nested x Hw) as (bs' & E' & Hp). rewrite E in E'. apply Ok_inj in E'. now subst bs'.
Qed.
