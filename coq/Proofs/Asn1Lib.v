(* Arithmetic reading of the regenerated bit-level kernels of gen/K_asn1.v (masks, shifts, ors) and
   small generic list lemmas used by the C07/C06 proofs. *)
From V Require Import Prelude.Base Prelude.PyInt Prelude.PySlice gen.K_asn1 gen.C_asn1 Model.Asn1.

(* ---- finite-domain reflection *)
Lemma forall_range (N : nat) (f : Z -> bool) :
  forallb f (map Z.of_nat (seq 0 N)) = true -> forall z, 0 <= z < Z.of_nat N -> f z = true.
Proof.
  intros H z Hz. rewrite forallb_forall in H. apply H. apply in_map_iff. exists (Z.to_nat z).
  split; [lia|]. apply in_seq. lia.
Qed.

(* ---- masks and shifts as mod / div / mul (all integers) *)
Lemma land_255 x : Z.land x 255 = x mod 256.
Proof. change 255 with (Z.ones 8). rewrite Z.land_ones by lia. reflexivity. Qed.
Lemma land_127 x : Z.land x 127 = x mod 128.
Proof. change 127 with (Z.ones 7). rewrite Z.land_ones by lia. reflexivity. Qed.
Lemma shiftr_8 x : Z.shiftr x 8 = x / 256.
Proof. rewrite Z.shiftr_div_pow2 by lia. reflexivity. Qed.
Lemma shiftr_7 x : Z.shiftr x 7 = x / 128.
Proof. rewrite Z.shiftr_div_pow2 by lia. reflexivity. Qed.
Lemma shiftl_7 x : Z.shiftl x 7 = x * 128.
Proof. rewrite Z.shiftl_mul_pow2 by lia. reflexivity. Qed.
Lemma shiftl_8 x : Z.shiftl x 8 = x * 256.
Proof. rewrite Z.shiftl_mul_pow2 by lia. reflexivity. Qed.

Lemma land_shiftl_small a b n : 0 <= n -> 0 <= b < 2 ^ n -> Z.land (Z.shiftl a n) b = 0.
Proof.
  intros Hn Hb. apply Z.bits_inj'. intros m Hm. rewrite Z.land_spec, Z.bits_0.
  destruct (Z.lt_ge_cases m n) as [Hlt|Hge].
  - rewrite Z.shiftl_spec_low by lia. reflexivity.
  - destruct (Z.eq_dec b 0) as [->|Hb0]; [rewrite Z.bits_0; apply andb_false_r|].
    rewrite (Z.bits_above_log2 b m); [apply andb_false_r|lia|].
    apply Z.log2_lt_pow2; [lia|]. apply Z.lt_le_trans with (2 ^ n); [lia|]. apply Z.pow_le_mono_r; lia.
Qed.
Lemma lor_shiftl_add a b n : 0 <= n -> 0 <= b < 2 ^ n -> Z.lor (Z.shiftl a n) b = a * 2 ^ n + b.
Proof.
  intros Hn Hb. pose proof (land_shiftl_small a b n Hn Hb) as H0.
  rewrite <- Z.lxor_lor by exact H0. rewrite <- Z.add_nocarry_lxor by exact H0.
  rewrite Z.shiftl_mul_pow2 by lia. reflexivity.
Qed.

(* ---- kernels, arithmetically *)
Lemma k_int_fold_spec acc v : 0 <= v < 256 -> k_int_fold acc v = 256 * acc + v.
Proof. intros H. unfold k_int_fold. rewrite lor_shiftl_add by lia. change (2 ^ 8) with 256. lia. Qed.
Lemma k_b128_acc_spec i e : k_b128_acc i e = 128 * i + e mod 128.
Proof. unfold k_b128_acc. rewrite shiftl_7, land_127. lia. Qed.

Lemma byte_small (f : Z -> bool) : forallb f (map Z.of_nat (seq 0 256)) = true -> forall z, 0 <= z < 256 -> f z = true.
Proof. intros H z Hz. apply (forall_range 256 f H). lia. Qed.

Lemma cont_bit_spec e : 0 <= e < 256 -> (Z.land e 128 =? 0) = (e <? 128).
Proof. intros H. apply (byte_small (fun e => Bool.eqb (Z.land e 128 =? 0) (e <? 128))) in H; [|vm_compute; reflexivity].
  now apply eqb_prop in H. Qed.
Lemma lor_128_spec x : 0 <= x < 128 -> Z.lor x 128 = x + 128.
Proof. intros H. assert (H' : 0 <= x < 256) by lia.
  apply (byte_small (fun x => (128 <=? x) || (Z.lor x 128 =? x + 128))) in H'; [lia|vm_compute; reflexivity]. Qed.
Lemma lor_128_l_spec x : 0 <= x < 128 -> Z.lor 128 x = 128 + x.
Proof. intros H. rewrite Z.lor_comm, lor_128_spec by lia. lia. Qed.

Lemma hdr_octet_spec o : 0 <= o < 256 ->
  k_hdr_class o = o / 64 /\ (negb (k_hdr_cons o =? 0)) = ((o / 32) mod 2 =? 1) /\ k_hdr_num o = o mod 32.
Proof.
  intros H.
  apply (byte_small (fun o => (k_hdr_class o =? o / 64) && Bool.eqb (negb (k_hdr_cons o =? 0)) ((o / 32) mod 2 =? 1) && (k_hdr_num o =? o mod 32))) in H;
    [|vm_compute; reflexivity].
  apply andb_prop in H. destruct H as [H H3]. apply andb_prop in H. destruct H as [H1 H2].
  apply eqb_prop in H2. split; [lia|]. split; [exact H2|lia].
Qed.

(* identifier octet: class << 6 | constructed << 5 | low five bits *)
Definition ident_first (cls : Z) (cons : bool) (low : Z) : Z := 64 * cls + (if cons then 32 else 0) + low.
Lemma ident_octet_spec c k n : 0 <= c <= 3 -> 0 <= n <= 31 ->
  k_der_ident_low (k_der_ident_cons (k_der_ident_class c) k) n = ident_first c k n /\
  (n = 31 -> k_der_ident_high (k_der_ident_cons (k_der_ident_class c) k) = ident_first c k 31).
Proof.
  intros Hc Hn. unfold ident_first.
  assert (Hx : 0 <= 32 * c + n < 256) by lia.
  pose (f := fun x => let c := x / 32 in let n := x mod 32 in
     (3 <? c) || (((k_der_ident_low (k_der_ident_cons (k_der_ident_class c) true) n =? 64 * c + 32 + n) &&
      (k_der_ident_low (k_der_ident_cons (k_der_ident_class c) false) n =? 64 * c + 0 + n)) &&
      ((k_der_ident_high (k_der_ident_cons (k_der_ident_class c) true) =? 64 * c + 32 + 31) &&
       (k_der_ident_high (k_der_ident_cons (k_der_ident_class c) false) =? 64 * c + 0 + 31)))).
  apply (byte_small f) in Hx; [|vm_compute; reflexivity]. unfold f in Hx.
  replace ((32 * c + n) / 32) with c in Hx by lia. replace ((32 * c + n) mod 32) with n in Hx by lia.
  destruct k; lia.
Qed.

(* ---- generic list facts *)
Lemma last_app_single {A} (l : list A) t d : last (l ++ [t]) d = t.
Proof. induction l as [|x r IH]; cbn; auto. destruct (r ++ [t]) eqn:E; [destruct r; discriminate|exact IH]. Qed.
Lemma le_val_app a b : le_val (a ++ b) = le_val a + P (length a) * le_val b.
Proof. induction a as [|x a IH]; cbn [app le_val length]; [rewrite P_0; lia|]. rewrite IH, P_S. lia. Qed.
Lemma be_val_cons x l : be_val (x :: l) = x * P (length l) + be_val l.
Proof. unfold be_val. cbn [rev]. rewrite le_val_app, rev_length. cbn [le_val]. lia. Qed.
Lemma be_val_app a b : be_val (a ++ b) = be_val a * P (length b) + be_val b.
Proof. unfold be_val. rewrite rev_app_distr, le_val_app, rev_length. lia. Qed.
Lemma be_val_nil : be_val [] = 0. Proof. reflexivity. Qed.
Lemma P_add a b : P (a + b) = P a * P b.
Proof. induction a as [|a IH]; [rewrite P_0; change (0 + b)%nat with b; lia|]. cbn [Nat.add]. rewrite !P_S, IH. lia. Qed.
Lemma P_ge1 n : 1 <= P n. Proof. pose proof (P_pos n). lia. Qed.
Lemma P_mono a b : (a <= b)%nat -> P a <= P b.
Proof. intros H. replace b with (a + (b - a))%nat by lia. rewrite P_add. pose proof (P_pos a). pose proof (P_ge1 (b - a)). nia. Qed.

Lemma wfb_map_compl l : wfb l = true -> wfb (map (fun x => 255 - x) l) = true.
Proof. induction l as [|x l IH]; cbn [map]; [reflexivity|]. intros H. apply wfb_cons in H. apply wfb_cons. split; [lia|apply IH; tauto]. Qed.
Lemma wfb_single x : 0 <= x < 256 -> wfb [x] = true.
Proof. intros. apply wfb_cons. split; [lia|reflexivity]. Qed.

Lemma slice_all_from {A} (a b : list A) : slice (Some (len a)) None (a ++ b) = b.
Proof. apply slice_app_r. Qed.
Lemma slice_prefix {A} (a b : list A) : slice None (Some (len a)) (a ++ b) = a.
Proof. apply slice_none_l. Qed.
