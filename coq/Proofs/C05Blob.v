(* C05, blob layer: KeyIdentifier.unpack, ProtectionDescriptor.unpack, DPAPINGBlob.unpack and the SID ->
   security descriptor step end, on arbitrary bytes, with a value or a deliberate error. *)
From V Require Import Prelude.Base Prelude.PyInt Prelude.PySlice Prelude.PyStr gen.K_asn1 gen.C_asn1 gen.C_gkdi gen.K_sd.
From V Require Import Model.Types Model.KeyId Model.Asn1 Model.Pkcs7 Model.Blob Model.SecDesc.
From V Require Import Proofs.C05 Proofs.C05Asn1 Proofs.SecDescStr Proofs.SecDescMain.

(* strict UTF-16-LE: every step consumes two or four octets, so length b is enough fuel *)
Lemma utf16le_decode_fuel_safe : forall fuel b, (length b <= fuel)%nat -> Safe (utf16le_decode_fuel fuel b).
Proof.
  induction fuel as [|fuel IH]; intros b Hf; destruct b as [|lo r]; try exact I; cbn [length] in Hf; [lia|].
  cbn [utf16le_decode_fuel]. destruct r as [|hi r]; [reflexivity|]. cbn [length] in Hf.
  destruct ((lo + 256 * hi <? 55296) || (57343 <? lo + 256 * hi)).
  { apply Safe_bind; [apply IH; lia|]. intros; exact I. }
  destruct (56320 <=? lo + 256 * hi); [reflexivity|].
  destruct r as [|lo2 [|hi2 r2]]; try reflexivity.
  destruct ((56320 <=? lo2 + 256 * hi2) && (lo2 + 256 * hi2 <=? 57343)); [|reflexivity].
  apply Safe_bind; [apply IH; cbn [length] in *; lia|]. intros; exact I.
Qed.
Lemma utf16le_decode_safe b : Safe (utf16le_decode b).
Proof. apply utf16le_decode_fuel_safe. lia. Qed.

Lemma uuid_of_bytes_le_safe b : Safe (uuid_of_bytes_le b).
Proof. unfold uuid_of_bytes_le. destruct (len b =? 16); [exact I|reflexivity]. Qed.

(* KeyIdentifier.unpack: slices clamp, int.from_bytes accepts short input; only the magic, the UUID length and
   the two UTF-16 decodes can fail, all with ValueError. The key info is a slice of the input. *)
Lemma KeyIdentifier_unpack_safe data :
  SafeP (fun k => wfb data = true -> wfb (kid_key_info k) = true) (KeyIdentifier_unpack data).
Proof.
  unfold KeyIdentifier_unpack. destruct (negb (beqb _ c_KEYID_MAGIC)); [reflexivity|].
  eapply SafeP_bind with (Q := fun _ => True); [apply Safe_SafeP, uuid_of_bytes_le_safe|]. intros rkid _.
  eapply SafeP_bind with (Q := fun _ => True); [apply Safe_SafeP, utf16le_decode_safe|]. intros dom _.
  eapply SafeP_bind with (Q := fun _ => True); [apply Safe_SafeP, utf16le_decode_safe|]. intros forest _.
  cbn [SafeP kid_key_info]. intros Hw. now apply wfb_slice, wfb_slice.
Qed.

(* readers used for their error class only *)
Ltac rs L := eapply SafeP_bind with (R := fun _ => True); [ apply L | cbv beta ].
Lemma ProtectionDescriptor_unpack_safe data : Safe (ProtectionDescriptor_unpack data).
Proof.
  unfold ProtectionDescriptor_unpack. apply SafeP_Safe with (Q := fun _ => True).
  rs (read_sequence_safe data None None). intros [r ?] _.
  rs (read_object_identifier_safe r None None). intros [ct r1] _.
  rs (read_sequence_safe r1 None None). intros [r2 ?] _.
  rs (read_sequence_safe r2 None None). intros [r3 ?] _.
  rs (read_sequence_safe r3 None None). intros [r4 ?] _.
  rs (read_utf8_string_safe r4 None None). intros [vt r5] _.
  rs (read_utf8_string_safe r5 None None). intros [v r6] _.
  destruct (_ && _); [exact I|reflexivity].
Qed.

(* DPAPINGBlob.unpack *)
Lemma blob_unpack_safe data : wfb data = true ->
  SafeP (fun b => wfb (kid_key_info (b_key_identifier b)) = true) (blob_unpack data).
Proof.
  intros Hw. unfold blob_unpack.
  eapply SafeP_bind; [apply (peek_header_safe data)|]. intros h _.
  eapply SafeP_bind; [apply (ContentInfo_unpack_safe (slice None (Some (h_tlen h + h_len h)) data) (Some h));
                      now apply wfb_slice|]. cbv beta. intros ci Hci.
  destruct (negb (oid_eqb (ci_content_type ci) oid_enveloped_data)); [reflexivity|].
  eapply SafeP_bind; [apply (EnvelopedData_unpack_safe (ci_content ci) Hci)|]. cbv beta. intros ed Hed.
  destruct (ed_recipient_infos ed) as [|kek_info [|? ?]]; try reflexivity.
  apply Forall_inv in Hed.
  destruct (negb (ed_version ed =? 2) || negb (kri_version kek_info =? 4)); [reflexivity|].
  eapply SafeP_bind; [apply (KeyIdentifier_unpack_safe (kekid_key_identifier (kri_kekid kek_info)))|]. cbv beta.
  intros kid Hkid. specialize (Hkid Hed).
  destruct (kekid_other (kri_kekid kek_info)) as [other|]; [|reflexivity].
  destruct (negb (oid_eqb (oka_id other) oid_ms_software)); [reflexivity|].
  eapply SafeP_bind with (Q := fun _ => True); [apply Safe_SafeP, ProtectionDescriptor_unpack_safe|]. intros sid _.
  cbn [SafeP b_key_identifier]. exact Hkid.
Qed.

(* SID string -> bytes, ACE, security descriptor (C08 proves the only exception class is ValueError) *)
Lemma sid_parse_safe str : Safe (sid_parse str).
Proof. destruct (sid_parse str) eqn:E; [exact I|]. now rewrite (sid_parse_raises _ _ E). Qed.
Lemma sid_to_bytes_safe str : Safe (sid_to_bytes str).
Proof. unfold sid_to_bytes. apply Safe_bind; [apply sid_parse_safe|]. intros; exact I. Qed.
Lemma get_target_sd_safe str : Safe (get_target_sd str).
Proof. destruct (get_target_sd str) eqn:E; [exact I|]. now rewrite (get_target_sd_raises _ _ E). Qed.
